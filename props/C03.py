"""C03 a pattern accepts exactly the headers of its short/long-form language."""
import itertools, glob, os, re
import vf, spec, gen

ID = 'C03'
FLAVORS = ['default', 'strict']
RULE = ('MATCH lines: pattern (<= 4 keywords from the vocabulary ABc, Xy, ABCd, Q, each optional/numeric or not, +-?; plus every pattern literal shipped in '
        'libscpi/test and examples) x header assembled from the pattern\'s own spellings (short/long, either case, digits, optional keywords present/absent) and near misses; '
        'numbers array of 4, 1 and NULL; four-keyword patterns with optional first and last keyword against headers that stop after 1..4 keywords; a third of the lines also on a strict ISO C build (-std=c99 without feature-test macros), where the library compares with its own case-insensitive routine. Non-trivial: accepted pairs and rejected pairs whose header shares the first keyword; distinct = distinct (pattern, header, n).')
MODELLED = 'matchCommand/matchPattern/compareStr* are modelled by MatchModel (same cursor arithmetic); SCPI_Match/IsCmd/CommandNumbers are one-line wrappers, exercised through the scenario stream of C02'
ASSUMPTIONS = ['acceptance is judged only for patterns in which no optional keyword shares a spelling with a keyword that may follow it (the property\'s side condition); other patterns are compared model vs implementation only']

KW = ["ABc", "Xy", "ABCd", "Q"]
PIECES = ["AB", "ABC", "ABCD", "ABc", "X", "XY", "Q", "A", "ABCDE", "AB1", "ABC12", "X0", "XY7", "ABCD3", "Q5", "1", "", "AB_", "AB+3", "AB 7", "Q99999999999", "*Q", "xy", "abcd", "q"]


def shipped_patterns():
    pats = set()
    for f in glob.glob(os.path.join(vf.REPO, 'libscpi/test/*.c')) + glob.glob(os.path.join(vf.REPO, 'examples/common/*.c')):
        try:
            src = open(f, errors='replace').read()
        except OSError:
            continue
        for m in re.finditer(r'\.pattern\s*=\s*"([^"]+)"', src):
            pats.add(m.group(1))
        for m in re.finditer(r'\{\s*"([*A-Za-z\[:][^"]*)"\s*,\s*\w+', src):
            pats.add(m.group(1))
        for m in re.finditer(r'(?:TEST_MATCH_COMMAND|TEST_MATCH_COMMAND2|NOPAREN_MATCH_COMMAND)?\(\s*"([*A-Za-z\[:][A-Za-z0-9#\[\]:?*]*)"\s*,\s*"', src):
            pats.add(m.group(1))
    return sorted(p for p in pats if spec.parse_pattern(p) is not None and len(p) < 100)


def render(items, query):
    s = ''
    for i, (k, o, nm) in enumerate(items):
        s += '[:' if o else (':' if i > 0 else '')
        s += k + ('#' if nm else '') + (']' if o else '')
    return s + ('?' if query else '')


def spellings(R, pat):
    """headers derived from the pattern's own language, plus near misses"""
    pp = spec.parse_pattern(pat)
    if pp is None:
        return []
    items, q, common = pp
    out = []
    if common:
        out += [pat, pat.lower(), ':' + pat, pat[:-1] if q else pat + '?', pat[:2]]
        return out
    for _ in range(8):
        segs = []
        for (w, ns, opt, num) in items:
            if opt and R.random() < 0.5:
                continue
            form = R.choice([w, w[:ns], w[:ns], w.upper(), w.lower(), w[:ns].lower()])
            miss = R.random()
            if miss < 0.08:
                form = form + R.choice('AXz')
            elif miss < 0.16 and len(form) > 1:
                form = form[:-1]
            elif miss < 0.2:
                form = R.choice(PIECES)
            if R.random() < (0.6 if num else 0.12):
                form += str(R.choice([0, 1, 7, 12, 345, 2147483647, 99999999999]))
            segs.append(form)
        if not segs:
            continue
        h = (':' if R.random() < 0.3 else '') + ':'.join(segs) + ('?' if (q if R.random() < 0.85 else not q) else '')
        out.append(h)
    # drop a mandatory keyword, reorder, duplicate
    man = [w[:ns] for (w, ns, opt, num) in items]
    if len(man) > 1:
        out.append(':'.join(man[1:]) + ('?' if q else ''))
        out.append(':'.join(reversed(man)) + ('?' if q else ''))
        out.append(':'.join(man + man[-1:]) + ('?' if q else ''))
    out.append(':'.join(man) + '::' + ('?' if q else ''))
    return out


def oracle(case, out):
    f = case.split()
    if out.startswith('X') or f[0] != 'MATCH':
        return []
    pat = vf.unhx(f[1]).decode('latin1')
    hdr = vf.unhx(f[2]).decode('latin1')
    n, dflt = int(f[3]), int(f[4])
    if not hdr or not spec.unambiguous(pat):
        return []
    if not re.fullmatch(r'[A-Za-z0-9_:*?]*', hdr) and n >= 0:
        # with a numbers array the suffix is read by strtol, which is laxer than the language (sign, blanks); such headers
        # never reach that path through the parser because dispatch (numbers = NULL) has already rejected them.  They are
        # judged on the numbers = NULL path only, which is the one SCPI_Match / SCPI_IsCmd / dispatch use.
        return []
    r = spec.accepts(pat, hdr)
    if r is None:
        return []
    acc, nums = r
    o = out.split()
    got = o[1].split(':')
    gacc = got[0] == '1'
    bad = []
    if gacc != acc:
        bad.append(('language', 'pattern %r header %r: implementation %s, the short/long-form language %s' % (pat, hdr, 'accepts' if gacc else 'rejects', 'accepts' if acc else 'rejects')))
    elif acc and n >= 0:
        gn = [int(x) for x in got[1].split(',')] if len(got) > 1 and got[1] else []
        want = [(v if v is not None else dflt) for v in nums]
        # values beyond int32 are not constrained by the property (strtol clamps)
        for i in range(min(n, len(want))):
            if want[i] > 2147483647:
                continue
            if gn[i] != want[i]:
                bad.append(('numbers', 'pattern %r header %r: suffix %d reported as %d, expected %d' % (pat, hdr, i, gn[i], want[i])))
                break
        for i in range(len(want), n):
            if gn[i] != -99:
                bad.append(('numbers-extra', 'pattern %r header %r: entry %d beyond the pattern\'s suffixes was written (%d)' % (pat, hdr, i, gn[i])))
                break
    return bad


def streams(tier, rng):
    pats = []
    maxn = 3 if tier == 'quick' else 4
    allp = []
    for n in range(1, maxn + 1):
        for c in range(16 ** n):
            items = []
            cc = c
            for i in range(n):
                v = cc % 16
                cc //= 16
                items.append((KW[v % 4], (v // 4) & 1 == 1, (v // 4) >> 1 == 1))
            for q in (False, True):
                allp.append(render(items, q))
    rng.shuffle(allp)
    pats = allp[:1500 if tier == 'quick' else 40000] + shipped_patterns()
    cases = []
    for p in pats:
        hs = spellings(rng, p)
        for _ in range(3):
            ns = rng.randint(1, 3 if tier == 'quick' else 5)
            hs.append((':' if rng.random() < 0.3 else '') + ':'.join(rng.choice(PIECES) for _ in range(ns)) + ('?' if rng.random() < 0.5 else ''))
        for h in hs:
            if not h:
                continue
            n = rng.choice([-1, 4, 4, 1, 2])
            cases.append('MATCH %s %s %d %d' % (vf.hx(p), vf.hx(h), n, rng.choice([-1, 0, 1, 7])))
    # four-keyword patterns whose first and last keyword are optional (the quick tier samples patterns of up to three keywords),
    # against headers that stop after one, two or three keywords: a header must spell every mandatory keyword
    short = {'ABc': 'AB', 'Xy': 'X', 'ABCd': 'ABC', 'Q': 'Q'}
    for combo in itertools.product(KW, repeat=4):
        if rng.random() > (0.25 if tier == 'quick' else 1.0):
            continue
        for numeric in (False, True):
            for q in (False, True):
                items = [(combo[0], True, numeric), (combo[1], False, numeric), (combo[2], False, False), (combo[3], True, False)]
                p = render(items, q)
                for first in (True, False):
                    for k in (1, 2, 3, 4):
                        ks = list(combo[:k]) if first else list(combo[1:k])
                        if not ks:
                            continue
                        h = ':'.join(short[x] + ('2' if (numeric and rng.random() < 0.5 and i < 2) else '') for i, x in enumerate(ks)) + ('?' if q else '')
                        cases.append('MATCH %s %s %d %d' % (vf.hx(p), vf.hx(h.lower() if rng.random() < 0.3 else h), rng.choice([-1, 4]), rng.choice([-1, 1])))
    # the regression inputs of the fixed defect (observation 3)
    cases.append('MATCH %s %s 2 -1' % (vf.hx('Xy[:ABc#]'), vf.hx('X')))
    cases.append('MATCH %s %s 3 5' % (vf.hx('Xy#[:ABc#][:Q#]'), vf.hx('XY2')))

    def nontrivial(c, o):
        f = c.split()
        p = vf.unhx(f[1]).decode('latin1')
        h = vf.unhx(f[2]).decode('latin1')
        if o.startswith('MATCH 1'):
            return c
        return c if h[:2].upper().lstrip(':') == p[:2].upper().lstrip('[:') else None
    yield {'name': 'match', 'coqcheck': True, 'cases': cases, 'oracle': oracle, 'nontrivial': nontrivial}
    # the same matcher in a strict ISO C build, where the library compares with its own case-insensitive routine instead of strncasecmp
    yield {'name': 'match-strict-iso', 'flavor': 'strict', 'cases': cases[:: (3 if tier == 'quick' else 2)], 'oracle': oracle, 'nontrivial': nontrivial}
    # the same question asked through the parser: a one-entry table and the header as a message (findCommandHeader + matchCommand)
    dcases, dinfo = [], {}
    for p in pats[:: (3 if tier == 'quick' else 1)]:
        if not spec.unambiguous(p):
            continue
        for h in spellings(rng, p)[:6] + [None]:
            if h is None:
                # long forms with multi-digit suffixes: the header is longer than the pattern text
                pp = spec.parse_pattern(p)
                if pp is None or pp[2]:
                    continue
                h = ':'.join(w.upper() + (str(rng.choice([10, 123, 4567])) if num else '') for (w, ns, opt, num) in pp[0]) + ('?' if pp[1] else '')
            if '*' in h and not (h.startswith('*') and ':' not in h):
                continue            # "*" inside a compound header is not a well-formed header for the lexer
            if not h or not re.fullmatch(r'[A-Za-z0-9_:*?]+', h) or '::' in h or h.endswith(':') or h.startswith('?') or re.search(r'(^|:)[0-9_?]', h) or ('?' in h[:-1]):
                continue
            c = gen.scenario(256, 8, [(1, p.encode(), 'NUMS:4:-1')], [('I', h.encode() + b'\n')])
            dcases.append(c)
            dinfo[c] = (p, h)

    def doracle(case, out):
        if out.startswith('X') or ' X' in out or case not in dinfo:
            return []
        p, h = dinfo[case]
        r = spec.accepts(p, h)
        if r is None:
            return []
        ran = ' H1:' in out
        if ran != r[0]:
            return [('dispatch-language', 'table [%r], message %r: handler %s, the pattern language %s the header' % (p, h, 'ran' if ran else 'did not run', 'accepts' if r[0] else 'rejects'))]
        if ran:
            m = re.search(r' N(\d):([-\d,]*)', out)
            want = [(v if v is not None else -1) for v in r[1]][:4]
            got = [int(x) for x in m.group(2).split(',')][:len(want)] if m else None
            if m is None or m.group(1) != '1' or any(w <= 2147483647 and g != w for g, w in zip(got, want)):
                return [('dispatch-numbers', 'table [%r], message %r: SCPI_CommandNumbers gave %s, expected %s' % (p, h, m.group(0) if m else None, want))]
        return []
    yield {'name': 'through-parser', 'cases': dcases, 'oracle': doracle, 'nontrivial': lambda c, o: c if ' H1:' in o else None}
    # the suffixes a handler is told belong to the header that was accepted: for a unit that inherits its leading keywords from
    # the preceding unit of the message that is the composed (effective) header
    rcases, rinfo = [], {}
    for p in pats[:: (2 if tier == 'quick' else 1)]:
        pp = spec.parse_pattern(p)
        if pp is None or pp[2] or len(pp[0]) < 2 or not spec.unambiguous(p):
            continue
        items, q, _ = pp
        segs = []
        for (w, ns, opt, num) in items:
            segs.append(rng.choice([w.upper(), w[:ns].upper(), w.lower()]) + (str(rng.choice([2, 7, 13, 456])) if (num and rng.random() < 0.8) else ''))
        h1 = ':'.join(segs) + ('?' if q else '')
        k = rng.randint(1, len(segs) - 1)                 # the second unit repeats the last len-k keywords with fresh suffixes
        segs2 = []
        for (w, ns, opt, num) in items[k:]:
            segs2.append(rng.choice([w.upper(), w[:ns].upper()]) + (str(rng.choice([3, 8, 21])) if (num and rng.random() < 0.8) else ''))
        h2 = ':'.join(segs2) + ('?' if q else '')
        if not re.fullmatch(r'[A-Za-z][A-Za-z0-9_:]*\??', h1) or not re.fullmatch(r'[A-Za-z][A-Za-z0-9_:]*\??', h2):
            continue
        c = gen.scenario(256, 8, [(1, p.encode(), 'NUMS:4:-1')], [('I', (h1 + ';' + h2 + '\n').encode())])
        rcases.append(c)
        rinfo[c] = (p, [h1, h2])

    def roracle(case, out):
        if out.startswith('X') or ' X' in out or case not in rinfo:
            return []
        p, hs = rinfo[case]
        effs = spec.effective_headers(hs)
        toks = [t for t in out.split(' ') if t[:2] == 'H1' or t[:1] == 'N' or t == 'E-113']
        want = []
        for e in effs:
            r = spec.accepts(p, e)
            if r is None:
                return []
            want.append(('H', [(v if v is not None else -1) for v in r[1]][:4]) if r[0] else ('U',))
        got, i = [], 0
        while i < len(toks):
            if toks[i].startswith('H1'):
                nums = None
                if i + 1 < len(toks) and toks[i + 1].startswith('N'):
                    m = re.match(r'N(\d):([-\d,]*)', toks[i + 1])
                    nums = [int(x) for x in m.group(2).split(',')] if m and m.group(1) == '1' else 'fail'
                    i += 1
                got.append(('H', nums))
            elif toks[i] == 'E-113':
                got.append(('U',))
            i += 1
        if len(got) != len(want):
            return [('dispatch-relative', 'table [%r], message %r: units seen %s, expected %s' % (p, hs, got, want))]
        for g, w, e in zip(got, want, effs):
            if g[0] != w[0]:
                return [('dispatch-relative', 'table [%r], message %r: effective header %r %s' % (p, hs, e, 'should have run the handler' if w[0] == 'H' else 'should be undefined'))]
            if w[0] == 'H' and (g[1] in (None, 'fail') or any(x <= 2147483647 and y != x for x, y in zip(w[1], g[1]))):
                return [('numbers-relative', 'table [%r], message %r: for the effective header %r SCPI_CommandNumbers gave %s, expected %s' % (p, hs, e, g[1], w[1]))]
        return []
    yield {'name': 'relative-units', 'coqcheck': True, 'cases': rcases, 'oracle': roracle, 'nontrivial': lambda c, o: c if o.count(' H1:') >= 2 else None}
