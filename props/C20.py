"""C20 the allocation-free build stores error texts intact or not at all."""
import itertools
import vf

ID = 'C20'
FLAVORS = ['static']
RULE = ('EQ histories on the static-heap build (-DUSE_MEMORY_ALLOCATION_FREE=0): every sequence up to length 4 (quick) / 6 (thorough) over {push with texts of length 0..heap size, '
        'push without text, push of the empty string with and without an explicit length, pop, SYST:ERR?, clear, count} for heap sizes 2..12 and capacities 1..4 (sampled when the product exceeds 6000 per configuration), plus random long histories on heaps up to 64 bytes; '
        'the heap is an exact-size allocation under ASan and its bytes, write index and free count are compared with the model after every operation. '
        'Non-trivial: a history in which a text was dropped or the heap wrapped; distinct = distinct lines.')
MODELLED = 'scpiheap_init/strndup/get_parts/free and the error queue over them are modelled in HeapModel (byte array, wr, count)'
ASSUMPTIONS = ['a push with explicit info_len = 0 means strnlen(text, 255)']


def oracle(case, out):
    if out.startswith('X'):
        return []
    parts = case.split('|')
    cap, hs = int(parts[0].split()[1]), int(parts[0].split()[2])
    q = []
    toks = out.split(' ')[1:]
    for k, (p, g) in enumerate(zip(parts[1:], toks)):
        f = p.split(' ')
        res, _, heap = g.partition('/')
        wr, cnt, hb = heap.split(',') if heap else ('0', '0', '')
        if f[0] == 'P':
            code, info, ln = int(f[1]), f[2], int(f[3])
            text = None
            if info == '=':
                text = None          # the empty string: nothing to store
            elif info != '-':
                t = bytes.fromhex(info).split(b'\x00')[0]
                text = t[:(ln if ln else 255)]
            if len(q) < cap:
                q.append((code, text))
            else:
                q[-1] = (-350, None)
        elif f[0] in ('O', 'S'):
            c, t = q.pop(0) if q else (0, None)
            if f[0] == 'O':
                gc, _, gt = res[1:].partition(':')
                if int(gc) != c:
                    return [('fifo', 'operation %d: popped code %s, expected %d' % (k + 1, gc, c))]
                if ':' in res:
                    gtb = bytes.fromhex(gt)
                    if t is None or gtb != t:
                        return [('foreign-text', 'operation %d: error %d came back with text %r, it was pushed with %r' % (k + 1, c, gtb, t))]
            else:
                resp = vf.unhx(res[1:])
                body = resp.split(b',"', 1)[1][:-1].replace(b'""', b'"') if b',"' in resp else b''
                if b';' in body:
                    gtb = body.split(b';', 1)[1]
                    if t is None or not t.startswith(gtb) or (len(gtb) < len(t) and len(body) < 250):
                        return [('foreign-text', 'operation %d: SYST:ERR? reported text %r, the error was pushed with %r' % (k + 1, gtb, t))]
        elif f[0] == 'C':
            q = []
        if not q and heap:
            if int(cnt) != hs:
                return [('not-reusable', 'operation %d: queue empty but only %s of %d heap bytes are free' % (k + 1, cnt, hs))]
    return []


def streams(tier, rng):
    depth = 4 if tier == 'quick' else 6
    cases = []
    for hs in range(2, 13):
        for cap in (1, 2, 3, 4):
            texts = [b'', b'a', b'bc', b'x' * (hs // 2), b'y' * (hs - 1), b'z' * hs, b'w' * (hs + 1)]
            A = ['P %d %s 0 0' % (-100 - i, t.hex() if t else '-') for i, t in enumerate(texts)] + ['P 9 - 0 0', 'P 10 = 0 0', 'P 11 = 4 0', 'O', 'S', 'C', 'N', 'P -113 %s 2 0' % vf.hx('qrstu')]
            for d in range(1, depth + 1):
                total = len(A) ** d
                if total > (150 if tier == 'quick' else 3000):
                    seqs = [tuple(rng.choice(A) for _ in range(d)) for _ in range(150 if tier == 'quick' else 3000)]
                else:
                    seqs = itertools.product(A, repeat=d)
                for s in seqs:
                    cases.append('|'.join(['EQ %d %d' % (cap, hs)] + list(s)))
    nr, ln = (400, 60) if tier == 'quick' else (3000, 1500)
    for _ in range(nr):
        hs = rng.choice([2, 3, 5, 8, 16, 33, 64])
        cap = rng.choice([1, 2, 3, 4, 8])
        ops = []
        for _ in range(rng.randint(5, ln)):
            if rng.random() < 0.55:
                n = rng.choice([0, 1, 2, hs // 3, hs // 2, hs - 1, hs, hs + 1])
                t = bytes(rng.choice(b'abcdefgh";') for _ in range(max(0, n)))
                ops.append('P %d %s %d 0' % (rng.choice([-100, -113, 5, 77]), t.hex() if t else rng.choice(['-', '=']), rng.choice([0, 0, 0, 1, 3])))
            else:
                ops.append(rng.choice(['O', 'O', 'S', 'S', 'C', 'N']))
        cases.append('|'.join(['EQ %d %d' % (cap, hs)] + ops))
    yield {'name': 'static-heap', 'flavor': 'static', 'cases': cases, 'oracle': oracle, 'nontrivial': lambda c, o: c if (':' in o or 'o-350' in o) else None}
