"""C02 each message unit runs exactly the first command matching its effective header."""
import vf, gen, spec

ID = 'C02'
FLAVORS = ['default', 'strict']
RULE = ('messages of 1..6 units whose headers are drawn from short/long spellings in either case, with/without leading colon, optional keywords present/absent, numeric suffixes, '
        'undefined and common headers, over 8 tables (incl. overlapping patterns, shuffled order); each unit optionally carries a numeric parameter; handlers report the matched tag, '
        'the effective header, SCPI_CommandNumbers and SCPI_IsCmd. Non-trivial: >= 2 units of which at least one is relative (no leading colon, not common); distinct = distinct scenario lines.')
MODELLED = 'SCPI_Parse unit loop, composeCompoundCommand (in-place on the buffer), findCommandHeader, SCPI_CmdTag/SCPI_CommandNumbers are modelled in ParserModel; SCPI_IsCmd is exercised on the implementation only'
ASSUMPTIONS = ['"preceding unit" is taken literally: the path comes from the preceding unit\'s effective header whether or not that unit matched a command (DESIGN.md section 9)']

TABLES = [
    [b"TEST:A?", b"TEST:B?", b"TEST:SUB:C?", b"TEST:SUB:D", b"*IDN?", b"*RST", b"II", b"SYSTem:ERRor[:NEXT]?"],
    [b"MEASure[:SCALar]:VOLTage[:DC]?", b"MEASure:VOLTage:AC?", b"MEASure[:SCALar]:CURRent?", b"OUTPut#:FREQuency#", b"OUTPut#:STATe", b"[:SOURce]:LEVel", b"*CLS"],
    [b"TEST:A?", b"TEST[:SUB]:A?", b"TEST:SUB:A?", b"TESTing:A?", b"A?", b"[:TEST]:B?", b"B?"],            # overlapping
    [b"CHannel#:RANGe#:AUTO", b"CHannel#:RANGe#:AUTO?", b"CHannel#[:RANGe#]:LIMit", b"CHannel#", b"*OPC?", b"RANGe#:AUTO"],
    [b"A", b"A:B", b"A:B:C", b"A:B:C:D", b"B", b"C", b"D", b"*X"],
    # an optional keyword between mandatory ones listed before an overlapping entry; trailing optional numeric keywords; one header, two entries
    [b"[:SOURce]:VOLTage[:LEVel]:TRIGgered[:AMPLitude]", b"[:SOURce]:VOLTage[:LEVel][:IMMediate][:AMPLitude]", b"[:SOURce]:VOLTage:PROTection[:LEVel]",
     b"TRIGger#[:SEQuence#][:LEVel#]", b"OUTPut[:STATe]", b"OUTPut#[:STATe]", b"*WAI"],
    # keywords with a digit or an underscore in the capital part (the short form ends where the lower-case letters begin), next to
    # entries that spell only the letters before it
    [b"SOURce:BB:W3GPp:STATe", b"SOURce:BB:W:STATe", b"SYSTem:COMMunicate:RS232:BAUD", b"SYSTem:COMMunicate:RS:BAUD?", b"OUT_Aux:LEVel", b"OUTPut:LEVel?", b"CH1x:ON", b"*TST?"],
    # the letters at both ends of the alphabet in either case (a hand-written case folding with an off-by-one bound)
    [b"SENSe:ZERO", b"SENSe:Z#", b"ZOOM:AZimuth?", b"AAA:ZZZ", b"*ZZZ?", b"Zz"],
]
HEADS = {
    0: [b"TEST:A?", b"test:a?", b":TEST:B?", b"B?", b"A?", b"SUB:C?", b"C?", b"D", b"TEST:SUB:D", b":TEST:SUB:C?", b"*IDN?", b"*idn?", b"*RST", b"II", b"ii", b"SYST:ERR?", b"SYSTEM:ERROR:NEXT?", b"ERR?", b"NEXT?", b"FOO", b"FOO:BAR?", b"TEST:A", b"TES:A?", b"*IDN"],
    1: [b"MEAS:VOLT?", b"MEASURE:SCALAR:VOLTAGE:DC?", b"meas:scal:volt?", b"VOLT?", b"VOLT:AC?", b"SCAL:CURR?", b"CURR?", b":MEAS:CURR?", b"OUTP:FREQ", b"OUTP2:FREQ3", b"OUTPUT10:FREQUENCY", b"OUTPUT123:FREQUENCY4567", b"OUTPUT77:STATE", b"FREQ5", b"STAT", b"OUTP1:STAT", b"LEV", b"SOUR:LEV", b":SOURCE:LEVEL", b"*CLS", b"MEAS:VOLT:DC:X?", b"OUTP:FREQx"],
    2: [b"TEST:A?", b"TEST:SUB:A?", b"SUB:A?", b"A?", b"B?", b"TEST:B?", b":B?", b"TESTING:A?", b"TESTI:A?", b":A?"],
    3: [b"CH1:RANG2:AUTO", b"CHAN:RANG:AUTO?", b"CHANNEL7:RANGE:AUTO", b"CHANNEL1234:RANGE5678:AUTO", b"CHANNEL99:RANGE11:LIMIT", b"RANG3:AUTO", b"AUTO", b"AUTO?", b"CH2:LIM", b"CHAN3:RANG4:LIM", b"LIM", b"CH5", b":CH", b"*OPC?", b"CH1:RANG2:AUTO:X"],
    4: [b"A", b"B", b"C", b"D", b":A", b"A:B", b":A:B", b"A:B:C", b"A:B:C:D", b"*X", b"E", b"a:b", b"c", b"d"],
    5: [b"VOLT", b":VOLTage", b"VOLT:LEV", b"LEV", b"VOLT:TRIG", b"VOLT:LEV:TRIG:AMPL", b"SOUR:VOLT", b"VOLT:IMM", b"VOLT:LEV:IMM:AMPL", b"VOLT:PROT", b"PROT:LEV", b"TRIG", b"IMM", b"AMPL",
        b"TRIG2", b"TRIG", b"TRIG2:SEQ3", b"TRIG2:LEV4", b"TRIG1:SEQ2:LEV3", b"SEQ5", b"LEV6", b"OUTP", b"OUTP2", b"OUTP:STAT", b"OUTP4:STAT", b"STAT", b"*WAI", b"VOLT:FOO"],
    6: [b"SOUR:BB:W3GP:STAT", b"SOUR:BB:W:STAT", b"SOUR:BB:W3GPP:STAT", b"SOUR:BB:W3:STAT", b"sour:bb:w3gp:stat", b"BB:W3GP:STAT", b"W:STAT", b"W3GP:STAT", b"STAT", b"SYST:COMM:RS232:BAUD",
        b"SYST:COMM:RS:BAUD", b"SYST:COMM:RS:BAUD?", b"RS232:BAUD", b"RS:BAUD", b"BAUD", b"OUT_A:LEV", b"OUT:LEV", b"OUT_AUX:LEV", b"out_a:lev", b"OUT:LEV?", b"OUTP:LEV?", b"OUT_:LEV",
        b"CH1:ON", b"CH:ON", b"CH1X:ON", b"CH1x:on", b"ON", b"*TST?", b":SOUR:BB:W3GP:STAT", b":OUT_A:LEV"],
    7: [b"SENS:ZERO", b"sens:zero", b"Sense:Zero", b"SENS:Z15", b"sens:z15", b"sens:z", b"ZERO", b"zero", b"ZOOM:AZ?", b"zoom:az?", b"zoom:azimuth?", b"AZIM?", b"aaa:zzz", b"AAA:ZZZ", b"aAa:zZz",
        b"*ZZZ?", b"*zzz?", b"ZZ", b"zz", b"zZ", b"Z", b"AAA:ZZ", b"SENS:YERO"],
}


def make(R, with_iscmd, nullcb=False):
    ti = R.randrange(len(TABLES))
    pats = TABLES[ti][:]
    if R.random() < 0.5:
        R.shuffle(pats)
    table = []
    for tag, p in enumerate(pats):
        ops = []
        if b'#' in p or R.random() < 0.2:
            ops.append('NUMS:%d:%d' % (R.randint(0, 3), R.choice([-1, 0, 1])))
        if with_iscmd:
            ops.append('ISCMD:' + vf.hx(R.choice(pats)))
        if R.random() < 0.3:
            ops.append('PI32:0')
        if nullcb and R.random() < 0.3:
            ops = ['NULL']      # an entry without callback: it still is the first match, nothing runs
        table.append((tag, p, ';'.join(ops) if ops else '-'))
    nulls = set(t for t, _, sc in table if sc == 'NULL')
    units = []
    for _ in range(R.choice([1, 2, 2, 3, 3, 4, 5, 6])):
        h = R.choice(HEADS[ti])
        d = b''
        if R.random() < 0.25:
            d = R.choice([b' 1', b' 42', b'  7'])
        units.append(R.choice([b'', b'', b' ']) + h + d)
    msg = b';'.join(units) + R.choice([b'\n', b'\r\n'])
    return gen.scenario(256, 16, table, [('I', msg)]), (pats, units, nulls)


def project(case, out):
    # handler starts, the undefined-header errors, command numbers
    keep = []
    for e in out.split(' ')[1:]:
        if e == '|':
            break
        if e[:1] in ('H', 'N') or e == 'E-113':
            keep.append(e)
    q = out.split(' | ')[1] if ' | ' in out else ''
    keep += [x for x in q.split() if x.startswith('Q-113')]
    return ' '.join(keep)


def oracle_factory(info):
    def oracle(case, out):
        if out.startswith('X') or case not in info:
            return []
        pats, units, nulls = info[case]
        hdrs = [u.strip().split(b' ')[0].decode('latin1') for u in units]
        eff = spec.effective_headers(hdrs)
        want = []
        undefined = []
        for u, e in zip(units, eff):
            tag = None
            amb = False
            for t, p in enumerate(pats):
                ps = p.decode()
                r = spec.accepts(ps, e)
                if not spec.unambiguous(ps):
                    amb = True
                if r and r[0]:
                    tag = t
                    break
            if amb:
                return []
            if tag is None:
                want.append(('U', e))
                undefined.append(u)
            else:
                want.append(('H', tag, e))
        evs = vf.events(out)
        got = []
        for e in evs:
            if e == '|':
                break
            if e[0] == 'H':
                t, h = e[1:].split(':', 1)
                got.append(('H', int(t), vf.unhx(h).decode('latin1')))
            elif e == 'E-113':
                got.append(('U',))
        w2 = [x if x[0] == 'H' else ('U',) for x in want if not (x[0] == 'H' and x[1] in nulls)]
        if got != w2:
            return [('dispatch', 'units %r: handler starts / undefined-header errors were %r, the first-match rule over effective headers %r gives %r' % (units, got, eff, w2))]
        # the -113 entries carry the offending text (the header as received must be in it)
        q = out.split(' | ')[1].split() if ' | ' in out else []
        texts = [vf.unhx(x.split(':')[1]) if ':' in x else b'' for x in q if x.startswith('Q-113')]
        for u, t in zip(undefined, texts):
            h = u.strip().split(b' ')[0]
            if h not in t:
                return [('undefined-text', 'undefined unit %r queued -113 with text %r which does not carry the header' % (u, t))]
        return []
    return oracle


def streams(tier, rng):
    n = 6000 if tier == 'quick' else 80000
    for name, with_iscmd, model in (('dispatch', False, True), ('dispatch-iscmd', True, False)):
        cases, info = [], {}
        for _ in range(n if model else n // 4):
            c, i = make(rng, with_iscmd)
            cases.append(c)
            info[c] = i
        # regression inputs of the fixed defect (observation 1)
        t = [(0, b"TEST:A?", '-'), (1, b"TEST:B?", '-')]
        c = gen.scenario(256, 16, t, [('I', b"TEST:A?;FOO;B?\r\n")])
        cases.append(c)
        info[c] = ([b"TEST:A?", b"TEST:B?"], [b"TEST:A?", b"FOO", b"B?"], set())

        def nontrivial(c, o):
            return c if o.count(' H') + o.count(' E-113') >= 2 else None
        yield {'name': name, 'coqcheck': True, 'cases': cases, 'model': model, 'project': project, 'oracle': oracle_factory(info), 'nontrivial': nontrivial}
        if model:
            # strict ISO C build: the library's own strncasecmp does the keyword comparison
            yield {'name': name + '-strict-iso', 'flavor': 'strict', 'cases': cases[::3], 'model': False, 'oracle': oracle_factory(info), 'nontrivial': nontrivial}
    # tables in which some entries have no callback (scpi_command_t.callback == NULL): such an entry is still the first match
    ncases, ninfo = [], {}
    for _ in range(n // 4):
        c, i = make(rng, False, nullcb=True)
        ncases.append(c)
        ninfo[c] = i
    def nproject(case, out):
        # the model runs an entry without callback as a handler that does nothing; its handler line is not an observation
        nulls = set('H%d:' % int(p.split(' ')[1]) for p in case.split('|') if p.startswith('C ') and p.endswith(' NULL'))
        return ' '.join(t for t in project(case, out).split(' ') if not any(t.startswith(n) for n in nulls))
    yield {'name': 'dispatch-null-callback', 'cases': ncases, 'model': True, 'project': nproject, 'oracle': oracle_factory(ninfo), 'nontrivial': lambda c, o: c if ' NULL' in c and o.count(' H') + o.count(' E-113') >= 1 else None}
