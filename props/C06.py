"""C06 responses are framed: ';' between units, ',' between items, one terminator."""
import vf, gen, spec

ID = 'C06'
FLAVORS = ['default']
RULE = ('scenarios of 1..3 messages (one per input call; in a quarter of them the last one arrives without terminator and is executed by a zero-length call) of 1..6 units over a table of queries and commands whose scripts emit 0..4 result items of every result type '
        '(integers in all bases, booleans, text, characters, blocks, streamed blocks completed in 1..3 data calls), push errors, and succeed or fail; '
        'plus single units of up to 70000 items (quick: 33000) followed by a second query, judged against the framed text; non-trivial: at least one unit responded and at least two units ran; distinct = distinct scenario lines.')
MODELLED = 'writeDelimiter/writeNewLine/processCommand/SCPI_Parse and every SCPI_Result* used here are modelled in ParserModel (item/delimiter/result_*); float results and arrays are in C16/C17'
ASSUMPTIONS = ['a unit "responds" iff its handler emitted at least one complete result item (DESIGN.md section 9)',
               'scripts of this stream complete every streamed block they start (unfinished blocks are exercised by C09/C17)']

SYSERR_ITEM = b'\x00SYSERR\x00'      # placeholder: the oracle accepts any <code>,"<488.2 string>" here (what is popped depends on the queue)
NAMES = [b"A?", b"B?", b"N?", b"E?", b"CMD", b"OUT", b"TEST:A?", b"TEST:B?", b"TEST:N?", b"TEST:CMD", b"*IDN?", b"*RST"]


def result_ops(R):
    """one result item: list of ops and the bytes it contributes"""
    k = R.choice(['i32', 'u32', 'i64', 'u64', 'bool', 'text', 'chars', 'block', 'stream', 'syserr'])
    if k == 'syserr':
        # SYST:ERR? style item on an empty queue: 0,"No error" (one item: number, comma and string belong together)
        return ['SYSTERR'], SYSERR_ITEM
    if k == 'i32':
        v = R.choice([0, 1, -1, 2147483647, -2147483648, R.randint(-10**6, 10**6)])
        return ['RI32:%d' % v], str(v).encode()
    if k == 'u32':
        v, b = R.choice([0, 1, 255, 4294967295, R.getrandbits(32)]), R.choice([2, 8, 10, 16])
        return ['RU32:%d:%d' % (v, b)], spec.fmt_int(v, b).encode()
    if k == 'i64':
        v = R.choice([0, -1, 9223372036854775807, -9223372036854775808, R.getrandbits(63) - 2**62])
        return ['RI64:%d' % v], str(v).encode()
    if k == 'u64':
        v, b = R.choice([0, 18446744073709551615, R.getrandbits(64)]), R.choice([2, 8, 10, 16])
        return ['RU64:%d:%d' % (v, b)], spec.fmt_int(v, b).encode()
    if k == 'bool':
        v = R.choice([0, 1])
        return ['RBOOL:%d' % v], str(v).encode()
    if k == 'text':
        t = bytes(R.choice(b'ab"\' ;,') for _ in range(R.randint(0, 6)))
        return ['RTEXT:' + vf.hx(t) if t else 'RTEXT'], spec.fmt_text(t)
    if k == 'chars':
        t = bytes(R.choice(b'abXY1') for _ in range(R.randint(1, 5)))
        return ['RCHARS:' + vf.hx(t)], t
    d = bytes(R.choice(b'\x00\n;,"a#\xff') for _ in range(R.choice([0, 0, 1, 2, 3, 5, 9])))
    if k == 'block':
        return ['RBLOCK:' + vf.hx(d) if d else 'RBLOCK'], spec.fmt_block(d)
    if not d:
        return ['RHDR:0'] + (['RDATA'] if True else []), spec.fmt_block(d)
    cuts = sorted(set(R.randint(0, len(d)) for _ in range(R.randint(0, 2))))
    ops = ['RHDR:%d' % len(d)]
    prev = 0
    for c in cuts + [len(d)]:
        if c > prev or (c == len(d) and prev == 0):
            ops.append('RDATA:' + vf.hx(d[prev:c]))
            prev = c
    if prev < len(d):
        ops.append('RDATA:' + vf.hx(d[prev:]))
    return ops, spec.fmt_block(d)


def make(R):
    table = []
    expect = {}
    names = NAMES[:]
    for tag, nm in enumerate(names):
        n = R.choice([0, 0, 1, 1, 2, 3, 4]) if nm.endswith(b'?') else R.choice([0, 0, 0, 1, 2])
        ops, items = [], []
        for _ in range(n):
            o, b = result_ops(R)
            ops += o
            items.append(b)
            if R.random() < 0.1:
                ops.append('PUSH:%d' % R.choice([-222, 5]))
        if R.random() < 0.2:
            ops.append('RETERR')
        table.append((tag, nm, ';'.join(ops) if ops else '-'))
        expect[tag] = items
    msgs = []
    for _ in range(R.randint(1, 3)):
        units = []
        for _ in range(R.choice([1, 1, 2, 2, 3, 3, 4, 5, 6])):
            h = R.choice([b"A?", b"B?", b"N?", b"E?", b"CMD", b"OUT", b":TEST:A?", b"TEST:B?", b"*IDN?", b"*RST", b"FOO?", b"a?", b"test:n?"])
            if R.random() < 0.08:
                h = R.choice([b"@", b"A? 1 2", b"$", b"B? (", b"N? 'x"])      # a unit that is not well formed: no handler, -1xx, no output
            units.append(R.choice([b'', b' ']) + h)
        msgs.append(b';'.join(units) + R.choice([b'\n', b'\r\n']))
    ins = [('I', m) for m in msgs]
    if R.random() < 0.15:
        ins = [('L', m) for m in msgs]      # the public SCPI_Parse called directly, one message per call
    if R.random() < 0.25:
        # the last message arrives without its terminator and is executed by a zero-length input call
        ins = ins[:-1] + [('I', msgs[-1].rstrip(b'\r\n')), ('I', b'')]
    return gen.scenario(256, 16, table, ins), expect


def project(case, out):
    return ' '.join(e for e in out.split(' ')[1:] if e[:1] in ('W', 'F', 'R'))


def oracle_factory(expects):
    def oracle(case, out):
        if out.startswith('X'):
            return []
        exp = expects.get(case)
        if exp is None:
            return []
        evs = vf.events(out)
        bad = []
        # split the trace into messages at R events
        msg, cur = [], []
        for e in evs:
            if e == '|':
                break
            cur.append(e)
            if e[0] == 'R':
                msg.append(cur)
                cur = []
        for m in msg:
            tags = [int(e[1:].split(':')[0]) for e in m if e[0] == 'H']
            units = [exp[t] for t in tags if exp[t]]
            want = b';'.join(b','.join(u) for u in units) + (b'\r\n' if units else b'')
            got = vf.outbytes(m)
            nf = sum(1 for e in m if e == 'F')
            if SYSERR_ITEM in want:
                import re as _re
                pat = _re.escape(want).replace(_re.escape(SYSERR_ITEM), b'-?[0-9]+,"(?:[^"]|"")*"')
                if _re.fullmatch(pat, got, _re.S):
                    got = want
            if got != want:
                bad.append(('framing', 'message produced %r, the framing of its responding units is %r' % (got, want)))
                break
            if nf != (1 if units else 0):
                bad.append(('flush', '%d flushes for a message with %d responding units' % (nf, len(units))))
                break
        return bad
    return oracle


def streams(tier, rng):
    n = 4000 if tier == 'quick' else 60000
    cases, expects = [], {}
    for _ in range(n):
        c, e = make(rng)
        cases.append(c)
        expects[c] = e

    def nontrivial(c, o):
        return c if (o.count(' H') >= 2 and ' W' in o) else None
    yield {'name': 'framing', 'coqcheck': True, 'cases': cases, 'project': project, 'oracle': oracle_factory(expects), 'nontrivial': nontrivial}

    # one unit with tens of thousands of result items (a waveform answered item by item): every item but the first is preceded
    # by a comma, the next unit by a semicolon, and the message ends in one terminator -- also beyond 32767 items
    mcases, minfo = [], {}
    for cnt in ([32767, 32768, 33000] if tier == 'quick' else [255, 256, 32766, 32767, 32768, 32769, 33000, 40000, 65535, 65536, 65537, 70000]):
        for v in (7, -1):
            c = gen.scenario(64, 4, [(1, b'W?', 'RREP:%d:%d' % (cnt, v)), (2, b'B?', 'RI32:5')], [('I', b'W?;B?\n')])
            mcases.append(c)
            minfo[c] = (cnt, v)

    def moracle(case, out):
        if out.startswith('X') or ' X' in out or case not in minfo:
            return []
        cnt, v = minfo[case]
        evs = vf.events(out)
        got = vf.outbytes(evs[:evs.index('|')] if '|' in evs else evs)
        want = b','.join([str(v).encode()] * cnt) + b';5\r\n'
        if got != want:
            k = 0
            while k < min(len(got), len(want)) and got[k] == want[k]:
                k += 1
            return [('many-items', 'a unit with %d items of value %d followed by a second query: the response (%d bytes) differs from the framed one (%d bytes) at byte %d: ...%r, expected ...%r'
                     % (cnt, v, len(got), len(want), k, got[max(0, k - 6):k + 6], want[max(0, k - 6):k + 6]))]
        return []
    yield {'name': 'many-items', 'cases': mcases, 'model': False, 'oracle': moracle, 'nontrivial': lambda c, o: c}
