"""C14 integer-to-text conversion is exact for every value, base and buffer size."""
import vf

ID = 'C14'
FLAVORS = ['default', 'prec99']
RULE = ('stream int2str: (width, value, buffer length, base, signed) drawn from boundary values (0, powers of the bases +-1, 2^31, 2^63, ...) and '
        'random magnitudes x all bases incl. unsupported ones x lengths 0..70; a case is non-trivial when the canonical text has >= 2 characters; '
        'distinct = distinct (case) lines. stream sweep32: 32-bit values swept inside the sanitised driver against libc printf '
        '(stratified in quick, all 2^32 in thorough); each sweep line counts as one evaluation, conversions are reported in the stream record.')
MODELLED = 'UInt32ToStrBaseSign/UInt64ToStrBaseSign are modelled by FmtModel.int2str (same divisor loop); the public wrappers are one-line calls'
ASSUMPTIONS = ['base is passed as int8_t; any value other than 2, 8, 16 means 10 (as the property states)']


def canonical(w, v, base, sign):
    b = base if base in (2, 8, 16) else 10
    v &= (1 << w) - 1
    neg = sign and b == 10 and v >= 1 << (w - 1)
    if neg:
        v = (1 << w) - v
    digs = '0123456789ABCDEF'
    s = ''
    if v == 0:
        s = '0'
    while v:
        s = digs[v % b] + s
        v //= b
    return ('-' if neg else '') + s


def oracle(case, out):
    f = case.split()
    if f[0] != 'I2S' or out.startswith('X'):
        return []
    w, hi, lo, ln, base, sign = int(f[1]), int(f[2]), int(f[3]), int(f[4]), int(f[5]), int(f[6])
    v = (hi << 32) | lo
    o = out.split()
    text = vf.unhx(o[1]).decode('latin1') if len(o) == 4 else ''
    nul, r = (int(o[-2]), int(o[-1]))
    can = canonical(w, v, base, sign == 1)
    want = can[:ln]
    bad = []
    if text != want:
        bad.append(('wrong-digits', 'value %d width %d base %d signed %d len %d: wrote %r, canonical prefix is %r' % (v, w, base, sign, ln, text, want)))
    elif r != len(want):
        bad.append(('wrong-length', 'returned %d, wrote %d characters' % (r, len(want))))
    elif (len(want) < ln) != (nul == 1):
        bad.append(('nul', 'terminating NUL %s although %d of %d bytes used' % ('missing' if not nul else 'unexpected', len(want), ln)))
    return bad


def sweep_oracle(case, out):
    if 'bad=-' in out:
        return []
    return [('sweep-mismatch', 'sweep against libc printf: ' + out)]


def streams(tier, rng):
    vals = [0, 1, 7, 8, 9, 10, 15, 16, 255, 256, 2**31 - 1, 2**31, 2**31 + 1, 2**32 - 1, 2**32, 2**63 - 1, 2**63, 2**63 + 1, 2**64 - 1,
            10**9, 10**9 - 1, 10**10, 10**19, 10**19 - 1, 2**30, 2**28, 2**60, 8**10, 8**10 - 1, 16**7, 16**8 - 1, 8**21, 16**15, 10**18]
    # every power of every base, its neighbours, and the same magnitudes negated in both widths (a divisor table that starts one
    # step too low or too high shows only at an exact power)
    pw = set()
    for b in (2, 8, 10, 16):
        k = 1
        while b ** k < 2 ** 64:
            for x in (b ** k - 1, b ** k, b ** k + 1):
                pw.update((x, (2 ** 64 - x) % 2 ** 64, (2 ** 32 - x) % 2 ** 32))
            k += 1
    vals += sorted(pw - set(vals))
    nrand = 400 if tier == 'quick' else 6000
    vals += [rng.getrandbits(64) >> rng.randrange(64) for _ in range(nrand)]
    lens = [0, 1, 2, 3, 5, 10, 11, 12, 20, 21, 22, 33, 34, 65, 66, 70]
    cases = []
    for v in vals:
        for w in (32, 64):
            for base in (2, 8, 10, 16, 0, 7, -1, 36):
                for sign in (0, 1):
                    for ln in (rng.sample(lens, 3) + [rng.randrange(0, 71)]):
                        cases.append('I2S %d %d %d %d %d %d' % (w, (v >> 32) & 0xffffffff, v & 0xffffffff, ln, base, sign))
    yield {'name': 'int2str', 'coqcheck': True, 'cases': cases, 'oracle': oracle,
           'nontrivial': lambda c, o: c if len(o.split()) == 4 and len(o.split()[1]) >= 4 else None}
    # a compiler that does not announce C99: scpi_bool_t is unsigned char, a flag obtained by masking a high bit is truncated
    yield {'name': 'int2str-pre-c99', 'flavor': 'prec99', 'cases': cases[::7], 'oracle': oracle,
           'nontrivial': lambda c, o: c if len(o.split()) == 4 and len(o.split()[1]) >= 4 else None}
    # sweep inside the driver against libc
    if tier == 'quick':
        total, stride = 1 << 24, 256 - 1      # stratified: every 255th value, 2^24 of them, wraps around 2^32
    else:
        total, stride = 1 << 32, 1
    nchunk = 64 if tier == 'quick' else 1024
    per = total // nchunk
    sw = ['I2SSWEEP %d %d %d' % ((i * per * stride) & 0xffffffff, per, stride) for i in range(nchunk)]
    yield {'name': 'sweep32', 'cases': sw, 'model': False, 'oracle': sweep_oracle, 'nontrivial': lambda c, o: c}
