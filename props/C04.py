"""C04 numeric parameters decode to the value their literal denotes."""
import re, struct
from fractions import Fraction
import vf, gen
from props.C15 import units_table

ID = 'C04'
FLAVORS = ['default']
RULE = ('one unit "DD <literal>" per scenario read through a typed reader: decimal literals generated from the 488.2 grammar (1..25 mantissa digits, plus a few of 300..500 digits, every sign / point / exponent placement, '
        'with and without the white space the standard allows around E), read as double and float; #H/#Q/#B literals at and around every width boundary and in-range decimal integers read through all four '
        'integer readers and both floating-point readers; every row of the unit table in upper, lower and mixed case with and without a separating blank, and every special mnemonic in short and long form, '
        'read through SCPI_ParamNumber. Non-trivial: literals with at least two digits; distinct = distinct lines.')
MODELLED = ('strtod/strtof (NumDecode: exact rational of the digits, rounded to nearest even), strtol/strtoul/strtoll/strtoull (ParserModel.strto), the IEEE multiply by the unit factor are MODELS of libc/FPU, '
            'tied to glibc by this correspondence run, not verified')
ASSUMPTIONS = ['an in-range decimal integer literal is an optional sign and digits only (DESIGN.md section 9)', 'white space inside a decimal literal is known finding C04/ws-inside-number']


def nearest(fr, p, emin, emax):
    """round Fraction fr >= 0 to nearest-even with p bits precision; returns (m, e) with value m*2^e, or 'inf'"""
    if fr == 0:
        return (0, 0)
    e = fr.numerator.bit_length() - fr.denominator.bit_length()
    # find e with 2^e <= fr < 2^(e+1)
    while Fraction(2) ** e > fr:
        e -= 1
    while Fraction(2) ** (e + 1) <= fr:
        e += 1
    q = max(e - (p - 1), emin)
    scaled = fr / (Fraction(2) ** q)
    m = scaled.numerator // scaled.denominator
    rem = scaled - m
    if rem > Fraction(1, 2) or (rem == Fraction(1, 2) and m % 2 == 1):
        m += 1
    if m == (1 << p):
        m >>= 1
        q += 1
    if q + (p - 1) > emax and m >= (1 << (p - 1)):
        return 'inf'
    return (m, q)


def f32bits(neg, fr):
    r = nearest(fr, 24, -149, 127)
    s = 0x80000000 if neg else 0
    if r == 'inf':
        return s | 0x7f800000
    m, q = r
    if m == 0:
        return s
    if m < (1 << 23):
        return s | m
    return s | ((q + 149 + 1) << 23) | (m - (1 << 23))


def f64bits(neg, fr):
    r = nearest(fr, 53, -1074, 1023)
    s = (1 << 63) if neg else 0
    if r == 'inf':
        return s | (0x7ff << 52)
    m, q = r
    if m == 0:
        return s
    if m < (1 << 52):
        return s | m
    return s | ((q + 1074 + 1) << 52) | (m - (1 << 52))


def lit_value(lit):
    t = re.sub(r'[ \t]', '', lit)
    neg = t.startswith('-')
    return neg, abs(Fraction(t.replace('E', 'e')))


def gen_decimal(R):
    nd = R.choice([1, 1, 2, 3, 5, 8, 15, 16, 17, 18, 20, 25])
    digs = ''.join(R.choice('0123456789') for _ in range(nd))
    k = R.random()
    if k < 0.35:
        mant = digs
    elif k < 0.5:
        mant = digs + '.'
    elif k < 0.85:
        p = R.randint(0, nd)
        mant = (digs[:p] or '0') + '.' + digs[p:] if p < nd else digs + '.0'
        if p == 0 and R.random() < 0.5:
            mant = '.' + digs
    else:
        mant = '.' + digs
    sign = R.choice(['', '', '+', '-'])
    ex = ''
    ws = False
    if R.random() < 0.6:
        w1 = R.choice(['', '', '', ' ', '\t', '  '])
        w2 = R.choice(['', '', '', ' ', '\t'])
        ws = bool(w1 or w2)
        ex = w1 + R.choice('eE') + w2 + R.choice(['', '+', '-']) + str(R.choice([0, 1, 2, 5, 10, 22, 23, 37, 38, 39, 44, 45, 46, 100, 300, 307, 308, 309, 323, 324, 325, 400]))
    return sign + mant + ex, ws


# ---- what a suffix denotes, independently of the table: the SCPI-99 multiplier prefixes (vol. 1, 7.1: M is mega for HZ and OHM,
# milli otherwise) applied to another row of the same unit, and the few non-decimal relations between units of the same kind
PREFIX = {'EX': 1e18, 'PE': 1e15, 'T': 1e12, 'G': 1e9, 'MA': 1e6, 'K': 1e3, 'M': 1e-3, 'U': 1e-6, 'N': 1e-9, 'P': 1e-12, 'F': 1e-15, 'A': 1e-18}
FIXED = {'MNT': ('DEG', 1.0 / 60), 'SEC': ('DEG', 1.0 / 3600), 'MIN': ('S', 60.0), 'HR': ('S', 3600.0), 'PCT': (None, 0.01), 'PPM': (None, 1e-6),
         'TNE': ('KG', 1000.0), 'G': ('KG', 1e-3)}


def lit_name(lit):
    t = lit.decode('latin1') if isinstance(lit, bytes) else lit
    i = len(t)
    while i > 0 and (t[i - 1].isalpha()):
        i -= 1
    return t[i:].upper()


def unit_reference(name, uid, byname):
    """expected multiplier of row `name`, or None when no rule applies; byname: NAME -> (uid, multiplier as float)"""
    if name in FIXED:
        base, f = FIXED[name]
        if base is None:
            return f
        if base in byname and byname[base][0] == uid:
            return f * byname[base][1] if name != 'G' else f
        return None
    cands = []
    for p, f in PREFIX.items():
        if name.startswith(p) and len(name) > len(p):
            rest = name[len(p):]
            if rest in byname and byname[rest][0] == uid and rest not in FIXED:
                if p == 'M' and rest in ('HZ', 'OHM'):
                    f = 1e6
                cands.append(f * byname[rest][1])
    if not cands:
        return None
    return cands[0] if len(set(cands)) == 1 else None


def streams(tier, rng):
    us, sp = units_table()
    byname_all = {n: (uid, struct.unpack('<d', struct.pack('<Q', m))[0]) for n, uid, m in us}
    cases, info = [], {}

    def add(lit, script, kind, extra=None):
        c = gen.scenario(256, 8, [(1, b'DD', script)], [('I', b'DD ' + lit.encode('latin1') + b'\n')])
        cases.append(c)
        info[c] = (lit, kind, extra)
    n = 6000 if tier == 'quick' else 200000
    for _ in range(n):
        lit, ws = gen_decimal(rng)
        add(lit, 'PD:1', 'dec64', ws)
        if rng.random() < 0.5:
            add(lit, 'PF:1', 'dec32', ws)
    for lit in ('1 E5', '1E 5', '1.5 e+2', '0.1', '1e23', '9007199254740993', '8.5e-46', '1.7976931348623159e308', '4.9e-324', '2.47e-324'):
        add(lit, 'PD:1', 'dec64', ' ' in lit)
        add(lit, 'PF:1', 'dec32', ' ' in lit)
    # mantissas of several hundred digits with exponents that bring the value back into range (the exponent clamp of a
    # naive reader, and of an earlier version of the model, goes wrong here); these need a larger input buffer
    for lit in ('1' + '0' * 450 + 'e-450', '12345' + '0' * 330 + 'E-332', '0.' + '0' * 400 + '123e400', '9' * 400 + 'e-380',
                '-' + '7' * 350 + '.5E-349', '1' + '0' * 500, '0.' + '0' * 500 + '1', '1' + '0' * 310 + 'e-2', '4' + '0' * 300 + 'e-626'):
        for script, kind in (('PD:1', 'dec64'), ('PF:1', 'dec32')):
            c = gen.scenario(2048, 8, [(1, b'DD', script)], [('I', b'DD ' + lit.encode('latin1') + b'\n')])
            cases.append(c)
            info[c] = (lit, kind, False)
    # literals just beside the midpoint of two neighbouring floats / doubles (double rounding shows only here)
    import struct as _st
    from decimal import Decimal, getcontext
    getcontext().prec = 60
    for _ in range(400 if tier == 'quick' else 8000):
        fb = rng.choice([0x4b800000, 0x3f800000, 0x3f800001, 0x7f7ffffe, 0x00800000]) if rng.random() < 0.2 else (rng.getrandbits(31) % 0x7f7fffff)
        a = _st.unpack('<f', _st.pack('<I', fb))[0]
        b = _st.unpack('<f', _st.pack('<I', fb + 1))[0]
        if a == 0 or b != b or b == float('inf'):
            continue
        mid = (Decimal(a) + Decimal(b)) / 2
        for delta in (Decimal(0), Decimal(1), Decimal(-1)):
            digs = rng.choice([18, 20, 24, 25])
            q = mid.scaleb(-mid.adjusted())            # d.ddd...
            q = q.quantize(Decimal(1).scaleb(-(digs - 1))) + delta * Decimal(1).scaleb(-(digs - 1))
            lit = '%sE%d' % (format(q, 'f'), mid.adjusted())
            if len(lit.split('E')[0].replace('.', '')) > 26:
                continue
            add(lit, 'PF:1', 'dec32', False)
            if rng.random() < 0.3:
                add(lit, 'PD:1', 'dec64', False)
    # nondecimal and decimal integers at width boundaries
    for w, rd_s, rd_u in ((32, 'PI32', 'PU32'), (64, 'PI64', 'PU64')):
        vals = [0, 1, 7, 8, 255, 2**(w - 1) - 1, 2**(w - 1), 2**w - 1] + [rng.getrandbits(w) >> rng.randrange(w) for _ in range(40 if tier == 'quick' else 600)]
        for v in vals:
            for pfx, fmt in (('#H', '%X'), ('#h', '%x'), ('#Q', '%o'), ('#B', None), ('#b', None)):
                lit = pfx + (bin(v)[2:] if fmt is None else fmt % v)
                add(lit, rd_u + ':1', 'uint', (w, v))
                add(lit, rd_s + ':1', 'sint', (w, v))
                if rng.random() < 0.3:
                    add(lit, 'PD:1', 'int64f', v)
                    if w == 32:
                        add(lit, 'PF:1', 'int32f', v)
            add(str(v), rd_u + ':1', 'uint', (w, v))
            sv = v - 2**w if v >= 2**(w - 1) else v
            add(str(sv), rd_s + ':1', 'sintd', (w, sv))
            add(('+' if rng.random() < 0.3 else '') + str(v), 'PD:1', 'int64f', v)
    # decimal integers written with leading zeros stay decimal (no octal reading of 010), through every integer reader
    for lit, v in (('010', 10), ('0100', 100), ('08', 8), ('09', 9), ('019', 19), ('-012', -12), ('+0777', 777), ('0000001000', 1000),
                   ('00', 0), ('-0', 0), ('007', 7), ('-08', -8), ('0377', 377), ('04294967295', 4294967295), ('-02147483648', -2147483648)):
        for w, rd_s, rd_u in ((32, 'PI32', 'PU32'), (64, 'PI64', 'PU64')):
            if v >= 0:
                add(lit, rd_u + ':1', 'uint', (w, v))
            if -2**(w - 1) <= v < 2**(w - 1):
                add(lit, rd_s + ':1', 'sintd', (w, v))
        if v >= 0 and not lit.startswith('-'):
            add(lit, 'PD:1', 'int64f', v)
    # unit table
    for (name, uid, mult) in us:
        for nm in {name, name.lower(), name.upper(), name.capitalize(), ''.join(ch.upper() if i % 2 else ch.lower() for i, ch in enumerate(name))}:
            for sep in ('', ' ', '  '):
                v = rng.choice(['1', '2.5', '-3', '1e3', '0.125', '10'])
                add(v + sep + nm, 'PNUM:1', 'unit', (v, uid, mult))
    for (name, tag) in sp:
        short = ''.join(ch for i, ch in enumerate(name) if not name[i:].islower() or ch.isupper())
        ns = 0
        while ns < len(name) and not name[ns].islower():
            ns += 1
        for nm in {name, name[:ns], name.lower(), name[:ns].lower(), name.upper()}:
            add(nm, 'PNUM:1', 'special', tag)

    # two numbers with units in a row on one context (decoding must not depend on what was decoded before)
    seqcases, seqinfo = [], {}
    names = [u for u in us]
    byname = {n: (uid, mult) for n, uid, mult in us}
    pairs = [(a, b) for a in names for b in names if a[0] != b[0] and (b[0].upper().startswith(a[0].upper()) or a[0].upper().startswith(b[0].upper()))]
    for _ in range(300 if tier == 'quick' else 3000):
        pairs.append((rng.choice(names), rng.choice(names)))
    for (a, b) in pairs:
        va, vb = rng.choice(['1', '2.5', '10']), rng.choice(['50', '3', '0.5'])
        la = va + rng.choice(['', ' ']) + rng.choice([a[0], a[0].lower()])
        lb = vb + rng.choice(['', ' ']) + rng.choice([b[0], b[0].lower()])
        c = gen.scenario(256, 8, [(1, b'DD', 'PNUM:1')], [('I', b'DD ' + la.encode() + b'\n'), ('I', b'DD ' + lb.encode() + b'\n')])
        seqcases.append(c)
        seqinfo[c] = ((la, va, a[1], a[2]), (lb, vb, b[1], b[2]))

    def seqoracle(case, out):
        if out.startswith('X') or ' X' in out or case not in seqinfo:
            return []
        ps = re.findall(r' P12:(\d):([-\d,]*)', out)
        for (lit, v, uid, mult), pr in zip(seqinfo[case], ps):
            x = float(v) * struct.unpack('<d', struct.pack('<Q', mult))[0]
            want = [0, struct.unpack('<Q', struct.pack('<d', x))[0], uid, 10]
            got = [int(t) for t in pr[1].split(',') if t != '']
            if pr[0] != '1' or got != want:
                return [('unit-sequence', 'after %r, literal %r read as number gives %s, expected %s' % (seqinfo[case][0][0], lit, got if pr[0] == '1' else 'FAILURE', want))]
        if len(ps) != 2:
            return [('unit-sequence', 'two literals, %d reads: %s' % (len(ps), out[:200]))]
        return []

    def oracle(case, out):
        if out.startswith('X') or ' X' in out or case not in info:
            return []
        lit, kind, extra = info[case]
        m = re.search(r' P(\d+):(\d):([-\d,]*)', out)
        if not m:
            return [('no-read', 'literal %r: the reader was not reached: %s' % (lit, out[:200]))]
        ok = m.group(2) == '1'
        vals = [int(x) for x in m.group(3).split(',') if x != '']
        if kind in ('dec64', 'dec32'):
            neg, fr = lit_value(lit)
            want = f64bits(neg, fr) if kind == 'dec64' else f32bits(neg, fr)
            if not ok or vals[0] != want:
                shape = 'ws-inside-number' if extra else 'decimal-value'
                return [(shape, 'literal %r read as %s gives bits %s, the correctly rounded value has bits %d (0x%x)' % (lit, 'double' if kind == 'dec64' else 'float', vals[0] if ok else 'FAILURE', want, want))]
            return []
        if kind in ('uint', 'sint', 'sintd'):
            w, v = extra
            want = v
            if kind == 'sint':
                want = v - 2**w if v >= 2**(w - 1) else v
            if not ok or vals[0] != want:
                return [('integer-value', 'literal %r read through a %d-bit %s reader gives %s, exact value %d' % (lit, w, 'signed' if kind != 'uint' else 'unsigned', vals[0] if ok else 'FAILURE', want))]
            return []
        if kind in ('int64f', 'int32f'):
            want = f64bits(False, Fraction(extra)) if kind == 'int64f' else f32bits(False, Fraction(extra))
            if not ok or vals[0] != want:
                return [('integer-as-float', 'literal %r read as %s gives bits %s, expected %d' % (lit, 'double' if kind == 'int64f' else 'float', vals[0] if ok else 'FAILURE', want))]
            return []
        if kind == 'unit':
            v, uid, mult = extra
            ref = unit_reference(lit_name(lit), uid, byname_all)
            tab = struct.unpack('<d', struct.pack('<Q', mult))[0]
            if ref is not None and abs(ref - tab) > 1e-12 * abs(ref):
                return [('unit-multiplier', 'literal %r: the unit table gives multiplier %r, the suffix denotes %r (SCPI-99 suffix multipliers / unit definitions)' % (lit, tab, ref))]
            if not (tab > 0.0) or tab == float('inf'):
                return [('unit-multiplier', 'literal %r: the unit table gives multiplier %r; a unit multiplier is a positive finite number' % (lit, tab))]
            x = float(v) * struct.unpack('<d', struct.pack('<Q', mult))[0]
            want = [0, struct.unpack('<Q', struct.pack('<d', x))[0], uid, 10]
            if not ok or vals != want:
                return [('unit', 'literal %r read as number gives %s, expected value x multiplier with unit id: %s' % (lit, vals if ok else 'FAILURE', want))]
            return []
        if kind == 'special':
            want = [1, extra, 0, 10]
            if not ok or vals != want:
                return [('special', 'mnemonic %r read as number gives %s, expected tag %d' % (lit, vals if ok else 'FAILURE', extra))]
            return []
        return []
    yield {'name': 'literals', 'cases': cases, 'oracle': oracle, 'nontrivial': lambda c, o: c if len(info[c][0]) >= 2 else None}
    yield {'name': 'unit-sequences', 'cases': seqcases, 'oracle': seqoracle, 'nontrivial': lambda c, o: c}
