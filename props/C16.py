"""C16 floating-point text keeps the promised number of significant digits."""
import struct, math
from fractions import Fraction
import vf

ID = 'C16'
FLAVORS = ['default', 'dtostre']
RULE = ('D2S/F2S lines (SCPI_DoubleToStr / SCPI_FloatToStr with an ample buffer, and with a buffer the text fits exactly) on the printf build and on the USE_CUSTOM_DTOSTRE build, DTOSTRE lines (SCPI_dtostre, precisions 1..15) on the custom build: '
        'random bit patterns over the full exponent range, all powers of ten 1e-300..1e300 (and 1e-38..1e38 as floats), values with a zero digit at every position, both sides of every d.ddd5 rounding boundary '
        'for 1..15 digits, subnormals, infinities and NaNs. Non-trivial: finite non-zero values; distinct = distinct lines.')
MODELLED = ('snprintf("%.15lg"/"%g") is modelled by GFmt.fmt_g (exact round-half-even of the binary value, %g layout) -- libc itself is trusted, modelled, not verified; '
            'SCPI_dtostre\'s layout stage is modelled by Dtostre.layout and compared on the digits scpi_ecvt produced; scpi_ecvt\'s floating-point digit generation is NOT modelled: '
            'its numeric claim is decided by the oracle only (partial)')
ASSUMPTIONS = ['printf build: the text must equal the correctly rounded %g text (computed independently by CPython\'s correctly rounded formatting)',
               'custom build: within one unit of the last requested significant digit']


def d2b(x):
    return struct.unpack('<Q', struct.pack('<d', x))[0]


def f2b(x):
    return struct.unpack('<I', struct.pack('<f', x))[0]


def b2d(b):
    return struct.unpack('<d', struct.pack('<Q', b))[0]


def b2f(b):
    return struct.unpack('<f', struct.pack('<I', b))[0]


def gtext(x, P, neg_nan):
    if x != x:
        return '-nan' if neg_nan else 'nan'
    return '%.*g' % (P, x)


def values(R, tier):
    vs = []
    for e in range(-300, 301, 1 if tier != 'quick' else 7):
        vs.append(float('1e%d' % e))
    for P in range(1, 16):
        for _ in range(2 if tier == 'quick' else 20):
            digs = ''.join(R.choice('0123456789') for _ in range(P)).lstrip('0') or '1'
            e = R.randint(-20, 20)
            for tail in ('5', '49999999', '50000001', '4', '6'):
                vs.append(float('%s.%s%se%d' % (digs[0], digs[1:], tail, e)))
    for pos in range(1, 16):
        s = list('123456789123456')
        s[pos - 1] = '0'
        vs.append(float('0.' + ''.join(s)))
        vs.append(float(''.join(s)))
        vs.append(float('0.000' + ''.join(s)))
    vs += [0.0, -0.0, 5e-324, 2.2250738585072014e-308, 1.7976931348623157e308, 0.1, 0.001, 0.0001, 0.00001, 123456789012345.0, 1234567890123456.0, 0.123456789012305, 0.10203, 9.9999999999999995, 999999.5, 0.00099999999999999995]
    vs += [-v for v in vs[:40]]
    bits = [d2b(v) for v in vs] + [R.getrandbits(64) for _ in range(2000 if tier == 'quick' else 60000)] + [0x7ff0000000000000, 0xfff0000000000000, 0x7ff8000000000000, 0xfff8000000000000, 1, 2, 0x000fffffffffffff]
    return bits


def within_one_unit(text, x, P):
    """custom formatter: parses back to within one unit of the last requested significant digit"""
    try:
        v = Fraction(text.replace('e', 'E'))
    except (ValueError, ZeroDivisionError):
        return 'text %r is not a number' % text
    mant = text.lower().split('e')[0].lstrip('+-').replace('.', '').lstrip('0').rstrip('0')
    if len(mant) > P:
        return 'text %r carries %d significant digits, %d were promised' % (text, len(mant), P)
    fx = Fraction(x)
    if fx == 0:
        return None if v == 0 else 'zero printed as %r' % text
    e = math.floor(math.log10(abs(x)))
    # guard against log10 rounding at powers of ten
    while Fraction(10) ** e > abs(fx):
        e -= 1
    while Fraction(10) ** (e + 1) <= abs(fx):
        e += 1
    unit = Fraction(10) ** (e - P + 1)
    if abs(v - fx) > unit:
        tag = ''
        if P >= 13 and abs(e) >= 12 and abs(v - fx) <= 5 * unit:
            tag = '[ecvt-accuracy] '       # the recorded finding: the floating-point recurrence of scpi_ecvt loses the last digit(s) at large exponents
        return tag + 'text %r differs from the value %r by %.3g units of digit %d' % (text, x, float(abs(v - fx) / unit), P)
    return None


def streams(tier, rng):
    bits = values(rng, tier)
    # subnormal doubles are never thinned out: powers of two down to the smallest one, and a few decimal ones below 1e-308
    subn = [1 << k for k in range(0, 52, 3)] + [d2b(float(t)) for t in ('1.23456789e-310', '7.5e-315', '9.87654321012345e-309', '4.94e-324', '1e-308', '3e-320')]
    subn += [b | (1 << 63) for b in subn[:6]]
    bits = bits + [b for b in subn if b not in set(bits)]
    cases, info = [], {}
    for b in bits:
        c = 'D2S %x 64' % b
        cases.append(c)
        info[c] = ('d', b)
        fb = f2b(b2d(b)) if (b2d(b) == b2d(b) and abs(b2d(b)) < 3e38) else (b & 0xffffffff)
        c = 'F2S %x 64' % fb
        cases.append(c)
        info[c] = ('f', fb)

    # buffers that the text fits exactly (text + NUL) or with one byte to spare: still all the digits
    for b in bits[:: (5 if tier == 'quick' else 1)]:
        t = gtext(b2d(b), 15, b >> 63)
        for extra_room in (1, 2):
            c = 'D2S %x %d' % (b, len(t) + extra_room)
            cases.append(c)
            info[c] = ('d', b)
        fb = f2b(b2d(b)) if (b2d(b) == b2d(b) and abs(b2d(b)) < 3e38) else (b & 0xffffffff)
        t = gtext(b2f(fb), 6, fb >> 31)
        c = 'F2S %x %d' % (fb, len(t) + 1)
        cases.append(c)
        info[c] = ('f', fb)

    def oracle(case, out):
        if out.startswith('X') or ' X' in out or case not in info:
            return []
        k, b = info[case]
        o = out.split(' ')
        got = vf.unhx(o[1]).decode('latin1') if len(o) == 4 else ''
        want = gtext(b2d(b), 15, b >> 63) if k == 'd' else gtext(b2f(b), 6, b >> 31)
        if got != want:
            return [('digits', '%s of bits %x: produced %r, the value rounded to %d significant digits in %%g style is %r' % ('SCPI_DoubleToStr' if k == 'd' else 'SCPI_FloatToStr', b, got, 15 if k == 'd' else 6, want))]
        return []
    yield {'name': 'printf-build', 'cases': cases, 'oracle': oracle, 'nontrivial': lambda c, o: c if len(o) > 12 else None}

    # the same values through the result writers (SCPI_ResultDouble / SCPI_ResultFloat use their own stack buffers)
    import gen as _gen
    rcases, rinfo = [], {}
    for b in bits[:: (2 if tier == 'quick' else 1)]:
        c = _gen.scenario(64, 4, [(1, b'Q?', 'RD:%d' % b)], [('I', b'Q?\n')])
        rcases.append(c)
        rinfo[c] = ('d', b)
        fb = f2b(b2d(b)) if (b2d(b) == b2d(b) and abs(b2d(b)) < 3e38) else (b & 0xffffffff)
        c = _gen.scenario(64, 4, [(1, b'Q?', 'RF:%d' % fb)], [('I', b'Q?\n')])
        rcases.append(c)
        rinfo[c] = ('f', fb)

    def roracle(case, out):
        if out.startswith('X') or ' X' in out or case not in rinfo:
            return []
        k, b = rinfo[case]
        evs = vf.events(out)
        got = vf.outbytes(evs[:evs.index('|')] if '|' in evs else evs).decode('latin1')
        want = (gtext(b2d(b), 15, b >> 63) if k == 'd' else gtext(b2f(b), 6, b >> 31)) + '\r\n'
        if got != want:
            return [('result-digits', '%s of bits %x: response %r, expected %r' % ('SCPI_ResultDouble' if k == 'd' else 'SCPI_ResultFloat', b, got, want))]
        return []
    yield {'name': 'result-writers', 'cases': rcases, 'model': False, 'oracle': roracle, 'nontrivial': lambda c, o: c if len(o) > 40 else None}

    # custom formatter
    dcases, dinfo = [], {}
    for b in subn + bits[:: (3 if tier == 'quick' else 1)]:
        x = b2d(b)
        if x != x or x in (float('inf'), float('-inf')):
            continue
        for P in ([15, 6] + [rng.randint(1, 15)] if tier == 'quick' else range(1, 16)):
            c = 'DTOSTRE %x %d 40 0' % (b, P)
            dcases.append(c)
            dinfo[c] = (x, P)

    def doracle(case, out):
        if out.startswith('X') or ' X' in out:
            return []
        x, P = dinfo[case]
        o = out.split(' ')
        text = vf.unhx(o[2]).decode('latin1')
        e = within_one_unit(text, x, P)
        return [('custom-digits:ecvt-accuracy' if e.startswith('[ecvt') else 'custom-digits', 'SCPI_dtostre precision %d: %s' % (P, e))] if e else []

    def dpost(cases_, outs):
        lay, idx = [], []
        for i, (c, o) in enumerate(zip(cases_, outs)):
            f = o.split(' ')
            if len(f) < 4 or f[1].startswith('-'):
                continue
            digits, decpt = f[1].rsplit(',', 1)
            x, P = dinfo[c]
            lay.append('LAYOUT %s %s %d %d' % (digits, decpt, P, 1 if math.copysign(1, x) < 0 else 0))
            idx.append(i)
        mo = vf.run_model(lay, 'dtostre')
        res = []
        for l, m, i in zip(lay, mo, idx):
            if m.startswith('?'):
                continue
            mt = m.split(' ')[1]
            it = outs[i].split(' ')[2]
            if mt != it:
                res.append((i, 'layout-model-mismatch', 'SCPI_dtostre wrote %r, the layout model gives %r for digits %s' % (vf.unhx(it), vf.unhx(mt), l)))
                if len(res) > 5:
                    break
        return res
    yield {'name': 'custom-formatter', 'flavor': 'dtostre', 'cases': dcases, 'model': False, 'oracle': doracle, 'post': dpost, 'nontrivial': lambda c, o: c}
    yield {'name': 'custom-build-tostr', 'flavor': 'dtostre', 'cases': [c for c in cases if c.startswith('D2S') and c.endswith(' 64')][::4] + ['D2S %x 64' % b for b in subn], 'model': False,
           'oracle': lambda c, o: ([] if (o.startswith('X') or len(o.split(' ')) != 4 or b2d(info[c][1]) != b2d(info[c][1]) or abs(b2d(info[c][1])) == float('inf')) else
                                   [('custom-digits:ecvt-accuracy' if e.startswith('[ecvt') else 'custom-digits', 'custom build SCPI_DoubleToStr: ' + e) for e in [within_one_unit(vf.unhx(o.split(' ')[1]).decode('latin1'), b2d(info[c][1]), 15)] if e]),
           'nontrivial': lambda c, o: c}
    # SCPI_FloatToStr on the same build: six significant digits, no more and no fewer
    fcases = [c for c in cases if c.startswith('F2S') and c.endswith(' 64')][::2]

    def foracle(c, o):
        if o.startswith('X') or len(o.split(' ')) != 4:
            return []
        x = b2f(info[c][1])
        if x != x or abs(x) == float('inf'):
            return []
        e = within_one_unit(vf.unhx(o.split(' ')[1]).decode('latin1'), x, 6)
        return [('custom-digits', 'custom build SCPI_FloatToStr: ' + e)] if e else []
    yield {'name': 'custom-build-float-tostr', 'flavor': 'dtostre', 'cases': fcases, 'model': False, 'oracle': foracle, 'nontrivial': lambda c, o: c}
