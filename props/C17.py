"""C17 binary results are valid definite-length blocks in the requested byte order."""
import re
import vf, gen, spec

ID = 'C17'
FLAVORS = ['default']
RULE = ('ARR lines: binary array results of element sizes 1, 2, 4, 8 with lengths 0..140 (quick: 0..11, around 64 and 128, and sampled) / 0..300 (thorough), random element values, NORMAL and SWAPPED format; '
        'scenarios streaming a block through header/data calls in every split incl. zero-length pieces, data beyond the announced length, a following item to observe the item count; '
        'header-only calls for every power of ten up to 10^9 and 2^32-1. Non-trivial: blocks of at least two bytes or split into at least two data calls; distinct = distinct lines.')
MODELLED = 'produceResultArrayBinary, SCPI_Swap16/32/64, SCPI_ResultArbitraryBlockHeader/Data/Block are modelled in BufModel.array_binary and ParserModel.result_hdr/result_data; the host is little-endian (the big-endian branch is proved on the model only)'
ASSUMPTIONS = ['lengths >= 10^9 cannot be announced with a one-digit length count; the property is stated below 10^9 and the header for larger values is only required not to read or write out of bounds']


def be(v, size):
    return v.to_bytes(size, 'big')


def streams(tier, rng):
    cases, info = [], {}
    maxn = 140 if tier == 'quick' else 300
    for size in (1, 2, 4, 8):
        for fmt in (1, 2):
            ns = list(range(0, 12)) + [63, 64, 65, 66, 127, 128, 129] + [rng.randint(12, maxn) for _ in range(8)] + [maxn]
            if tier != 'quick':
                ns = list(range(0, maxn + 1))
            for n in ns:
                vals = [rng.getrandbits(8 * size) for _ in range(n)]
                raw = b''.join(v.to_bytes(size, 'little') for v in vals)
                c = 'ARR %d %d %s' % (fmt, size, vf.hx(raw))
                cases.append(c)
                info[c] = (fmt, size, vals)

    def oracle(case, out):
        if out.startswith('X') or case not in info:
            return []
        fmt, size, vals = info[case]
        payload = b''.join(v.to_bytes(size, 'big' if fmt == 1 else 'little') for v in vals)
        want = spec.fmt_block(payload)
        o = out.split(' ')
        got = vf.unhx(o[1])
        if got != want:
            return [('array-bytes', '%d elements of %d bytes, format %s: wrote %r, expected %r' % (len(vals), size, 'NORMAL' if fmt == 1 else 'SWAPPED', got[:60], want[:60]))]
        if int(o[2]) != 1:
            return [('item-count', 'array of %d elements of %d bytes (%s) counted as %s result items' % (len(vals), size, 'NORMAL' if fmt == 1 else 'SWAPPED', o[2]))]
        return []
    yield {'name': 'arrays', 'cases': cases, 'oracle': oracle, 'nontrivial': lambda c, o: c if len(o) > 20 else None}

    # streamed blocks
    scases, sinfo = [], {}
    for _ in range(1500 if tier == 'quick' else 30000):
        n = rng.choice([0, 1, 2, 3, 5, 9, 10, 11, 64, 99, 100, 101])
        d = bytes(rng.getrandbits(8) for _ in range(n))
        k = rng.choice([0, 1, 1, 2, 3, 4])
        cuts = sorted(rng.randint(0, n) for _ in range(k))
        pieces = [d[a:b] for a, b in zip([0] + cuts, cuts + [n])]
        mode = rng.choice(['exact', 'exact', 'short', 'over'])
        ops = ['RHDR:%d' % n]
        sent = b''
        for p in pieces:
            ops.append('RDATA:' + vf.hx(p))
            sent += p
        complete = True
        refused = False
        if mode == 'short' and n > 0:
            ops = ops[:-1]
            sent = sent[:len(sent) - len(pieces[-1])]
            complete = len(sent) == n
        elif mode == 'over':
            extra = bytes(rng.getrandbits(8) for _ in range(rng.randint(1, 4)))
            # remaining after all pieces is 0 -> any further data is beyond the announced length
            ops.append('RDATA:' + vf.hx(extra))
            refused = True
        ops.append('RI32:7')
        c = gen.scenario(256, 8, [(1, b'Q?', ';'.join(ops))], [('I', b'Q?\n')])
        scases.append(c)
        sinfo[c] = (n, sent, complete, refused)
    # a burst that is too long is refused in the middle of a block; the block is still open and the correct rest completes it
    for _ in range(300 if tier == 'quick' else 6000):
        n = rng.choice([1, 2, 3, 5, 9, 10, 11, 64, 100])
        d = bytes(rng.getrandbits(8) for _ in range(n))
        j = rng.randint(0, n - 1)
        toolong = bytes(rng.getrandbits(8) for _ in range(n - j + rng.randint(1, 4)))
        ops = ['RHDR:%d' % n] + (['RDATA:' + vf.hx(d[:j])] if j else []) + ['RDATA:' + vf.hx(toolong)]
        rest = d[j:]
        cut = rng.randint(0, len(rest))
        ops += ['RDATA:' + vf.hx(p) for p in (rest[:cut], rest[cut:]) if p]
        ops.append('RI32:7')
        c = gen.scenario(256, 8, [(1, b'Q?', ';'.join(ops))], [('I', b'Q?\n')])
        scases.append(c)
        sinfo[c] = (n, d, True, True)
    # data after a block that was completed in one call (or after a binary array) is beyond the announced length too
    for _ in range(300 if tier == 'quick' else 5000):
        n = rng.choice([0, 1, 2, 5, 16])
        d = bytes(rng.getrandbits(8) for _ in range(n))
        extra = bytes(rng.getrandbits(8) for _ in range(rng.randint(1, max(1, n))))
        if rng.random() < 0.5:
            first, sent = ('RBLOCK:' + vf.hx(d)) if d else 'RBLOCK', d
        else:
            size, fmt = rng.choice([1, 2, 4, 8]), rng.choice([1, 2])
            k = rng.randint(0, 3)
            raw = bytes(rng.getrandbits(8) for _ in range(size * k))
            first = 'RARR:%d:%d:%s' % (size, fmt, raw.hex() or '-')
            vals = [int.from_bytes(raw[i * size:(i + 1) * size], 'little') for i in range(k)]
            sent = b''.join(v.to_bytes(size, 'big' if fmt == 1 else 'little') for v in vals)
        ops = [first, 'RDATA:' + vf.hx(extra), 'RI32:7']
        c = gen.scenario(256, 8, [(1, b'Q?', ';'.join(ops))], [('I', b'Q?\n')])
        scases.append(c)
        sinfo[c] = (len(sent), sent, True, True)
    # blocks beyond 64 KiB (the bookkeeping must not be narrower than the announced length), in one piece and streamed
    for n in ([65535, 65536, 65537, 70000, 100000] if tier == 'quick' else [65535, 65536, 65537, 65600, 70000, 100000, 120000]):
        sd = rng.randrange(256)
        pat = bytes((sd + i * 7) & 255 for i in range(n))
        for first in ['RBIG:%d:%d' % (n, sd), 'RBIGS:%d:%d:%d' % (n, sd, rng.choice([1000, 4096, 16384, 65536]))]:
            c = gen.scenario(256, 8, [(1, b'Q?', first + ';RI32:7')], [('I', b'Q?\n')])
            scases.append(c)
            sinfo[c] = (n, pat, True, False)
    for n in [10 ** k for k in range(0, 10)] + [10 ** 9 - 1, 4294967295, 999, 12345678]:
        c = gen.scenario(256, 8, [(1, b'Q?', 'RHDR:%d' % n)], [('I', b'Q?\n')])
        scases.append(c)
        sinfo[c] = (n, None, False, False)

    def soracle(case, out):
        if out.startswith('X') or ' X' in out:
            return []
        n, sent, complete, refused = sinfo[case]
        evs = vf.events(out)
        got = vf.outbytes(evs[:evs.index('|')] if '|' in evs else evs)
        hdr = b'#' + str(len(str(n))).encode() + str(n).encode()
        if sent is None:
            if n < 10 ** 9 and not got.startswith(hdr):
                return [('block-header', 'header for length %d is %r, expected %r' % (n, got[:16], hdr))]
            return []
        want = hdr + sent + (b',7' if complete else b'7') + b'\r\n'
        if got != want:
            return [('block-stream', 'announced %d, sent %d bytes (%s): output %r, expected %r' % (n, len(sent), 'complete' if complete else 'incomplete', got[:80], want[:80]))]
        has310 = 'E-310' in evs
        if refused != has310:
            return [('overlength', 'data beyond the announced length %s, error -310 %s' % ('sent' if refused else 'not sent', 'queued' if has310 else 'not queued'))]
        return []
    # what a unit leaves unfinished is not owed by the next unit of the same message: block data sent by the next handler
    # without a header of its own is beyond any announced length and must be refused
    ucases = []
    for _ in range(200 if tier == 'quick' else 3000):
        n = rng.choice([5, 10, 64])
        k = rng.randint(0, n - 1)
        d1 = bytes(rng.getrandbits(8) for _ in range(k))
        d2 = bytes(rng.getrandbits(8) for _ in range(rng.randint(1, n - k)))
        a_ops = ['RHDR:%d' % n] + (['RDATA:' + vf.hx(d1)] if d1 else []) + rng.choice([[], ['RETERR']])
        b_ops = ['RDATA:' + vf.hx(d2), 'RI32:7']
        sep = rng.choice([b';', b';:', b' ; '])
        ucases.append(gen.scenario(256, 8, [(1, b'A?', ';'.join(a_ops)), (2, b'B?', ';'.join(b_ops))], [('I', b'A?' + sep + b'B?\n')]))

    def uoracle(case, out):
        if out.startswith('X') or ' X' in out:
            return []
        evs = vf.events(out)
        i2 = [i for i, e in enumerate(evs) if e.startswith('H2:')]
        if not i2:
            return [('unit-block-leak', 'the second unit did not run | ' + case[:200])]
        if 'E-310' not in evs[i2[0]:]:
            return [('unit-block-leak', 'block data sent by the second unit without a header was not refused (-310 missing): the length announced by the first unit leaked into it')]
        return []
    yield {'name': 'unit-reset', 'coqcheck': True, 'cases': ucases, 'oracle': uoracle, 'nontrivial': lambda c, o: c}
    yield {'name': 'streamed-blocks', 'coqcheck': True, 'cases': scases, 'oracle': soracle, 'nontrivial': lambda c, o: c if c.count('RDATA') >= 2 else None}
