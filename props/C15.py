"""C15 no formatting or copying API writes past the buffer the caller gave it."""
import os, re, struct
import vf, gen
from props import C14

ID = 'C15'
FLAVORS = ['default', 'dtostre', 'strict']
RULE = ('direct calls with exact-size heap buffers under ASan: SCPI_DoubleToStr / SCPI_FloatToStr (D2S/F2S), SCPI_NumberToStr with every unit name and every special-number name (N2S), '
        'SCPI_dtostre (DTOSTRE), the integer formatters (I2S) and SCPI_ParamCopyText (scenario with quoted text and doubled quotes), each for every buffer length 0..40 crossed with values whose text is '
        'shorter than, equal to, one longer than and much longer than the buffer. Non-trivial: the text does not fit the buffer; distinct = distinct lines.')
MODELLED = 'SCPI_NumberToStr (strncpy/strncat), SCPI_Double/FloatToStr (snprintf + strlen), the integer formatter and the text copy loop are modelled with checked writes (BufModel, FmtModel, ParserModel.copy_loop); SCPI_dtostre\'s final copy is judged against the layout model (proved in DtostreLayout.v) run on the digits scpi_ecvt produced, cut to the buffer size'
ASSUMPTIONS = ['a write past the buffer is detected by ASan on the exact-size allocation; the returned length and the NUL are judged from the bytes left in the buffer']


def units_table():
    src = open(os.path.join(vf.COQ, 'Generated.v')).read()
    m = re.search(r'Definition gen_units .*?:= \[(.*?)\]\.\nDefinition gen_specials', src, re.S)
    us = []
    for b, uid, mult in re.findall(r'\(\[([\d;]*)\]%N, (-?\d+), (\d+)\)%Z', m.group(1)):
        us.append((bytes(int(x) for x in b.split(';') if x).decode(), int(uid), int(mult)))
    m = re.search(r'Definition gen_specials .*?:= \[(.*?)\]\.\nDefinition gen_bool_def', src, re.S)
    sp = [(bytes(int(x) for x in b.split(';') if x).decode(), int(t)) for b, t in re.findall(r'\(\[([\d;]*)\]%N, (-?\d+)\)%Z', m.group(1))]
    return us, sp


def dtext(bits):
    t = '%.15g' % struct.unpack('<d', struct.pack('<Q', bits))[0]
    return '-nan' if (t == 'nan' and bits >> 63) else t


def ftext(bits):
    t = '%g' % struct.unpack('<f', struct.pack('<I', bits))[0]
    return '-nan' if (t == 'nan' and bits >> 31) else t


def check_fill(kind, text, ln, outhex, nul, r):
    """text: what the full result would be; the buffer holds outhex (r bytes), nul flag"""
    got = vf.unhx(outhex).decode('latin1') if outhex not in ('', None) else ''
    want = text[:max(ln - 1, 0)]
    if ln == 0:
        return None if (r == 0) else '%s into an empty buffer returned %d' % (kind, r)
    if got != want or r != len(want):
        return '%s into %d bytes: wrote %r and returned %d, expected %r (%d)' % (kind, ln, got, r, want, len(want))
    if not nul:
        return '%s into %d bytes: result %r is shorter than the buffer but not NUL-terminated' % (kind, ln, got)
    return None


def streams(tier, rng):
    us, sp = units_table()
    dvals = [0x3ff8000000000000, 0x4025000000000000, 0x3fb999999999999a, 0x7ff0000000000000, 0xfff0000000000000, 0x7ff8000000000000, 0, 0x8000000000000000, 1, 0x7fefffffffffffff,
             0x40c3880000000000, 0x430c6bf526340000, 0x3e45798ee2308c3a, 0xc08f400000000000, 0x3ff0000000000001]
    dvals += [rng.getrandbits(64) for _ in range(30 if tier == 'quick' else 600)]
    cases, info = [], {}
    for b in dvals:
        t = dtext(b)
        for ln in sorted(set([0, 1, 2, len(t) - 1, len(t), len(t) + 1, len(t) + 2, 40] + ([rng.randrange(0, 41)] if tier == 'quick' else list(range(0, 41))))):
            if ln < 0:
                continue
            c = 'D2S %x %d' % (b, ln)
            cases.append(c)
            info[c] = ('D2S', t, ln)
        fb = b & 0xffffffff
        t = ftext(fb)
        for ln in (0, 1, 2, len(t), len(t) + 1, 40, rng.randrange(0, 41)):
            c = 'F2S %x %d' % (fb, ln)
            cases.append(c)
            info[c] = ('F2S', t, ln)
    base_names, seen_ids = [], set()
    for (name, uid, mult) in us:
        if mult == 0x3ff0000000000000 and uid not in seen_ids:       # the name SCPI_NumberToStr prints for a unit: first row with multiplier 1
            seen_ids.add(uid)
            base_names.append((name, uid, mult))
    for (name, uid, mult) in base_names:
        for b in (dvals[1], dvals[2], rng.choice(dvals)):
            t = dtext(b)
            full = t + ' ' + name
            for ln in sorted(set([0, 1, len(t), len(t) + 1, len(t) + 2, len(full) - 1, len(full), len(full) + 1, len(full) + 2, 40])):
                c = 'N2S 0 %x %s %d' % (b, name, ln)
                cases.append(c)
                info[c] = ('N2S', (t, name), ln)
    for (name, tag) in sp:
        for ln in range(0, len(name) + 3):
            c = 'N2S 1 %x - %d' % (tag, ln)
            cases.append(c)
            info[c] = ('N2Ssp', name, ln)
    # a tag that names no special number: the result is the empty string, terminated
    known = {tag for _, tag in sp}
    for tag in (99, 2**31 - 1, 0xffffffff, max(known) + 1):
        if (tag if tag < 2**31 else tag - 2**32) in known:
            continue
        for ln in (0, 1, 2, 5, 12):
            c = 'N2S 1 %x - %d' % (tag, ln)
            cases.append(c)
            info[c] = ('N2Ssp', '', ln)
    for b in dvals[:20]:
        for prec in (1, 2, 6, 15):
            for size in (0, 1, 2, 3, 5, 8, 12, 20, 30):
                c = 'DTOSTRE %x %d %d 0' % (b, prec, size)
                cases.append(c)
                info[c] = ('DTOSTRE', None, size)
    for v in (0, 9, 10, 255, 2**31, 2**32 - 1, 2**63, 2**64 - 1):
        for w in (32, 64):
            for base in (2, 8, 10, 16):
                for ln in range(0, 41, 1 if tier != 'quick' else 3):
                    c = 'I2S %d %d %d %d %d %d' % (w, (v >> 32) & 0xffffffff, v & 0xffffffff, ln, base, rng.choice([0, 1]))
                    cases.append(c)
                    info[c] = ('I2S', None, ln)
    # negative values of few digits in the 64-bit signed formatter, every short buffer (the sign takes one of the bytes)
    for m in (1, 7, 9, 10, 42, 255, 65535, 2**31, 2**32 - 1, 2**32, 2**32 + 1, 10**12):
        for w in (32, 64):
            if w == 32 and m > 2**31:
                continue
            for base in (10, 16):
                for ln in range(0, 14):
                    c = 'I2S %d %d %d %d %d 1' % (w, ((2**w - m) >> 32) & 0xffffffff, (2**w - m) & 0xffffffff, ln, base)
                    cases.append(c)
                    info[c] = ('I2S', None, ln)

    def oracle(case, out):
        if out.startswith('X') or ' X' in out or case not in info:
            return []
        kind, t, ln = info[case]
        o = out.split(' ')
        if kind in ('D2S', 'F2S'):
            hexs, nul, r = (o[1], int(o[2]), int(o[3])) if len(o) == 4 else ('', int(o[1]), int(o[2]))
            e = check_fill('SCPI_%sToStr' % ('Double' if kind == 'D2S' else 'Float'), t, ln, hexs, nul, r)
            return [('fill', e + ' | ' + case)] if e else []
        if kind in ('N2S', 'N2Ssp'):
            cells = o[1] if len(o) == 3 else ''
            r = int(o[-1])
            bs = [cells[i:i + 2] for i in range(0, len(cells), 2)]
            if ln == 0:
                return [] if r == 0 else [('fill', 'SCPI_NumberToStr into an empty buffer returned %d' % r)]
            if '00' not in bs:
                return [('no-nul', 'SCPI_NumberToStr left %d bytes without a terminating NUL: %s | %s' % (ln, cells, case))]
            k = bs.index('00')
            if r != k:
                return [('length', 'SCPI_NumberToStr returned %d, the string in the buffer has %d characters | %s' % (r, k, case))]
            got = bytes(int(x, 16) for x in bs[:k]).decode('latin1')
            full = (t[0] + ' ' + t[1]) if kind == 'N2S' else t
            if not full.startswith(got):
                return [('content', 'SCPI_NumberToStr wrote %r which is not a prefix of %r | %s' % (got, full, case))]
            return []
        if kind == 'DTOSTRE':
            nul = int(o[-1])
            if ln > 0 and not nul:
                return [('no-nul', 'SCPI_dtostre filled %d bytes without a terminating NUL | %s' % (ln, case))]
            return []
        if kind == 'I2S':
            return C14.oracle(case, out)
        return []
    yield {'name': 'fill-default', 'cases': cases, 'oracle': oracle,
           'nontrivial': lambda c, o: c if (info[c][2] <= 12) else None}
    dcases = [c for c in cases if c.startswith(('D2S', 'F2S', 'DTOSTRE', 'N2S 0'))]

    def dcopy_post(cases_, outs):
        # SCPI_dtostre's final copy: what arrives in the caller's buffer is the laid-out text cut to size - 1 characters
        # (the layout model, proved in DtostreLayout.v, run on the digits scpi_ecvt produced)
        lay, idx = [], []
        for i, (c, o) in enumerate(zip(cases_, outs)):
            if not c.startswith('DTOSTRE') or o.startswith('X') or ' X' in o:
                continue
            f = o.split(' ')
            cf = c.split(' ')
            if len(f) < 3 or f[1].startswith('-') or int(cf[3]) == 0:
                continue
            digits, decpt = f[1].rsplit(',', 1)
            lay.append('LAYOUT %s %s %d %d' % (digits, decpt, int(cf[2]), int(cf[1], 16) >> 63))
            idx.append(i)
        if not lay:
            return []
        mo = vf.run_model(lay, 'dtostre')
        res = []
        for l, m, i in zip(lay, mo, idx):
            if m.startswith('?'):
                continue
            size = int(cases_[i].split(' ')[3])
            want = m.split(' ')[1][:2 * (size - 1)]
            f = outs[i].split(' ')
            got = f[2] if len(f) == 4 else ''
            if got != want:
                res.append((i, 'dtostre-copy', 'SCPI_dtostre into %d bytes wrote %r, the laid-out text %r cut to %d characters is %r' % (size, vf.unhx(got), vf.unhx(m.split(' ')[1]), size - 1, vf.unhx(want))))
                if len(res) > 5:
                    break
        return res
    yield {'name': 'fill-dtostre-build', 'flavor': 'dtostre', 'cases': dcases[:: (2 if tier == 'quick' else 1)], 'model': False, 'post': dcopy_post,
           'oracle': lambda c, o: ([] if (o.startswith('X') or not c.startswith('DTOSTRE')) else oracle(c, o)), 'nontrivial': lambda c, o: c if info[c][2] <= 12 else None}
    # strict ISO C build: the library's own strnlen / strncasecmp bound the copies of SCPI_NumberToStr
    yield {'name': 'fill-strict-iso', 'flavor': 'strict', 'cases': [c for c in cases if c.startswith('N2S')], 'model': False, 'oracle': oracle,
           'nontrivial': lambda c, o: c if info[c][2] <= 12 else None}
    # quoted-text copy
    tcases, tinfo = [], {}
    texts = [b'', b'a', b'ab"c', b'""', b'"a"', b'a' * 10, b'x"y"z"w', b"it's", b'"' * 5]
    for t in texts:
        for q in (b'"', b"'"):
            quoted = q + t.replace(q, q + q) + q
            for bl in range(0, 41 if tier != 'quick' else 16):
                c = gen.scenario(256, 4, [(1, b'T', 'PTEXT:%d:1' % bl)], [('I', b'T ' + quoted + b'\n')])
                tcases.append(c)
                tinfo[c] = (t, bl)

    def toracle(case, out):
        if out.startswith('X') or ' X' in out:
            return []
        t, bl = tinfo[case]
        m = re.search(r' P8:1:([\d,]*)', out)
        if not m:
            return [('copy', 'SCPI_ParamCopyText failed on a valid string | ' + case)]
        v = [int(x) for x in m.group(1).split(',') if x != '']
        nul, data = v[0], bytes(v[1:])
        if len(data) > bl:
            return [('copy-overrun', 'copy_len %d exceeds the buffer length %d' % (len(data), bl))]
        if len(data) < bl and not nul:
            return [('no-nul', 'copied %d bytes into %d without a terminating NUL' % (len(data), bl))]
        if not t.startswith(data):
            return [('content', 'copied %r which is not a prefix of the text %r' % (data, t))]
        return []
    yield {'name': 'copy-text', 'cases': tcases, 'oracle': toracle, 'nontrivial': lambda c, o: c if tinfo[c][1] <= len(tinfo[c][0]) + 1 else None}
