"""C01 no out-of-bounds access, undefined behaviour or hang on any input stream."""
import vf, gen

ID = 'C01'
FLAVORS = ['default', 'static', 'noinfo', 'dtostre']
RULE = ('scenarios on the ASan+UBSan build with exact-size heap buffers, the SCPI_PARSER_VERIF poisoning of the unused input-buffer tail and a 10 s watchdog, in four build configurations '
        '(default, static info heap, no device-dependent info, built-in dtostre): grammar-derived messages, mutated messages and raw byte noise over 0x00-0xFF; chunkings all-at-once, byte-at-a-time, random, '
        'zero-length calls and overrunning chunks; input-buffer sizes 2..64 and 256; queue sizes 1..4; handler scripts applying every parameter reader (incl. array, numeric-list and channel-list readers with capacities 0..4), '
        'every result writer (incl. floats, arrays in both byte orders, streamed blocks) and the error/introspection calls; complete NUL-terminated lines handed straight to SCPI_Parse; remainders that an earlier call left at the start of the buffer (older bytes behind them) executed by a zero-length call. '
        'The oracle is the absence of sanitizer/watchdog events; scenarios whose operations the model covers are also compared with the model. '
        'Non-trivial: a scenario in which at least one handler ran or an error other than overrun was raised; distinct = distinct lines.')
THOROUGH_EXTRA = 'thorough tier: plus a coverage-guided search (libFuzzer, 240 s x 8 jobs) over the scenario runner; findings are re-run as cases'
MODELLED = ('the model covers the logic (cursor bounds, progress, buffer indices: theorems of Properties_C01); real memory safety lives in the compiled code and is decided by the sanitised run, '
            'not by a theorem -- this property is claimed as partial (DESIGN.md section 7/C01)')
ASSUMPTIONS = ['forming pos + blocklen beyond one-past-the-end is UB by the letter of C that neither UBSan nor the model flags', 'public API misuse (SCPI_Match with an empty header) is outside the quantifier']

EXTRA_OPS = ['PARR:i32:%d:%d', 'PARR:u32:%d:%d', 'PARR:i64:%d:%d', 'PARR:u64:%d:%d', 'PARR:d:%d:%d', 'PARR:f:%d:%d', 'PEXPRN:%d:%d', 'PEXPRC:%d:%d:%d']


def xscript(R):
    ops = []
    for _ in range(R.choice([0, 1, 1, 2, 3])):
        k = R.random()
        if k < 0.55:
            ops += [o for o in gen.rscript(R, results=False, fail=0).split(';') if o != '-'][:1]
        elif k < 0.7:
            ops.append(R.choice(EXTRA_OPS[:6]) % (R.randint(0, 4), R.choice([0, 1])))
        elif k < 0.85:
            ops.append('PEXPRN:%d:%d' % (R.randint(0, 5), R.choice([0, 1])))
        else:
            ops.append('PEXPRC:%d:%d:%d' % (R.randint(0, 5), R.randint(0, 4), R.choice([0, 1])))
    for _ in range(R.choice([0, 1, 1, 2])):
        k = R.random()
        if k < 0.5:
            ops += gen.rresult(R)
        elif k < 0.6:
            ops.append('RD:%d' % R.choice([0, 4607182418800017408, 9218868437227405312, 18442240474082181120, 9221120237041090560, R.getrandbits(64), 1, 4503599627370496]))
        elif k < 0.7:
            ops.append('RF:%d' % R.choice([0, 1065353216, 2139095040, 4286578688, 2143289344, R.getrandbits(32), 1]))
        elif k < 0.8:
            size = R.choice([1, 2, 4, 8])
            n = R.randint(0, 5)
            ops.append('RARR:%d:%d:%s' % (size, R.choice([0, 1, 2]), bytes(R.getrandbits(8) for _ in range(size * n)).hex() or '-'))
        elif k < 0.86:
            ops.append(R.choice(['RI8:%d' % R.randint(-128, 127), 'RU8:%d:%d' % (R.randint(0, 255), R.choice([2, 8, 10, 16])), 'RI16:%d' % R.randint(-32768, 32767), 'RU16:%d:%d' % (R.randint(0, 65535), R.choice([2, 8, 10, 16]))]))
        elif k < 0.92:
            ops.append('RMNEM:' + bytes(R.choice(b'ABCdef1') for _ in range(R.randint(1, 6))).hex())
        elif k < 0.96:
            ops.append('ISCMD:' + R.choice(gen.PATS).hex())
        else:
            ops.append('RHDR:%d' % R.choice([0, 1, 9, 10, 99, 100, 999999999, 1000000000, 4294967295]))
    if R.random() < 0.25:
        # the handler asks for the header's numeric suffixes with an array shorter than, equal to or longer than the pattern needs
        ops.insert(0, 'NUMS:%d:%d' % (R.randint(0, 3), R.choice([-1, 0, 7])))
    if R.random() < 0.1:
        ops.append('RETERR')
    return ';'.join(ops) if ops else '-'


XDATA = gen.DATA + gen.BADDATA + [b'(1,2:3,4)', b'(@1!2:3!4,5)', b'(@1,2,3)', b'(1:2', b'(@1!', b'1,2,3,4,5,6', b'1.5,2.5', b'#H1,#Q7', b'(5:1,-3)', b'(@9999999999)', b'( 1 , 2 )']


def xmsg(R):
    k = R.choice([1, 1, 2, 3])
    units = []
    for _ in range(k):
        h = R.choice(gen.GOOD) if R.random() < 0.85 else R.choice(gen.HEAD)
        n = R.choice([0, 1, 1, 2, 3])
        d = b''
        if n:
            d = R.choice([b' ', b'  ', b'\t']) + R.choice(gen.SEP).join(R.choice(XDATA) for _ in range(n))
        units.append(h + d)
    return b';'.join(units) + R.choice([b'\n', b'\r\n', b'\r', b''])


def make(R):
    cap = R.choice([2, 3, 4, 5, 8, 16, 32, 64, 256, 256, 256])
    q = R.choice([1, 2, 3, 4])
    pats = gen.PATS[:]
    R.shuffle(pats)
    rich = R.random() < 0.6
    table = [(tag, p, xscript(R) if rich else gen.rscript(R)) for tag, p in enumerate(pats)]
    stream = b''
    for _ in range(R.randint(1, 4)):
        k = R.random()
        if k < 0.55:
            m = xmsg(R)
        elif k < 0.8:
            m = gen.mutate(R, xmsg(R))
        elif k < 0.9:
            m = bytes(R.getrandbits(8) for _ in range(R.randint(1, 24)))
        else:
            m = bytes(R.choice(b'#"\'(;:,*?\n\r 19aE.+-') for _ in range(R.randint(1, 24)))
        stream += m
    ins = []
    mode = R.random()
    if mode < 0.15:
        ins = [('L', stream.replace(b'\x00', b' '))]
    else:
        for c in gen.chunkings(R, stream):
            if c:
                ins.append(('I', c))
            if R.random() < 0.05:
                ins.append(('I', b''))
        if R.random() < 0.4:
            ins.append(('I', b''))
    return gen.scenario(cap, q, table, ins, heap=R.choice([2, 5, 16, 64]))


def project(case, out):
    return ' '.join(e for e in out.split(' ') if e[:1] != 'G')


def streams(tier, rng):
    n = 6000 if tier == 'quick' else 150000
    for fl in FLAVORS:
        cases = [make(rng) for _ in range(n if fl == 'default' else n // 3)]
        # a remainder left at the start of the buffer by an earlier call (with older bytes behind it) and executed by a zero-length
        # call: the readers must stop at the end of the remainder, not run on into what an earlier message left in the buffer
        rtable = [(1, b'NUM', 'PI32:1'), (2, b'VAL', 'PD:1'), (3, b'BIG', 'PI64:1;PU64:0'), (4, b'TEXT', 'PTEXT:8:1')]
        for first, rest in ((b'NUM 12345\n', b'NUM 9'), (b'VAL 1.00125\n', b'VAL 7'), (b'BIG 123456789012,77\n', b'BIG 5'), (b'NUM 99999999\r\n', b'NUM -1'),
                            (b'TEXT "abcdefgh"\n', b'NUM 3'), (b'NUM 12345\n', b'VAL 2e'), (b'VAL 123456.789\n', b'NUM #H1'), (b'NUM 77777\n', b'BIG 1,2')):
            for cap in (64, len(first + rest) + 1, 32):
                if cap - 1 < len(first + rest):
                    continue
                for ins in ([('I', first + rest), ('I', b'')], [('I', first), ('I', rest), ('I', b'')], [('I', first + rest[:2]), ('I', rest[2:]), ('I', b'')]):
                    cases.append(gen.scenario(cap, 8, rtable, ins))
        yield {'name': 'streams-' + fl, 'coqcheck': fl == 'default', 'flavor': fl, 'cases': cases, 'model': fl in ('default',), 'project': project,
               'nontrivial': lambda c, o: c if (' H' in o or ' E-1' in o or ' E-2' in o) else None}
    if tier == 'thorough':
        # coverage-guided search with libFuzzer over the same scenario runner (a search aid only): inputs it finds that end in a
        # sanitizer report, a leak or a timeout are re-run below as ordinary cases, so that they are reported with a replay
        import os as _os
        tables = []
        for _ in range(12):
            pats = gen.PATS[:]
            rng.shuffle(pats)
            tables.append(''.join('|C %d %s %s' % (tag, vf.hx(p), xscript(rng)) for tag, p in enumerate(pats)))
        corpus = []
        for _ in range(300):
            corpus.append(bytes([rng.randrange(12), rng.getrandbits(8), rng.randrange(12), rng.getrandbits(8)]) + xmsg(rng) + (xmsg(rng) if rng.random() < 0.3 else b''))
        secs = int(_os.environ.get('VERIF_FUZZ_SECONDS', '240'))
        found, note = vf.fuzz_search(tables, corpus, secs, int(_os.environ.get('VERIF_SEED', '1') or 1))
        yield {'name': 'fuzz-found', 'cases': found, 'model': False, 'note': note, 'project': project, 'nontrivial': lambda c, o: c}
    # the error response formatter on texts with quotes (the text is an exact-size allocation; judged by the sanitizer only)
    rerr = []
    for L in list(range(1, 40)) + [100, 200, 250, 254, 255, 256, 300]:
        for _ in range(2 if tier == 'quick' else 12):
            t = bytearray(rng.choice(b'abc ;') for _ in range(L))
            for _ in range(rng.randint(1, 4)):
                t[rng.choice([0, L - 1, rng.randrange(L)])] = 34
            rerr.append('RERR %d %s' % (rng.choice([-113, 1234, 0]), bytes(t).hex()))
    yield {'name': 'helpers-result-error', 'cases': rerr, 'model': False, 'nontrivial': lambda c, o: c}
    # the formatting helpers a handler may call on what it decoded (exact-size buffers; judged by the sanitizer only)
    from props import C15
    import struct as _st
    for st in C15.streams(tier, rng):
        if st['name'] in ('fill-default', 'copy-text'):
            yield {'name': 'helpers-' + st['name'], 'cases': st['cases'][::2], 'model': False, 'nontrivial': lambda c, o: c}
        elif st['name'] == 'fill-dtostre-build':
            nines = []
            for x in (999999999999999.9, 9.999999999999998, 99999.96, 0.99999999999999999, 9.9999999e-10, 99999999999999999999.0, -9.999999999999998, 0.0999999999999999999, 9.5, 99.5, 0.95):
                b = _st.unpack('<Q', _st.pack('<d', x))[0]
                fb = _st.unpack('<I', _st.pack('<f', x))[0]
                nines += ['D2S %x 64' % b, 'F2S %x 64' % fb] + ['DTOSTRE %x %d 40 0' % (b, P) for P in (1, 2, 6, 15)]
            yield {'name': 'helpers-dtostre', 'flavor': 'dtostre', 'cases': st['cases'][::2] + nines, 'model': False, 'nontrivial': lambda c, o: c}
