"""C05 wrong, missing or surplus parameters raise the right error, never mis-delivered."""
import re
import vf, gen

ID = 'C05'
FLAVORS = ['default']
RULE = ('stream readers: one unit "CMD <list>" per scenario; the handler script is 0..4 typed readers (each of the 12 reader kinds, mandatory or optional) optionally followed by a failing return; '
        'the list has 0..5 items drawn from a pool typed by data class (decimal, decimal+known/unknown suffix, #H/#Q/#B, special/boolean/choice/other mnemonics, both string kinds, blocks, expressions) '
        'with every blank placement IEEE 488.2 allows around items and commas. stream malformed: the same with one malformed fragment in the list. stream retval: multi-message input calls and overruns. stream own-error: handlers that report their own error (positive device-defined and negative codes) and then fail or leave parameters unread. '
        'Non-trivial: a scenario that raises at least one error or reads at least two parameters; distinct = distinct lines.')
MODELLED = 'SCPI_Parameter, every typed reader except the array readers, processCommand accounting, the unit scanner and the return value of SCPI_Input are modelled in ParserModel/LexModel'
ASSUMPTIONS = ['array readers are exercised with ASCII format only through C01 (sanitizer) -- their silent-failure corners are recorded in DESIGN.md section 9',
               'integer readers on a literal that starts with "." are known finding C05/int-reader-silent']

# pool: (text, class, detail)
POOL = [
    (b'1', 'dec', 1), (b'-5', 'dec', -5), (b'+7', 'dec', 7), (b'42', 'dec', 42), (b'0', 'dec', 0), (b'1.5', 'dec', None), (b'1e3', 'dec', None), (b'-2.5E-3', 'dec', None), (b'12.', 'dec', None),
    (b'12 MV', 'decsuf', 'known'), (b'3.3mv', 'decsuf', 'known'), (b'10 khz', 'decsuf', 'known'), (b'5 S', 'decsuf', 'known'), (b'1V', 'decsuf', 'known'), (b'7 xyz', 'decsuf', 'unknown'), (b'2 Q/x', 'decsuf', 'unknown'),
    # a suffix that makes the literal look like a C99 hexadecimal constant is still an unknown suffix of the number 0
    (b'0XFF', 'decsuf', 'unknown'), (b'0xbeef', 'decsuf', 'unknown'), (b'0XA.B', 'decsuf', 'unknown'), (b'0 XC', 'decsuf', 'unknown'),
    (b'#HFF', 'nd', 255), (b'#hff', 'nd', 255), (b'#Q17', 'nd', 15), (b'#B101', 'nd', 5),
    (b'MAX', 'chr', 'special'), (b'min', 'chr', 'special'), (b'DEFAULT', 'chr', 'special'), (b'INF', 'chr', 'special'), (b'UP', 'chr', 'special'),
    (b'ON', 'chr', 'bool'), (b'OFF', 'chr', 'bool'), (b'on', 'chr', 'bool'),
    (b'BUS', 'chr', 'choice'), (b'IMM', 'chr', 'choice'), (b'imm', 'chr', 'choice'), (b'EXTERNAL', 'chr', 'choice'), (b'IMMEDIATE', 'chr', 'choice'),
    (b'FOO', 'chr', 'other'), (b'EXTE', 'chr', 'other'), (b'IMMED', 'chr', 'other'),
    (b'"abc"', 'str', None), (b"'x y'", 'str', None), (b'"a""b"', 'str', None), (b'""', 'str', None), (b'"1,2;3"', 'str', None),
    (b'#13abc', 'blk', None), (b'#10', 'blk', None), (b'#205hello', 'blk', None), (b'#12,;', 'blk', None),
    (b'(1,2)', 'exp', None), (b'(@1!2)', 'exp', None), (b'()', 'exp', None),
]
DOTINT = [(b'.5', 'dec', 'dot'), (b'+.5', 'dec', 'dot'), (b'-.25', 'dec', 'dot')]
# fragments that are not program data; unfinished blocks are left out on purpose: "#12a" + NL is a complete block that
# swallows the terminator, "#3" an incomplete one -- both mean "more input expected", not "malformed"
MALFORMED = [b'@', b'"unterminated', b'$', b'#H', b'(1', b"'a", b'1 2', b'1e+', b'a b', b'"a"b', b'(1))', b'1,,2', b'#Q8', b'#0', b'1 $', b'%',
             # bytes above 0x7f are no white space and no program data (a pasted no-break space, Latin-1, 0xff)
             b'1\xc2\xa0', b'\xa05', b'7\xff', b'\x80', b'\xa0']
READERS = ['PI32', 'PU32', 'PI64', 'PU64', 'PBOOL', 'PCHOICE', 'PCHARS', 'PTEXT', 'PBLOCK', 'PD', 'PF', 'PNUM']


def expect_reader(kind, cls, detail):
    """(ok, error code or None, shape-if-known-finding)"""
    if kind in ('PI32', 'PU32', 'PI64', 'PU64'):
        if cls == 'dec':
            if detail == 'dot':
                return (False, None)          # known finding: strtol converts nothing, no error of its own
            return (True, None)
        if cls == 'nd':
            return (True, None)
        if cls == 'decsuf':
            return (False, -138)
        return (False, -104)
    if kind in ('PD', 'PF'):
        if cls in ('dec', 'nd'):
            return (True, None)
        if cls == 'decsuf':
            return (False, -138)
        return (False, -104)
    if kind == 'PBOOL':
        if cls == 'dec':
            return (True, None)
        if cls == 'chr':
            return (True, None) if detail == 'bool' else (False, -224)
        return (False, -104)
    if kind == 'PCHOICE':
        if cls == 'chr':
            return (True, None) if detail == 'choice' else (False, -224)
        return (False, -104)
    if kind == 'PCHARS':
        return (True, None)
    if kind == 'PTEXT':
        return (True, None) if cls == 'str' else (False, -104)
    if kind == 'PBLOCK':
        return (True, None) if cls == 'blk' else (False, -104)
    if kind == 'PNUM':
        if cls in ('dec', 'nd'):
            return (True, None)
        if cls == 'decsuf':
            return (True, None) if detail == 'known' else (False, -131)
        if cls == 'chr':
            return (True, None) if detail == 'special' else (False, -224)
        return (False, -104)
    raise ValueError(kind)


def expected(script, items):
    """expected (P results [(kind, ok)], error codes in order) for one well-formed unit"""
    ps, errs = [], []
    consumed = 0
    aborted = False
    ops = [o for o in script.split(';') if o != '-']
    for o in ops:
        f = o.split(':')
        if f[0] == 'RETERR':
            if not errs:
                errs.append(-200)
            aborted = True
            break
        kind, mand = f[0], f[-1] == '1'
        if consumed < len(items):
            t, cls, detail = items[consumed]
            consumed += 1
            ok, e = expect_reader(kind, cls, detail)
        else:
            ok, e = (False, -109 if mand else None)
        ps.append((kind, ok))
        if e is not None:
            errs.append(e)
        if not ok and (mand or errs):
            aborted = True
            if not errs:
                errs.append(-200)      # handler fails without having reported anything
            break
    if consumed < len(items) and not errs:
        errs.append(-108)
    return ps, errs


KINDNO = {'PI32': 1, 'PU32': 2, 'PI64': 3, 'PU64': 4, 'PBOOL': 5, 'PCHOICE': 6, 'PCHARS': 7, 'PTEXT': 8, 'PBLOCK': 9, 'PD': 10, 'PF': 11, 'PNUM': 12}


def render_list(R, items):
    if not items:
        return R.choice([b'', b'', b' '])
    d = R.choice([b' ', b'  ', b'\t', b' \t'])
    for i, (t, _, _) in enumerate(items):
        if i:
            d += R.choice([b',', b',', b' ,', b', ', b' , ', b'\t,\t', b'  ,  '])
        d += t
    return d + R.choice([b'', b'', b' ', b'\t'])


def make(R, malformed=False, dotint=False):
    nread = R.choice([0, 1, 1, 2, 2, 3, 4])
    ops = []
    for i in range(nread):
        k = R.choice(READERS)
        m = 1 if R.random() < 0.6 else 0
        ops.append('PTEXT:%d:%d' % (R.choice([8, 64]), m) if k == 'PTEXT' else '%s:%d' % (k, m))
    if R.random() < 0.1:
        ops.append('RETERR')
    script = ';'.join(ops) if ops else '-'
    n = R.choice([0, 1, 1, 2, 2, 3, 4, 5])
    pool = POOL + (DOTINT if dotint else [])
    items = [R.choice(pool) for _ in range(n)]
    if nread and n and R.random() < 0.6:
        # aim at the interesting diagonal: the class the reader wants, or a near miss
        items[0] = R.choice(pool)
    data = render_list(R, items)
    bad = None
    if malformed:
        bad = R.choice(MALFORMED)
        parts = [t for (t, _, _) in items]
        pos = R.randint(0, len(parts))
        parts.insert(pos, bad)
        data = b' ' + b','.join(parts)
    msg = b'CMD' + data + R.choice([b'\n', b'\r\n'])
    table = [(1, b'CMD', script), (2, b'OTHer', '-')]
    return gen.scenario(256, 16, table, [('I', msg)]), (script, items, bad, msg)


def project(case, out):
    keep = []
    for e in out.split(' ')[1:]:
        if e == '|':
            break
        if e[:1] == 'P':
            f = e.split(':')
            keep.append(f[0] + ':' + f[1])
        elif e[:1] in ('E', 'R', 'H'):
            keep.append(e.split(':')[0])
    return ' '.join(keep)


def oracle_factory(info):
    def oracle(case, out):
        if out.startswith('X') or case not in info:
            return []
        script, items, bad, msg = info[case]
        evs = [e for e in vf.events(out)]
        if '|' in evs:
            evs = evs[:evs.index('|')]
        ecodes = [int(e[1:]) for e in evs if e[0] == 'E' and e not in ('E0',)]
        ps = [(int(e[1:].split(':')[0]), e.split(':')[1] == '1') for e in evs if e[0] == 'P']
        rets = [e for e in evs if e[0] == 'R']
        if bad is not None:
            # malformed data: no handler sees it as a parameter, the unit queues a command error
            if any(ok for _, ok in ps) and False:
                pass
            if not any(-199 <= c <= -100 for c in ecodes):
                shape = 'malformed-accepted'
                return [(shape, 'message %r: the data list is not well formed (fragment %r) but no command error was queued; events %s' % (msg, bad, ' '.join(evs)))]
            return []
        wp, we = expected(script, items)
        gp = [(k, ok) for k, ok in ps]
        wpn = [(KINDNO[k], ok) for k, ok in wp]
        out_l = []
        if any(d == 'dot' for _, _, d in items) and any(o.split(':')[0] in ('PI32', 'PU32', 'PI64', 'PU64') for o in script.split(';')):
            # known finding 16 territory: report only under its own shape
            if gp != wpn or ecodes != we:
                return []
            k = [i for i, (kk, ok) in enumerate(wp) if not ok and i < len(items) and items[i][2] == 'dot']
            if k:
                return [('int-reader-silent', 'message %r script %s: integer reader on %r returned FALSE without queuing an error of its own (only -200 follows)' % (msg, script, items[k[0]][0]))]
            return []
        if gp != wpn:
            return [('reader-result', 'message %r script %s: reader results %s, expected %s' % (msg, script, gp, wpn))]
        if ecodes != we:
            return [('error-code', 'message %r script %s: queued errors %s, the property\'s table gives %s' % (msg, script, ecodes, we))]
        if rets and (rets[-1] == 'R1') != (not we):
            return [('input-retval', 'message %r: SCPI_Input returned %s with errors %s' % (msg, rets[-1], ecodes))]
        return out_l
    return oracle


def retval_cases(R, n):
    cases, want = [], {}
    for _ in range(n):
        msgs = []
        for _ in range(R.randint(1, 3)):
            good = R.random() < 0.5
            msgs.append(((b'OK 1\n' if good else R.choice([b'BAD\n', b'OK\n', b'OK 1,2\n', b'OK "x"\n', b'@\n'])), good))
        cap = R.choice([8, 16, 256])
        stream = b''.join(m for m, _ in msgs)
        table = [(1, b'OK', 'PI32:1')]
        c = gen.scenario(cap, 16, table, [('I', stream)])
        cases.append(c)
        want[c] = (len(stream) > cap - 1, msgs[-1][1])
    return cases, want


def streams(tier, rng):
    n = 8000 if tier == 'quick' else 120000
    for name, mal, dot in (('readers', False, False), ('malformed', True, False), ('dot-literals', False, True)):
        cases, info = [], {}
        for _ in range(n if name == 'readers' else n // 4):
            c, i = make(rng, mal, dot)
            cases.append(c)
            info[c] = i
        if name == 'readers':
            for msg, script, items in ((b'CMD 1 ,2\n', 'PI32:1;PI32:1', [(b'1', 'dec', 1), (b'2', 'dec', 2)]), (b'CMD "abc"\n', 'PNUM:1', [(b'"abc"', 'str', None)])):
                c = gen.scenario(256, 16, [(1, b'CMD', script)], [('I', msg)])
                cases.append(c)
                info[c] = (script, items, None, msg)
        if name == 'malformed':
            for msg, bad in ((b'CMD 1,\n', b''), (b'CMD 1 , \r\n', b'')):
                c = gen.scenario(256, 16, [(1, b'CMD', 'PI32:0')], [('I', msg)])
                cases.append(c)
                info[c] = ('PI32:0', [], bad, msg)

        def nontrivial(c, o):
            return c if (' E-' in o or o.count(' P') >= 2) else None
        orc = oracle_factory(info)
        if name == 'malformed':
            def orc2(case, out, orc=orc, info=info):
                r = orc(case, out)
                # the trailing comma directly before the terminator is the recorded finding
                res = []
                for shape, what in r:
                    msg = info[case][3]
                    if shape == 'malformed-accepted' and re.search(rb',[ \t]*\r?\n$', msg):
                        shape = 'malformed-accepted:trailing-comma'
                    res.append((shape, what))
                return res
            orc = orc2
        yield {'name': name, 'cases': cases, 'project': project, 'oracle': orc, 'nontrivial': nontrivial}
    # several units in one message: the error bookkeeping is per unit
    cases, info = [], {}
    for _ in range(3000 if tier == 'quick' else 40000):
        k = rng.choice([2, 2, 3])
        table, units, per = [], [], []
        for u in range(k):
            nread = rng.choice([0, 1, 1, 2])
            ops = []
            for i in range(nread):
                kd = rng.choice(READERS)
                m = 1 if rng.random() < 0.6 else 0
                ops.append('PTEXT:%d:%d' % (rng.choice([8, 64]), m) if kd == 'PTEXT' else '%s:%d' % (kd, m))
            if rng.random() < 0.2:
                ops.append('RETERR')
            script = ';'.join(ops) if ops else '-'
            items = [rng.choice(POOL) for _ in range(rng.choice([0, 1, 1, 2, 3]))]
            name = [b'CMA', b'CMB', b'CMC'][u]
            table.append((u + 1, name, script))
            units.append(name + render_list(rng, items))
            per.append((script, items))
        if rng.random() < 0.3:
            j = rng.randrange(k)
            units[j] = b'NOSUCH 1'
            per[j] = None
        msg = b';'.join(units) + b'\n'
        c = gen.scenario(256, 32, table, [('I', msg)])
        cases.append(c)
        info[c] = (per, msg)

    def morc(case, out):
        if out.startswith('X') or case not in info:
            return []
        per, msg = info[case]
        we = []
        for x in per:
            if x is None:
                we.append(-113)
            else:
                we += expected(x[0], x[1])[1]
        evs = vf.events(out)
        if '|' in evs:
            evs = evs[:evs.index('|')]
        ecodes = [int(e[1:]) for e in evs if e[0] == 'E' and e != 'E0']
        if ecodes != we:
            return [('error-code-units', 'message %r: queued errors %s, unit by unit the property gives %s' % (msg, ecodes, we))]
        return []
    yield {'name': 'multi-unit', 'coqcheck': True, 'cases': cases, 'project': project, 'oracle': morc, 'nontrivial': lambda c, o: c if ' E-' in o else None}
    # a quoted string that fits the handler's buffer (terminator included) is delivered whole, in any list position
    tcases, tinfo = [], {}
    for _ in range(300 if tier == 'quick' else 4000):
        bl = rng.choice([2, 3, 4, 8, 8, 16, 33])
        L = rng.choice([bl - 1, bl - 1, bl - 2, max(bl - 3, 0), 1])
        L = max(L, 0)
        t = bytes(rng.choice(b'abcXYZ 019;,') for _ in range(L))
        q = rng.choice([b'"', b"'"])
        lit = q + t + q
        before = rng.choice([b'', b'1 , ', b'"x",'])
        nb = 0 if not before else 1
        ops = ['PCHARS:1'] * nb + ['PTEXT:%d:1' % bl]
        c = gen.scenario(256, 8, [(1, b'T', ';'.join(ops))], [('I', b'T ' + before + lit + b'\n')])
        tcases.append(c)
        tinfo[c] = (t, bl)

    def torc(case, out):
        if out.startswith('X') or ' X' in out:
            return []
        t, bl = tinfo[case]
        import re as _re
        m = _re.search(r' P8:1:([\d,]*)', out)
        if not m:
            return [('text-whole', 'quoted text %r (buffer %d) was not delivered' % (t, bl))]
        v = [int(x) for x in m.group(1).split(',') if x != '']
        data = bytes(v[1:])
        if len(t) <= bl - 1 and data != t:
            return [('text-whole', 'quoted text %r fits a buffer of %d bytes with its terminator but was delivered as %r' % (t, bl, data))]
        return []
    yield {'name': 'text-fit', 'cases': tcases, 'project': project, 'oracle': torc, 'nontrivial': lambda c, o: c if len(tinfo[c][0]) == tinfo[c][1] - 1 else None}
    cases, want = retval_cases(rng, 1500 if tier == 'quick' else 20000)

    def orc3(case, out):
        if out.startswith('X'):
            return []
        over, lastgood = want[case]
        r = [e for e in vf.events(out) if e[0] == 'R']
        exp = 'R0' if (over or not lastgood) else 'R1'
        if r and r[0] != exp:
            return [('input-retval', 'input call returned %s, expected %s (overrun %s, last message clean %s)' % (r[0], exp, over, lastgood))]
        return []
    yield {'name': 'retval', 'cases': cases, 'project': project, 'oracle': orc3, 'nontrivial': lambda c, o: c if ' E' in o else None}

    # a handler that reports its OWN error -- a device-defined positive code as well as a negative one -- and then fails or leaves
    # parameters unread: exactly that error is queued (no -200, no -108 on top) and the input call returns false
    ocases, oinfo = [], {}
    for code in (100, 5, 200, 32767, 1, -222, -100, -310):
        for script in ('PUSH:%d;RETERR', 'PUSH:%d', 'PI32:1;PUSH:%d;RETERR', 'PI32:1;PUSH:%d', 'PI32:0;PUSH:%d;RETERR'):
            for data in (b'', b' 1', b' 1,2', b' 1, 2 ,3'):
                sc = script % code
                if sc.startswith('PI32:1') and not data:
                    continue
                c = gen.scenario(256, 16, [(1, b'CMD', sc), (2, b'OTHer', '-')], [('I', b'CMD' + data + b'\n')])
                ocases.append(c)
                oinfo[c] = code

    def oorc(case, out):
        if out.startswith('X') or ' X' in out or case not in oinfo:
            return []
        evs = vf.events(out)
        evs = evs[:evs.index('|')] if '|' in evs else evs
        errs = [int(e[1:]) for e in evs if e[0] == 'E' and e[1:].lstrip('-').isdigit()]
        r = [e for e in evs if e[0] == 'R']
        if errs != [oinfo[case]]:
            return [('own-error', 'a handler that reported error %d itself: errors raised %r, expected exactly that one' % (oinfo[case], errs))]
        if r and r[0] != 'R0':
            return [('input-retval', 'the message raised error %d but the input call returned %s' % (oinfo[case], r[0]))]
        return []
    yield {'name': 'own-error', 'cases': ocases, 'project': project, 'oracle': oorc, 'nontrivial': lambda c, o: c}
