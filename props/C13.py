"""C13 the tokenizer recognises exactly the IEEE 488.2 program-data token syntax."""
import itertools, re
import vf

ID = 'C13'
FLAVORS = ['default', 'uchar']
RULE = ('LEX lines (default build, and the strings with a byte above 0x7f also on a build with unsigned plain char): every string up to length 4 (quick) / 5 (thorough) over a 21-symbol alphabet holding one representative of every character class the recognisers distinguish '
        '(letter, E, H/B/Q, hex letter, digits 0 1 8, _, blank, tab, + - . # quote, apostrophe, ( ) ; , : * ? / CR LF @ ! NUL, a byte >= 0x80), at offset 0 and (sampled) embedded at offsets 1..3 of a longer buffer, '
        'plus grammar-generated long tokens; each line runs all 13 recognisers, the program-data choice and the unit scanner. Non-trivial: at least one recogniser consumed input; distinct = distinct lines.')
MODELLED = 'every scpiLex_* recogniser, scpiParser_parseProgramData/parseAllProgramData/detectProgramMessageUnit are modelled in LexModel as functions of the remaining input'
ASSUMPTIONS = ['white space is the library\'s class {SP, HT}; a lone CR is accepted as terminator; relaxed suffix syntax; mnemonic length not limited (DESIGN.md section 9)',
               'INCOMPLETE header types are specified as the error tokens the code reports']

ALPHA = [b'a', b'E', b'H', b'f', b'0', b'1', b'8', b'_', b' ', b'\t', b'+', b'-', b'.', b'#', b'"', b"'", b'(', b')', b';', b',', b':', b'*', b'?', b'/', b'\r', b'\n', b'@', b'\x00', b'\x80', b'b', b'Q']

RX = {
    'ws': re.compile(rb'[ \t]+'),
    'chr': re.compile(rb'[A-Za-z][A-Za-z0-9_]*'),
    'dec': re.compile(rb'[+-]?(?:[0-9]+(?:\.[0-9]*)?|\.[0-9]+)(?:[ \t]*[eE][ \t]*[+-]?[0-9]+)?'),
    'nd': re.compile(rb'#(?:[hH][0-9a-fA-F]+|[qQ][0-7]+|[bB][01]+)'),
    'exp': re.compile(rb'\((?:[\x20\x21\x24-\x26\x2a-\x3a\x3c-\x7e])*\)'),
    'nl': re.compile(rb'\r\n|\r|\n'),
    'com': re.compile(rb','),
    'sem': re.compile(rb';'),
}


def ref_string(s):
    if not s or s[0] not in (34, 39):
        return 0
    q = s[0]
    i = 1
    while i < len(s):
        c = s[i]
        if c == q:
            if i + 1 < len(s) and s[i + 1] == q:
                i += 2
                continue
            return i + 1
        if c > 0x7f:
            return 0
        i += 1
    return 0


def ref_block(s):
    """(consumed, cursor)  definite length only: '#' nonzero-digit, that many digits, that many bytes"""
    if s == b'#':
        return (0, 1, 'swallow')          # input ends inside the header: nothing recognised, cursor at the end
    if len(s) < 2 or s[0] != 35 or not (49 <= s[1] <= 57):
        return (0, 0, None)
    nd = s[1] - 48
    if len(s) < 2 + nd:
        return (0, len(s), 'swallow') if all(48 <= c <= 57 for c in s[2:]) else (0, 0, None)
    ds = s[2:2 + nd]
    if not all(48 <= c <= 57 for c in ds):
        return (0, 0, None)
    n = int(ds)
    if len(s) < 2 + nd + n:
        return (0, len(s), 'swallow')
    return (2 + nd + n, 2 + nd + n, None)


def oracle(case, out):
    if out.startswith('X'):
        return []
    f = case.split(' ')
    off = int(f[1])
    s = vf.unhx(f[2])[off:]
    res = {}
    for t in out.split(' ')[1:]:
        k, _, v = t.partition(':')
        res[k] = [int(x) for x in v.split(',')]
    bad = []
    L = len(s)
    for k, v in res.items():
        if k == 'unit':
            continue
        ty, ptr, ln, ret, disp = v
        if not (0 <= disp <= L):
            bad.append(('cursor', '%s: cursor moved to %d on an input of %d bytes' % (k, disp, L)))
        if k != 'pd' and ret > 0 and not (0 <= ptr and ptr + ln <= L):
            bad.append(('extent', '%s: token [%d,+%d) outside the input of %d bytes' % (k, ptr, ln, L)))
    for k, rx in RX.items():
        m = rx.match(s)
        want = m.end() if m else 0
        ty, ptr, ln, ret, disp = res[k]
        if disp != want or ret != want:
            bad.append(('longest-prefix', '%s on %r: consumed %d (returned %d), the 488.2 grammar\'s longest prefix is %d' % (k, s, disp, ret, want)))
        elif want and k == 'nd':
            if ptr != 2 or ln != want - 2:
                bad.append(('extent', 'nondecimal on %r: digits extent [%d,+%d), expected [2,+%d)' % (s, ptr, ln, want - 2)))
        elif want and (ptr != 0 or ln != want):
            bad.append(('extent', '%s on %r: reported extent [%d,+%d) for %d consumed bytes' % (k, s, ptr, ln, want)))
    ws = ref_string(s)
    ty, ptr, ln, ret, disp = res['str']
    if (disp, ret) != (ws, ws):
        bad.append(('string', 'string recogniser on %r consumed %d, the delimited string is %d bytes' % (s, disp, ws)))
    wb, wcur, sw = ref_block(s)
    ty, ptr, ln, ret, disp = res['blk']
    if ret != wb or disp != wcur:
        bad.append(('block', 'block recogniser on %r returned %d, cursor %d; definite-length syntax gives %d, cursor %d' % (s, ret, disp, wb, wcur)))
    elif wb and (ptr + ln != wb):
        bad.append(('block', 'block on %r: payload extent [%d,+%d) does not end at %d' % (s, ptr, ln, wb)))
    # a unit is well formed exactly when it is header [ws data (, data)*] terminated by ; NL or end
    return bad[:2]


def long_tokens(R, n):
    out = []
    for _ in range(n):
        k = R.randrange(8)
        if k == 0:
            t = R.choice([b'+', b'-', b'']) + bytes(R.choice(b'0123456789') for _ in range(R.randint(1, 25))) + R.choice([b'', b'.', b'.' + bytes(R.choice(b'0123456789') for _ in range(R.randint(1, 9)))]) + R.choice([b'', b'e5', b' E -12', b'E+', b' e', b'E 3x'])
        elif k == 1:
            t = b'#' + R.choice([b'H', b'h', b'Q', b'B', b'b', b'X']) + bytes(R.choice(b'0123456789abcdefABCDEFg') for _ in range(R.randint(0, 20)))
        elif k == 2:
            q = R.choice([b'"', b"'"])
            t = q + b''.join(R.choice([b'a', b' ', b';', q + q, b'\n', b"'", b'"', b'\x80'][:7 if R.random() < 0.9 else 8]) for _ in range(R.randint(0, 20))) + R.choice([q, b'', q + q])
        elif k == 3:
            d = bytes(R.getrandbits(8) for _ in range(R.randint(0, 40)))
            h = b'#' + str(len(str(len(d)))).encode() + str(len(d)).encode()
            t = (h + d)[:R.choice([len(h) + len(d), len(h) + len(d), R.randint(0, len(h) + len(d))])] + R.choice([b'', b';', b'\n'])
        elif k == 4:
            t = b'(' + bytes(R.choice(b'12,:@! ab-.') for _ in range(R.randint(0, 20))) + R.choice([b')', b'', b'))', b'(', b'#)'])
        elif k == 5:
            t = R.choice([b'', b':', b'*']) + b':'.join(bytes(R.choice(b'ABCxyz019_') for _ in range(R.randint(1, 14))) for _ in range(R.randint(1, 5))) + R.choice([b'', b'?', b':', b'? 1', b' 1,2;X'])
        elif k == 6:
            t = bytes(R.choice(b'VvmMkK/.-123sS') for _ in range(R.randint(1, 10)))
        else:
            t = R.choice([b'CMD', b'A:B?', b'*IDN?']) + R.choice([b'', b' ']) + b','.join(R.choice([b'1', b' 2.5e3 ', b'"s"', b'#13abc', b'(1:2)', b'MAX', b'#HFF', b'1 V', b'', b'@', b'1 2']) for _ in range(R.randint(0, 4))) + R.choice([b'', b';', b'\n', b'\r\n', b';B'])
        out.append(t)
    return out


def streams(tier, rng):
    maxlen = 4 if tier == 'quick' else 5
    A = ALPHA if tier != 'quick' else ALPHA[:29]
    cases = []
    cases.append('LEX 0 -')
    for n in range(1, maxlen + 1):
        if n <= 3 or tier != 'quick':
            for t in itertools.product(A, repeat=n):
                cases.append('LEX 0 ' + b''.join(t).hex())
        else:
            # length 4 in quick: 150k sampled strings
            for _ in range(150000):
                cases.append('LEX 0 ' + b''.join(rng.choice(A) for _ in range(n)).hex())
    # embedded at offsets 1..3 of a longer buffer
    for _ in range(20000 if tier == 'quick' else 300000):
        off = rng.randint(1, 3)
        s = b''.join(rng.choice(ALPHA) for _ in range(off + rng.randint(0, 5)))
        cases.append('LEX %d %s' % (off, s.hex()))
    for t in long_tokens(rng, 20000 if tier == 'quick' else 300000):
        off = rng.choice([0, 0, 0, 1, 2])
        pre = bytes(rng.choice(b'a1 ;"#') for _ in range(off))
        cases.append('LEX %d %s' % (off, vf.hx(pre + t)))
    yield {'name': 'recognisers', 'cases': cases, 'oracle': oracle,
           'nontrivial': lambda c, o: c if re.search(r':\d+,\d+,\d+,[1-9]', o) else None}

    # the same recognisers where plain char is unsigned (ARM, PowerPC): strings containing a byte above 0x7f
    hi = [c for c in cases if '80' in c.split(' ')[2]]
    hi = hi[:: max(1, len(hi) // (30000 if tier == 'quick' else 200000))]
    hi += [c.rsplit(' ', 1)[0] + ' ' + c.rsplit(' ', 1)[1].replace('80', x) for c in hi[::7] for x in ('ff', 'a0', 'c2')]
    yield {'name': 'recognisers-unsigned-char', 'flavor': 'uchar', 'cases': hi, 'oracle': oracle,
           'nontrivial': lambda c, o: c if re.search(r':\d+,\d+,\d+,[1-9]', o) else None}
