"""C08 behaviour depends on the byte stream, not on how it is cut into input calls."""
import re
import vf, gen

ID = 'C08'
FLAVORS = ['default']
RULE = ('streams of 1..8 messages (well-formed and mutated, with blocks carrying embedded terminators, quoted strings, empty units, CR LF pairs) shorter than the 256-byte input buffer; '
        'each stream is fed byte-at-a-time (reference), all-at-once, at every single split point (quick: up to 12 sampled points) and in 3 random multi-way splits, each followed by a zero-length call; '
        'handler starts, parameters, output bytes, errors and the unconsumed remainder are compared across the chunkings on the implementation, and every chunking is compared with the model. stream flush: an unfinished block or string, a bare header or a buffer-filling message is pending, a zero-length call, then a message that must run on its own. stream separators-as-data: semicolons inside quoted strings, semicolons and line feeds inside blocks, next to real separators, under every single cut. '
        'Non-trivial: a stream of at least two messages in which a handler ran; distinct = distinct lines.')
MODELLED = 'SCPI_Input (append, overrun guard, rescan loop, memmove) and everything it calls are modelled in ParserModel'
ASSUMPTIONS = ['return values of the individual input calls are not part of the statement', 'a line terminator inside a quoted string is known finding C08/newline-in-quoted-string']


def events_proj(out):
    """H, P, W (adjacent writes merged), F, E events, remainder and queue; R dropped"""
    keep = []
    w = ''
    for e in out.split(' ')[1:]:
        if e[:1] == 'W':
            w += e[1:]
            continue
        if e[:1] == 'R':
            continue
        if e[:1] == 'G':
            continue
        if w:
            keep.append('W' + w)
            w = ''
        keep.append(e)
    if w:
        keep.append('W' + w)
    return ' '.join(keep)


def project(case, out):
    return events_proj(out)


def quoted_newline(stream):
    """is there a quote opened before a CR/LF and not closed before it (as the string recogniser would scan it)?"""
    i = 0
    n = len(stream)
    while i < n:
        c = stream[i]
        if c in (34, 39):
            j = i + 1
            while j < n:
                if stream[j] == c:
                    if j + 1 < n and stream[j + 1] == c:
                        j += 2
                        continue
                    break
                if stream[j] in (10, 13):
                    return True
                j += 1
            i = j + 1
        else:
            i += 1
    return False


def make_stream(R):
    msgs = []
    for _ in range(R.choice([1, 2, 2, 3, 4, 8])):
        k = R.random()
        if k < 0.6:
            m = gen.rmsg(R, good=0.9, bad_data=0.03, units=(1, 1, 2, 3))
        elif k < 0.7:
            d = bytes(R.choice(b'\n\r;a,"#\x00\x00') for _ in range(R.choice([0, 1, 3, 6, 10, 16, 25, 40])))
            m = b'BLK? #' + str(len(str(len(d)))).encode() + str(len(d)).encode() + d + R.choice([b'\n', b'\r\n'])
        elif k < 0.8:
            m = R.choice([b'TXT "a;b"', b"TXT 'x,y'", b'TXT "q""q"', b'TXT "a\nb"', b"TXT 'c\r\nd'"]) + R.choice([b'\n', b'\r\n'])
        elif k < 0.9:
            m = R.choice([b';\n', b'\n', b'\r\n', b' ;; \n', b'\r'])
        else:
            m = gen.mutate(R, gen.rmsg(R))
        msgs.append(m)
    s = b''.join(msgs)[:180]
    if s and not s.endswith((b'\n', b'\r')):
        s += b'\n'
    if R.random() < 0.25:
        # the stream ends in a complete but unterminated unit (executed by the final zero-length call), possibly a binary block
        d = bytes(R.choice(b'ab\x00\x01\n') for _ in range(R.randint(1, 6)))
        s += R.choice([b'II 5', b'TEST:A?', b'BLK? #' + str(len(str(len(d)))).encode() + str(len(d)).encode() + d, b'TXT "x"', b'CH 1,2'])
    return s


def streams(tier, rng):
    n = 500 if tier == 'quick' else 6000
    cases, groups, info, flushrefs = [], [], {}, []
    for _ in range(n):
        stream = make_stream(rng)
        pats = gen.PATS[:]
        table = [(tag, p, gen.rscript(rng, stream_blocks=True)) for tag, p in enumerate(pats)]
        chunkings = [[stream[i:i + 1] for i in range(len(stream))], [stream]]
        pts = list(range(1, len(stream)))
        if tier == 'quick' and len(pts) > 12:
            pts = rng.sample(pts, 12)
        for p in pts:
            chunkings.append([stream[:p], stream[p:]])
        for _ in range(3):
            chunkings.append(gen.chunkings(rng, stream, 0.9))
        start = len(cases)
        if not stream.endswith((b'\n', b'\r')):
            # the zero-length call executes what is buffered as a complete message: the same stream with a terminator
            # appended (and no zero-length call) must behave alike, unless the terminator is swallowed by an unfinished block
            c = gen.scenario(256, 16, table, [('I', stream + b'\n')])
            cases.append(c)
            info[c] = stream
            flushrefs.append((len(cases) - 1, len(cases)))
            start = len(cases)
        for ch in chunkings:
            c = gen.scenario(256, 16, table, [('I', x) for x in ch if x] + [('I', b'')])
            cases.append(c)
            info[c] = stream
        groups.append((start, len(cases), stream))
    # a call that fills the buffer exactly (pending + chunk = length - 1) while completing a message: nothing overruns, so it
    # must behave like byte-at-a-time delivery into the same buffer
    for _ in range(150 if tier == 'quick' else 2000):
        msgs = [rng.choice([b'II 5', b'TEST:A?', b'TXT "xy"', b'CH 1,2', b'TEST:A?;B?', b'N? 12 MV', b'BLK?', b'E?;II 1', b'FOO', b'TXT \'a b c\'']) for _ in range(rng.randint(2, 4))]
        stream = b''.join(m + rng.choice([b'\n', b'\r\n']) for m in msgs)
        nls = [i for i, ch in enumerate(stream) if ch == 10]
        k = rng.randrange(len(nls) - 1) if len(nls) > 1 else 0
        lo = nls[k - 1] + 1 if k > 0 else 0                 # start of the message that the filling chunk completes
        p1 = rng.randint(lo, nls[k])                         # the chunk starts inside that message ...
        p2 = rng.randint(nls[k] + 1, min(len(stream), nls[k] + 1 + 6))      # ... and ends after its terminator
        capx = (p1 - lo) + (p2 - p1) + 1
        if capx - 1 < max(len(m) + 2 for m in msgs):
            continue                                         # some message would not fit: outside the property's precondition
        pats = gen.PATS[:]
        table = [(tag, p, gen.rscript(rng, stream_blocks=False)) for tag, p in enumerate(pats)]
        one = [stream[i:i + 1] for i in range(len(stream))]
        fill = [stream[i:i + 1] for i in range(p1)] + [stream[p1:p2]] + [stream[i:i + 1] for i in range(p2, len(stream))]
        start = len(cases)
        for ch in (one, fill):
            c = gen.scenario(capx, 16, table, [('I', x) for x in ch if x] + [('I', b'')])
            cases.append(c)
            info[c] = stream
        groups.append((start, len(cases), stream))

    def post(cases_, outs):
        res = []
        for a, b, stream in groups:
            ref = events_proj(outs[a])
            for i in range(a + 1, b):
                if events_proj(outs[i]) != ref:
                    shape = 'newline-in-quoted-string' if quoted_newline(stream) else 'chunking'
                    res.append((i, shape, 'stream %r: this partition behaves differently from byte-at-a-time delivery\n  byte-at-a-time: %s\n  this partition: %s' % (stream, ref[:400], events_proj(outs[i])[:400])))
                    break
        for i_term, i_ref in flushrefs:
            a, b = events_proj(outs[i_term]), events_proj(outs[i_ref])
            if ' B ' not in (a + ' ') and not a.endswith(' B') and False:
                pass
            ta = [t for t in a.split(' ') if t[:1] != 'B' and t != '|' and t[:1] != 'Q']
            tb = [t for t in b.split(' ') if t[:1] != 'B' and t != '|' and t[:1] != 'Q']
            rem = [t for t in a.split(' ') if t[:1] == 'B']
            if rem and rem[0] != 'B':
                continue          # the appended terminator was swallowed (unfinished block): nothing to compare
            if ta != tb:
                stream = info[cases_[i_term]]
                shape = 'newline-in-quoted-string' if quoted_newline(stream) else 'flush'
                res.append((i_ref, shape, 'stream %r: the zero-length call does not execute the buffered data like a terminated message\n  with terminator: %s\n  with flush     : %s' % (stream, ' '.join(ta)[:400], ' '.join(tb)[:400])))
        return res
    yield {'name': 'chunkings', 'cases': cases, 'project': project, 'post': post,
           'nontrivial': lambda c, o: c if (o.count(' R') >= 3 and ' H' in o) else None}

    # the zero-length call on data that a terminator would NOT complete: an unfinished block or string, a header, or a message
    # that fills the buffer to the last usable byte.  It executes what is buffered and leaves the buffer empty, so the message
    # that follows runs as if nothing had been pending.
    fcases, finfo = [], {}
    table = [(1, b'SAMP', 'PBLOCK:1'), (2, b'NUM', 'PI32:1'), (3, b'TEXT', 'PTEXT:20:1'), (4, b'Q?', 'RI32:5')]
    pend = [b'SAMP #15ab', b'SAMP #15', b'SAMP #1', b'SAMP #', b'SAMP #210abc', b'SAMP #3', b'TEXT "abc', b"TEXT 'a;b", b'TEXT "a""', b'NUM', b'NUM 1', b'NUM 1,',
            b'Q?;NUM', b'Q?;SAMP #12a', b'SAMP #15ab\n', b'TEXT "abcdefgh"', b'NUM 12345678', b'Q?', b'   ', b';']
    for pd in pend:
        for cap in sorted(set([64, len(pd) + 1, len(pd) + 2])):
            if cap - 1 < 6:
                continue
            for chunks in ([pd], [pd[i:i + 1] for i in range(len(pd))], [pd[:len(pd) // 2], pd[len(pd) // 2:]]):
                for follow in (b'NUM 7\n', b'Q?\n'):
                    if cap - 1 < len(follow):
                        continue
                    c = gen.scenario(cap, 8, table, [('I', x) for x in chunks if x] + [('I', b''), ('I', follow)])
                    fcases.append(c)
                    finfo[c] = (pd, follow)

    def foracle(case, out):
        if out.startswith('X') or ' X' in out or case not in finfo:
            return []
        pd, follow = finfo[case]
        evs = vf.events(out)
        evs = evs[:evs.index('|')] if '|' in evs else evs
        want = ['H2:' + vf.hx(b'NUM'), 'P1:1:7', 'R1'] if follow.startswith(b'NUM') else ['H4:' + vf.hx(b'Q?'), 'W350d0a', 'F', 'R1']
        core = []
        for e in evs:
            if e[0] not in 'HPRWEF':
                continue
            if e[0] == 'W' and core and core[-1][0] == 'W':
                core[-1] += e[1:]
            else:
                core.append(e)
        tail = core[-len(want):]
        pending = [e for e in evs if e[0] == 'B']
        if tail != want:
            return [('flush', 'pending %r, zero-length call, then %r: the following message did not run on its own (events %s)' % (pd, follow, ' '.join(core)[-300:]))]
        if pending and pending[-1] != 'B':
            return [('flush', 'pending %r, zero-length call, then %r: bytes are still pending at the end (%s)' % (pd, follow, pending[-1]))]
        return []
    yield {'name': 'flush', 'cases': fcases, 'project': project, 'oracle': foracle, 'nontrivial': lambda c, o: c}

    # unit separators and terminators that are DATA: ';' inside quoted strings, ';' and line feeds inside blocks, next to real
    # separators -- every single cut, byte-at-a-time and whole delivery must agree
    qtable = [(1, b'TEXT', 'PTEXT:20:1;PBLOCK:0'), (2, b'SAMP', 'PBLOCK:1;PTEXT:20:0'), (3, b'NUM', 'PI32:1'), (4, b'Q?', 'RI32:5')]
    qstreams = [b'TEXT "a;b",#15xx\nyy\n', b"TEXT 'a;b;c'\n", b'TEXT "a;b"\nNUM 7\n', b'TEXT "x",#13a;b;Q?\n', b'SAMP #15a;b\nc;Q?\n', b'TEXT "a;b";Q?\n',
                b'SAMP #14;;;;,"q;r"\n', b'Q?;TEXT ";";Q?\n', b'SAMP #12\n\n;NUM 3\nQ?\n', b'TEXT "a;b",#15xx\nyy;NUM 1\n', b"TEXT ';;';SAMP #11;;Q?\r\n"]
    qcases, qgroups = [], []
    for st in qstreams:
        start = len(qcases)
        parts = [[st[i:i + 1] for i in range(len(st))], [st]] + [[st[:p], st[p:]] for p in range(1, len(st))]
        for ch in parts:
            qcases.append(gen.scenario(64, 8, qtable, [('I', x) for x in ch if x] + [('I', b'')]))
        qgroups.append((start, len(qcases), st))

    def qpost(cases_, outs):
        res = []
        for a, b, st in qgroups:
            ref = events_proj(outs[a])
            for i in range(a + 1, b):
                if events_proj(outs[i]) != ref:
                    res.append((i, 'chunking', 'stream %r: this partition behaves differently from byte-at-a-time delivery\n  byte-at-a-time: %s\n  this partition: %s' % (st, ref[:400], events_proj(outs[i])[:400])))
                    break
        return res
    yield {'name': 'separators-as-data', 'cases': qcases, 'project': project, 'post': qpost, 'nontrivial': lambda c, o: c}
