"""C18 the error query always yields one well-formed, bounded error response."""
import os, re
import vf

ID = 'C18'
FLAVORS = ['default', 'static']
RULE = ('RERR lines (SCPI_ResultError on a given code and text; malloc build) and EQ lines (push + SYST:ERR?; malloc and static-heap builds): every code of the description table plus codes without entry; '
        'texts of every length 0..300 (quick: a stratified subset incl. 225..262) with 0..3 double quotes at random positions and at/around the position where the 255-character limit falls. '
        'Static-heap histories in which a long text wraps round the heap end with a quote at the limit. Non-trivial: texts containing a quote or reaching the limit; distinct = distinct lines.')
MODELLED = 'SCPI_ResultError (parts loop, strnpbrk, running limit), SCPI_ErrorTranslate (generated table) are modelled in FmtModel.result_error / Glue.desc_of'
ASSUMPTIONS = ['push(code, "") yields "description;" -- accepted as a prefix with empty text (DESIGN.md section 9)']


def descs():
    src = open(os.path.join(vf.COQ, 'Generated.v')).read()
    m = re.search(r'Definition gen_err_desc .*?:= \[(.*?)\]\.\nDefinition gen_err_fallback : list N := \[(.*?)\]%N', src, re.S)
    tbl = {}
    for c, b in re.findall(r'\(\((-?\d+)\)%Z, \[([\d;]*)\]%N\)', m.group(1)):
        tbl[int(c)] = bytes(int(x) for x in b.split(';') if x)
    fb = bytes(int(x) for x in m.group(2).split(';') if x)
    return tbl, fb


def check_response(resp, code, text, tbl, fb, has_info=True):
    """resp: bytes written; text: bytes or None"""
    desc = tbl.get(code, fb)
    head = str(code).encode() + b',"'
    if not resp.startswith(head) or not resp.endswith(b'"') or len(resp) < len(head) + 1:
        return 'response %r is not <code>,"..."' % resp
    q = resp[len(head):-1]
    # every quote inside must be doubled
    i = 0
    un = bytearray()
    while i < len(q):
        if q[i] == 34:
            if i + 1 < len(q) and q[i + 1] == 34:
                un.append(34)
                i += 2
                continue
            return 'lone double quote inside the string: %r' % resp
        un.append(q[i])
        i += 1
    if len(q) > 255:
        return 'quoted content has %d characters (> 255)' % len(q)
    full = desc + ((b';' + text) if (text is not None and has_info) else b'')
    if not full.startswith(bytes(un)):
        return 'unescaped content %r is not a prefix of %r' % (bytes(un), full[:300])
    if len(un) < len(full):
        # cut: one more source character must not fit
        nxt = full[len(un)]
        need = 2 if nxt == 34 else 1
        if len(q) + need <= 255:
            return 'content cut after %d characters although %d more would fit in 255' % (len(q), need)
    return None


def streams(tier, rng):
    tbl, fb = descs()
    codes = sorted(tbl)[:: (6 if tier == 'quick' else 1)] + [1234, -2147, 32767, -32768, 0, -350, -113]
    lens = list(range(0, 40, 3 if tier == 'quick' else 1)) + list(range(225, 262)) + [300, 400]

    def texts(code):
        d = tbl.get(code, fb)
        for L in lens:
            yield bytes(rng.choice(b'abc ;') for _ in range(L))
            for _ in range(2 if tier == 'quick' else 10):
                t = bytearray(rng.choice(b'abc ;') for _ in range(L))
                for _ in range(rng.randrange(0, 4)):
                    if L:
                        t[rng.choice([rng.randrange(L), L - 1, max(0, L - 2), min(L - 1, max(0, 255 - len(d) - 2)), min(L - 1, max(0, 255 - len(d) - 1)), min(L - 1, max(0, 255 - len(d) - 3))])] = 34
                yield bytes(t)
    cases, info = [], {}
    for code in codes:
        c = 'RERR %d -' % code
        cases.append(c)
        info[c] = (code, None)
        if code in (codes[0], -113, 1234, 0, -350) or tier != 'quick':
            for t in texts(code):
                if t and 0 not in t:
                    c = 'RERR %d %s' % (code, t.hex())
                    cases.append(c)
                    info[c] = (code, t)

    def oracle(case, out):
        if out.startswith('X') or 'skip' in out or case not in info:
            return []
        code, t = info[case]
        resp = vf.unhx(out.split(' W')[1].split(' ')[0]) if ' W' in out else b''
        e = check_response(resp, code, t, tbl, fb)
        return [('error-response', e + ' | code %d text %r' % (code, t))] if e else []
    yield {'name': 'result-error', 'coqcheck': True, 'cases': cases, 'oracle': oracle, 'nontrivial': lambda c, o: c if (b'"' in (info[c][1] or b'') or len(o) > 500) else None}
    # through the queue: push + SYST:ERR?, both configurations
    for flavor in ('default', 'static'):
        qc, qi = [], {}
        for code in [-113, 1234, 0, -310]:
            for t in texts(code):
                if t and 0 not in t:
                    c = 'EQ 2 512|P %d %s 0 0|S|S' % (code, t.hex())
                    qc.append(c)
                    qi[c] = (code, t[:255])

        # explicit lengths, beyond 255 included (the library pushes whole program message units with their length)
        for code in [-113, 1234]:
            for L in [1, 2, 7, 254, 255, 256, 257, 300, 400]:
                for extra in (0, 5):
                    t = bytes(rng.choice(b'abc ;"') for _ in range(L + extra))
                    c = 'EQ 2 1024|P %d %s %d 0|S|S' % (code, t.hex(), L)
                    qc.append(c)
                    qi[c] = (code, t[:L])

        def oracle2(case, out, qi=qi):
            if out.startswith('X') or case not in qi:
                return []
            code, t = qi[case]
            toks = out.split(' ')
            resp = vf.unhx(toks[2].split('/')[0][1:])
            e = check_response(resp, code, t, tbl, fb)
            if e:
                return [('error-response', e + ' | code %d text %r' % (code, t))]
            resp2 = vf.unhx(toks[3].split('/')[0][1:])
            if resp2 != b'0,"' + tbl.get(0, fb) + b'"':
                return [('not-consumed', 'second SYST:ERR? answered %r: the entry was not consumed' % resp2)]
            return []
        yield {'name': 'systerr-' + flavor, 'flavor': flavor, 'cases': qc, 'oracle': oracle2, 'nontrivial': lambda c, o: c if '22' in c else None}
    # interleaved histories: pushes with texts of various lengths and SYST:ERR? in any order
    for flavor in ('default', 'static'):
        hc, hi = [], {}
        for _ in range(600 if tier == 'quick' else 10000):
            cap = rng.choice([2, 3, 4, 8])
            hs = rng.choice([24, 40, 64, 128, 512])
            ops, ref = [], []
            q = []
            for _ in range(rng.randint(3, 12)):
                if rng.random() < 0.55:
                    code = rng.choice([-113, -241, -330, 1234, -100])
                    t = bytes(rng.choice(b'abc ";') for _ in range(rng.choice([1, 3, 8, 17, 30, 60])))
                    ops.append('P %d %s 0 0' % (code, t.hex()))
                    if len(q) < cap:
                        q.append((code, t))
                    else:
                        q[-1] = (-350, None)
                else:
                    ops.append('S')
                    ref.append((len(ops), q.pop(0) if q else (0, None)))
            c = '|'.join(['EQ %d %d' % (cap, hs)] + ops)
            hc.append(c)
            hi[c] = ref
        # a long text stored in two pieces of the circular heap (it wraps round the heap end), with a double quote at and
        # around the character where the 255 limit falls
        for code in (-113, 1234, -101):
            d = tbl.get(code, fb)
            budget = 255 - len(d) - 1
            for F in (30, 40, 57):
                for qpos in (budget - 3, budget - 2, budget - 1, budget, 100):
                    for two in (False, True):
                        t = bytearray(97 + (i % 26) for i in range(270))
                        t[qpos] = 34
                        if two:
                            t[qpos - 1] = 34
                        t = bytes(t)
                        ops = ['P %d %s 0 0' % (code, (b'f' * F).hex()), 'P %d %s 0 0' % (code, b'x'.hex()), 'S', 'P %d %s 270 0' % (code, t.hex()), 'S', 'S', 'S']
                        c = '|'.join(['EQ 8 300'] + ops)
                        hc.append(c)
                        hi[c] = [(3, (code, b'f' * F)), (5, (code, b'x')), (6, (code, t)), (7, (0, None))]

        def horacle(case, out, hi=hi, static=(flavor == 'static')):
            if out.startswith('X') or ' X' in out or case not in hi:
                return []
            toks = out.split(' ')
            for (k, (code, t)) in hi[case]:
                resp = vf.unhx(toks[k].split('/')[0][1:])
                e = check_response(resp, code, t, tbl, fb)
                if e and static and t is not None:
                    # the static heap may have had no room for the text: "text or nothing"
                    e2 = check_response(resp, code, None, tbl, fb)
                    if e2 is None:
                        e = None
                if e:
                    return [('error-response', 'operation %d: %s | code %d text %r' % (k, e, code, t))]
            return []
        yield {'name': 'interleaved-' + flavor, 'flavor': flavor, 'cases': hc, 'oracle': horacle, 'nontrivial': lambda c, o: c if c.count('|S') >= 2 else None}
