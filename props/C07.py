"""C07 every value the library formats as a result decodes back to the same value."""
import re, struct
from fractions import Fraction
import vf, gen

ID = 'C07'
FLAVORS = ['default']
RULE = ('two-phase round trip on the implementation (and on the model for the types it covers): phase 1 runs a query whose handler emits one result; phase 2 sends the emitted bytes back as the parameter of a command '
        'whose handler reads it with the matching reader. Values: all 2^8 and (thorough) all 2^16 integers, boundary and random 32/64-bit integers, in bases 2, 8, 10, 16 and signed (bit patterns emitted in bases 2, 8, 16 also read back through the signed readers); booleans; all strings up to length 3 (quick) / 4 (thorough) '
        'over {a, ", \', blank, ;, LF} and random longer 7-bit strings; blocks of lengths 0..1100 (quick: sampled) with random bytes; boundary and random floats/doubles; ASCII arrays of integers and doubles. '
        'Non-trivial: the emitted text has at least 3 bytes; distinct = distinct value/type pairs.')
MODELLED = 'result writers and parameter readers of ParserModel/FmtModel/LexModel; 8/16-bit results, float results and ASCII arrays run on the implementation only'
ASSUMPTIONS = ['the text round trip uses a copy buffer at least as long as the quoted token (DESIGN.md section 9)']


def b2d(b):
    return struct.unpack('<d', struct.pack('<Q', b))[0]


def b2f(b):
    return struct.unpack('<f', struct.pack('<I', b))[0]


def streams(tier, rng):
    items = []      # (result-op, reader-op, kind, value)
    def wrap(v, w):
        return v & ((1 << w) - 1)
    ints32 = [0, 1, -1, 9, 10, 127, 128, 255, 256, 32767, 32768, 65535, 65536, 2**31 - 1, -2**31, 2**31, 2**32 - 1] + [rng.getrandbits(32) >> rng.randrange(32) for _ in range(300 if tier == 'quick' else 5000)]
    ints64 = [2**63 - 1, -2**63, 2**63, 2**64 - 1, 2**32, -2**32, 10**18, 10**19] + [rng.getrandbits(64) >> rng.randrange(64) for _ in range(300 if tier == 'quick' else 5000)]
    for v in ints32:
        sv = wrap(v, 32)
        s = sv - 2**32 if sv >= 2**31 else sv
        items.append(('RI32:%d' % s, 'PI32:1', 'int', s))
        for b in (2, 8, 10, 16):
            items.append(('RU32:%d:%d' % (sv, b), 'PU32:1', 'int', sv))
            if b != 10:      # a signed value emitted as its bit pattern (a sign exists only in base 10) comes back through the signed reader
                items.append(('RU32:%d:%d' % (sv, b), 'PI32:1', 'int', s))
    for v in ints64 + ints32[:40]:
        sv = wrap(v, 64)
        s = sv - 2**64 if sv >= 2**63 else sv
        items.append(('RI64:%d' % s, 'PI64:1', 'int', s))
        for b in (2, 8, 10, 16):
            items.append(('RU64:%d:%d' % (sv, b), 'PU64:1', 'int', sv))
            if b != 10:
                items.append(('RU64:%d:%d' % (sv, b), 'PI64:1', 'int', s))
    for v in range(256):
        s = v - 256 if v >= 128 else v
        items.append(('RI8:%d' % s, 'PI32:1', 'int', s))
        for b in (2, 8, 10, 16):
            items.append(('RU8:%d:%d' % (v, b), 'PU32:1', 'int', v))
    r16 = range(65536) if tier != 'quick' else ([0, 1, 255, 256, 32767, 32768, 65535] + [rng.getrandbits(16) for _ in range(200)])
    for v in r16:
        s = v - 65536 if v >= 32768 else v
        items.append(('RI16:%d' % s, 'PI32:1', 'int', s))
        items.append(('RU16:%d:%d' % (v, rng.choice([2, 8, 10, 16])), 'PU32:1', 'int', v))
    items.append(('RBOOL:0', 'PBOOL:1', 'int', 0))
    items.append(('RBOOL:1', 'PBOOL:1', 'int', 1))
    import itertools
    A = [b'a', b'"', b"'", b' ', b';', b'\n']
    for n in range(0, (3 if tier == 'quick' else 4) + 1):
        for t in itertools.product(A, repeat=n):
            t = b''.join(t)
            items.append(('RTEXT:' + vf.hx(t) if t else 'RTEXT', 'PTEXT:%d:1' % (2 * len(t) + 4), 'text', t))
    for _ in range(200 if tier == 'quick' else 3000):
        t = bytes(rng.choice(b'abc "\';,\n\r\t\x01\x7f#()') for _ in range(rng.randint(5, 120)))
        items.append(('RTEXT:' + vf.hx(t), 'PTEXT:%d:1' % (2 * len(t) + 4), 'text', t))
    lens = list(range(0, 1101)) if tier != 'quick' else (list(range(0, 12)) + [99, 100, 101, 255, 256, 999, 1000, 1001, 1100] + [rng.randint(12, 1100) for _ in range(30)])
    for n in lens:
        d = bytes(rng.getrandbits(8) for _ in range(n))
        items.append(('RBLOCK:' + vf.hx(d) if d else 'RBLOCK', 'PBLOCK:1', 'block', d))
    fl = [0, 1, 0x3f800000, 0x7f7fffff, 0x00800000, 0x00000001, 0x3dcccccd, 0x4b800000, 0xc2f6e979, 0x501502f9] + [rng.getrandbits(32) for _ in range(300 if tier == 'quick' else 5000)]
    for b in fl:
        x = b2f(b)
        if x != x or abs(x) == float('inf'):
            continue
        items.append(('RF:%d' % b, 'PF:1', 'float', b))
    dl = [0, 0x3ff0000000000000, 0x7fefffffffffffff, 0x0010000000000000, 1, 0x3fb999999999999a, 0x4340000000000000, 0x3ff0000000000001] + [rng.getrandbits(64) for _ in range(300 if tier == 'quick' else 5000)]
    for b in dl:
        x = b2d(b)
        if x != x or abs(x) == float('inf'):
            continue
        items.append(('RD:%d' % b, 'PD:1', 'double', b))
    for _ in range(100 if tier == 'quick' else 2000):
        n = rng.randint(1, 6)
        vals = [rng.getrandbits(32) for _ in range(n)]
        raw = b''.join(v.to_bytes(4, 'little') for v in vals)
        items.append(('RARR:4:0:' + raw.hex(), 'PARR:u32:%d:1' % n, 'array', vals))

    # every element width against every reader that can take it back (the 64-bit unsigned list must not go through a signed reader)
    for _ in range(60 if tier == 'quick' else 1000):
        n = rng.randint(1, 5)
        v64 = [rng.choice([2 ** 63, 2 ** 64 - 1, 2 ** 63 + 1, 2 ** 63 - 1, rng.getrandbits(64), rng.getrandbits(64) | 2 ** 63]) for _ in range(n)]
        items.append(('RARR:8:0:' + b''.join(v.to_bytes(8, 'little') for v in v64).hex(), 'PARR:u64:%d:1' % n, 'array', v64))
        s64 = [rng.getrandbits(63) for _ in range(n)]
        items.append(('RARR:8:0:' + b''.join(v.to_bytes(8, 'little') for v in s64).hex(), 'PARR:i64:%d:1' % n, 'array', s64))
        s32 = [rng.getrandbits(31) for _ in range(n)]
        items.append(('RARR:4:0:' + b''.join(v.to_bytes(4, 'little') for v in s32).hex(), 'PARR:i32:%d:1' % n, 'array', s32))
        v16 = [rng.getrandbits(16) for _ in range(n)]
        items.append(('RARR:2:0:' + b''.join(v.to_bytes(2, 'little') for v in v16).hex(), 'PARR:u32:%d:1' % n, 'array', v16))
        v8 = [rng.getrandbits(8) for _ in range(n)]
        items.append(('RARR:1:0:' + bytes(v8).hex(), 'PARR:u64:%d:1' % n, 'array', v8))

    # long ASCII arrays (the item counters must not be narrower than the number of items of one command)
    for n in ([255, 256, 257, 300, 512] if tier == 'quick' else [255, 256, 257, 258, 300, 511, 512, 513, 1000, 1024, 2000]):
        vals = [rng.randrange(100) for _ in range(n)]
        raw = b''.join(v.to_bytes(4, 'little') for v in vals)
        items.append(('RARR:4:0:' + raw.hex(), 'PARR:u32:%d:1' % n, 'array', vals))

    c1 = [gen.scenario(8192, 8, [(1, b'Q?', it[0])], [('I', b'Q?\n')]) for it in items]

    def oracle1(case, out):
        if out.startswith('X') or ' X' in out:
            return []
        evs = vf.events(out)
        w = vf.outbytes(evs[:evs.index('|')] if '|' in evs else evs)
        if not w.endswith(b'\r\n') or ' F' not in out:
            return [('no-terminator', 'the response to a query that produced result items is not terminated and flushed: ...%r' % w[-24:])]
        return []
    st1 = {'name': 'format', 'cases': c1, 'oracle': oracle1, 'nontrivial': lambda c, o: c if len(o) > 30 else None}
    yield st1
    outs = st1.get('impl_out') or []
    c2, info = [], {}
    for it, o in zip(items, outs):
        evs = vf.events(o)
        if '|' in evs:
            evs = evs[:evs.index('|')]
        w = vf.outbytes(evs)
        if not w.endswith(b'\r\n'):
            continue
        text = w[:-2]
        c = gen.scenario(8192, 8, [(1, b'P', it[1])], [('I', b'P ' + text + b'\n')])
        c2.append(c)
        info[c] = (it, text)

    def oracle(case, out):
        if out.startswith('X') or ' X' in out or case not in info:
            return []
        (rop, pop, kind, val), text = info[case]
        m = re.search(r' P(\d+):(\d):([-\d,;]*)', out)
        errs = re.findall(r' E(-\d+)', out)
        if not m or m.group(2) != '1' or errs:
            return [('not-accepted', '%s emitted %r, which the matching reader %s rejects (%s)' % (rop[:60], text[:80], pop, ' '.join(errs) or 'failure'))]
        raw = m.group(3)
        if kind == 'array':
            body, _, cnt = raw.partition(';')
            got = [int(x) for x in body.split(',') if x != '']
            if got != val:
                return [('array', 'ASCII array %s came back as %s' % (val, got))]
            return []
        vals = [int(x) for x in raw.split(',') if x != '']
        if kind == 'int':
            if vals[0] != val:
                return [('value', '%s emitted %r which decodes to %d' % (rop, text, vals[0]))]
        elif kind == 'text':
            got = bytes(vals[1:])
            want = val.split(b'\x00')[0]
            if got != want:
                return [('text', 'text %r emitted as %r decodes to %r' % (want, text[:80], got))]
        elif kind == 'block':
            if bytes(vals) != val:
                return [('block', 'block of %d bytes emitted as %r... decodes to %d bytes, %s' % (len(val), text[:20], len(vals), 'content differs' if len(vals) == len(val) else 'length differs'))]
        elif kind in ('float', 'double'):
            x = b2f(val) if kind == 'float' else b2d(val)
            y = b2f(vals[0]) if kind == 'float' else b2d(vals[0])
            P = 6 if kind == 'float' else 15
            if y != y or abs(y) == float('inf'):
                if kind == 'double' and abs(x) > 1.797693134862315e308:
                    return [('max-double-rounds-up', 'double %r is emitted as %r (15 digits round up beyond DBL_MAX) and reads back as infinity' % (x, text))]
                return [('float', '%s %r emitted as %r decodes to %r' % (kind, x, text, y))]
            if x == 0:
                ok = (y == 0)
            else:
                import math
                e = math.floor(math.log10(abs(x)))
                half = Fraction(10) ** (e - P + 1) / 2
                # allow the rounding of the read-back to the type (one more ulp of the binary format)
                # ... one unit in the last place of the type: relative for normal values, the absolute spacing for subnormal ones
                ulp = max(abs(Fraction(y)) * Fraction(1, 2 ** (23 if kind == 'float' else 52)), Fraction(1, 2 ** (149 if kind == 'float' else 1074)))
                ok = abs(Fraction(x) - Fraction(y)) <= half * Fraction(1001, 1000) + ulp
            if not ok:
                return [('float', '%s %r emitted as %r decodes to %r: not within the %d emitted digits' % (kind, x, text, y, P))]
        return []
    yield {'name': 'decode', 'cases': c2, 'oracle': oracle, 'nontrivial': lambda c, o: c if len(info[c][1]) >= 3 else None}
