"""C09 messages and units are isolated: nothing but status and errors carries over."""
import vf, gen

ID = 'C09'
FLAVORS = ['default']
RULE = ('ordered pairs (A, B) and sequences A1 A2 A3 B of terminated messages from the generators of C02/C05/C06 (incl. messages that fail midway, leave result blocks unfinished, '
        'leave parameters unread, or contain undefined headers); B is run after A on one context and alone on a fresh context of the implementation and the events of B are compared '
        '(handler starts, parameters, output, newly queued errors); in a share of the pairs B arrives unterminated in the same input call as the end of A and is executed by a zero-length call, in another share B arrives complete in the same input call as the last message of A (that call must do what A does followed by what B does alone); each scenario is also compared with the model. The error queue is large enough not to overflow and scripts do not query it, '
        'so effects through queue and registers (excepted by the property) are not observed; when A nevertheless fills the queue (dozens of invalid characters) the overflow notifications are dropped from the comparison. Non-trivial: A ran a handler and B ran a handler; distinct = distinct lines.')
MODELLED = 'all per-message and per-unit scratch state of scpi_t (first_output, output_count, input_count, cmd_error, arbitrary_remaining, param_list, cmd_prev) is in ParserModel.ctx'
ASSUMPTIONS = ['effects that flow through the status registers and the error queue are excepted by the property; "queue drained" notifications (error callback with 0) are dropped from the comparison']


def bevents(out, nskip):
    evs = out.split(' ')[1:]
    k = 0
    i = 0
    while i < len(evs) and k < nskip:
        if evs[i][:1] == 'R':
            k += 1
        i += 1
    keep = []
    for e in evs[i:]:
        if e == '|':
            break
        if e[:1] in ('B', 'G') or e == 'E0':
            continue
        keep.append(e)
    return ' '.join(keep)


def project(case, out):
    return ' '.join(e for e in out.split(' ') if e[:1] != 'G')


def msg(R):
    k = R.random()
    if k < 0.7:
        m = gen.rmsg(R, good=0.85, bad_data=0.1)
    elif k < 0.85:
        m = gen.mutate(R, gen.rmsg(R))
        m = m.replace(b'\n', b'').replace(b'\r', b'').replace(b'#', b'').replace(b'"', b'').replace(b"'", b'') + b'\n'
    else:
        m = R.choice([b'BLK?;TXT 1\n', b'E?;A?\n', b'TEST:A?;B?;FOO;B?\n', b'CH 1,2,3\n', b'II\n', b'OUTP3:FREQ7 1;FREQ 2\n'])
    return m


def terminated(m):
    """conservative: no block introducer outside the known complete blocks, every quote closed"""
    body = m
    for blk in (b'#13abc', b'#10', b'#205hello'):
        body = body.replace(blk, b'')
    if b'#1' in body or b'#2' in body or b'#3' in body or b'#4' in body or b'#5' in body or b'#6' in body or b'#7' in body or b'#8' in body or b'#9' in body or body.rstrip(b'\r\n').endswith(b'#'):
        return False
    i, n = 0, len(m)
    while i < n:
        c = m[i]
        if c in (34, 39):
            j = m.find(bytes([c]), i + 1)
            if j < 0:
                return False
            i = j + 1
        else:
            i += 1
    return True


def tmsg(R):
    while True:
        m = msg(R)
        if terminated(m):
            return m


def streams(tier, rng):
    n = 2500 if tier == 'quick' else 40000
    cases, pairs = [], []
    for _ in range(n):
        pats = gen.PATS[:]
        rng.shuffle(pats)
        table = []
        for tag, p in enumerate(pats):
            sc = gen.rscript(rng, stream_blocks=True)
            sc = ';'.join(o for o in sc.split(';') if o != 'SYSTERR') or '-'
            if rng.random() < 0.15:
                sc = (sc + ';RHDR:5;RDATA:6162').lstrip('-;')       # leaves a block unfinished
            elif rng.random() < 0.1:
                sc = ('RDATA:5758;' + sc).rstrip('-;')              # block data without a header of its own: always refused (-310)
            table.append((tag, p, sc))
        As = [tmsg(rng) for _ in range(rng.choice([1, 1, 1, 2, 3]))]
        B = tmsg(rng)
        ins = [('I', a) for a in As]
        capb = 256
        if rng.random() < 0.12:
            # an overlong message A delivered in two pieces: the second piece overruns a small buffer and A is discarded
            capb = 64
            long_a = b'TXT "' + b'x' * rng.randint(60, 90) + b'"\n'
            cut = rng.randint(5, 40)
            head = rng.choice([b'', b'TEST:A?;', b'II 2;'])
            ins.append(('I', head + long_a[:cut]))
            ins.append(('I', long_a[cut:]))
            if len(B) > 60:
                B = b'*IDN?\n'
        flushed_a = False
        if capb == 256 and rng.random() < 0.12:
            flushed_a = True
            # the last message of A arrives without terminator -- also with an unfinished block or string -- and is executed by a
            # zero-length (flush) call: whatever it did, nothing of it may be left in the buffer for B
            ins.append(('I', rng.choice([b'', b'TEST:A?;', b'II 2;']) + rng.choice([b'TXT #15ab', b'TXT #15', b'TXT #1', b'TXT #', b'TXT "abc', b"TXT 'ab", b'II 2', b'LEV', b'TEST:A?', b'FOO', b'II 1,'])))
            ins.append(('I', b''))
        Bnt = B.rstrip(b'\r\n')
        if capb == 256 and Bnt and not flushed_a and rng.random() < 0.25:
            # B arrives unterminated in the same input call as the end of A and is executed by a zero-length (flush) call
            ins2 = ins[:-1] + [('I', ins[-1][1] + Bnt)]
            ab = gen.scenario(capb, 250, table, ins2 + [('I', b'')])
            b = gen.scenario(capb, 250, table, [('I', Bnt), ('I', b'')])
            pairs.append((len(cases), len(ins2), 1, [x for _, x in ins], Bnt + b' <flush>'))
            cases += [ab, b]
            continue
        if capb == 256 and not flushed_a and len(ins[-1][1]) + len(B) < 240 and rng.random() < 0.25:
            # B arrives complete in the same input call as the last message of A: what that call does must be what it does for A
            # alone followed by what B does alone
            ins2 = ins[:-1] + [('I', ins[-1][1] + B)]
            ab = gen.scenario(capb, 250, table, ins2)
            a = gen.scenario(capb, 250, table, ins)
            b = gen.scenario(capb, 250, table, [('I', B)])
            pairs.append((len(cases), len(ins) - 1, 2, [x for _, x in ins], B))
            cases += [ab, a, b]
            continue
        ab = gen.scenario(capb, 250, table, ins + [('I', B)])
        b = gen.scenario(capb, 250, table, [('I', B)])
        As = [x for _, x in ins]
        pairs.append((len(cases), len(As), 0, As, B))
        cases += [ab, b]

    def post(cases_, outs):
        res = []
        for i, na, nb, As, B in pairs:
            if nb == 2:
                strip = lambda t: ' '.join(e for e in t.split(' ') if e and e[:1] != 'R')
                x = strip(bevents(outs[i], na))
                y = (strip(bevents(outs[i + 1], na)) + ' ' + strip(bevents(outs[i + 2], 0))).strip()
                if ' E-350' in outs[i]:
                    x = ' '.join(t for t in x.split(' ') if t != 'E-350')
                    y = ' '.join(t for t in y.split(' ') if t != 'E-350')
                if x != y:
                    res.append((i, 'leak', 'message %r received in the same input call as the end of %r: the call does not do what A does followed by what B does on a fresh context\n  one call : %s\n  A then B: %s' % (B, As, x[:400], y[:400])))
                continue
            x, y = bevents(outs[i], na), bevents(outs[i + 1], nb)
            if ' E-350' in outs[i]:
                # A filled the error queue: the overflow notifications B then sees are an effect through the queue, which the property excepts
                x = ' '.join(t for t in x.split(' ') if t != 'E-350')
                y = ' '.join(t for t in y.split(' ') if t != 'E-350')
            if x != y:
                res.append((i, 'leak', 'message %r behaves differently after %r than on a fresh context\n  after A: %s\n  fresh   : %s' % (B, As, x[:400], y[:400])))
        return res
    yield {'name': 'pairs', 'coqcheck': True, 'cases': cases, 'project': project, 'post': post,
           'nontrivial': lambda c, o: c if o.count(' H') >= 2 else None}
