"""C19 numeric and channel lists decode entry by entry exactly as written."""
import itertools, re
import vf

ID = 'C19'
FLAVORS = ['default']
RULE = ('EXPR lines (expression body, index, capacity): every body up to length 4 (quick) / 5 (thorough) over {1, 2, -, ., :, ",", !, @, blank, a, e, +} at every index 0..5 with capacities 0..4 (cycled), '
        'plus grammar-generated numeric lists and channel lists of up to 8 entries and 5 dimensions, well formed and mutated, at indices 0..9. Each line calls SCPI_ExprNumericListEntry, '
        'SCPI_ExprNumericListEntryInt and SCPI_ExprChannelListEntry with exact-size value arrays under ASan. Non-trivial: an entry was reported OK; distinct = distinct lines.')
MODELLED = 'numericRange / SCPI_ExprNumericListEntry(Int) / channelSpec / channelRange / SCPI_ExprChannelListEntry are modelled in ExprModel on the expression body'
ASSUMPTIONS = ['values are read by strtol on the literal (a literal with a fraction or exponent reads as its leading integer); the oracle judges values only for plain integer literals',
               'the two specifications of a channel range must have the same number of dimensions to be well formed']

DEC = r'[+-]?(?:\d+(?:\.\d*)?|\.\d+)(?:[ \t]*[eE][ \t]*[+-]?\d+)?'
NENTRY = '(%s)(?::(%s))?' % (DEC, DEC)
SPEC = '%s(?:!%s)*' % (DEC, DEC)
CENTRY = '(%s)(?::(%s))?' % (SPEC, SPEC)


def split_entries(body, entry_rx):
    """greedy left-to-right scan as the standard's diagram reads: returns (entries [(match, start)], well_formed_whole)"""
    pos = 0
    es = []
    rx = re.compile(entry_rx)
    while True:
        m = rx.match(body, pos)
        if not m:
            return es, False
        es.append(m)
        pos = m.end()
        if pos == len(body):
            return es, True
        if body[pos] != ',':
            return es, False
        pos += 1


def i32(text):
    m = re.match(r'[+-]?\d+', text)
    if not m:
        return None
    v = int(m.group(0))
    v = max(min(v, 2**63 - 1), -2**63)
    v &= 0xffffffff
    return v - (1 << 32) if v >= (1 << 31) else v


def plain_int(t):
    return re.fullmatch(r'[+-]?\d+', t) is not None


def oracle(case, out):
    if out.startswith('X') or ' X' in out:
        return []
    f = case.split(' ')
    body = vf.unhx(f[1]).decode('latin1')
    idx, cap = int(f[2]), int(f[3])
    o = out.split(' ')
    n, i, c = o[1], o[2], o[3]
    bad = []
    # ---- numeric list
    es, whole = split_entries(body, NENTRY)
    nres = n[1:].split(',')
    if nres[0] == '0':
        if idx >= len(es):
            bad.append(('numlist-ok', 'numeric list %r: entry %d reported OK but only %d leading entries are well formed' % (body, idx, len(es))))
        else:
            m = es[idx]
            want = [1 if m.group(2) is not None else 0, m.start(1) + 1, len(m.group(1))]
            if m.group(2) is not None:
                want += [m.start(2) + 1, len(m.group(2))]
            got = [int(x) for x in nres[1:]]
            if got != want:
                bad.append(('numlist-entry', 'numeric list %r entry %d: reported (range, offset, length, ...) %s, as written %s' % (body, idx, got, want)))
            ires = i[1:].split(',')
            if ires[0] == '0' and plain_int(m.group(1)) and (m.group(2) is None or plain_int(m.group(2))):
                wv = [1 if m.group(2) is not None else 0, i32(m.group(1)), i32(m.group(2)) if m.group(2) is not None else 0]
                if [int(x) for x in ires[1:]] != wv:
                    bad.append(('numlist-value', 'numeric list %r entry %d: values %s, as written %s' % (body, idx, ires[1:], wv)))
            # the double variant: same code, and the literals' values (Python's float() is correctly rounded)
            if len(o) > 4 and o[4].startswith('d'):
                dres = o[4][1:].split(',')
                if dres[0] != '0':
                    bad.append(('numlist-double', 'numeric list %r entry %d: SCPI_ExprNumericListEntryDouble reported %s where the token variant reported OK' % (body, idx, dres[0])))
                else:
                    import struct as _st
                    def _bits(t):
                        try:
                            return _st.unpack('<Q', _st.pack('<d', float(t.replace(' ', ''))))[0] if ' ' not in t.strip() else None
                        except (ValueError, OverflowError):
                            return None
                    wf = _bits(m.group(1))
                    wt = _bits(m.group(2)) if m.group(2) is not None else 0
                    if wf is not None and wt is not None and [int(x) for x in dres[1:]] != [1 if m.group(2) is not None else 0, wf, wt]:
                        bad.append(('numlist-double', 'numeric list %r entry %d: doubles %s, as written %s' % (body, idx, dres[1:], [wf, wt])))
    elif whole:
        if idx < len(es):
            bad.append(('numlist-missed', 'well-formed numeric list %r: entry %d of %d reported %s instead of OK' % (body, idx, len(es), nres[0])))
        elif nres[0] != '2':
            bad.append(('numlist-nomore', 'well-formed numeric list %r: index %d beyond its %d entries reported %s instead of NO_MORE' % (body, idx, len(es), nres[0])))
    # ---- channel list
    cres = c[1:]
    m170 = re.search(r'e(\d+)$', cres)
    ne = int(m170.group(1)) if m170 else 0
    code = cres[0]
    if body.startswith('@'):
        ces, cwhole = split_entries(body[1:], CENTRY)
        # a range whose two specifications differ in dimensions is not well formed
        def dims(s):
            return s.count('!') + 1
        okprefix = 0
        for m in ces:
            if m.group(2) is not None and dims(m.group(1)) != dims(m.group(2)):
                break
            okprefix += 1
        cw = cwhole and okprefix == len(ces)
        if code == '0':
            if idx >= okprefix:
                bad.append(('chanlist-ok', 'channel list %r: entry %d reported OK but only %d leading entries are well formed' % (body, idx, okprefix)))
            else:
                m = ces[idx]
                mm = re.match(r'0,(\d),(\d+),\[([-\d,]*)\],\[([-\d,]*)\]', cres)
                isr, d = int(mm.group(1)), int(mm.group(2))
                vf_ = [int(x) for x in mm.group(3).split(',') if x]
                vt_ = [int(x) for x in mm.group(4).split(',') if x]
                fr = m.group(1).split('!')
                wd = len(fr)
                if d != wd or isr != (1 if m.group(2) is not None else 0):
                    bad.append(('chanlist-dims', 'channel list %r entry %d: %d dimensions, range %d; as written %d dimensions, range %d' % (body, idx, d, isr, wd, 1 if m.group(2) is not None else 0)))
                elif len(vf_) > cap:
                    bad.append(('chanlist-capacity', 'channel list %r entry %d: %d values stored with capacity %d' % (body, idx, len(vf_), cap)))
                elif all(plain_int(x) for x in fr):
                    wv = [i32(x) for x in fr][:cap]
                    if vf_ != wv:
                        bad.append(('chanlist-value', 'channel list %r entry %d: values %s, as written %s' % (body, idx, vf_, wv)))
                    if m.group(2) is not None and all(plain_int(x) for x in m.group(2).split('!')):
                        wt = [i32(x) for x in m.group(2).split('!')][:cap]
                        if vt_ != wt:
                            bad.append(('chanlist-value', 'channel list %r entry %d: range end %s, as written %s' % (body, idx, vt_, wt)))
                if ne:
                    bad.append(('chanlist-error', 'channel list %r entry %d: OK but -170 was queued' % (body, idx)))
        elif cw:
            if idx < len(ces):
                bad.append(('chanlist-missed', 'well-formed channel list %r: entry %d of %d reported %s instead of OK' % (body, idx, len(ces), code)))
            elif code != '2':
                bad.append(('chanlist-nomore', 'well-formed channel list %r: index %d beyond its %d entries reported %s instead of NO_MORE' % (body, idx, len(ces), code)))
        if code == '1' and ne != 1:
            bad.append(('chanlist-error', 'channel list %r: ERROR reported with %d -170 errors queued' % (body, ne)))
    elif code == '0':
        bad.append(('chanlist-ok', 'expression %r is not a channel list but entry %d was reported OK' % (body, idx)))
    return bad[:2]


def gen_lists(R, n):
    out = []
    def num():
        return R.choice(['1', '2', '10', '-3', '+7', '0', '255', '2147483647', '-2147483648', '4294967296', '1.5', '1e2', '.5', '99999999999999999999'])
    for _ in range(n):
        if R.random() < 0.5:
            es = []
            for _ in range(R.randint(1, 8)):
                es.append(num() if R.random() < 0.6 else num() + ':' + num())
            b = ','.join(es)
        else:
            es = []
            for _ in range(R.randint(1, 8)):
                d = R.randint(1, 5)
                a = '!'.join(num() for _ in range(d))
                if R.random() < 0.4:
                    d2 = d if R.random() < 0.85 else R.randint(1, 5)
                    a += ':' + '!'.join(num() for _ in range(d2))
                es.append(a)
            b = '@' + ','.join(es)
        if R.random() < 0.3:
            b = list(b)
            for _ in range(R.randint(1, 2)):
                i = R.randrange(len(b) + 1)
                k = R.random()
                if k < 0.4 and i < len(b):
                    b[i] = R.choice('!:,@ a-')
                elif k < 0.7 and i < len(b):
                    del b[i]
                else:
                    b.insert(i, R.choice('!:,@ 1'))
            b = ''.join(b)
        out.append(b)
    return out


def streams(tier, rng):
    A = ['1', '2', '-', '.', ':', ',', '!', '@', ' ', 'a', 'e', '+']
    maxlen = 4 if tier == 'quick' else 5
    cases = []
    k = 0
    for n in range(0, maxlen + 1):
        for t in itertools.product(A, repeat=n):
            body = ''.join(t)
            for idx in ((0, 1, 2) if tier == 'quick' else (0, 1, 2, 3, 5)):
                cases.append('EXPR %s %d %d' % (vf.hx(body), idx, k % 5))
                k += 1
    for b in gen_lists(rng, 3000 if tier == 'quick' else 50000):
        for idx in rng.sample(range(0, 10), 4):
            cases.append('EXPR %s %d %d' % (vf.hx(b), idx, rng.randint(0, 4)))
    yield {'name': 'lists', 'cases': cases, 'oracle': oracle, 'nontrivial': lambda c, o: c if (' n0' in o or ' c0' in o) else None}
