"""C10 the error queue is a bounded FIFO that marks overflow and owns its texts."""
import itertools
import vf

ID = 'C10'
FLAVORS = ['default', 'noinfo', 'strict']
RULE = ('EQ histories over {push(code, text or none, explicit length or 0, allocation failure injected or not), pop, clear, count, SYST:ERR?} for capacities 1..4 (and 255, 256, 257, 300 filled beyond capacity; texts ending in CR / LF): '
        'every sequence up to length 4 (quick) / 6 (thorough) over a 9-letter alphabet, plus random histories of up to 60 (quick) / 2000 (thorough) operations; malloc and no-info builds; '
        'LeakSanitizer is on, so a text that is never released fails the run. Non-trivial: a history that overflows or returns a text; distinct = distinct lines.')
MODELLED = 'fifo.c ring and SCPI_ErrorAddInternal/Pop/Clear/Count are modelled in FifoProof/ErrQueue (allocation = set of live ids with a failure oracle); SCPI_SystemErrorNextQ composes pop with the C18 formatter'
ASSUMPTIONS = ['with info_len = 0 at most 255 characters of the text are kept (SCPI limit), so the unmodified text is its first 255 characters (DESIGN.md section 9)',
               'allocation failure is injected by wrapping strndup in the harness (-Wl,--wrap=strndup)']

DESC = None


def ref_run(case, noinfo):
    """abstract bounded FIFO: expected tokens"""
    parts = case.split('|')
    cap = int(parts[0].split()[1])
    q = []
    out = []
    for p in parts[1:]:
        f = p.split(' ')
        if f[0] == 'P':
            code, info, ln, fail = int(f[1]), f[2], int(f[3]), int(f[4])
            text = None
            if info != '-' and not noinfo and not fail:
                t = bytes.fromhex(info)
                t = t.split(b'\x00')[0]
                n = ln if ln else min(len(t), 255)
                text = t[:n]
            if len(q) < cap:
                q.append((code, text))
            else:
                q[-1] = (-350, None)
            out.append('p%d' % len(q))
        elif f[0] == 'O':
            if q:
                c, t = q.pop(0)
            else:
                c, t = 0, None
            out.append('o%d' % c + ((':' + t.hex()) if t is not None else ''))
        elif f[0] == 'C':
            q = []
            out.append('c0')
        elif f[0] == 'N':
            out.append('n%d' % len(q))
        elif f[0] == 'S':
            if q:
                c, t = q.pop(0)
            else:
                c, t = 0, None
            out.append(('s', c, t))
    return out


def oracle_for(noinfo):
    def oracle(case, out):
        if out.startswith('X'):
            return []
        want = ref_run(case, noinfo)
        got = out.split(' ')[1:]
        got = [g.split('/')[0] for g in got if not g.startswith('X')]
        for k, (w, g) in enumerate(zip(want, got)):
            if isinstance(w, tuple):
                # SYST:ERR?: code, then a quoted string that starts with a description; text (if any) after ';'
                resp = vf.unhx(g[1:])
                code = str(w[1]).encode()
                if not resp.startswith(code + b',"') or not resp.endswith(b'"'):
                    return [('systerr-shape', 'operation %d: SYST:ERR? answered %r for code %d' % (k + 1, resp, w[1]))]
                body = resp[len(code) + 2:-1].replace(b'""', b'"')
                if w[2] is not None:
                    if b';' not in body or not (w[2][:200].startswith(body.split(b';', 1)[1][:200]) or body.split(b';', 1)[1].startswith(w[2][:100])):
                        return [('systerr-text', 'operation %d: SYST:ERR? answered %r, the queued text was %r' % (k + 1, resp, w[2]))]
                continue
            if w != g:
                return [('fifo', 'operation %d (%s): implementation %s, bounded FIFO of capacity %s gives %s' % (k + 1, case.split('|')[k + 1], g, case.split('|')[0].split()[1], w))]
        if len(got) != len(want):
            return [('fifo', 'history produced %d results for %d operations' % (len(got), len(want)))]
        return []
    return oracle


def streams(tier, rng):
    A = ['P -100 %s 0 0' % vf.hx('hello'), 'P -200 00 0 0', 'P -113 %s 3 0' % vf.hx('abcdef'), 'P 5 - 0 0', 'P -222 %s 0 1' % vf.hx('lost'), 'O', 'C', 'N', 'S', 'P 7 %s 0 0' % vf.hx('a"b')]
    depth = 4 if tier == 'quick' else 6
    for flavor in FLAVORS:
        cases = []
        for cap in (1, 2, 3, 4):
            for d in range(1, depth + 1):
                seqs = itertools.product(A, repeat=d)
                if len(A) ** d > 7000:
                    seqs = [tuple(rng.choice(A) for _ in range(d)) for _ in range(7000)]
                for s in seqs:
                    cases.append('|'.join(['EQ %d 16' % cap] + list(s)))
        nr, ln = (300, 60) if tier == 'quick' else (2000, 2000)
        for _ in range(nr):
            cap = rng.choice([1, 2, 3, 4, 8])
            ops = []
            for _ in range(rng.randint(5, ln)):
                k = rng.random()
                if k < 0.5:
                    has = rng.random() < 0.7
                    t = bytes(rng.choice(b'abc ";\xe9\r\n') for _ in range(rng.choice([0, 1, 3, 10, 100, 254, 255, 256, 300]))) if has else b''
                    l = rng.choice([0, 0, 0, 1, 2, 5, 300]) if has else 0
                    # "00" is the empty C string (a text that is present but empty), "-" is no text at all (NULL)
                    ops.append('P %d %s %d %d' % (rng.choice([-100, -113, -222, 5, -350, 0, 1234, -32768]), t.hex() if (has and t) else ('00' if has else '-'), l, 1 if rng.random() < 0.15 else 0))
                else:
                    ops.append(rng.choice(['O', 'O', 'S', 'S', 'C', 'N', 'N']))
            cases.append('|'.join(['EQ %d 16' % cap] + ops))
        # capacities beyond one byte: more pushes than capacity (distinct codes), counts, then everything popped in order
        for cap in (255, 256, 257, 300):
            for extra in (0, 3):
                ops = ['P %d %s 0 0' % (i + 1, (vf.hx('t%d' % i) if i % 7 == 0 else '-')) for i in range(cap + extra)]
                ops += ['N'] + [rng.choice(['O', 'S']) if i % 50 == 49 else 'O' for i in range(cap + 1)] + ['N']
                cases.append('|'.join(['EQ %d 4096' % cap] + ops))
        # texts that end in (or contain) carriage return / line feed are queued unmodified
        for t in (b'line\r\n', b'line\n', b'\n', b'\r', b'a\r\nb', b'two\n\n', b'x\r'):
            for ln in (0, len(t)):
                for rd in ('O', 'S'):
                    cases.append('|'.join(['EQ 4 64', 'P -100 %s %d 0' % (t.hex(), ln), 'N', rd, 'N']))
        if flavor == 'strict':
            # strict ISO C build: the library duplicates texts with its own strndup, which the allocation-failure injection does not reach
            cases = [c for c in cases if not any(p.startswith('P ') and p.endswith(' 1') for p in c.split('|'))][::3]
        yield {'name': 'histories-' + flavor, 'flavor': flavor, 'cases': cases, 'oracle': oracle_for(flavor == 'noinfo'),
               'nontrivial': lambda c, o: c if ('o-350' in o or ':' in o) else None}
