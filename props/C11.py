"""C11 the status byte always equals the summary of the registers behind it."""
import vf, reggen

ID = 'C11'
FLAVORS = ['default', 'noinfo']
RULE = ('REG histories: (a) breadth-first, every sequence of <= 2 (quick) / 3 (thorough) operations over the alphabet {write of each combination of three representative bits '
        '(bit 6, bit 9, bit 5) to every event/condition/enable register and SRE, through SCPI_RegSet and through *ESE/*SRE/STAT:...:ENAB, set / clear of the user bits 4 and 8 of the status byte (SCPI_RegSetBits / SCPI_RegClearBits), push of 3 codes, pop, clear, *CLS, '
        '*ESR?, STAT:OPER?, STAT:QUES?, STAT:PRES, SYST:ERR?}; (b) random walks of 40 operations over full 16-bit values, every fifth of them on a context initialised without an error callback (REGN), with SCPI_RegSetBits / SCPI_RegClearBits on every register (on the status byte: bits 0, 1, 4, 8..15); every third walk again on the build without error information (noinfo); the response text of the numeric status queries is compared with the command-layer model. The invariant is evaluated after every operation. '
        'Non-trivial: a history in which the status byte changes at least once; distinct = distinct lines.')
MODELLED = 'SCPI_RegSet (table-driven propagation), RegSetBits/ClearBits, ErrorEmit/EmitEmpty, push/pop/clear, *CLS are modelled in RegModel; the status command bodies of ieee488.c / minimal.c (register operations and reported number) in CmdModel; *IDN?, *OPC?, *RST, *TST?, *WAI, SYST:VERS? are exercised on the implementation only (no effect on status)'
ASSUMPTIONS = ['direct writes to the status byte that change bits 2, 3, 5, 6 or 7 are not among the property\'s operations (DESIGN.md section 9 and 13.12); writes to its other bits are']


def inv(regs, q):
    STB, SRE, ESR, ESE, OPER, OPERE, OPERC, QUES, QUESE, QUESC = regs
    bad = []
    if bool(STB & 0x20) != bool(ESR & ESE):
        bad.append('bit 5 (ESB) = %d but ESR & ESE = 0x%x' % (bool(STB & 0x20), ESR & ESE))
    if bool(STB & 0x80) != bool(OPER & OPERE):
        bad.append('bit 7 = %d but OPER & OPERE = 0x%x' % (bool(STB & 0x80), OPER & OPERE))
    if bool(STB & 0x08) != bool(QUES & QUESE):
        bad.append('bit 3 = %d but QUES & QUESE = 0x%x' % (bool(STB & 0x08), QUES & QUESE))
    if bool(STB & 0x04) != (q > 0):
        bad.append('bit 2 (error available) = %d but the queue holds %d entries' % (bool(STB & 0x04), q))
    if bool(STB & 0x40) != bool(STB & SRE & ~0x40 & 0xFFFF):
        bad.append('bit 6 (MSS) = %d but STB & SRE & ~0x40 = 0x%x' % (bool(STB & 0x40), STB & SRE & ~0x40 & 0xFFFF))
    return bad


def oracle(case, out):
    if out.startswith('X'):
        return []
    ops = case.split('|')[1:]
    for k, (evs, regs, q) in enumerate(reggen.parse_out(out)):
        b = inv(regs, q)
        if b:
            return [('stb-incoherent', 'after operation %d (%s): %s; registers %s' % (k + 1, ops[k] if k < len(ops) else '?', '; '.join(b), dict(zip(reggen.REGS, regs))))]
    return []


def streams(tier, rng):
    A = reggen.alphabet3()
    cases = []
    depth = 2 if tier == 'quick' else 3
    import itertools
    if depth == 2:
        for a in A:
            for b in A:
                cases.append(reggen.line(2, [a, b]))
        # a sample of depth 3
        for _ in range(4000):
            cases.append(reggen.line(rng.choice([1, 2]), [rng.choice(A) for _ in range(3)]))
    else:
        for a in A:
            for b in A:
                for c in A:
                    cases.append(reggen.line(2, [a, b, c]))
    yield {'name': 'bfs3bit', 'coqcheck': True, 'cases': cases, 'project': reggen.project, 'oracle': oracle,
           'nontrivial': lambda c, o: c if len(set(s[1][0] for s in reggen.parse_out(o))) > 1 else None}
    walks = [reggen.line(rng.choice([1, 2, 3, 4]), reggen.random_walk(rng, 40), noerr=(k % 5 == 4)) for k in range(1500 if tier == 'quick' else 40000)]
    # regression input of the fixed defect (observation 10): error first, enable later
    walks.append(reggen.line(2, ['P -113', reggen.cmd('*ESE 32', 'W:3:32'), reggen.cmd('*ESE 0', 'W:3:0')]))
    yield {'name': 'walk16bit', 'coqcheck': True, 'cases': walks, 'project': reggen.project, 'oracle': oracle,
           'nontrivial': lambda c, o: c if len(set(s[1][0] for s in reggen.parse_out(o))) > 1 else None}
    # the build without device-dependent error information: the queue code is configured differently (error.c), the registers must not notice
    yield {'name': 'walk16bit-noinfo', 'flavor': 'noinfo', 'cases': walks[::3] + [reggen.line(2, ['P -113', 'C']), reggen.line(2, ['P -113', 'L']), reggen.line(2, ['P -113', reggen.cmd('*CLS', 'K:CLS')])],
           'project': reggen.project, 'oracle': oracle,
           'nontrivial': lambda c, o: c if len(set(s[1][0] for s in reggen.parse_out(o))) > 1 else None}
