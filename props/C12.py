"""C12 events are classified, latched and announced as IEEE 488.2 / SCPI prescribe."""
import vf, reggen

ID = 'C12'
FLAVORS = ['default']
RULE = ('(a) all 65536 error codes pushed on a fresh context (one REG line per 64 codes, each code followed by *CLS) -- exhaustive; (b) the operation alphabet and random walks of C11 '
        'with the service-request callback observed on every transition. Non-trivial: a line in which an event bit or MSS changes; distinct = distinct lines.')
MODELLED = 'errs[] classification (table regenerated from error.c), SCPI_ErrorPushEx register side, condition->event latch, SRQ callback are modelled in RegModel'
ASSUMPTIONS = ['a push onto a full queue sets the class bit of the pushed code (the event that occurred); the -350 marker that replaces the newest entry sets no bit of its own',
               'extra callbacks while MSS is already 1 are allowed by the statement and not flagged (DESIGN.md section 9)']


def klass(c):
    if -199 <= c <= -100: return 0x20
    if -299 <= c <= -200: return 0x10
    if -399 <= c <= -300 or 1 <= c <= 32767: return 0x08
    if -499 <= c <= -400: return 0x04
    if -599 <= c <= -500: return 0x80
    if -699 <= c <= -600: return 0x40
    if -799 <= c <= -700: return 0x02
    if -899 <= c <= -800: return 0x01
    return 0


def oracle(case, out):
    if out.startswith('X'):
        return []
    parts = case.split('|')
    qcap = int(parts[0].split()[1])
    ops = parts[1:]
    prev = [0] * 10
    pq = 0
    for k, (evs, regs, q) in enumerate(reggen.parse_out(out)):
        if k >= len(ops):
            break
        op = ops[k].split(' ')
        STB, SRE, ESR, ESE, OPER, OPERE, OPERC, QUES, QUESE, QUESC = regs
        where = 'operation %d (%s)' % (k + 1, ops[k])
        spec = reggen.absspec(op[2]) if op[0] == 'M' else None
        if op[0] == 'P':
            c = int(op[1])
            want = prev[2] | klass(c)      # on overflow the pushed code is still the event that occurred; -350 only replaces the queue entry
            if ESR != want:
                return [('classification', '%s: ESR went 0x%x -> 0x%x, the class of code %d is bit 0x%x' % (where, prev[2], ESR, c, klass(c)))]
        # latch: condition write sets the 0->1 bits in the event register
        w = None
        if op[0] == 'W':
            w = (int(op[1]), int(op[2]) & 0xFFFF)
        elif op[0] == 'T':
            w = (int(op[1]), (prev[int(op[1])] | int(op[2])) & 0xFFFF)
        elif op[0] == 'U':
            w = (int(op[1]), prev[int(op[1])] & ~int(op[2]) & 0xFFFF)
        elif spec and spec.startswith('W:'):
            w = (int(spec.split(':')[1]), int(spec.split(':')[2]) & 0xFFFF)
        elif spec and spec.startswith('B:'):
            w = (int(spec.split(':')[1]), (prev[int(spec.split(':')[1])] | int(spec.split(':')[2])) & 0xFFFF)
        if w and w[0] in (6, 9):
            ev_i = 4 if w[0] == 6 else 7
            want = prev[ev_i] | (~prev[w[0]] & w[1] & 0xFFFF)
            if regs[ev_i] != want:
                return [('latch', '%s: condition 0x%x -> 0x%x must latch event 0x%x -> 0x%x, got 0x%x' % (where, prev[w[0]], w[1], prev[ev_i], want, regs[ev_i]))]
        # sticky: event bits disappear only through their own clearing operations
        clears = {2: False, 4: False, 7: False}
        if op[0] == 'L' or spec == 'L':
            clears = {2: True, 4: True, 7: True}
        if w and w[0] in clears and not (spec and spec.startswith('B:')) and op[0] != 'T':
            clears[w[0]] = True
        for i in (2, 4, 7):
            if not clears[i] and (prev[i] & ~regs[i]):
                return [('sticky', '%s: %s lost bits 0x%x without a clearing operation' % (where, reggen.REGS[i], prev[i] & ~regs[i]))]
        # service request
        qs = [int(e[1:]) for e in evs if e[0] == 'Q']
        for v in qs:
            if not (v & 0x40):
                return [('srq-without-mss', '%s: service request callback with status byte 0x%x (MSS clear)' % (where, v))]
        if qs and not (STB & 0x40) and False:
            pass
        if not (prev[0] & 0x40) and (STB & 0x40):
            if not qs:
                return [('srq-missing', '%s: MSS rose 0 -> 1 (STB 0x%x -> 0x%x) without a service request callback' % (where, prev[0], STB))]
            if qs[-1] != STB:
                return [('srq-value', '%s: callback carried 0x%x, the status byte is 0x%x' % (where, qs[-1], STB))]
        prev, pq = regs, q
    return []


def streams(tier, rng):
    cases = []
    codes = list(range(-32768, 32768))
    for i in range(0, len(codes), 64):
        ops = []
        for c in codes[i:i + 64]:
            ops += ['P %d' % c, 'L']
        cases.append(reggen.line(2, ops))
    yield {'name': 'all-codes', 'coqcheck': True, 'cases': cases, 'project': reggen.project, 'oracle': oracle, 'nontrivial': lambda c, o: c}
    A = reggen.alphabet3()
    seqs = []
    for a in A:
        for b in A:
            seqs.append(reggen.line(2, [a, b]))
    n = 1500 if tier == 'quick' else 40000
    seqs += [reggen.line(rng.choice([1, 2, 3]), reggen.random_walk(rng, 40), noerr=(k % 5 == 4)) for k in range(n)]
    seqs.append(reggen.line(2, ['W 1 8', 'P 5', 'L', 'W 6 512', 'W 5 512', 'W 1 128']))
    yield {'name': 'histories', 'coqcheck': True, 'cases': seqs, 'project': reggen.project, 'oracle': oracle,
           'nontrivial': lambda c, o: c if (' Q' in o or len(set(tuple(s[1][2:]) for s in reggen.parse_out(o))) > 1) else None}
