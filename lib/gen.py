"""Case generators shared by the property modules (every random choice comes from the rng passed in)."""
from vf import hx

PATS = [b"*IDN?", b"*RST", b"TEST:A?", b"TEST:B?", b"TEST:SUB:C?", b"II", b"SYSTem:ERRor[:NEXT]?", b"MEASure[:SCALar]:VOLTage[:DC]?",
        b"OUTPut#:FREQuency#", b"[:SOURce]:LEVel", b"TXT", b"BLK?", b"CH", b"N?", b"E?", b"CMDOUT",
        # trailing optional numeric keywords (defaults for skipped suffixes), an optional keyword between two mandatory ones followed by an
        # overlapping pattern, and two patterns one header matches (first entry wins)
        b"TRIGger#[:SEQuence#][:LEVel#]", b"[:SOURce]:VOLTage[:LEVel]:TRIGgered[:AMPLitude]", b"[:SOURce]:VOLTage[:LEVel][:IMMediate][:AMPLitude]",
        b"CHANnel[:STATe]", b"CHANnel#[:STATe]",
        # keywords with a digit or an underscore in the capital part: the short form ends where the lower-case letters begin
        b"SOURce:BB:W3GPp:STATe", b"SOURce:BB:W:STATe", b"SYSTem:COMMunicate:RS232:BAUD", b"OUT_Aux:LEVel"]
HEAD = [b"*IDN?", b"*idn?", b"*RST", b"TEST:A?", b":TEST:A?", b"test:b?", b"B?", b"A?", b"SUB:C?", b"TEST:SUB:C?", b"C?", b"II", b"ii", b"SYST:ERR?",
        b"SYSTEM:ERROR:NEXT?", b"ERR?", b"MEAS:VOLT?", b"MEASURE:SCALAR:VOLTAGE:DC?", b"MEAS:SCAL:VOLT?", b"VOLT?", b"OUTP:FREQ", b"OUTP2:FREQ3",
        b"OUTPUT10:FREQUENCY", b"LEV", b"SOUR:LEV", b":SOURCE:LEVEL", b"TXT", b"BLK?", b"CH", b"N?", b"E?", b"CMDOUT", b"FOO", b"FOO:BAR?", b"X1",
        b"TEST:", b"*", b"TEST:A", b"TES:A?", b"TESTT:A?", b"*IDN", b":*IDN?", b"OUTP:FREQ1x"] + \
       [b"TRIG2", b"TRIG", b"TRIG2:LEV4", b"TRIG:SEQ3:LEV1", b"TRIG1:SEQ", b"VOLT", b"VOLT:LEV", b"VOLT:TRIG", b"SOUR:VOLT:LEV:IMM:AMPL", b"VOLT:IMM", b"VOLT:LEV:TRIG:AMPL",
        b"CHAN", b"CHAN2", b"CHAN3:STAT", b"CHAN:STAT", b"LEV:TRIG", b"TRIG:AMPL",
        b"SOUR:BB:W3GP:STAT", b"SOUR:BB:W:STAT", b"SOUR:BB:W3GPP:STAT", b"SOUR:BB:W3:STAT", b"SYST:COMM:RS232:BAUD", b"SYST:COMM:RS:BAUD", b"OUT_A:LEV", b"OUT:LEV", b"OUT_AUX:LEV", b"out_a:lev"]
GOOD = [b"*IDN?", b"*idn?", b"*RST", b"TEST:A?", b":TEST:A?", b"test:b?", b"B?", b"A?", b"SUB:C?", b"TEST:SUB:C?", b"C?", b"II", b"ii", b"SYST:ERR?", b"ERR?",
        b"MEAS:VOLT?", b"MEASURE:SCALAR:VOLTAGE:DC?", b"MEAS:SCAL:VOLT?", b"OUTP:FREQ", b"OUTP2:FREQ3", b"LEV", b"SOUR:LEV", b"TXT", b"BLK?", b"CH", b"N?", b"E?", b"CMDOUT",
        b"TRIG2", b"TRIG", b"TRIG2:LEV4", b"TRIG:SEQ3:LEV1", b"VOLT", b"VOLT:LEV", b"VOLT:TRIG", b"VOLT:IMM", b"CHAN", b"CHAN2", b"CHAN3:STAT", b"CHAN:STAT",
        b"SOUR:BB:W3GP:STAT", b"SOUR:BB:W:STAT", b"SYST:COMM:RS232:BAUD", b"OUT_A:LEV"]
DATA = [b"MAX", b"min", b"DEFAULT", b"INF", b"nan", b"UP", b"1.5e3", b"-2.5E-3", b"0.1", b"1e400", b"1e-400", b"12 MV", b"3.3mv", b"10 khz", b"1.2MOHM",
        b"5 S", b"7 xyz", b"2.5e-3 A", b"100 PCT", b"1 MNT", b"#HFF V", b"1", b"-5", b"+7", b"42", b"1.5", b"1e3", b"4294967296",
        b"-2147483648", b"99999999999999999999", b"#HFF", b"#hff", b"#Q17", b"#B101", b"#H1FFFFFFFF", b"ON", b"OFF", b"on", b"BUS", b"IMM", b"imm",
        b"EXTERNAL", b"EXTE", b"FOO", b"MIN", b'"abc"', b"'x y'", b'"a""b"', b'""', b"#13abc", b"#10", b"#205hello", b"(1,2)", b"(@1!2)", b"1V", b"1 V",
        b"5 KOHM"]
BADDATA = [b"#12a", b"@", b'"unterminated', b"1,", b"", b"1 2", b"#", b"#H", b"(1", b"'a", b"1e", b"$", b"#3", b"1 E5", b"1. E 2", b".5", b"+.5"]
SEP = [b",", b",", b",", b" ,", b", ", b" , ", b"\t,\t"]


def rscript(R, reads=True, results=True, stream_blocks=True, fail=0.12):
    ops = []
    if reads:
        nread = R.choice([0, 0, 1, 1, 2, 3])
        for i in range(nread):
            m = 1 if (i == 0 and R.random() < 0.7) else R.choice([0, 1])
            kind = R.choice(["PI32", "PU32", "PI64", "PU64", "PBOOL", "PCHOICE", "PCHARS", "PTEXT", "PBLOCK", "PD", "PD", "PF", "PNUM", "PNUM", "PNUM"])
            if kind == "PTEXT":
                ops.append("PTEXT:%d:%d" % (R.choice([0, 1, 2, 4, 8, 64]), m))
            else:
                ops.append("%s:%d" % (kind, m))
    if results:
        nres = R.choice([0, 0, 1, 1, 2, 3])
        for i in range(nres):
            ops.extend(rresult(R, stream_blocks))
    if R.random() < fail:
        ops.append("RETERR")
    return ';'.join(ops) if ops else '-'


def rresult(R, stream_blocks=True, extra=True):
    kinds = ["RI32", "RU32", "RI64", "RU64", "RBOOL", "RTEXT", "RCHARS", "RBLOCK"]
    if stream_blocks:
        kinds.append("RHDRDATA")
    if extra:
        kinds += ["SYSTERR", "NUMS", "PUSH"]
    kind = R.choice(kinds)
    if kind == "RI32":
        return ["RI32:%d" % R.choice([0, 1, -1, 2147483647, -2147483648, R.randint(-10**9, 10**9)])]
    if kind == "RU32":
        return ["RU32:%d:%d" % (R.choice([0, 1, 255, 4294967295, R.getrandbits(32)]), R.choice([2, 8, 10, 16]))]
    if kind == "RI64":
        return ["RI64:%d" % R.choice([0, -1, 9223372036854775807, -9223372036854775808, R.getrandbits(63) - 2**62])]
    if kind == "RU64":
        return ["RU64:%d:%d" % (R.choice([0, 18446744073709551615, R.getrandbits(64)]), R.choice([2, 8, 10, 16]))]
    if kind == "RBOOL":
        return ["RBOOL:%d" % R.choice([0, 1])]
    if kind == "RTEXT":
        return ["RTEXT:" + hx(bytes(R.choice(b'ab"\' ;') for _ in range(R.randint(1, 6))))]
    if kind == "RCHARS":
        return ["RCHARS:" + hx(bytes(R.choice(b'abXY1') for _ in range(R.randint(1, 5))))]
    if kind == "RBLOCK":
        return ["RBLOCK:" + hx(bytes(R.getrandbits(8) for _ in range(R.randint(1, 12))))]
    if kind == "RHDRDATA":
        n = R.randint(1, 8)
        out = ["RHDR:%d" % n]
        k2 = R.randint(1, n + 1)
        out.append("RDATA:" + hx(bytes(R.getrandbits(8) for _ in range(k2))))
        if k2 < n and R.random() < 0.7:
            out.append("RDATA:" + hx(bytes(R.getrandbits(8) for _ in range(n - k2))))
        return out
    if kind == "SYSTERR":
        return ["SYSTERR"]
    if kind == "NUMS":
        return ["NUMS:%d:%d" % (R.randint(0, 3), R.choice([-1, 0, 1, 7]))]
    return ["PUSH:%d" % R.choice([-222, -100, 5])]


def runit(R, good=0.85, bad_data=0.08):
    h = R.choice(GOOD) if R.random() < good else R.choice(HEAD)
    n = R.choice([0, 0, 1, 1, 1, 2, 2, 3])
    if n == 0:
        d = b""
    else:
        d = R.choice([b" ", b" ", b"  ", b"\t"])
        for i in range(n):
            if i:
                d += R.choice(SEP)
            d += R.choice(BADDATA) if R.random() < bad_data else R.choice(DATA)
        d += R.choice([b"", b"", b" "])
    return R.choice([b"", b"", b" "]) + h + d


def rmsg(R, good=0.85, bad_data=0.08, units=(1, 1, 2, 2, 3, 4)):
    k = R.choice(units)
    m = b";".join(runit(R, good, bad_data) for _ in range(k))
    if R.random() < 0.05:
        m += b";"
    return m + R.choice([b"\n", b"\r\n", b"\n", b"\r"])


def mutate(R, b):
    b = bytearray(b)
    for _ in range(R.randint(1, 3)):
        if not b:
            break
        i = R.randrange(len(b))
        k = R.random()
        if k < 0.4:
            b[i] = R.choice(b'";:,#*? \n\x00\x80(')
        elif k < 0.7:
            del b[i]
        else:
            b.insert(i, R.choice(b'";:,#1a \n'))
    return bytes(b)


def chunkings(R, stream, mode=None):
    mode = R.random() if mode is None else mode
    if mode < 0.5:
        return [stream]
    if mode < 0.7:
        return [stream[i:i + 1] for i in range(len(stream))]
    chunks = []
    i = 0
    while i < len(stream):
        n = R.randint(1, 9)
        chunks.append(stream[i:i + n])
        i += n
    return chunks


def scenario(cap, qcap, table, inputs, heap=16):
    """table: list of (tag, pattern-bytes, script); inputs: list of ('I'|'L', bytes)"""
    parts = ['S %d %d %d' % (cap, qcap, heap)]
    for tag, p, sc in table:
        parts.append('C %d %s %s' % (tag, hx(p), sc))
    for k, d in inputs:
        parts.append('%s %s' % (k, hx(d)))
    return '|'.join(parts)


def random_scenario(R, nmsg=(1, 4), mut=0.15, caps=(256, 256, 256, 256, 64, 32, 16, 8), script_opts=None, good=0.85, bad_data=0.08, flush=0.3):
    cap = R.choice(caps)
    q = R.choice([2, 4, 8, 8, 16])
    pats = PATS[:]
    R.shuffle(pats)
    table = [(tag, p, rscript(R, **(script_opts or {}))) for tag, p in enumerate(pats)]
    stream = b""
    for _ in range(R.randint(*nmsg)):
        m = rmsg(R, good, bad_data)
        if R.random() < mut:
            m = mutate(R, m)
        stream += m
    ins = []
    for c in chunkings(R, stream):
        if c:
            ins.append(('I', c))
        if R.random() < 0.03:
            ins.append(('I', b''))
    if R.random() < flush:
        ins.append(('I', b''))
    return scenario(cap, q, table, ins), stream


# ---------------------------------------------------------------- parsing scenario lines back (for oracles)
def parse_scenario(line):
    parts = line.split('|')
    head = parts[0].split()
    cap, qcap = int(head[1]), int(head[2])
    table = []
    inputs = []
    for p in parts[1:]:
        f = p.split(' ')
        if f[0] == 'C':
            table.append((int(f[1]), bytes.fromhex(f[2]) if f[2] != '-' else b'', f[3] if len(f) > 3 else '-'))
        elif f[0] in ('I', 'L'):
            inputs.append((f[0], b'' if f[1] == '-' else bytes.fromhex(f[1])))
    return cap, qcap, table, inputs
