"""Shared machinery of the checks: translator, Coq build, extraction, implementation drivers,
running the two sides, comparison, verdict, evidence.  See DESIGN.md sections 3 and 4."""
import fcntl, hashlib, json, os, re, subprocess, sys, time, glob, shutil, random

ROOT = os.path.dirname(os.path.dirname(os.path.abspath(__file__)))
REPO = os.environ.get('VERIF_REPO', '/repo')
BUILD = os.path.join(ROOT, 'build')
COQ = os.path.join(ROOT, 'coq')
NCPU = 16

FLAVORS = {
    'default': [],
    'static': ['-DUSE_MEMORY_ALLOCATION_FREE=0'],
    'noinfo': ['-DUSE_DEVICE_DEPENDENT_ERROR_INFORMATION=0'],
    'dtostre': ['-DUSE_CUSTOM_DTOSTRE=1'],
    'uchar': ['-funsigned-char'],          # plain char unsigned, as on ARM and PowerPC targets
    'strict': ['-std=c99', '-DVERIF_STRICT'],   # strict ISO C: the library uses its own strncasecmp / strnlen / strndup
    'prec99': ['-U__STDC_VERSION__', '-DVERIF_STRICT'],   # a compiler that does not announce C99: no <stdbool.h>, scpi_bool_t is unsigned char
}
CFLAGS = ['-O1', '-g', '-fsanitize=address,undefined', '-fno-sanitize-recover=all', '-fno-omit-frame-pointer',
          '-DSCPI_PARSER_VERIF', '-w']

TRUSTED_BASE = [
    'Coq 8.16.1 kernel (coqc; vm_compute used for finite facts, native_compute not used)',
    'axioms: none declared by the development; Print Assumptions output per theorem is recorded in this file',
    'translator tools/gen_tables.c (prints the library tables the C compiler evaluated) and gcc',
    'extraction: Require Extraction + ExtrOcamlBasic only (no Extract Constant / Extract Inductive of our own), OCaml 4.13.1, ocaml/drv.ml',
    'correspondence harness harness/impl.c built with ASan+UBSan from /repo working tree, lib/vf.py, props/*.py generators and projections',
    'hand-written Gallina models of the C control logic (tied by differential execution on the cases of this run, not for all inputs)',
    'libc functions are modelled, not verified: strtol/strtoul/strtoll/strtoull, strtod/strtof, snprintf %g, strncpy/strncat/strlen/strnlen, strncasecmp, memcpy/memmove',
]


def sh(cmd, timeout=600, cwd=None, inp=None, env=None):
    t0 = time.time()
    try:
        p = subprocess.run(cmd, cwd=cwd, input=inp, stdout=subprocess.PIPE, stderr=subprocess.PIPE, timeout=timeout, env=env)
        return p.returncode, p.stdout, p.stderr, time.time() - t0
    except subprocess.TimeoutExpired as e:
        return 124, e.stdout or b'', (e.stderr or b'') + b'\n@@TIMEOUT(runner)', time.time() - t0


def sha(paths):
    h = hashlib.sha256()
    for p in sorted(paths):
        h.update(p.encode())
        try:
            with open(p, 'rb') as f:
                h.update(f.read())
        except OSError:
            h.update(b'<missing>')
    return h.hexdigest()


def repo_sources():
    return (glob.glob(os.path.join(REPO, 'libscpi/src/*.[ch]')) + glob.glob(os.path.join(REPO, 'libscpi/inc/scpi/*.h')))


class Lock:
    def __enter__(self):
        os.makedirs(BUILD, exist_ok=True)
        self.f = open(os.path.join(BUILD, '.lock'), 'w')
        fcntl.flock(self.f, fcntl.LOCK_EX)
        return self

    def __exit__(self, *a):
        fcntl.flock(self.f, fcntl.LOCK_UN)
        self.f.close()


# ------------------------------------------------------------------ translator
def ensure_generated():
    """Regenerate coq/Generated.v from the working tree.  Returns (ok, message)."""
    src = os.path.join(ROOT, 'tools/gen_tables.c')
    key = sha(repo_sources() + [src])[:16]
    exe = os.path.join(BUILD, 'gen_tables_' + key)
    if not os.path.exists(exe):
        for old in glob.glob(os.path.join(BUILD, 'gen_tables_*')):
            os.remove(old)
        rc, out, err, _ = sh(['gcc', '-w', '-I', os.path.join(REPO, 'libscpi/inc'), '-I', os.path.join(REPO, 'libscpi/src'), src, '-lm', '-o', exe], 120)
        if rc != 0:
            return False, 'translator does not compile against the working tree: ' + err.decode(errors='replace')[-600:]
    rc, out, err, _ = sh([exe], 60)
    if rc != 0:
        return False, 'translator failed: ' + err.decode(errors='replace')[-400:]
    path = os.path.join(COQ, 'Generated.v')
    old = open(path, 'rb').read() if os.path.exists(path) else None
    if old != out:
        with open(path, 'wb') as f:
            f.write(out)
        return True, 'Generated.v rewritten'
    return True, 'Generated.v unchanged'


# ------------------------------------------------------------------ Coq
def coq_makefile():
    proj = os.path.join(COQ, '_CoqProject')
    files = sorted(os.path.basename(p) for p in glob.glob(os.path.join(COQ, '*.v')))
    want = '-Q . M\n' + '\n'.join(files) + '\n'
    if not os.path.exists(proj) or open(proj).read() != want or not os.path.exists(os.path.join(COQ, 'Makefile')):
        open(proj, 'w').write(want)
        sh(['coq_makefile', '-f', '_CoqProject', '-o', 'Makefile'], 60, cwd=COQ)


def coq_build(targets, timeout=1500):
    """make -k -j16 <targets> (full .vo build).  Returns {target: built?}, log text."""
    coq_makefile()
    rc, out, err, dt = sh(['make', '-k', '-j%d' % NCPU] + targets, timeout, cwd=COQ)
    log = out.decode(errors='replace') + err.decode(errors='replace')
    res = {}
    for t in targets:
        # up to date w.r.t. every prerequisite (question mode): a stale .vo left behind by a failed dependency does not count
        rq, _, _, _ = sh(['make', '-q', t], 120, cwd=COQ)
        res[t] = (rq == 0) and os.path.exists(os.path.join(COQ, t))
    return res, log


def property_theorems(pid):
    src = open(os.path.join(COQ, 'Properties_%s.v' % pid)).read()
    names = []
    for n in re.findall(r'^Definition\s+(%s_\w+)' % pid, src, re.M):
        if n not in names:
            names.append(n)
    return names


def coq_statements(pid):
    """Compile a scratch file that Checks and Print-Assumptions every theorem of Properties_<pid>.v.
    Returns list of dicts {name, statement, assumptions}."""
    names = property_theorems(pid)
    d = os.path.join(BUILD, 'stmt')
    os.makedirs(d, exist_ok=True)
    f = os.path.join(d, 'Stmt_%s.v' % pid)
    with open(f, 'w') as fh:
        fh.write('From Coq Require Import Bool List NArith ZArith.\nFrom M Require Properties_%s.\nImport ListNotations.\nOpen Scope Z_scope.\nSet Printing Width 200.\n' % pid)
        for n in names:
            fh.write('Check Properties_%s.%s.\nPrint Assumptions Properties_%s.%s.\n' % (pid, n, pid, n))
    rc, out, err, _ = sh(['coqc', '-Q', COQ, 'M', f], 300, cwd=d)
    txt = out.decode(errors='replace')
    res = []
    if rc != 0:
        return None, err.decode(errors='replace')[-800:]
    chunks = re.split(r'^(?=Properties_%s\.%s_\w+\s)' % (pid, pid), txt, flags=re.M)
    for ch in chunks:
        m = re.match(r'Properties_%s\.(\w+)\s*:?\s*(.*)' % pid, ch, re.S)
        if not m:
            continue
        body = m.group(2)
        parts = re.split(r'^(Closed under the global context|Axioms:)', body, maxsplit=1, flags=re.M)
        stmt = ' '.join(parts[0].split())
        assum = ' '.join((''.join(parts[1:])).split()) if len(parts) > 1 else '?'
        res.append({'name': m.group(1), 'statement': stmt, 'assumptions': assum})
    return res, ''


GATE = re.compile(r'(?:^|\.\s+)\s*(Admitted|admit|Axiom|Axioms|Parameter|Parameters|Conjecture|Unset\s+Guard|Unset\s+Positivity|Unset\s+Universe|bypass_check|Admit\s+Obligations)\b', re.M)


def strip_comments(s):
    out = []
    depth = 0
    i = 0
    while i < len(s):
        if s.startswith('(*', i):
            depth += 1
            i += 2
        elif s.startswith('*)', i) and depth:
            depth -= 1
            i += 2
        else:
            if not depth:
                out.append(s[i])
            i += 1
    return ''.join(out)


def gate():
    """grep gate over the development (comments stripped): no Admitted/admit/Axiom/Parameter/... and no
    Variable/Hypothesis outside a section."""
    bad = []
    for p in sorted(glob.glob(os.path.join(COQ, '*.v'))):
        s = strip_comments(open(p).read())
        for m in GATE.finditer(s):
            bad.append('%s: %s' % (os.path.basename(p), m.group(1)))
        depth = 0
        for sent in re.split(r'\.\s', s):
            t = sent.strip()
            if re.match(r'Section\s+\w+', t):
                depth += 1
            elif re.match(r'End\s+\w+', t) and depth:
                depth -= 1
            elif depth == 0 and re.match(r'(Variable|Variables|Hypothesis|Hypotheses|Context)\b', t):
                bad.append('%s: %s outside a section' % (os.path.basename(p), t.split()[0]))
    return bad


# ------------------------------------------------------------------ extraction + model driver
MODEL_FILES = ['LexModel', 'MatchModel', 'FmtModel', 'ParserModel', 'RegModel', 'CmdModel', 'HeapProof', 'QStatic', 'FifoProof', 'ErrQueue', 'NumDecode',
               'GFmt', 'Dtostre', 'BufModel', 'ExprModel', 'Generated', 'Glue']


def ensure_model():
    """Build build/model_drv from the extraction of the Coq models.  Returns (ok, message)."""
    res, log = coq_build([m + '.vo' for m in MODEL_FILES])
    if not all(res.values()):
        return False, 'model files do not compile: ' + ', '.join(k for k, v in res.items() if not v) + '\n' + log[-1500:]
    key = sha([os.path.join(COQ, m + '.v') for m in MODEL_FILES] + [os.path.join(ROOT, 'ocaml/Extract.v'), os.path.join(ROOT, 'ocaml/drv.ml')])[:16]
    stamp = os.path.join(BUILD, 'model_drv.stamp')
    exe = os.path.join(BUILD, 'model_drv')
    if os.path.exists(exe) and os.path.exists(stamp) and open(stamp).read() == key:
        return True, 'model driver up to date'
    ml = os.path.join(BUILD, 'ml')
    shutil.rmtree(ml, ignore_errors=True)
    os.makedirs(ml)
    shutil.copy(os.path.join(ROOT, 'ocaml/Extract.v'), ml)
    rc, out, err, _ = sh(['coqc', '-Q', COQ, 'M', 'Extract.v'], 300, cwd=ml)
    if rc != 0:
        return False, 'extraction failed: ' + err.decode(errors='replace')[-800:]
    shutil.copy(os.path.join(ROOT, 'ocaml/drv.ml'), ml)
    rc, out, err, _ = sh(['bash', '-c', 'ocamlfind ocamlopt -w -a -O2 $(ocamlfind ocamldep -sort *.ml *.mli 2>/dev/null) -o ../model_drv'], 600, cwd=ml)
    if rc != 0:
        return False, 'model driver does not compile: ' + (out + err).decode(errors='replace')[-800:]
    open(stamp, 'w').write(key)
    return True, 'model driver rebuilt'


# ------------------------------------------------------------------ implementation drivers
def ensure_impl(flavor):
    src = os.path.join(ROOT, 'harness/impl.c')
    key = sha(repo_sources() + [src])[:16]
    exe = os.path.join(BUILD, 'impl_%s_%s' % (flavor, key))
    if os.path.exists(exe):
        return exe, ''
    for old in glob.glob(os.path.join(BUILD, 'impl_%s_*' % flavor)):
        os.remove(old)
    cmd = ['gcc'] + CFLAGS + FLAVORS[flavor] + ['-I', os.path.join(REPO, 'libscpi/inc'), '-I', os.path.join(REPO, 'libscpi/src'), src, '-lm', '-o', exe]
    if flavor in ('default', 'dtostre', 'uchar', 'strict', 'prec99'):
        cmd.insert(-4, '-Wl,--wrap=strndup')
    rc, out, err, _ = sh(cmd, 300)
    if rc != 0:
        return None, err.decode(errors='replace')[-1500:]
    return exe, ''


ASAN_ENV = dict(os.environ, ASAN_OPTIONS='detect_leaks=1:abort_on_error=0:exitcode=99:allocator_may_return_null=1',
                UBSAN_OPTIONS='print_stacktrace=1:halt_on_error=1:exitcode=98', LC_ALL='C')


def _chunks(lines, k):
    n = len(lines)
    k = max(1, min(k, (n + 199) // 200))
    sz = (n + k - 1) // k
    return [lines[i:i + sz] for i in range(0, n, sz)]


def run_impl(exe, lines, timeout_per_batch=3000, nproc=NCPU):
    """parallel front end of run_impl1 (contiguous chunks, results concatenated in order)"""
    from concurrent.futures import ThreadPoolExecutor
    parts = _chunks(lines, nproc) if len(lines) > 1 else [lines]
    if all(l.startswith(('I2SSWEEP', 'Z I2SSWEEP')) for l in lines):      # long-running lines: one process each
        parts = [[l] for l in lines]
    with ThreadPoolExecutor(max_workers=nproc) as ex:
        res = list(ex.map(lambda p: run_impl1(exe, p, timeout_per_batch), parts))
    return [o for r in res for o in r]


def run_impl1(exe, lines, timeout_per_batch=3000):
    """Feed the case lines; on a sanitizer abort / watchdog / crash, record an X event for the case that
    was being processed and continue with the next one.  Returns list of output lines (same length)."""
    outs = []
    i = 0
    n = len(lines)
    crashes = 0
    while i < n:
        data = ('\n'.join(lines[i:]) + '\n').encode()
        rc, out, err, _ = sh([exe], timeout_per_batch, inp=data, env=ASAN_ENV)
        got = out.decode(errors='replace').split('\n')
        complete = got[:-1] if got and got[-1] == '' else got[:-1]   # the last element is a partial line or ''
        partial = got[-1] if got else ''
        outs.extend(complete)
        i += len(complete)
        if i >= n and rc == 0:
            break
        if i >= n:
            # all cases answered but the process failed at exit: LeakSanitizer or similar
            e = err.decode(errors='replace')
            kind = 'leak' if 'LeakSanitizer' in e else 'exit%d' % rc
            m = re.search(r'(SUMMARY: .*)', e)
            outs[-1] = outs[-1] + ' X' + kind + (':' + m.group(1)[:200].replace(' ', '_') if m else '')
            break
        e = err.decode(errors='replace')
        if '@@TIMEOUT(runner)' in e and complete:
            # the wall-clock limit of the whole batch ran out while cases were still being answered (a loaded machine): no case is
            # to blame; carry on with the rest.  The per-case watchdog inside the driver is what detects a case that hangs.
            continue
        if rc == 124 or '@@TIMEOUT' in e:
            kind = 'timeout'
        elif 'AddressSanitizer' in e:
            m = re.search(r'AddressSanitizer: ([\w-]+)', e)
            kind = 'asan:' + (m.group(1) if m else '?')
        elif 'runtime error' in e:
            m = re.search(r'runtime error: ([^\n]*)', e)
            kind = 'ubsan:' + (m.group(1)[:80].replace(' ', '_') if m else '?')
        else:
            kind = 'crash:rc%d' % rc
        where = ''
        m = re.search(r'#\d+ 0x[0-9a-f]+ in (\w+) [^\n]*libscpi/src/([\w.]+:\d+)', e)
        if m:
            where = ':' + m.group(1) + '@' + m.group(2)
        outs.append((partial + ' ' if partial else '') + 'X' + kind + where)
        i += 1
        crashes += 1
        if crashes > 200:
            while i < n:
                outs.append('Xskipped')
                i += 1
    return outs


def run_model(lines, flavor='default', timeout=3000, nproc=NCPU):
    from concurrent.futures import ThreadPoolExecutor
    parts = _chunks(lines, nproc)
    with ThreadPoolExecutor(max_workers=nproc) as ex:
        res = list(ex.map(lambda p: run_model1(p, flavor, timeout), parts))
    return [o for r in res for o in r]


def run_model1(lines, flavor='default', timeout=3000):
    exe = os.path.join(BUILD, 'model_drv')
    data = ('\n'.join(lines) + '\n').encode()
    rc, out, err, _ = sh([exe, flavor], timeout, inp=data)
    got = out.decode(errors='replace').split('\n')
    if got and got[-1] == '':
        got = got[:-1]
    while len(got) < len(lines):
        got.append('?crash' if rc != 0 else '?')
    return got


# ------------------------------------------------------------------ helpers for generators / oracles
def hx(b):
    if isinstance(b, str):
        b = b.encode('latin1')
    return b.hex() if len(b) else '-'


def unhx(h):
    return b'' if h in ('-', '') else bytes.fromhex(h)


def events(line):
    """split a scenario result line into event tokens"""
    return line.split(' ')[1:]


def outbytes(evs):
    return b''.join(unhx(e[1:]) for e in evs if e.startswith('W'))


class Result:
    def __init__(self, pid, tier, seed):
        self.pid, self.tier, self.seed = pid, tier, seed
        self.t0 = time.time()
        self.violations = []        # (what, replay-dict)
        self.known = []             # strings
        self.disagreements = []     # (case, impl, model)
        self.broken = []            # names of theorems / streams that no longer check
        self.evaluations = 0
        self.distinct = set()
        self.samples = []
        self.dist = {}
        self.compared = 0
        self.notes = []
        self.theorems = []
        self.obligations = 0
        self.discharged = 0
        self.streams = {}

    def count(self, key, n=1):
        self.dist[key] = self.dist.get(key, 0) + n


def write_replay(pid, tag, payload):
    d = os.path.join(ROOT, 'replay')
    os.makedirs(d, exist_ok=True)
    h = hashlib.sha256(json.dumps(payload, sort_keys=True).encode()).hexdigest()[:10]
    p = os.path.join(d, '%s-%s-%s.json' % (pid, tag, h))
    with open(p, 'w') as f:
        json.dump(payload, f, indent=1)
    return p


def load_known():
    p = os.path.join(ROOT, 'known_findings.json')
    if not os.path.exists(p):
        return {'findings': [], 'fixed': []}
    return json.load(open(p))


# ------------------------------------------------------------------ extraction cross-check inside Coq
def _zl(bs):
    return '[' + ';'.join(str(b) for b in bs) + ']'


def _z(v):
    v = int(v)
    return '(%d)' % v if v < 0 else '%d' % v


def _nl(bs):
    return '[' + '; '.join('%d' % b for b in bs) + ']%N'


def _zlist(vs):
    return '[' + '; '.join(_z(v) for v in vs) + ']'


def _bool(x):
    return 'true' if x in ('1', 1, True) else 'false'


def _op_term(op):
    """second, independent reading of a script operation (the first is parse_op in ocaml/drv.ml)"""
    f = op.split(':')
    k = f[0]
    hx_ = lambda h: _nl(unhx(h)) if h and h != '-' else '[]%N'
    if k in ('PI32', 'PU32', 'PI64', 'PU64', 'PBOOL', 'PCHOICE', 'PCHARS', 'PBLOCK', 'PD', 'PF', 'PNUM'):
        return '%s %s' % (k, _bool(f[1]))
    if k == 'PTEXT':
        return 'PTEXT %s %s' % (_z(f[1]), _bool(f[2]))
    if k in ('RI32', 'RI64', 'RI8', 'RI16', 'RHDR', 'PUSH', 'RD', 'RF'):
        return '%s %s' % (k, _z(f[1]))
    if k in ('RU32', 'RU64', 'RU8', 'RU16', 'NUMS'):
        return '%s %s %s' % (k, _z(f[1]), _z(f[2]))
    if k == 'RBOOL':
        return 'RBOOL %s' % _bool(f[1])
    if k in ('RTEXT', 'RCHARS', 'RBLOCK', 'RDATA', 'RMNEM', 'ISCMD'):
        return '%s %s' % (k, hx_(f[1] if len(f) > 1 else ''))
    if k in ('SYSTERR', 'RETERR'):
        return k
    if k == 'RARR':
        size = int(f[1])
        raw = unhx(f[3]) if len(f) > 3 and f[3] != '-' else b''
        vals = [int.from_bytes(raw[i:i + size], 'little') for i in range(0, len(raw) - size + 1, size)]
        return 'RARR %d %s %s' % (size, _z(f[2]), _zlist(vals))
    if k == 'PARR':
        ty = {'i32': 13, 'u32': 14, 'i64': 15, 'u64': 16, 'd': 17}.get(f[1], 18)
        return 'PARR %d %s %s' % (ty, _z(f[2]), _bool(f[3]))
    if k == 'PEXPRN':
        return 'PEXPRN %s %s' % (_z(f[1]), _bool(f[2]))
    if k == 'PEXPRC':
        return 'PEXPRC %s %s %s' % (_z(f[1]), _z(f[2]), _bool(f[3]))
    return None


def _scenario_term(case, out):
    """Coq proposition: evaluating the scenario with the model gives the events, buffer and queue the driver printed"""
    parts = case.split('|')
    head = parts[0].split()
    cap, qcap = int(head[1]), int(head[2])
    table, ins = [], []
    for p in parts[1:]:
        f = p.split(' ')
        if f[0] == 'C':
            ops = []
            if len(f) > 3 and f[3] != '-':
                for o_ in f[3].split(';'):
                    t = _op_term(o_)
                    if t is None:
                        return None
                    ops.append(t)
            table.append('(%s, %s, [%s])' % (_nl(unhx(f[2])) if f[2] != '-' else '[]%N', _z(f[1]), '; '.join(ops)))
        elif f[0] == 'I':
            ins.append(_nl(unhx(f[1])) if f[1] != '-' else '[]%N')
    toks = out.split(' ')[1:]
    evs, mem, queue, stage = [], None, [], 0
    for t in toks:
        if t == '':
            continue
        if stage == 0:
            if t[0] == 'H':
                a, b = t[1:].split(':', 1)
                evs.append('EvH %s %s' % (_z(a), _nl(unhx(b)) if b else '[]%N'))
            elif t[0] == 'P':
                k, ok, v = t[1:].split(':', 2)
                v = v.split(';')[0]
                evs.append('EvP %s %s %s' % (_z(k), _bool(ok), _zlist([x for x in v.split(',') if x != ''])))
            elif t[0] == 'W':
                evs.append('EvW %s' % _nl(unhx(t[1:])))
            elif t == 'F':
                evs.append('EvF')
            elif t[0] == 'E':
                evs.append('EvE %s' % _z(t[1:]))
            elif t[0] == 'R':
                evs.append('EvR %s' % _bool(t[1:]))
            elif t[0] == 'N':
                ok, v = t[1:].split(':', 1)
                evs.append('EvNum %s %s' % (_bool(ok), _zlist([x for x in v.split(',') if x != ''])))
            elif t[0] == 'I':
                evs.append('EvI %s' % _bool(t[1:]))
            elif t[0] == 'B':
                mem = _nl(unhx(t[1:])) if len(t) > 1 else '[]%N'
                stage = 1
            else:
                return None
        elif t[0] == 'Q':
            q = t[1:].split(':')
            queue.append('(%s, %s)' % (_z(q[0]), ('Some %s' % (_nl(unhx(q[1])) if q[1] else '[]%N')) if len(q) > 1 else 'None'))
    if mem is None:
        return None
    return ('Replay.observe (Replay.run_inputs (Replay.fresh %d %d [%s]) [%s]) = ([%s], %s, [%s])'
            % (cap, qcap, '; '.join(table), '; '.join(ins), '; '.join(evs), mem, '; '.join(queue)))


_REGN = ['RegModel.' + x for x in ['STB', 'SRE', 'ESR', 'ESE', 'OPER', 'OPERE', 'OPERC', 'QUES', 'QUESE', 'QUESC']]
_KCMD = {'CLS': 'KCls', 'ESE': 'KEse', 'ESEQ': 'KEseQ', 'ESRQ': 'KEsrQ', 'OPC': 'KOpc', 'SRE': 'KSre', 'SREQ': 'KSreQ', 'STBQ': 'KStbQ', 'OPEREVQ': 'KOperEvQ',
         'OPERCONDQ': 'KOperCondQ', 'OPERENQ': 'KOperEnQ', 'OPEREN': 'KOperEn', 'QUESEVQ': 'KQuesEvQ', 'QUESCONDQ': 'KQuesCondQ', 'QUESENQ': 'KQuesEnQ',
         'QUESEN': 'KQuesEn', 'PRESET': 'KPreset', 'ERRNEXTQ': 'KErrNextQ', 'ERRCOUNTQ': 'KErrCountQ'}


def _reg_term(case, out):
    """a REG line (context with error callback) and the model driver's answer as an equation about RegReplay.rrun"""
    parts = case.split('|')
    if not parts[0].startswith('REG '):
        return None
    ops = []
    for p in parts[1:]:
        f = p.split(' ')
        spec = f[2].split(':') if f[0] == 'M' and len(f) > 2 else None
        if f[0] == 'W':
            ops.append('RegReplay.RW %s %d' % (_REGN[int(f[1])], int(f[2]) & 0xFFFFFFFF))
        elif f[0] in ('T', 'U'):
            ops.append('RegReplay.R%s %s %d' % (f[0], _REGN[int(f[1])], int(f[2])))
        elif f[0] == 'P':
            ops.append('RegReplay.RP (%d)%%Z' % int(f[1]))
        elif f[0] in ('O', 'C', 'L'):
            ops.append('RegReplay.R' + f[0])
        elif spec and spec[0] == 'K' and spec[1] in _KCMD:
            ops.append('RegReplay.RK (CmdModel.%s %d)' % (_KCMD[spec[1]], int(spec[2])) if len(spec) > 2 else 'RegReplay.RK CmdModel.%s' % _KCMD[spec[1]])
        elif spec and spec[0] == 'W':
            ops.append('RegReplay.RW %s %d' % (_REGN[int(spec[1])], int(spec[2])))
        elif spec and spec[0] in ('L', 'O', 'Z') and len(spec) == 1:
            ops.append('RegReplay.R' + spec[0])
        else:
            return None
    steps, evs, resp = [], [], 'None'
    for t in out.split(' ')[1:]:
        if t[:1] == 'E':
            evs.append('RegModel.EvE (%d)%%Z' % int(t[1:]))
        elif t[:1] == 'Q':
            evs.append('RegModel.EvQ %d' % int(t[1:]))
        elif t[:1] == 'W':
            resp = 'Some %d' % int(unhx(t[1:]).decode().strip())
        elif t[:1] == 'S' and ';' in t:
            regs, q = t[1:].split(';')
            steps.append('([%s], %s, ([%s], (%d)%%Z))' % ('; '.join(evs), resp, '; '.join(regs.split(',')), int(q)))
            evs, resp = [], 'None'
        else:
            return None
    if len(steps) != len(ops):
        return None
    return 'RegReplay.rrun (RegReplay.rinit %s) [%s] = [%s]' % (parts[0].split(' ')[1], '; '.join(ops), '; '.join(steps))


def coq_crosscheck(tag, cases, model_outs, limit=60):
    """Re-evaluate a sample of cases with vm_compute inside Coq and require the results the extracted OCaml code
    printed (keeps extraction and the OCaml driver honest).  Supports I2S, MATCH, RERR lines, REG histories and scenario (S) lines without L inputs.  Returns (n, error or '')."""
    ex = []
    sc = []
    step = max(1, len(cases) // limit)
    for c, o in list(zip(cases, model_outs))[::step]:
        f, g = c.split(' '), o.split(' ')
        if o.startswith('?'):
            continue
        if f[0] == 'I2S' and g[0] == 'I2S':
            w, hi, lo, ln, base, sign = (int(x) for x in f[1:7])
            v = (hi << 32) | lo
            hexs = g[1] if len(g) == 4 else ''
            nul, r = g[-2], g[-1]
            ex.append('FmtModel.int2str %d %d %d (%d) %s = (%s, %s, %s)' % (w, v, ln, base, 'true' if sign else 'false', _zl(unhx(hexs)), 'true' if nul == '1' else 'false', r))
        elif f[0] == 'MATCH' and g[0] == 'MATCH':
            n, d = int(f[3]), int(f[4])
            nums = 'None' if n < 0 else '(Some %s)' % _zl([-99] * n)
            res = g[1].split(':')
            rn = 'None' if n < 0 else '(Some %s)' % _zl([int(x) for x in res[1].split(',') if x != ''] if len(res) > 1 else [])
            ex.append('MatchModel.matchCommand %s%%N %s%%N %s (%d) = MatchModel.Res %s %s' % (_zl(unhx(f[1])), _zl(unhx(f[2])), nums, d, 'true' if res[0] == '1' else 'false', rn))
        elif f[0] == 'RERR' and g[0] == 'RERR' and g[1].startswith('W'):
            info = 'None' if f[2] == '-' else '(Some %s)' % _zl(unhx(f[2]))
            ex.append('FmtModel.result_error (%d) (Glue.descz (%d)) %s Generated.gen_desc_max = %s' % (int(f[1]), int(f[1]), info, _zl(unhx(g[1][1:]))))
        elif f[0] == 'REG' and g[0] == 'REG':
            t = _reg_term(c, o)
            if t:
                ex.append('(' + t + ')%N')
        elif f[0] == 'S' and g[0].startswith('S') and not any(p.startswith('L ') for p in c.split('|')):
            t = _scenario_term(c, o)
            if t:
                sc.append(t)
    sc = sc[:: max(1, len(sc) // 24)][:24]
    ex += sc
    if not ex:
        return 0, ''
    res, log = coq_build(['Replay.vo', 'Glue.vo', 'FmtModel.vo', 'MatchModel.vo', 'RegReplay.vo'])      # everything the scratch file requires, up to date
    if not all(res.values()):
        return len(ex), 'coq/Replay.v does not build: ' + log[-400:]
    d = os.path.join(BUILD, 'stmt')
    os.makedirs(d, exist_ok=True)
    fn = os.path.join(d, 'Cross_%s.v' % tag)
    with open(fn, 'w') as fh:
        fh.write('From Coq Require Import Bool List NArith ZArith.\nFrom M Require FmtModel MatchModel Glue Generated Replay RegReplay.\nFrom M Require Import ParserModel.\nImport ListNotations.\nOpen Scope Z_scope.\n')
        for i, e in enumerate(ex):
            fh.write('Example x%d : %s.\nProof. vm_compute. reflexivity. Qed.\n' % (i, e))
    rc, out, err, _ = sh(['coqc', '-Q', COQ, 'M', fn], 600, cwd=d)
    if rc != 0:
        return len(ex), 'evaluation inside Coq disagrees with the extracted model: ' + ' '.join(err.decode(errors='replace').split())[:500]
    return len(ex), ''

# ------------------------------------------------------------------ coverage-guided search (C01, thorough tier)
def fuzz_search(tables, corpus, seconds, seed, jobs=8):
    """Build harness/fuzz.c with clang/libFuzzer against the working tree and run it for `seconds`.
    tables: list of '|C ...' strings; corpus: list of bytes.  Returns (scenario lines of crashing inputs, note)."""
    clang = shutil.which('clang')
    if not clang:
        return [], 'coverage-guided search skipped: clang not found'
    d = os.path.join(BUILD, 'fuzz')
    shutil.rmtree(d, ignore_errors=True)
    os.makedirs(os.path.join(d, 'corpus'))
    os.makedirs(os.path.join(d, 'art'))
    exe = os.path.join(d, 'fuzz')
    cmd = [clang, '-fsanitize=fuzzer,address,undefined', '-fno-sanitize-recover=all', '-O1', '-g', '-DSCPI_PARSER_VERIF', '-w', '-Wl,--wrap=strndup',
           '-I', os.path.join(REPO, 'libscpi/inc'), '-I', os.path.join(REPO, 'libscpi/src'), os.path.join(ROOT, 'harness/fuzz.c'), '-lm', '-o', exe]
    rc, out, err, _ = sh(cmd, 300)
    if rc != 0:
        return [], 'coverage-guided search skipped: the libFuzzer harness does not build: ' + err.decode(errors='replace')[-300:]
    tf = os.path.join(d, 'tables.txt')
    open(tf, 'w').write('\n'.join(tables) + '\n')
    for i, c in enumerate(corpus):
        open(os.path.join(d, 'corpus', 'c%04d' % i), 'wb').write(c)
    env = dict(os.environ, VERIF_FUZZ_TABLES=tf, ASAN_OPTIONS='detect_leaks=1:abort_on_error=0', UBSAN_OPTIONS='print_stacktrace=1')
    env.pop('VERIF_FUZZ_PRINT', None)
    cmd = [exe, '-max_total_time=%d' % seconds, '-max_len=1024', '-timeout=10', '-seed=%d' % seed, '-artifact_prefix=' + os.path.join(d, 'art') + '/',
           '-jobs=%d' % jobs, '-workers=%d' % jobs, '-print_final_stats=1', os.path.join(d, 'corpus')]
    p = subprocess.run(cmd, cwd=d, env=env, stdout=subprocess.PIPE, stderr=subprocess.STDOUT, timeout=seconds * 3 + 600)
    execs = 0
    for f in glob.glob(os.path.join(d, 'fuzz-*.log')):
        m = re.findall(r'stat::number_of_executed_units:\s*(\d+)', open(f, errors='replace').read())
        execs += sum(int(x) for x in m)
    lines = []
    arts = sorted(glob.glob(os.path.join(d, 'art', '*')))
    env2 = dict(env, VERIF_FUZZ_PRINT='1')
    for a in arts[:20]:
        q = subprocess.run([exe, a], cwd=d, env=env2, stdout=subprocess.PIPE, stderr=subprocess.DEVNULL, timeout=60)
        for l in q.stdout.decode(errors='replace').split('\n'):
            if l.startswith('S '):
                lines.append(l)
                break
    note = 'coverage-guided search (libFuzzer, %d s, %d jobs, seed %d): %d executions, %d artifacts (crash/leak/timeout inputs)' % (seconds, jobs, seed, execs, len(arts))
    return lines, note
