"""Histories over the status registers and the error queue (C11, C12)."""
import vf

REGS = ['STB', 'SRE', 'ESR', 'ESE', 'OPER', 'OPERE', 'OPERC', 'QUES', 'QUESE', 'QUESC']
IDX = {n: i for i, n in enumerate(REGS)}
BITS3 = [0x40, 0x200, 0x20]         # bit 6, a bit above 8, bit 5
VALS3 = [sum(b for j, b in enumerate(BITS3) if (m >> j) & 1) for m in range(8)]
WRITABLE = ['SRE', 'ESR', 'ESE', 'OPER', 'OPERE', 'OPERC', 'QUES', 'QUESE', 'QUESC']
CODES = [-113, -222, -310, 5, -410, -500, -600, -700, -800, 0, 100, -350, -99, -1000, 32767, -32768]


def cmd(text, spec):
    return 'M %s %s' % (vf.hx(text + '\n'), spec)


# K:<NAME>[:v] = a command of the command-layer model (coq/CmdModel.v); the extracted driver runs CmdModel.cmd_do / cmd_resp
# for it, so the response text of the numeric queries is compared too.  KOLD gives the register operation a K spec stands
# for (the form the oracles of C11/C12 read: W:r:v write, B:r:v set bits, L = *CLS, O = pop, Z = no effect).
KOLD = {'CLS': 'L', 'ESE': 'W:3:%d', 'SRE': 'W:1:%d', 'OPEREN': 'W:5:%d', 'QUESEN': 'W:8:%d', 'ESRQ': 'W:2:0', 'OPEREVQ': 'W:4:0',
        'QUESEVQ': 'W:7:0', 'PRESET': 'W:7:0', 'OPC': 'B:2:1', 'ERRNEXTQ': 'O'}


def absspec(spec):
    if spec and spec.startswith('K:'):
        f = spec.split(':')
        o = KOLD.get(f[1], 'Z')
        return o % int(f[2]) if '%d' in o else o
    return spec


def op_write(reg, v, via_cmd):
    if via_cmd:
        if reg == 'ESE':
            return cmd('*ESE %d' % v, 'K:ESE:%d' % v)
        if reg == 'SRE':
            return cmd('*SRE %d' % v, 'K:SRE:%d' % v)
        if reg == 'OPERE':
            return cmd('STAT:OPER:ENAB %d' % v, 'K:OPEREN:%d' % v)
        if reg == 'QUESE':
            return cmd('STAT:QUES:ENAB %d' % v, 'K:QUESEN:%d' % v)
    return 'W %d %d' % (IDX[reg], v)


OTHER = ['O', 'C', 'L',
         cmd('*ESR?', 'K:ESRQ'), cmd('STAT:OPER?', 'K:OPEREVQ'), cmd('STAT:QUES?', 'K:QUESEVQ'), cmd('STAT:PRES', 'K:PRESET'),
         cmd('*CLS', 'K:CLS'), cmd('SYST:ERR?', 'K:ERRNEXTQ'), cmd('*STB?', 'K:STBQ'), cmd('*ESE?', 'K:ESEQ'), cmd('STAT:OPER:EVEN?', 'K:OPEREVQ'),
         # the remaining mandatory commands: *OPC sets the operation-complete event bit, the others leave status alone
         cmd('*OPC', 'K:OPC'), cmd('*OPC?', 'Z'), cmd('*RST', 'Z'), cmd('*TST?', 'Z'), cmd('*WAI', 'Z'), cmd('*IDN?', 'Z'), cmd('*SRE?', 'K:SREQ'),
         cmd('SYST:ERR:COUN?', 'K:ERRCOUNTQ'), cmd('SYST:VERS?', 'Z'), cmd('STAT:OPER:COND?', 'K:OPERCONDQ'), cmd('STAT:QUES:COND?', 'K:QUESCONDQ'),
         cmd('STAT:OPER:ENAB?', 'K:OPERENQ'), cmd('STAT:QUES:ENAB?', 'K:QUESENQ'), cmd('STAT:QUES:EVEN?', 'K:QUESEVQ')]


USERBITS = [1, 2, 16, 256, 0x8000, 0x0300, 0x8013]      # status-byte bits the library does not compute (mask 0xFF13)


def alphabet3():
    ops = ['T 0 16', 'U 0 16', 'T 0 256', 'U 0 256']
    for r in WRITABLE:
        for v in VALS3:
            ops.append(op_write(r, v, False))
    for r in ('ESE', 'SRE', 'OPERE', 'QUESE'):
        for v in VALS3[1:4]:
            ops.append(op_write(r, v, True))
    for c in (-113, -222, 5):
        ops.append('P %d' % c)
    return ops + OTHER


def random_walk(R, n, full16=True):
    ops = []
    for _ in range(n):
        k = R.random()
        if k < 0.55:
            r = R.choice(WRITABLE)
            v = R.getrandbits(16) if (full16 and R.random() < 0.7) else R.choice(VALS3)
            if R.random() < 0.3:
                v = R.choice([0, 0xFFFF, 0x20, 0x40, 0x60, 0x80, 0x8, 0x4, 1 << R.randrange(16)])
            ops.append(op_write(r, v, R.random() < 0.4))
        elif k < 0.62:
            # SCPI_RegSetBits / SCPI_RegClearBits: the application's own bits of the status byte, any bits of the other registers
            if R.random() < 0.6:
                ops.append('%s 0 %d' % (R.choice('TU'), R.choice(USERBITS)))
            else:
                ops.append('%s %d %d' % (R.choice('TU'), IDX[R.choice(WRITABLE)], R.choice([1 << R.randrange(16), R.getrandbits(16), 0x20, 0x60])))
        elif k < 0.8:
            ops.append('P %d' % R.choice(CODES + [R.randint(-32768, 32767)]))
        else:
            ops.append(R.choice(OTHER))
    return ops


def line(qcap, ops, noerr=False):
    """noerr: the context is initialised without an error callback (interface->error == NULL)"""
    return '|'.join(['%s %d' % ('REGN' if noerr else 'REG', qcap)] + ops)


def parse_out(out):
    """REG result line -> list of steps: (events [str], regs [int]*10, qlen)"""
    steps = []
    cur = []
    for t in out.split(' ')[1:]:
        if t.startswith('S') and ';' in t:
            regs, q = t[1:].split(';')
            steps.append((cur, [int(x) for x in regs.split(',')], int(q)))
            cur = []
        elif t[:1] in ('E', 'Q'):
            cur.append(t)
    return steps


def project(case, out):
    # E/Q events and state dumps; the response bytes (W) are kept for the steps that are commands of the command-layer model
    # (K specs other than SYST:ERR?, whose text belongs to C18), gathered into one token before the step's state dump
    ops = case.split('|')[1:]
    toks = []
    k = 0
    w = ''
    for t in out.split(' '):
        if t[:1] == 'W' and len(t) > 1:
            w += t[1:]
        elif t[:1] == 'S' and ';' in t:
            op = ops[k].split(' ') if k < len(ops) else ['?']
            if w and op[0] == 'M' and len(op) > 2 and op[2].startswith('K:') and op[2] != 'K:ERRNEXTQ':
                toks.append('W' + w)
            w = ''
            k += 1
            toks.append(t)
        elif t[:1] in ('E', 'Q', 'R', '?'):
            toks.append(t)
    return ' '.join(toks)
