"""Histories over the status registers and the error queue (C11, C12)."""
import vf

REGS = ['STB', 'SRE', 'ESR', 'ESE', 'OPER', 'OPERE', 'OPERC', 'QUES', 'QUESE', 'QUESC']
IDX = {n: i for i, n in enumerate(REGS)}
BITS3 = [0x40, 0x200, 0x20]         # bit 6, a bit above 8, bit 5
VALS3 = [sum(b for j, b in enumerate(BITS3) if (m >> j) & 1) for m in range(8)]
WRITABLE = ['SRE', 'ESR', 'ESE', 'OPER', 'OPERE', 'OPERC', 'QUES', 'QUESE', 'QUESC']
CODES = [-113, -222, -310, 5, -410, -500, -600, -700, -800, 0, 100, -350, -99, -1000, 32767, -32768]


def cmd(text, spec):
    return 'M %s %s' % (vf.hx(text + '\n'), spec)


def op_write(reg, v, via_cmd):
    if via_cmd:
        if reg == 'ESE':
            return cmd('*ESE %d' % v, 'W:3:%d' % v)
        if reg == 'SRE':
            return cmd('*SRE %d' % v, 'W:1:%d' % v)
        if reg == 'OPERE':
            return cmd('STAT:OPER:ENAB %d' % v, 'W:5:%d' % v)
        if reg == 'QUESE':
            return cmd('STAT:QUES:ENAB %d' % v, 'W:8:%d' % v)
    return 'W %d %d' % (IDX[reg], v)


OTHER = ['O', 'C', 'L',
         cmd('*ESR?', 'W:2:0'), cmd('STAT:OPER?', 'W:4:0'), cmd('STAT:QUES?', 'W:7:0'), cmd('STAT:PRES', 'W:7:0'),
         cmd('*CLS', 'L'), cmd('SYST:ERR?', 'O'), cmd('*STB?', 'Z'), cmd('*ESE?', 'Z'), cmd('STAT:OPER:EVEN?', 'W:4:0'),
         # the remaining mandatory commands: *OPC sets the operation-complete event bit, the others leave status alone
         cmd('*OPC', 'B:2:1'), cmd('*OPC?', 'Z'), cmd('*RST', 'Z'), cmd('*TST?', 'Z'), cmd('*WAI', 'Z'), cmd('*IDN?', 'Z'), cmd('*SRE?', 'Z'),
         cmd('SYST:ERR:COUN?', 'Z'), cmd('SYST:VERS?', 'Z'), cmd('STAT:OPER:COND?', 'Z'), cmd('STAT:QUES:COND?', 'Z'),
         cmd('STAT:OPER:ENAB?', 'Z'), cmd('STAT:QUES:ENAB?', 'Z'), cmd('STAT:QUES:EVEN?', 'W:7:0')]


def alphabet3():
    ops = []
    for r in WRITABLE:
        for v in VALS3:
            ops.append(op_write(r, v, False))
    for r in ('ESE', 'SRE', 'OPERE', 'QUESE'):
        for v in VALS3[1:4]:
            ops.append(op_write(r, v, True))
    for c in (-113, -222, 5):
        ops.append('P %d' % c)
    return ops + OTHER


def random_walk(R, n, full16=True):
    ops = []
    for _ in range(n):
        k = R.random()
        if k < 0.55:
            r = R.choice(WRITABLE)
            v = R.getrandbits(16) if (full16 and R.random() < 0.7) else R.choice(VALS3)
            if R.random() < 0.3:
                v = R.choice([0, 0xFFFF, 0x20, 0x40, 0x60, 0x80, 0x8, 0x4, 1 << R.randrange(16)])
            ops.append(op_write(r, v, R.random() < 0.4))
        elif k < 0.8:
            ops.append('P %d' % R.choice(CODES + [R.randint(-32768, 32767)]))
        else:
            ops.append(R.choice(OTHER))
    return ops


def line(qcap, ops, noerr=False):
    """noerr: the context is initialised without an error callback (interface->error == NULL)"""
    return '|'.join(['%s %d' % ('REGN' if noerr else 'REG', qcap)] + ops)


def parse_out(out):
    """REG result line -> list of steps: (events [str], regs [int]*10, qlen)"""
    steps = []
    cur = []
    for t in out.split(' ')[1:]:
        if t.startswith('S') and ';' in t:
            regs, q = t[1:].split(';')
            steps.append((cur, [int(x) for x in regs.split(',')], int(q)))
            cur = []
        elif t[:1] in ('E', 'Q'):
            cur.append(t)
    return steps


def project(case, out):
    # E/Q events and state dumps; output bytes of queries are not part of these properties
    return ' '.join(t for t in out.split(' ') if t[:1] in ('E', 'Q', 'S', 'R', '?'))
