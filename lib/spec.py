"""Independent executable specifications used as oracles on the implementation's traces (Python, written
from the property texts, not from the models)."""
import re


# ---------------------------------------------------------------- C03: pattern language
def parse_pattern(p):
    """p: str.  Returns (items, query, common) with items = [(long, nshort, optional, numeric)] or None if outside the grammar."""
    if p.startswith('*'):
        q = p.endswith('?')
        return ([(p[1:-1] if q else p[1:], None, False, False)], q, True)
    q = p.endswith('?')
    body = p[:-1] if q else p
    items = []
    i = 0
    first = True
    while i < len(body):
        opt = False
        if body.startswith('[:', i):
            opt = True
            i += 2
        elif body.startswith(':', i):
            i += 1
        elif body.startswith('[', i) and first:
            # "[KEY]:" form at the very start is not in the generated grammar
            return None
        elif not first:
            return None
        m = re.match(r'[A-Za-z][A-Za-z0-9_]*', body[i:])
        if not m:
            return None
        word = m.group(0)
        i += len(word)
        num = False
        if body.startswith('#', i):
            num = True
            i += 1
        if opt:
            if not body.startswith(']', i):
                return None
            i += 1
        nshort = 0
        while nshort < len(word) and not word[nshort].islower():
            nshort += 1
        items.append((word, nshort, opt, num))
        first = False
    return (items, q, False)


def seg_match(item, seg):
    """does header segment seg spell the keyword (short or long form, digits only if numeric)?  returns (ok, number or None)"""
    word, nshort, opt, num = item
    m = re.match(r'^(.*?)(\d*)$', seg, re.S)
    # digits at the end belong to the suffix only for numeric keywords
    if num:
        name, digits = m.group(1), m.group(2)
    else:
        name, digits = seg, ''
    if name == '':
        return (False, None)
    u = name.upper()
    if u == word.upper() or u == word[:nshort].upper():
        return (True, int(digits) if digits else None)
    return (False, None)


def accepts(p, h):
    """reference acceptance: returns (accepted, numbers-as-list-of-(value or None)) for pattern text p, header text h."""
    pp = parse_pattern(p)
    if pp is None:
        return None
    items, q, common = pp
    if common:
        return (h.upper() == p.upper(), [])
    if h.startswith(':'):
        h = h[1:]
    if h.startswith('*'):
        return (False, [])
    hq = h.endswith('?')
    if hq != q:
        return (False, [])
    if hq:
        h = h[:-1]
    segs = h.split(':')
    if any(s == '' for s in segs):
        return (False, [])

    # nondeterministic choice of a subset of optional items, in order
    def go(ii, si):
        if ii == len(items):
            return [] if si == len(segs) else None
        it = items[ii]
        if si < len(segs):
            ok, n = seg_match(it, segs[si])
            if ok:
                r = go(ii + 1, si + 1)
                if r is not None:
                    return ([n] if it[3] else []) + r
        if it[2]:
            r = go(ii + 1, si)
            if r is not None:
                return ([None] if it[3] else []) + r
        return None
    r = go(0, 0)
    return (r is not None, r or [])


def unambiguous(p):
    """no optional keyword can be mistaken for a keyword that may follow it (next items up to and incl. the first mandatory one)"""
    pp = parse_pattern(p)
    if pp is None:
        return False
    items, q, common = pp
    if common:
        return True

    def forms(it):
        w, ns, _, _ = it
        return {w.upper(), w[:ns].upper()}
    for i, it in enumerate(items):
        if not it[2]:
            continue
        for j in range(i + 1, len(items)):
            if forms(it) & forms(items[j]):
                return False
            if not items[j][2]:
                break
    return True


# ---------------------------------------------------------------- C02: effective headers
def effective_headers(headers):
    """headers as written -> effective headers (property C02)"""
    out = []
    prev = None
    for h in headers:
        if prev is None or h.startswith(':') or h.startswith('*') or prev.startswith('*'):
            e = h
        else:
            k = prev.rfind(':')
            e = (prev[:k + 1] if k >= 0 else '') + h
        out.append(e)
        prev = e
    return out


# ---------------------------------------------------------------- result formatting (C06, C07, C17)
def fmt_int(v, base=10):
    if base == 10:
        return str(v)
    pfx = {2: '#B', 8: '#Q', 16: '#H'}[base]
    digs = '0123456789ABCDEF'
    s = ''
    if v == 0:
        s = '0'
    while v:
        s = digs[v % base] + s
        v //= base
    return pfx + s


def fmt_text(t):
    t = t.split(b'\x00')[0]
    return b'"' + t.replace(b'"', b'""') + b'"'


def fmt_block(d):
    n = str(len(d)).encode()
    return b'#' + str(len(n)).encode() + n + d
