#!/bin/bash
# MANIFEST.setup_cmd: build the framework from files on disk only (offline).
set -e
cd "$(dirname "$0")"
mkdir -p build evidence replay
python3 - <<'PY'
import sys, os
sys.path.insert(0, 'lib')
import vf
with vf.Lock():
    ok, msg = vf.ensure_generated(); print('translator:', msg)
    vf.coq_makefile()
    rc, out, err, dt = vf.sh(['make', '-k', '-j16'], 3000, cwd=vf.COQ)
    print('coq build: rc=%d in %.0fs' % (rc, dt))
    if rc != 0:
        print((out + err).decode(errors='replace')[-3000:])
    ok, msg = vf.ensure_model(); print('model driver:', msg)
    for fl in vf.FLAVORS:
        exe, err = vf.ensure_impl(fl); print('impl', fl, exe or err[-500:])
PY
