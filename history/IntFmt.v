From Coq Require Import Bool List ZArith Lia ZifyBool.
Import ListNotations.
Local Open Scope Z_scope.
Ltac Zify.zify_post_hook ::= Z.div_mod_to_equations.

(* digit characters *)
Definition digit_char (d:Z) : Z := if d <? 10 then 48 + d else 55 + d.  (* '0'+d / 'A'+d-10 *)

(* --- model of the do/while loop of UInt32ToStrBaseSign / UInt64ToStrBaseSign ---
   x is the current divisor (a power of base), uval the remaining value.
   emits digits while x <> 0; buffer bound handled separately by firstn. *)
Fixpoint emit (fuel:nat) (base uval x:Z) : list Z :=
  match fuel with
  | O => []
  | S f => let d := uval / x in
           digit_char d :: (let x' := x / base in if x' =? 0 then [] else emit f base (uval - d*x) x')
  end.

(* leading zero removal: while (uval / x == 0) x /= base *)
Fixpoint strip (fuel:nat) (base uval x:Z) : Z :=
  match fuel with
  | O => x
  | S f => if uval / x =? 0 then strip f base uval (x / base) else x
  end.

(* --- spec: canonical positional digits, most significant first --- *)
Fixpoint digits_fix (k:nat) (base v:Z) : list Z :=   (* exactly k digits of v mod base^k *)
  match k with
  | O => []
  | S k' => digit_char ((v / base ^ Z.of_nat k') mod base) :: digits_fix k' base v
  end.

Lemma emit_digits_fix : forall k base u, 2 <= base -> 0 <= u < base ^ Z.of_nat (S k) ->
  emit (S k) base u (base ^ Z.of_nat k) = digits_fix (S k) base u.
Proof.
  induction k as [|k IH]; intros base u Hb Hu.
  - cbn [emit digits_fix]. change (Z.of_nat 0) with 0 in *. rewrite Z.pow_0_r in *.
    change (Z.of_nat 1) with 1 in Hu. rewrite Z.pow_1_r in Hu.
    rewrite Z.div_1_r. rewrite Z.mod_small by lia.
    replace (1 / base) with 0 by (symmetry; apply Z.div_small; lia). reflexivity.
  - remember (S k) as k1. cbn [emit]. subst k1.
    set (x := base ^ Z.of_nat (S k)).
    assert (Hx : x = base * base ^ Z.of_nat k) by (unfold x; rewrite Nat2Z.inj_succ, Z.pow_succ_r by lia; reflexivity).
    assert (Hpk : 0 < base ^ Z.of_nat k) by (apply Z.pow_pos_nonneg; lia).
    assert (Hdiv : x / base = base ^ Z.of_nat k) by (rewrite Hx, Z.mul_comm, Z.div_mul by lia; reflexivity).
    rewrite Hdiv.
    destruct (Z.eqb_spec (base ^ Z.of_nat k) 0) as [E|_]; [lia|].
    cbn [digits_fix]. fold x.
    assert (Hux : 0 <= u / x < base).
    { split. apply Z.div_pos; lia. apply Z.div_lt_upper_bound. lia.
      replace (x*base) with (base ^ Z.of_nat (S (S k))). lia.
      rewrite (Nat2Z.inj_succ (S k)), Z.pow_succ_r by lia. unfold x. ring. }
    rewrite (Z.mod_small (u / x)) by lia.
    f_equal.
    rewrite IH.
    + (* digits_fix of remainder equals digits_fix of u on lower positions *)
      clear IH. 
      assert (Hrem : u - u / x * x = u mod x) by (rewrite Z.mod_eq by lia; ring).
      rewrite Hrem.
      (* generic lemma inline: digits_fix j (u mod x) = digits_fix j u for j <= S k *)
      assert (G : forall j, (j <= S k)%nat -> digits_fix j base (u mod x) = digits_fix j base u).
      { induction j as [|j IHj]; intros Hj; [reflexivity|]. cbn [digits_fix]. rewrite IHj by lia. f_equal. f_equal.
        (* (u mod x / b^j) mod b = (u / b^j) mod b  since b^(j+1) | x *)
        assert (Hxj : x = base ^ Z.of_nat j * (base * base ^ Z.of_nat (S k - S j))).
        { unfold x. replace (Z.of_nat (S k)) with (Z.of_nat j + (1 + Z.of_nat (S k - S j))) by lia.
          rewrite Z.pow_add_r by lia. rewrite Z.pow_add_r by lia. rewrite Z.pow_1_r. ring. }
        assert (Hpj : 0 < base ^ Z.of_nat j) by (apply Z.pow_pos_nonneg; lia).
        assert (Hpr : 0 < base ^ Z.of_nat (S k - S j)) by (apply Z.pow_pos_nonneg; lia).
        rewrite Hxj.
        rewrite Z.rem_mul_r by nia.
        rewrite (Z.mul_comm (base ^ Z.of_nat j) ((u / base ^ Z.of_nat j) mod _)).
        rewrite Z.div_add by lia. rewrite (Z.div_small (u mod _)) by (apply Z.mod_pos_bound; lia).
        rewrite Z.add_0_l.
        rewrite (Z.rem_mul_r (u / base ^ Z.of_nat j) base) by nia.
        rewrite (Z.mul_comm base), Z_mod_plus_full. apply Z.mod_mod. lia. }
      apply G. lia.
    + lia.
    + assert (H : 0 <= u mod x < x) by (apply Z.mod_pos_bound; lia).
      rewrite Z.mod_eq in H by lia. replace (u - u / x * x) with (u - x * (u / x)) by ring.
      fold x. exact H.
Qed.
Print Assumptions emit_digits_fix.
