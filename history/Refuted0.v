(* witnesses, evaluated inside Coq on the models of the UNCHANGED tree, for observations 3, 10, 11, 15 of section 8
   (1: Dispatch0.v; 5-8: Refuted.v and ParamErr0.v; 12: BufProofs.v; 13: FpStr.v) *)
From Coq Require Import Bool List NArith ZArith Lia.
From M Require MatchModel RegModel BufModel.
Import ListNotations.

(* C11, observation 10: the event is already latched when the enable register is written; the summary bit stays clear *)
Example stb_incoherent_refuted :
  let s0 : RegModel.st := {| RegModel.rg := fun _ => 0%N; RegModel.qlen := 0; RegModel.qcap := 4 |} in
  let '(s1, _) := RegModel.push s0 (-113) in        (* command error: ESR bit 5 *)
  let '(s2, _) := RegModel.wr s1 RegModel.ESE 32%N in (* *ESE 32 afterwards *)
  N.land (RegModel.rg s2 RegModel.ESR) (RegModel.rg s2 RegModel.ESE) = 32%N /\ N.land (RegModel.rg s2 RegModel.STB) 32 = 0%N.
Proof. vm_compute. auto. Qed.

(* C12, observation 11: a positive (device-defined) error code sets no event bit *)
Example positive_code_unclassified_refuted : RegModel.class_bits 100 = [] /\ RegModel.class_bits (-310) = [8%N].
Proof. vm_compute. auto. Qed.

(* C03, observation 3: pattern Xy[:ABc#], header X: the numeric suffix slot keeps whatever the caller had in it *)
Example numbers_unassigned_refuted :
  MatchModel.matchCommand [88;121;91;58;65;66;99;35;93]%N [88]%N (Some [(-99)%Z]) 7 = MatchModel.Res true (Some [(-99)%Z]).
Proof. vm_compute. reflexivity. Qed.

(* C17, observation 15: an empty array of 2-byte elements in the non-native order writes "#10" but completes no item *)
Example empty_swapped_array_refuted :
  BufModel.array_binary true 1 2 [] = ([35;49;48]%Z, 0%Z) /\ BufModel.array_binary true 2 2 [] = ([35;49;48]%Z, 1%Z).
Proof. vm_compute. auto. Qed.

(* C16 custom formatter, observation 14: digits 123456789012305, decimal point before the first digit, precision 15:
   the text should be 0.123456789012305; the trimming loses the last two digits *)
From M Require Dtostre.
Example dtostre_trim_refuted :
  fst (Dtostre.layout [49;50;51;52;53;54;55;56;57;48;49;50;51;48;53]%Z 0 15 false) = [48;46;49;50;51;52;53;54;55;56;57;48;49;50;51]%Z.
Proof. vm_compute. reflexivity. Qed.
