(* C02 on the model of the unchanged tree: the dispatch specification of Dispatch.v and the witness that refutes it *)
From Coq Require Import Bool List NArith ZArith Lia.
From M Require LexModel MatchModel FmtModel.
From M Require Import ParserModel.
Import ListNotations.
Local Open Scope Z_scope.

Definition is_hdr (e:event) : bool := match e with EvH _ _ => true | _ => false end.
Definition hdrs (tr:list event) : list event := filter is_hdr tr.
Definition mkH (x:Z * bytes) : event := EvH (fst x) (snd x).
Definition is_nil {A} (l:list A) : bool := match l with [] => true | _ => false end.
Definition path (p:bytes) : bytes := firstn (Z.to_nat (last_colon p (length p))) p.
Definition starts (ch:N) (l:bytes) : bool := match l with x :: _ => (x =? ch)%N | [] => false end.
(* the effective header of a unit whose predecessor had the effective header prev *)
Definition effective (prev:option bytes) (cur_:bytes) : bytes :=
  match prev with
  | None => cur_
  | Some p => if is_nil p then cur_ else if starts 42 cur_ || starts 58 cur_ then cur_ else if starts 42 p then cur_ else path p ++ cur_
  end.


Fixpoint first_match (table:list (bytes * Z * list op)) (hdr:bytes) : option (bytes * Z * list op) :=
  match table with
  | [] => None
  | (pat,tg,sc) :: r => match MatchModel.matchCommand pat hdr None 0 with MatchModel.Res true _ => Some (pat,tg,sc) | _ => first_match r hdr end
  end.

(* ---------- the specification: handler starts of a message, from the message text alone ---------- *)
Fixpoint spec_units (fuel:nat) (m:bytes) (table:list (bytes * Z * list op)) (off len:Z) (prev:option bytes) : list (Z * bytes) :=
  match fuel with O => [] | S f =>
    let u := LexModel.detect_unit (slice m off len) in
    let h := LexModel.u_hdr u in
    let r := LexModel.u_consumed u in
    let '(evs, prev') :=
      match LexModel.ty h with
      | LexModel.T_INVALID => ([], prev)
      | _ => if 0 <? LexModel.len h then
               let eff := effective prev (slice m (off + LexModel.ptr h) (LexModel.len h)) in
               (match first_match table eff with Some (_, tag, _) => [(tag, eff)] | None => [] end, Some eff)
             else ([], prev)
      end in
    evs ++ (if r <? len then spec_units f m table (off + r) (len - r) prev' else [])
  end.


(* TEST:A?;FOO;TEST:B?  with FOO undefined: the third unit must run TEST:B? (it is written in full, so even
   a stale path could not matter) - here the shorter form B? is used, which must resolve against TEST: *)
Definition t_cmds : list (bytes * Z * list op) :=
  [([84;69;83;84;58;65;63]%N, 1, [RI32 1]); ([84;69;83;84;58;66;63]%N, 2, [RI32 2])].
Definition t_msg : bytes := [84;69;83;84;58;65;63;59;70;79;79;59;66;63;10]%N.   (* TEST:A?;FOO;B? NL *)
Definition t_ctx : ctx :=
  {| cmds := t_cmds; mem := t_msg; cap := 256; first_output := true; output_count := 0; input_count := 0; cmd_error := false; arb_rem := 0;
     pd_off := 0; pd_len := 0; pd_pos := 0; cur := None; raw_off := 0; raw_len := 0; queue := []; qcap := 4; qma := false; trace := [] |}.
Example dispatch_refuted :
  map mkH (spec_units 16 t_msg t_cmds 0 15 None) = [EvH 1 [84;69;83;84;58;65;63]%N; EvH 2 [84;69;83;84;58;66;63]%N] /\
  rev (hdrs (trace (fst (scpi_parse t_ctx 15 desc_of)))) = [EvH 1 [84;69;83;84;58;65;63]%N].
Proof. split; vm_compute; reflexivity. Qed.
