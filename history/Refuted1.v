(* witnesses on the parser model of the UNCHANGED tree for observations 4 and 5 of section 8 *)
From Coq Require Import Bool List NArith ZArith Lia.
From M Require Import ParserModel.
Import ListNotations.
Local Open Scope Z_scope.

Definition pctx (m:list N) : ctx :=
  {| cmds := []; mem := m; cap := 256; first_output := true; output_count := 0; input_count := 0; cmd_error := false; arb_rem := 0;
     pd_off := 0; pd_len := Z.of_nat (length m); pd_pos := 0; cur := None; raw_off := 0; raw_len := 0; queue := []; qcap := 4; qma := false; trace := [] |}.

(* C04, observation 4: "1 E5" is one decimal literal of value 100000; the reader returns 1.0 *)
Example blank_before_exponent_refuted :
  let '(_, ok, bits) := param_fp (pctx [49;32;69;53]%N) true true in
  ok = true /\ bits = 4607182418800017408 (* 1.0 *) /\ NumDecode.strtod_bits [49;69;53]%N = 4681608360884174848 (* 100000.0 *).
Proof. vm_compute. auto. Qed.

(* C05, observation 5: in "1 ,2" the blank before the comma makes the second parameter unreadable (-151) *)

(* C05, observation 5: "II 1 ,2" + NL: the parameter region the unit scan reports is one byte short
   ("1 ," instead of "1 ,2"), so the second parameter is cut off and the reader reports -151 *)
Example blank_before_comma_refuted :
  let u := LexModel.detect_unit [73;73;32;49;32;44;50;10]%N in
  LexModel.ptr (LexModel.u_data u) = 3 /\ LexModel.len (LexModel.u_data u) = 3 /\ LexModel.u_n u = 2.
Proof. vm_compute. auto. Qed.
