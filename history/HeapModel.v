(* Draft model: fifo.c, error.c (static-heap configuration), scpiheap_* (utils.c:775-902) *)
From Coq Require Import Bool List NArith ZArith Lia.
Import ListNotations.
Local Open Scope bool_scope.
Local Open Scope Z_scope.

(* ---------- indexed byte memory with checked access ---------- *)
Definition getb (d:list Z) (i:Z) : Z := if (i <? 0) then 0 else nth (Z.to_nat i) d 0.
Fixpoint setb (d:list Z) (i:nat) (v:Z) : list Z :=
  match d, i with
  | [], _ => []                       (* out of bounds: flagged separately by in_range checks *)
  | _::r, O => v::r
  | c::r, S i' => c :: setb r i' v
  end.
Fixpoint write (d:list Z) (at_:Z) (src:list Z) : list Z :=
  match src with [] => d | c::r => write (setb d (Z.to_nat at_) c) (at_+1) r end.
Fixpoint fill0 (d:list Z) (at_:Z) (n:nat) : list Z :=
  match n with O => d | S n' => fill0 (setb d (Z.to_nat at_) 0) (at_+1) n' end.
(* strnlen starting at index i, at most n bytes *)
Fixpoint strnlen_at (d:list Z) (i:Z) (n:nat) : Z :=
  match n with O => 0 | S n' => if getb d i =? 0 then 0 else 1 + strnlen_at d (i+1) n' end.
Fixpoint strnlen_l (s:list Z) (n:nat) : Z :=
  match n with O => 0 | S n' => match s with c::r => if c =? 0 then 0 else 1 + strnlen_l r n' | [] => 0 end end.

Record heap := { hdata : list Z; hwr : Z; hcount : Z; hsize : Z }.
Definition heap_init (size:Z) : heap := {| hdata := repeat 0 (Z.to_nat size); hwr := 0; hcount := size; hsize := size |}.

(* scpiheap_strndup(heap, s, n): s is a C string (list without NUL), n the length limit *)
Definition heap_strndup (h:heap) (s:list Z) (n:Z) : option Z * heap :=
  if hsize h =? 0 then (None, h) else
  if negb (getb (hdata h) (hwr h) =? 0) then (None, h) else
  if match s with [] => true | c::_ => c =? 0 end then (None, h) else
  let slen := strnlen_l s (Z.to_nat n) in
  let len := slen + 1 in
  if hcount h <? len then (None, h) else
  (* source bytes as memcpy sees them: strnlen bytes of s followed by s[strnlen] (NUL or next char) *)
  let src := firstn (Z.to_nat len) (s ++ [0]) in
  let head := hwr h in
  let rem := hsize h - hwr h in
  let '(d1, wr1, cnt1, src1) :=
     if rem <=? len then (write (hdata h) (hwr h) (firstn (Z.to_nat rem) src), 0, hcount h - rem, skipn (Z.to_nat rem) src)
     else (hdata h, hwr h, hcount h, src) in
  let d2 := write d1 wr1 src1 in
  let wr2 := wr1 + Z.of_nat (length src1) in
  let cnt2 := cnt1 - Z.of_nat (length src1) in
  let d3 := if 0 <? wr2 then setb d2 (Z.to_nat (wr2 - 1)) 0 else setb d2 (Z.to_nat (hsize h - 1)) 0 in
  (Some head, {| hdata := d3; hwr := wr2; hcount := cnt2; hsize := hsize h |}).

(* scpiheap_get_parts: s = index of the string; returns (len1, s2 index option, len2) or None *)
Definition heap_get_parts (h:heap) (s:Z) : option (Z * option Z * Z) :=
  if getb (hdata h) s =? 0 then None else
  let rem := hsize h - s in
  let len1 := strnlen_at (hdata h) s (Z.to_nat rem) in
  if s + len1 - 1 =? hsize h - 1 then Some (len1, Some 0, strnlen_at (hdata h) 0 (Z.to_nat (hsize h)))
  else Some (len1, None, 0).

Definition heap_free (h:heap) (s:option Z) (rollback:bool) : heap :=
  match s with None => h | Some s =>
  match heap_get_parts h s with None => h | Some (l0, s2, l1) =>
    let '(d1, cnt1, l0', l1') :=
      match s2 with
      | Some a => (fill0 (hdata h) a (Z.to_nat (l1+1)), hcount h + (l1+1), l0, l1+1)
      | None => (hdata h, hcount h, l0+1, l1)
      end in
    let d2 := fill0 d1 s (Z.to_nat l0') in
    let cnt2 := cnt1 + l0' in
    if cnt2 =? hsize h then {| hdata := d2; hwr := 0; hcount := cnt2; hsize := hsize h |}
    else if rollback then
      let rb := l0' + l1' in
      let wr1 := if hwr h <? rb then hwr h + hsize h else hwr h in
      {| hdata := d2; hwr := wr1 - rb; hcount := cnt2; hsize := hsize h |}
    else {| hdata := d2; hwr := hwr h; hcount := cnt2; hsize := hsize h |}
  end end.

(* text of a stored string, as SCPI_ResultError sees it: two parts *)
Definition heap_text (h:heap) (s:option Z) : option (list Z * option (list Z)) :=
  match s with None => None | Some s =>
  match heap_get_parts h s with None => None | Some (l0, s2, l1) =>
    let p1 := firstn (Z.to_nat l0) (skipn (Z.to_nat s) (hdata h)) in
    Some (p1, match s2 with Some a => Some (firstn (Z.to_nat l1) (skipn (Z.to_nat a) (hdata h))) | None => None end)
  end end.

(* ---------- fifo.c ---------- *)
Record entry := { ecode : Z; einfo : option Z }.
Record fifo := { fdata : list entry; fwr : Z; frd : Z; fcount : Z; fsize : Z }.
Definition e0 := {| ecode := 0; einfo := None |}.
Definition fifo_init (size:Z) : fifo := {| fdata := repeat e0 (Z.to_nat size); fwr := 0; frd := 0; fcount := 0; fsize := size |}.
Fixpoint sete (d:list entry) (i:nat) (v:entry) : list entry :=
  match d, i with [], _ => [] | _::r, O => v::r | c::r, S i' => c :: sete r i' v end.
Definition fifo_add (f:fifo) (v:entry) : bool * fifo :=
  if fcount f =? fsize f then (false, f) else
  (true, {| fdata := sete (fdata f) (Z.to_nat (fwr f)) v; fwr := (fwr f + 1) mod fsize f; frd := frd f; fcount := fcount f + 1; fsize := fsize f |}).
Definition fifo_remove (f:fifo) : option entry * fifo :=
  if fcount f =? 0 then (None, f) else
  (Some (nth (Z.to_nat (frd f)) (fdata f) e0), {| fdata := fdata f; fwr := fwr f; frd := (frd f + 1) mod fsize f; fcount := fcount f - 1; fsize := fsize f |}).
Definition fifo_remove_last (f:fifo) : option entry * fifo :=
  if fcount f =? 0 then (None, f) else
  let wr' := (fwr f + fsize f - 1) mod fsize f in
  (Some (nth (Z.to_nat wr') (fdata f) e0), {| fdata := fdata f; fwr := wr'; frd := frd f; fcount := fcount f - 1; fsize := fsize f |}).
Definition fifo_clear (f:fifo) : fifo := {| fdata := fdata f; fwr := 0; frd := 0; fcount := 0; fsize := fsize f |}.

(* ---------- error.c, static heap configuration ---------- *)
Record equeue := { q : fifo; hp : heap }.
(* SCPI_ErrorAddInternal; info = None (NULL) or Some (text, info_len) *)
Definition error_add (s:equeue) (code:Z) (info:option (list Z * Z)) : bool * equeue :=
  let '(p, h1) := match info with Some (t,n) => heap_strndup (hp s) t n | None => (None, hp s) end in
  let v := {| ecode := code; einfo := p |} in
  let '(ok, f1) := fifo_add (q s) v in
  if ok then (true, {| q := f1; hp := h1 |})
  else
    let h2 := heap_free h1 p true in
    let '(last, f2) := fifo_remove_last f1 in
    let h3 := heap_free h2 (match last with Some e => einfo e | None => p (* value unchanged: already freed pointer *) end) true in
    let '(_, f3) := fifo_add f2 {| ecode := -350; einfo := None |} in
    (false, {| q := f3; hp := h3 |}).
(* SCPI_ErrorPushEx length rule: info_len = 0 -> strnlen(info, 255) *)
Definition error_push (s:equeue) (code:Z) (info:option (list Z)) (info_len:Z) : bool * equeue :=
  match info with
  | Some t => let n := if info_len =? 0 then strnlen_l t 255 else info_len in error_add s code (Some (t, n))
  | None => error_add s code None
  end.
(* pop as SYST:ERR? does: returns code and the two text parts, then releases the text *)
Definition error_pop_release (s:equeue) : Z * option (list Z * option (list Z)) * equeue :=
  let '(e, f1) := fifo_remove (q s) in
  match e with
  | Some e => (ecode e, heap_text (hp s) (einfo e), {| q := f1; hp := heap_free (hp s) (einfo e) false |})
  | None => (0, None, {| q := f1; hp := hp s |})
  end.
Fixpoint clear_loop (fuel:nat) (f:fifo) (h:heap) : fifo * heap :=
  match fuel with O => (f,h) | S n =>
    match fifo_remove f with
    | (Some e, f1) => clear_loop n f1 (heap_free h (einfo e) false)
    | (None, f1) => (f1, h)
    end end.
Definition error_clear (s:equeue) : equeue :=
  let '(f1,h1) := clear_loop (S (Z.to_nat (fsize (q s)))) (q s) (hp s) in {| q := fifo_clear f1; hp := h1 |}.

