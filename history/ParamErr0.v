(* C05: a typed reader never reports failure silently (except the one recorded finding), and which error it queues *)
From Coq Require Import Bool List NArith ZArith Lia.
From M Require LexModel MatchModel FmtModel.
From M Require Import ParserModel.
Import ListNotations.
Local Open Scope Z_scope.

Lemma err_error_push c code info : cmd_error (error_push c code info) = true.
Proof. unfold error_push. destruct (_ =? qcap c); reflexivity. Qed.
(* the newest queue entry after a push: the code, or -350 when the queue was full *)
Definition pushed (c c1:ctx) (code:Z) : Prop := c1 = error_push c code None.

(* why a read failed *)
Inductive why (c c1:ctx) (mandatory:bool) : Prop :=
| W_reported : cmd_error c1 = true -> why c c1 mandatory
| W_absent : mandatory = false -> pd_len c <= pd_pos c -> c1 = c -> why c c1 mandatory.

Lemma parameter_fail c m c1 t : parameter c m = (c1, false, t) -> why c c1 m.
Proof.
  unfold parameter. destruct (Z.leb_spec (pd_len c) (pd_pos c)) as [Habs|_].
  - destruct m; intro H; injection H as <- _.
    + apply W_reported, err_error_push.
    + now apply W_absent.
  - destruct (negb (input_count c =? 0)).
    + destruct (LexModel.ret _ =? 0); [intro H; injection H as <- _; apply W_reported, err_error_push|].
      destruct (tok_valid _); intro H; [discriminate|]. injection H as <- _. apply W_reported, err_error_push.
    + destruct (tok_valid _); intro H; [discriminate|]. injection H as <- _. apply W_reported, err_error_push.
Qed.
(* the specific codes of SCPI_Parameter *)
Lemma parameter_missing c : pd_len c <= pd_pos c -> parameter c true = (error_push c (-109) None, false, {| LexModel.ty := LexModel.T_UNKNOWN; LexModel.ptr := 0; LexModel.len := 0 |}).
Proof. intro H. unfold parameter. destruct (Z.leb_spec (pd_len c) (pd_pos c)); [reflexivity|lia]. Qed.
Lemma parameter_absent c : pd_len c <= pd_pos c -> fst (parameter c false) = (c, false).
Proof. intro H. unfold parameter. destruct (Z.leb_spec (pd_len c) (pd_pos c)); [reflexivity|lia]. Qed.

(* the readers: failure is always reported, or the optional parameter is absent *)
Ltac via_parameter c m H :=
  let E := fresh "E" in destruct (parameter c m) as [[?c1 ?ok] ?t] eqn:E;
  match goal with ok : bool |- _ => destruct ok end;
  [| injection H as <- _; eapply parameter_fail; exact E ].

Lemma why_later c c1 c2 m : why c c1 m -> cmd_error c2 = true -> why c c2 m.
Proof. intros _ H. now apply W_reported. Qed.

Lemma param_to_choice_fail c t o c2 v : param_to_choice c t o = (c2, false, v) -> cmd_error c2 = true.
Proof.
  unfold param_to_choice. destruct (LexModel.ty t); try (intro H; injection H as <- _; apply err_error_push).
  destruct (choice_lookup _ _); intro H; [discriminate|]. injection H as <- _. apply err_error_push.
Qed.
Theorem param_bool_fail c m c1 v : param_bool c m = (c1, false, v) -> why c c1 m.
Proof.
  unfold param_bool. intro H. destruct (parameter c m) as [[c0 ok] t] eqn:E. destruct ok; [|injection H as <- _; eapply parameter_fail; exact E].
  destruct (LexModel.ty t); try (destruct (param_to_int c0 t 32 true); discriminate);
  (destruct (param_to_choice c0 t bool_def) as [[c2 r] x] eqn:Ec; injection H as <- -> _; apply W_reported, (param_to_choice_fail _ _ _ _ _ Ec)).
Qed.
Theorem param_choice_fail c m c1 v : param_choice c m = (c1, false, v) -> why c c1 m.
Proof.
  unfold param_choice. intro H. destruct (parameter c m) as [[c0 ok] t] eqn:E. destruct ok; [|injection H as <- _; eapply parameter_fail; exact E].
  apply W_reported, (param_to_choice_fail _ _ _ _ _ H).
Qed.
Theorem param_chars_fail c m c1 v : param_chars c m = (c1, false, v) -> why c c1 m.
Proof.
  unfold param_chars. intro H. destruct (parameter c m) as [[c0 ok] t] eqn:E. destruct ok; [discriminate|]. injection H as <- _. eapply parameter_fail; exact E.
Qed.
Theorem param_text_fail c b m c1 v nul : param_text c b m = (c1, false, v, nul) -> why c c1 m.
Proof.
  unfold param_text. intro H. destruct (parameter c m) as [[c0 ok] t] eqn:E. destruct ok; [|injection H as <- _; eapply parameter_fail; exact E].
  destruct (is_quote _); [destruct (copy_loop _ _ _ _ _ _ _ _); discriminate|]. injection H as <- _. apply W_reported, err_error_push.
Qed.
Theorem param_block_fail c m c1 v : param_block c m = (c1, false, v) -> why c c1 m.
Proof.
  unfold param_block. intro H. destruct (parameter c m) as [[c0 ok] t] eqn:E. destruct ok; [|injection H as <- _; eapply parameter_fail; exact E].
  destruct (LexModel.ty t); try discriminate; injection H as <- _; apply W_reported, err_error_push.
Qed.
Theorem param_fp_fail c dbl m c1 v : param_fp c dbl m = (c1, false, v) -> why c c1 m.
Proof.
  unfold param_fp. intro H. destruct (parameter c m) as [[c0 ok] t] eqn:E. destruct ok; [|injection H as <- _; eapply parameter_fail; exact E].
  destruct (is_number _ false); [discriminate|]. destruct (is_number _ true); injection H as <- _; apply W_reported, err_error_push.
Qed.
(* SCPI_ParamNumber: on the current tree a parameter of a non-numeric type fails with no error (observation 6) *)
Definition strtok : ctx :=
  {| cmds := []; mem := [34;97;34]%N; cap := 256; first_output := true; output_count := 0; input_count := 0; cmd_error := false; arb_rem := 0;
     pd_off := 0; pd_len := 3; pd_pos := 0; cur := None; raw_off := 0; raw_len := 0; queue := []; qcap := 4; qma := false; trace := [] |}.
Example param_number_fail_refuted :
  let '(c1, ok, _) := param_number strtok true in ok = false /\ cmd_error c1 = false /\ queue c1 = [].
Proof. vm_compute. auto. Qed.
(* integers: the same, except that a numeric token in which strtol/strtoul converts nothing (".5") fails silently *)
Theorem param_int_fail c w s m c1 v : param_int c w s m = (c1, false, v) ->
  why c c1 m \/ (exists t, parameter c m = (c1, true, t) /\ is_number (LexModel.ty t) false = true /\ fst (param_to_int c1 t w s) = false).
Proof.
  unfold param_int. intro H. destruct (parameter c m) as [[c0 ok] t] eqn:E. destruct ok; [|left; injection H as <- _; eapply parameter_fail; exact E].
  destruct (is_number (LexModel.ty t) false) eqn:En.
  - destruct (param_to_int c0 t w s) as [r x] eqn:Ep. injection H as <- -> _. right. exists t. rewrite Ep. auto.
  - left. destruct (is_number _ true); injection H as <- _; apply W_reported, err_error_push.
Qed.
Print Assumptions param_int_fail.

(* the recorded finding: ".5" through an integer reader fails with no error of its own *)
Definition dot5 : ctx :=
  {| cmds := []; mem := [46;53]%N; cap := 256; first_output := true; output_count := 0; input_count := 0; cmd_error := false; arb_rem := 0;
     pd_off := 0; pd_len := 2; pd_pos := 0; cur := None; raw_off := 0; raw_len := 0; queue := []; qcap := 4; qma := false; trace := [] |}.
Example param_int_silent_refuted :
  let '(c1, ok, _) := param_int dot5 32 true true in ok = false /\ cmd_error c1 = false /\ queue c1 = [].
Proof. vm_compute. auto. Qed.
