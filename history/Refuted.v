From Coq Require Import Bool List NArith ZArith.
From M Require Import LexModel MatchModel FmtModel ParserModel.
Import ListNotations.
Local Open Scope Z_scope.
Definition s (l:list Z) : list N := map Z.to_N l.
(* commands: E? emits 3 then fails; A? emits 1; N? emits nothing *)
Definition cmdsx : list (list N * Z * list op) :=
  [ (s [69;63], 0, [RI32 3; RETERR]); (s [65;63], 1, [RI32 1]); (s [78;63], 2, []) ].
Definition c0 : ctx := {| cmds := cmdsx; mem := []; cap := 64; first_output := false; output_count := 0; input_count := 0; cmd_error := false; arb_rem := 0;
   pd_off := 0; pd_len := 0; pd_pos := 0; cur := None; raw_off := 0; raw_len := 0; queue := []; qcap := 4; qma := false; trace := [] |}.
Definition writes (c:ctx) : list N := flat_map (fun e => match e with EvW b => b | _ => [] end) (rev (trace c)).
Definition descs (_:Z) : list N := [].
(* "E?;A?\n" produces "31\r\n": no separator between the two responding units *)
Example framing_refuted_1 : writes (scpi_input c0 (s [69;63;59;65;63;10]) descs) = s [51;49;13;10].
Proof. vm_compute. reflexivity. Qed.
(* "N?;A?\n" produces ";1\r\n": a separator with no response unit on its left *)
Example framing_refuted_2 : writes (scpi_input c0 (s [78;63;59;65;63;10]) descs) = s [59;49;13;10].
Proof. vm_compute. reflexivity. Qed.
