(* C09: nothing but the error queue (and the status registers, modelled separately) carries over:
   the scratch state of the context never influences a message *)
From Coq Require Import Bool List NArith ZArith Lia.
From M Require LexModel MatchModel FmtModel.
From M Require Import ParserModel.
Import ListNotations.
Local Open Scope Z_scope.

(* one iteration of the unit loop of SCPI_Parse *)
Definition loop_body (c:ctx) (off len:Z) (prev:option (Z*Z)) (result:bool) (descs:Z -> bytes) : ctx * option (Z*Z) * bool * Z :=
  let u := LexModel.detect_unit (slice (mem c) off len) in
  let r := LexModel.u_consumed u in
  let h := LexModel.u_hdr u in
  let '(c1, prev1, result1) :=
    match LexModel.ty h with
    | LexModel.T_INVALID => (error_push c (-101) None, prev, false)
    | _ =>
      if 0 <? LexModel.len h then
        let '(m1, hp, hl) := compose (mem c) prev (off + LexModel.ptr h) (LexModel.len h) in
        let c' := upd_mem c m1 in
        match find_cmd c' (slice m1 hp hl) with
        | Some e =>
            let d := LexModel.u_data u in
            let c'' := upd_unit c' e (off + LexModel.ptr d) (LexModel.len d) hp hl in
            let '(c3, res) := process_command c'' descs in
            (c3, Some (hp, hl), result && res)
        | None =>
            let r2 := trim_crlf m1 off (Z.to_nat r) in
            (error_push c' (-113) (Some (dropm m1 off, r2)), prev, false)
        end
      else (c, prev, result)
    end in
  (c1, prev1, result1, r).
Lemma parse_loop_S f c off len prev result descs :
  parse_loop (S f) c off len prev result descs =
  let '(c1, prev1, result1, r) := loop_body c off len prev result descs in
  if r <? len then parse_loop f c1 (off + r) (len - r) prev1 result1 descs else (c1, result1).
Proof.
  cbn [parse_loop]. unfold loop_body. cbv zeta.
  match goal with |- (match ?X with _ => _ end) = _ => destruct X as [[? ?] ?] end. reflexivity.
Qed.

(* everything except the scratch fields: command table, input buffer, error queue, and the ghost trace.
   Scratch = output_count, input_count, cmd_error, arb_rem, the parameter cursor pd_*, the matched entry cur,
   the effective-header region raw_*; first_output is re-armed by every message. *)
Definition E (c c':ctx) : Prop :=
  cmds c = cmds c' /\ mem c = mem c' /\ cap c = cap c' /\ queue c = queue c' /\ qcap c = qcap c' /\ qma c = qma c' /\
  trace c = trace c' /\ first_output c = first_output c'.
Lemma E_refl c : E c c. Proof. unfold E. repeat split. Qed.
Lemma E_error_push c c' code info : E c c' -> E (error_push c code info) (error_push c' code info).
Proof.
  intros (A1 & A2 & A3 & A4 & A5 & A6 & A7 & A8). unfold error_push. rewrite A4, A5.
  destruct (Z.of_nat (length (queue c')) =? qcap c'); unfold E; cbn; rewrite ?A1, ?A2, ?A3, ?A4, ?A5, ?A6, ?A7, ?A8; repeat split.
Qed.
Lemma E_ev c c' e : E c c' -> E (ev c e) (ev c' e).
Proof. intros (A1 & A2 & A3 & A4 & A5 & A6 & A7 & A8). unfold E. cbn. rewrite A7. repeat split; assumption. Qed.
Lemma E_upd_mem c c' m : E c c' -> E (upd_mem c m) (upd_mem c' m).
Proof. intros (A1 & A2 & A3 & A4 & A5 & A6 & A7 & A8). unfold E. cbn. repeat split; assumption. Qed.

(* once a unit has matched, the two contexts agree on everything processCommand reads before it resets the rest *)
Definition F (c c':ctx) : Prop :=
  cmds c = cmds c' /\ mem c = mem c' /\ cap c = cap c' /\ first_output c = first_output c' /\
  pd_off c = pd_off c' /\ pd_len c = pd_len c' /\ pd_pos c = pd_pos c' /\ cur c = cur c' /\ raw_off c = raw_off c' /\ raw_len c = raw_len c' /\
  queue c = queue c' /\ qcap c = qcap c' /\ qma c = qma c' /\ trace c = trace c'.
Lemma unit_start_F c c' e po pl ro rl : E c c' -> F (upd_unit c e po pl ro rl) (upd_unit c' e po pl ro rl).
Proof. intros (A1 & A2 & A3 & A4 & A5 & A6 & A7 & A8). unfold F. cbn. repeat split; assumption. Qed.
Lemma process_command_F c c' d : F c c' -> cur c <> None -> process_command c d = process_command c' d.
Proof.
  intros (A1 & A2 & A3 & A4 & A5 & A6 & A7 & A8 & A9 & A10 & A11 & A12 & A13 & A14) Hn.
  destruct c, c'. cbn in *. subst. unfold process_command. cbn [cur]. destruct cur0 as [[[pat tag] script]|]; [|congruence].
  cbv zeta. cbn [mem raw_off raw_len first_output].
  destruct (negb first_output0 && (getm mem0 (raw_off0 + raw_len0 - 1) =? 63)%N); reflexivity.
Qed.

Lemma body_isolated c c' off len prev result d : E c c' ->
  let '(c1, prev1, result1, r) := loop_body c off len prev result d in
  let '(c1', prev1', result1', r') := loop_body c' off len prev result d in
  E c1 c1' /\ prev1 = prev1' /\ result1 = result1' /\ r = r'.
Proof.
  intro HE. pose proof HE as (A1 & A2 & A3 & A4 & A5 & A6 & A7 & A8). unfold loop_body. cbv zeta. rewrite <- A2.
  set (u := LexModel.detect_unit (slice (mem c) off len)).
  assert (Hmain : LexModel.ty (LexModel.u_hdr u) <> LexModel.T_INVALID ->
    let '(c1, prev1, result1, r) :=
      (let '(c1, prev1, result1) :=
        if 0 <? LexModel.len (LexModel.u_hdr u) then
          let '(m1, hp, hl) := compose (mem c) prev (off + LexModel.ptr (LexModel.u_hdr u)) (LexModel.len (LexModel.u_hdr u)) in
          match find_cmd (upd_mem c m1) (slice m1 hp hl) with
          | Some e => let '(c3, res) := process_command (upd_unit (upd_mem c m1) e (off + LexModel.ptr (LexModel.u_data u)) (LexModel.len (LexModel.u_data u)) hp hl) d in
                      (c3, Some (hp, hl), result && res)
          | None => (error_push (upd_mem c m1) (-113) (Some (dropm m1 off, trim_crlf m1 off (Z.to_nat (LexModel.u_consumed u)))), prev, false)
          end
        else (c, prev, result) in (c1, prev1, result1, LexModel.u_consumed u)) in
    let '(c1', prev1', result1', r') :=
      (let '(c1, prev1, result1) :=
        if 0 <? LexModel.len (LexModel.u_hdr u) then
          let '(m1, hp, hl) := compose (mem c) prev (off + LexModel.ptr (LexModel.u_hdr u)) (LexModel.len (LexModel.u_hdr u)) in
          match find_cmd (upd_mem c' m1) (slice m1 hp hl) with
          | Some e => let '(c3, res) := process_command (upd_unit (upd_mem c' m1) e (off + LexModel.ptr (LexModel.u_data u)) (LexModel.len (LexModel.u_data u)) hp hl) d in
                      (c3, Some (hp, hl), result && res)
          | None => (error_push (upd_mem c' m1) (-113) (Some (dropm m1 off, trim_crlf m1 off (Z.to_nat (LexModel.u_consumed u)))), prev, false)
          end
        else (c', prev, result) in (c1, prev1, result1, LexModel.u_consumed u)) in
    E c1 c1' /\ prev1 = prev1' /\ result1 = result1' /\ r = r').
  { intros _. destruct (0 <? LexModel.len (LexModel.u_hdr u)); [|split; [exact HE|repeat split]].
    destruct (compose (mem c) prev _ _) as [[m1 hp] hl].
    assert (Hf : find_cmd (upd_mem c m1) (slice m1 hp hl) = find_cmd (upd_mem c' m1) (slice m1 hp hl)) by (unfold find_cmd; cbn [cmds upd_mem]; now rewrite A1).
    rewrite <- Hf. destruct (find_cmd (upd_mem c m1) (slice m1 hp hl)) as [e|].
    - set (po := off + LexModel.ptr (LexModel.u_data u)). set (pl := LexModel.len (LexModel.u_data u)).
      rewrite (process_command_F (upd_unit (upd_mem c m1) e po pl hp hl) (upd_unit (upd_mem c' m1) e po pl hp hl) d) by (try (apply unit_start_F, E_upd_mem, HE); discriminate).
      destruct (process_command _ d) as [c3 res]. split; [apply E_refl|repeat split].
    - split; [apply E_error_push, E_upd_mem, HE|repeat split]. }
  destruct (LexModel.ty (LexModel.u_hdr u)) eqn:Ety; try (apply Hmain; discriminate).
  split; [apply E_error_push, HE|repeat split].
Qed.

Lemma loop_isolated fuel : forall c c' off len prev result d, E c c' ->
  let '(c1, res) := parse_loop fuel c off len prev result d in
  let '(c1', res') := parse_loop fuel c' off len prev result d in
  E c1 c1' /\ res = res'.
Proof.
  induction fuel as [|f IH]; intros c c' off len prev result d HE; [cbn; auto|].
  rewrite !parse_loop_S. pose proof (body_isolated c c' off len prev result d HE) as Hb.
  destruct (loop_body c off len prev result d) as [[[c1 prev1] result1] r].
  destruct (loop_body c' off len prev result d) as [[[c1' prev1'] result1'] r'].
  destruct Hb as (H1 & <- & <- & <-). destruct (r <? len); [apply IH, H1|auto].
Qed.

(* C09: a message behaves the same whatever scratch state the previous message (or handler) left behind:
   same return value, same events (handler starts, parameters read, bytes written, flushes, errors), same queue and buffer *)
Theorem message_isolated c c' len d :
  cmds c = cmds c' -> mem c = mem c' -> cap c = cap c' -> queue c = queue c' -> qcap c = qcap c' -> qma c = qma c' -> trace c = trace c' ->
  let '(c1, res) := scpi_parse c len d in let '(c1', res') := scpi_parse c' len d in E c1 c1' /\ res = res'.
Proof.
  intros A1 A2 A3 A4 A5 A6 A7. unfold scpi_parse.
  assert (HE : E (upd_out c true 0 (arb_rem c)) (upd_out c' true 0 (arb_rem c'))) by (unfold E; cbn; repeat split; assumption).
  pose proof (loop_isolated (S (Z.to_nat len)) _ _ 0 len None true d HE) as H.
  destruct (parse_loop (S (Z.to_nat len)) (upd_out c true 0 (arb_rem c)) 0 len None true d) as [c1 res].
  destruct (parse_loop (S (Z.to_nat len)) (upd_out c' true 0 (arb_rem c')) 0 len None true d) as [c1' res'].
  destruct H as (HE1 & <-). split; [|reflexivity]. pose proof HE1 as (_ & _ & _ & _ & _ & _ & _ & B8). rewrite B8.
  destruct (negb (first_output c1')); [|exact HE1]. apply E_ev. cbn [write]. apply E_ev. exact HE1.
Qed.
Print Assumptions message_isolated.

(* ---------- the same for whole SCPI_Input calls (any chunking) ---------- *)
Lemma parse_E c c' len d : E c c' ->
  let '(c1, res) := scpi_parse c len d in let '(c1', res') := scpi_parse c' len d in E c1 c1' /\ res = res'.
Proof. intros (A1 & A2 & A3 & A4 & A5 & A6 & A7 & _). now apply message_isolated. Qed.

Lemma input_loop_isolated fuel : forall c c' tot result d, E c c' ->
  let '(c1, res) := input_loop fuel c tot result d in let '(c1', res') := input_loop fuel c' tot result d in E c1 c1' /\ res = res'.
Proof.
  induction fuel as [|f IH]; intros c c' tot result d HE; [cbn; auto|]. cbn [input_loop].
  pose proof HE as (_ & A2 & _). rewrite <- A2.
  set (u := LexModel.detect_unit (dropm (mem c) tot)).
  destruct (LexModel.u_term u).
  - destruct (_ && _); [auto|]. destruct (_ <=? _); [auto|]. apply IH, HE.
  - pose proof (parse_E c c' (tot + LexModel.u_consumed u) d HE) as Hp.
    destruct (scpi_parse c (tot + LexModel.u_consumed u) d) as [c1 res]. destruct (scpi_parse c' (tot + LexModel.u_consumed u) d) as [c1' res'].
    destruct Hp as (H1 & <-). pose proof H1 as (_ & B2 & _). rewrite <- B2. apply IH, E_upd_mem, H1.
  - destruct (_ && _); [auto|]. destruct (_ <=? _); [auto|]. apply IH, HE.
Qed.

Theorem input_isolated c c' data d : E c c' -> E (scpi_input c data d) (scpi_input c' data d).
Proof.
  intro HE. pose proof HE as (_ & A2 & A3 & _). unfold scpi_input. rewrite <- A2, <- A3.
  destruct (Z.of_nat (length data) =? 0).
  - pose proof (parse_E c c' (Z.of_nat (length (mem c))) d HE) as Hp.
    destruct (scpi_parse c (Z.of_nat (length (mem c))) d) as [c1 res]. destruct (scpi_parse c' (Z.of_nat (length (mem c))) d) as [c1' res'].
    destruct Hp as (H1 & <-). apply E_ev, E_upd_mem, H1.
  - destruct (_ <? _).
    + apply E_ev, E_error_push, E_upd_mem, HE.
    + pose proof (input_loop_isolated (S (S (length (mem (upd_mem c (mem c ++ data)))))) (upd_mem c (mem c ++ data)) (upd_mem c' (mem c ++ data)) 0 true d (E_upd_mem c c' _ HE)) as Hl.
      cbn [mem upd_mem] in *.
      destruct (input_loop _ (upd_mem c (mem c ++ data)) 0 true d) as [c2 res]. destruct (input_loop _ (upd_mem c' (mem c ++ data)) 0 true d) as [c2' res'].
      destruct Hl as (H1 & <-). apply E_ev, H1.
Qed.
(* any sequence of input calls *)
Corollary inputs_isolated d chunks : forall c c', E c c' ->
  E (fold_left (fun x data => scpi_input x data d) chunks c) (fold_left (fun x data => scpi_input x data d) chunks c').
Proof. induction chunks as [|x r IH]; intros c c' HE; [exact HE|]. cbn [fold_left]. apply IH, input_isolated, HE. Qed.
Print Assumptions inputs_isolated.

