(* Extraction of the executable models for the correspondence check.
   ExtrOcamlBasic only: bool, option, list, prod, unit, sumbool map to OCaml's own types;
   nat, positive, N, Z stay the extracted inductives.  No Extract Constant / Extract Inductive here. *)
From M Require LexModel MatchModel FmtModel ParserModel RegModel CmdModel HeapProof QStatic ErrQueue NumDecode GFmt Dtostre BufModel ExprModel Generated Glue.
Require Import Extraction ExtrOcamlBasic.
Separate Extraction
  LexModel.lex_ws LexModel.lex_header LexModel.lex_chardata LexModel.lex_decimal LexModel.lex_suffix LexModel.lex_nondecimal
  LexModel.lex_string LexModel.lex_block LexModel.lex_expr LexModel.lex_newline LexModel.lex_comma LexModel.lex_semicolon
  LexModel.parse_program_data LexModel.detect_unit
  MatchModel.matchCommand
  FmtModel.int2str FmtModel.result_error
  ParserModel.scpi_input ParserModel.scpi_parse ParserModel.ctx ParserModel.op ParserModel.event ParserModel.native_le
  RegModel.push RegModel.pop RegModel.clear RegModel.wr RegModel.cls
  CmdModel.cmd_do CmdModel.cmd_resp CmdModel.cmd_text CmdModel.reg_bits
  QStatic.error_pop_release QStatic.error_clear
  ErrQueue.push ErrQueue.pop ErrQueue.clear
  GFmt.fmt_double GFmt.fmt_float Dtostre.layout
  BufModel.array_binary BufModel.double_to_str BufModel.float_to_str BufModel.number_to_str
  ExprModel.numlist_entry_int ExprModel.chanlist_entry
  NumDecode.strtod_bits NumDecode.strtof_bits
  Generated.gen_err_desc Generated.gen_err_fallback Generated.gen_units Generated.gen_desc_max
  Glue.desc_of Glue.descz Glue.eq_push_ex Glue.eq_init Glue.eq_count Glue.eq_systerr Glue.hq_init Glue.hq_push_ex Glue.hq_count Glue.hq_systerr Glue.numlist_entry_tok Glue.numlist_entry_double.
