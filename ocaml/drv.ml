(* Model driver of the correspondence check: reads the same case lines as harness/impl.c and prints
   the same result lines, computed by the code extracted from the Coq models (ocaml/Extract.v).
   Lines whose kind or operations the model does not cover are answered with "?" and skipped by the
   comparison. *)
open BinNums
module L = Stdlib.List
module S = Stdlib.String

let rec pos_to_int = function Coq_xH -> 1 | Coq_xO p -> 2 * pos_to_int p | Coq_xI p -> 2 * pos_to_int p + 1
let z_to_int = function Z0 -> 0 | Zpos p -> pos_to_int p | Zneg p -> - (pos_to_int p)
let n_to_int = function N0 -> 0 | Npos p -> pos_to_int p
let rec int_to_pos n = if n = 1 then Coq_xH else if n land 1 = 0 then Coq_xO (int_to_pos (n lsr 1)) else Coq_xI (int_to_pos (n lsr 1))
let int_to_z n = if n = 0 then Z0 else if n > 0 then Zpos (int_to_pos n) else Zneg (int_to_pos (-n))
let int_to_n n = if n = 0 then N0 else Npos (int_to_pos n)
let rec nat_of n = if n <= 0 then Datatypes.O else Datatypes.S (nat_of (n-1))
let zadd = BinInt.Z.add and zmul = BinInt.Z.mul and zdiv = BinInt.Z.div and zmod = BinInt.Z.modulo
let z_of_string s =
  let neg = S.length s > 0 && s.[0] = '-' in
  let ds = if neg then S.sub s 1 (S.length s - 1) else s in
  let ten = int_to_z 10 in
  let v = ref Z0 in
  S.iter (fun ch -> v := zadd (zmul !v ten) (int_to_z (Char.code ch - 48))) ds;
  if neg then BinInt.Z.opp !v else !v
let rec string_of_z z =
  let big = int_to_z 1000000000 in
  match z with
  | Z0 -> "0"
  | Zneg p -> "-" ^ string_of_z (Zpos p)
  | Zpos _ ->
    let q = zdiv z big and r = zmod z big in
    if q = Z0 then string_of_int (z_to_int r) else string_of_z q ^ Printf.sprintf "%09d" (z_to_int r)
let z_of_hex s = let v = ref Z0 in S.iter (fun ch -> v := zadd (zmul !v (int_to_z 16)) (int_to_z (int_of_string ("0x" ^ S.make 1 ch)))) s; !v
let hexval c = match c with '0'..'9' -> Char.code c - 48 | 'a'..'f' -> Char.code c - 87 | 'A'..'F' -> Char.code c - 55 | _ -> 0
let unhex_ints h = if h = "-" then [] else L.init (S.length h / 2) (fun i -> hexval h.[2*i] * 16 + hexval h.[2*i+1])
let unhex h = L.map int_to_n (unhex_ints h)
let unhexz h = L.map int_to_z (unhex_ints h)
let hex ns = S.concat "" (L.map (fun n -> Printf.sprintf "%02x" (n_to_int n)) ns)
let hexz zs = S.concat "" (L.map (fun z -> Printf.sprintf "%02x" (z_to_int z land 255)) zs)
let b01 s = s = "1"
let bi b = if b then 1 else 0
let zs l = S.concat "," (L.map string_of_z l)

exception Unsupported

(* ------------------------------------------------------------------ parser scenarios *)
open ParserModel
let pattern_bytes n sd = L.init n (fun i -> int_to_n ((sd + i * 7) land 255))
let rec chunks_of k l = if l = [] then [] else
  let rec take j l = if j = 0 then ([], l) else (match l with x :: r -> let (a, b) = take (j-1) r in (x :: a, b) | [] -> ([], [])) in
  let (a, b) = take k l in a :: chunks_of k b
let parse_op s =
  match S.split_on_char ':' s with
  | ["PI32";m] -> PI32 (b01 m) | ["PU32";m] -> PU32 (b01 m) | ["PI64";m] -> PI64 (b01 m) | ["PU64";m] -> PU64 (b01 m)
  | ["PBOOL";m] -> PBOOL (b01 m) | ["PCHOICE";m] -> PCHOICE (b01 m) | ["PCHARS";m] -> PCHARS (b01 m)
  | ["PTEXT";bl;m] -> PTEXT (int_to_z (int_of_string bl), b01 m) | ["PBLOCK";m] -> PBLOCK (b01 m) | ["PD";m] -> PD (b01 m) | ["PF";m] -> PF (b01 m) | ["PNUM";m] -> PNUM (b01 m)
  | ["RI32";v] -> RI32 (z_of_string v) | ["RU32";v;b] -> RU32 (z_of_string v, int_to_z (int_of_string b))
  | ["RI64";v] -> RI64 (z_of_string v) | ["RU64";v;b] -> RU64 (z_of_string v, int_to_z (int_of_string b))
  | ["RBOOL";b] -> RBOOL (b01 b) | ["RTEXT";h] -> RTEXT (unhex h) | ["RCHARS";h] -> RCHARS (unhex h)
  | ["RTEXT"] -> RTEXT [] | ["RCHARS"] -> RCHARS [] | ["RBLOCK"] -> RBLOCK [] | ["RDATA"] -> RDATA []
  | ["RBLOCK";h] -> RBLOCK (unhex h) | ["RHDR";n] -> RHDR (z_of_string n) | ["RDATA";h] -> RDATA (unhex h)
  | ["PUSH";c] -> PUSH (int_to_z (int_of_string c)) | ["NUMS";n;d] -> NUMS (int_to_z (int_of_string n), int_to_z (int_of_string d))
  | ["SYSTERR"] -> SYSTERR | ["RETERR"] -> RETERR
  | ["RI8";v] -> RI8 (z_of_string v) | ["RU8";v;b] -> RU8 (z_of_string v, int_to_z (int_of_string b))
  | ["RI16";v] -> RI16 (z_of_string v) | ["RU16";v;b] -> RU16 (z_of_string v, int_to_z (int_of_string b))
  | ["RMNEM";h] -> RMNEM (unhex h) | ["RMNEM"] -> RMNEM []
  | ["RD";b] -> RD (z_of_string b) | ["RF";b] -> RF (z_of_string b)
  | ["ISCMD";h] -> ISCMD (unhex h)
  | ["RARR";size;fmt;h] ->
      let sz = int_of_string size in
      let rec take k l = if k = 0 then ([], l) else (match l with x :: r -> let (a, b) = take (k-1) r in (x :: a, b) | [] -> ([], [])) in
      let rec elems l = if L.length l < sz then [] else
        let (e, rest) = take sz l in
        (L.fold_right (fun b acc -> zadd (zmul acc (int_to_z 256)) (int_to_z b)) e Z0) :: elems rest in
      RARR (int_to_z sz, int_to_z (int_of_string fmt), elems (unhex_ints h))
  | ["PARR";ty;cap;m] ->
      let k = (match ty with "i32" -> 13 | "u32" -> 14 | "i64" -> 15 | "u64" -> 16 | "d" -> 17 | _ -> 18) in
      PARR (int_to_z k, int_to_z (int_of_string cap), b01 m)
  | ["PEXPRN";idx;m] -> PEXPRN (int_to_z (int_of_string idx), b01 m)
  | ["PEXPRC";idx;cap;m] -> PEXPRC (int_to_z (int_of_string idx), int_to_z (int_of_string cap), b01 m)
  | _ -> raise Unsupported
(* operations the driver expands into model operations: big pattern blocks *)
let parse_ops s =
  match S.split_on_char ':' s with
  | ["RBIG"; n; sd] -> [RBLOCK (pattern_bytes (int_of_string n) (int_of_string sd))]
  | ["RBIGS"; n; sd; ch] ->
      let k = int_of_string ch in
      RHDR (int_to_z (int_of_string n)) :: (if k <= 0 then [] else L.map (fun d -> RDATA d) (chunks_of k (pattern_bytes (int_of_string n) (int_of_string sd))))
  | _ -> [parse_op s]
let print_trace buf (tr:event list) =
  let wbuf = Buffer.create 64 in
  let flushw () = if Buffer.length wbuf > 0 then (Buffer.add_string buf " W"; Buffer.add_buffer buf wbuf; Buffer.clear wbuf) in
  L.iter (fun e -> match e with
    | EvW b -> Buffer.add_string wbuf (hex b)
    | _ -> flushw ();
      (match e with
       | EvH (tag, h) -> Buffer.add_string buf (Printf.sprintf " H%d:%s" (z_to_int tag) (hex h))
       | EvP (k, ok, v) ->
           let ki = z_to_int k in
           Buffer.add_string buf (Printf.sprintf " P%d:%d:%s" ki (bi ok) (zs v));
           (* the array readers also report how many elements were stored *)
           if ki >= 13 && ki <= 18 && ok then Buffer.add_string buf (Printf.sprintf ";%d" (L.length v))
       | EvI r -> Buffer.add_string buf (Printf.sprintf " I%d" (bi r))
       | EvF -> Buffer.add_string buf " F"
       | EvE c -> Buffer.add_string buf (Printf.sprintf " E%d" (z_to_int c))
       | EvR r -> Buffer.add_string buf (Printf.sprintf " R%d" (bi r))
       | EvNum (ok, v) -> Buffer.add_string buf (Printf.sprintf " N%d:%s" (bi ok) (zs v))
       | EvW _ -> ())) tr;
  flushw ()
let descs z = Glue.desc_of z
let run_scenario line =
  let parts = S.split_on_char '|' line in
  let cap = ref 0 and qcap = ref 0 and cmdl = ref [] and st = ref None in
  let buf = Buffer.create 256 in
  Buffer.add_string buf "S";
  let fresh () = { cmds = L.rev !cmdl; mem = []; cap = int_to_z !cap; first_output = true; output_count = Z0; input_count = Z0; cmd_error = false; arb_rem = Z0;
                   pd_off = Z0; pd_len = Z0; pd_pos = Z0; cur = None; raw_off = Z0; raw_len = Z0; queue = []; qcap = int_to_z !qcap; qma = false; trace = [] } in
  L.iter (fun part ->
    match S.split_on_char ' ' part with
    | "S" :: c :: q :: _ -> cap := int_of_string c; qcap := int_of_string q
    | ["C"; tag; pat; script] ->
        let ops = if script = "-" || script = "NULL" then [] else      (* NULL: entry without callback = a handler that does nothing; its H line is dropped by the projection *) L.concat (L.map parse_ops (S.split_on_char ';' script)) in
        cmdl := ((unhex pat, int_to_z (int_of_string tag)), ops) :: !cmdl
    | ["C"; tag; pat] -> cmdl := ((unhex pat, int_to_z (int_of_string tag)), []) :: !cmdl
    | ["I"; h] ->
        let c = match !st with Some c -> c | None -> fresh () in
        let c' = scpi_input c (unhex h) descs in
        print_trace buf (L.rev c'.trace);
        st := Some { c' with trace = [] }
    | ["L"; h] ->
        let c = match !st with Some c -> c | None -> fresh () in
        let data = unhex h in
        let (c', r) = scpi_parse { c with mem = data } (int_to_z (L.length data)) descs in
        print_trace buf (L.rev c'.trace); Buffer.add_string buf (Printf.sprintf " R%d" (bi r));
        st := Some { c' with trace = []; mem = c.mem }
    | _ -> ()) parts;
  (match !st with
   | Some c ->
       Buffer.add_string buf (" B" ^ hex c.mem);
       Buffer.add_string buf " G-";
       Buffer.add_string buf " |";
       L.iter (fun (code, info) -> Buffer.add_string buf (Printf.sprintf " Q%d" (z_to_int code));
                 match info with Some t -> Buffer.add_string buf (":" ^ hex t) | None -> ()) c.queue
   | None -> ());
  Buffer.contents buf

(* ------------------------------------------------------------------ lexer *)
let tyi (t:LexModel.ttype) : int = (Obj.magic t : int)
let termi (t:LexModel.term) : int = (Obj.magic t : int)
let run_lex off h =
  let all = unhex h in
  let rec drop n l = if n <= 0 then l else match l with [] -> [] | _ :: r -> drop (n-1) r in
  let l = drop off all in
  let open LexModel in
  let pr name (r:lexres) = Printf.sprintf " %s:%d,%d,%d,%d,%d" name (tyi r.tok.ty) (z_to_int r.tok.ptr) (z_to_int r.tok.len) (z_to_int r.ret) (z_to_int r.disp) in
  let u = detect_unit l in
  "LEX" ^ pr "ws" (lex_ws l) ^ pr "hdr" (lex_header l) ^ pr "chr" (lex_chardata l) ^ pr "dec" (lex_decimal l) ^ pr "suf" (lex_suffix l)
  ^ pr "nd" (lex_nondecimal l) ^ pr "str" (lex_string l) ^ pr "blk" (lex_block l) ^ pr "exp" (lex_expr l) ^ pr "nl" (lex_newline l)
  ^ pr "com" (lex_comma l) ^ pr "sem" (lex_semicolon l) ^ pr "pd" (parse_program_data l)
  ^ Printf.sprintf " unit:%d,%d,%d,%d,%d,%d,%d,%d,%d" (tyi u.u_hdr.ty) (z_to_int u.u_hdr.ptr) (z_to_int u.u_hdr.len)
      (tyi u.u_data.ty) (z_to_int u.u_data.ptr) (z_to_int u.u_data.len) (z_to_int u.u_n) (termi u.u_term) (z_to_int u.u_consumed)

(* ------------------------------------------------------------------ matcher *)
let run_match ph hh n dflt =
  let nums = if n < 0 then None else Some (L.init n (fun _ -> int_to_z (-99))) in
  match MatchModel.matchCommand (unhex ph) (unhex hh) nums (int_to_z dflt) with
  | MatchModel.Res (r, Some a) -> Printf.sprintf "MATCH %d:%s" (bi r) (zs a)
  | MatchModel.Res (r, None) -> Printf.sprintf "MATCH %d" (bi r)

(* ------------------------------------------------------------------ registers *)
let regs_all = RegModel.([STB;SRE;ESR;ESE;OPER;OPERE;OPERC;QUES;QUESE;QUESC])
let reg_noerr = ref false
let run_reg line =
  let open RegModel in
  let buf = Buffer.create 256 in Buffer.add_string buf "REG";
  let s = ref { rg = (fun _ -> N0); qlen = Z0; qcap = int_to_z 2 } in
  let show (s':st) evs =
    L.iter (function EvE c -> if not !reg_noerr then Buffer.add_string buf (Printf.sprintf " E%d" (z_to_int c)) | EvQ v -> Buffer.add_string buf (Printf.sprintf " Q%d" (n_to_int v))) evs;
    Buffer.add_string buf (Printf.sprintf " S%s;%d" (S.concat "," (L.map (fun r -> string_of_int (n_to_int (s'.rg r))) regs_all)) (z_to_int s'.qlen)) in
  let step (s', e) = s := s'; show s' e in
  (* an M part carries the abstract meaning of the command after '=': W:r:v, Z (no effect), RD:r (read-and-clear) *)
  let rec apply spec =
    match S.split_on_char ':' spec with
    | ["W"; r; v] -> step (wr !s (L.nth regs_all (int_of_string r)) (int_to_n (int_of_string v)))
    | ["B"; r; v] -> let rg = L.nth regs_all (int_of_string r) in
                     step (wr !s rg (BinNat.N.coq_lor ((!s).rg rg) (int_to_n (int_of_string v))))
    | ["L"] -> step (cls !s)
    | ["O"] -> step (pop !s)
    | ["Z"] -> show !s []
    | "K" :: name :: rest ->
        (* the command layer (CmdModel): state change, callbacks and the number a query reports *)
        let v = match rest with [x] -> int_to_n (int_of_string x) | _ -> N0 in
        let c = CmdModel.(match name with
          | "CLS" -> KCls | "ESE" -> KEse v | "ESEQ" -> KEseQ | "ESRQ" -> KEsrQ | "OPC" -> KOpc | "SRE" -> KSre v | "SREQ" -> KSreQ
          | "STBQ" -> KStbQ | "OPEREVQ" -> KOperEvQ | "OPERCONDQ" -> KOperCondQ | "OPERENQ" -> KOperEnQ | "OPEREN" -> KOperEn v
          | "QUESEVQ" -> KQuesEvQ | "QUESCONDQ" -> KQuesCondQ | "QUESENQ" -> KQuesEnQ | "QUESEN" -> KQuesEn v
          | "PRESET" -> KPreset | "ERRNEXTQ" -> KErrNextQ | "ERRCOUNTQ" -> KErrCountQ | _ -> raise Unsupported) in
        let r = CmdModel.cmd_text !s c in      (* the response message as the model defines it: decimal text by FmtModel.int2str, CR LF *)
        let (s', e) = CmdModel.cmd_do !s c in
        s := s';
        L.iter (function EvE c -> if not !reg_noerr then Buffer.add_string buf (Printf.sprintf " E%d" (z_to_int c)) | EvQ v -> Buffer.add_string buf (Printf.sprintf " Q%d" (n_to_int v))) e;
        (match r with Some t -> Buffer.add_string buf " W"; L.iter (fun z -> Buffer.add_string buf (Printf.sprintf "%02x" (z_to_int z))) t | None -> ());
        show s' []
    | _ -> raise Unsupported
  and _unused = () in
  L.iter (fun part ->
    match S.split_on_char ' ' part with
    | ["REG"; q] -> reg_noerr := false; s := { rg = (fun _ -> N0); qlen = Z0; qcap = int_to_z (int_of_string q) }
    | ["REGN"; q] -> reg_noerr := true; s := { rg = (fun _ -> N0); qlen = Z0; qcap = int_to_z (int_of_string q) }
    | ["W"; r; v] -> step (wr !s (L.nth regs_all (int_of_string r)) (int_to_n (int_of_string v)))
    | ["T"; r; v] -> step (CmdModel.reg_bits !s (L.nth regs_all (int_of_string r)) true (int_to_n (int_of_string v)))
    | ["U"; r; v] -> step (CmdModel.reg_bits !s (L.nth regs_all (int_of_string r)) false (int_to_n (int_of_string v)))
    | ["P"; c] -> step (push !s (int_to_z (int_of_string c)))
    | ["O"] -> step (pop !s)
    | ["C"] -> step (clear !s)
    | ["L"] -> step (cls !s)
    | ["M"; _; spec] -> apply spec
    | _ -> raise Unsupported) (S.split_on_char '|' line);
  Buffer.contents buf

(* ------------------------------------------------------------------ error queue histories *)
let flavor = ref "default"
let run_eq line =
  let buf = Buffer.create 256 in Buffer.add_string buf "EQ";
  let parts = S.split_on_char '|' line in
  if !flavor = "static" then begin
    let st = ref (Glue.hq_init (int_to_z 1) (int_to_z 1)) in
    let dump () = let h = (!st).QStatic.hp in
      Buffer.add_string buf (Printf.sprintf "/%d,%d,%s" (z_to_int h.HeapProof.hwr) (z_to_int h.HeapProof.hcount) (hexz h.HeapProof.hdata)) in
    L.iter (fun part ->
      (match S.split_on_char ' ' part with
      | ["EQ"; qs; hs] -> st := Glue.hq_init (int_to_z (int_of_string qs)) (int_to_z (int_of_string hs))
      | ["P"; code; info; len; _fail] ->
          let i = if info = "-" then None else if info = "=" then Some [Z0] else Some (unhexz info @ [Z0]) in
          st := Glue.hq_push_ex !st (int_to_z (int_of_string code)) i (int_to_z (int_of_string len));
          Buffer.add_string buf (Printf.sprintf " p%d" (z_to_int (Glue.hq_count !st))); dump ()
      | ["O"] ->
          let ((code, txt), s) = QStatic.error_pop_release !st in st := s;
          Buffer.add_string buf (Printf.sprintf " o%d" (z_to_int code));
          (match txt with None -> () | Some (p1, None) -> Buffer.add_string buf (":" ^ hexz p1) | Some (p1, Some p2) -> Buffer.add_string buf (":" ^ hexz p1 ^ hexz p2));
          dump ()
      | ["C"] -> st := QStatic.error_clear !st; Buffer.add_string buf (Printf.sprintf " c%d" (z_to_int (Glue.hq_count !st))); dump ()
      | ["N"] -> Buffer.add_string buf (Printf.sprintf " n%d" (z_to_int (Glue.hq_count !st))); dump ()
      | ["S"] -> let (s, out) = Glue.hq_systerr !st in st := s; Buffer.add_string buf (" s" ^ hexz out); dump ()
      | _ -> raise Unsupported)) parts
  end else begin
    let st = ref (Glue.eq_init (int_to_z 1)) in
    let noinfo = !flavor = "noinfo" in
    L.iter (fun part ->
      match S.split_on_char ' ' part with
      | ["EQ"; qs; _] -> st := Glue.eq_init (int_to_z (int_of_string qs))
      | ["P"; code; info; len; fail] ->
          let i = if info = "-" || noinfo then None else if info = "=" then Some [Z0] else Some (unhexz info @ [Z0]) in
          let ((s, _), _) = Glue.eq_push_ex !st (int_to_z (int_of_string code)) i (int_to_z (int_of_string len)) (fail <> "1") in
          st := s; Buffer.add_string buf (Printf.sprintf " p%d" (z_to_int (Glue.eq_count s)))
      | ["O"] ->
          let ((s, (code, txt)), _) = ErrQueue.pop !st in st := s;
          Buffer.add_string buf (Printf.sprintf " o%d" (z_to_int code));
          (match txt with None -> () | Some t -> Buffer.add_string buf (":" ^ hexz t))
      | ["C"] -> let (s, _) = ErrQueue.clear !st in st := s; Buffer.add_string buf (Printf.sprintf " c%d" (z_to_int (Glue.eq_count s)))
      | ["N"] -> Buffer.add_string buf (Printf.sprintf " n%d" (z_to_int (Glue.eq_count !st)))
      | ["S"] -> let (s, out) = Glue.eq_systerr !st in st := s; Buffer.add_string buf (" s" ^ hexz out)
      | _ -> raise Unsupported) parts
  end;
  Buffer.contents buf

(* ------------------------------------------------------------------ dispatch *)
let handle line =
  match S.split_on_char ' ' line with
  | "S" :: _ -> run_scenario line
  | ["LEX"; off; h] -> run_lex (int_of_string off) h
  | ["MATCH"; ph; hh; n; d] -> run_match ph hh (int_of_string n) (int_of_string d)
  | ["I2S"; w; hi; lo; len; base; sign] ->
      let v = zadd (zmul (z_of_string hi) (int_to_z 4294967296)) (z_of_string lo) in
      let ((s, nul), r) = FmtModel.int2str (int_to_z (int_of_string w)) v (int_to_z (int_of_string len)) (int_to_z (int_of_string base)) (sign = "1") in
      Printf.sprintf "I2S %s %d %d" (hexz s) (bi nul) (z_to_int r)
  | ["RERR"; code; info] ->
      if !flavor = "static" then "RERR skip" else
      let c = int_to_z (int_of_string code) in
      let i = if info = "-" || !flavor = "noinfo" then None else Some (unhexz info) in
      "RERR W" ^ hexz (FmtModel.result_error c (Glue.descz c) i Generated.gen_desc_max)
  | "REG" :: _ -> run_reg line
  | "REGN" :: _ -> run_reg line
  | "EQ" :: _ -> run_eq line
  | ["D2S"; bits; len] ->
      let (((s, nul), r), ub) = BufModel.double_to_str (z_of_hex bits) (int_to_z (int_of_string len)) in
      if ub then raise Unsupported else Printf.sprintf "D2S %s %d %d" (hexz s) (bi nul) (z_to_int r)
  | ["F2S"; bits; len] ->
      let (((s, nul), r), ub) = BufModel.float_to_str (z_of_hex bits) (int_to_z (int_of_string len)) in
      if ub then raise Unsupported else Printf.sprintf "F2S %s %d %d" (hexz s) (bi nul) (z_to_int r)
  | ["N2S"; "0"; bits; unit; len] ->
      let u = if unit = "-" then None else Some (L.init (S.length unit) (fun i -> int_to_z (Char.code unit.[i]))) in
      let ((b, r), o) = BufModel.number_to_str (z_of_hex bits) u (int_to_z (int_of_string len)) in
      if o then "N2S OVERFLOW" else
      Printf.sprintf "N2S %s %d" (S.concat "" (L.map (function Some z -> Printf.sprintf "%02x" (z_to_int z) | None -> "--") b)) (z_to_int r)
  | ["ARR"; fmt; size; h] ->
      let sz = int_of_string size in
      let bytes = unhex_ints h in
      let rec elems l = if L.length l < sz then [] else
        let rec take k l = if k = 0 then ([], l) else (match l with x :: r -> let (a, b) = take (k-1) r in (x :: a, b) | [] -> ([], [])) in
        let (e, rest) = take sz l in
        (L.fold_right (fun b acc -> zadd (zmul acc (int_to_z 256)) (int_to_z b)) e Z0) :: elems rest in
      let (b, c) = BufModel.array_binary ParserModel.native_le (int_to_z (int_of_string fmt)) (nat_of sz) (elems bytes) in
      Printf.sprintf "ARR %s %d" (hexz b) (z_to_int c)
  | ["LAYOUT"; digits; decpt; prec; neg] ->
      let ds = L.init (S.length digits) (fun i -> int_to_z (Char.code digits.[i])) in
      let (out, oob) = Dtostre.layout ds (int_to_z (int_of_string decpt)) (int_to_z (int_of_string prec)) (neg = "1") in
      Printf.sprintf "LAYOUT %s %d" (hexz out) (bi oob)
  | ["EXPR"; bh; idx; cap] ->
      let open ExprModel in
      let body = unhex bh in
      let ri = function EOK -> 0 | EERR -> 1 | ENOMORE -> 2 in
      let idx = int_to_z (int_of_string idx) and capi = int_of_string cap in
      let (((r, isr), (fo, fl)), (to_, tl)) = Glue.numlist_entry_tok body idx in
      let s1 = if r = EOK then Printf.sprintf " n0,%d,%d,%d%s" (bi isr) (z_to_int fo) (z_to_int fl) (if isr then Printf.sprintf ",%d,%d" (z_to_int to_) (z_to_int tl) else "")
               else Printf.sprintf " n%d" (ri r) in
      let (((r2, isr2), f), t) = numlist_entry_int body idx in
      let s2 = if r2 = EOK then Printf.sprintf " i0,%d,%d,%d" (bi isr2) (z_to_int f) (if isr2 then z_to_int t else 0) else Printf.sprintf " i%d" (ri r2) in
      let (((((r3, isr3), vf), vt), dims), nerr) = chanlist_entry body idx (int_to_z capi) in
      let rec take n l = if n <= 0 then [] else match l with [] -> [] | x :: r -> x :: take (n-1) r in
      let s3 = if r3 = EOK then begin
          let d = z_to_int dims in
          let show l = S.concat "," (L.map (fun z -> string_of_int (z_to_int z)) (take (min capi d) l)) in
          Printf.sprintf " c0,%d,%d,[%s],[%s],e%d" (bi isr3) d (show vf) (if isr3 then show vt else "") (z_to_int nerr) end
        else Printf.sprintf " c%d,e%d" (ri r3) (z_to_int nerr) in
      let (((r4, isr4), f4), t4) = Glue.numlist_entry_double body idx in
      let s4 = if r4 = EOK then Printf.sprintf " d0,%d,%s,%s" (bi isr4) (string_of_z f4) (if isr4 then string_of_z t4 else "0") else Printf.sprintf " d%d" (ri r4) in
      "EXPR" ^ s1 ^ s2 ^ s3 ^ s4
  | _ -> raise Unsupported

let () =
  if Array.length Sys.argv > 1 then flavor := Sys.argv.(1);
  try while true do
    let line = input_line stdin in
    (try print_string (handle line) with Unsupported -> print_string "?" | Failure _ -> print_string "?" | Invalid_argument _ -> print_string "?" | Not_found -> print_string "?");
    print_newline ()
  done with End_of_file -> ()
