(* C11 -- property theorems only: every statement is closed by `exact` on a lemma proved elsewhere.
   Statements are pinned by coq/statements/C11.json; ./check compares. *)
From Coq Require Import Bool List NArith ZArith Lia.
From M Require RegProofs.
From M Require RegModel.
Import ListNotations.

Module T_stb_coherent. Import RegProofs. Local Open Scope bool_scope. Local Open Scope Z_scope.
Import RegModel. Local Open Scope N_scope. Local Open Scope bool_scope. Local Open Scope Z_scope.
Theorem C11_stb_coherent :
  forall qc ops,
  0 < qc -> Forall legal ops -> Inv (fold_left step ops (init qc)).
Proof. exact (@RegProofs.stb_coherent). Qed.
End T_stb_coherent.
Definition C11_stb_coherent := @T_stb_coherent.C11_stb_coherent.

