(* C11 -- property theorems only: every statement is closed by `exact` on a lemma proved elsewhere.
   Statements are pinned by coq/statements/C11.json; ./check compares. *)
From Coq Require Import Bool List NArith ZArith Lia.
From M Require RegProofs.
From M Require Tie.
From M Require RegModel.
Import ListNotations.

Module T_stb_coherent. Import RegProofs. Local Open Scope bool_scope. Local Open Scope Z_scope.
Import RegModel. Local Open Scope N_scope. Local Open Scope bool_scope. Local Open Scope Z_scope.
Theorem C11_stb_coherent :
  forall qc ops,
  0 < qc -> Forall legal ops -> Inv (fold_left step ops (init qc)).
Proof. exact (@RegProofs.stb_coherent). Qed.
End T_stb_coherent.
Definition C11_stb_coherent := @T_stb_coherent.C11_stb_coherent.

Module T_tie_reg_tables. Import Tie. Local Open Scope bool_scope. Local Open Scope Z_scope.
Local Open Scope Z_scope.
Theorem C11_tie_reg_tables :
  Generated.gen_reg_count = Z.of_nat (length regs_in_order) /\
  map (fun i => details_from_tables i) (seq 0 (length regs_in_order)) = map (fun r => Some (RegModel.details r)) regs_in_order.
Proof. exact (@Tie.tie_reg_tables). Qed.
End T_tie_reg_tables.
Definition C11_tie_reg_tables := @T_tie_reg_tables.C11_tie_reg_tables.

Module T_tie_stb_bits. Import Tie. Local Open Scope bool_scope. Local Open Scope Z_scope.
Local Open Scope Z_scope.
Theorem C11_tie_stb_bits :
  Generated.gen_stb_bits = [RegModel.SRQ; RegModel.QMA; 32; 128; 8]%N /\ Generated.gen_reg_val_bits = 16.
Proof. exact (@Tie.tie_stb_bits). Qed.
End T_tie_stb_bits.
Definition C11_tie_stb_bits := @T_tie_stb_bits.C11_tie_stb_bits.

