(* C11 -- property theorems only: every statement is closed by `exact` on a lemma proved elsewhere.
   Statements are pinned by coq/statements/C11.json; ./check compares. *)
From Coq Require Import Bool List NArith ZArith Lia.
From M Require RegProofs.
From M Require Tie.
From M Require CmdLayer.
From M Require StbUser.
From M Require C12Latch.
From M Require CmdLayer.
From M Require CmdModel.
From M Require RegModel.
From M Require RegProofs.
Import ListNotations.

Definition C11_stb_coherent := @RegProofs.stb_coherent.

Definition C11_tie_reg_tables := @Tie.tie_reg_tables.

Definition C11_tie_stb_bits := @Tie.tie_stb_bits.

Definition C11_commands_coherent := @CmdLayer.commands_coherent.

Definition C11_stbq_reports_summaries := @CmdLayer.stbq_reports_summaries.

Definition C11_event_query_clears := @CmdLayer.event_query_clears.

Definition C11_cls_clears := @CmdLayer.cls_clears.

Definition C11_cmd_history_runs := @CmdLayer.cmd_history_runs.

Definition C11_stb_coherent_user := @StbUser.stb_coherent_user.

Definition C11_user_bit_raises_mss := @StbUser.user_bit_raises_mss.

Definition C11_tie_lib_bits := @StbUser.tie_lib_bits.

Definition C11_errcount_agrees_with_stb := @CmdLayer.errcount_agrees_with_stb.

Definition C11_cmd_text_canonical := @CmdLayer.cmd_text_canonical.

