(* C11 -- property theorems only: every statement is closed by `exact` on a lemma proved elsewhere.
   Statements are pinned by coq/statements/C11.json; ./check compares. *)
From Coq Require Import Bool List NArith ZArith Lia.
From M Require RegProofs.
From M Require Tie.
From M Require CmdLayer.
From M Require StbUser.
From M Require C12Latch.
From M Require CmdLayer.
From M Require CmdModel.
From M Require RegModel.
From M Require RegProofs.
Import ListNotations.

Module T_stb_coherent. Import RegProofs. Local Open Scope bool_scope. Local Open Scope Z_scope.
Import RegModel. Local Open Scope N_scope. Local Open Scope bool_scope. Local Open Scope Z_scope.
Theorem C11_stb_coherent :
  forall qc ops,
  0 < qc -> Forall legal ops -> Inv (fold_left step ops (init qc)).
Proof. exact (@RegProofs.stb_coherent). Qed.
End T_stb_coherent.
Definition C11_stb_coherent := @T_stb_coherent.C11_stb_coherent.

Module T_tie_reg_tables. Import Tie. Local Open Scope bool_scope. Local Open Scope Z_scope.
Local Open Scope Z_scope.
Theorem C11_tie_reg_tables :
  Generated.gen_reg_count = Z.of_nat (length regs_in_order) /\
  map (fun i => details_from_tables i) (seq 0 (length regs_in_order)) = map (fun r => Some (RegModel.details r)) regs_in_order.
Proof. exact (@Tie.tie_reg_tables). Qed.
End T_tie_reg_tables.
Definition C11_tie_reg_tables := @T_tie_reg_tables.C11_tie_reg_tables.

Module T_tie_stb_bits. Import Tie. Local Open Scope bool_scope. Local Open Scope Z_scope.
Local Open Scope Z_scope.
Theorem C11_tie_stb_bits :
  Generated.gen_stb_bits = [RegModel.SRQ; RegModel.QMA; 32; 128; 8]%N /\ Generated.gen_reg_val_bits = 16.
Proof. exact (@Tie.tie_stb_bits). Qed.
End T_tie_stb_bits.
Definition C11_tie_stb_bits := @T_tie_stb_bits.C11_tie_stb_bits.

Module T_commands_coherent. Import CmdLayer. Local Open Scope bool_scope. Local Open Scope Z_scope.
Import RegModel RegProofs C12Latch CmdModel. Local Open Scope N_scope.
Theorem C11_commands_coherent :
  forall qc acts,
  (0 < qc)%Z -> Forall act_legal acts -> Inv (fold_left act_step acts (init qc)).
Proof. exact (@CmdLayer.commands_coherent). Qed.
End T_commands_coherent.
Definition C11_commands_coherent := @T_commands_coherent.C11_commands_coherent.

Module T_stbq_reports_summaries. Import CmdLayer. Local Open Scope bool_scope. Local Open Scope Z_scope.
Import RegModel RegProofs C12Latch CmdModel. Local Open Scope N_scope.
Theorem C11_stbq_reports_summaries :
  forall qc acts v,
  (0 < qc)%Z -> Forall act_legal acts ->
  let s := fold_left act_step acts (init qc) in
  snd (run_cmd s KStbQ) = Some v ->
  fst (run_cmd s KStbQ) = s /\
  N.testbit v 5 = negb (N.land (rg s ESR) (rg s ESE) =? 0) /\
  N.testbit v 7 = negb (N.land (rg s OPER) (rg s OPERE) =? 0) /\
  N.testbit v 3 = negb (N.land (rg s QUES) (rg s QUESE) =? 0) /\
  N.testbit v 2 = negb (qlen s =? 0)%Z /\
  N.testbit v 6 = negb (N.land (N.ldiff v 64) (N.ldiff (rg s SRE) 64) =? 0).
Proof. exact (@CmdLayer.stbq_reports_summaries). Qed.
End T_stbq_reports_summaries.
Definition C11_stbq_reports_summaries := @T_stbq_reports_summaries.C11_stbq_reports_summaries.

Module T_event_query_clears. Import CmdLayer. Local Open Scope bool_scope. Local Open Scope Z_scope.
Import RegModel RegProofs C12Latch CmdModel. Local Open Scope N_scope.
Theorem C11_event_query_clears :
  forall s c e k,
  event_cmd c e k -> Inv s ->
  let '(s', r) := run_cmd s c in
  r = Some (rg s e) /\ rg s' e = 0 /\ N.testbit (rg s' STB) k = false /\ Inv s'.
Proof. exact (@CmdLayer.event_query_clears). Qed.
End T_event_query_clears.
Definition C11_event_query_clears := @T_event_query_clears.C11_event_query_clears.

Module T_cls_clears. Import CmdLayer. Local Open Scope bool_scope. Local Open Scope Z_scope.
Import RegModel RegProofs C12Latch CmdModel. Local Open Scope N_scope.
Theorem C11_cls_clears :
  forall s,
  Inv s ->
  let s' := fst (run_cmd s KCls) in
  rg s' ESR = 0 /\ rg s' OPER = 0 /\ rg s' QUES = 0 /\ qlen s' = 0%Z /\
  N.testbit (rg s' STB) 5 = false /\ N.testbit (rg s' STB) 7 = false /\ N.testbit (rg s' STB) 3 = false /\ N.testbit (rg s' STB) 2 = false /\
  Inv s'.
Proof. exact (@CmdLayer.cls_clears). Qed.
End T_cls_clears.
Definition C11_cls_clears := @T_cls_clears.C11_cls_clears.

Module T_cmd_history_runs. Import CmdLayer. Local Open Scope bool_scope. Local Open Scope Z_scope.
Import RegModel RegProofs C12Latch CmdModel. Local Open Scope N_scope.
Theorem C11_cmd_history_runs :
  let s := fold_left act_step [AOp (OPush (-113)%Z); ACmd (KEse 32); ACmd (KSre 32); ACmd KStbQ] (init 4) in
  rg s STB = 100 /\ snd (run_cmd s KEsrQ) = Some 32 /\ rg (fst (run_cmd s KEsrQ)) STB = 4 /\ rg (fst (run_cmd s KCls)) STB = 0.
Proof. exact (@CmdLayer.cmd_history_runs). Qed.
End T_cmd_history_runs.
Definition C11_cmd_history_runs := @T_cmd_history_runs.C11_cmd_history_runs.

Module T_stb_coherent_user. Import StbUser. Local Open Scope bool_scope. Local Open Scope Z_scope.
Import RegModel RegProofs CmdModel CmdLayer. Local Open Scope N_scope.
Theorem C11_stb_coherent_user :
  forall qc xs,
  (0 < qc)%Z -> Forall xlegal xs -> Inv (fold_left xstep xs (init qc)).
Proof. exact (@StbUser.stb_coherent_user). Qed.
End T_stb_coherent_user.
Definition C11_stb_coherent_user := @T_stb_coherent_user.C11_stb_coherent_user.

Module T_user_bit_raises_mss. Import StbUser. Local Open Scope bool_scope. Local Open Scope Z_scope.
Import RegModel RegProofs CmdModel CmdLayer. Local Open Scope N_scope.
Theorem C11_user_bit_raises_mss :
  let s := fold_left xstep [XA (ACmd (KSre 256)); XStb true 256] (init 2) in
  rg s STB = 320 /\ rg (xstep s (XStb false 256)) STB = 0.
Proof. exact (@StbUser.user_bit_raises_mss). Qed.
End T_user_bit_raises_mss.
Definition C11_user_bit_raises_mss := @T_user_bit_raises_mss.C11_user_bit_raises_mss.

