(* C19, channel lists, functional half: on the body of a well-formed channel list  @e1,e2,...  (each entry a channel
   specification a!b!c or a range spec:spec of equal dimensions) SCPI_ExprChannelListEntry delivers entry [index] exactly as
   written -- range flag, dimension count, the values of every dimension that fits the caller's capacity -- with no error,
   and NO_MORE (no error either) for every index at or beyond the number of entries. *)
From Coq Require Import Bool List NArith ZArith Lia.
From M Require Import LexModel LexBounds DecSpec MoreSpecs ExprModel NumList ChanSpec.
Import ListNotations.
Local Open Scope Z_scope.

Definition centry := (list bytes * option (list bytes))%type.
Definition centry_ok (e:centry) : Prop :=
  Forall Dec (fst e) /\ fst e <> [] /\ match snd e with Some t => Forall Dec t /\ length t = length (fst e) | None => True end.
Definition render_centry (e:centry) : bytes := match e with (f, None) => spec_text f | (f, Some t) => spec_text f ++ 58%N :: spec_text t end.
Fixpoint render_cl (es:list centry) : bytes :=
  match es with [] => [] | [e] => render_centry e | e :: r => render_centry e ++ 44%N :: render_cl r end.
Lemma render_cl_cons e e2 r : render_cl (e :: e2 :: r) = render_centry e ++ 44%N :: render_cl (e2 :: r). Proof. reflexivity. Qed.

(* what channelRange must deliver for an entry that starts at pos *)
Definition expected_c (body:bytes) (pos cap:Z) (e:centry) : eres * bool * list Z * list Z * Z * Z :=
  match e with
  | (f, None) => (EOK, false, dim_values body pos f 0 cap [], [], Z.of_nat (length f), pos + Z.of_nat (length (spec_text f)))
  | (f, Some t) => (EOK, true, dim_values body pos f 0 cap [], dim_values body (pos + Z.of_nat (length (spec_text f)) + 1) t 0 cap [],
                    Z.of_nat (length f), pos + Z.of_nat (length (spec_text f)) + 1 + Z.of_nat (length (spec_text t)))
  end.
Definition rstop (rest:bytes) : Prop := starts decalpha rest = false /\ starts (ischr 33%N) rest = false /\ starts (ischr 58%N) rest = false.

Lemma spec_len ds : Forall Dec ds -> (length ds <= length (spec_text ds))%nat.
Proof.
  induction ds as [|a r IH]; intro H; [cbn; lia|]. inversion H as [|? ? Ha Hr]; subst. specialize (IH Hr). pose proof (dec_len_pos a Ha).
  destruct r as [|b r']; [cbn [spec_text length] in *; lia|]. rewrite spec_text_cons, app_length. cbn [length] in *. lia.
Qed.
Lemma drop_length_le (l:bytes) pos x rest : 0 <= pos -> drop pos l = x ++ rest -> (length x <= length l)%nat.
Proof. intros Hp H. apply (f_equal (@length N)) in H. unfold drop in H. rewrite skipn_length, app_length in H. lia. Qed.

Lemma crange_at body pos cap e rest : centry_ok e -> 0 <= pos -> drop pos body = render_centry e ++ rest -> rstop rest ->
  channel_range body pos cap = expected_c body pos cap e.
Proof.
  intros (Hf & Hne & Ht) Hpos Hb (R1 & R2 & R3). destruct e as [f [t|]]; cbn [fst snd render_centry expected_c] in *; unfold channel_range.
  - destruct Ht as [Ht Hlen].
    assert (Hb1 : drop pos body = spec_text f ++ (58%N :: spec_text t ++ rest)) by (rewrite Hb, <- app_assoc; reflexivity).
    pose proof (spec_len f Hf) as L1. pose proof (drop_length_le body pos _ _ Hpos Hb1) as L2.
    rewrite (channel_spec_walk f (S (length body)) body pos 0 cap [] (58%N :: spec_text t ++ rest) Hf Hne ltac:(split; reflexivity) Hpos Hb1 ltac:(unfold bytes, byte in *; lia)).
    assert (Hd1 : drop (pos + Z.of_nat (length (spec_text f))) body = 58%N :: spec_text t ++ rest).
    { rewrite drop_drop by lia. rewrite Hb1. apply drop_app_len. }
    rewrite Hd1. unfold lex_colon. rewrite lex_chr_hit. cbn [Z.ltb Z.compare].
    assert (Hb2 : drop (pos + Z.of_nat (length (spec_text f)) + 1) body = spec_text t ++ rest).
    { rewrite drop_drop by lia. rewrite Hd1. reflexivity. }
    assert (Hne2 : t <> []) by (destruct t; [destruct f; [congruence|discriminate]|discriminate]).
    pose proof (spec_len t Ht) as L3. pose proof (drop_length_le body (pos + Z.of_nat (length (spec_text f)) + 1) _ _ ltac:(lia) Hb2) as L4.
    rewrite (channel_spec_walk t (S (length body)) body (pos + Z.of_nat (length (spec_text f)) + 1) 0 cap [] rest Ht Hne2 ltac:(split; assumption) ltac:(lia) Hb2 ltac:(unfold bytes, byte in *; lia)).
    rewrite !Z.add_0_l. rewrite Hlen, Z.eqb_refl. repeat f_equal; lia.
  - pose proof (spec_len f Hf) as L1. pose proof (drop_length_le body pos _ _ Hpos Hb) as L2.
    rewrite (channel_spec_walk f (S (length body)) body pos 0 cap [] rest Hf Hne ltac:(split; assumption) Hpos Hb ltac:(unfold bytes, byte in *; lia)).
    assert (Hd1 : drop (pos + Z.of_nat (length (spec_text f))) body = rest).
    { rewrite drop_drop by lia. rewrite Hb. apply drop_app_len. }
    rewrite Hd1. unfold lex_colon. rewrite (lex_chr_miss _ _ _ R3). cbn [Z.ltb Z.compare]. rewrite Z.add_0_l. reflexivity.
Qed.

Fixpoint centry_off (es:list centry) (k:nat) : Z :=
  match k, es with
  | O, _ => 0
  | S k', e :: r => Z.of_nat (length (render_centry e)) + 1 + centry_off r k'
  | S _, [] => 0
  end.
Definition end_of (pos:Z) (e:centry) : Z := pos + Z.of_nat (length (render_centry e)).
Lemma expected_end body pos cap e : let '(_, _, _, _, _, p) := expected_c body pos cap e in p = end_of pos e.
Proof. destruct e as [f [t|]]; unfold end_of; cbn [expected_c render_centry]; rewrite ?app_length; cbn [length]; unfold bytes, byte in *; lia. Qed.

Theorem chanlist_walk_spec : forall es fuel body pos i index cap, Forall centry_ok es -> es <> [] -> 0 <= pos -> i <= index ->
  drop pos body = render_cl es -> (length es < fuel)%nat ->
  let k := Z.to_nat (index - i) in
  match nth_error es k with
  | Some e => chanlist_walk fuel body pos i index cap = expected_c body (pos + centry_off es k) cap e
  | None => exists isr vf vt dims, chanlist_walk fuel body pos i index cap = (ENOMORE, isr, vf, vt, dims, pos + Z.of_nat (length (render_cl es)))
  end.
Proof.
  induction es as [|e r IH]; intros fuel body pos i index cap Hok Hne Hpos Hi Hbody Hfuel; [congruence|].
  destruct fuel as [|f]; [cbn in Hfuel; lia|]. cbn [chanlist_walk]. inversion Hok as [|? ? He Hr]; subst.
  destruct r as [|e2 r'].
  - (* last entry *)
    cbn [render_cl] in Hbody.
    assert (Hb : drop pos body = render_centry e ++ []) by (now rewrite app_nil_r).
    destruct (Z.eqb_spec i index) as [->|Hne'].
    + rewrite (crange_at body pos cap e [] He Hpos Hb ltac:(repeat split; reflexivity)).
      replace (Z.to_nat (index - index)) with O by lia. cbn [nth_error centry_off]. rewrite Z.add_0_r.
      destruct e as [fr [t|]]; reflexivity.
    + rewrite (crange_at body pos 0 e [] He Hpos Hb ltac:(repeat split; reflexivity)).
      replace (Z.to_nat (index - i)) with (S (Z.to_nat (index - i - 1))) by lia. cbn [nth_error].
      assert (Hnone : nth_error (@nil centry) (Z.to_nat (index - i - 1)) = None) by (destruct (Z.to_nat (index - i - 1)); reflexivity). rewrite Hnone.
      pose proof (expected_end body pos 0 e) as He'. destruct (expected_c body pos 0 e) as [[[[[r0 isr] vf] vt] dims] p] eqn:Ex.
      assert (r0 = EOK) by (destruct e as [fr [t|]]; cbn [expected_c] in Ex; now injection Ex). subst r0 p.
      assert (Hd : drop (end_of pos e) body = []).
      { unfold end_of. rewrite drop_drop by lia. rewrite Hb. apply drop_app_len. }
      rewrite Hd. unfold lex_comma. rewrite (lex_chr_miss _ _ [] eq_refl). cbn [Z.eqb iseos render_cl]. unfold end_of. eauto.
  - (* an entry followed by a comma *)
    rewrite render_cl_cons in Hbody.
    assert (Hrs : rstop (44%N :: render_cl (e2 :: r'))) by (repeat split; reflexivity).
    assert (Hd : drop (end_of pos e) body = 44%N :: render_cl (e2 :: r')).
    { unfold end_of. rewrite drop_drop by lia. rewrite Hbody. apply drop_app_len. }
    destruct (Z.eqb_spec i index) as [->|Hne'].
    + rewrite (crange_at body pos cap e _ He Hpos Hbody Hrs).
      replace (Z.to_nat (index - index)) with O by lia. cbn [nth_error centry_off]. rewrite Z.add_0_r.
      destruct e as [fr [t|]]; reflexivity.
    + rewrite (crange_at body pos 0 e _ He Hpos Hbody Hrs).
      replace (Z.to_nat (index - i)) with (S (Z.to_nat (index - (i + 1)))) by lia. cbn [nth_error centry_off].
      pose proof (expected_end body pos 0 e) as He'. destruct (expected_c body pos 0 e) as [[[[[r0 isr] vf] vt] dims] p] eqn:Ex.
      assert (r0 = EOK) by (destruct e as [fr [t|]]; cbn [expected_c] in Ex; now injection Ex). subst r0 p.
      rewrite Hd. unfold lex_comma. rewrite lex_chr_hit. cbn [Z.eqb].
      pose proof (IH f body (end_of pos e + 1) (i + 1) index cap Hr ltac:(discriminate) ltac:(unfold end_of; lia) ltac:(lia)) as Hn.
      cbn zeta in Hn. specialize (Hn ltac:(rewrite drop_drop by (unfold end_of; lia); rewrite Hd; reflexivity) ltac:(cbn [length] in *; lia)).
      destruct (nth_error (e2 :: r') (Z.to_nat (index - (i + 1)))) as [e'|].
      * rewrite Hn. unfold end_of. f_equal.
        transitivity (pos + (Z.of_nat (length (render_centry e)) + 1 + centry_off (e2 :: r') (Z.to_nat (index - (i + 1))))); [lia|reflexivity].
      * destruct Hn as (a1 & a2 & a3 & a4 & Hn). exists a1, a2, a3, a4. rewrite Hn. f_equal. unfold end_of.
        rewrite render_cl_cons, app_length. cbn [length]. lia.
Qed.
Print Assumptions chanlist_walk_spec.

Lemma centry_len_pos e : centry_ok e -> (1 <= length (render_centry e))%nat.
Proof. intros (Hf & Hne & _). pose proof (spec_len (fst e) Hf). destruct e as [f [t|]]; cbn [fst render_centry] in *; rewrite ?app_length; destruct f; try congruence; cbn [length] in *; lia. Qed.
Lemma render_cl_len es : Forall centry_ok es -> (length es <= length (render_cl es))%nat.
Proof.
  induction es as [|e r IH]; intro H; [cbn; lia|]. inversion H as [|? ? He Hr]; subst. specialize (IH Hr). pose proof (centry_len_pos e He).
  destruct r as [|e2 r']; [cbn [render_cl length] in *; lia|]. rewrite render_cl_cons, app_length. cbn [length] in *. lia.
Qed.

(* SCPI_ExprChannelListEntry on "@" ++ list *)
Theorem chanlist_spec es index cap : Forall centry_ok es -> es <> [] -> 0 <= index ->
  let body := 64%N :: render_cl es in
  match nth_error es (Z.to_nat index) with
  | Some e => exists p, expected_c body (1 + centry_off es (Z.to_nat index)) cap e = (EOK, match snd e with Some _ => true | None => false end,
                          dim_values body (1 + centry_off es (Z.to_nat index)) (fst e) 0 cap [],
                          match snd e with Some t => dim_values body (1 + centry_off es (Z.to_nat index) + Z.of_nat (length (spec_text (fst e))) + 1) t 0 cap [] | None => [] end,
                          Z.of_nat (length (fst e)), p) /\
                chanlist_entry body index cap =
                (EOK, match snd e with Some _ => true | None => false end,
                 dim_values body (1 + centry_off es (Z.to_nat index)) (fst e) 0 cap [],
                 match snd e with Some t => dim_values body (1 + centry_off es (Z.to_nat index) + Z.of_nat (length (spec_text (fst e))) + 1) t 0 cap [] | None => [] end,
                 Z.of_nat (length (fst e)), 0)
  | None => exists isr vf vt dims, chanlist_entry body index cap = (ENOMORE, isr, vf, vt, dims, 0)
  end.
Proof.
  intros Hok Hne Hi body. pose proof (render_cl_len es Hok) as Hl.
  pose proof (chanlist_walk_spec es (S (length body)) body 1 0 index cap Hok Hne ltac:(lia) Hi eq_refl ltac:(unfold body; cbn [length]; unfold bytes, byte in *; lia)) as H.
  cbn zeta in H. rewrite Z.sub_0_r in H. unfold chanlist_entry.
  assert (Hat : ret (lex_specific 64%N body) = 1) by (unfold body, lex_specific; apply lex_chr_hit). rewrite Hat. change (1 =? 0) with false. cbv iota.
  destruct (nth_error es (Z.to_nat index)) as [e|].
  - destruct e as [f [t|]]; eexists; (split; [reflexivity|]); unfold bytes, byte in *; rewrite H; reflexivity.
  - destruct H as (a1 & a2 & a3 & a4 & H). unfold bytes, byte in *. rewrite H.
    assert (Hd : drop (1 + Z.of_nat (length (render_cl es))) body = []).
    { unfold body. rewrite drop_drop by lia. change (drop 1 (64%N :: render_cl es)) with (render_cl es).
      rewrite <- (app_nil_r (render_cl es)) at 2. apply drop_app_len. }
    unfold bytes, byte in *. rewrite Hd. cbn [iseos]. eauto.
Qed.
Print Assumptions chanlist_spec.

(* non-vacuity: "@1!2,3!4:5!6,7" entry 1 with capacity 2 *)
Example ex_chanlist :
  let es : list centry := [([[49%N]; [50%N]], None); ([[51%N]; [52%N]], Some [[53%N]; [54%N]]); ([[55%N]], None)] in
  chanlist_entry (64%N :: render_cl es) 1 2 = (EOK, true, [3; 4], [5; 6], 2, 0) /\
  chanlist_entry (64%N :: render_cl es) 3 2 = (ENOMORE, false, [], [], 1, 0).
Proof. vm_compute. split; reflexivity. Qed.
