(* C19 -- property theorems only: every statement is closed by `exact` on a lemma proved elsewhere.
   Statements are pinned by coq/statements/C19.json; ./check compares. *)
From Coq Require Import Bool List NArith ZArith Lia.
From M Require NumList.
From M Require ExprCap.
From M Require ChanSpec.
From M Require ChanList.
From M Require ExprScenario.
From M Require ChanSpec.
From M Require DecSpec.
From M Require ExprModel.
From M Require LexBounds.
From M Require LexModel.
From M Require MoreSpecs.
From M Require NumList.
From M Require ParserModel.
Import ListNotations.

Module T_numlist_walk_spec. Import NumList. Local Open Scope bool_scope. Local Open Scope Z_scope.
Import LexModel LexBounds DecSpec ExprModel. Local Open Scope Z_scope.
Theorem C19_numlist_walk_spec :
  forall es fuel body pos i index, Forall entry_ok es -> es <> [] -> 0 <= pos -> i <= index ->
  drop pos body = render es -> (length es < fuel)%nat ->
  let k := Z.to_nat (index - i) in
  match nth_error es k with
  | Some e => numlist_walk fuel body pos i index = expected (pos + entry_off es k) e
  | None => code_of (numlist_walk fuel body pos i index) = ENOMORE
  end.
Proof. exact (@NumList.numlist_walk_spec). Qed.
End T_numlist_walk_spec.
Definition C19_numlist_walk_spec := @T_numlist_walk_spec.C19_numlist_walk_spec.

Module T_numlist_spec. Import NumList. Local Open Scope bool_scope. Local Open Scope Z_scope.
Import LexModel LexBounds DecSpec ExprModel. Local Open Scope Z_scope.
Theorem C19_numlist_spec :
  forall es index,
  Forall entry_ok es -> es <> [] -> 0 <= index ->
  match nth_error es (Z.to_nat index) with
  | Some e => numlist_walk (S (length (render es))) (render es) 0 0 index = expected (entry_off es (Z.to_nat index)) e
  | None => code_of (numlist_walk (S (length (render es))) (render es) 0 0 index) = ENOMORE
  end.
Proof. exact (@NumList.numlist_spec). Qed.
End T_numlist_spec.
Definition C19_numlist_spec := @T_numlist_spec.C19_numlist_spec.

Module T_channel_range_cap. Import ExprCap. Local Open Scope bool_scope. Local Open Scope Z_scope.
Import LexModel ExprModel. Local Open Scope Z_scope.
Theorem C19_channel_range_cap :
  forall l pos cap,
  let '(_, _, vf, vt, _, _) := channel_range l pos cap in
  Z.of_nat (length vf) <= Z.max cap 0 /\ Z.of_nat (length vt) <= Z.max cap 0.
Proof. exact (@ExprCap.channel_range_cap). Qed.
End T_channel_range_cap.
Definition C19_channel_range_cap := @T_channel_range_cap.C19_channel_range_cap.

Module T_chanlist_entry_cap. Import ExprCap. Local Open Scope bool_scope. Local Open Scope Z_scope.
Import LexModel ExprModel. Local Open Scope Z_scope.
Theorem C19_chanlist_entry_cap :
  forall body index cap,
  let '(_, _, vf, vt, _, _) := chanlist_entry body index cap in
  Z.of_nat (length vf) <= Z.max cap 0 /\ Z.of_nat (length vt) <= Z.max cap 0.
Proof. exact (@ExprCap.chanlist_entry_cap). Qed.
End T_chanlist_entry_cap.
Definition C19_chanlist_entry_cap := @T_chanlist_entry_cap.C19_chanlist_entry_cap.

Module T_channel_spec_walk. Import ChanSpec. Local Open Scope bool_scope. Local Open Scope Z_scope.
Import LexModel LexBounds DecSpec MoreSpecs ExprModel NumList. Local Open Scope Z_scope.
Theorem C19_channel_spec_walk :
  forall ds fuel l pos i cap vals rest, Forall Dec ds -> ds <> [] -> cstop rest -> 0 <= pos ->
  drop pos l = spec_text ds ++ rest -> (length ds < fuel)%nat ->
  channel_spec fuel l pos i cap vals =
  (EOK, dim_values l pos ds i cap vals, i + Z.of_nat (length ds), pos + Z.of_nat (length (spec_text ds))).
Proof. exact (@ChanSpec.channel_spec_walk). Qed.
End T_channel_spec_walk.
Definition C19_channel_spec_walk := @T_channel_spec_walk.C19_channel_spec_walk.

Module T_chanlist_walk_spec. Import ChanList. Local Open Scope bool_scope. Local Open Scope Z_scope.
Import LexModel LexBounds DecSpec MoreSpecs ExprModel NumList ChanSpec. Local Open Scope Z_scope.
Local Open Scope Z_scope.
Theorem C19_chanlist_walk_spec :
  forall es fuel body pos i index cap, Forall centry_ok es -> es <> [] -> 0 <= pos -> i <= index ->
  drop pos body = render_cl es -> (length es < fuel)%nat ->
  let k := Z.to_nat (index - i) in
  match nth_error es k with
  | Some e => chanlist_walk fuel body pos i index cap = expected_c body (pos + centry_off es k) cap e
  | None => exists isr vf vt dims, chanlist_walk fuel body pos i index cap = (ENOMORE, isr, vf, vt, dims, pos + Z.of_nat (length (render_cl es)))
  end.
Proof. exact (@ChanList.chanlist_walk_spec). Qed.
End T_chanlist_walk_spec.
Definition C19_chanlist_walk_spec := @T_chanlist_walk_spec.C19_chanlist_walk_spec.

Module T_chanlist_spec. Import ChanList. Local Open Scope bool_scope. Local Open Scope Z_scope.
Import LexModel LexBounds DecSpec MoreSpecs ExprModel NumList ChanSpec. Local Open Scope Z_scope.
Local Open Scope Z_scope.
Theorem C19_chanlist_spec :
  forall es index cap,
  Forall centry_ok es -> es <> [] -> 0 <= index ->
  let body := 64%N :: render_cl es in
  match nth_error es (Z.to_nat index) with
  | Some e => exists p, expected_c body (1 + centry_off es (Z.to_nat index)) cap e = (EOK, match snd e with Some _ => true | None => false end,
                          dim_values body (1 + centry_off es (Z.to_nat index)) (fst e) 0 cap [],
                          match snd e with Some t => dim_values body (1 + centry_off es (Z.to_nat index) + Z.of_nat (length (spec_text (fst e))) + 1) t 0 cap [] | None => [] end,
                          Z.of_nat (length (fst e)), p) /\
                chanlist_entry body index cap =
                (EOK, match snd e with Some _ => true | None => false end,
                 dim_values body (1 + centry_off es (Z.to_nat index)) (fst e) 0 cap [],
                 match snd e with Some t => dim_values body (1 + centry_off es (Z.to_nat index) + Z.of_nat (length (spec_text (fst e))) + 1) t 0 cap [] | None => [] end,
                 Z.of_nat (length (fst e)), 0)
  | None => exists isr vf vt dims, chanlist_entry body index cap = (ENOMORE, isr, vf, vt, dims, 0)
  end.
Proof. exact (@ChanList.chanlist_spec). Qed.
End T_chanlist_spec.
Definition C19_chanlist_spec := @T_chanlist_spec.C19_chanlist_spec.

Module T_chan_entry_error. Import ExprScenario. Local Open Scope bool_scope. Local Open Scope Z_scope.
Import ParserModel. Local Open Scope Z_scope.
Local Open Scope Z_scope.
Theorem C19_chan_entry_error :
  forall c t idx cap,
  LexModel.ty t = LexModel.T_EXPR ->
  let '(c1, rep) := expr_chanlist c t idx cap in
  (hd 0 rep = 1 -> c1 = error_push c (-170) None) /\ (hd 0 rep <> 1 -> c1 = c).
Proof. exact (@ExprScenario.chan_entry_error). Qed.
End T_chan_entry_error.
Definition C19_chan_entry_error := @T_chan_entry_error.C19_chan_entry_error.

Module T_num_entry_error. Import ExprScenario. Local Open Scope bool_scope. Local Open Scope Z_scope.
Import ParserModel. Local Open Scope Z_scope.
Local Open Scope Z_scope.
Theorem C19_num_entry_error :
  forall c t idx,
  LexModel.ty t = LexModel.T_EXPR ->
  let '(c1, rep) := expr_numlist c t idx in
  (hd 0 rep = 1 -> c1 = error_push c (-170) None) /\ (hd 0 rep <> 1 -> c1 = c).
Proof. exact (@ExprScenario.num_entry_error). Qed.
End T_num_entry_error.
Definition C19_num_entry_error := @T_num_entry_error.C19_num_entry_error.

Module T_not_an_expression. Import ExprScenario. Local Open Scope bool_scope. Local Open Scope Z_scope.
Import ParserModel. Local Open Scope Z_scope.
Local Open Scope Z_scope.
Theorem C19_not_an_expression :
  forall c t idx cap,
  LexModel.ty t <> LexModel.T_EXPR ->
  expr_chanlist c t idx cap = (error_push c (-104) None, [1]) /\ expr_numlist c t idx = (error_push c (-104) None, [1]).
Proof. exact (@ExprScenario.not_an_expression). Qed.
End T_not_an_expression.
Definition C19_not_an_expression := @T_not_an_expression.C19_not_an_expression.

