(* C13 for the simple recognisers: white space, character data, nondecimal numbers, expressions, separators, newline *)
From Coq Require Import Bool List NArith ZArith Lia.
From M Require Import LexModel LexBounds DecSpec.
Import ListNotations.
Local Open Scope Z_scope.

(* ---------- white space: ws+ ---------- *)
Definition Ws (t:bytes) : Prop := t <> [] /\ all isws t.
Lemma used_skip_while_all p a rest : all p a -> starts p rest = false -> used (a ++ rest) (skip_while p (a ++ rest)) = Z.of_nat (length a).
Proof. intros Ha Hr. rewrite skip_while_app by exact Ha. rewrite skip_while_stop by exact Hr. apply used_app. Qed.
Lemma ws_longest s : longest Ws s (disp (lex_ws s)).
Proof.
  unfold lex_ws. cbn [disp mk]. destruct (skip_while_split isws s) as (pre & Hs & Hp). set (l' := skip_while isws s) in *.
  assert (Hlen : Z.of_nat (length s) = Z.of_nat (length pre) + Z.of_nat (length l')).
  { pose proof (f_equal (@length _) Hs) as Hl. rewrite app_length in Hl. lia. }
  assert (Hu : used s l' = Z.of_nat (length pre)) by (unfold used; lia).
  rewrite Hu. split; [lia|]. split.
  - intros Hpos. rewrite Nat2Z.id. rewrite Hs, firstn_app, Nat.sub_diag, firstn_all. cbn. rewrite app_nil_r.
    split; [destruct pre; [cbn in Hpos; lia|discriminate]|exact Hp].
  - intros m [Hm1 Hm2] [Hne Hall].
    assert (Hsk : skip_while isws s = skip_while isws (skipn (Z.to_nat m) s)).
    { rewrite <- (firstn_skipn (Z.to_nat m) s) at 1. now apply skip_while_app. }
    pose proof (sfx_skip_while isws (skipn (Z.to_nat m) s)) as Hsf. rewrite <- Hsk in Hsf. fold l' in Hsf.
    apply sfx_len in Hsf. rewrite skipn_length in Hsf. lia.
Qed.

(* ---------- character program data: alpha (alnum | _)* ---------- *)
Definition Chars (t:bytes) : Prop := exists c r, t = c :: r /\ isalpha c = true /\ all ismnem r.
Lemma chars_longest s : longest Chars s (disp (lex_chardata s)).
Proof.
  unfold lex_chardata. cbn [disp mk]. destruct s as [|c r].
  - cbn. split; [lia|]. split; [lia|]. intros m Hm. cbn in Hm. lia.
  - cbn [starts tl]. destruct (isalpha c) eqn:Ea.
    + destruct (skip_while_split ismnem r) as (pre & Hs & Hp). set (l' := skip_while ismnem r) in *.
      assert (Hlen : Z.of_nat (length r) = Z.of_nat (length pre) + Z.of_nat (length l')).
      { pose proof (f_equal (@length _) Hs) as Hl. rewrite app_length in Hl. lia. }
      assert (Hu : used (c :: r) l' = 1 + Z.of_nat (length pre)) by (unfold used; cbn [length]; lia).
      rewrite Hu. split; [cbn [length]; lia|]. split.
      * intros _. replace (Z.to_nat (1 + Z.of_nat (length pre))) with (S (length pre)) by lia. cbn [firstn].
        exists c, pre. split; [f_equal; rewrite Hs, firstn_app, Nat.sub_diag, firstn_all; cbn; now rewrite app_nil_r|]. split; assumption.
      * intros m [Hm1 Hm2] (c0 & r0 & Hf & _ & Hall).
        replace (Z.to_nat m) with (S (Z.to_nat (m - 1))) in Hf by lia. cbn [firstn] in Hf. injection Hf as _ Hf.
        assert (Hsk : skip_while ismnem r = skip_while ismnem (skipn (Z.to_nat (m-1)) r)).
        { rewrite <- (firstn_skipn (Z.to_nat (m-1)) r) at 1. apply skip_while_app. now rewrite Hf. }
        pose proof (sfx_skip_while ismnem (skipn (Z.to_nat (m-1)) r)) as Hsf. rewrite <- Hsk in Hsf. fold l' in Hsf.
        apply sfx_len in Hsf. rewrite skipn_length in Hsf. cbn [length] in Hm2. lia.
    + unfold used. replace (Z.of_nat (length (c :: r)) - Z.of_nat (length (c :: r))) with 0 by lia.
      split; [cbn [length]; lia|]. split; [lia|]. intros m [Hm1 Hm2] (c0 & r0 & Hf & Ha & _).
      replace (Z.to_nat m) with (S (Z.to_nat (m - 1))) in Hf by lia. cbn [firstn] in Hf. injection Hf as -> _. congruence.
Qed.
Print Assumptions chars_longest.

(* ---------- single character tokens and newline ---------- *)
Definition One (k:N) (t:bytes) : Prop := t = [k].
Lemma chr_longest t k s : longest (One k) s (disp (lex_chr t k s)).
Proof.
  unfold lex_chr. destruct s as [|c r]; cbn [starts].
  - cbn. split; [lia|]. split; [lia|]. intros m Hm. cbn in Hm. lia.
  - unfold ischr. destruct (N.eqb_spec c k) as [->|Hne]; cbn [disp mk].
    + split; [cbn [length]; lia|]. split; [intros _; reflexivity|].
      intros m [Hm1 Hm2] Hf. unfold One in Hf. apply (f_equal (@length _)) in Hf. rewrite firstn_length in Hf. cbn [length] in *. lia.
    + split; [cbn [length]; lia|]. split; [lia|]. intros m [Hm1 Hm2] Hf. unfold One in Hf.
      replace (Z.to_nat m) with (S (Z.to_nat (m-1))) in Hf by lia. cbn [firstn] in Hf. injection Hf as -> _. congruence.
Qed.

(* ---------- expression (flat): ( chars ) ---------- *)
Definition Expr (t:bytes) : Prop := exists body, t = 40%N :: body ++ [41%N] /\ all isexpr body.
Lemma isexpr_not_close : isexpr 41%N = false. Proof. reflexivity. Qed.
Lemma expr_longest s : longest Expr s (disp (lex_expr s)).
Proof.
  unfold lex_expr. destruct s as [|c r]; cbn [starts].
  - cbn. split; [lia|]. split; [lia|]. intros m Hm. cbn in Hm. lia.
  - unfold ischr at 1. destruct (N.eqb_spec c 40) as [->|Hne]; cbn [tl].
    + destruct (skip_while_split isexpr r) as (pre & Hs & Hp). set (l1 := skip_while isexpr r) in *.
      assert (Hlen : Z.of_nat (length r) = Z.of_nat (length pre) + Z.of_nat (length l1)).
      { pose proof (f_equal (@length _) Hs) as Hl. rewrite app_length in Hl. lia. }
      (* any expression token at the front has exactly this body *)
      assert (Huniq : forall m, 0 < m <= Z.of_nat (length (40%N :: r)) -> Expr (firstn (Z.to_nat m) (40%N :: r)) ->
                      exists l2, l1 = 41%N :: l2 /\ m = Z.of_nat (length pre) + 2).
      { intros m Hm (body & Hf & Hb).
        replace (Z.to_nat m) with (S (Z.to_nat (m-1))) in Hf by lia. cbn [firstn] in Hf. injection Hf as Hf.
        assert (Hr : r = (body ++ [41%N]) ++ skipn (Z.to_nat (m-1)) r) by (rewrite <- Hf; symmetry; apply firstn_skipn).
        assert (Hl1 : l1 = 41%N :: skipn (Z.to_nat (m-1)) r).
        { unfold l1. rewrite Hr at 1. rewrite <- app_assoc. rewrite skip_while_app by exact Hb. cbn [app skip_while]. rewrite isexpr_not_close. reflexivity. }
        exists (skipn (Z.to_nat (m-1)) r). split; [exact Hl1|].
        cbn [length] in Hm.
        assert (Hl : Z.of_nat (length l1) = Z.of_nat (length r) - (m - 1) + 1).
        { rewrite Hl1. cbn [length]. rewrite skipn_length. unfold bytes, byte in *. lia. }
        unfold bytes, byte in *. lia. }
      destruct (starts (ischr 41%N) l1) eqn:Ecl; cbn [disp mk].
      * destruct l1 as [|c1 l2] eqn:El1; [discriminate|]. cbn in Ecl. unfold ischr in Ecl. apply N.eqb_eq in Ecl. subst c1. cbn [tl].
        assert (Hu : used (40%N :: r) l2 = Z.of_nat (length pre) + 2) by (unfold used; cbn [length] in *; lia).
        unfold bytes, byte in *. rewrite Hu. split; [cbn [length] in Hlen |- *; rewrite ?Nat2Z.inj_succ in *; unfold bytes, byte in *; lia|]. split.
        -- intros _. exists pre. split; [|exact Hp].
           replace (Z.to_nat (Z.of_nat (length pre) + 2)) with (S (length pre + 1)) by (unfold bytes, byte in *; lia). cbn [firstn]. f_equal.
           rewrite Hs. rewrite firstn_app. rewrite firstn_all2 by (unfold bytes, byte in *; lia). f_equal. replace (length pre + 1 - length pre)%nat with 1%nat by (unfold bytes, byte in *; lia). reflexivity.
        -- intros m [Hm1 Hm2] HE. destruct (Huniq m ltac:(unfold bytes, byte in *; lia) HE) as (l2' & _ & Hm). unfold bytes, byte in *. lia.
      * unfold used. replace (Z.of_nat (length (40%N :: r)) - Z.of_nat (length (40%N :: r))) with 0 by lia.
        split; [cbn [length]; lia|]. split; [lia|]. intros m [Hm1 Hm2] HE. destruct (Huniq m ltac:(unfold bytes, byte in *; lia) HE) as (l2' & Hl & _).
        rewrite Hl in Ecl. cbn in Ecl. discriminate.
    + cbn [disp mk]. split; [cbn [length]; lia|]. split; [lia|]. intros m [Hm1 Hm2] (body & Hf & _).
      replace (Z.to_nat m) with (S (Z.to_nat (m-1))) in Hf by lia. cbn [firstn] in Hf. injection Hf as -> _. congruence.
Qed.
Print Assumptions expr_longest.
