(* C04, integers: the strtol/strtoul model reads a digit string to exactly its value *)
From Coq Require Import Bool List NArith ZArith Lia Zify.
From M Require Import ParserModel.
Import ListNotations.
Local Open Scope Z_scope.

(* positional value of a digit string *)
Definition pval (base:Z) (ds:list N) : Z := fold_left (fun a c => a * base + digval c) ds 0.
Definition isdig (base:Z) (c:N) : bool := digval c <? base.
Definition stops (base:Z) (rest:list N) : Prop := match rest with c :: _ => isdig base c = false | [] => True end.

Lemma fold_digits base ds : forall acc, fold_left (fun a c => a * base + digval c) ds acc = acc * base ^ Z.of_nat (length ds) + pval base ds.
Proof.
  unfold pval. induction ds as [|c r IH]; intro acc; cbn [fold_left length]; [change (Z.of_nat 0) with 0; rewrite Z.pow_0_r; lia|].
  rewrite IH, (IH (0 * base + digval c)). rewrite Nat2Z.inj_succ, Z.pow_succ_r by lia. ring.
Qed.
Lemma digs_value base : forall ds rest acc n, forallb (isdig base) ds = true -> stops base rest ->
  digs base (ds ++ rest) acc n = (fold_left (fun a c => a * base + digval c) ds acc, n + Z.of_nat (length ds)).
Proof.
  induction ds as [|c r IH]; intros rest acc n Hd Hs.
  - cbn [app fold_left length]. rewrite Z.add_0_r. destruct rest as [|x xs]; [reflexivity|]. cbn [digs]. unfold stops, isdig in Hs. now rewrite Hs.
  - cbn [forallb] in Hd. apply andb_prop in Hd as [Hc Hr]. cbn [app digs fold_left length]. unfold isdig in Hc. rewrite Hc.
    rewrite IH by assumption. f_equal. lia.
Qed.

(* strtol / strtoul on: blanks, optional sign, digits (base 10: no prefix), then something that is not a digit *)
Definition sign_of (sg:list N) : option bool :=
  match sg with [] => Some false | [c] => if (c =? 43)%N then Some false else if (c =? 45)%N then Some true else None | _ => None end.
Theorem strto_dec ws sg ds rest neg :
  forallb isspace ws = true -> sign_of sg = Some neg -> ds <> [] -> forallb (isdig 10) ds = true -> stops 10 rest ->
  strto (ws ++ sg ++ ds ++ rest) 10 = (Z.of_nat (length ws) + Z.of_nat (length sg) + Z.of_nat (length ds), pval 10 ds, neg).
Proof.
  intros Hws Hsg Hne Hd Hs. unfold strto.
  assert (Hd0 : exists d0 dr, ds = d0 :: dr /\ isdig 10 d0 = true).
  { destruct ds as [|d0 dr]; [congruence|]. cbn [forallb] in Hd. apply andb_prop in Hd as [H _]. eauto. }
  destruct Hd0 as (d0 & dr & Eds & Hd0).
  assert (Hnsp : forall c, isdig 10 c = true -> isspace c = false).
  { intros c Hc. unfold isdig, digval in Hc. unfold isspace.
    destruct ((48 <=? c) && (c <=? 57))%N eqn:E1.
    - apply andb_prop in E1 as [A B]. apply N.leb_le in A. apply N.leb_le in B.
      destruct (N.eqb_spec c 32); [lia|]. destruct (N.leb_spec 9 c), (N.leb_spec c 13); cbn; try reflexivity; lia.
    - destruct ((65 <=? c) && (c <=? 90))%N eqn:E2; [apply andb_prop in E2 as [A B]; apply N.leb_le in A; apply N.leb_le in B; apply Z.ltb_lt in Hc; lia|].
      destruct ((97 <=? c) && (c <=? 122))%N eqn:E3; [apply andb_prop in E3 as [A B]; apply N.leb_le in A; apply N.leb_le in B; apply Z.ltb_lt in Hc; lia|].
      apply Z.ltb_lt in Hc. lia. }
  assert (Hsk : forall l n, (match l with c :: _ => isspace c = false | [] => True end) -> skipsp (ws ++ l) n = (l, n + Z.of_nat (length ws))).
  { clear - Hws. induction ws as [|w r IH]; intros l n Hl.
    - cbn [app length]. rewrite Z.add_0_r. destruct l as [|c x]; [reflexivity|]. cbn [skipsp]. now rewrite Hl.
    - cbn [forallb] in Hws. apply andb_prop in Hws as [Hw Hr]. cbn [app skipsp length]. rewrite Hw. rewrite IH by assumption. f_equal. lia. }
  (* the sign cases *)
  destruct sg as [|s [|s2 sr]]; cbn [sign_of] in Hsg.
  - injection Hsg as <-. cbn [app length]. rewrite Hsk by (rewrite Eds; cbn [app]; now apply Hnsp).
    rewrite Eds. cbn [app hd]. 
    assert (Hns : (d0 =? 45)%N = false /\ (d0 =? 43)%N = false).
    { unfold isdig, digval in Hd0. split; apply N.eqb_neq; intro; subst d0; vm_compute in Hd0; discriminate. }
    destruct Hns as [H45 H43]. rewrite H45, H43. cbn [orb andb Z.eqb]. change (10 =? 16)%positive with false. cbn [andb].
    change (d0 :: dr ++ rest) with ((d0 :: dr) ++ rest). rewrite <- Eds. rewrite digs_value by assumption.
    rewrite fold_digits. cbn [Z.mul]. 
    assert (Hl : Z.of_nat (length ds) <> 0) by (rewrite Eds; cbn [length]; lia).
    destruct (Z.eqb_spec (0 + Z.of_nat (length ds)) 0); [lia|]. f_equal. f_equal. lia.
  - assert (Hs' : (s = 43%N /\ neg = false) \/ (s = 45%N /\ neg = true)).
    { destruct (N.eqb_spec s 43) as [->|H1]; [left; split; [reflexivity|now injection Hsg]|].
      destruct (N.eqb_spec s 45) as [->|H2]; [right; split; [reflexivity|now injection Hsg]|]. discriminate. }
    cbn [app length]. rewrite Hsk by (destruct Hs' as [[-> _]|[-> _]]; reflexivity).
    cbn [hd tl].
    destruct Hs' as [[-> ->]|[-> ->]]; cbn [N.eqb Pos.eqb orb andb Z.eqb tl]; change (10 =? 16)%positive with false; cbn [andb];
    rewrite digs_value by assumption; rewrite fold_digits; cbn [Z.mul];
    (assert (Hl : Z.of_nat (length ds) <> 0) by (rewrite Eds; cbn [length]; lia));
    (destruct (Z.eqb_spec (0 + Z.of_nat (length ds)) 0); [lia|]); f_equal; f_equal; lia.
  - discriminate.
Qed.
Print Assumptions strto_dec.

(* the conversions that follow strtol/strtoul are exact on values of the target width *)
Ltac Zify.zify_post_hook ::= Z.div_mod_to_equations.
Lemma signed_exact w v (neg:bool) : (w = 32 \/ w = 64) -> 0 <= v ->
  let x := if neg then - v else v in - 2 ^ (w - 1) <= x < 2 ^ (w - 1) -> wraps w (strtol_val v neg) = x.
Proof.
  intros Hw Hv x Hx. unfold wraps, strtol_val. subst x.
  destruct Hw as [-> | ->]; destruct neg; cbn [Z.sub Z.pow Z.pow_pos Pos.iter Z.mul Pos.mul Pos.add Z.add Z.opp Z.pos_sub Pos.pred_double] in *;
  match goal with |- context [Z.max ?a ?b] => rewrite (Z.max_l a b) by lia | |- context [Z.min ?a ?b] => rewrite (Z.min_l a b) by lia end;
  match goal with |- context [?a mod ?b <? ?c] => destruct (Z.ltb_spec (a mod b) c) end; lia.
Qed.
Lemma unsigned_exact w v : (w = 32 \/ w = 64) -> 0 <= v < 2 ^ w -> wrapu w (strtoul_val v false) = v.
Proof.
  intros Hw Hv. unfold wrapu, strtoul_val.
  destruct Hw as [-> | ->]; cbn [Z.pow Z.pow_pos Pos.iter Z.mul Pos.mul] in *;
  match goal with |- context [?a <=? v] => destruct (Z.leb_spec a v) end; try lia; apply Z.mod_small; lia.
Qed.

(* C04 decint_exact: an in-range decimal integer literal, with or without sign, followed by a non-digit, reads to its value *)
Theorem decint_exact_signed w sg ds rest neg : (w = 32 \/ w = 64) ->
  sign_of sg = Some neg -> ds <> [] -> forallb (isdig 10) ds = true -> stops 10 rest ->
  let x := if neg then - pval 10 ds else pval 10 ds in - 2 ^ (w - 1) <= x < 2 ^ (w - 1) ->
  let '(used, v, ng) := strto (sg ++ ds ++ rest) 10 in (0 <? used) = true /\ wraps w (strtol_val v ng) = x.
Proof.
  intros Hw Hsg Hne Hd Hs x Hx. pose proof (strto_dec [] sg ds rest neg eq_refl Hsg Hne Hd Hs) as H. cbn [app length] in H. rewrite H.
  split.
  - apply Z.ltb_lt. destruct ds; [congruence|cbn [length]; lia].
  - apply signed_exact; [exact Hw| |exact Hx].
    unfold pval. clear - Hd. assert (G : forall l acc, 0 <= acc -> forallb (isdig 10) l = true -> 0 <= fold_left (fun a c => a * 10 + digval c) l acc).
    { induction l as [|c r IH]; intros acc Ha Hl; [exact Ha|]. cbn [forallb] in Hl. apply andb_prop in Hl as [Hc Hr]. cbn [fold_left]. apply IH; [|exact Hr].
      assert (0 <= digval c) by (unfold digval; repeat match goal with |- context [if ?b then _ else _] => destruct b eqn:? end;
        repeat match goal with H : (_ && _)%bool = true |- _ => apply andb_prop in H as [? ?] end; repeat match goal with H : (_ <=? _)%N = true |- _ => apply N.leb_le in H end; lia). lia. }
    now apply G.
Qed.
Print Assumptions decint_exact_signed.
