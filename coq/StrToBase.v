(* C04, nondecimal literals: the strtoul model reads the digits after #H / #Q / #B to exactly their value *)
From Coq Require Import Bool List NArith ZArith Lia.
From M Require Import ParserModel StrTo.
Import ListNotations.
Local Open Scope Z_scope.

(* a digit of base <= 16 is neither white space nor a sign *)
Lemma isdig_plain base c : base <= 16 -> isdig base c = true -> isspace c = false /\ (c =? 45)%N = false /\ (c =? 43)%N = false.
Proof.
  intros Hb Hc. unfold isdig, digval in Hc. apply Z.ltb_lt in Hc.
  destruct ((48 <=? c) && (c <=? 57))%N eqn:E1.
  { apply andb_prop in E1 as [A B]. apply N.leb_le in A. apply N.leb_le in B. unfold isspace.
    repeat split; try (apply N.eqb_neq; lia). destruct (N.eqb_spec c 32); [lia|]. destruct (N.leb_spec 9 c), (N.leb_spec c 13); cbn; try reflexivity; lia. }
  destruct ((65 <=? c) && (c <=? 90))%N eqn:E2.
  { apply andb_prop in E2 as [A B]. apply N.leb_le in A. apply N.leb_le in B. unfold isspace.
    repeat split; try (apply N.eqb_neq; lia). destruct (N.eqb_spec c 32); [lia|]. destruct (N.leb_spec 9 c), (N.leb_spec c 13); cbn; try reflexivity; lia. }
  destruct ((97 <=? c) && (c <=? 122))%N eqn:E3.
  { apply andb_prop in E3 as [A B]. apply N.leb_le in A. apply N.leb_le in B. unfold isspace.
    repeat split; try (apply N.eqb_neq; lia). destruct (N.eqb_spec c 32); [lia|]. destruct (N.leb_spec 9 c), (N.leb_spec c 13); cbn; try reflexivity; lia. }
  lia.
Qed.

(* the C library would also accept a 0x prefix in base 16; the token grammar never produces one unless the single digit 0
   is followed by x or X and a hexadecimal digit, which the hypothesis excludes *)
Definition no_0x (ds rest:list N) : Prop :=
  match ds, rest with [48%N], c :: c2 :: _ => ((c =? 120) || (c =? 88))%N && (digval c2 <? 16) = false | _, _ => True end.

Theorem strto_nondec base ds rest : (base = 2 \/ base = 8 \/ base = 16) ->
  ds <> [] -> forallb (isdig base) ds = true -> stops base rest -> no_0x ds rest ->
  strto (ds ++ rest) base = (Z.of_nat (length ds), pval base ds, false).
Proof.
  intros Hb Hne Hd Hs H0x. unfold strto.
  destruct ds as [|d0 dr]; [congruence|]. pose proof Hd as Hd'. cbn [forallb] in Hd'. apply andb_prop in Hd' as [Hd0 Hdr].
  destruct (isdig_plain base d0 ltac:(destruct Hb as [->|[->| ->]]; lia) Hd0) as (Hsp & H45 & H43).
  cbn [app skipsp]. rewrite Hsp. cbn [hd]. rewrite H45, H43. cbn [orb].
  (* no prefix is skipped *)
  assert (Hpfx : (base =? 16) && (d0 =? 48)%N && ((hd 0%N (tl (d0 :: dr ++ rest)) =? 120) || (hd 0%N (tl (d0 :: dr ++ rest)) =? 88))%N &&
                 (digval (hd 0%N (tl (tl (d0 :: dr ++ rest)))) <? 16) = false).
  { cbn [tl]. destruct (Z.eqb_spec base 16) as [E16|]; [|reflexivity]. cbn [andb].
    destruct (N.eqb_spec d0 48) as [->|]; [|reflexivity]. cbn [andb].
    destruct dr as [|d1 dr'].
    - cbn [app]. destruct rest as [|c [|c2 r2]]; cbn [hd tl]; try reflexivity.
      + destruct ((c =? 120) || (c =? 88))%N; reflexivity.
      + exact H0x.
    - cbn [app hd]. cbn [forallb] in Hdr. apply andb_prop in Hdr as [Hd1 _]. unfold isdig, digval in Hd1. apply Z.ltb_lt in Hd1. rewrite E16 in Hd1.
      assert ((d1 =? 120)%N = false /\ (d1 =? 88)%N = false) as [-> ->].
      { split; apply N.eqb_neq; intro; subst d1; vm_compute in Hd1; discriminate. }
      reflexivity. }
  change (hd 0%N (d0 :: dr ++ rest)) with d0. rewrite Hpfx. change (d0 :: dr ++ rest) with ((d0 :: dr) ++ rest). rewrite digs_value by assumption.
  rewrite fold_digits. cbn [Z.mul]. cbn [length]. destruct (Z.eqb_spec (0 + Z.of_nat (S (length dr))) 0); [lia|].
  replace (0 + 0 + 0 + (0 + Z.of_nat (S (length dr)))) with (Z.of_nat (S (length dr))) by lia. replace (0 + pval base (d0 :: dr)) with (pval base (d0 :: dr)) by lia. reflexivity.
Qed.
(* and the value survives the width conversion when it fits *)
Corollary nondec_exact base ds rest w : (base = 2 \/ base = 8 \/ base = 16) -> (w = 32 \/ w = 64) ->
  ds <> [] -> forallb (isdig base) ds = true -> stops base rest -> no_0x ds rest -> 0 <= pval base ds < 2 ^ w ->
  let '(used, v, ng) := strto (ds ++ rest) base in (0 <? used) = true /\ wrapu w (strtoul_val v ng) = pval base ds.
Proof.
  intros Hb Hw Hne Hd Hs H0 Hr. rewrite (strto_nondec base ds rest Hb Hne Hd Hs H0). split.
  - apply Z.ltb_lt. destruct ds; [congruence|cbn [length]; lia].
  - now apply unsigned_exact.
Qed.
Print Assumptions nondec_exact.
(* the excluded corner, evaluated: "0" followed by "x1F" is read as 31 although the token is the digit 0 *)
Example zero_x_corner : strto [48;120;49;70;44]%N 16 = (4, 31, false).
Proof. vm_compute. reflexivity. Qed.
