(* C13, suffix program data (relaxed syntax, as the source documents):  /? letters (-? digit)?  ( [/.] letters* (-? digit?) )*
   -- a suffix written element by element, followed by something that cannot continue it, is consumed exactly and entirely. *)
From Coq Require Import Bool List NArith ZArith Lia.
From M Require Import LexModel LexBounds DecSpec MoreSpecs.
Import ListNotations.
Local Open Scope Z_scope.

(* the optional part after the letters of an element: a minus sign and/or one digit *)
Definition tailpart (m:bool) (d:option N) : bytes := (if m then [45%N] else []) ++ (match d with Some x => [x] | None => [] end).
Definition digit_ok (d:option N) : Prop := match d with Some x => isdigit x = true | None => True end.
(* what must not follow an element, so that the element ends where it was written *)
Definition cont_ok (m:bool) (d:option N) (next:bytes) : Prop :=
  (m = false -> d = None -> starts (ischr 45%N) next = false) /\ (d = None -> starts isdigit next = false) /\
  (m = false -> d = None -> starts isalpha next = false).
Definition sepc (c:N) : bool := ischr 47%N c || ischr 46%N c.

Lemma digit_not_alpha x : isdigit x = true -> isalpha x = false.
Proof. unfold isdigit, isalpha, isupper, islower, inr. intro H. apply andb_prop in H as [A B]. apply N.leb_le in A. apply N.leb_le in B.
  destruct (N.leb_spec 65 x), (N.leb_spec x 90), (N.leb_spec 97 x), (N.leb_spec x 122); cbn; try reflexivity; lia. Qed.
Lemma digit_not_minus x : isdigit x = true -> ischr 45%N x = false.
Proof. unfold isdigit, inr, ischr. intro H. apply andb_prop in H as [A B]. apply N.leb_le in A. apply N.leb_le in B. apply N.eqb_neq. lia. Qed.

(* letters, then the optional part, then something that stops it: the three skips consume exactly that *)
Lemma element_scan a m d next : all isalpha a -> digit_ok d -> cont_ok m d next ->
  skip_opt isdigit (skip_opt (ischr 45%N) (skip_while isalpha (a ++ tailpart m d ++ next))) = next.
Proof.
  intros Ha Hd (C1 & C2 & C3). unfold tailpart.
  assert (Hstop : starts isalpha ((if m then [45%N] else []) ++ (match d with Some x => [x] | None => [] end) ++ next) = false).
  { destruct m; [reflexivity|]. destruct d as [x|]; cbn [app]; [cbn [starts]; now apply digit_not_alpha|now apply C3]. }
  rewrite <- app_assoc. rewrite skip_while_app by exact Ha. rewrite skip_while_stop by exact Hstop.
  destruct m; cbn [app skip_opt].
  - change (ischr 45%N 45%N) with true. cbv iota. destruct d as [x|]; cbn [app skip_opt].
    + cbn in Hd. now rewrite Hd.
    + specialize (C2 eq_refl). destruct next as [|y r]; [reflexivity|]. cbn [starts] in C2. cbn [skip_opt]. now rewrite C2.
  - destruct d as [x|]; cbn [app skip_opt].
    + cbn in Hd. rewrite (digit_not_minus x Hd). cbn [skip_opt]. now rewrite Hd.
    + specialize (C1 eq_refl eq_refl). specialize (C2 eq_refl). destruct next as [|y r]; [reflexivity|]. cbn [starts] in C1, C2. cbn [skip_opt]. rewrite C1. cbn [skip_opt]. now rewrite C2.
Qed.

(* later elements: separator, letters (possibly none), optional part *)
Definition later := (N * bytes * bool * option N)%type.
Definition later_text (e:later) : bytes := let '(s, a, m, d) := e in s :: a ++ tailpart m d.
Definition later_ok (e:later) : Prop := let '(s, a, m, d) := e in sepc s = true /\ all isalpha a /\ digit_ok d.
Fixpoint laters_text (es:list later) : bytes := match es with [] => [] | e :: r => later_text e ++ laters_text r end.
(* the stop condition is only needed for the last element: a following element starts with a separator *)
Fixpoint last_cont (m:bool) (d:option N) (es:list later) (rest:bytes) : Prop :=
  match es with [] => cont_ok m d rest | (_, _, m', d') :: r => last_cont m' d' r rest end.
Lemma sep_facts s : sepc s = true -> ischr 45%N s = false /\ isdigit s = false /\ isalpha s = false.
Proof. unfold sepc, ischr. intro H. apply orb_prop in H as [H|H]; apply N.eqb_eq in H; subst; repeat split; reflexivity. Qed.
Lemma cont_sep m d s r : sepc s = true -> cont_ok m d (s :: r).
Proof. intro H. destruct (sep_facts s H) as (A & B & C). unfold cont_ok. cbn [starts]. repeat split; intros; assumption. Qed.

Lemma loop_all : forall es fuel rest, Forall later_ok es -> starts sepc rest = false ->
  (match es with [] => True | (_, _, m', d') :: r => last_cont m' d' r rest end) -> (length es <= fuel)%nat ->
  suffix_loop fuel (laters_text es ++ rest) = rest.
Proof.
  induction es as [|[[[s a] m] d] r IH]; intros fuel rest Hok Hr Hlast Hf.
  - cbn [laters_text app]. destruct fuel as [|f]; [reflexivity|]. cbn [suffix_loop]. change (starts (fun c => ischr 47%N c || ischr 46%N c) rest) with (starts sepc rest). now rewrite Hr.
  - destruct fuel as [|f]; [cbn [length] in Hf; lia|]. inversion Hok as [|? ? Hh Hokr]; subst. unfold later_ok in Hh. destruct Hh as (Hs & Ha & Hd).
    cbn [laters_text later_text app suffix_loop starts]. change (ischr 47%N s || ischr 46%N s) with (sepc s). rewrite Hs. cbn [tl].
    rewrite <- !app_assoc.
    assert (Hc : cont_ok m d (laters_text r ++ rest)).
    { destruct r as [|[[[s2 a2] m2] d2] r2].
      - cbn [laters_text app]. exact Hlast.
      - cbn [laters_text later_text app]. inversion Hokr as [|? ? Hh2 _]; subst. unfold later_ok in Hh2. destruct Hh2 as (Hs2 & _). now apply cont_sep. }
    rewrite (element_scan a m d (laters_text r ++ rest) Ha Hd Hc).
    apply IH; [exact Hokr|exact Hr| |cbn [length] in Hf; lia].
    destruct r as [|[[[s2 a2] m2] d2] r2]; [exact I|]. exact Hlast.
Qed.

Theorem suffix_complete (slash:bool) a m d es rest : a <> [] -> all isalpha a -> digit_ok d -> Forall later_ok es ->
  starts sepc rest = false -> last_cont m d es rest ->
  let t := (if slash then [47%N] else []) ++ a ++ tailpart m d ++ laters_text es in
  lex_suffix (t ++ rest) = mk T_SUFFIX 0 (Z.of_nat (length t)) (Z.of_nat (length t)) (Z.of_nat (length t)).
Proof.
  intros Hne Ha Hd Hes Hr Hlast t.
  assert (Ha0 : exists c r, a = c :: r /\ isalpha c = true) by (destruct a as [|c r]; [congruence|]; unfold all in Ha; cbn [forallb] in Ha; apply andb_prop in Ha as [H _]; eauto).
  destruct Ha0 as (c0 & r0 & Ea & Hc0).
  set (body := a ++ tailpart m d ++ laters_text es ++ rest).
  assert (Et : t ++ rest = (if slash then [47%N] else []) ++ body) by (unfold t, body; now rewrite <- !app_assoc).
  unfold lex_suffix. rewrite Et.
  assert (H0 : skip_opt (ischr 47%N) ((if slash then [47%N] else []) ++ body) = body).
  { destruct slash; cbn [app skip_opt]; [reflexivity|]. unfold body. rewrite Ea. cbn [app skip_opt].
    assert (ischr 47%N c0 = false) by (unfold ischr; apply N.eqb_neq; intro; subst; discriminate Hc0). now rewrite H. }
  rewrite H0.
  assert (Hc : cont_ok m d (laters_text es ++ rest)).
  { destruct es as [|[[[s2 a2] m2] d2] r2].
    - cbn [laters_text app]. exact Hlast.
    - cbn [laters_text later_text app]. inversion Hes as [|? ? Hh2 _]; subst. unfold later_ok in Hh2. destruct Hh2 as (Hs2 & _). now apply cont_sep. }
  assert (Hstop : starts isalpha (tailpart m d ++ laters_text es ++ rest) = false).
  { unfold tailpart. destruct m; [reflexivity|]. destruct d as [x|]; cbn [app]; [cbn [starts]; now apply digit_not_alpha|]. now apply Hc. }
  assert (Hal : skip_while isalpha body = tailpart m d ++ laters_text es ++ rest).
  { unfold body. rewrite skip_while_app by exact Ha. now apply skip_while_stop. }
  rewrite Hal.
  assert (Hu : used body (tailpart m d ++ laters_text es ++ rest) = Z.of_nat (length a)) by (unfold body; apply used_app).
  rewrite Hu. destruct (Z.ltb_spec 0 (Z.of_nat (length a))); [|rewrite Ea in *; cbn [length] in *; lia].
  pose proof (element_scan a m d (laters_text es ++ rest) Ha Hd Hc) as Hel.
  unfold body in Hal. rewrite Hal in Hel. rewrite Hel.
  rewrite loop_all; [| exact Hes | exact Hr | | ].
  - assert (Hn : used ((if slash then [47%N] else []) ++ body) rest = Z.of_nat (length t)).
    { rewrite <- Et. apply used_app. }
    rewrite Hn. destruct (Z.ltb_spec 0 (Z.of_nat (length t))); [reflexivity|].
    unfold t in *. rewrite !app_length in *. rewrite Ea in *. cbn [length] in *. lia.
  - destruct es as [|[[[s' a'] m'] d'] q]; [exact I|exact Hlast].
  - rewrite app_length. clear. induction es as [|[[[s a] m] d] r IH]; cbn [length laters_text later_text]; [lia|]. rewrite !app_length in *. cbn [length]. lia.
Qed.
Print Assumptions suffix_complete.

(* non-vacuity: KG.M2.S-2 followed by a comma *)
Example ex_suffix : lex_suffix ([75;71;46;77;50;46;83;45;50;44]%N) = mk T_SUFFIX 0 9 9 9.
Proof. reflexivity. Qed.
