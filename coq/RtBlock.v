(* C07/C17, blocks: what SCPI_ResultArbitraryBlock writes is one block token whose payload is the data *)
From Coq Require Import Bool List NArith ZArith Lia.
From M Require Import FmtModel IntFmtProofs.
From M Require Import LexModel LexBounds DecSpec MoreSpecs.
From M Require Import ParserModel.
Import ListNotations.
Local Open Scope Z_scope.

(* the decimal digits int2str writes read back to the number *)
Lemma digit_char_dec d : 0 <= d < 10 -> digit_char d = 48 + d.
Proof. intro H. unfold digit_char. destruct (Z.ltb_spec d 10); lia. Qed.
Lemma dval_digits_fix : forall k u acc, 0 <= u ->
  dval acc (bz (digits_fix k 10 u)) = acc * 10 ^ Z.of_nat k + u mod 10 ^ Z.of_nat k.
Proof.
  induction k as [|k IH]; intros u acc Hu.
  - cbn [digits_fix bz map dval fold_left]. change (Z.of_nat 0) with 0. rewrite Z.pow_0_r, Z.mod_1_r. lia.
  - cbn [digits_fix bz map]. unfold dval. cbn [fold_left]. fold (bz (digits_fix k 10 u)). fold (dval (acc * 10 + (Z.of_N (Z.to_N (digit_char ((u / 10 ^ Z.of_nat k) mod 10))) - 48)) (bz (digits_fix k 10 u))).
    rewrite IH by exact Hu.
    assert (Hd : 0 <= (u / 10 ^ Z.of_nat k) mod 10 < 10) by (apply Z.mod_pos_bound; lia).
    rewrite digit_char_dec by exact Hd. rewrite Z2N.id by lia.
    rewrite Nat2Z.inj_succ, Z.pow_succ_r by lia.
    assert (Hp : 0 < 10 ^ Z.of_nat k) by (apply Z.pow_pos_nonneg; lia).
    replace (10 * 10 ^ Z.of_nat k) with (10 ^ Z.of_nat k * 10) by lia. rewrite Z.rem_mul_r by lia. lia.
Qed.
Lemma digits_fix_isdigit : forall k u, all isdigit (bz (digits_fix k 10 u)).
Proof.
  induction k as [|k IH]; intro u; [reflexivity|]. cbn [digits_fix bz map]. unfold all. cbn [forallb]. fold (bz (digits_fix k 10 u)).
  assert (Hd : 0 <= (u / 10 ^ Z.of_nat k) mod 10 < 10) by (apply Z.mod_pos_bound; lia).
  rewrite digit_char_dec by exact Hd. set (d := (u / 10 ^ Z.of_nat k) mod 10) in *.
  assert (Hc : isdigit (Z.to_N (48 + d)) = true).
  { unfold isdigit, inr. apply andb_true_intro. split; apply N.leb_le; lia. }
  rewrite Hc. apply IH.
Qed.

(* the header of a block of n bytes, 0 <= n < 10^9 *)
Definition hdr_digits (n:Z) : list Z := if n =? 0 then [48] else canon_digits 10 n.
Lemma block_header_eq n : 0 <= n < 10^9 ->
  block_header n = 35%N :: Z.to_N (48 + Z.of_nat (length (hdr_digits n))) :: bz (hdr_digits n) /\
  (1 <= length (hdr_digits n) <= 9)%nat /\ all isdigit (bz (hdr_digits n)) /\ dval 0 (bz (hdr_digits n)) = n.
Proof.
  intro Hn. unfold block_header. rewrite (int2str_exact 32 n 10 10 false (or_introl eq_refl) ltac:(lia)). cbv zeta.
  assert (Hmod : n mod 2 ^ 32 = n) by (apply Z.mod_small; lia).
  assert (Hcanon : canonical 32 n 10 false = hdr_digits n).
  { unfold canonical, hdr_digits, eff_base. rewrite Hmod. cbn [Z.eqb andb]. destruct (n =? 0); reflexivity. }
  rewrite Hcanon.
  assert (Hlen : (1 <= length (hdr_digits n) <= 9)%nat /\ all isdigit (bz (hdr_digits n)) /\ dval 0 (bz (hdr_digits n)) = n).
  { unfold hdr_digits. destruct (Z.eqb_spec n 0) as [->|Hnz]; [cbn; repeat split; lia|].
    unfold canon_digits. rewrite digits_fix_length.
    pose proof (top_spec 64 10 n ltac:(lia) ltac:(lia) ltac:(change (Z.of_nat 64) with 64; lia)) as [T1 T2].
    assert (Htop : (top 64 10 n <= 8)%nat).
    { destruct (Nat.le_gt_cases (top 64 10 n) 8) as [H|H]; [exact H|exfalso].
      assert (10 ^ 9 <= 10 ^ Z.of_nat (top 64 10 n)) by (apply Z.pow_le_mono_r; lia). lia. }
    split; [lia|]. split; [apply digits_fix_isdigit|]. rewrite dval_digits_fix by lia. rewrite Z.mod_small by lia. lia. }
  destruct Hlen as (L1 & L2 & L3). rewrite firstn_all2 by lia. repeat split; auto; lia.
Qed.

Theorem block_header_block n d : Z.of_nat (length d) = n -> 0 <= n < 10^9 ->
  Block (block_header n ++ d) (2 + Z.of_nat (length (hdr_digits n))) n.
Proof.
  intros Hd Hn. destruct (block_header_eq n Hn) as (E & (L1 & L9) & Hdig & Hval). rewrite E.
  exists (Z.to_N (48 + Z.of_nat (length (hdr_digits n)))), (bz (hdr_digits n)), d. cbn [app].
  assert (Hlb : length (bz (hdr_digits n)) = length (hdr_digits n)) by (unfold bz; apply map_length).
  split; [reflexivity|]. split; [unfold isdigit, inr; apply andb_true_intro; split; apply N.leb_le; lia|].
  split; [lia|]. split; [rewrite Hlb; lia|]. split; [exact Hdig|]. split; [now rewrite Hval|]. split; [lia|]. now rewrite Hlb.
Qed.
(* SCPI_ResultArbitraryBlock followed by anything: one BLOCK token, payload = the data *)
Theorem result_block_lexes d rest : Z.of_nat (length d) < 10^9 ->
  let n := Z.of_nat (length d) in let w := block_header n ++ d in
  let r := lex_block (w ++ rest) in
  ty (tok r) = T_BLOCK /\ disp r = Z.of_nat (length w) /\ len (tok r) = n /\
  firstn (Z.to_nat (len (tok r))) (skipn (Z.to_nat (ptr (tok r))) (w ++ rest)) = d.
Proof.
  intros Hlt n w r. pose proof (block_header_block n d eq_refl ltac:(subst n; lia)) as Hb. fold w in Hb.
  pose proof (block_complete w _ _ rest Hb) as Hc. subst r. unfold LexModel.bytes, LexModel.byte in *. rewrite Hc. cbn [tok ty ptr len disp mk].
  split; [reflexivity|]. split; [reflexivity|]. split; [reflexivity|].
  destruct (block_header_eq n ltac:(subst n; lia)) as (E & _ & _ & _).
  assert (Hhl : length (block_header n) = Z.to_nat (2 + Z.of_nat (length (hdr_digits n)))) by (rewrite E; cbn [length]; unfold bz; rewrite map_length; lia).
  subst w. rewrite <- app_assoc. rewrite <- Hhl. rewrite skipn_app, skipn_all, Nat.sub_diag. cbn [skipn app].
  subst n. rewrite Nat2Z.id. rewrite firstn_app, Nat.sub_diag, firstn_all. cbn [firstn]. now rewrite app_nil_r.
Qed.
Print Assumptions result_block_lexes.
Print Assumptions block_header_eq.
