(* C08 for streams of several messages.  For streams without carriage return, quote and '#' (so that every line feed ends a
   message: strings and blocks are the constructs that may contain one) the input loop finds the messages one after the other
   whatever follows them in the buffer (LexCut.detect_cut); cutting such a stream anywhere is then invisible, provided that
   SCPI_Parse of a message does not depend on, and does not touch, the bytes behind it (the two hypotheses of the section). *)
From Coq Require Import Bool List NArith ZArith Lia.
From M Require LexModel MatchModel FmtModel LexBounds LexCut InputInv Dispatch UnitGeom Framing2 ParseLocal.
From M Require Import ParserModel Chunk Fuel.
Import Framing2.
Import ListNotations.
Local Open Scope Z_scope.

Definition segc (c:N) : bool := negb ((c =? 10) || (c =? 13) || (c =? 34) || (c =? 39) || (c =? 35))%N.
Definition seg (s:bytes) : Prop := Forall (fun c => segc c = true) s.
Definition okc (c:N) : bool := segc c || (c =? 10)%N.
Definition okstream (s:bytes) : Prop := Forall (fun c => okc c = true) s.

Lemma plainc_seg c : segc c = true -> (c =? 59)%N = false -> LexCut.plainc c = true.
Proof. unfold segc, LexCut.plainc. intros H1 H2. rewrite H2. destruct (c =? 10)%N, (c =? 13)%N, (c =? 34)%N, (c =? 39)%N, (c =? 35)%N; try discriminate H1; reflexivity. Qed.

Lemma seg_split s : seg s -> LexCut.plain s \/ exists a z, s = a ++ 59%N :: z /\ LexCut.plain a /\ seg z.
Proof.
  induction s as [|c s IH]; intro H; [left; constructor|]. inversion H as [|? ? Hc Hs]; subst.
  destruct (c =? 59)%N eqn:E.
  - apply N.eqb_eq in E. subst c. right. exists [], s. repeat split; [constructor|exact Hs].
  - destruct (IH Hs) as [Hp|(a & z & -> & Hp & Hz)].
    + left. constructor; [now apply plainc_seg|exact Hp].
    + right. exists (c :: a), z. repeat split; [constructor; [now apply plainc_seg|exact Hp]|exact Hz].
Qed.
Lemma ok_split s : okstream s -> seg s \/ exists a0 rest, s = a0 ++ 10%N :: rest /\ seg a0 /\ okstream rest.
Proof.
  induction s as [|c s IH]; intro H; [left; constructor|]. inversion H as [|? ? Hc Hs]; subst.
  destruct (c =? 10)%N eqn:E.
  - apply N.eqb_eq in E. subst c. right. exists [], s. repeat split; [constructor|exact Hs].
  - unfold okc in Hc. rewrite E, orb_false_r in Hc. destruct (IH Hs) as [Hp|(a & z & -> & Hp & Hz)].
    + left. constructor; assumption.
    + right. exists (c :: a), z. repeat split; [constructor; assumption|exact Hz].
Qed.
Lemma seg_no_nl s : seg s -> no_nl s.
Proof.
  intros H b Hb. unfold seg in H. rewrite Forall_forall in H. specialize (H b Hb). unfold segc in H.
  split; intros ->; discriminate H.
Qed.
Lemma seg_skipn n s : seg s -> seg (skipn n s).
Proof. unfold seg. intro H. rewrite Forall_forall in *. intros x Hx. apply H. eapply LexCut.in_skipn. exact Hx. Qed.
Lemma seg_ok s : seg s -> okstream s.
Proof. unfold seg, okstream. apply Forall_impl. intros c H. unfold okc. rewrite H. reflexivity. Qed.

Ltac ulia := unfold LexModel.bytes, LexModel.byte in *; lia.

(* the flag handed round the loop never influences the context *)
Lemma loop_flag f : forall c tot r r' d, fst (input_loop f c tot r d) = fst (input_loop f c tot r' d).
Proof.
  induction f as [|f IH]; intros c tot r r' d; [reflexivity|]. cbn [input_loop].
  destruct (LexModel.u_term _).
  - destruct (_ && _); [reflexivity|]. destruct (_ <=? _); [reflexivity|apply IH].
  - destruct (scpi_parse c _ d) as [c1 res]. reflexivity.
  - destruct (_ && _); [reflexivity|]. destruct (_ <=? _); [reflexivity|apply IH].
Qed.
Lemma fuel_any F F' c r d : (length (mem c) < F)%nat -> (length (mem c) < F')%nat -> input_loop F c 0 r d = input_loop F' c 0 r d.
Proof.
  intros H H'. pose proof (input_loop_fuel (F - S (length (mem c))) (S (length (mem c))) c 0 r d ltac:(lia) ltac:(lia)) as E.
  pose proof (input_loop_fuel (F' - S (length (mem c))) (S (length (mem c))) c 0 r d ltac:(lia) ltac:(lia)) as E'.
  replace (S (length (mem c)) + (F - S (length (mem c))))%nat with F in E by lia.
  replace (S (length (mem c)) + (F' - S (length (mem c))))%nat with F' in E' by lia. congruence.
Qed.

(* the loop walks through the first message unit by unit and hands exactly that message to SCPI_Parse; the message ends with a
   line feed, a carriage return, or a carriage return and the line feed behind it *)
Definition mlen (a0:bytes) (tm:N) (rest:bytes) : Z :=
  Z.of_nat (length a0) + (if (tm =? 13)%N && LexModel.starts (LexModel.ischr 10%N) rest then 2 else 1).
Lemma scan_msg_gen d a0 tm rest : seg a0 -> (tm = 10%N \/ tm = 13%N) -> forall f tot c res, mem c = a0 ++ tm :: rest ->
  0 <= tot <= Z.of_nat (length a0) -> (Z.to_nat (Z.of_nat (length a0) - tot) < f)%nat ->
  exists k, (1 <= k <= f)%nat /\ Z.of_nat k <= Z.of_nat (length a0) + 1 - tot /\
    input_loop f c tot res d =
      (let '(c1, res1) := scpi_parse c (mlen a0 tm rest) d in
       input_loop (f - k) (upd_mem c1 (dropm (mem c1) (mlen a0 tm rest))) 0 res1 d).
Proof.
  intros Ha0 Htm f. induction f as [|f IH]; intros tot c res Hm Htot Hf; [ulia|].
  cbn [input_loop]. rewrite Hm.
  assert (Hd : dropm (a0 ++ tm :: rest) tot = skipn (Z.to_nat tot) a0 ++ tm :: rest).
  { unfold dropm. rewrite skipn_app. replace (Z.to_nat tot - length a0)%nat with O by ulia. reflexivity. }
  rewrite Hd. set (s := skipn (Z.to_nat tot) a0).
  assert (Hs : seg s) by (apply seg_skipn; exact Ha0).
  assert (Hls : Z.of_nat (length s) = Z.of_nat (length a0) - tot) by (subst s; rewrite skipn_length; ulia).
  assert (Hpos : Z.of_nat (length (a0 ++ tm :: rest)) = Z.of_nat (length a0) + 1 + Z.of_nat (length rest))
    by (rewrite app_length; cbn [length]; ulia).
  assert (Hml : mlen a0 tm rest <= Z.of_nat (length a0) + 1 + Z.of_nat (length rest)).
  { unfold mlen. destruct ((tm =? 13)%N && _) eqn:E; [|ulia]. apply andb_true_iff in E as [_ E]. destruct rest; [discriminate E|cbn [length]; ulia]. }
  assert (Htc : LexCut.tchar tm) by (destruct Htm as [->| ->]; [left|right; left]; reflexivity).
  (* the unit at tot: decided by the bytes up to the first terminator *)
  assert (Hu : exists a t lf, LexCut.plain a /\ LexModel.detect_unit (s ++ tm :: rest) = LexCut.detect_t a t lf /\
                 ((t = tm /\ a = s /\ lf = LexModel.starts (LexModel.ischr 10%N) rest) \/ (t = 59%N /\ Z.of_nat (length a) + 1 <= Z.of_nat (length s)))).
  { destruct (seg_split s Hs) as [Hp|(a & z & E & Hp & Hz)].
    - exists s, tm, (LexModel.starts (LexModel.ischr 10%N) rest). split; [exact Hp|]. split; [apply LexCut.detect_cut; assumption|left; auto].
    - exists a, 59%N, (LexModel.starts (LexModel.ischr 10%N) (z ++ tm :: rest)). split; [exact Hp|]. split.
      + rewrite E, <- app_assoc. cbn [app]. apply LexCut.detect_cut; [exact Hp|right; right; reflexivity].
      + right. split; [reflexivity|]. rewrite E, app_length. cbn [length]. ulia. }
  destruct Hu as (a & t & lf & Hp & Hu & Hcase). rewrite Hu.
  assert (Hstep : forall tot1, tot < tot1 <= Z.of_nat (length a0) ->
     exists k, (1 <= k <= S f)%nat /\ Z.of_nat k <= Z.of_nat (length a0) + 1 - tot /\
       input_loop f c tot1 res d =
       (let '(c1, res1) := scpi_parse c (mlen a0 tm rest) d in
        input_loop (S f - k) (upd_mem c1 (dropm (mem c1) (mlen a0 tm rest))) 0 res1 d)).
  { intros tot1 H1. destruct (IH tot1 c res Hm ltac:(ulia) ltac:(ulia)) as (k & Hk & Hk2 & E).
    exists (S k). split; [ulia|]. split; [ulia|]. replace (S f - S k)%nat with (f - k)%nat by ulia. exact E. }
  destruct (LexCut.detect_t_shape a t lf Hp) as [[Hterm Hcons]|[Hterm [Hhdr Hcons]]].
  - destruct Hcase as [(-> & -> & ->)|[-> Hlen]].
    + (* the terminator of the message: it is complete *)
      rewrite Hterm. assert (E59 : (tm =? 59)%N = false) by (destruct Htm as [->| ->]; reflexivity). rewrite E59.
      rewrite Hcons. exists 1%nat. split; [ulia|]. split; [ulia|].
      unfold LexModel.bytes, LexModel.byte in *.
      replace (tot + (Z.of_nat (length s) + (if (tm =? 13)%N && LexModel.starts (LexModel.ischr 10%N) rest then 2 else 1))) with (mlen a0 tm rest) by (unfold mlen; lia).
      replace (S f - 1)%nat with f by lia. reflexivity.
    + rewrite Hterm. cbn [N.eqb Pos.eqb]. rewrite andb_false_r. rewrite Hcons. cbn [N.eqb Pos.eqb andb].
      destruct (Z.leb_spec (Z.of_nat (length (a0 ++ tm :: rest))) (tot + (Z.of_nat (length a) + 1))); [ulia|].
      destruct (Hstep (tot + (Z.of_nat (length a) + 1)) ltac:(ulia)) as (k & Hk & Hk2 & E). exists k. auto.
  - rewrite Hterm, Hhdr. cbn [andb].
    assert (Hla : Z.of_nat (length a) <= Z.of_nat (length s)) by (destruct Hcase as [(_ & -> & _)|[_ H]]; ulia).
    destruct (Z.leb_spec (Z.of_nat (length (a0 ++ tm :: rest))) (tot + LexModel.u_consumed (LexCut.detect_t a t lf))); [ulia|].
    destruct (Hstep (tot + LexModel.u_consumed (LexCut.detect_t a t lf)) ltac:(ulia)) as (k & Hk & Hk2 & E). exists k. auto.
Qed.
Lemma scan_msg d a0 rest : seg a0 -> forall f tot c res, mem c = a0 ++ 10%N :: rest -> 0 <= tot <= Z.of_nat (length a0) ->
  (Z.to_nat (Z.of_nat (length a0) - tot) < f)%nat ->
  exists k, (1 <= k <= f)%nat /\ Z.of_nat k <= Z.of_nat (length a0) + 1 - tot /\
    input_loop f c tot res d =
      (let '(c1, res1) := scpi_parse c (Z.of_nat (length a0) + 1) d in
       input_loop (f - k) (upd_mem c1 (dropm (mem c1) (Z.of_nat (length a0) + 1))) 0 res1 d).
Proof. intros Ha0 f tot c res Hm Htot Hf. exact (scan_msg_gen d a0 10%N rest Ha0 (or_introl eq_refl) f tot c res Hm Htot Hf). Qed.

(* ---------- SCPI_Parse leaves the bytes behind the message alone (header composition writes in front of a header) ---------- *)
Lemma skipn_more {A} (l l':list A) a b : (a <= b)%nat -> skipn a l = skipn a l' -> skipn b l = skipn b l'.
Proof. intros H E. replace b with (a + (b - a))%nat by lia. rewrite <- !Dispatch.skipn_skipn'. now rewrite E. Qed.
Lemma body_tail c off len prev result d : 0 <= off -> 0 <= len -> off + len <= Z.of_nat (length (mem c)) ->
  (match prev with Some (hp, hl) => 0 <= hp /\ 0 < hl /\ hp + hl <= off | None => True end) ->
  let '(c1, prev1, _, r) := loop_body c off len prev result d in
  r = LexModel.u_consumed (LexModel.detect_unit (slice (mem c) off len)) /\ length (mem c1) = length (mem c) /\
  skipn (Z.to_nat (off + r)) (mem c1) = skipn (Z.to_nat (off + r)) (mem c) /\
  (match prev1 with Some (hp, hl) => 0 <= hp /\ 0 < hl /\ hp + hl <= off + r | None => True end).
Proof.
  intros Hoff Hlen Hfit Hprev.
  set (ps := match prev with Some (hp, hl) => Some (slice (mem c) hp hl) | None => None end).
  assert (Hok : Dispatch.prev_ok (mem c) off prev ps).
  { unfold Dispatch.prev_ok, ps. destruct prev as [[hp hl]|]; [|exact I]. destruct Hprev as (A & B & C). repeat split; assumption. }
  pose proof (Dispatch.body_dispatch Dispatch.consumed_bounds UnitGeom.header_inside_unit c off len prev ps result d Hoff Hlen Hfit Hok) as H. cbn zeta in H.
  destruct (loop_body c off len prev result d) as [[[c1 prev1] result1] r1].
  destruct (Dispatch.spec_body (mem c) (cmds c) off len ps) as [evs ps'].
  destruct H as (-> & _ & _ & Hl & Hs & Hp). split; [reflexivity|]. split; [exact Hl|]. split; [exact Hs|].
  unfold Dispatch.prev_ok in Hp. destruct prev1 as [[hp hl]|]; [|exact I]. destruct ps' as [s|]; [|contradiction]. destruct Hp as (A & B & C & _). auto.
Qed.
Lemma parse_loop_tail fuel : forall c off len prev result d,
  0 <= off -> 0 <= len -> off + len <= Z.of_nat (length (mem c)) ->
  (match prev with Some (hp, hl) => 0 <= hp /\ 0 < hl /\ hp + hl <= off | None => True end) ->
  skipn (Z.to_nat (off + len)) (mem (fst (parse_loop fuel c off len prev result d))) = skipn (Z.to_nat (off + len)) (mem c).
Proof.
  induction fuel as [|f IH]; intros c off len prev result d Hoff Hlen Hfit Hprev; [reflexivity|].
  rewrite Framing2.parse_loop_S. pose proof (body_tail c off len prev result d Hoff Hlen Hfit Hprev) as Hb.
  assert (Hsl : length (slice (mem c) off len) = Z.to_nat len) by (apply Dispatch.slice_length; lia).
  pose proof (Dispatch.consumed_bounds (slice (mem c) off len)) as Hr. rewrite Hsl in Hr.
  destruct (loop_body c off len prev result d) as [[[c1 prev1] result1] r]. destruct Hb as (-> & Hl & Hs & Hp1).
  set (r := LexModel.u_consumed (LexModel.detect_unit (slice (mem c) off len))) in *.
  assert (Hs' : skipn (Z.to_nat (off + len)) (mem c1) = skipn (Z.to_nat (off + len)) (mem c)) by (apply (skipn_more _ _ (Z.to_nat (off + r))); [lia|exact Hs]).
  destruct (Z.ltb_spec r len); [|exact Hs'].
  replace (off + len) with ((off + r) + (len - r)) by lia. rewrite IH; [|lia|lia|rewrite Hl; lia|exact Hp1].
  replace ((off + r) + (len - r)) with (off + len) by lia. exact Hs'.
Qed.
Theorem scpi_parse_tail c n d : 0 <= n <= Z.of_nat (length (mem c)) -> dropm (mem (fst (scpi_parse c n d))) n = dropm (mem c) n.
Proof.
  intro H. unfold scpi_parse, dropm.
  pose proof (parse_loop_tail (S (Z.to_nat n)) (upd_out c true 0 (arb_rem c)) 0 n None true d ltac:(lia) ltac:(lia) ltac:(cbn [mem upd_out]; lia) I) as Ht.
  destruct (parse_loop (S (Z.to_nat n)) (upd_out c true 0 (arb_rem c)) 0 n None true d) as [c1 res]. cbn [fst] in *.
  cbn [mem upd_out Z.add] in *. destruct (negb (first_output c1)); exact Ht.
Qed.
Print Assumptions scpi_parse_tail.

Lemma dropm_app_le (m y:bytes) n : 0 <= n <= Z.of_nat (length m) -> dropm (m ++ y) n = dropm m n ++ y.
Proof. intro H. unfold dropm. rewrite skipn_app. replace (Z.to_nat n - length m)%nat with O by lia. reflexivity. Qed.
Lemma dropm_msg (a0 rest:bytes) : dropm (a0 ++ 10%N :: rest) (Z.of_nat (length a0) + 1) = rest.
Proof.
  unfold dropm. replace (Z.to_nat (Z.of_nat (length a0) + 1)) with (length a0 + 1)%nat by lia.
  rewrite skipn_app. replace (length a0 + 1 - length a0)%nat with 1%nat by lia.
  rewrite skipn_all2 by lia. reflexivity.
Qed.
Lemma getm_msg (a0 rest:bytes) : getm (a0 ++ 10%N :: rest) (Z.of_nat (length a0) + 1 - 1) = 10%N.
Proof.
  unfold getm. destruct (Z.ltb_spec (Z.of_nat (length a0) + 1 - 1) 0); [lia|].
  replace (Z.to_nat (Z.of_nat (length a0) + 1 - 1)) with (length a0) by lia. rewrite app_nth2 by lia.
  replace (length a0 - length a0)%nat with O by lia. reflexivity.
Qed.

Lemma parse_tail d c a0 rest : mem c = a0 ++ 10%N :: rest ->
  dropm (mem (fst (scpi_parse c (Z.of_nat (length a0) + 1) d))) (Z.of_nat (length a0) + 1) = rest.
Proof.
  intro Hm. rewrite scpi_parse_tail by (rewrite Hm, app_length; cbn [length]; lia). rewrite Hm. apply dropm_msg.
Qed.

Section Multi.
Variable d : Z -> bytes.
(* locality of SCPI_Parse of the first message a0 LF of the buffer: the bytes behind it do not influence what it does
   (that it leaves them alone is scpi_parse_tail) *)
Hypothesis parse_frame : forall c a0 rest y, mem c = a0 ++ 10%N :: rest -> seg a0 ->
  scpi_parse (upd_mem c (mem c ++ y)) (Z.of_nat (length a0) + 1) d =
  (let '(c1, r) := scpi_parse c (Z.of_nat (length a0) + 1) d in (upd_mem c1 (mem c1 ++ y), r)).

(* what the loop does on b ++ y is what it does on b, followed by what it does on the rest of b with y behind it *)
Lemma loop_split N : forall b, (length b <= N)%nat -> okstream b -> forall c y F F1 F2 r r1 r2, mem c = b ->
  (length b + length y < F)%nat -> (length b < F1)%nat -> (length b + length y < F2)%nat ->
  let c1 := fst (input_loop F1 c 0 r1 d) in
  (exists pre, b = pre ++ mem c1) /\
  fst (input_loop F (upd_mem c (b ++ y)) 0 r d) = fst (input_loop F2 (upd_mem c1 (mem c1 ++ y)) 0 r2 d).
Proof.
  induction N as [|N IH]; intros b Hlen Hok c y F F1 F2 r r1 r2 Hm HF HF1 HF2.
  - destruct b; [|cbn in Hlen; lia]. cbv zeta.
    destruct F1 as [|F1]; [lia|]. rewrite (quiet_loop (S F1) c 0 r1 d) by (rewrite Hm; reflexivity). cbn [fst]. rewrite Hm. cbn [app].
    split; [exists []; reflexivity|].
    rewrite (loop_flag F _ 0 r r2). f_equal. apply fuel_any; cbn [mem upd_mem]; lia.
  - cbv zeta. destruct (ok_split b Hok) as [Hseg|(a0 & rest & -> & Ha0 & Hrest)].
    + (* no complete message in b *)
      rewrite (quiet_loop F1 c 0 r1 d) by (rewrite Hm; apply no_nl_quiet, seg_no_nl, Hseg). cbn [fst]. rewrite Hm.
      split; [exists []; reflexivity|].
      rewrite (loop_flag F _ 0 r r2). f_equal. apply fuel_any; cbn [mem upd_mem]; rewrite app_length; lia.
    + (* b starts with a message *)
      set (n := Z.of_nat (length a0) + 1).
      assert (Hlb : length (a0 ++ 10%N :: rest) = (length a0 + 1 + length rest)%nat) by (rewrite app_length; cbn [length]; lia).
      assert (Hn : 1 <= n <= Z.of_nat (length (mem c))) by (rewrite Hm, Hlb; subst n; lia).
      (* the run on b *)
      destruct (scan_msg d a0 rest Ha0 F1 0 c r1 Hm ltac:(lia) ltac:(lia)) as (k1 & Hk1 & Hk1' & E1). rewrite E1. clear E1.
      (* the run on b ++ y *)
      assert (Hm2 : mem (upd_mem c ((a0 ++ 10%N :: rest) ++ y)) = a0 ++ 10%N :: (rest ++ y)) by (cbn [mem upd_mem]; rewrite <- app_assoc; reflexivity).
      destruct (scan_msg d a0 (rest ++ y) Ha0 F 0 (upd_mem c ((a0 ++ 10%N :: rest) ++ y)) r Hm2 ltac:(lia) ltac:(lia)) as (k & Hk & Hk' & E). rewrite E. clear E.
      rewrite <- Hm. rewrite (parse_frame c a0 rest y Hm Ha0).
      pose proof (parse_tail d c a0 rest Hm) as Ht. fold n in Ht |- *. pose proof (scpi_parse_length c n d ltac:(lia)) as Hl.
      destruct (scpi_parse c n d) as [c1 res]. cbn [fst] in Ht, Hl.
      cbn [mem upd_mem]. rewrite dropm_app_le by lia. rewrite Ht.
      assert (Hlr : (length rest <= N)%nat) by lia.
      specialize (IH rest Hlr Hrest (upd_mem c1 rest) y (F - k)%nat (F1 - k1)%nat F2 res res r2 eq_refl ltac:(lia) ltac:(lia) ltac:(lia)).
      cbv zeta in IH. destruct IH as [(pre & Hpre) IH2]. split.
      * rewrite Hm. exists (a0 ++ 10%N :: pre). rewrite <- app_assoc. cbn [app]. rewrite <- Hpre. reflexivity.
      * exact IH2.
Qed.
End Multi.

(* ---------- cutting the stream once, and then into any number of pieces ---------- *)
Definition ok_class (c:ctx) (s:bytes) : Prop :=
  okstream (mem c ++ s) /\ Z.of_nat (length (mem c)) + Z.of_nat (length s) <= cap c - 1.

Lemma input_core_fits c x d : x <> [] -> Z.of_nat (length (mem c)) + Z.of_nat (length x) <= cap c - 1 ->
  input_core c x d = input_loop (S (S (length (mem c ++ x)))) (upd_mem c (mem c ++ x)) 0 true d.
Proof.
  intros Hx Hfit. unfold input_core.
  assert (Hl : Z.of_nat (length x) <> 0) by (destruct x; [congruence|cbn [length]; lia]).
  destruct (Z.eqb_spec (Z.of_nat (length x)) 0); [contradiction|].
  destruct (Z.ltb_spec (cap c - Z.of_nat (length (mem c)) - 1) (Z.of_nat (length x))); [lia|]. reflexivity.
Qed.

Section Multi2.
Variable d : Z -> bytes.
Hypothesis parse_frame : forall c a0 rest y, mem c = a0 ++ 10%N :: rest -> seg a0 ->
  scpi_parse (upd_mem c (mem c ++ y)) (Z.of_nat (length a0) + 1) d =
  (let '(c1, r) := scpi_parse c (Z.of_nat (length a0) + 1) d in (upd_mem c1 (mem c1 ++ y), r)).

Lemma ok_split_invisible c x y : ok_class c (x ++ y) -> x <> [] -> y <> [] ->
  fst (input_core (fst (input_core c x d)) y d) = fst (input_core c (x ++ y) d) /\ ok_class (fst (input_core c x d)) y.
Proof.
  intros [Hok Hfit] Hx Hy. rewrite app_length, Nat2Z.inj_add in Hfit.
  rewrite (input_core_fits c x d Hx) by lia.
  set (b := mem c ++ x). set (c0 := upd_mem c b).
  assert (Hlb : length b = (length (mem c) + length x)%nat) by (subst b; apply app_length).
  assert (Hokb : okstream b) by (unfold okstream in *; rewrite app_assoc in Hok; apply Forall_app in Hok; apply Hok).
  pose proof (loop_split d parse_frame (length b) b (le_n _) Hokb c0 y (S (S (length (mem c ++ x ++ y)))) (S (S (length b)))
                (S (S (length b + length y))) true true true eq_refl) as L.
  assert (Hlen : length (mem c ++ x ++ y) = (length b + length y)%nat) by (rewrite Hlb, !app_length; lia).
  specialize (L ltac:(lia) ltac:(lia) ltac:(lia)). cbv zeta in L. destruct L as [(pre & Hpre) L].
  pose proof (InputInv.input_loop_inv (S (S (length b))) c0 0 true d ltac:(cbn [mem upd_mem]; lia)) as [HC Hle]. cbv zeta in HC.
  set (c1 := fst (input_loop (S (S (length b))) c0 0 true d)) in *.
  destruct HC as (Hcap & _). unfold c0 in Hcap, Hle. cbn [cap upd_mem mem] in Hcap, Hle.
  assert (Hfit1 : Z.of_nat (length (mem c1)) + Z.of_nat (length y) <= cap c1 - 1).
  { rewrite Hcap. lia. }
  split.
  - rewrite (input_core_fits c1 y d Hy Hfit1). rewrite (input_core_fits c (x ++ y) d) by (try rewrite app_length; try (destruct x; [congruence|discriminate]); lia).
    replace (upd_mem c (mem c ++ x ++ y)) with (upd_mem c0 (b ++ y)) by (subst c0 b; rewrite <- app_assoc; reflexivity).
    rewrite L. f_equal. apply fuel_any; cbn [mem upd_mem]; rewrite app_length; lia.
  - split; [|exact Hfit1]. unfold okstream in *. apply Forall_app. split.
    + rewrite Hpre in Hokb. apply Forall_app in Hokb. apply Hokb.
    + rewrite app_assoc in Hok. apply Forall_app in Hok. apply Hok.
Qed.

(* C08 for every stream of messages without carriage return, quote and '#': any partition into non-empty input calls leaves
   the context (output, error queue, registers, pending bytes) that the delivery in one call leaves *)
Theorem ok_stream_any_partition chunks c : chunks <> [] -> Forall (fun x => x <> []) chunks -> ok_class c (concat chunks) ->
  feed c chunks d = fst (input_core c (concat chunks) d).
Proof. intros. apply (partition_reduction d ok_class ok_split_invisible); assumption. Qed.
End Multi2.
Print Assumptions ok_stream_any_partition.

(* locality of SCPI_Parse, proved in ParseLocal.v by a simulation through every reader *)
Definition parse_local (d:Z -> bytes) : Prop := forall c a0 rest y, mem c = a0 ++ 10%N :: rest -> seg a0 ->
  scpi_parse (upd_mem c (mem c ++ y)) (Z.of_nat (length a0) + 1) d =
  (let '(c1, r) := scpi_parse c (Z.of_nat (length a0) + 1) d in (upd_mem c1 (mem c1 ++ y), r)).
(* for any content of the message, quoted strings and blocks included, as long as no line terminator occurs inside it; the
   message ends with a line feed or a carriage return *)
Lemma getm_at (a0 rest:bytes) tm : getm (a0 ++ tm :: rest) (Z.of_nat (length a0)) = tm.
Proof.
  unfold getm. destruct (Z.ltb_spec (Z.of_nat (length a0)) 0); [lia|]. rewrite Nat2Z.id. rewrite app_nth2 by lia.
  replace (length a0 - length a0)%nat with O by lia. reflexivity.
Qed.
Theorem parse_is_local_t d tm c a0 rest y : tm = 10%N \/ tm = 13%N -> mem c = a0 ++ tm :: rest -> no_nl a0 ->
  scpi_parse (upd_mem c (mem c ++ y)) (Z.of_nat (length a0) + 1) d =
  (let '(c1, r) := scpi_parse c (Z.of_nat (length a0) + 1) d in (upd_mem c1 (mem c1 ++ y), r)).
Proof.
  intros Htm Hm Ha0.
  apply (ParseLocal.scpi_parse_local y (Z.of_nat (length a0)) tm Htm d c).
  unfold ParseLocal.Wm. rewrite Hm. split; [rewrite app_length; cbn [length]; lia|]. split; [apply getm_at|].
  intros i Hi. unfold getm. destruct (Z.ltb_spec i 0); [lia|]. rewrite app_nth1 by lia.
  assert (Hn : (Z.to_nat i < length a0)%nat) by lia. apply Ha0. apply nth_In. exact Hn.
Qed.
Theorem parse_is_local_any d c a0 rest y : mem c = a0 ++ 10%N :: rest -> no_nl a0 ->
  scpi_parse (upd_mem c (mem c ++ y)) (Z.of_nat (length a0) + 1) d =
  (let '(c1, r) := scpi_parse c (Z.of_nat (length a0) + 1) d in (upd_mem c1 (mem c1 ++ y), r)).
Proof. intros Hm Ha0. exact (parse_is_local_t d 10%N c a0 rest y (or_introl eq_refl) Hm Ha0). Qed.
Theorem parse_is_local d : parse_local d.
Proof. intros c a0 rest y Hm Ha0. apply (parse_is_local_any d c a0 rest y Hm). apply seg_no_nl, Ha0. Qed.
Print Assumptions parse_is_local_any.
Print Assumptions parse_is_local.

(* C08 for every stream of messages without carriage return, quote and '#', for every command table and every partition *)
Theorem ok_stream_any_partition_all d chunks c :
  chunks <> [] -> Forall (fun x => x <> []) chunks -> ok_class c (concat chunks) ->
  feed c chunks d = fst (input_core c (concat chunks) d).
Proof. exact (ok_stream_any_partition d (parse_is_local d) chunks c). Qed.
Print Assumptions ok_stream_any_partition_all.

(* ---------- the premises and the conclusion on a concrete context (evaluation, not proof: the premises are satisfiable and
   the conclusion is what the model computes) ---------- *)
Definition demo_ctx : ctx :=
  {| cmds := [([86;79;76;84;97;103;101]%N, 1, [PD true; RI32 5]); ([42;73;68;78;63]%N, 2, [RTEXT [97;98]%N])];
     mem := []; cap := 64; first_output := true; output_count := 0; input_count := 0; cmd_error := false; arb_rem := 0;
     pd_off := 0; pd_len := 0; pd_pos := 0; cur := None; raw_off := 0; raw_len := 0; queue := []; qcap := 4; qma := false; trace := [] |}.
Definition demo_msg1 : bytes := [86;79;76;84;32;49;46;53;59;42;73;68;78;63]%N.       (* VOLT 1.5;*IDN? *)
Definition demo_rest : bytes := [86;79;76;84;32;50;10;88]%N.                          (* VOLT 2 LF X *)
Example demo_is_ok : seg demo_msg1 /\ okstream (demo_msg1 ++ 10%N :: demo_rest).
Proof. split; repeat constructor. Qed.
Example demo_frame :
  let c := upd_mem demo_ctx (demo_msg1 ++ 10%N :: demo_rest) in let y := [89;10]%N in
  scpi_parse (upd_mem c (mem c ++ y)) (Z.of_nat (length demo_msg1) + 1) (fun _ => []) =
  (let '(c1, r) := scpi_parse c (Z.of_nat (length demo_msg1) + 1) (fun _ => []) in (upd_mem c1 (mem c1 ++ y), r)).
Proof. vm_compute. reflexivity. Qed.
Example demo_partitions :
  let s := demo_msg1 ++ 10%N :: demo_rest ++ [89;10]%N in
  let one := fst (input_core demo_ctx s (fun _ => [])) in
  feed demo_ctx (map (fun b => [b]) s) (fun _ => []) = one /\
  feed demo_ctx [firstn 3 s; firstn 13 (skipn 3 s); skipn 16 s] (fun _ => []) = one /\
  length (trace one) = 16%nat.
Proof. vm_compute. repeat split. Qed.

(* a second evaluation with one command per kind of reader that occurs in such streams *)
Definition demo2_ctx : ctx :=
  {| cmds := [([73;78;84]%N, 1, [PI32 true; RI32 1]); ([67;72]%N, 2, [PCHOICE true; RI32 2]); ([78;85;77]%N, 3, [PNUM true; RI32 3]); ([65;82;82]%N, 4, [PARR 14 4 true]); ([69;88]%N, 5, [PEXPRC 0 4 true]); ([66]%N, 6, [PBOOL true; RI32 4]); ([84;82;73;71;35]%N, 7, [NUMS 1 1; RI32 5]); ([70]%N, 8, [PF true; PD false; RD 0])];
     mem := []; cap := 256; first_output := true; output_count := 0; input_count := 0; cmd_error := false; arb_rem := 0;
     pd_off := 0; pd_len := 0; pd_pos := 0; cur := None; raw_off := 0; raw_len := 0; queue := []; qcap := 4; qma := false; trace := [] |}.
Definition demo2_msg : bytes := [73;78;84;32;49;50;59;67;72;32;66;85;83;59;78;85;77;32;49;46;53;32;86;59;65;82;82;32;49;44;50;59;69;88;32;40;64;49;44;50;41;59;66;32;79;78;59;84;82;73;71;50;59;70;32;49;101;51;44;46;53;59;73;78;84;32;120;59;78;85;77]%N.   (* INT 12;CH BUS;NUM 1.5 V;ARR 1,2;EX (@1,2);B ON;TRIG2;F 1e3,.5;INT x;NUM *)
Definition demo2_rest : bytes := [73;78;84;32;55;10;81]%N.
Example demo2_is_ok : seg demo2_msg /\ okstream (demo2_msg ++ 10%N :: demo2_rest).
Proof. split; repeat constructor. Qed.
Example demo2_frame :
  let c := upd_mem demo2_ctx (demo2_msg ++ 10%N :: demo2_rest) in let y := [49;10]%N in
  scpi_parse (upd_mem c (mem c ++ y)) (Z.of_nat (length demo2_msg) + 1) (fun _ => []) =
  (let '(c1, r) := scpi_parse c (Z.of_nat (length demo2_msg) + 1) (fun _ => []) in (upd_mem c1 (mem c1 ++ y), r)).
Proof. vm_compute. reflexivity. Qed.
Example demo2_partitions :
  let s := demo2_msg ++ 10%N :: demo2_rest ++ [49;10]%N in
  let one := fst (input_core demo2_ctx s (fun _ => [])) in
  feed demo2_ctx (map (fun b => [b]) s) (fun _ => []) = one /\
  feed demo2_ctx [firstn 30 s; firstn 43 (skipn 30 s); skipn 73 s] (fun _ => []) = one.
Proof. vm_compute. split; reflexivity. Qed.
