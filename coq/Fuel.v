(* C01, termination: the unit loop of SCPI_Parse never runs out of the fuel the model gives it *)
From Coq Require Import Bool List NArith ZArith Lia.
From M Require LexModel MatchModel FmtModel UnitProgress.
From M Require Import ParserModel Framing2 Dispatch.
Import ListNotations.
Local Open Scope Z_scope.

Lemma consumed_pos (l:list N) : l <> [] -> 1 <= LexModel.u_consumed (LexModel.detect_unit l).
Proof. exact (proj2 (UnitProgress.detect_progress l)). Qed.

(* the buffer keeps its length through one iteration *)
Lemma body_length c off len prev result d : 0 <= off -> 0 <= len -> off + len <= Z.of_nat (length (mem c)) ->
  (match prev with Some (hp, hl) => 0 <= hp /\ 0 < hl /\ hp + hl <= off | None => True end) ->
  let '(c1, prev1, _, r) := loop_body c off len prev result d in
  r = LexModel.u_consumed (LexModel.detect_unit (slice (mem c) off len)) /\ length (mem c1) = length (mem c) /\
  (match prev1 with Some (hp, hl) => 0 <= hp /\ 0 < hl /\ hp + hl <= off + r | None => True end).
Proof.
  intros Hoff Hlen Hfit Hprev.
  set (ps := match prev with Some (hp, hl) => Some (slice (mem c) hp hl) | None => None end).
  assert (Hok : prev_ok (mem c) off prev ps).
  { unfold prev_ok, ps. destruct prev as [[hp hl]|]; [|exact I]. destruct Hprev as (A & B & C). repeat split; assumption. }
  pose proof (body_dispatch consumed_bounds UnitGeom.header_inside_unit c off len prev ps result d Hoff Hlen Hfit Hok) as H. cbn zeta in H.
  destruct (loop_body c off len prev result d) as [[[c1 prev1] result1] r1].
  destruct (spec_body (mem c) (cmds c) off len ps) as [evs ps'].
  destruct H as (-> & _ & _ & Hl & _ & Hp). split; [reflexivity|]. split; [exact Hl|].
  unfold prev_ok in Hp. destruct prev1 as [[hp hl]|]; [|exact I]. destruct ps' as [s|]; [|contradiction]. destruct Hp as (A & B & C & _). auto.
Qed.

(* more fuel than the model uses changes nothing: the loop stops because the message is consumed *)
Theorem parse_loop_fuel : forall extra fuel c off len prev result d,
  0 <= off -> 0 <= len -> off + len <= Z.of_nat (length (mem c)) ->
  (match prev with Some (hp, hl) => 0 <= hp /\ 0 < hl /\ hp + hl <= off | None => True end) ->
  (Z.to_nat len < fuel)%nat ->
  parse_loop (fuel + extra) c off len prev result d = parse_loop fuel c off len prev result d.
Proof.
  intros extra fuel. induction fuel as [|f IH]; intros c off len prev result d Hoff Hlen Hfit Hprev Hfuel; [lia|].
  change (S f + extra)%nat with (S (f + extra)). rewrite !parse_loop_S.
  pose proof (body_length c off len prev result d Hoff Hlen Hfit Hprev) as Hb.
  assert (Hsl : length (slice (mem c) off len) = Z.to_nat len) by (apply slice_length; lia).
  pose proof (consumed_bounds (slice (mem c) off len)) as Hr. rewrite Hsl in Hr.
  assert (Hr1 : 0 < len -> 1 <= LexModel.u_consumed (LexModel.detect_unit (slice (mem c) off len))).
  { intro Hpos. apply consumed_pos. intro E. rewrite E in Hsl. cbn in Hsl. lia. }
  destruct (loop_body c off len prev result d) as [[[c1 prev1] result1] r]. destruct Hb as (-> & Hl & Hp1).
  set (r := LexModel.u_consumed (LexModel.detect_unit (slice (mem c) off len))) in *.
  destruct (Z.ltb_spec r len) as [Hlt|Hge]; [|reflexivity].
  apply IH; [lia|lia|rewrite Hl; lia|exact Hp1|lia].
Qed.
(* in particular for SCPI_Parse itself *)
Corollary scpi_parse_fuel c len d extra : 0 <= len <= Z.of_nat (length (mem c)) ->
  parse_loop (S (Z.to_nat len) + extra) (upd_out c true 0 (arb_rem c)) 0 len None true d =
  parse_loop (S (Z.to_nat len)) (upd_out c true 0 (arb_rem c)) 0 len None true d.
Proof. intro H. apply parse_loop_fuel; cbn [mem upd_out]; try lia; exact I. Qed.
Print Assumptions scpi_parse_fuel.

(* ---------- the same for the accumulation loop of SCPI_Input ---------- *)
Lemma parse_loop_length fuel : forall c off len prev result d,
  0 <= off -> 0 <= len -> off + len <= Z.of_nat (length (mem c)) ->
  (match prev with Some (hp, hl) => 0 <= hp /\ 0 < hl /\ hp + hl <= off | None => True end) ->
  length (mem (fst (parse_loop fuel c off len prev result d))) = length (mem c).
Proof.
  induction fuel as [|f IH]; intros c off len prev result d Hoff Hlen Hfit Hprev; [reflexivity|].
  rewrite parse_loop_S. pose proof (body_length c off len prev result d Hoff Hlen Hfit Hprev) as Hb.
  assert (Hsl : length (slice (mem c) off len) = Z.to_nat len) by (apply slice_length; lia).
  pose proof (consumed_bounds (slice (mem c) off len)) as Hr. rewrite Hsl in Hr.
  destruct (loop_body c off len prev result d) as [[[c1 prev1] result1] r]. destruct Hb as (-> & Hl & Hp1).
  set (r := LexModel.u_consumed (LexModel.detect_unit (slice (mem c) off len))) in *.
  destruct (Z.ltb_spec r len); [|exact Hl]. rewrite IH; [exact Hl|lia|lia|rewrite Hl; lia|exact Hp1].
Qed.
Lemma scpi_parse_length c len d : 0 <= len <= Z.of_nat (length (mem c)) -> length (mem (fst (scpi_parse c len d))) = length (mem c).
Proof.
  intro H. unfold scpi_parse.
  pose proof (parse_loop_length (S (Z.to_nat len)) (upd_out c true 0 (arb_rem c)) 0 len None true d ltac:(lia) ltac:(lia) ltac:(cbn [mem upd_out]; lia) I) as Hl.
  destruct (parse_loop (S (Z.to_nat len)) (upd_out c true 0 (arb_rem c)) 0 len None true d) as [c1 res]. cbn [fst] in *.
  cbn [mem upd_out] in *. destruct (negb (first_output c1)); exact Hl.
Qed.
Lemma term_nl_nonempty (l:list N) : LexModel.u_term (LexModel.detect_unit l) = LexModel.TERM_NL -> l <> [].
Proof. intros H E. subst l. vm_compute in H. discriminate. Qed.

Theorem input_loop_fuel : forall extra fuel c tot result d, 0 <= tot <= Z.of_nat (length (mem c)) ->
  (length (mem c) - Z.to_nat tot < fuel)%nat ->
  input_loop (fuel + extra) c tot result d = input_loop fuel c tot result d.
Proof.
  intros extra fuel. induction fuel as [|f IH]; intros c tot result d Htot Hfuel; [lia|].
  change (S f + extra)%nat with (S (f + extra)). cbn [input_loop].
  assert (Hdl : length (dropm (mem c) tot) = (length (mem c) - Z.to_nat tot)%nat) by (unfold dropm; apply skipn_length).
  pose proof (consumed_bounds (dropm (mem c) tot)) as Hr. rewrite Hdl in Hr.
  set (u := LexModel.detect_unit (dropm (mem c) tot)) in *.
  destruct (LexModel.u_term u) eqn:Et.
  - destruct (_ && _); [reflexivity|]. destruct (Z.leb_spec (Z.of_nat (length (mem c))) (tot + LexModel.u_consumed u)); [reflexivity|].
    assert (Hne : dropm (mem c) tot <> []) by (intro E; rewrite E in Hdl; cbn in Hdl; lia).
    pose proof (consumed_pos _ Hne). fold u in H0. apply IH; lia.
  - pose proof (term_nl_nonempty _ Et) as Hne. pose proof (consumed_pos _ Hne) as Hp. fold u in Hp.
    pose proof (scpi_parse_length c (tot + LexModel.u_consumed u) d ltac:(lia)) as Hl.
    destruct (scpi_parse c (tot + LexModel.u_consumed u) d) as [c1 res]. cbn [fst] in Hl.
    apply IH; cbn [mem upd_mem]; unfold dropm; rewrite ?skipn_length; lia.
  - destruct (_ && _); [reflexivity|]. destruct (Z.leb_spec (Z.of_nat (length (mem c))) (tot + LexModel.u_consumed u)); [reflexivity|].
    assert (Hne : dropm (mem c) tot <> []) by (intro E; rewrite E in Hdl; cbn in Hdl; lia).
    pose proof (consumed_pos _ Hne). fold u in H0. apply IH; lia.
Qed.
Print Assumptions input_loop_fuel.
