(* C08/C09: a line terminator on its own is an empty message: no handler, no output, no error, no flush -- only scratch
   fields are re-armed.  (What the LF of a CR|LF pair cut between two input calls does.) *)
From Coq Require Import Bool List NArith ZArith Lia.
From M Require LexModel MatchModel FmtModel MultiMsg.
From M Require Import ParserModel Chunk Isolation.
Import ListNotations.
Local Open Scope Z_scope.

Theorem empty_message_silent c t d : mem c = [] -> (t = 10%N \/ t = 13%N) -> 2 <= cap c -> first_output c = true ->
  E c (fst (input_core c [t] d)) /\ snd (input_core c [t] d) = true.
Proof.
  intros Hm Ht Hcap Hfo. rewrite MultiMsg.input_core_fits by (try discriminate; rewrite Hm; cbn; lia).
  destruct c as [cmds0 mem0 cap0 fo oc ic ce ar po pl pp cur0 ro rl q qc qm tr]. cbn [mem first_output] in Hm, Hfo. subst mem0 fo.
  destruct Ht as [-> | ->]; vm_compute; repeat split.
Qed.
Print Assumptions empty_message_silent.
