(* Draft models: binary array results (parser.c:1554-1608, utils.c swap), SCPI_DoubleToStr/FloatToStr (printf build), SCPI_NumberToStr *)
From Coq Require Import Bool List ZArith Lia.
From M Require Import FmtModel GFmt.
Import ListNotations.
Local Open Scope bool_scope.
Local Open Scope Z_scope.

(* ---------- bytes of an element ---------- *)
Fixpoint le_bytes (n:nat) (v:Z) : list Z := match n with O => [] | S n' => (v mod 256) :: le_bytes n' (v / 256) end.
Definition be_bytes (n:nat) (v:Z) : list Z := rev (le_bytes n v).
(* SCPI_SwapNN as written: masks and shifts *)
Definition swap16 (v:Z) : Z := Z.lor (Z.shiftl (Z.land v 255) 8) (Z.shiftr (Z.land v 65280) 8).
Definition swap32 (v:Z) : Z :=
  Z.lor (Z.lor (Z.shiftl (Z.land v 255) 24) (Z.shiftl (Z.land v 65280) 8))
        (Z.lor (Z.shiftr (Z.land v 16711680) 8) (Z.shiftr (Z.land v 4278190080) 24)).
Definition swap64 (v:Z) : Z :=
  fold_left Z.lor
    [Z.shiftl (Z.land v 255) 56; Z.shiftl (Z.land v 65280) 40; Z.shiftl (Z.land v 16711680) 24; Z.shiftl (Z.land v 4278190080) 8;
     Z.shiftr (Z.land v 1095216660480) 8; Z.shiftr (Z.land v 280375465082880) 24; Z.shiftr (Z.land v 71776119061217280) 40;
     Z.shiftr (Z.land v 18374686479671623680) 56] 0.
Definition block_header (n:Z) : list Z :=
  let '(s,_,_) := int2str 32 n 10 10 false in 35 :: (48 + Z.of_nat (length s)) :: s.
(* produceResultArrayBinary: elements as unsigned values < 2^(8*size); native_le = host byte order; fmt: 1 NORMAL (big endian), 2 SWAPPED.
   returns (bytes written, number of completed items (output_count increments)) *)
Definition array_binary (native_le:bool) (fmt:Z) (size:nat) (vals:list Z) : list Z * Z :=
  let native_fmt := if native_le then 2 else 1 in
  let host (v:Z) := if native_le then le_bytes size v else be_bytes size v in
  let n := Z.of_nat (length vals) * Z.of_nat size in
  if fmt =? native_fmt then
    (* SCPI_ResultArbitraryBlock(array, count*size): header, then one data call *)
    (block_header n ++ flat_map host vals, 1)
  else
    let swapped (v:Z) := match size with 1%nat => v | 2%nat => swap16 v | 4%nat => swap32 v | _ => swap64 v end in
    (* header, then per-element data calls (a single call for size 1, and one zero-length call for an empty array -- fix of
       observation 15); the item is counted when remaining reaches 0 inside a data call, i.e. exactly once *)
    (block_header n ++ flat_map (fun v => host (swapped v)) vals, 1).

(* ---------- snprintf(str, len, "%.15lg"/"%g") + strlen ---------- *)
(* returns (characters stored before NUL, NUL stored?, return value, reads-unwritten-memory flag) *)
Definition fp_to_str (text:list Z) (len:Z) : list Z * bool * Z * bool :=
  if len =? 0 then ([], false, 0, false)     (* nothing written, nothing read: the functions return 0 at once (fix of observation 13) *)
  else let s := firstn (Z.to_nat (len - 1)) text in (s, true, Z.of_nat (length s), false).
Definition double_to_str (bits len:Z) := fp_to_str (fmt_double 15 bits) len.
Definition float_to_str (bits len:Z) := fp_to_str (fmt_float 6 bits) len.

(* ---------- SCPI_NumberToStr for a plain value with a unit name (or none) ---------- *)
(* buffer model: list of (Some byte | None = untouched) of length len, plus overflow flag *)
Definition buf := list (option Z).
Fixpoint put (b:buf) (i:nat) (v:Z) : buf * bool :=
  match b, i with [], _ => ([], true) | _::r, O => (Some v :: r, false) | c::r, S i' => let '(r',o) := put r i' v in (c::r', o) end.
Fixpoint puts (b:buf) (at_:nat) (s:list Z) : buf * bool :=
  match s with [] => (b,false) | c::r => let '(b1,o1) := put b at_ c in let '(b2,o2) := puts b1 (S at_) r in (b2, o1||o2) end.
(* strncat(dst(with current length cur), src, n): appends min(n,|src|) chars and a NUL *)
Definition strncat_ (b:buf) (cur:nat) (src:list Z) (n:Z) : buf * bool := puts b cur (firstn (Z.to_nat n) src ++ [0]).
Definition number_to_str (bits:Z) (unit:option (list Z)) (len:Z) : buf * Z * bool :=
  let b0 : buf := repeat None (Z.to_nat len) in
  if len =? 0 then (b0, 0, false) else
  let '(s, _, r, _) := double_to_str bits len in
  let '(b1,o1) := puts b0 0 (s ++ [0]) in
  if r + 1 <? len then
    match unit with
    | Some u =>
      let '(b2,o2) := strncat_ b1 (Z.to_nat r) [32] (len - r) in
      let '(b3,o3) := if r + 2 <? len then strncat_ b2 (Z.to_nat r + 1) u (len - r - 2) else (b2,false) in
      (* result = strlen(str) *)
      let final := r + 1 + (if r + 2 <? len then Z.min (Z.of_nat (length u)) (len - r - 2) else 0) in
      (b3, final, o1||o2||o3)
    | None => (b1, r, o1)
    end
  else (b1, r, o1).

