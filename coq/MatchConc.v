(* C03, concrete half (language part, numbers = NULL): matchCommand on a rendered pattern = greedy item matcher *)
From Coq Require Import Bool List NArith ZArith Lia.
From M Require Import MatchModel.
Import ListNotations.
Local Open Scope bool_scope.
Local Open Scope Z_scope.

(* ---------- generic list facts for C-string style access ---------- *)
Lemma get_app_l a b i : 0 <= i < Z.of_nat (length a) -> get (a ++ b) i = get a i.
Proof. intros H. unfold get. destruct (Z.ltb_spec i 0); [lia|]. apply app_nth1. lia. Qed.
Lemma get_app_r a b i : Z.of_nat (length a) <= i -> get (a ++ b) i = get b (i - Z.of_nat (length a)).
Proof. intros H. unfold get. destruct (Z.ltb_spec i 0); [lia|]. destruct (Z.ltb_spec (i - Z.of_nat (length a)) 0); [lia|].
  rewrite app_nth2 by lia. f_equal. lia. Qed.
Lemma get_app_at a b : get (a ++ b) (Z.of_nat (length a)) = get b 0.
Proof. rewrite get_app_r by lia. f_equal. lia. Qed.
Lemma dropz_app a b : dropz (Z.of_nat (length a)) (a ++ b) = b.
Proof. unfold dropz. rewrite Nat2Z.id. rewrite skipn_app, Nat.sub_diag, skipn_all. reflexivity. Qed.
Lemma dropz_cons n c l : 1 <= n -> dropz n (c :: l) = dropz (n-1) l.
Proof. intros H. unfold dropz. replace (Z.to_nat n) with (S (Z.to_nat (n-1))) by lia. reflexivity. Qed.

(* ---------- separator search ---------- *)
Definition nosep (set:N->bool) (l:bytes) : Prop := forallb (fun c => negb (c =? 0)%N && negb (set c)) l = true.
Lemma find_sep_skip set a : forall n b, nosep set a -> (length a <= n)%nat ->
  find_sep set n (a ++ b) = option_map (fun i => Z.of_nat (length a) + i) (find_sep set (n - length a) b).
Proof. induction a as [|c r IH]; intros n b Hn Hl.
  - cbn. rewrite Nat.sub_0_r. destruct (find_sep set n b); reflexivity.
  - cbn in Hn. apply andb_prop in Hn as [Hc Hr]. apply andb_prop in Hc as [Hc0 Hcs]. apply negb_true_iff in Hc0, Hcs.
    destruct n as [|n]; [cbn [length] in Hl; lia|]. cbn [app find_sep]. rewrite Hc0, Hcs. cbn [length] in *.
    rewrite IH by (try exact Hr; lia). replace (S n - S (length r))%nat with (n - length r)%nat by lia.
    destruct (find_sep set (n - length r) b); cbn [option_map]; [f_equal; rewrite Nat2Z.inj_succ; lia|reflexivity]. Qed.
(* a run without separators followed by a separator, end of the counted length, or the terminator *)
Lemma sep_or_len_run set a b n : nosep set a -> Z.of_nat (length a) <= n ->
  (Z.of_nat (length a) = n \/ (exists c r, b = c :: r /\ set c = true /\ c <> 0%N)) ->
  sep_or_len set n (a ++ b) = Z.of_nat (length a).
Proof.
  intros Hn Hl Hb. unfold sep_or_len. rewrite find_sep_skip by (try exact Hn; lia).
  destruct Hb as [E|(c & r & -> & Hc & Hc0)].
  - replace (Z.to_nat n - length a)%nat with 0%nat by lia. cbn [find_sep option_map]. lia.
  - destruct (Z.to_nat n - length a)%nat eqn:E; cbn [find_sep option_map]; [lia|].
    apply N.eqb_neq in Hc0. rewrite Hc0, Hc. cbn [option_map]. lia.
Qed.

(* ---------- matchPattern only looks at the two counted prefixes ---------- *)
Lemma caseeq_app n : forall a b X Y, (n <= length a)%nat -> (n <= length b)%nat -> caseeq n (a ++ X) (b ++ Y) = caseeq n a b.
Proof. induction n as [|n IH]; intros a b X Y Ha Hb; [reflexivity|].
  destruct a as [|x a]; [cbn in Ha; lia|]. destruct b as [|y b]; [cbn in Hb; lia|].
  cbn [caseeq app hd tl]. cbn [length] in *. rewrite IH by lia. reflexivity. Qed.
Lemma short_pos_app n : forall a X, (n <= length a)%nat -> short_pos n (a ++ X) = short_pos n a.
Proof. induction n as [|n IH]; intros a X Ha; [reflexivity|]. destruct a as [|x a]; [cbn in Ha; lia|].
  cbn [short_pos app]. cbn [length] in Ha. rewrite IH by lia. reflexivity. Qed.
Lemma alldigits_app k : forall a Y, (k <= length a)%nat -> alldigits k (a ++ Y) = alldigits k a.
Proof. induction k as [|k IH]; intros a Y Ha; [reflexivity|]. destruct a as [|x a]; [cbn in Ha; lia|].
  cbn [alldigits app]. cbn [length] in Ha. rewrite IH by lia. reflexivity. Qed.
Lemma dropz_app_l n a Y : 0 <= n <= Z.of_nat (length a) -> dropz n (a ++ Y) = dropz n a ++ Y.
Proof. intros H. unfold dropz. rewrite skipn_app. replace (Z.to_nat n - length a)%nat with 0%nat by lia. reflexivity. Qed.
Lemma short_pos_le n a : 0 <= short_pos n a <= Z.of_nat n.
Proof. revert a; induction n as [|n IH]; intro a; [cbn; lia|]. destruct a as [|x a]; cbn [short_pos]; [lia|].
  destruct (x =? 0)%N; [lia|]. destruct (islower x); [lia|]. specialize (IH a). lia. Qed.

Lemma compareStr_app p l1 s X Y : 0 <= l1 <= Z.of_nat (length p) ->
  compareStr (p ++ X) l1 (s ++ Y) (Z.of_nat (length s)) = compareStr p l1 s (Z.of_nat (length s)).
Proof. intros H. unfold compareStr. destruct (Z.eqb_spec l1 (Z.of_nat (length s))) as [E|]; [|reflexivity]. cbn [andb].
  rewrite Nat2Z.id. apply caseeq_app; lia. Qed.
Lemma compareStrAndNum_app p l1 s X Y : 0 <= l1 <= Z.of_nat (length p) ->
  compareStrAndNum (p ++ X) l1 (s ++ Y) (Z.of_nat (length s)) false = compareStrAndNum p l1 s (Z.of_nat (length s)) false.
Proof. intros H. unfold compareStrAndNum. destruct (Z.ltb_spec (Z.of_nat (length s)) l1); [reflexivity|].
  rewrite caseeq_app by lia. destruct (caseeq (Z.to_nat l1) p s); [|reflexivity].
  rewrite dropz_app_l by lia. rewrite alldigits_app; [reflexivity|]. unfold dropz. rewrite skipn_length. lia. Qed.

Lemma matchPattern_app p s X Y : p <> [] ->
  fst (matchPattern (p ++ X) (Z.of_nat (length p)) (s ++ Y) (Z.of_nat (length s)) false) =
  fst (matchPattern p (Z.of_nat (length p)) s (Z.of_nat (length s)) false).
Proof.
  intros Hp. assert (Hl : 0 < Z.of_nat (length p)) by (destruct p; [congruence|cbn [length]; lia]).
  unfold matchPattern. rewrite get_app_l by lia.
  destruct ((0 <? Z.of_nat (length p)) && (get p (Z.of_nat (length p) - 1) =? 35)%N).
  - rewrite short_pos_app by lia.
    pose proof (short_pos_le (Z.to_nat (Z.of_nat (length p) - 1)) p) as Hs.
    rewrite !compareStrAndNum_app by lia.
    destruct (compareStrAndNum p (Z.of_nat (length p) - 1) s (Z.of_nat (length s)) false) as [r1 v1]. destruct r1; reflexivity.
  - rewrite short_pos_app by lia.
    pose proof (short_pos_le (Z.to_nat (Z.of_nat (length p))) p) as Hs.
    cbn [fst]. rewrite !compareStr_app by lia. reflexivity.
Qed.

(* ---------- patterns as item lists and their concrete syntax ---------- *)
Record item := { nm : bytes; opt : bool; num : bool }.
Definition body (it:item) : bytes := nm it ++ (if num it then [35%N] else []).
Definition close (it:item) : bytes := if opt it then [93%N] else [].
Definition rnext (it:item) : bytes := if opt it then 91%N :: 58%N :: body it ++ [93%N] else 58%N :: body it.
Definition tailp (its:list item) (qm:bytes) : bytes := concat (map rnext its) ++ qm.
Definition tlen (its:list item) : Z := Z.of_nat (length (concat (map rnext its))).
Definition isletter (c:N) := isupper c || islower c.
Definition okname (l:bytes) : Prop := l <> [] /\ forallb isletter l = true.
Definition okq (qm:bytes) : Prop := qm = [] \/ qm = [63%N].

Lemma letter_facts c : isletter c = true -> (c =? 0)%N = false /\ pat_seps c = false /\ (c =? 91)%N = false /\ (c =? 93)%N = false /\ (c =? 58)%N = false /\ (c =? 35)%N = false.
Proof. unfold isletter, isupper, islower, inr, pat_seps. intros H.
  destruct (N.eqb_spec c 0), (N.eqb_spec c 63), (N.eqb_spec c 58), (N.eqb_spec c 91), (N.eqb_spec c 93), (N.eqb_spec c 35); subst; cbn in *; try discriminate; repeat split; reflexivity. Qed.
Lemma body_nosep it : okname (nm it) -> nosep pat_seps (body it).
Proof. intros [_ H]. unfold body, nosep. rewrite forallb_app. apply andb_true_intro. split.
  - rewrite forallb_forall in *. intros c Hc. destruct (letter_facts c (H c Hc)) as (H0 & Hs & _). now rewrite H0, Hs.
  - destruct (num it); reflexivity. Qed.
Lemma body_ne it : okname (nm it) -> body it <> [].
Proof. intros [H _]. unfold body. destruct (nm it); [congruence|discriminate]. Qed.
Lemma body_first_letter it : okname (nm it) -> isletter (get (body it) 0) = true.
Proof. intros [Hne H]. unfold body. destruct (nm it) as [|c r]; [congruence|]. cbn in *. apply andb_prop in H as [H _]. exact H. Qed.
Lemma tlen_cons it its : tlen (it :: its) = Z.of_nat (length (rnext it)) + tlen its.
Proof. unfold tlen. cbn [map concat]. rewrite app_length. lia. Qed.
Lemma tailp_cons it its qm : tailp (it :: its) qm = rnext it ++ tailp its qm.
Proof. unfold tailp. cbn [map concat]. now rewrite <- app_assoc. Qed.
Lemma tlen_nonneg its : 0 <= tlen its. Proof. unfold tlen. lia. Qed.
Lemma get0_qm qm : okq qm -> (get qm 0 =? 91)%N = false /\ (get qm 0 =? 93)%N = false /\ (get qm 0 =? 58)%N = false.
Proof. intros [->| ->]; cbn; repeat split; reflexivity. Qed.

(* ---------- the "command complete, pattern not" loop ---------- *)
(* With no numbers array the loop of MatchModel only computes the remaining pattern length: tail_loop0 is that
   projection (the definition the loop had before it learnt to assign defaults), tail_loop_none the link. *)
Fixpoint tail_loop0 (fuel:nat) (p:bytes) (plen:Z) (br:Z) : Z :=
  match fuel with O => plen | S f =>
    if plen =? 0 then plen else
    let sp := sep_or_len pat_seps plen p in
    let c := get p sp in
    let br' := if (c =? 91)%N then br + 1 else if (c =? 93)%N then br - 1 else br in
    let p' := dropz (sp+1) p in let plen' := plen - (sp+1) in
    if br' =? 0 then
      if (0 <? plen') && (get p' 0 =? 91)%N then tail_loop0 f p' plen' br' else plen'
    else tail_loop0 f p' plen' br'
  end.
Lemma tail_loop_none f : forall p plen br nidx dflt,
  tail_loop f p plen br None nidx dflt = (tail_loop0 f p plen br, None).
Proof.
  induction f as [|f IH]; intros p plen br nidx dflt; [reflexivity|].
  cbn [tail_loop tail_loop0 hasslot]. destruct (plen =? 0); [reflexivity|].
  rewrite andb_false_r. cbv zeta.
  destruct ((if (get p (sep_or_len pat_seps plen p) =? 91)%N then br + 1
             else if (get p (sep_or_len pat_seps plen p) =? 93)%N then br - 1 else br) =? 0).
  - destruct ((0 <? plen - (sep_or_len pat_seps plen p + 1)) && (get (dropz (sep_or_len pat_seps plen p + 1) p) 0 =? 91)%N); [apply IH|reflexivity].
  - apply IH.
Qed.
(* state after a closing step: brackets = 0, next decision depends on the first byte *)
Definition after0 (f:nat) (R:bytes) (plen:Z) : Z := if (0 <? plen) && (get R 0 =? 91)%N then tail_loop0 f R plen 0 else plen.

Lemma get_cons0 c l : get (c :: l) 0 = c. Proof. reflexivity. Qed.
Lemma dropz1 c l : dropz 1 (c :: l) = l. Proof. reflexivity. Qed.

Lemma tail_step_sep f c R plen br : 0 < plen -> pat_seps c = true -> c <> 0%N ->
  tail_loop0 (S f) (c :: R) plen br =
  let br' := if (c =? 91)%N then br + 1 else if (c =? 93)%N then br - 1 else br in
  if br' =? 0 then (if (0 <? plen - 1) && (get R 0 =? 91)%N then tail_loop0 f R (plen - 1) br' else plen - 1)
  else tail_loop0 f R (plen - 1) br'.
Proof.
  intros Hp Hc Hc0. cbn [tail_loop0]. destruct (Z.eqb_spec plen 0); [lia|].
  assert (S1 : sep_or_len pat_seps plen (c :: R) = 0).
  { apply (sep_or_len_run pat_seps [] (c :: R) plen); [reflexivity|cbn; lia|]. right. exists c, R. auto. }
  rewrite S1. rewrite get_cons0. change (0 + 1) with 1. rewrite dropz1. reflexivity.
Qed.

Lemma tail_step_body f it R plen br : okname (nm it) -> Z.of_nat (length (body it)) < plen ->
  tail_loop0 (S f) (body it ++ 93%N :: R) plen br =
  let plen' := plen - (Z.of_nat (length (body it)) + 1) in
  if br - 1 =? 0 then (if (0 <? plen') && (get R 0 =? 91)%N then tail_loop0 f R plen' (br - 1) else plen')
  else tail_loop0 f R plen' (br - 1).
Proof.
  intros Hn Hl. cbn [tail_loop0]. destruct (Z.eqb_spec plen 0); [lia|].
  assert (S3 : sep_or_len pat_seps plen (body it ++ 93%N :: R) = Z.of_nat (length (body it))).
  { apply sep_or_len_run; [now apply body_nosep|lia|]. right. exists 93%N, R. repeat split; reflexivity || discriminate. }
  rewrite S3. rewrite get_app_at, get_cons0. cbn [N.eqb Pos.eqb].
  replace (dropz (Z.of_nat (length (body it)) + 1) (body it ++ 93%N :: R)) with R.
  2:{ unfold dropz. replace (Z.to_nat (Z.of_nat (length (body it)) + 1)) with (length (body it) + 1)%nat by lia.
      rewrite skipn_app. rewrite skipn_all2 by lia. replace (length (body it) + 1 - length (body it))%nat with 1%nat by lia. reflexivity. }
  reflexivity.
Qed.

Lemma tail_opt f it R plen : okname (nm it) -> opt it = true -> Z.of_nat (length (rnext it)) <= plen ->
  tail_loop0 (S (S (S f))) (rnext it ++ R) plen 0 = after0 f R (plen - Z.of_nat (length (rnext it))).
Proof.
  intros Hn Ho Hl. unfold rnext in *. rewrite Ho in *. cbn [app length] in *. rewrite app_length in Hl. cbn [length] in Hl.
  assert (Hb : 0 < Z.of_nat (length (body it))) by (pose proof (body_ne it Hn); destruct (body it); [congruence|cbn [length]; lia]).
  rewrite tail_step_sep by (try reflexivity; try discriminate; lia). cbn [N.eqb Pos.eqb]. cbn zeta. change (0 + 1 =? 0) with false. cbn iota.
  rewrite tail_step_sep by (try reflexivity; try discriminate; lia). cbn [N.eqb Pos.eqb]. cbn zeta. change (0 + 1 =? 0) with false. cbn iota.
  rewrite <- app_assoc. cbn [app].
  rewrite tail_step_body by (try exact Hn; lia). cbn zeta. change (0 + 1 - 1 =? 0) with true. cbn iota.
  unfold after0. rewrite app_length. cbn [length].
  replace (plen - 1 - 1 - (Z.of_nat (length (body it)) + 1)) with (plen - Z.of_nat (S (S (length (body it) + 1)))) by lia.
  reflexivity.
Qed.

(* all remaining pattern parts are optional <-> the loop ends with length 0 *)
Lemma after0_all its : forall f qm, Forall (fun it => okname (nm it)) its -> okq qm -> tlen its < Z.of_nat f ->
  (after0 f (tailp its qm) (tlen its) =? 0) = forallb opt its.
Proof.
  induction its as [|it its IH]; intros f qm Hw Hq Hf.
  - unfold after0, tlen. cbn. reflexivity.
  - inversion Hw as [|? ? Hn Hw']; subst. rewrite tlen_cons, tailp_cons. cbn [forallb].
    pose proof (tlen_nonneg its) as Ht.
    assert (Hr : 0 < Z.of_nat (length (rnext it))) by (unfold rnext; destruct (opt it); cbn [length]; lia).
    unfold after0. destruct (Z.ltb_spec 0 (Z.of_nat (length (rnext it)) + tlen its)); [|lia]. cbn [andb].
    destruct (opt it) eqn:Ho.
    + assert (Hg : get (rnext it ++ tailp its qm) 0 = 91%N) by (unfold rnext; rewrite Ho; reflexivity).
      rewrite Hg. cbn [N.eqb Pos.eqb andb].
      assert (Hr4 : 4 <= Z.of_nat (length (rnext it))).
      { unfold rnext. rewrite Ho. cbn [length]. rewrite app_length. cbn [length].
        pose proof (body_ne it Hn). destruct (body it); [congruence|cbn [length]; lia]. }
      rewrite tlen_cons in Hf.
      destruct f as [|[|[|f]]]; try lia.
      rewrite tail_opt by (try assumption; lia).
      replace (Z.of_nat (length (rnext it)) + tlen its - Z.of_nat (length (rnext it))) with (tlen its) by lia.
      apply IH; try assumption. lia.
    + assert (Hg : get (rnext it ++ tailp its qm) 0 = 58%N) by (unfold rnext; rewrite Ho; reflexivity).
      rewrite Hg. cbn [N.eqb Pos.eqb andb]. apply Z.eqb_neq. lia.
Qed.

(* entering the loop right after a matched keyword *)
Definition brof (it:item) : Z := if opt it then 1 else 0.
Lemma tail_entry it its qm f : okname (nm it) -> Forall (fun i => okname (nm i)) its -> okq qm ->
  Z.of_nat (length (close it)) + tlen its <> 0 -> Z.of_nat (length (close it)) + tlen its < Z.of_nat f ->
  (tail_loop0 f (close it ++ tailp its qm) (Z.of_nat (length (close it)) + tlen its) (brof it) =? 0) = forallb opt its.
Proof.
  intros Hn Hw Hq Hnz Hf. pose proof (tlen_nonneg its) as Ht. unfold close, brof in *. destruct (opt it) eqn:Ho; cbn [app length] in *.
  - destruct f as [|f]; [lia|].
    rewrite tail_step_sep by (try reflexivity; try discriminate; lia). cbn [N.eqb Pos.eqb]. cbn zeta. change (1 - 1 =? 0) with true. cbn iota.
    replace (Z.of_nat 1 + tlen its - 1) with (tlen its) by lia.
    change ((if (0 <? tlen its) && (get (tailp its qm) 0 =? 91)%N then tail_loop0 f (tailp its qm) (tlen its) (1 - 1) else tlen its) =? 0)
      with (after0 f (tailp its qm) (tlen its) =? 0).
    apply after0_all; try assumption. lia.
  - destruct its as [|it2 its2]; [unfold tlen in Hnz; cbn in Hnz; lia|].
    inversion Hw as [|? ? Hn2 Hw2]; subst. rewrite tailp_cons. rewrite tlen_cons in *. cbn [forallb].
    change (Z.of_nat 0) with 0 in *. rewrite Z.add_0_l in *.
    destruct (opt it2) eqn:Ho2.
    + assert (Hr4 : 4 <= Z.of_nat (length (rnext it2))).
      { unfold rnext. rewrite Ho2. cbn [length]. rewrite app_length. cbn [length].
        pose proof (body_ne it2 Hn2). destruct (body it2); [congruence|cbn [length]; lia]. }
      pose proof (tlen_nonneg its2).
      destruct f as [|[|[|f]]]; try lia.
      rewrite tail_opt by (try assumption; lia).
      replace (Z.of_nat (length (rnext it2)) + tlen its2 - Z.of_nat (length (rnext it2))) with (tlen its2) by lia.
      cbn [andb]. apply after0_all; try assumption. lia.
    + unfold rnext. rewrite Ho2. cbn [app length andb].
      pose proof (body_ne it2 Hn2) as Hb. pose proof (tlen_nonneg its2).
      destruct f as [|f]; [lia|].
      rewrite tail_step_sep by (try reflexivity; try discriminate; lia). cbn [N.eqb Pos.eqb]. cbn zeta. change (0 =? 0) with true. cbn iota.
      assert (Hg : (get (body it2 ++ tailp its2 qm) 0 =? 91)%N = false).
      { rewrite get_app_l by (destruct (body it2); [congruence|cbn [length]; lia]).
        destruct (letter_facts _ (body_first_letter it2 Hn2)) as (_ & _ & H91 & _). exact H91. }
      rewrite Hg, andb_false_r. apply Z.eqb_neq. destruct (body it2); [congruence|cbn [length] in *; lia].
Qed.

(* ---------- the main loop ---------- *)
Definition seg_ok (it:item) (s:bytes) : bool :=
  fst (matchPattern (body it) (Z.of_nat (length (body it))) s (Z.of_nat (length s)) false).
Fixpoint greedy (its:list item) (ss:list bytes) : bool :=
  match its with
  | [] => match ss with [] => true | _ => false end
  | it::its' => match ss with
                | [] => forallb opt its
                | s::ss' => if seg_ok it s then greedy its' ss' else if opt it then greedy its' ss else false
                end
  end.
Definition okseg (s:bytes) : Prop := nosep cmd_seps s.
Definition tailc (ss:list bytes) (qm:bytes) : bytes := concat (map (fun s => 58%N :: s) ss) ++ qm.
Definition clen_of (ss:list bytes) : Z := Z.of_nat (length (concat (map (fun s => 58%N :: s) ss))).
Definition headp it its qm := body it ++ close it ++ tailp its qm.
Definition hplen it its := Z.of_nat (length (body it)) + Z.of_nat (length (close it)) + tlen its.

Lemma match_loop_none f p plen c clen br result nidx dflt :
  match_loop (S f) p plen c clen br result None nidx dflt =
  let psp := sep_or_len pat_seps plen p in
  let csp := sep_or_len cmd_seps clen c in
  let nidx1 := if (0 <? psp) && (get p (psp-1) =? 35)%N then nidx + 1 else nidx in
  if fst (matchPattern p psp c csp false) then
    let p1 := dropz psp p in let plen1 := plen - psp in
    let c1 := dropz csp c in let clen1 := clen - csp in
    if (plen1 =? 0) && (clen1 =? 0) then Res true None
    else if (plen1 =? 0) then Res false None
    else if (clen1 =? 0) then Res (tail_loop0 (S (Z.to_nat plen1)) p1 plen1 br =? 0) None
    else
      let p0 := get p1 0 in let p1c := get p1 1 in let p2c := get p1 2 in let c0 := get c1 0 in
      if (0 <? plen1) && (p0 =? c0)%N && (p0 =? 58)%N then
        match_loop f (dropz 1 p1) (plen1-1) (dropz 1 c1) (clen1-1) br true None nidx1 dflt
      else if (1 <? plen1) && (p1c =? c0)%N && (p0 =? 91)%N && (p1c =? 58)%N then
        match_loop f (dropz 2 p1) (plen1-2) (dropz 1 c1) (clen1-1) (br+1) true None nidx1 dflt
      else if (1 <? plen1) && (p1c =? c0)%N && (p0 =? 93)%N && (p1c =? 58)%N then
        match_loop f (dropz 2 p1) (plen1-2) (dropz 1 c1) (clen1-1) (br-1) true None nidx1 dflt
      else if (2 <? plen1) && (p2c =? c0)%N && (p0 =? 93)%N && (p1c =? 91)%N && (p2c =? 58)%N then
        match_loop f (dropz 3 p1) (plen1-3) (dropz 1 c1) (clen1-1) br true None nidx1 dflt
      else Res false None
  else
    let p1 := dropz psp p in let plen1 := plen - psp in
    if (get p1 0 =? 93)%N && (get p1 1 =? 58)%N then
      match_loop f (dropz 2 p1) (plen1-2) c clen (br-1) result None nidx1 dflt
    else if (2 <? plen1) && (get p1 0 =? 93)%N && (get p1 1 =? 91)%N && (get p1 2 =? 58)%N then
      match_loop f (dropz 3 p1) (plen1-3) c clen br result None nidx1 dflt
    else Res false None.
Proof.
  cbn [match_loop hasslot setnum andb]. rewrite !andb_false_r.
  destruct (matchPattern p (sep_or_len pat_seps plen p) c (sep_or_len cmd_seps clen c) false) as [m v].
  cbn [fst]. destruct m; [destruct v; rewrite tail_loop_none|]; reflexivity.
Qed.

Lemma get_cons1 a b l : get (a :: b :: l) 1 = b. Proof. reflexivity. Qed.
Lemma get_cons2 a b c l : get (a :: b :: c :: l) 2 = c. Proof. reflexivity. Qed.
Lemma dropz2 a b l : dropz 2 (a :: b :: l) = l. Proof. reflexivity. Qed.
Lemma dropz3 a b c l : dropz 3 (a :: b :: c :: l) = l. Proof. reflexivity. Qed.

Definition lead (it:item) : bytes := if opt it then [91%N; 58%N] else [58%N].
Lemma rnext_split it R : rnext it ++ R = lead it ++ body it ++ close it ++ R.
Proof. unfold rnext, lead, close. destruct (opt it); cbn [app]; [rewrite <- app_assoc|]; reflexivity. Qed.
Lemma rnext_len it : Z.of_nat (length (rnext it)) = Z.of_nat (length (lead it)) + Z.of_nat (length (body it)) + Z.of_nat (length (close it)).
Proof. unfold rnext, lead, close. destruct (opt it); cbn [length]; rewrite ?app_length; cbn [length]; lia. Qed.
Lemma tailp_head it its qm : tailp (it :: its) qm = lead it ++ headp it its qm.
Proof. rewrite tailp_cons, rnext_split. reflexivity. Qed.
Lemma tlen_head it its : tlen (it :: its) = Z.of_nat (length (lead it)) + hplen it its.
Proof. rewrite tlen_cons, rnext_len. unfold hplen. lia. Qed.

Definition wf (its:list item) : Prop := Forall (fun i => okname (nm i)) its.

Lemma psp_head it its qm : okname (nm it) -> wf its -> okq qm ->
  sep_or_len pat_seps (hplen it its) (headp it its qm) = Z.of_nat (length (body it)).
Proof.
  intros Hn Hw Hq. unfold headp, hplen. pose proof (tlen_nonneg its).
  apply sep_or_len_run; [now apply body_nosep|lia|].
  unfold close. destruct (opt it).
  - right. eexists _, _. cbn [app]. repeat split; reflexivity || discriminate.
  - destruct its as [|it2 its2]; [left; unfold tlen; cbn; lia|]. right. rewrite tailp_head. unfold lead.
    destruct (opt it2); eexists _, _; cbn [app]; repeat split; reflexivity || discriminate.
Qed.
Lemma csp_head seg ss qm : okseg seg ->
  sep_or_len cmd_seps (Z.of_nat (length seg) + clen_of ss) (seg ++ tailc ss qm) = Z.of_nat (length seg).
Proof.
  intros Hs. unfold clen_of. apply sep_or_len_run; [exact Hs|lia|].
  destruct ss as [|s ss']; [left; cbn; lia|]. right. unfold tailc. cbn [map concat app]. eexists _, _. repeat split; reflexivity || discriminate.
Qed.
Lemma mp_head it its qm seg ss qm' : okname (nm it) ->
  fst (matchPattern (headp it its qm) (Z.of_nat (length (body it))) (seg ++ tailc ss qm') (Z.of_nat (length seg)) false) = seg_ok it seg.
Proof. intros Hn. unfold headp, seg_ok. apply matchPattern_app. now apply body_ne. Qed.
Lemma clen_cons s ss : clen_of (s :: ss) = 1 + Z.of_nat (length s) + clen_of ss.
Proof. unfold clen_of. cbn [map concat]. rewrite app_length. cbn [length]. rewrite Nat2Z.inj_add, Nat2Z.inj_succ, Z.add_1_l. reflexivity. Qed.
Lemma tailc_cons s ss qm : tailc (s :: ss) qm = 58%N :: s ++ tailc ss qm.
Proof. unfold tailc. cbn [map concat app]. now rewrite <- app_assoc. Qed.
Lemma clen_nonneg ss : 0 <= clen_of ss. Proof. unfold clen_of. lia. Qed.

Lemma loop_spec : forall its it seg ss fuel qm qm' result nidx dflt,
  okname (nm it) -> wf its -> okq qm -> okq qm' -> okseg seg -> Forall okseg ss -> (length its < fuel)%nat ->
  match_loop fuel (headp it its qm) (hplen it its) (seg ++ tailc ss qm') (Z.of_nat (length seg) + clen_of ss) (brof it) result None nidx dflt
  = Res (greedy (it :: its) (seg :: ss)) None.
Proof.
  induction its as [|it2 its2 IH]; intros it seg ss fuel qm qm' result nidx dflt Hn Hw Hq Hq' Hs Hss Hf;
  (destruct fuel as [|fuel]; [lia|]); rewrite match_loop_none; cbn zeta;
  rewrite psp_head by assumption; rewrite csp_head by assumption; rewrite mp_head by assumption;
  match goal with |- context [dropz ?n (headp it ?l qm)] =>
    assert (Hp1 : dropz n (headp it l qm) = close it ++ tailp l qm) by (unfold headp; apply dropz_app) end;
  assert (Hc1 : dropz (Z.of_nat (length seg)) (seg ++ tailc ss qm') = tailc ss qm') by apply dropz_app;
  rewrite !Hp1, !Hc1; cbn [greedy];
  pose proof (clen_nonneg ss) as Hcl;
  replace (Z.of_nat (length seg) + clen_of ss - Z.of_nat (length seg)) with (clen_of ss) by lia.
  - (* last item *)
    unfold hplen, tlen, tailp. cbn [map concat length app].
    replace (Z.of_nat (length (body it)) + Z.of_nat (length (close it)) + Z.of_nat 0 - Z.of_nat (length (body it))) with (Z.of_nat (length (close it))) by lia.
    destruct (seg_ok it seg).
    + unfold close, brof. destruct (opt it) eqn:Ho; cbn [length app].
      * change (Z.of_nat 1 =? 0) with false. cbn [andb].
        destruct ss as [|s' ss'].
        -- change (clen_of [] =? 0) with true. cbn iota.
           rewrite tail_step_sep by (try reflexivity; try discriminate; lia). cbn [N.eqb Pos.eqb]. cbn zeta.
           change (1 - 1 =? 0) with true. cbn iota. change (0 <? Z.of_nat 1 - 1) with false. cbn [andb]. reflexivity.
        -- rewrite clen_cons. destruct (Z.eqb_spec (1 + Z.of_nat (length s') + clen_of ss') 0); [pose proof (clen_nonneg ss'); lia|].
           rewrite tailc_cons. rewrite !get_cons0. destruct Hq as [->| ->]; reflexivity.
      * change (Z.of_nat 0 =? 0) with true. cbn [andb]. destruct ss as [|s' ss'].
        -- reflexivity.
        -- rewrite clen_cons. destruct (Z.eqb_spec (1 + Z.of_nat (length s') + clen_of ss') 0); [pose proof (clen_nonneg ss'); lia|]. reflexivity.
    + unfold close. destruct (opt it) eqn:Ho; cbn [app length].
      * rewrite get_cons0. cbn [N.eqb Pos.eqb andb]. destruct Hq as [->| ->]; reflexivity.
      * destruct Hq as [->| ->]; reflexivity.
  - (* at least one more item *)
    inversion Hw as [|? ? Hn2 Hw2]; subst.
    rewrite tailp_head.
    assert (Hpl : hplen it (it2 :: its2) - Z.of_nat (length (body it)) = Z.of_nat (length (close it)) + Z.of_nat (length (lead it2)) + hplen it2 its2).
    { unfold hplen at 1. rewrite tlen_head. lia. }
    rewrite !Hpl.
    assert (Hh2 : 0 < hplen it2 its2).
    { unfold hplen. pose proof (tlen_nonneg its2). pose proof (body_ne it2 Hn2). destruct (body it2); [congruence|cbn [length]; lia]. }
    assert (Hfu : (length its2 < fuel)%nat) by (cbn [length] in Hf; lia).
    destruct (seg_ok it seg).
    + (* matched: commit *)
      assert (Hnz : (Z.of_nat (length (close it)) + Z.of_nat (length (lead it2)) + hplen it2 its2 =? 0) = false) by (apply Z.eqb_neq; lia).
      rewrite Hnz. cbn [andb].
      destruct ss as [|s' ss'].
      * change (clen_of [] =? 0) with true. cbn iota. f_equal.
        rewrite <- tailp_head.
        replace (Z.of_nat (length (close it)) + Z.of_nat (length (lead it2)) + hplen it2 its2) with (Z.of_nat (length (close it)) + tlen (it2 :: its2)) by (rewrite tlen_head; lia).
        apply tail_entry; try assumption.
        -- rewrite tlen_head. lia.
        -- rewrite tlen_head. lia.
      * rewrite clen_cons. inversion Hss as [|? ? Hs' Hss']; subst.
        destruct (Z.eqb_spec (1 + Z.of_nat (length s') + clen_of ss') 0); [pose proof (clen_nonneg ss'); lia|].
        rewrite tailc_cons.
        replace (1 + Z.of_nat (length s') + clen_of ss' - 1) with (Z.of_nat (length s') + clen_of ss') by lia.
        unfold close, lead, brof. destruct (opt it) eqn:Ho, (opt it2) eqn:Ho2; cbn [app length];
        rewrite ?get_cons0, ?get_cons1, ?get_cons2, ?dropz1, ?dropz2, ?dropz3; cbn [N.eqb Pos.eqb andb];
        rewrite ?andb_false_r; cbn [andb].
        all: try (destruct (Z.ltb_spec 2 (Z.of_nat 1 + Z.of_nat 2 + hplen it2 its2)); [|lia]);
             try (destruct (Z.ltb_spec 1 (Z.of_nat 1 + Z.of_nat 1 + hplen it2 its2)); [|lia]);
             try (destruct (Z.ltb_spec 1 (Z.of_nat 0 + Z.of_nat 2 + hplen it2 its2)); [|lia]);
             try (destruct (Z.ltb_spec 0 (Z.of_nat 0 + Z.of_nat 1 + hplen it2 its2)); [|lia]);
             cbn [andb];
             repeat match goal with |- context [?a + ?b + hplen ?i ?l - ?k] =>
               replace (a + b + hplen i l - k) with (hplen i l) by lia end;
             match goal with |- match_loop _ _ _ _ _ ?b ?r None ?nx _ = _ =>
               pose proof (IH it2 s' ss' fuel qm qm' r nx dflt Hn2 Hw2 Hq Hq' Hs' Hss' Hfu) as HI end;
             unfold brof in HI; rewrite Ho2 in HI; cbn [greedy] in HI; rewrite ?Ho2 in HI; exact HI.
    + (* mismatch: skip the item if it is optional *)
      unfold close, lead, brof. destruct (opt it) eqn:Ho, (opt it2) eqn:Ho2; cbn [app length];
      rewrite ?get_cons0, ?get_cons1, ?get_cons2, ?dropz2, ?dropz3; cbn [N.eqb Pos.eqb andb];
      rewrite ?andb_false_r; cbn [andb].
      * destruct (Z.ltb_spec 2 (Z.of_nat 1 + Z.of_nat 2 + hplen it2 its2)); [|lia]. cbn [andb].
        replace (Z.of_nat 1 + Z.of_nat 2 + hplen it2 its2 - 3) with (hplen it2 its2) by lia.
        match goal with |- match_loop _ _ _ _ _ ?b ?r None ?nx _ = _ =>
          pose proof (IH it2 seg ss fuel qm qm' r nx dflt Hn2 Hw2 Hq Hq' Hs Hss Hfu) as HI end.
        unfold brof in HI; rewrite Ho2 in HI; cbn [greedy] in HI; rewrite ?Ho2 in HI. exact HI.
      * replace (Z.of_nat 1 + Z.of_nat 1 + hplen it2 its2 - 2) with (hplen it2 its2) by lia.
        match goal with |- match_loop _ _ _ _ _ ?b ?r None ?nx _ = _ =>
          pose proof (IH it2 seg ss fuel qm qm' r nx dflt Hn2 Hw2 Hq Hq' Hs Hss Hfu) as HI end.
        unfold brof in HI; rewrite Ho2 in HI; cbn [greedy] in HI; rewrite ?Ho2 in HI. exact HI.
      * (* mandatory item does not match *)
        assert (Hg : (get (headp it2 its2 qm) 0 =? 93)%N = false).
        { unfold headp. rewrite get_app_l by (pose proof (body_ne it2 Hn2); destruct (body it2); [congruence|cbn [length]; lia]).
          destruct (letter_facts _ (body_first_letter it2 Hn2)) as (_ & _ & _ & H93 & _). exact H93. }
        reflexivity.
      * reflexivity.
Qed.
Print Assumptions loop_spec.

(* ---------- the whole function on rendered patterns and headers ---------- *)
Definition qmark (q:bool) : bytes := if q then [63%N] else [].
Definition render (it:item) (its:list item) (q:bool) : bytes := (if opt it then [91%N; 58%N] else []) ++ headp it its (qmark q).
Definition hdr (lead:bool) (seg:bytes) (ss:list bytes) (hq:bool) : bytes := (if lead then [58%N] else []) ++ seg ++ tailc ss (qmark hq).

Lemma get_last_app a c : get (a ++ [c]) (Z.of_nat (length (a ++ [c])) - 1) = c.
Proof. rewrite app_length. cbn [length]. rewrite get_app_r by lia. replace (Z.of_nat (length a + 1) - 1 - Z.of_nat (length a)) with 0 by lia. reflexivity. Qed.
Lemma okq_qmark q : okq (qmark q). Proof. destruct q; [now right|now left]. Qed.

(* the last byte of a rendered pattern without '?' is not '?' *)
Lemma nosep_last_not_q (l:bytes) : l <> [] -> (forall c, In c l -> c <> 63%N) -> (get l (Z.of_nat (length l) - 1) =? 63)%N = false.
Proof. intros Hne H. apply N.eqb_neq. apply H. unfold get. destruct (Z.ltb_spec (Z.of_nat (length l) - 1) 0).
  - destruct l; [congruence|cbn [length] in *; lia].
  - apply nth_In. destruct l; [congruence|cbn [length]; lia]. Qed.

Lemma in_concat_map {A B} (f:A -> list B) l x : In x (concat (map f l)) -> exists a, In a l /\ In x (f a).
Proof. induction l as [|a l IH]; cbn; [tauto|]. intros H. apply in_app_or in H as [H|H]; [exists a; auto|].
  destruct (IH H) as (a' & Ha & Hx). exists a'; auto. Qed.
Lemma body_no_q it : okname (nm it) -> forall c, In c (body it) -> c <> 63%N.
Proof. intros [_ H] c Hc. unfold body in Hc. apply in_app_or in Hc as [Hc|Hc].
  - rewrite forallb_forall in H. specialize (H c Hc). unfold isletter, isupper, islower, inr in H. intro E; subst. discriminate.
  - destruct (num it); cbn in Hc; [destruct Hc as [<-|[]]; discriminate|tauto]. Qed.
Lemma pattern_no_q it its : okname (nm it) -> wf its -> forall c, In c ((if opt it then [91%N; 58%N] else []) ++ headp it its []) -> c <> 63%N.
Proof.
  intros Hn Hw c Hc. apply in_app_or in Hc as [Hc|Hc].
  - destruct (opt it); cbn in Hc; [destruct Hc as [<-|[<-|[]]]; discriminate|tauto].
  - unfold headp in Hc. apply in_app_or in Hc as [Hc|Hc]; [now apply (body_no_q it)|].
    apply in_app_or in Hc as [Hc|Hc].
    + unfold close in Hc. destruct (opt it); cbn in Hc; [destruct Hc as [<-|[]]; discriminate|tauto].
    + unfold tailp in Hc. rewrite app_nil_r in Hc. apply in_concat_map in Hc as (i2 & Hi & Hx).
      unfold wf in Hw. rewrite Forall_forall in Hw. specialize (Hw i2 Hi).
      unfold rnext in Hx. destruct (opt i2); cbn in Hx.
      * destruct Hx as [<-|[<-|Hx]]; try discriminate. apply in_app_or in Hx as [Hx|Hx]; [now apply (body_no_q i2)|]. destruct Hx as [<-|[]]. discriminate.
      * destruct Hx as [<-|Hx]; [discriminate|now apply (body_no_q i2)].
Qed.

Lemma headp_len it its qm : Z.of_nat (length (headp it its qm)) = hplen it its + Z.of_nat (length qm).
Proof. unfold headp, hplen, tailp, tlen. rewrite !app_length, !Nat2Z.inj_add. lia. Qed.
Lemma tailc_len ss qm : Z.of_nat (length (tailc ss qm)) = clen_of ss + Z.of_nat (length qm).
Proof. unfold tailc, clen_of. rewrite app_length, Nat2Z.inj_add. reflexivity. Qed.
Lemma headp_q it its : headp it its [63%N] = headp it its [] ++ [63%N].
Proof. unfold headp, tailp. rewrite app_nil_r, !app_assoc. reflexivity. Qed.
Lemma tailc_q ss : tailc ss [63%N] = tailc ss [] ++ [63%N].
Proof. unfold tailc. rewrite app_nil_r. reflexivity. Qed.
Lemma okseg_no_q seg : okseg seg -> forall c, In c seg -> c <> 63%N /\ c <> 58%N /\ c <> 0%N.
Proof. intros H c Hc. unfold okseg, nosep in H. rewrite forallb_forall in H. specialize (H c Hc).
  apply andb_prop in H as [H0 Hs]. apply negb_true_iff in H0, Hs. unfold cmd_seps in Hs. apply orb_false_iff in Hs as [H58 H63].
  apply N.eqb_neq in H0, H58, H63. auto. Qed.
Lemma tailc_no_q ss : Forall okseg ss -> forall c, In c (tailc ss []) -> c <> 63%N.
Proof. intros H c Hc. unfold tailc in Hc. rewrite app_nil_r in Hc. apply in_concat_map in Hc as (s & Hs & Hx).
  rewrite Forall_forall in H. destruct Hx as [<-|Hx]; [discriminate|]. now apply (okseg_no_q s (H s Hs)). Qed.

Lemma get_consS c l : get (c :: l) 1 = get l 0. Proof. reflexivity. Qed.
Lemma its_le_tlen its : Z.of_nat (length its) <= tlen its.
Proof. induction its as [|i l IH]; [unfold tlen; cbn; lia|]. rewrite tlen_cons. cbn [length]. rewrite Nat2Z.inj_succ.
  assert (1 <= Z.of_nat (length (rnext i))) by (unfold rnext; destruct (opt i); cbn [length]; lia). lia. Qed.
Lemma seg_first seg R : seg <> [] -> get (seg ++ R) 0 = get seg 0.
Proof. intros H. apply get_app_l. destruct seg; [congruence|cbn [length]; lia]. Qed.
Lemma okseg_first seg : okseg seg -> seg <> [] -> (get seg 0 =? 58)%N = false.
Proof. intros Hs Hne. destruct seg as [|c r]; [congruence|]. cbn. apply N.eqb_neq. apply (okseg_no_q (c :: r) Hs c). now left. Qed.

Theorem match_top it its q lead seg ss hq dflt :
  okname (nm it) -> wf its -> okseg seg -> Forall okseg ss -> seg <> [] -> get seg 0 <> 42%N ->
  (q = false -> hq = false) ->
  matchCommand (render it its q) (hdr lead seg ss hq) None dflt =
  Res ((negb q || hq) && greedy (it :: its) (seg :: ss)) None.
Proof.
  intros Hn Hw Hs Hss Hne H42 Hqq.
  assert (Hb : 0 < Z.of_nat (length (body it))) by (pose proof (body_ne it Hn); destruct (body it); [congruence|cbn [length]; lia]).
  assert (Hsl : 0 < Z.of_nat (length seg)) by (destruct seg; [congruence|cbn [length]; lia]).
  pose proof (tlen_nonneg its) as Ht. pose proof (clen_nonneg ss) as Hc.
  set (pre := if opt it then [91%N; 58%N] else []).
  set (X := pre ++ headp it its []).
  set (Y := (if lead then [58%N] else []) ++ seg ++ tailc ss []).
  assert (HX : render it its q = X ++ qmark q).
  { unfold render, X, pre. destruct q; cbn [qmark]; [rewrite headp_q, app_assoc|rewrite app_nil_r]; reflexivity. }
  assert (HY : hdr lead seg ss hq = Y ++ qmark hq).
  { unfold hdr, Y. destruct hq; cbn [qmark]; [rewrite tailc_q, !app_assoc|rewrite app_nil_r]; reflexivity. }
  assert (HXne : X <> []) by (unfold X, pre, headp; destruct (opt it); [discriminate|]; destruct (body it); [cbn [length] in Hb; lia|discriminate]).
  assert (HYne : Y <> []) by (unfold Y; destruct lead; [discriminate|]; destruct seg; [congruence|discriminate]).
  assert (HXq : forall c, In c X -> c <> 63%N) by (apply pattern_no_q; assumption).
  assert (HYq : forall c, In c Y -> c <> 63%N).
  { intros c Hc'. unfold Y in Hc'. apply in_app_or in Hc' as [Hc'|Hc'].
    - destruct lead; cbn in Hc'; [destruct Hc' as [<-|[]]; discriminate|tauto].
    - apply in_app_or in Hc' as [Hc'|Hc']; [now apply (okseg_no_q seg Hs)|now apply (tailc_no_q ss Hss)]. }
  assert (HXlen : Z.of_nat (length X) = Z.of_nat (length pre) + hplen it its).
  { unfold X. rewrite app_length, Nat2Z.inj_add, headp_len. cbn [length]. lia. }
  assert (HYlen : Z.of_nat (length Y) = (if lead then 1 else 0) + Z.of_nat (length seg) + clen_of ss).
  { unfold Y. rewrite !app_length, !Nat2Z.inj_add, tailc_len. destruct lead; cbn [length]; lia. }
  unfold matchCommand. rewrite HX, HY. cbv zeta.
  (* the two query marks *)
  assert (Hpq : (get (X ++ qmark q) (Z.of_nat (length (X ++ qmark q)) - 1) =? 63)%N = q).
  { destruct q; cbn [qmark]; [rewrite get_last_app; reflexivity|rewrite app_nil_r; now apply nosep_last_not_q]. }
  assert (Hcq : (get (Y ++ qmark hq) (Z.of_nat (length (Y ++ qmark hq)) - 1) =? 63)%N = hq).
  { destruct hq; cbn [qmark]; [rewrite get_last_app; reflexivity|rewrite app_nil_r; now apply nosep_last_not_q]. }
  repeat match goal with |- context [(get (X ++ qmark q) ?i =? 63)%N] => replace ((get (X ++ qmark q) i =? 63)%N) with q by (symmetry; exact Hpq) end.
  repeat match goal with |- context [(get (Y ++ qmark hq) ?i =? 63)%N] => replace ((get (Y ++ qmark hq) i =? 63)%N) with hq by (symmetry; exact Hcq) end.
  destruct q, hq; cbn [andb negb orb]; try (specialize (Hqq eq_refl); discriminate); try reflexivity.
  all: cbn [qmark]; rewrite ?app_nil_r; rewrite ?app_length; cbn [length]; rewrite ?Nat2Z.inj_add; change (Z.of_nat 1) with 1.
  all: pose proof (its_le_tlen its) as Hil.
  all: destruct (letter_facts _ (body_first_letter it Hn)) as (_ & _ & L91 & _ & L58 & _).
  all: assert (Hh0 : forall qm, get (headp it its qm) 0 = get (body it) 0)
         by (intro qm; unfold headp; apply get_app_l; lia).
  - (* query pattern, query header *)
    assert (EX : X ++ [63%N] = pre ++ headp it its [63%N]) by (unfold X; rewrite <- app_assoc, <- headp_q; reflexivity).
    assert (EY : Y ++ [63%N] = (if lead then [58%N] else []) ++ seg ++ tailc ss [63%N]) by (unfold Y; rewrite <- !app_assoc, <- tailc_q; reflexivity).
    rewrite !EX, !EY. rewrite HXlen, HYlen. unfold pre. clear EX EY.
    destruct (opt it) eqn:Ho; cbn [app length]; rewrite ?get_cons0, ?dropz1; cbn [N.eqb Pos.eqb];
    do 3 (rewrite ?get_cons0, ?dropz1, ?Hh0, ?L91, ?L58; cbn [N.eqb Pos.eqb]);
    (destruct lead; cbn [app length]; rewrite ?get_cons0, ?get_consS, ?dropz1, ?seg_first, ?(okseg_first seg Hs Hne) by assumption; cbn [N.eqb Pos.eqb andb];
     [destruct (Z.leb_spec 2 (1 + Z.of_nat (length seg) + clen_of ss + 1 - 1)); [|lia]; cbn [andb];
      destruct (N.eqb_spec (get seg 0) 42); [contradiction|]; cbn [andb]|]);
    match goal with |- match_loop ?f _ ?pl _ ?cl ?b _ None _ _ = _ =>
      replace pl with (hplen it its) by lia; replace cl with (Z.of_nat (length seg) + clen_of ss) by lia;
      replace b with (brof it) by (unfold brof; rewrite Ho; reflexivity) end;
    apply loop_spec; try assumption; try apply okq_qmark; try (now right); rewrite ?app_length; cbn [length]; unfold hplen in *; lia.
  - (* plain pattern, plain header *)
    repeat match goal with |- context [Z.of_nat (@length ?T X)] => replace (Z.of_nat (@length T X)) with (Z.of_nat (length pre) + hplen it its) by (symmetry; exact HXlen) end.
    repeat match goal with |- context [Z.of_nat (@length ?T Y)] => replace (Z.of_nat (@length T Y)) with ((if lead then 1 else 0) + Z.of_nat (length seg) + clen_of ss) by (symmetry; exact HYlen) end.
    unfold X, Y, pre.
    destruct (opt it) eqn:Ho; cbn [app length]; rewrite ?get_cons0, ?dropz1; cbn [N.eqb Pos.eqb];
    do 3 (rewrite ?get_cons0, ?dropz1, ?Hh0, ?L91, ?L58; cbn [N.eqb Pos.eqb]);
    (destruct lead; cbn [app length]; rewrite ?get_cons0, ?get_consS, ?dropz1, ?seg_first, ?(okseg_first seg Hs Hne) by assumption; cbn [N.eqb Pos.eqb andb];
     [destruct (Z.leb_spec 2 (1 + Z.of_nat (length seg) + clen_of ss)); [|lia]; cbn [andb];
      destruct (N.eqb_spec (get seg 0) 42); [contradiction|]; cbn [andb]|]);
    match goal with |- match_loop ?f _ ?pl _ ?cl ?b _ None _ _ = _ =>
      replace pl with (hplen it its) by lia; replace cl with (Z.of_nat (length seg) + clen_of ss) by lia;
      replace b with (brof it) by (unfold brof; rewrite Ho; reflexivity) end;
    apply loop_spec; try assumption; try (now left);
    match goal with |- (_ < S (?a + _))%nat => assert (Z.of_nat (length its) <= Z.of_nat a) by (etransitivity; [exact Hil|]; change (Z.of_nat a) with (Z.of_nat (length X)); rewrite HXlen; unfold hplen; lia) end; lia.
Qed.
Print Assumptions match_top.
