(* Draft: exact model of printf's %.Pg for finite binary floating-point values (value = m * 2^q, m >= 0) *)
From Coq Require Import Bool List NArith ZArith Lia.
Import ListNotations.
Local Open Scope bool_scope.
Local Open Scope Z_scope.

(* floor(log10(n/d)) for n,d > 0 *)
Definition ge10 (n d k:Z) : bool := if 0 <=? k then d * 10^k <=? n else d <=? n * 10^(-k).   (* n/d >= 10^k *)
Fixpoint adjust_up (fuel:nat) (n d k:Z) : Z := match fuel with O => k | S f => if ge10 n d (k+1) then adjust_up f n d (k+1) else k end.
Fixpoint adjust_down (fuel:nat) (n d k:Z) : Z := match fuel with O => k | S f => if ge10 n d k then k else adjust_down f n d (k-1) end.
Definition ilog10 (n d:Z) : Z :=
  let k0 := ((Z.log2 n - Z.log2 d) * 30103) / 100000 in
  adjust_up 4 n d (adjust_down 4 n d k0).
(* round-half-even of n/d to an integer *)
Definition rne (n d:Z) : Z := let q := n / d in let r := n mod d in if d <? 2*r then q+1 else if (2*r =? d) && Z.odd q then q+1 else q.
(* P significant digits of n/d: (D, X) with D in [10^(P-1), 10^P) and value ~ D * 10^(X-P+1) *)
Definition sig_digits (P n d:Z) : Z * Z :=
  let x0 := ilog10 n d in
  let s := x0 - P + 1 in                       (* scale exponent *)
  let D := if 0 <=? s then rne n (d * 10^s) else rne (n * 10^(-s)) d in
  if D =? 10^P then (10^(P-1), x0+1) else (D, x0).
Fixpoint digits_of (k:nat) (v:Z) (acc:list Z) : list Z :=    (* k decimal digits of v, most significant first *)
  match k with O => acc | S k' => digits_of k' (v / 10) ((48 + v mod 10) :: acc) end.
Fixpoint strip_zeros_rev (l:list Z) : list Z := match l with 48 :: r => strip_zeros_rev r | _ => l end.
Definition strip_trailing_zeros (l:list Z) : list Z := rev (strip_zeros_rev (rev l)).
Definition exp_field (x:Z) : list Z :=
  let a := Z.abs x in
  (if x <? 0 then 45 else 43) :: (if a <? 10 then [48; 48 + a] else if a <? 100 then digits_of 2 a [] else digits_of 3 a []).
(* %.Pg of a finite value; neg = sign bit; (n,d) exact magnitude *)
Definition fmt_g (P0:Z) (neg:bool) (n d:Z) : list Z :=
  let P := if P0 =? 0 then 1 else P0 in
  let sign := if neg then [45] else [] in
  if n =? 0 then sign ++ [48] else
  let '(D, X) := sig_digits P n d in
  let ds := digits_of (Z.to_nat P) D [] in
  if (X <? P) && (-4 <=? X) then
    (* style f with precision P-1-X *)
    if 0 <=? X then
      let ip := firstn (Z.to_nat (X+1)) ds in
      let fp := strip_trailing_zeros (skipn (Z.to_nat (X+1)) ds) in
      sign ++ ip ++ (match fp with [] => [] | _ => 46 :: fp end)
    else
      let fp := strip_trailing_zeros (repeat 48 (Z.to_nat (-X-1)) ++ ds) in
      sign ++ [48; 46] ++ fp
  else
    let fp := strip_trailing_zeros (tl ds) in
    sign ++ [hd 48 ds] ++ (match fp with [] => [] | _ => 46 :: fp end) ++ [101] ++ exp_field X.
(* decode binary64 / binary32 bit patterns (finite) into (neg, n, d) *)
Definition dec64 (b:Z) : bool * Z * Z :=
  let neg := 2^63 <=? b in let r := b mod 2^63 in let ef := r / 2^52 in let fr := r mod 2^52 in
  let '(m,q) := if ef =? 0 then (fr, -1074) else (fr + 2^52, ef - 1075) in
  (neg, if 0 <=? q then m * 2^q else m, if 0 <=? q then 1 else 2^(-q)).
Definition dec32 (b:Z) : bool * Z * Z :=
  let neg := 2^31 <=? b in let r := b mod 2^31 in let ef := r / 2^23 in let fr := r mod 2^23 in
  let '(m,q) := if ef =? 0 then (fr, -149) else (fr + 2^23, ef - 150) in
  (neg, if 0 <=? q then m * 2^q else m, if 0 <=? q then 1 else 2^(-q)).
(* infinities and NaNs have fixed spellings (glibc prints the sign bit of a NaN as well) *)
Definition nonfinite (neg:bool) (frac:Z) : list Z :=
  (if neg then [45] else []) ++ (if frac =? 0 then [105;110;102] else [110;97;110]).
Definition fmt_double (P:Z) (bits:Z) : list Z :=
  let r := bits mod 2^63 in
  if r / 2^52 =? 2047 then nonfinite (2^63 <=? bits) (r mod 2^52)
  else let '(neg,n,d) := dec64 bits in fmt_g P neg n d.
Definition fmt_float (P:Z) (bits:Z) : list Z :=
  let r := bits mod 2^31 in
  if r / 2^23 =? 255 then nonfinite (2^31 <=? bits) (r mod 2^23)
  else let '(neg,n,d) := dec32 bits in fmt_g P neg n d.

