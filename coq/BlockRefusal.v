(* C17: block data beyond the announced length is refused as a whole and leaves the open block as it was: nothing is written, the
   remaining length, the item count and the separator state are unchanged, exactly one -310 is queued -- so the correct rest of
   the block is still accepted afterwards and completes it. *)
From Coq Require Import Bool List NArith ZArith Lia.
From M Require LexModel MatchModel FmtModel.
From M Require Import ParserModel Framing2.
Import ListNotations.
Local Open Scope Z_scope.

Theorem refused_burst c d : arb_rem c < Z.of_nat (length d) ->
  result_data c d = error_push c (-310) None /\
  arb_rem (result_data c d) = arb_rem c /\ output_count (result_data c d) = output_count c /\
  first_output (result_data c d) = first_output c /\ outp (trace (result_data c d)) = outp (trace c) /\ mem (result_data c d) = mem c.
Proof.
  intro H. unfold result_data. destruct (Z.ltb_spec (arb_rem c) (Z.of_nat (length d))); [|lia].
  split; [reflexivity|]. unfold error_push. destruct (_ =? qcap c); cbn [arb_rem output_count first_output trace mem ev upd_err outp filter is_out]; repeat split.
Qed.

(* hence: header, part of the data, a burst that is too long, the rest -- the block is completed by the rest *)
Theorem rest_after_refusal c d1 bad d2 : 0 <= arb_rem c -> arb_rem c = Z.of_nat (length d1) + Z.of_nat (length d2) -> d2 <> [] ->
  Z.of_nat (length d2) < Z.of_nat (length bad) ->
  let c1 := result_data c d1 in let c2 := result_data c1 bad in let c3 := result_data c2 d2 in
  arb_rem c3 = 0 /\ output_count c3 = output_count c + 1.
Proof.
  intros H0 Hrem Hne Hbad. cbv zeta.
  assert (E1 : arb_rem (result_data c d1) = Z.of_nat (length d2) /\ output_count (result_data c d1) = output_count c).
  { unfold result_data. destruct (Z.ltb_spec (arb_rem c) (Z.of_nat (length d1))); [lia|].
    assert (Hd2 : 0 < Z.of_nat (length d2)) by (destruct d2; [congruence|cbn [length]; lia]).
    destruct (Z.eqb_spec (arb_rem c - Z.of_nat (length d1)) 0); [lia|]. destruct d1; cbn [write arb_rem output_count upd_out ev]; split; lia. }
  destruct E1 as [A1 O1].
  destruct (refused_burst (result_data c d1) bad ltac:(lia)) as (_ & A2 & O2 & _).
  set (c2 := result_data (result_data c d1) bad) in *.
  unfold result_data. destruct (Z.ltb_spec (arb_rem c2) (Z.of_nat (length d2))); [lia|].
  destruct (Z.eqb_spec (arb_rem c2 - Z.of_nat (length d2)) 0); [|lia].
  destruct d2; [congruence|]. cbn [write arb_rem output_count upd_out ev]. split; lia.
Qed.
Print Assumptions rest_after_refusal.
