(* C11 with the application's own status-byte bits: SCPI_RegSetBits / SCPI_RegClearBits (or SCPI_RegSet) on the status byte
   itself, restricted to the bits the library does not compute (0, 1, 4 = MAV and 8..15; mask 0xEC = bits 2,3,5,6,7 untouched).
   Such a write keeps the four summary bits and recomputes MSS over all sixteen bits, so the invariant of stb_coherent
   extends to histories that contain them.  (A write that changes a summary bit directly contradicts the property by
   itself and stays excluded.) *)
From Coq Require Import Bool List NArith ZArith Lia.
From M Require Import RegModel RegProofs CmdModel CmdLayer.
From M Require Generated.
Import ListNotations.
Local Open Scope N_scope.

Definition lib_bits : N := 236.     (* 0xEC: bits 2 (error queue), 3 (QUES), 5 (ESB), 6 (MSS), 7 (OPER) *)
Definition stb_user (s:st) (setb:bool) (b:N) : st * list ev := reg_bits s STB setb b.

(* the mask is the union of the status-byte bits the translator printed from the library's headers on this run *)
Lemma tie_lib_bits : lib_bits = fold_left N.lor Generated.gen_stb_bits 0.
Proof. reflexivity. Qed.

Lemma lib_bit_clear b j : N.land b lib_bits = 0 -> (j = 2 \/ j = 3 \/ j = 5 \/ j = 6 \/ j = 7) -> N.testbit b j = false.
Proof.
  intros H Hj. assert (T : N.testbit (N.land b lib_bits) j = false) by (rewrite H; apply N.bits_0).
  rewrite N.land_spec in T. destruct Hj as [->|[->|[->|[->| ->]]]]; cbn in T; rewrite andb_true_r in T; exact T.
Qed.

Lemma user_value_bits (s:regs) (setb:bool) b j : Small (s STB) -> N.land b lib_bits = 0 -> (j = 2 \/ j = 3 \/ j = 5 \/ j = 7) ->
  N.testbit (u16 (if setb then N.lor (s STB) b else N.ldiff (s STB) b)) j = N.testbit (s STB) j.
Proof.
  intros Hs Hb Hj. rewrite u16_bits.
  assert (Bj : N.testbit b j = false) by (apply lib_bit_clear; [exact Hb|tauto]).
  assert (Lj : (j <? 16) = true) by (destruct Hj as [->|[->|[->| ->]]]; reflexivity).
  rewrite Lj. cbn [andb]. destruct setb; [rewrite N.lor_spec|rewrite N.ldiff_spec]; rewrite Bj; [apply orb_false_r|cbn [negb]; apply andb_true_r].
Qed.

Lemma stb_user_good (r:regs) qn (setb:bool) b : N.land b lib_bits = 0 -> Good r qn ->
  Good (fst (RegSet r STB (if setb then N.lor (r STB) b else N.ldiff (r STB) b) [])) qn.
Proof.
  intros Hb [[C5 C7 C3 C2 C6] Hs]. unfold RegSet. set (v := u16 _).
  change 4%nat with (S 3). pose proof (stb_write 3 r v []) as (Ho & Hbit & Hm & Hsame).
  set (r' := fst (regset 4 r STB v [])) in *.
  destruct (N.eq_dec (r STB) v) as [E|NE].
  { rewrite (Hsame E). split; [constructor; assumption|exact Hs]. }
  assert (V : forall j, (j = 2 \/ j = 3 \/ j = 5 \/ j = 7) -> N.testbit (r' STB) j = N.testbit (r STB) j).
  { intros j Hj. rewrite Hbit by (destruct Hj as [->|[->|[->| ->]]]; discriminate). unfold v. now apply user_value_bits. }
  split.
  - constructor; rewrite ?(Ho ESR), ?(Ho ESE), ?(Ho OPER), ?(Ho OPERE), ?(Ho QUES), ?(Ho QUESE) by discriminate.
    + rewrite V by tauto. exact C5.
    + rewrite V by tauto. exact C7.
    + rewrite V by tauto. exact C3.
    + rewrite V by tauto. exact C2.
    + exact (Hm NE).
  - intros j Hj. assert (j <> 6) by (intros ->; cbv in Hj; congruence). rewrite Hbit by assumption.
    unfold v. rewrite u16_bits. replace (j <? 16) with false; [reflexivity|]. symmetry. apply N.ltb_ge. exact Hj.
Qed.

Lemma stb_user_inv s setb b : N.land b lib_bits = 0 -> Inv s -> Inv (fst (stb_user s setb b)).
Proof.
  intros Hb (G & Hq & Hc). unfold stb_user, reg_bits, wr.
  pose proof (stb_user_good (rg s) _ setb b Hb G) as G'.
  destruct (RegSet (rg s) STB (if setb then N.lor (rg s STB) b else N.ldiff (rg s STB) b) []) as [r1 cb]. cbn [fst] in *.
  split; [exact G'|]. cbn [qlen qcap]. split; assumption.
Qed.

(* histories of API calls, commands and user status-byte writes *)
Inductive xact := XA (a:act) | XStb (setb:bool) (b:N).
Definition xlegal (x:xact) : Prop := match x with XA a => act_legal a | XStb _ b => N.land b lib_bits = 0 end.
Definition xstep (s:st) (x:xact) : st := match x with XA a => act_step s a | XStb setb b => fst (stb_user s setb b) end.

Lemma act_step_inv s a : act_legal a -> Inv s -> Inv (act_step s a).
Proof. intros Ha Hs. destruct a as [o|c]; cbn [act_step]; [now apply step_inv|now apply run_cmd_inv]. Qed.

Theorem stb_coherent_user qc xs : (0 < qc)%Z -> Forall xlegal xs -> Inv (fold_left xstep xs (init qc)).
Proof.
  intros Hq Hl. assert (G : forall s, Inv s -> Inv (fold_left xstep xs s)).
  { induction Hl as [|x l Hx Hl' IH]; intros s Hs; [exact Hs|]. cbn [fold_left]. apply IH.
    destruct x as [a|setb b]; cbn [xstep]; [now apply act_step_inv|now apply stb_user_inv]. }
  apply G. now apply init_inv.
Qed.

(* non-vacuity, and the sixteen-bit reading of MSS: SRE bit 8 with a user bit 8 raises MSS *)
Example user_bit_raises_mss :
  let s := fold_left xstep [XA (ACmd (KSre 256)); XStb true 256] (init 2) in
  rg s STB = 320 /\ rg (xstep s (XStb false 256)) STB = 0.
Proof. vm_compute. split; reflexivity. Qed.

Print Assumptions stb_coherent_user.
