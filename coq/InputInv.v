(* C01: the input buffer invariant -- position < length after every SCPI_Input call, for every chunk (also overrunning
   ones), every history and every handler script; hence the NUL store data[position] = 0 is always inside the buffer. *)
From Coq Require Import Bool List NArith ZArith Lia.
From M Require LexModel MatchModel FmtModel UnitProgress OpsGen.
From M Require Import ParserModel Framing2 Dispatch Fuel.
Import ListNotations.
Local Open Scope Z_scope.

(* C: the configuration fields no library function ever assigns *)
Definition C (c c':ctx) : Prop := cap c' = cap c /\ qcap c' = qcap c /\ cmds c' = cmds c.
Ltac kr := (unfold C; repeat split; reflexivity).
Lemma C_refl c : C c c. Proof. kr. Qed.
Lemma C_trans a b c : C a b -> C b c -> C a c.
Proof. unfold C. intros (A1 & A2 & A3) (B1 & B2 & B3). repeat split; congruence. Qed.
Lemma C_ev c e : C c (ev c e). Proof. kr. Qed.
Lemma C_upd_in c a b : C c (upd_in c a b). Proof. kr. Qed.
Lemma C_upd_err c a b d : C c (upd_err c a b d). Proof. kr. Qed.
Lemma C_upd_mem c m : C c (upd_mem c m). Proof. kr. Qed.
Lemma C_error_push c code info : C c (error_push c code info).
Proof. unfold error_push. destruct (_ =? qcap c); kr. Qed.
Lemma C_emit_empty c : C c (emit_empty c).
Proof. unfold emit_empty. destruct (_ && _); kr. Qed.
Lemma C_write c b : C c (write c b). Proof. destruct b; kr. Qed.
Lemma C_delimiter c : C c (delimiter c).
Proof. unfold delimiter. destruct (0 <? output_count c); [apply C_write|]. destruct (negb _); [apply C_write|apply C_refl]. Qed.
Lemma C_fold_write l : forall c, C c (fold_left write l c).
Proof. induction l as [|b l IH]; intro c; [apply C_refl|]. cbn. eapply C_trans; [apply C_write|apply IH]. Qed.
Lemma C_item c l : C c (item c l).
Proof. unfold item. eapply C_trans; [apply C_delimiter|]. eapply C_trans; [apply C_fold_write|]. kr. Qed.
Lemma C_result_int c w v b s : C c (result_int c w v b s).
Proof. unfold result_int. destruct (FmtModel.int2str _ _ _ _ _) as [[? ?] ?]. apply C_item. Qed.
Lemma C_result_hdr c n : C c (result_hdr c n).
Proof. unfold result_hdr. eapply C_trans; [apply C_delimiter|]. eapply C_trans; [apply C_write|]. kr. Qed.
Lemma C_result_data c d : C c (result_data c d).
Proof. unfold result_data. destruct (_ <? _); [apply C_error_push|]. eapply C_trans; [|apply C_write]. kr. Qed.
Lemma C_result_error c code info desc : C c (result_error c code info desc).
Proof. unfold result_error. destruct (FmtModel.int2str _ _ _ _ _) as [[? ?] ?]. eapply C_trans; [apply C_item|apply C_write]. Qed.

(* readers *)
Lemma C_parameter c m : C c (fst (fst (parameter c m))).
Proof.
  unfold parameter. destruct (pd_len c <=? pd_pos c).
  - destruct m; cbn [fst]; [apply C_error_push|apply C_refl].
  - destruct (negb (input_count c =? 0)).
    + destruct (LexModel.ret _ =? 0); cbn [fst]; [apply C_error_push|].
      destruct (tok_valid _); cbn [fst]; [kr|]. eapply C_trans; [|apply C_error_push]. kr.
    + destruct (tok_valid _); cbn [fst]; [kr|]. eapply C_trans; [|apply C_error_push]. kr.
Qed.

Lemma C_param_int c w s m : C c (fst (fst (param_int c w s m))).
Proof. unfold param_int. pose proof (C_parameter c m) as H. destruct (parameter c m) as [[c1 ok] t]; cbn [fst] in *.
  destruct ok; [|exact H]. destruct (is_number _ false).
  - destruct (param_to_int c1 t w s). exact H.
  - destruct (is_number _ true); cbn [fst]; (eapply C_trans; [exact H|apply C_error_push]). Qed.
Lemma C_param_to_choice c t o : C c (fst (fst (param_to_choice c t o))).
Proof. unfold param_to_choice. destruct (LexModel.ty t); cbn [fst]; try apply C_error_push.
  destruct (choice_lookup _ _); cbn [fst]; [apply C_refl|apply C_error_push]. Qed.
Lemma C_param_bool c m : C c (fst (fst (param_bool c m))).
Proof. unfold param_bool. pose proof (C_parameter c m) as H. destruct (parameter c m) as [[c1 ok] t]; cbn [fst] in *.
  destruct ok; [|exact H].
  pose proof (C_param_to_choice c1 t bool_def) as H2.
  destruct (LexModel.ty t); try (destruct (param_to_int c1 t 32 true); exact H);
  destruct (param_to_choice c1 t bool_def) as [[c2 r] v]; cbn [fst] in *; (eapply C_trans; [exact H|exact H2]). Qed.
Lemma C_param_choice c m : C c (fst (fst (param_choice c m))).
Proof. unfold param_choice. pose proof (C_parameter c m) as H. destruct (parameter c m) as [[c1 ok] t]; cbn [fst] in *.
  destruct ok; [|exact H]. eapply C_trans; [exact H|apply C_param_to_choice]. Qed.
Lemma C_param_chars c m : C c (fst (fst (param_chars c m))).
Proof. unfold param_chars. pose proof (C_parameter c m) as H. destruct (parameter c m) as [[c1 ok] t]; cbn [fst] in *. destruct ok; exact H. Qed.
Lemma C_param_text c b m : C c (fst (fst (fst (param_text c b m)))).
Proof. unfold param_text. pose proof (C_parameter c m) as H. destruct (parameter c m) as [[c1 ok] t]; cbn [fst] in *.
  destruct ok; [|exact H]. destruct (is_quote _).
  - destruct (copy_loop _ _ _ _ _ _ _ _). exact H.
  - cbn [fst]. eapply C_trans; [exact H|apply C_error_push]. Qed.
Lemma C_param_block c m : C c (fst (fst (param_block c m))).
Proof. unfold param_block. pose proof (C_parameter c m) as H. destruct (parameter c m) as [[c1 ok] t]; cbn [fst] in *.
  destruct ok; [|exact H]. destruct (LexModel.ty t); cbn [fst]; try exact H; (eapply C_trans; [exact H|apply C_error_push]). Qed.
Lemma C_param_fp c d m : C c (fst (fst (param_fp c d m))).
Proof. unfold param_fp. pose proof (C_parameter c m) as H. destruct (parameter c m) as [[c1 ok] t]; cbn [fst] in *.
  destruct ok; [|exact H]. destruct (is_number _ false); [exact H|].
  destruct (is_number _ true); cbn [fst]; (eapply C_trans; [exact H|apply C_error_push]). Qed.
Lemma C_param_number c m : C c (fst (fst (param_number c m))).
Proof. unfold param_number. pose proof (C_parameter c m) as H. destruct (parameter c m) as [[c1 ok] t]; cbn [fst] in *.
  destruct ok; cbn [negb]; [|exact H].
  pose proof (C_param_to_choice c1 t Generated.gen_specials) as H2.
  destruct (LexModel.ty t); cbn [fst]; try exact H; try (eapply C_trans; [exact H|apply C_error_push]).
  - destruct (param_to_choice c1 t Generated.gen_specials) as [[c2 r] tag]; cbn [fst] in *. eapply C_trans; [exact H|exact H2].
  - destruct (skip_isspace _); cbn [fst]; [exact H|]. destruct (unit_lookup _) as [[un mult]|]; cbn [fst]; [exact H|].
    eapply C_trans; [exact H|apply C_error_push]. Qed.


Lemma C_step o c d : C c (fst (step o c d)).
Proof.
  destruct o; cbn [step].
  - pose proof (C_param_int c 32 true m) as H. destruct (param_int c 32 true m) as [[c1 ok] v]; cbn [fst] in *. eapply C_trans; [exact H|apply C_ev].
  - pose proof (C_param_int c 32 false m) as H. destruct (param_int c 32 false m) as [[c1 ok] v]; cbn [fst] in *. eapply C_trans; [exact H|apply C_ev].
  - pose proof (C_param_int c 64 true m) as H. destruct (param_int c 64 true m) as [[c1 ok] v]; cbn [fst] in *. eapply C_trans; [exact H|apply C_ev].
  - pose proof (C_param_int c 64 false m) as H. destruct (param_int c 64 false m) as [[c1 ok] v]; cbn [fst] in *. eapply C_trans; [exact H|apply C_ev].
  - pose proof (C_param_bool c m) as H. destruct (param_bool c m) as [[c1 ok] v]; cbn [fst] in *. eapply C_trans; [exact H|apply C_ev].
  - pose proof (C_param_choice c m) as H. destruct (param_choice c m) as [[c1 ok] v]; cbn [fst] in *. eapply C_trans; [exact H|apply C_ev].
  - pose proof (C_param_chars c m) as H. destruct (param_chars c m) as [[c1 ok] v]; cbn [fst] in *. eapply C_trans; [exact H|apply C_ev].
  - pose proof (C_param_text c buflen m) as H. destruct (param_text c buflen m) as [[[c1 ok] v] nul]; cbn [fst] in *. eapply C_trans; [exact H|apply C_ev].
  - pose proof (C_param_block c m) as H. destruct (param_block c m) as [[c1 ok] v]; cbn [fst] in *. eapply C_trans; [exact H|apply C_ev].
  - pose proof (C_param_fp c true m) as H. destruct (param_fp c true m) as [[c1 ok] v]; cbn [fst] in *. eapply C_trans; [exact H|apply C_ev].
  - pose proof (C_param_fp c false m) as H. destruct (param_fp c false m) as [[c1 ok] v]; cbn [fst] in *. eapply C_trans; [exact H|apply C_ev].
  - pose proof (C_param_number c m) as H. destruct (param_number c m) as [[c1 ok] v]; cbn [fst] in *. eapply C_trans; [exact H|apply C_ev].
  - apply C_result_int.
  - apply C_result_int.
  - apply C_result_int.
  - apply C_result_int.
  - apply C_result_int.
  - apply C_item.
  - apply C_item.
  - eapply C_trans; [apply C_result_hdr|apply C_result_data].
  - apply C_result_hdr.
  - apply C_result_data.
  - apply C_error_push.
  - destruct (cur c) as [[[pat tg] sc]|]; [|apply C_refl]. destruct (MatchModel.matchCommand _ _ _ _) as [r [a|]]; cbn [fst]; apply C_ev.
  - destruct (syst_err_parts c) as [[code info] q']. cbn [fst]. eapply C_trans; [|apply C_result_error]. eapply C_trans; [|apply C_emit_empty]. kr.
  - apply C_refl.
  - apply C_result_int.
  - apply C_result_int.
  - apply C_result_int.
  - apply C_result_int.
  - apply C_item.
  - apply C_item.
  - apply C_item.
  - destruct (cur c) as [[[pat tg] sc]|]; [|apply C_ev]. destruct (MatchModel.matchCommand _ _ _ _) as [r a]; cbn [fst]; apply C_ev.
  - apply (OpsGen.R_result_array C C_refl C_trans C_result_int C_result_hdr C_result_data).
  - pose proof (OpsGen.R_param_array C C_refl C_trans C_param_int C_param_fp ty (Z.to_nat cap) c m []) as H.
    destruct (param_array _ _ c m []) as [[c1 m1] vals]; cbn [fst] in *. eapply C_trans; [exact H|apply C_ev].
  - pose proof (C_parameter c m) as H. destruct (parameter c m) as [[c1 ok] t]; cbn [fst] in *. destruct ok; [|eapply C_trans; [exact H|apply C_ev]].
    pose proof (OpsGen.R_expr_numlist C C_refl (fun c => C_error_push c (-170) None) (fun c => C_error_push c (-104) None) c1 t idx) as H2.
    destruct (expr_numlist c1 t idx) as [c2 rep]; cbn [fst] in *. eapply C_trans; [exact H|]. eapply C_trans; [exact H2|apply C_ev].
  - pose proof (C_parameter c m) as H. destruct (parameter c m) as [[c1 ok] t]; cbn [fst] in *. destruct ok; [|eapply C_trans; [exact H|apply C_ev]].
    pose proof (OpsGen.R_expr_chanlist C C_refl (fun c => C_error_push c (-170) None) (fun c => C_error_push c (-104) None) c1 t idx cap) as H2.
    destruct (expr_chanlist c1 t idx cap) as [c2 rep]; cbn [fst] in *. eapply C_trans; [exact H|]. eapply C_trans; [exact H2|apply C_ev].
Qed.
Lemma C_run_script s : forall c d, C c (fst (run_script s c d)).
Proof.
  induction s as [|o rest IH]; intros c d; [apply C_refl|]. rewrite run_script_cons.
  pose proof (C_step o c d) as H. destruct (step o c d) as [c1 go]; cbn [fst] in H. destruct go; [eapply C_trans; [exact H|apply IH]|exact H].
Qed.


(* ---------- processCommand, one loop iteration, SCPI_Parse ---------- *)
Lemma C_upd_flags c a b d e : C c (upd_flags c a b d e). Proof. kr. Qed.
Lemma C_upd_out c a b d : C c (upd_out c a b d). Proof. kr. Qed.
Lemma C_upd_unit c e a b d f : C c (upd_unit c e a b d f). Proof. kr. Qed.
Lemma C_process_command c d : C c (fst (process_command c d)).
Proof.
  unfold process_command. destruct (cur c) as [[[pat tag] script]|]; [|apply C_refl].
  cbv zeta.
  pose proof (C_run_script script (ev (upd_flags c false 0 0 0) (EvH tag (slice (mem (upd_flags c false 0 0 0)) (raw_off (upd_flags c false 0 0 0)) (raw_len (upd_flags c false 0 0 0))))) d) as H.
  destruct (run_script script _ d) as [c3 okret]. cbn [fst] in H.
  assert (H0 : C c c3) by (eapply C_trans; [|exact H]; eapply C_trans; [apply C_upd_flags|apply C_ev]).
  assert (H4 : forall c4, C c3 c4 -> C c (fst (if (pd_pos (if 0 <? output_count c4 then upd_out c4 false (output_count c4) (arb_rem c4) else c4) <?
                                                   pd_len (if 0 <? output_count c4 then upd_out c4 false (output_count c4) (arb_rem c4) else c4)) &&
                                                  negb (cmd_error (if 0 <? output_count c4 then upd_out c4 false (output_count c4) (arb_rem c4) else c4))
                                               then (error_push (if 0 <? output_count c4 then upd_out c4 false (output_count c4) (arb_rem c4) else c4) (-108) None, false)
                                               else ((if 0 <? output_count c4 then upd_out c4 false (output_count c4) (arb_rem c4) else c4), true)))).
  { intros c4 Hc4. set (c5 := if 0 <? output_count c4 then upd_out c4 false (output_count c4) (arb_rem c4) else c4).
    assert (H5 : C c c5). { eapply C_trans; [exact H0|]. eapply C_trans; [exact Hc4|]. unfold c5. destruct (0 <? output_count c4); [apply C_upd_out|apply C_refl]. }
    destruct ((pd_pos c5 <? pd_len c5) && negb (cmd_error c5)); cbn [fst]; [eapply C_trans; [exact H5|apply C_error_push]|exact H5]. }
  destruct (negb okret).
  - destruct (negb (cmd_error c3)).
    + specialize (H4 (error_push c3 (-200) None) (C_error_push _ _ _)).
      destruct ((pd_pos _ <? pd_len _) && negb (cmd_error _)) in *; cbn [fst] in *; exact H4.
    + specialize (H4 c3 (C_refl _)). destruct ((pd_pos _ <? pd_len _) && negb (cmd_error _)) in *; cbn [fst] in *; exact H4.
  - destruct (cmd_error c3); specialize (H4 c3 (C_refl _)); destruct ((pd_pos _ <? pd_len _) && negb (cmd_error _)) in *; cbn [fst] in *; exact H4.
Qed.

Lemma fst3_let {A B D} (X:A*B*D) (r:Z) : fst (fst (fst (let '(a, b, d) := X in (a, b, d, r)))) = fst (fst X).
Proof. destruct X as [[a b] d]. reflexivity. Qed.
Lemma C_loop_body c off len prev result d : C c (fst (fst (fst (loop_body c off len prev result d)))).
Proof.
  unfold loop_body. cbv zeta. rewrite fst3_let.
  set (u := LexModel.detect_unit (slice (mem c) off len)).
  assert (Hm : forall m1 hp hl,
     C c (fst (fst (match find_cmd (upd_mem c m1) (slice m1 hp hl) with
            | Some e =>
                let '(c3, res) := process_command (upd_unit (upd_mem c m1) e (off + LexModel.ptr (LexModel.u_data u)) (LexModel.len (LexModel.u_data u)) hp hl) d in
                (c3, Some (hp, hl), result && res)
            | None => (error_push (upd_mem c m1) (-113) (Some (dropm m1 off, trim_crlf m1 off (Z.to_nat (LexModel.u_consumed u)))), Some (hp, hl), false)
            end)))).
  { intros m1 hp hl. destruct (find_cmd (upd_mem c m1) (slice m1 hp hl)) as [e|].
    - pose proof (C_process_command (upd_unit (upd_mem c m1) e (off + LexModel.ptr (LexModel.u_data u)) (LexModel.len (LexModel.u_data u)) hp hl) d) as H.
      destruct (process_command _ d) as [c3 res]. cbn [fst] in *.
      eapply C_trans; [|exact H]. eapply C_trans; [apply C_upd_mem|apply C_upd_unit].
    - cbn [fst]. eapply C_trans; [apply C_upd_mem|apply C_error_push]. }
  assert (Hgen : C c (fst (fst (if 0 <? LexModel.len (LexModel.u_hdr u)
      then let '(m1, hp, hl) := compose (mem c) prev (off + LexModel.ptr (LexModel.u_hdr u)) (LexModel.len (LexModel.u_hdr u)) in
           match find_cmd (upd_mem c m1) (slice m1 hp hl) with
           | Some e =>
               let '(c3, res) := process_command (upd_unit (upd_mem c m1) e (off + LexModel.ptr (LexModel.u_data u)) (LexModel.len (LexModel.u_data u)) hp hl) d in
               (c3, Some (hp, hl), result && res)
           | None => (error_push (upd_mem c m1) (-113) (Some (dropm m1 off, trim_crlf m1 off (Z.to_nat (LexModel.u_consumed u)))), Some (hp, hl), false)
           end
      else (c, prev, result))))).
  { destruct (0 <? LexModel.len (LexModel.u_hdr u)); [|apply C_refl].
    destruct (compose (mem c) prev (off + LexModel.ptr (LexModel.u_hdr u)) (LexModel.len (LexModel.u_hdr u))) as [[m1 hp] hl]. apply Hm. }
  destruct (LexModel.ty (LexModel.u_hdr u)); try exact Hgen. cbn [fst]. apply C_error_push.
Qed.

Lemma C_parse_loop fuel : forall c off len prev result d, C c (fst (parse_loop fuel c off len prev result d)).
Proof.
  induction fuel as [|f IH]; intros c off len prev result d; [apply C_refl|].
  rewrite parse_loop_S. pose proof (C_loop_body c off len prev result d) as H.
  destruct (loop_body c off len prev result d) as [[[c1 prev1] result1] r]. cbn [fst] in H.
  destruct (r <? len); [eapply C_trans; [exact H|apply IH]|exact H].
Qed.
Lemma C_scpi_parse c len d : C c (fst (scpi_parse c len d)).
Proof.
  unfold scpi_parse.
  pose proof (C_parse_loop (S (Z.to_nat len)) (upd_out c true 0 (arb_rem c)) 0 len None true d) as H.
  destruct (parse_loop _ _ 0 len None true d) as [c1 res]. cbn [fst] in *.
  assert (H1 : C c c1) by (eapply C_trans; [apply C_upd_out|exact H]).
  destruct (negb (first_output c1)); (eapply C_trans; [exact H1|]).
  - eapply C_trans; [|apply C_upd_out]. eapply C_trans; [apply C_write|apply C_ev].
  - apply C_upd_out.
Qed.

(* ---------- SCPI_Input ---------- *)
Lemma input_loop_inv fuel : forall c tot result d, 0 <= tot <= Z.of_nat (length (mem c)) ->
  let c' := fst (input_loop fuel c tot result d) in C c c' /\ (length (mem c') <= length (mem c))%nat.
Proof.
  induction fuel as [|f IH]; intros c tot result d Htot; cbv zeta; [cbn [input_loop fst]; split; [apply C_refl|lia]|].
  cbn [input_loop].
  assert (Hdl : length (dropm (mem c) tot) = (length (mem c) - Z.to_nat tot)%nat) by (unfold dropm; apply skipn_length).
  pose proof (consumed_bounds (dropm (mem c) tot)) as Hr. rewrite Hdl in Hr.
  set (u := LexModel.detect_unit (dropm (mem c) tot)) in *.
  assert (Htot1 : 0 <= tot + LexModel.u_consumed u <= Z.of_nat (length (mem c))) by lia.
  destruct (LexModel.u_term u).
  - destruct ((match LexModel.ty (LexModel.u_hdr u) with LexModel.T_UNKNOWN => true | _ => false end) && true); [cbn [fst]; split; [apply C_refl|lia]|].
    destruct (Z.of_nat (length (mem c)) <=? tot + LexModel.u_consumed u); [cbn [fst]; split; [apply C_refl|lia]|]. apply IH. exact Htot1.
  - pose proof (C_scpi_parse c (tot + LexModel.u_consumed u) d) as Hc.
    pose proof (scpi_parse_length c (tot + LexModel.u_consumed u) d Htot1) as Hl.
    destruct (scpi_parse c (tot + LexModel.u_consumed u) d) as [c1 res]. cbn [fst] in *.
    specialize (IH (upd_mem c1 (dropm (mem c1) (tot + LexModel.u_consumed u))) 0 res d).
    cbn [mem upd_mem] in IH.
    assert (Hd : length (dropm (mem c1) (tot + LexModel.u_consumed u)) = (length (mem c1) - Z.to_nat (tot + LexModel.u_consumed u))%nat) by (unfold dropm; apply skipn_length).
    destruct (IH ltac:(lia)) as [I1 I2]. split.
    + eapply C_trans; [exact Hc|]. eapply C_trans; [apply C_upd_mem|exact I1].
    + lia.
  - destruct ((match LexModel.ty (LexModel.u_hdr u) with LexModel.T_UNKNOWN => true | _ => false end) && false); [cbn [fst]; split; [apply C_refl|lia]|].
    destruct (Z.of_nat (length (mem c)) <=? tot + LexModel.u_consumed u); [cbn [fst]; split; [apply C_refl|lia]|]. apply IH. exact Htot1.
Qed.

(* the invariant of every SCPI_Input history: the logical end of the input stays strictly inside the buffer, so that the
   terminating NUL the C code stores at data[position] is a store inside the buffer; the buffer length itself never changes *)
Definition buffer_ok (c:ctx) : Prop := Z.of_nat (length (mem c)) < cap c.
Theorem input_buffer_inv c data d : buffer_ok c ->
  buffer_ok (scpi_input c data d) /\ cap (scpi_input c data d) = cap c.
Proof.
  unfold buffer_ok, scpi_input. intro H.
  destruct (Z.of_nat (length data) =? 0).
  - pose proof (C_scpi_parse c (Z.of_nat (length (mem c))) d) as Hc.
    destruct (scpi_parse c (Z.of_nat (length (mem c))) d) as [c1 res]. cbn [fst] in Hc. destruct Hc as (Hcap & _).
    cbn [mem cap ev upd_mem length]. rewrite Hcap. split; [lia|reflexivity].
  - destruct (Z.ltb_spec (cap c - Z.of_nat (length (mem c)) - 1) (Z.of_nat (length data))) as [Hov|Hfit].
    + pose proof (C_error_push (upd_mem c []) (-363) None) as (Hcap & _). cbn [cap ev].
      assert (Hm : mem (error_push (upd_mem c []) (-363) None) = []).
      { unfold error_push. destruct (_ =? qcap (upd_mem c [])); reflexivity. }
      cbn [mem ev]. rewrite Hm, Hcap. cbn [length cap upd_mem]. split; [lia|reflexivity].
    + pose proof (input_loop_inv (S (S (length (mem (upd_mem c (mem c ++ data)))))) (upd_mem c (mem c ++ data)) 0 true d) as Hi.
      cbn [mem upd_mem] in Hi. specialize (Hi ltac:(lia)). cbv zeta in Hi.
      destruct (input_loop _ (upd_mem c (mem c ++ data)) 0 true d) as [c2 res]. cbn [fst] in Hi. destruct Hi as ((Hcap & _) & Hlen).
      cbn [mem cap ev]. rewrite Hcap. cbn [cap upd_mem]. rewrite app_length in Hlen. split; [lia|reflexivity].
Qed.
(* any sequence of calls, from the state SCPI_Init leaves (empty buffer, length >= 1) *)
Corollary input_buffer_inv_history chunks d : forall c, buffer_ok c ->
  buffer_ok (fold_left (fun c x => scpi_input c x d) chunks c).
Proof. induction chunks as [|x xs IH]; intros c H; [exact H|]. cbn [fold_left]. apply IH. apply (input_buffer_inv c x d H). Qed.
Print Assumptions input_buffer_inv_history.
