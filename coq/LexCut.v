(* C08 / C13: what the unit scanner decides about a buffer never depends on the bytes behind the first ';' or line feed, as long
   as the bytes before it contain no quote, no '#' and no carriage return ("plain" bytes: strings and blocks are the two
   constructs that may contain a terminator).  Every recogniser is shown to give, on a ++ r (r starting with ';' or LF), what it
   gives on a, with r put back behind what it left over. *)
From Coq Require Import Bool List NArith ZArith Lia.
From M Require Import LexModel LexBounds UnitProgress.
Import ListNotations.
Local Open Scope Z_scope.

Definition tchar (t:N) : Prop := t = 10%N \/ t = 13%N \/ t = 59%N.
Definition Tail (r:bytes) : Prop := exists t z, r = t :: z /\ tchar t.
Definition plainc (c:N) : bool := negb ((c =? 10) || (c =? 13) || (c =? 59) || (c =? 34) || (c =? 39) || (c =? 35))%N.
Definition plain (a:bytes) : Prop := Forall (fun c => plainc c = true) a.

Lemma tail_cons t z : tchar t -> Tail (t :: z). Proof. intros H. exists t, z. auto. Qed.
Lemma tail_nonempty r : Tail r -> r <> []. Proof. intros (t & z & -> & _). discriminate. Qed.

(* ---------- the primitives ---------- *)
Lemma skip_while_app p a r : starts p r = false -> skip_while p (a ++ r) = skip_while p a ++ r.
Proof.
  intros H. induction a as [|c a IH]; cbn [app skip_while].
  - destruct r as [|c r]; [reflexivity|]. cbn [starts] in H. cbn [skip_while]. rewrite H. reflexivity.
  - destruct (p c); [exact IH|reflexivity].
Qed.
Lemma skip_opt_app p a r : starts p r = false -> skip_opt p (a ++ r) = skip_opt p a ++ r.
Proof.
  intros H. destruct a as [|c a]; cbn [app skip_opt].
  - destruct r as [|c r]; [reflexivity|]. cbn [starts] in H. cbn [skip_opt]. rewrite H. reflexivity.
  - destruct (p c); reflexivity.
Qed.
Lemma starts_app p a r : starts p r = false -> starts p (a ++ r) = starts p a.
Proof. intros H. destruct a as [|c a]; [exact H|reflexivity]. Qed.
Lemma starts_nonempty p a : starts p a = true -> a <> []. Proof. destruct a; [discriminate|discriminate]. Qed.
Lemma tl_app (a r:bytes) : a <> [] -> tl (a ++ r) = tl a ++ r. Proof. destruct a; [congruence|reflexivity]. Qed.
Lemma used_app l l' r : used (l ++ r) (l' ++ r) = used l l'. Proof. unfold used. rewrite !app_length. lia. Qed.
Lemma iseos_app a r : r <> [] -> iseos (a ++ r) = false. Proof. destruct a; [destruct r; [congruence|reflexivity]|reflexivity]. Qed.
Lemma drop_app d (a r:bytes) : 0 <= d <= Z.of_nat (length a) -> drop d (a ++ r) = drop d a ++ r.
Proof. intros H. unfold drop. rewrite skipn_app. replace (Z.to_nat d - length a)%nat with O by lia. reflexivity. Qed.
Lemma in_skipn {A} (x:A) : forall n l, In x (skipn n l) -> In x l.
Proof. induction n as [|n IH]; intros [|y l]; cbn [skipn]; auto. intro H. right. now apply IH. Qed.
Lemma plain_drop d a : plain a -> plain (drop d a).
Proof. unfold plain, drop. intros H. rewrite Forall_forall in *. intros x Hx. apply H. eapply in_skipn. exact Hx. Qed.
Lemma plain_sfx l' l : sfx l' l -> plain l -> plain l'.
Proof. intros (pre & ->) H. unfold plain in *. apply Forall_app in H. apply H. Qed.

(* a tail starts with a byte outside every class the recognisers scan over *)
Ltac tails HT := let t := fresh "t" in let z := fresh "z" in let Ht := fresh "Ht" in
  destruct HT as (t & z & -> & [-> | [-> | ->]]); reflexivity.
Ltac st HT := match goal with |- starts _ _ = false => tails HT end.

(* ---------- recognisers without end-of-input tests: the same result on a ++ r as on a ---------- *)
Section Rec.
Variable r : bytes.
Hypothesis HT : Tail r.
Let Hne : r <> [] := tail_nonempty r HT.

Lemma ws_cut a : lex_ws (a ++ r) = lex_ws a.
Proof. unfold lex_ws. rewrite skip_while_app by (clear Hne; tails HT). rewrite used_app. reflexivity. Qed.

Lemma chr_cut t k a : (k <> 10 /\ k <> 13 /\ k <> 59)%N -> lex_chr t k (a ++ r) = lex_chr t k a.
Proof.
  intros (H1 & H2 & H3). unfold lex_chr. rewrite starts_app; [reflexivity|].
  destruct HT as (t0 & z & -> & [-> | [-> | ->]]); cbn [starts]; unfold ischr; apply N.eqb_neq; congruence.
Qed.

Lemma chardata_cut a : lex_chardata (a ++ r) = lex_chardata a.
Proof.
  unfold lex_chardata. rewrite starts_app by (clear Hne; tails HT). destruct (starts isalpha a) eqn:E.
  - rewrite tl_app by (eapply starts_nonempty; exact E). rewrite skip_while_app by (clear Hne; tails HT). rewrite used_app. reflexivity.
  - rewrite used_app. reflexivity.
Qed.

Lemma mantisa_cut a : skip_mantisa (a ++ r) = (fst (skip_mantisa a) ++ r, snd (skip_mantisa a)).
Proof.
  unfold skip_mantisa. rewrite skip_opt_app by (clear Hne; tails HT). rewrite skip_while_app by (clear Hne; tails HT).
  rewrite used_app. rewrite starts_app by (clear Hne; tails HT).
  destruct (starts (ischr 46%N) _) eqn:E; [|reflexivity].
  rewrite tl_app by (eapply starts_nonempty; exact E). rewrite skip_while_app by (clear Hne; tails HT). rewrite used_app. reflexivity.
Qed.
Lemma exponent_cut a : skip_exponent (a ++ r) = (fst (skip_exponent a) ++ r, snd (skip_exponent a)).
Proof.
  unfold skip_exponent. rewrite starts_app by (clear Hne; tails HT). destruct (starts isE a) eqn:E; [|reflexivity].
  rewrite tl_app by (eapply starts_nonempty; exact E). rewrite skip_while_app by (clear Hne; tails HT).
  rewrite skip_opt_app by (clear Hne; tails HT). rewrite skip_while_app by (clear Hne; tails HT). rewrite used_app. reflexivity.
Qed.
Lemma decimal_cut a : lex_decimal (a ++ r) = lex_decimal a.
Proof.
  unfold lex_decimal. rewrite mantisa_cut. destruct (skip_mantisa a) as [l1 n]. cbn [fst snd].
  destruct (n =? 0); [rewrite used_app; reflexivity|].
  rewrite skip_while_app by (clear Hne; tails HT). rewrite exponent_cut.
  destruct (skip_exponent (skip_while isws l1)) as [l3 m]. cbn [fst snd].
  destruct (m =? 0); rewrite used_app; reflexivity.
Qed.

Lemma suffix_loop_cut f : forall a, suffix_loop f (a ++ r) = suffix_loop f a ++ r.
Proof.
  induction f as [|f IH]; intro a; [reflexivity|]. cbn [suffix_loop].
  rewrite starts_app by (clear Hne IH; tails HT). destruct (starts _ a) eqn:E; [|reflexivity].
  rewrite tl_app by (eapply starts_nonempty; exact E). rewrite skip_while_app by (clear Hne IH; tails HT).
  rewrite !skip_opt_app by (clear Hne IH; tails HT). apply IH.
Qed.
End Rec.

Lemma suffix_loop_fuel n : forall a f f', (length a <= n)%nat -> (n <= f)%nat -> (n <= f')%nat -> suffix_loop f a = suffix_loop f' a.
Proof.
  induction n as [|n IH]; intros a f f' Ha Hf Hf'.
  - destruct a; [|cbn in Ha; lia]. destruct f, f'; reflexivity.
  - destruct f as [|f]; [lia|]. destruct f' as [|f']; [lia|]. cbn [suffix_loop].
    destruct (starts _ a) eqn:E; [|reflexivity]. apply IH; try lia.
    assert (Hs : sfx (skip_opt isdigit (skip_opt (ischr 45%N) (skip_while isalpha (tl a)))) (tl a))
      by (eapply sfx_trans; [apply sfx_skip_opt|]; eapply sfx_trans; [apply sfx_skip_opt|apply sfx_skip_while]).
    apply sfx_len in Hs. destruct a; [discriminate|]. cbn [tl length] in *. lia.
Qed.

Section Rec2.
Variable r : bytes.
Hypothesis HT : Tail r.

Lemma suffix_cut a : lex_suffix (a ++ r) = lex_suffix a.
Proof.
  unfold lex_suffix. rewrite skip_opt_app by tails HT. rewrite skip_while_app by tails HT. rewrite used_app.
  destruct (0 <? used (skip_opt (ischr 47%N) a) (skip_while isalpha (skip_opt (ischr 47%N) a))).
  - rewrite !skip_opt_app by tails HT. rewrite suffix_loop_cut by exact HT.
    set (l3 := skip_opt isdigit _).
    rewrite (suffix_loop_fuel (length l3) l3 (length (l3 ++ r)) (length l3)) by (rewrite ?app_length; lia).
    rewrite used_app. reflexivity.
  - rewrite used_app. reflexivity.
Qed.

Lemma expr_cut a : lex_expr (a ++ r) = lex_expr a.
Proof.
  unfold lex_expr. rewrite starts_app by tails HT. destruct (starts (ischr 40%N) a) eqn:E; [|reflexivity].
  rewrite tl_app by (eapply starts_nonempty; exact E). rewrite skip_while_app by tails HT.
  rewrite starts_app by tails HT. destruct (starts (ischr 41%N) _) eqn:E2; [|reflexivity].
  rewrite tl_app by (eapply starts_nonempty; exact E2). rewrite used_app. reflexivity.
Qed.

(* plain bytes: the three recognisers that could run over a terminator do not start *)
Lemma plain_head k a : plain a -> (k = 34 \/ k = 39 \/ k = 35)%N -> starts (ischr k) (a ++ r) = false.
Proof.
  intros Hp Hk. destruct a as [|c a]; cbn [app starts].
  - destruct HT as (t & z & -> & [-> | [-> | ->]]); destruct Hk as [->|[->| ->]]; reflexivity.
  - inversion Hp as [|? ? Hc _]; subst. unfold plainc in Hc. unfold ischr.
    destruct Hk as [->|[->| ->]]; destruct (c =? 10)%N, (c =? 13)%N, (c =? 59)%N, (c =? 34)%N, (c =? 39)%N, (c =? 35)%N; try discriminate Hc; reflexivity.
Qed.
Lemma plain_head0 k a : plain a -> (k = 34 \/ k = 39 \/ k = 35)%N -> starts (ischr k) a = false.
Proof.
  intros Hp Hk. destruct a as [|c a]; [reflexivity|]. cbn [starts].
  inversion Hp as [|? ? Hc _]; subst. unfold plainc in Hc. unfold ischr.
  destruct Hk as [->|[->| ->]]; destruct (c =? 10)%N, (c =? 13)%N, (c =? 59)%N, (c =? 34)%N, (c =? 39)%N, (c =? 35)%N; try discriminate Hc; reflexivity.
Qed.
Lemma nondecimal_cut a : plain a -> lex_nondecimal (a ++ r) = lex_nondecimal a.
Proof. intro Hp. unfold lex_nondecimal. rewrite plain_head, plain_head0 by auto. reflexivity. Qed.
Lemma string_cut a : plain a -> lex_string (a ++ r) = lex_string a.
Proof. intro Hp. unfold lex_string. rewrite !plain_head, !plain_head0 by auto. reflexivity. Qed.
Lemma block_cut a : plain a -> lex_block (a ++ r) = lex_block a.
Proof. intro Hp. unfold lex_block. rewrite plain_head, plain_head0 by auto. reflexivity. Qed.
Lemma nondecimal_plain a : plain a -> lex_nondecimal a = mk T_UNKNOWN 0 0 0 0.
Proof. intro Hp. unfold lex_nondecimal. rewrite plain_head0 by auto. reflexivity. Qed.
Lemma string_plain a : plain a -> lex_string a = mk T_UNKNOWN 0 0 0 0.
Proof. intro Hp. unfold lex_string. rewrite !plain_head0 by auto. reflexivity. Qed.
Lemma block_plain a : plain a -> lex_block a = mk T_UNKNOWN 0 0 0 0.
Proof. intro Hp. unfold lex_block. rewrite plain_head0 by auto. reflexivity. Qed.

(* a recogniser with the cut property has it at every position inside a *)
Lemma at_pos {A} (F:bytes -> A) : (forall a, plain a -> F (a ++ r) = F a) ->
  forall a d, plain a -> 0 <= d <= Z.of_nat (length a) -> F (drop d (a ++ r)) = F (drop d a).
Proof. intros H a d Hp Hd. rewrite drop_app by exact Hd. apply H. now apply plain_drop. Qed.
End Rec2.

Section Data.
Variable r : bytes.
Hypothesis HT : Tail r.

Lemma ppd_cut a : plain a -> parse_program_data (a ++ r) = parse_program_data a.
Proof.
  intro Hp. unfold parse_program_data. rewrite (ws_cut r HT).
  pose proof (ws_inside a) as (Hw0 & _). set (w0 := lex_ws a) in *.
  rewrite drop_app by exact Hw0. set (a0 := drop (disp w0) a).
  assert (Hp0 : plain a0) by (apply plain_drop; exact Hp).
  assert (Hd : forall d, plain (drop d a0)) by (intro d; apply plain_drop; exact Hp0).
  rewrite (nondecimal_cut r HT a0 Hp0), (chardata_cut r HT), (decimal_cut r HT), (string_cut r HT a0 Hp0), (block_cut r HT a0 Hp0).
  rewrite (nondecimal_plain a0 Hp0), (string_plain a0 Hp0), (block_plain a0 Hp0).
  cbn [ret disp mk tok ty ptr len Z.eqb negb].
  pose proof (chardata_inside a0) as (H2 & _).
  pose proof (decimal_inside a0) as (H3 & _).
  rewrite (drop_app (disp (lex_chardata a0))) by exact H2. rewrite (ws_cut r HT).
  rewrite (drop_app (disp (lex_decimal a0))) by exact H3.
  set (r3 := lex_decimal a0) in *. set (lw := drop (disp r3) a0).
  rewrite (ws_cut r HT). pose proof (ws_inside lw) as (Hw & _). set (w := lex_ws lw) in *.
  rewrite (drop_app (disp w)) by exact Hw. rewrite (suffix_cut r HT).
  assert (Hlw : Z.of_nat (length lw) = Z.of_nat (length a0) - disp r3) by (apply drop_length; exact H3).
  pose proof (suffix_inside (drop (disp w) lw)) as (Hs & _). rewrite drop_length in Hs by exact Hw.
  assert (Hlen3 : len (tok r3) = disp r3) by (subst r3; unfold lex_decimal; destruct (skip_mantisa a0); reflexivity).
  assert (Hsf : ret (lex_suffix (drop (disp w) lw)) = disp (lex_suffix (drop (disp w) lw))).
  { unfold lex_suffix. match goal with |- context [if ?c then _ else _] => destruct c end; reflexivity. }
  rewrite (drop_app (len (tok r3) + disp w + ret (lex_suffix (drop (disp w) lw)))) by lia.
  rewrite (drop_app (disp r3 + disp w)) by lia.
  rewrite !(ws_cut r HT).
  change (drop 0 (a0 ++ r)) with (a0 ++ r). change (drop 0 a0) with a0.
  rewrite (expr_cut r HT).
  pose proof (expr_inside a0) as (H6 & _).
  rewrite (drop_app (0 + disp (lex_expr a0))) by lia. rewrite (ws_cut r HT).
  reflexivity.
Qed.
End Data.

Lemma comma_nonempty l : ret (lex_comma l) <> 0 -> l <> [].
Proof. intros H E. subst l. apply H. reflexivity. Qed.
Lemma drop_all d (a:bytes) : Z.of_nat (length a) <= d -> drop d a = [].
Proof. intro H. unfold drop. apply skipn_all2. lia. Qed.

Section DataLoop.
Variable r : bytes.
Hypothesis HT : Tail r.

Lemma all_data_cut a : plain a -> forall fuel pos tlen count, 0 <= pos <= Z.of_nat (length a) ->
  all_data_loop fuel (a ++ r) pos tlen count = all_data_loop fuel a pos tlen count.
Proof.
  intros Hp fuel. induction fuel as [|f IH]; intros pos tlen count Hpos; [reflexivity|]. cbn [all_data_loop].
  rewrite drop_app by exact Hpos. rewrite (ppd_cut r HT) by (apply plain_drop; exact Hp).
  pose proof (ppd_disp (drop pos a)) as Hr. rewrite drop_length in Hr by exact Hpos.
  set (rr := parse_program_data (drop pos a)) in *.
  rewrite drop_app by lia. unfold lex_comma. rewrite (chr_cut r HT) by (repeat split; discriminate). fold lex_comma.
  destruct (ty (tok rr)); try reflexivity;
  (destruct (Z.eqb_spec (ret (lex_comma (drop (pos + disp rr) a))) 0) as [E|E]; [reflexivity|];
   apply comma_nonempty in E;
   assert (Hl : Z.of_nat (length (drop (pos + disp rr) a)) = Z.of_nat (length a) - (pos + disp rr)) by (apply drop_length; lia);
   destruct (drop (pos + disp rr) a); [congruence|]; cbn [length] in Hl; apply IH; lia).
Qed.

Lemma all_data_fuel a n : forall pos tlen count f f', 0 <= pos -> (Z.to_nat (Z.of_nat (length a) - pos) < n)%nat -> (n <= f)%nat -> (n <= f')%nat ->
  all_data_loop f a pos tlen count = all_data_loop f' a pos tlen count.
Proof.
  induction n as [|n IH]; intros pos tlen count f f' Hpos Hn Hf Hf'; [lia|].
  destruct f as [|f]; [lia|]. destruct f' as [|f']; [lia|]. cbn [all_data_loop].
  destruct (Z.le_gt_cases (Z.of_nat (length a)) pos) as [Hge|Hlt].
  - rewrite (drop_all pos a Hge). reflexivity.
  - pose proof (ppd_disp (drop pos a)) as Hr. rewrite drop_length in Hr by lia.
    set (rr := parse_program_data (drop pos a)) in *.
    destruct (ty (tok rr)); try reflexivity;
    (destruct (ret (lex_comma (drop (pos + disp rr) a)) =? 0); [reflexivity|]; apply IH; lia).
Qed.

Lemma parse_all_data_cut a : plain a -> parse_all_data (a ++ r) = parse_all_data a.
Proof.
  intro Hp. unfold parse_all_data. rewrite all_data_cut by (try exact Hp; lia).
  apply (all_data_fuel a (S (length a))); rewrite ?app_length; lia.
Qed.
End DataLoop.

(* ---------- headers: what the header recogniser decides when a terminator follows (no end-of-input cases left) ---------- *)
Definition common_t (a:bytes) : bytes * skipres :=
  if starts (ischr 42%N) a then
    let '(l', res) := skip_mnemonic (tl a) in (l', if Z.abs res =? 0 then SK_INCOMPLETE else SK_OK)
  else (a, SK_NONE).
Fixpoint compound_loop_t (fuel:nat) (a:bytes) : bytes * skipres :=
  match fuel with
  | O => (a, SK_OK)
  | S f =>
    if starts (ischr 58%N) a then
      let '(l', res) := skip_mnemonic (tl a) in
      if Z.abs res =? 0 then (l', SK_INCOMPLETE) else compound_loop_t f l'
    else (a, SK_OK)
  end.
Definition compound_t (a:bytes) : bytes * skipres :=
  let first_colon := starts (ischr 58%N) a in
  let l0 := skip_opt (ischr 58%N) a in
  let '(l1, res) := skip_mnemonic l0 in
  if 1 <=? Z.abs res then compound_loop_t (length l1) l1
  else if first_colon then (l1, SK_INCOMPLETE) else (l1, SK_NONE).
Definition header_t (a:bytes) : lexres :=
  let '(l1, r1) := common_t a in
  let finish (ty:ttype) (l':bytes) := let n := used a l' in mk ty 0 n n n in
  match r1 with
  | SK_OK => if starts (ischr 63%N) l1 then finish T_COMMON_QUERY_HDR (tl l1) else finish T_COMMON_HDR l1
  | SK_INCOMPLETE => finish T_INCOMPLETE_COMMON_HDR l1
  | SK_NONE =>
      let '(l2, r2) := compound_t a in
      match r2 with
      | SK_OK => if starts (ischr 63%N) l2 then finish T_COMPOUND_QUERY_HDR (tl l2) else finish T_COMPOUND_HDR l2
      | SK_INCOMPLETE => finish T_INCOMPLETE_COMPOUND_HDR l2
      | SK_NONE => mk T_UNKNOWN 0 0 0 0
      end
  end.

Lemma mnemonic_nonneg a : 0 <= Z.abs (snd (skip_mnemonic a)). Proof. lia. Qed.

Section Hdr.
Variable r : bytes.
Hypothesis HT : Tail r.

Lemma mnemonic_cut a : skip_mnemonic (a ++ r) = (fst (skip_mnemonic a) ++ r, Z.abs (snd (skip_mnemonic a))).
Proof.
  pose proof (tail_nonempty r HT) as Hne. unfold skip_mnemonic. rewrite starts_app by tails HT.
  destruct (starts isalpha a) eqn:E.
  - rewrite tl_app by (eapply starts_nonempty; exact E). rewrite skip_while_app by tails HT.
    rewrite used_app, iseos_app by exact Hne. cbn [fst snd].
    assert (Hs : sfx (skip_while ismnem (tl a)) a) by sfx_chain. apply used_bounds in Hs.
    destruct (iseos _); f_equal; lia.
  - rewrite used_app, iseos_app by exact Hne. cbn [fst snd]. unfold used. destruct (iseos a); f_equal; lia.
Qed.

Lemma common_cut a : skip_common_header (a ++ r) = (fst (common_t a) ++ r, snd (common_t a)).
Proof.
  pose proof (tail_nonempty r HT) as Hne. unfold skip_common_header, common_t.
  rewrite starts_app by tails HT. destruct (starts (ischr 42%N) a) eqn:E; [|reflexivity].
  rewrite tl_app by (eapply starts_nonempty; exact E). rewrite mnemonic_cut.
  destruct (skip_mnemonic (tl a)) as [l' res]. cbn [fst snd]. rewrite iseos_app by exact Hne. rewrite andb_false_r.
  destruct (Z.leb_spec (Z.abs res) (-1)); [lia|]. destruct (Z.eqb_spec (Z.abs res) 0), (Z.leb_spec 1 (Z.abs res)); try lia; reflexivity.
Qed.

Lemma compound_loop_cut f : forall a, compound_loop f (a ++ r) = (fst (compound_loop_t f a) ++ r, snd (compound_loop_t f a)).
Proof.
  induction f as [|f IH]; intro a; [reflexivity|]. cbn [compound_loop compound_loop_t].
  rewrite starts_app by (clear IH; tails HT). destruct (starts (ischr 58%N) a) eqn:E; [|reflexivity].
  rewrite tl_app by (eapply starts_nonempty; exact E). rewrite mnemonic_cut.
  destruct (skip_mnemonic (tl a)) as [l' res]. cbn [fst snd].
  destruct (Z.leb_spec (Z.abs res) (-1)); [lia|]. destruct (Z.abs res =? 0); [reflexivity|apply IH].
Qed.
End Hdr.

Lemma compound_loop_t_fuel n : forall a f f', (length a <= n)%nat -> (n <= f)%nat -> (n <= f')%nat -> compound_loop_t f a = compound_loop_t f' a.
Proof.
  induction n as [|n IH]; intros a f f' Ha Hf Hf'.
  - destruct a; [|cbn in Ha; lia]. destruct f, f'; reflexivity.
  - destruct f as [|f]; [lia|]. destruct f' as [|f']; [lia|]. cbn [compound_loop_t].
    destruct (starts _ a) eqn:E; [|reflexivity].
    pose proof (sfx_skip_mnemonic (tl a)) as Hs. destruct (skip_mnemonic (tl a)) as [l' res]. cbn [fst] in Hs.
    destruct (Z.abs res =? 0); [reflexivity|]. apply IH; try lia.
    apply sfx_len in Hs. destruct a; [discriminate|]. cbn [tl length] in *. lia.
Qed.

Section Hdr2.
Variable r : bytes.
Hypothesis HT : Tail r.

Lemma compound_cut a : skip_compound_header (a ++ r) = (fst (compound_t a) ++ r, snd (compound_t a)).
Proof.
  unfold skip_compound_header, compound_t. rewrite starts_app by tails HT. rewrite skip_opt_app by tails HT.
  rewrite (mnemonic_cut r HT). destruct (skip_mnemonic (skip_opt (ischr 58%N) a)) as [l1 res]. cbn [fst snd].
  destruct (Z.leb_spec 1 (Z.abs res)).
  - rewrite (compound_loop_cut r HT). rewrite (compound_loop_t_fuel (length l1) l1 (length (l1 ++ r)) (length l1)) by (rewrite ?app_length; lia). reflexivity.
  - destruct (Z.leb_spec (Z.abs res) (-1)); [lia|]. destruct (starts (ischr 58%N) a); reflexivity.
Qed.

Lemma header_cut a : lex_header (a ++ r) = header_t a.
Proof.
  unfold lex_header, header_t. rewrite (common_cut r HT). destruct (common_t a) as [l1 r1]. cbn [fst snd].
  destruct r1.
  - rewrite compound_cut. destruct (compound_t a) as [l2 r2]. cbn [fst snd]. destruct r2.
    + reflexivity.
    + rewrite starts_app by tails HT. destruct (starts (ischr 63%N) l2) eqn:E.
      * rewrite tl_app by (eapply starts_nonempty; exact E). rewrite used_app. reflexivity.
      * rewrite used_app. reflexivity.
    + rewrite used_app. reflexivity.
  - rewrite starts_app by tails HT. destruct (starts (ischr 63%N) l1) eqn:E.
    + rewrite tl_app by (eapply starts_nonempty; exact E). rewrite used_app. reflexivity.
    + rewrite used_app. reflexivity.
  - rewrite used_app. reflexivity.
Qed.
End Hdr2.

Lemma sfx_common_t a : sfx (fst (common_t a)) a.
Proof.
  unfold common_t. destruct (starts _ a); [|apply sfx_refl].
  pose proof (sfx_skip_mnemonic (tl a)) as H. destruct (skip_mnemonic (tl a)) as [l' res]. cbn [fst] in *. eapply sfx_trans; [exact H|apply sfx_tl].
Qed.
Lemma sfx_compound_loop_t f : forall a, sfx (fst (compound_loop_t f a)) a.
Proof.
  induction f as [|f IH]; intro a; [apply sfx_refl|]. cbn [compound_loop_t]. destruct (starts _ a); [|apply sfx_refl].
  pose proof (sfx_skip_mnemonic (tl a)) as H. destruct (skip_mnemonic (tl a)) as [l' res]. cbn [fst] in *.
  destruct (Z.abs res =? 0); cbn [fst]; [eapply sfx_trans; [exact H|apply sfx_tl]|].
  eapply sfx_trans; [apply IH|]. eapply sfx_trans; [exact H|apply sfx_tl].
Qed.
Lemma sfx_compound_t a : sfx (fst (compound_t a)) a.
Proof.
  unfold compound_t. pose proof (sfx_skip_mnemonic (skip_opt (ischr 58%N) a)) as H.
  destruct (skip_mnemonic (skip_opt (ischr 58%N) a)) as [l1 res]. cbn [fst] in H.
  assert (H1 : sfx l1 a) by (eapply sfx_trans; [exact H|apply sfx_skip_opt]).
  destruct (1 <=? Z.abs res); [eapply sfx_trans; [apply sfx_compound_loop_t|exact H1]|].
  destruct (starts _ a); exact H1.
Qed.
Lemma header_t_inside a : 0 <= disp (header_t a) <= Z.of_nat (length a).
Proof.
  unfold header_t. pose proof (sfx_common_t a) as H1. destruct (common_t a) as [l1 r1]. cbn [fst] in H1.
  assert (F : forall t l', sfx l' a -> 0 <= disp (let n := used a l' in mk t 0 n n n) <= Z.of_nat (length a))
    by (intros t l' Hs; apply used_bounds in Hs; cbn; lia).
  destruct r1.
  - pose proof (sfx_compound_t a) as H2. destruct (compound_t a) as [l2 r2]. cbn [fst] in H2. destruct r2.
    + cbn. lia.
    + destruct (starts _ l2); apply F; [eapply sfx_trans; [apply sfx_tl|exact H2]|exact H2].
    + apply F, H2.
  - destruct (starts _ l1); apply F; [eapply sfx_trans; [apply sfx_tl|exact H1]|exact H1].
  - apply F, H1.
Qed.

(* ---------- the unit scanner ---------- *)
(* what scpiParser_detectProgramMessageUnit decides for a ++ t :: z, written without z (lf: a carriage return t is followed by a
   line feed, which the terminator then includes) *)
Definition detect_t (a:bytes) (t:N) (lf:bool) : unitinfo :=
  let w0 := disp (lex_ws a) in
  let h := header_t (drop w0 a) in
  let hdr := {| ty := ty (tok h); ptr := w0; len := len (tok h) |} in
  let p1 := (w0 + disp h)%Z in
  let w1 := disp (lex_ws (drop p1 a)) in
  let p2 := (p1 + w1)%Z in
  let '(data, n, p3) :=
     if (0 <? w1)%Z then
       let ad := parse_all_data (drop p2 a) in
       ({| ty := ad_ty ad; ptr := p2; len := ad_len ad |}, ad_n ad, (p2 + ad_disp ad)%Z)
     else ({| ty := T_UNKNOWN; ptr := p2; len := 0 |}, 0%Z, p2) in
  if iseos (drop p3 a) then
    {| u_hdr := hdr; u_data := data; u_n := n; u_term := if (t =? 59)%N then TERM_SEMICOLON else TERM_NL;
       u_consumed := (p3 + (if (t =? 13)%N && lf then 2 else 1))%Z |}
  else
    {| u_hdr := {| ty := T_INVALID; ptr := w0; len := 1 |}; u_data := {| ty := T_UNKNOWN; ptr := 0; len := 0 |};
       u_n := n; u_term := TERM_NONE; u_consumed := (p3 + 1)%Z |}.

Lemma used_cons c (l:bytes) : used (c :: l) l = 1. Proof. unfold used. cbn [length]. lia. Qed.
Lemma used_same (l:bytes) : used l l = 0. Proof. unfold used. lia. Qed.

Lemma plainc_not c : plainc c = true -> (c =? 10)%N = false /\ (c =? 13)%N = false /\ (c =? 59)%N = false.
Proof. unfold plainc. destruct (c =? 10)%N, (c =? 13)%N, (c =? 59)%N; cbn; intro H; try discriminate H; auto. Qed.

Lemma used_cons2 c c' (l:bytes) : used (c :: c' :: l) l = 2. Proof. unfold used. cbn [length]. lia. Qed.

Lemma newline_lf z : lex_newline (10%N :: z) = mk T_NL 0 1 1 1.
Proof. unfold lex_newline. cbn [skip_opt]. change (ischr 13 10) with false. cbn [skip_opt]. change (ischr 10 10) with true. cbn iota. rewrite used_cons. reflexivity. Qed.
Lemma newline_cr z : lex_newline (13%N :: z) = if starts (ischr 10%N) z then mk T_NL 0 2 2 2 else mk T_NL 0 1 1 1.
Proof.
  unfold lex_newline. cbn [skip_opt]. change (ischr 13 13) with true. cbn iota.
  destruct z as [|c z']; cbn [skip_opt starts]; [rewrite used_cons; reflexivity|].
  destruct (ischr 10%N c); [rewrite used_cons2|rewrite used_cons]; reflexivity.
Qed.
Lemma newline_sc z : lex_newline (59%N :: z) = mk T_UNKNOWN 0 0 0 0.
Proof. unfold lex_newline. cbn [skip_opt]. change (ischr 13 59) with false. cbn [skip_opt]. change (ischr 10 59) with false. cbn iota. rewrite used_same. reflexivity. Qed.

Theorem detect_cut a t z : plain a -> tchar t -> detect_unit (a ++ t :: z) = detect_t a t (starts (ischr 10%N) z).
Proof.
  intros Hp Ht. pose proof (tail_cons t z Ht) as HT. set (r := t :: z) in *.
  unfold detect_unit, detect_t. rewrite (ws_cut r HT).
  pose proof (ws_inside a) as (Hw0 & _). set (w0 := disp (lex_ws a)) in *.
  rewrite (drop_app w0) by exact Hw0. rewrite (header_cut r HT).
  pose proof (header_t_inside (drop w0 a)) as Hh. rewrite drop_length in Hh by exact Hw0. set (h := header_t (drop w0 a)) in *.
  set (p1 := w0 + disp h).
  rewrite (drop_app p1) by (subst p1; lia). rewrite (ws_cut r HT).
  pose proof (ws_inside (drop p1 a)) as (Hw1 & _). rewrite drop_length in Hw1 by (subst p1; lia). set (w1 := disp (lex_ws (drop p1 a))) in *.
  set (p2 := p1 + w1).
  assert (Hp2 : 0 <= p2 <= Z.of_nat (length a)) by (subst p2 p1; lia).
  rewrite (drop_app p2) by exact Hp2. rewrite (parse_all_data_cut r HT) by (apply plain_drop; exact Hp).
  set (dnp := if 0 <? w1 then _ else _).
  assert (Hp3 : p2 <= snd dnp <= Z.of_nat (length a)).
  { subst dnp. destruct (0 <? w1); cbn [snd]; [|lia].
    unfold parse_all_data. pose proof (all_data_disp (S (length (drop p2 a))) (drop p2 a) 0 0 0) as Ha.
    rewrite drop_length in Ha by exact Hp2. specialize (Ha ltac:(lia)). lia. }
  destruct dnp as [[data n] p3]; cbn [snd] in Hp3.
  rewrite (drop_app p3) by lia.
  assert (Hpl : plain (drop p3 a)) by (apply plain_drop; exact Hp).
  destruct (drop p3 a) as [|c a'] eqn:Ed.
  - (* the scan stopped at the terminator *)
    cbn [app iseos]. subst r.
    destruct Ht as [-> | [-> | ->]].
    + rewrite newline_lf. unfold lex_semicolon, lex_chr. cbn [starts]. change (ischr 59 10) with false. cbn iota.
      cbn [Z.ltb Z.compare mk ret Z.eqb negb andb N.eqb Pos.eqb]. rewrite andb_false_r. reflexivity.
    + rewrite newline_cr. unfold lex_semicolon, lex_chr. cbn [starts]. change (ischr 59 13) with false. cbn iota.
      destruct (starts (ischr 10%N) z); cbn [Z.ltb Z.compare mk ret Z.eqb negb andb N.eqb Pos.eqb]; rewrite andb_false_r; reflexivity.
    + rewrite newline_sc. unfold lex_semicolon, lex_chr. cbn [starts]. change (ischr 59 59) with true. cbn iota.
      cbn [Z.ltb Z.compare mk ret Z.eqb negb andb N.eqb Pos.eqb]. rewrite andb_false_r. reflexivity.
  - inversion Hpl as [|? ? Hc _]; subst. apply plainc_not in Hc. destruct Hc as (H10 & H13 & H59).
    cbn [app iseos]. unfold lex_newline, lex_semicolon, lex_chr. cbn [skip_opt starts]. unfold ischr. rewrite H13. cbn [skip_opt]. rewrite H10, H59.
    rewrite used_same. cbn [Z.ltb Z.compare mk ret Z.eqb negb].
    rewrite Z.add_0_r. rewrite (drop_app p3) by lia. rewrite Ed. cbn [app iseos negb andb]. reflexivity.
Qed.
Print Assumptions detect_cut.

(* the two shapes of that decision: the scan reached the terminator, or it stopped at a byte that cannot continue the unit
   (reported as an invalid unit that ends behind that byte) *)
Lemma detect_t_shape a t lf : plain a ->
  (u_term (detect_t a t lf) = (if (t =? 59)%N then TERM_SEMICOLON else TERM_NL) /\
   u_consumed (detect_t a t lf) = Z.of_nat (length a) + (if (t =? 13)%N && lf then 2 else 1)) \/
  (u_term (detect_t a t lf) = TERM_NONE /\ ty (u_hdr (detect_t a t lf)) = T_INVALID /\ 1 <= u_consumed (detect_t a t lf) <= Z.of_nat (length a)).
Proof.
  intros Hp. unfold detect_t.
  pose proof (ws_inside a) as (Hw0 & _). set (w0 := disp (lex_ws a)) in *.
  pose proof (header_t_inside (drop w0 a)) as Hh. rewrite drop_length in Hh by exact Hw0. set (h := header_t (drop w0 a)) in *.
  set (p1 := w0 + disp h).
  pose proof (ws_inside (drop p1 a)) as (Hw1 & _). rewrite drop_length in Hw1 by (subst p1; lia). set (w1 := disp (lex_ws (drop p1 a))) in *.
  set (p2 := p1 + w1).
  assert (Hp2 : 0 <= p2 <= Z.of_nat (length a)) by (subst p2 p1; lia).
  set (dnp := if 0 <? w1 then _ else _).
  assert (Hp3 : p2 <= snd dnp <= Z.of_nat (length a)).
  { subst dnp. destruct (0 <? w1); cbn [snd]; [|lia].
    unfold parse_all_data. pose proof (all_data_disp (S (length (drop p2 a))) (drop p2 a) 0 0 0) as Ha.
    rewrite drop_length in Ha by exact Hp2. specialize (Ha ltac:(lia)). lia. }
  destruct dnp as [[data n] p3]; cbn [snd] in Hp3.
  assert (Hl : Z.of_nat (length (drop p3 a)) = Z.of_nat (length a) - p3) by (apply drop_length; lia).
  destruct (drop p3 a) as [|c a'].
  - left. cbn [iseos u_term u_consumed length] in *. split; [reflexivity|lia].
  - right. cbn [iseos u_term u_consumed u_hdr ty length] in *. repeat split; lia.
Qed.

(* how the decision depends on the flag: not at all for ';' and line feed; for a carriage return only in the byte count *)
Lemma detect_t_flag a t lf lf' : t <> 13%N -> detect_t a t lf = detect_t a t lf'.
Proof.
  intro Ht. unfold detect_t. apply N.eqb_neq in Ht. rewrite Ht. cbn [andb]. reflexivity.
Qed.
Lemma detect_t_cr a : plain a ->
  u_hdr (detect_t a 13%N true) = u_hdr (detect_t a 13%N false) /\ u_data (detect_t a 13%N true) = u_data (detect_t a 13%N false) /\
  ((u_consumed (detect_t a 13%N false) = Z.of_nat (length a) + 1 /\ u_consumed (detect_t a 13%N true) = Z.of_nat (length a) + 2) \/
   (detect_t a 13%N true = detect_t a 13%N false /\ 1 <= u_consumed (detect_t a 13%N false) <= Z.of_nat (length a))).
Proof.
  intros Hp. unfold detect_t.
  pose proof (ws_inside a) as (Hw0 & _). set (w0 := disp (lex_ws a)) in *.
  pose proof (header_t_inside (drop w0 a)) as Hh. rewrite drop_length in Hh by exact Hw0. set (h := header_t (drop w0 a)) in *.
  set (p1 := w0 + disp h).
  pose proof (ws_inside (drop p1 a)) as (Hw1 & _). rewrite drop_length in Hw1 by (subst p1; lia). set (w1 := disp (lex_ws (drop p1 a))) in *.
  set (p2 := p1 + w1).
  assert (Hp2 : 0 <= p2 <= Z.of_nat (length a)) by (subst p2 p1; lia).
  set (dnp := if 0 <? w1 then _ else _).
  assert (Hp3 : p2 <= snd dnp <= Z.of_nat (length a)).
  { subst dnp. destruct (0 <? w1); cbn [snd]; [|lia].
    unfold parse_all_data. pose proof (all_data_disp (S (length (drop p2 a))) (drop p2 a) 0 0 0) as Ha.
    rewrite drop_length in Ha by exact Hp2. specialize (Ha ltac:(lia)). lia. }
  destruct dnp as [[data n] p3]; cbn [snd] in Hp3.
  assert (Hl : Z.of_nat (length (drop p3 a)) = Z.of_nat (length a) - p3) by (apply drop_length; lia).
  destruct (drop p3 a) as [|c a'].
  - cbn [iseos u_hdr u_data u_consumed length N.eqb Pos.eqb andb] in *. split; [reflexivity|]. split; [reflexivity|]. left. lia.
  - cbn [iseos u_hdr u_data u_consumed length] in *. split; [reflexivity|]. split; [reflexivity|]. right. split; [reflexivity|lia].
Qed.
