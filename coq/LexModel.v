(* Draft model of libscpi/src/lexer.c and the scanning part of parser.c.
   Recognisers are functions of the REMAINING input (the C code never looks behind state->pos and is
   bounded by buffer+len); they return a token and a signed displacement. *)
From Coq Require Import Bool List NArith ZArith Lia.
Import ListNotations.
Local Open Scope bool_scope.

Definition byte := N.
Definition bytes := list byte.

(* ---------- character classes ("C" locale) ---------- *)
Local Open Scope N_scope.
Definition inr (lo hi c:N) := (lo <=? c) && (c <=? hi).
Definition isdigit c := inr 48 57 c.
Definition isupper c := inr 65 90 c.
Definition islower c := inr 97 122 c.
Definition isalpha c := isupper c || islower c.
Definition isalnum c := isalpha c || isdigit c.
Definition isxdigit c := isdigit c || inr 65 70 c || inr 97 102 c.
Definition isws c := (c =? 32) || (c =? 9).
Definition isbdigit c := inr 48 49 c.
Definition isqdigit c := inr 48 55 c.
Definition isplusmn c := (c =? 43) || (c =? 45).
Definition isH c := (c =? 104) || (c =? 72).
Definition isB c := (c =? 98) || (c =? 66).
Definition isQ c := (c =? 113) || (c =? 81).
Definition isE c := (c =? 101) || (c =? 69).
Definition ischr (k c:N) := c =? k.
Definition ismnem c := isalnum c || (c =? 95).
Definition isascii7 c := c <=? 127.           (* char is signed on the target: (c >= 0) && (c <= 0x7f) *)
Definition isexpr c := inr 32 126 c && negb ((c =? 34) || (c =? 35) || (c =? 39) || (c =? 40) || (c =? 41) || (c =? 59)).
Local Close Scope N_scope.

(* ---------- skip primitives: return the rest ---------- *)
Fixpoint skip_while (p:byte->bool) (l:bytes) : bytes :=
  match l with c::r => if p c then skip_while p r else l | [] => [] end.
Definition skip_opt (p:byte->bool) (l:bytes) : bytes :=
  match l with c::r => if p c then r else l | [] => [] end.
Definition starts (p:byte->bool) (l:bytes) : bool := match l with c::_ => p c | [] => false end.
Definition iseos (l:bytes) : bool := match l with [] => true | _ => false end.
(* bytes consumed going from l to its suffix l' *)
Definition used (l l':bytes) : Z := Z.of_nat (length l) - Z.of_nat (length l').

(* ---------- tokens ---------- *)
Inductive ttype :=
| T_COMMA | T_SEMICOLON | T_COLON | T_SPECIFIC | T_QUESTION | T_NL | T_HEXNUM | T_OCTNUM | T_BINNUM
| T_MNEMONIC | T_DECIMAL | T_DECIMAL_SUFFIX | T_SUFFIX | T_BLOCK | T_SQUOTE | T_DQUOTE | T_EXPR
| T_COMPOUND_HDR | T_INCOMPLETE_COMPOUND_HDR | T_COMMON_HDR | T_INCOMPLETE_COMMON_HDR
| T_COMPOUND_QUERY_HDR | T_COMMON_QUERY_HDR | T_WS | T_ALL_DATA | T_INVALID | T_UNKNOWN.
(* ptr is relative to the position at which the recogniser was started *)
Record token := { ty : ttype; ptr : Z; len : Z }.
(* result of a recogniser: token, return value of the C function, new position (displacement) *)
Record lexres := { tok : token; ret : Z; disp : Z }.
Definition mk ty p n r d := {| tok := {| ty:=ty; ptr:=p; len:=n |}; ret := r; disp := d |}.

(* ---------- simple tokens ---------- *)
Definition lex_ws (l:bytes) : lexres :=
  let n := used l (skip_while isws l) in
  mk (if (0 <? n)%Z then T_WS else T_UNKNOWN) 0 n n n.

Definition lex_chr (t:ttype) (k:N) (l:bytes) : lexres :=
  if starts (ischr k) l then mk t 0 1 1 1 else mk T_UNKNOWN 0 0 0 0.
Definition lex_comma := lex_chr T_COMMA 44%N.
Definition lex_semicolon := lex_chr T_SEMICOLON 59%N.
Definition lex_colon := lex_chr T_COLON 58%N.
Definition lex_specific (k:N) := lex_chr T_SPECIFIC k.

Definition lex_newline (l:bytes) : lexres :=
  let l1 := skip_opt (ischr 13%N) l in let l2 := skip_opt (ischr 10%N) l1 in
  let n := used l l2 in
  if (0 <? n)%Z then mk T_NL 0 n n n else mk T_UNKNOWN 0 0 0 0.

(* ---------- mnemonic and headers ---------- *)
(* skipProgramMnemonic: returns (rest, signed count: negative = reached end of input) *)
Definition skip_mnemonic (l:bytes) : bytes * Z :=
  let l' := if starts isalpha l then skip_while ismnem (tl l) else l in
  let n := used l l' in
  (l', if iseos l' then (- n)%Z else n).

Inductive skipres := SK_NONE | SK_OK | SK_INCOMPLETE.

Definition skip_common_header (l:bytes) : bytes * skipres :=
  if starts (ischr 42%N) l then
    let '(l', res) := skip_mnemonic (tl l) in
    if (res =? 0)%Z && iseos l' then (l', SK_INCOMPLETE)
    else if (res <=? -1)%Z then (l', SK_OK)
    else if (1 <=? res)%Z then (l', SK_OK)
    else (l', SK_INCOMPLETE)
  else (l, SK_NONE).

(* while (skipColon) { res = skipProgramMnemonic; if res<=-1 return OK; if res==0 return INCOMPLETE } return OK *)
Fixpoint compound_loop (fuel:nat) (l:bytes) : bytes * skipres :=
  match fuel with
  | O => (l, SK_OK)
  | S f =>
    if starts (ischr 58%N) l then
      let '(l', res) := skip_mnemonic (tl l) in
      if (res <=? -1)%Z then (l', SK_OK)
      else if (res =? 0)%Z then (l', SK_INCOMPLETE)
      else compound_loop f l'
    else (l, SK_OK)
  end.

Definition skip_compound_header (l:bytes) : bytes * skipres :=
  let first_colon := starts (ischr 58%N) l in
  let l0 := skip_opt (ischr 58%N) l in
  let '(l1, res) := skip_mnemonic l0 in
  if (1 <=? res)%Z then compound_loop (length l1) l1
  else if (res <=? -1)%Z then (l1, SK_OK)
  else if first_colon then (l1, SK_INCOMPLETE)
  else (l1, SK_NONE).

Definition lex_header (l:bytes) : lexres :=
  let '(l1, r1) := skip_common_header l in
  let finish (ty:ttype) (l':bytes) := let n := used l l' in mk ty 0 n n n in
  match r1 with
  | SK_OK => if starts (ischr 63%N) l1 then finish T_COMMON_QUERY_HDR (tl l1) else finish T_COMMON_HDR l1
  | SK_INCOMPLETE => finish T_INCOMPLETE_COMMON_HDR l1
  | SK_NONE =>
      let '(l2, r2) := skip_compound_header l in
      match r2 with
      | SK_OK => if starts (ischr 63%N) l2 then finish T_COMPOUND_QUERY_HDR (tl l2) else finish T_COMPOUND_HDR l2
      | SK_INCOMPLETE => finish T_INCOMPLETE_COMPOUND_HDR l2
      | SK_NONE => mk T_UNKNOWN 0 0 0 0
      end
  end.

(* ---------- character data ---------- *)
Definition lex_chardata (l:bytes) : lexres :=
  let l' := if starts isalpha l then skip_while ismnem (tl l) else l in
  let n := used l l' in
  mk (if (0 <? n)%Z then T_MNEMONIC else T_UNKNOWN) 0 n n n.

(* ---------- decimal numeric ---------- *)
Definition skip_mantisa (l:bytes) : bytes * Z :=
  let l1 := skip_opt isplusmn l in
  let l2 := skip_while isdigit l1 in
  let n1 := used l1 l2 in
  if starts (ischr 46%N) l2 then
    let l3 := skip_while isdigit (tl l2) in (l3, (n1 + used (tl l2) l3)%Z)
  else (l2, n1).
Definition skip_exponent (l:bytes) : bytes * Z :=
  if starts isE l then
    let l1 := skip_while isws (tl l) in
    let l2 := skip_opt isplusmn l1 in
    let l3 := skip_while isdigit l2 in (l3, used l2 l3)
  else (l, 0%Z).
Definition lex_decimal (l:bytes) : lexres :=
  let '(l1, n) := skip_mantisa l in
  let l' := if (n =? 0)%Z then l else
              let '(l3, m) := skip_exponent (skip_while isws l1) in
              if (m =? 0)%Z then l1 else l3 in
  let k := used l l' in
  mk (if (0 <? k)%Z then T_DECIMAL else T_UNKNOWN) 0 k k k.

(* ---------- suffix (relaxed) ---------- *)
Fixpoint suffix_loop (fuel:nat) (l:bytes) : bytes :=
  match fuel with
  | O => l
  | S f =>
    if starts (fun c => ischr 47%N c || ischr 46%N c) l then
      let l1 := skip_while isalpha (tl l) in
      let l2 := skip_opt (ischr 45%N) l1 in
      let l3 := skip_opt isdigit l2 in
      suffix_loop f l3
    else l
  end.
Definition lex_suffix (l:bytes) : lexres :=
  let l0 := skip_opt (ischr 47%N) l in
  let l1 := skip_while isalpha l0 in
  let l' := if (0 <? used l0 l1)%Z then
              let l2 := skip_opt (ischr 45%N) l1 in
              let l3 := skip_opt isdigit l2 in
              suffix_loop (length l3) l3
            else l1 in
  let n := used l l' in
  if (0 <? n)%Z then mk T_SUFFIX 0 n n n else mk T_UNKNOWN 0 0 0 0.

(* ---------- nondecimal ---------- *)
Definition lex_nondecimal (l:bytes) : lexres :=
  let fail := mk T_UNKNOWN 0 0 0 0 in
  if starts (ischr 35%N) l then
    match tl l with
    | c :: r =>
      let go (t:ttype) (p:byte->bool) :=
        let r' := skip_while p r in
        let n := used r r' in
        if (0 <? n)%Z then mk t 2 n (n+2) (n+2) else fail in
      if isH c then go T_HEXNUM isxdigit
      else if isQ c then go T_OCTNUM isqdigit
      else if isB c then go T_BINNUM isbdigit
      else fail
    | [] => fail
    end
  else fail.

(* ---------- string ---------- *)
(* skipQuoteProgramData: returns the rest, positioned AT the closing quote (or where scanning stopped) *)
Fixpoint skip_quoted (q:N) (l:bytes) : bytes :=
  match l with
  | [] => []
  | c :: r =>
    if isascii7 c && negb (ischr q c) then skip_quoted q r
    else if ischr q c then
      match r with
      | c2 :: r2 => if ischr q c2 then skip_quoted q r2 else l
      | [] => l
      end
    else l
  end.
Definition lex_string (l:bytes) : lexres :=
  let fail := mk T_UNKNOWN 0 0 0 0 in
  let go (t:ttype) (q:N) :=
    let l1 := skip_quoted q (tl l) in
    if starts (ischr q) l1 then let n := used l (tl l1) in mk t 0 n n n else fail in
  if starts (ischr 34%N) l then go T_DQUOTE 34%N
  else if starts (ischr 39%N) l then go T_SQUOTE 39%N
  else fail.

(* ---------- definite length block ---------- *)
(* read up to i digits: returns (rest, remaining i, accumulated value) *)
Fixpoint block_digits (i:nat) (l:bytes) (acc:Z) : bytes * nat * Z :=
  match i with
  | O => (l, O, acc)
  | S i' => match l with
            | c :: r => if isdigit c then block_digits i' r (acc*10 + (Z.of_N c - 48))%Z else (l, i, acc)
            | [] => (l, i, acc)
            end
  end.
Definition lex_block (l:bytes) : lexres :=
  let invalid := mk T_UNKNOWN 0 0 0 0 in
  let incomplete := mk T_UNKNOWN 0 0 0 (Z.of_nat (length l)) in   (* swallows the rest *)
  if starts (ischr 35%N) l then
    match tl l with
    | [] => incomplete
    | c :: r =>
      if isdigit c && negb (ischr 48%N c) then
        let '(r', remd, blen) := block_digits (N.to_nat (c - 48)%N) r 0%Z in
        match remd with
        | O => let hdr := used l r' in
               if (blen <=? Z.of_nat (length r'))%Z then mk T_BLOCK hdr blen (hdr + blen) (hdr + blen)
               else incomplete
        | _ => if iseos r' then incomplete else invalid
        end
      else invalid
    end
  else invalid.

(* ---------- expression ---------- *)
Definition lex_expr (l:bytes) : lexres :=
  let fail := mk T_UNKNOWN 0 0 0 0 in
  if starts (ischr 40%N) l then
    let l1 := skip_while isexpr (tl l) in
    if starts (ischr 41%N) l1 then let n := used l (tl l1) in mk T_EXPR 0 n n n else fail
  else fail.

(* ---------- parser.c: scpiParser_parseProgramData ---------- *)
Definition drop (n:Z) (l:bytes) : bytes := skipn (Z.to_nat n) l.
(* result: token (ptr relative to the start l), return value, displacement *)
Definition parse_program_data (l:bytes) : lexres :=
  let w0 := lex_ws l in
  let l0 := drop (disp w0) l in
  let off := disp w0 in
  let shift (r:lexres) (extra_ret extra_disp:Z) :=
      {| tok := {| ty := ty (tok r); ptr := (ptr (tok r) + off)%Z; len := len (tok r) |};
         ret := (ret r + extra_ret)%Z; disp := (off + disp r + extra_disp)%Z |} in
  (* after a successful alternative: trailing white space is consumed and added to the return value *)
  let finish (r:lexres) :=
      let w1 := lex_ws (drop (disp r) l0) in
      shift r (disp w0 + disp w1)%Z (disp w1) in
  let r1 := lex_nondecimal l0 in
  if negb (ret r1 =? 0)%Z then finish r1 else
  let r2 := lex_chardata l0 in
  if negb (ret r2 =? 0)%Z then finish r2 else
  let r3 := lex_decimal l0 in
  if negb (ret r3 =? 0)%Z then
     let lw := drop (disp r3) l0 in
     let w := lex_ws lw in
     let s := lex_suffix (drop (disp w) lw) in
     if (0 <? ret s)%Z then
        let n := (len (tok r3) + disp w + ret s)%Z in
        finish {| tok := {| ty := T_DECIMAL_SUFFIX; ptr := 0; len := n |}; ret := n; disp := n |}
     else
        (* fix 5: white space after the number is added to the result *)
        let w1 := lex_ws (drop (disp r3 + disp w) l0) in
        shift r3 (disp w0 + disp w + disp w1)%Z (disp w + disp w1)%Z
  else
  let r4 := lex_string l0 in
  if negb (ret r4 =? 0)%Z then finish r4 else
  let r5 := lex_block l0 in
  if negb (ret r5 =? 0)%Z then finish r5 else
  (* an incomplete block has ret 0 but has moved the cursor to the end: the expression recogniser then sees end of input *)
  let l5 := drop (disp r5) l0 in
  let r6 := lex_expr l5 in
  let r6' := {| tok := {| ty := ty (tok r6); ptr := (ptr (tok r6) + disp r5)%Z; len := len (tok r6) |}; ret := ret r6; disp := (disp r5 + disp r6)%Z |} in
  finish r6'.

(* ---------- scpiParser_parseAllProgramData ---------- *)
Record alldata := { ad_ty : ttype; ad_len : Z; ad_n : Z; ad_disp : Z }.
Fixpoint all_data_loop (fuel:nat) (l:bytes) (pos:Z) (tlen:Z) (count:Z) : alldata :=
  match fuel with
  | O => {| ad_ty := T_UNKNOWN; ad_len := 0; ad_n := -1; ad_disp := pos |}
  | S f =>
    let r := parse_program_data (drop pos l) in
    match ty (tok r) with
    | T_UNKNOWN => {| ad_ty := T_UNKNOWN; ad_len := 0; ad_n := -1; ad_disp := (pos + disp r)%Z |}
    | _ =>
      let tlen' := (tlen + ret r)%Z in
      let pos' := (pos + disp r)%Z in
      let c := lex_comma (drop pos' l) in
      if (ret c =? 0)%Z then {| ad_ty := T_ALL_DATA; ad_len := tlen'; ad_n := (count+1)%Z; ad_disp := pos' |}
      else all_data_loop f l (pos' + 1)%Z (tlen' + 1)%Z (count + 1)%Z
    end
  end.
Definition parse_all_data (l:bytes) : alldata := all_data_loop (S (length l)) l 0%Z 0%Z 0%Z.

(* ---------- scpiParser_detectProgramMessageUnit ---------- *)
Inductive term := TERM_NONE | TERM_NL | TERM_SEMICOLON.
Record unitinfo := { u_hdr : token; u_data : token; u_n : Z; u_term : term; u_consumed : Z }.
Definition detect_unit (l:bytes) : unitinfo :=
  let w0 := disp (lex_ws l) in
  let h := lex_header (drop w0 l) in
  let hdr := {| ty := ty (tok h); ptr := w0; len := len (tok h) |} in
  let p1 := (w0 + disp h)%Z in
  let w1 := disp (lex_ws (drop p1 l)) in
  let p2 := (p1 + w1)%Z in
  let '(data, n, p3) :=
     if (0 <? w1)%Z then
       let a := parse_all_data (drop p2 l) in
       ({| ty := ad_ty a; ptr := p2; len := ad_len a |}, ad_n a, (p2 + ad_disp a)%Z)
     else ({| ty := T_UNKNOWN; ptr := p2; len := 0 |}, 0%Z, p2) in
  let nl := lex_newline (drop p3 l) in
  let sc := lex_semicolon (drop p3 l) in
  let res := if (ret nl =? 0)%Z then ret sc else ret nl in
  let tm := if negb (ret nl =? 0)%Z then TERM_NL else if negb (ret sc =? 0)%Z then TERM_SEMICOLON else TERM_NONE in
  let p4 := (p3 + res)%Z in
  if negb (iseos (drop p4 l)) && (res =? 0)%Z then
    {| u_hdr := {| ty := T_INVALID; ptr := w0; len := 1 |}; u_data := {| ty := T_UNKNOWN; ptr := 0; len := 0 |};
       u_n := n; u_term := tm; u_consumed := (p4 + 1)%Z |}
  else {| u_hdr := hdr; u_data := data; u_n := n; u_term := tm; u_consumed := p4 |}.

