(* C15 -- property theorems only: every statement is closed by `exact` on a lemma proved elsewhere.
   Statements are pinned by coq/statements/C15.json; ./check compares. *)
From Coq Require Import Bool List NArith ZArith Lia.
From M Require BufProofs.
From M Require FpStr.
From M Require IntFmtProofs.
From M Require Tie.
From M Require CopyText.
From M Require DtostreLayout.
From M Require BufModel.
From M Require Dtostre.
From M Require DtostreCases1.
From M Require DtostreCases2.
From M Require DtostreCases3.
From M Require DtostreSpec.
From M Require FmtModel.
From M Require GFmt.
From M Require GFmtSpec.
From M Require ILog.
From M Require NumDecode.
From M Require NumSyntax.
From M Require ParserModel.
From M Require RtFloat.
Import ListNotations.

Module T_number_to_str_bounded. Import BufProofs. Local Open Scope bool_scope. Local Open Scope Z_scope.
Import FmtModel GFmt BufModel. Local Open Scope bool_scope. Local Open Scope Z_scope.
Theorem C15_number_to_str_bounded :
  forall bits unit len,
  0 <= len -> snd (number_to_str bits unit len) = false.
Proof. exact (@BufProofs.number_to_str_bounded). Qed.
End T_number_to_str_bounded.
Definition C15_number_to_str_bounded := @T_number_to_str_bounded.C15_number_to_str_bounded.

Module T_number_to_str_fixed_bounded. Import BufProofs. Local Open Scope bool_scope. Local Open Scope Z_scope.
Import FmtModel GFmt BufModel. Local Open Scope bool_scope. Local Open Scope Z_scope.
Theorem C15_number_to_str_fixed_bounded :
  forall text unit len,
  0 <= len -> snd (number_to_str_k 2 text unit len) = false.
Proof. exact (@BufProofs.number_to_str_fixed_bounded). Qed.
End T_number_to_str_fixed_bounded.
Definition C15_number_to_str_fixed_bounded := @T_number_to_str_fixed_bounded.C15_number_to_str_fixed_bounded.

Module T_fp_to_str_bounded. Import FpStr. Local Open Scope bool_scope. Local Open Scope Z_scope.
Import BufModel. Local Open Scope Z_scope.
Theorem C15_fp_to_str_bounded :
  forall text len,
  0 < len ->
  let '(s, nul, r, reads_unwritten) := fp_to_str text len in
  Z.of_nat (length s) + 1 <= len /\ nul = true /\ r = Z.of_nat (length s) /\ reads_unwritten = false /\
  s = firstn (Z.to_nat (len - 1)) text.
Proof. exact (@FpStr.fp_to_str_bounded). Qed.
End T_fp_to_str_bounded.
Definition C15_fp_to_str_bounded := @T_fp_to_str_bounded.C15_fp_to_str_bounded.

Module T_double_to_str_bounded. Import FpStr. Local Open Scope bool_scope. Local Open Scope Z_scope.
Import BufModel. Local Open Scope Z_scope.
Theorem C15_double_to_str_bounded :
  forall bits len,
  0 < len ->
  let '(s, nul, r, bad) := double_to_str bits len in Z.of_nat (length s) + 1 <= len /\ nul = true /\ r = Z.of_nat (length s) /\ bad = false.
Proof. exact (@FpStr.double_to_str_bounded). Qed.
End T_double_to_str_bounded.
Definition C15_double_to_str_bounded := @T_double_to_str_bounded.C15_double_to_str_bounded.

Module T_float_to_str_bounded. Import FpStr. Local Open Scope bool_scope. Local Open Scope Z_scope.
Import BufModel. Local Open Scope Z_scope.
Theorem C15_float_to_str_bounded :
  forall bits len,
  0 < len ->
  let '(s, nul, r, bad) := float_to_str bits len in Z.of_nat (length s) + 1 <= len /\ nul = true /\ r = Z.of_nat (length s) /\ bad = false.
Proof. exact (@FpStr.float_to_str_bounded). Qed.
End T_float_to_str_bounded.
Definition C15_float_to_str_bounded := @T_float_to_str_bounded.C15_float_to_str_bounded.

Module T_fp_to_str_len0. Import FpStr. Local Open Scope bool_scope. Local Open Scope Z_scope.
Import BufModel. Local Open Scope Z_scope.
Theorem C15_fp_to_str_len0 :
  forall text,
  fp_to_str text 0 = ([], false, 0, false).
Proof. exact (@FpStr.fp_to_str_len0). Qed.
End T_fp_to_str_len0.
Definition C15_fp_to_str_len0 := @T_fp_to_str_len0.C15_fp_to_str_len0.

Module T_fp_to_str_all. Import FpStr. Local Open Scope bool_scope. Local Open Scope Z_scope.
Import BufModel. Local Open Scope Z_scope.
Theorem C15_fp_to_str_all :
  forall text len,
  0 <= len ->
  let '(s, nul, r, reads_unwritten) := fp_to_str text len in
  Z.of_nat (length s) + (if nul then 1 else 0) <= len /\ (nul = true <-> 0 < len) /\ r = Z.of_nat (length s) /\ reads_unwritten = false.
Proof. exact (@FpStr.fp_to_str_all). Qed.
End T_fp_to_str_all.
Definition C15_fp_to_str_all := @T_fp_to_str_all.C15_fp_to_str_all.

Module T_int2str_exact. Import IntFmtProofs. Local Open Scope bool_scope. Local Open Scope Z_scope.
Import FmtModel. Local Open Scope Z_scope.
Theorem C15_int2str_exact :
  forall w val len base sign,
  (w = 32 \/ w = 64) -> 0 <= len ->
  let c := firstn (Z.to_nat len) (canonical w val base sign) in
  int2str w val len base sign = (c, Z.of_nat (length c) <? len, Z.of_nat (length c)).
Proof. exact (@IntFmtProofs.int2str_exact). Qed.
End T_int2str_exact.
Definition C15_int2str_exact := @T_int2str_exact.C15_int2str_exact.

Module T_tie_float_formats. Import Tie. Local Open Scope bool_scope. Local Open Scope Z_scope.
Local Open Scope Z_scope.
Theorem C15_tie_float_formats :
  Generated.gen_double_fmt = [115;110;112;114;105;110;116;102;40;40;115;41;44;32;40;108;41;44;32;34;37;46;49;53;108;103;34;44;32;40;118;41;41]%N /\
  Generated.gen_float_fmt = [115;110;112;114;105;110;116;102;40;40;115;41;44;32;40;108;41;44;32;34;37;103;34;44;32;40;118;41;41]%N.
Proof. exact (@Tie.tie_float_formats). Qed.
End T_tie_float_formats.
Definition C15_tie_float_formats := @T_tie_float_formats.C15_tie_float_formats.

Module T_param_text_bounded. Import CopyText. Local Open Scope bool_scope. Local Open Scope Z_scope.
Import ParserModel. Local Open Scope Z_scope.
Local Open Scope Z_scope.
Theorem C15_param_text_bounded :
  forall c buflen m,
  let '(c1, ok, out, nul) := param_text c buflen m in
  Z.of_nat (length out) <= Z.max 0 buflen /\ (nul = true -> Z.of_nat (length out) < buflen).
Proof. exact (@CopyText.param_text_bounded). Qed.
End T_param_text_bounded.
Definition C15_param_text_bounded := @T_param_text_bounded.C15_param_text_bounded.

Module T_param_text_len0. Import CopyText. Local Open Scope bool_scope. Local Open Scope Z_scope.
Import ParserModel. Local Open Scope Z_scope.
Local Open Scope Z_scope.
Theorem C15_param_text_len0 :
  forall c m,
  let '(c1, ok, out, nul) := param_text c 0 m in out = [] /\ nul = false.
Proof. exact (@CopyText.param_text_len0). Qed.
End T_param_text_len0.
Definition C15_param_text_len0 := @T_param_text_len0.C15_param_text_len0.

Module T_tie_dtostre_buf. Import Tie. Local Open Scope bool_scope. Local Open Scope Z_scope.
Local Open Scope Z_scope.
Theorem C15_tie_dtostre_buf :
  Z.of_nat (length (fst (Dtostre.setb (repeat Dtostre.UNINIT 32) 0 0))) = 32 /\ 32 <= Generated.gen_dtostre_buf.
Proof. exact (@Tie.tie_dtostre_buf). Qed.
End T_tie_dtostre_buf.
Definition C15_tie_dtostre_buf := @T_tie_dtostre_buf.C15_tie_dtostre_buf.

Module T_dtostre_layout. Import DtostreLayout. Local Open Scope bool_scope. Local Open Scope Z_scope.
Import GFmt NumDecode NumSyntax GFmtSpec ILog RtFloat Dtostre DtostreSpec DtostreCases1 DtostreCases2 DtostreCases3. Local Open Scope Z_scope.
Local Open Scope Z_scope.
Theorem C15_dtostre_layout :
  forall P ds k neg,
  1 <= P <= 15 -> length ds = Z.to_nat P -> Forall isdig ds -> (exists c, In c ds /\ c <> 48) ->
  -400 <= k <= 400 -> layout ds k P neg = (g_text neg P ds (k - 1), false).
Proof. exact (@DtostreLayout.dtostre_layout). Qed.
End T_dtostre_layout.
Definition C15_dtostre_layout := @T_dtostre_layout.C15_dtostre_layout.

