(* C01/C05, array parameter readers (PARAM_ARRAY_TEMPLATE): never more values than the announced capacity; a reader that is
   not mandatory never fails; a mandatory one fails exactly when its first element could not be read. *)
From Coq Require Import Bool List NArith ZArith Lia.
From M Require Import ParserModel.
Import ListNotations.
Local Open Scope Z_scope.

Lemma param_array_cap rd n : forall c m acc,
  let '(c1, m1, vals) := param_array n rd c m acc in (length vals <= length acc + n)%nat.
Proof.
  induction n as [|n IH]; intros c m acc; cbn [param_array]; [lia|].
  destruct (rd c m) as [[c1 ok] v]. destruct ok; [|lia].
  specialize (IH c1 false (acc ++ [v])). destruct (param_array n rd c1 false (acc ++ [v])) as [[c2 m2] vals].
  rewrite app_length in IH. cbn [length] in IH. lia.
Qed.
Theorem array_reader_capacity ty cap c m :
  let '(c1, m1, vals) := param_array (Z.to_nat cap) (array_reader ty) c m [] in Z.of_nat (length vals) <= Z.max 0 cap.
Proof.
  pose proof (param_array_cap (array_reader ty) (Z.to_nat cap) c m []) as H.
  destruct (param_array (Z.to_nat cap) (array_reader ty) c m []) as [[c1 m1] vals]. cbn [length] in H. lia.
Qed.

Lemma param_array_flag rd n : forall c m acc,
  let '(c1, m1, vals) := param_array n rd c m acc in
  m1 = match n with O => m | S _ => if snd (fst (rd c m)) then false else m end.
Proof.
  destruct n as [|n]; intros c m acc; cbn [param_array]; [reflexivity|].
  destruct (rd c m) as [[c1 ok] v]. cbn [fst snd]. destruct ok; [|reflexivity].
  assert (G : forall k c' acc', let '(_, m', _) := param_array k rd c' false acc' in m' = false).
  { induction k as [|k IHk]; intros c' acc'; cbn [param_array]; [reflexivity|].
    destruct (rd c' false) as [[c2 ok2] v2]. destruct ok2; [apply IHk|reflexivity]. }
  specialize (G n c1 (acc ++ [v])). destruct (param_array n rd c1 false (acc ++ [v])) as [[c2 m2] vals]. exact G.
Qed.
(* the value SCPI_ParamArrayXxx returns is "not mandatory any more" *)
Theorem array_reader_result ty cap c m :
  let '(c1, m1, vals) := param_array (Z.to_nat cap) (array_reader ty) c m [] in
  negb m1 = negb m || (negb (Z.to_nat cap =? 0)%nat && snd (fst (array_reader ty c m))).
Proof.
  pose proof (param_array_flag (array_reader ty) (Z.to_nat cap) c m []) as H.
  destruct (param_array (Z.to_nat cap) (array_reader ty) c m []) as [[c1 m1] vals]. rewrite H.
  destruct (Z.to_nat cap) as [|k]; cbn [Nat.eqb negb andb]; [now rewrite orb_false_r|].
  destruct (snd (fst (array_reader ty c m))), m; reflexivity.
Qed.
Print Assumptions array_reader_capacity.
Print Assumptions array_reader_result.
