(* C12 on the register model (fixed class table): classification, latching, service request *)
From Coq Require Import Bool List NArith ZArith Lia.
From M Require Import RegModel RegProofs.
Import ListNotations.
Local Open Scope Z_scope.

(* ---------- classification of all 65536 codes ---------- *)
Definition spec_class (c:Z) : list N :=
  if (-199 <=? c) && (c <=? -100) then [32%N] else if (-299 <=? c) && (c <=? -200) then [16%N]
  else if ((-399 <=? c) && (c <=? -300)) || ((1 <=? c) && (c <=? 32767)) then [8%N]
  else if (-499 <=? c) && (c <=? -400) then [4%N] else if (-599 <=? c) && (c <=? -500) then [128%N]
  else if (-699 <=? c) && (c <=? -600) then [64%N] else if (-799 <=? c) && (c <=? -700) then [2%N]
  else if (-899 <=? c) && (c <=? -800) then [1%N] else [].
Fixpoint zrange (n:nat) (z:Z) : list Z := match n with O => [] | S n' => z :: zrange n' (z+1) end.
Definition all_int16 : list Z := zrange (Z.to_nat 65536) (-32768).
Lemma in_zrange n : forall z c, z <= c < z + Z.of_nat n -> In c (zrange n z).
Proof. induction n as [|n IH]; intros z c H; [lia|]. cbn [zrange]. destruct (Z.eq_dec z c); [now left|right; apply IH; lia]. Qed.
Definition list_eqb (a b:list N) : bool := (length a =? length b)%nat && forallb (fun '(x,y) => (x =? y)%N) (combine a b).
Lemma classify_all : forallb (fun c => list_eqb (class_bits c) (spec_class c)) all_int16 = true.
Proof. vm_compute. reflexivity. Qed.
Lemma list_eqb_eq a b : list_eqb a b = true -> a = b.
Proof. revert b; induction a as [|x a IH]; intros [|y b] H; try discriminate; [reflexivity|].
  unfold list_eqb in *. cbn in H. apply andb_prop in H as [Hl H]. apply andb_prop in H as [Hx H].
  apply N.eqb_eq in Hx. subst. f_equal. apply IH. now rewrite Hl, H. Qed.
Theorem classify c : -32768 <= c <= 32767 -> class_bits c = spec_class c.
Proof.
  intros Hc. apply list_eqb_eq. pose proof classify_all as H. rewrite forallb_forall in H. apply H.
  unfold all_int16. apply in_zrange. lia.
Qed.

(* ---------- service request: never announced while MSS is 0, always announced when MSS rises ---------- *)
Local Open Scope N_scope.
Lemma nonzero_bit x : x <> 0 -> exists j, N.testbit x j = true.
Proof. intros H. exists (N.log2 x). now apply N.bit_log2. Qed.

(* one write to STB or SRE: the callbacks issued, and their argument *)
Lemma srq_step s (name:reg) v cb : (name = STB \/ name = SRE) -> s name <> v ->
  let r := regset 1 s name v cb in
  let s' := fst r in
  (snd r = cb \/ (snd r = cb ++ [s' STB] /\ N.testbit (s' STB) 6 = true)) /\
  (mss (s STB) (s SRE) = false -> mss (s' STB) (s' SRE) = true -> snd r = cb ++ [s' STB]).
Proof.
  intros Hn Hne r s'. subst r s'.
  assert (Hstep : regset 1 s name v cb =
     let s1 := set s name v in
     if negb (N.land (N.ldiff (s1 STB) 64) (N.ldiff (s1 SRE) 64) =? 0)
     then (set s1 STB (N.lor (s1 STB) 64), if negb (N.land (N.land (N.lxor (s name) v) v) v =? 0) then cb ++ [set s1 STB (N.lor (s1 STB) 64) STB] else cb)
     else (set s1 STB (N.ldiff (s1 STB) 64), cb)).
  { destruct Hn as [->| ->]; cbn [regset details]; (match goal with |- context [(?a =? v)] => destruct (N.eqb_spec a v) as [E|_] end; [contradiction|]); reflexivity. }
  rewrite Hstep. clear Hstep. cbn zeta. set (s1 := set s name v).
  destruct (N.land (N.ldiff (s1 STB) 64) (N.ldiff (s1 SRE) 64) =? 0) eqn:E; cbn [negb fst snd].
  - split; [now left|]. intros _ Hm. exfalso. unfold mss in Hm. rewrite set_same in Hm.
    rewrite (set_other _ STB SRE) in Hm by discriminate. rewrite ldiff_idem, E in Hm. discriminate.
  - rewrite set_same. split.
    + destruct (negb _); [right; split; [reflexivity|]|now left]. change 64 with (2^6). now rewrite tb_lor_pow2.
    + intros Hold _.
      assert (Hnz : N.land (N.ldiff (s1 STB) 64) (N.ldiff (s1 SRE) 64) <> 0) by (now apply N.eqb_neq).
      destruct (nonzero_bit _ Hnz) as (j & Hj). rewrite N.land_spec, !N.ldiff_spec in Hj.
      apply andb_prop in Hj as [Hj1 Hj2]. apply andb_prop in Hj1 as [Hs Hn6]. apply andb_prop in Hj2 as [He _].
      unfold mss in Hold. apply negb_false_iff, N.eqb_eq in Hold.
      assert (Hold_j : N.testbit (N.land (N.ldiff (s STB) 64) (N.ldiff (s SRE) 64)) j = false) by (rewrite Hold; apply N.bits_0).
      rewrite N.land_spec, !N.ldiff_spec, Hn6, !andb_true_r in Hold_j.
      assert (Hgain : N.testbit (N.land (N.land (N.lxor (s name) v) v) v) j = true).
      { rewrite !N.land_spec, N.lxor_spec. subst s1. destruct Hn as [->| ->].
        - rewrite set_same in Hs. rewrite (set_other _ STB SRE) in He by discriminate. rewrite He, andb_true_r in Hold_j. rewrite Hold_j, Hs. reflexivity.
        - rewrite set_same in He. rewrite (set_other _ SRE STB) in Hs by discriminate. rewrite Hs in Hold_j. cbn in Hold_j. rewrite Hold_j, He. reflexivity. }
      assert (Hne0 : N.land (N.land (N.lxor (s name) v) v) v <> 0) by (intro H0; rewrite H0, N.bits_0 in Hgain; discriminate).
      apply N.eqb_neq in Hne0. rewrite Hne0. reflexivity.
Qed.
Print Assumptions classify.
Print Assumptions srq_step.
