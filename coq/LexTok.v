(* Where the token of a program data item lies, and how a number token starts (used by ParseLocal: the number readers are
   handed the text from the first byte of the token on; that byte is never white space) *)
From Coq Require Import Bool List NArith ZArith Lia.
From M Require Import LexModel LexBounds UnitProgress.
Import ListNotations.
Local Open Scope Z_scope.

Definition isspace (c:N) := ((c =? 32) || ((9 <=? c) && (c <=? 13)))%N.
Definition numstart (c:N) : bool := isplusmn c || isdigit c || ischr 46%N c || isxdigit c.
Lemma numstart_nospace c : numstart c = true -> isspace c = false.
Proof.
  intro H. cbv [numstart isplusmn isdigit ischr isxdigit inr] in H. unfold isspace.
  destruct (N.eqb_spec c 32), (N.leb_spec 9 c), (N.leb_spec c 13); cbn [andb orb]; try reflexivity; exfalso;
  repeat rewrite ?orb_true_iff, ?andb_true_iff, ?N.eqb_eq, ?N.leb_le in H; lia.
Qed.

Lemma used_same_l (l:bytes) : used l l = 0. Proof. unfold used. lia. Qed.

Lemma decimal_first l : ret (lex_decimal l) <> 0 -> exists c r, l = c :: r /\ numstart c = true.
Proof.
  intro H. destruct l as [|c r]; [exfalso; apply H; reflexivity|]. exists c, r. split; [reflexivity|].
  unfold numstart. destruct (isplusmn c) eqn:E1; [reflexivity|]. destruct (isdigit c) eqn:E2; [reflexivity|].
  destruct (ischr 46%N c) eqn:E3; [reflexivity|]. exfalso. apply H.
  unfold lex_decimal, skip_mantisa. cbn [skip_opt]. rewrite E1. cbn [skip_while]. rewrite E2. cbn [starts]. rewrite E3.
  rewrite used_same_l. cbn [Z.eqb]. rewrite used_same_l. reflexivity.
Qed.

Lemma skip_while_progress p (l:bytes) : 0 < used l (skip_while p l) -> exists x r, l = x :: r /\ p x = true.
Proof.
  destruct l as [|x r]; cbn [skip_while]; [rewrite used_same_l; lia|].
  destruct (p x) eqn:E; [intros _; eauto|rewrite used_same_l; lia].
Qed.
Lemma qdigit_numstart x : isqdigit x = true -> numstart x = true.
Proof.
  intro H. unfold numstart. replace (isdigit x) with true; [now rewrite orb_true_r|].
  unfold isqdigit, isdigit, inr in *. apply andb_true_iff in H as [H1 H2]. rewrite H1. symmetry. apply N.leb_le. apply N.leb_le in H2. lia.
Qed.
Lemma bdigit_numstart x : isbdigit x = true -> numstart x = true.
Proof.
  intro H. unfold numstart. replace (isdigit x) with true; [now rewrite orb_true_r|].
  unfold isbdigit, isdigit, inr in *. apply andb_true_iff in H as [H1 H2]. rewrite H1. symmetry. apply N.leb_le. apply N.leb_le in H2. lia.
Qed.
Lemma xdigit_numstart x : isxdigit x = true -> numstart x = true.
Proof. intro H. unfold numstart. rewrite H. apply orb_true_r. Qed.

Lemma nondecimal_first l : ret (lex_nondecimal l) <> 0 ->
  ptr (tok (lex_nondecimal l)) = 2 /\ exists a b x r, l = a :: b :: x :: r /\ numstart x = true.
Proof.
  unfold lex_nondecimal. destruct (starts (ischr 35%N) l) eqn:Es; [|intro H; exfalso; apply H; reflexivity].
  destruct l as [|a l']; [discriminate|]. cbn [tl]. destruct l' as [|b r0]; [intro H; exfalso; apply H; reflexivity|].
  assert (G : forall t p, (forall x, p x = true -> numstart x = true) ->
     ret (let r' := skip_while p r0 in let n := used r0 r' in if 0 <? n then mk t 2 n (n + 2) (n + 2) else mk T_UNKNOWN 0 0 0 0) <> 0 ->
     ptr (tok (let r' := skip_while p r0 in let n := used r0 r' in if 0 <? n then mk t 2 n (n + 2) (n + 2) else mk T_UNKNOWN 0 0 0 0)) = 2 /\
     exists a0 b0 x r, a :: b :: r0 = a0 :: b0 :: x :: r /\ numstart x = true).
  { intros t p Hp. cbv zeta. destruct (Z.ltb_spec 0 (used r0 (skip_while p r0))) as [Hn|Hn]; [|intro H; exfalso; apply H; reflexivity].
    intros _. split; [reflexivity|]. destruct (skip_while_progress p r0 Hn) as (x & r & -> & Hx). exists a, b, x, r. split; [reflexivity|apply Hp, Hx]. }
  destruct (isH b); [apply G, xdigit_numstart|]. destruct (isQ b); [apply G, qdigit_numstart|]. destruct (isB b); [apply G, bdigit_numstart|].
  intro H; exfalso; apply H; reflexivity.
Qed.

Definition is_num (t:ttype) : bool := match t with T_HEXNUM | T_OCTNUM | T_BINNUM | T_DECIMAL | T_DECIMAL_SUFFIX => true | _ => false end.
Lemma chardata_notnum l : is_num (ty (tok (lex_chardata l))) = false.
Proof. unfold lex_chardata. cbv zeta. destruct (0 <? _); reflexivity. Qed.
Lemma string_notnum l : is_num (ty (tok (lex_string l))) = false.
Proof. unfold lex_string. repeat match goal with |- context [if ?b then _ else _] => destruct b end; reflexivity. Qed.
Lemma expr_notnum l : is_num (ty (tok (lex_expr l))) = false.
Proof. unfold lex_expr. repeat match goal with |- context [if ?b then _ else _] => destruct b end; reflexivity. Qed.
Lemma block_notnum l : is_num (ty (tok (lex_block l))) = false.
Proof.
  unfold lex_block. destruct (starts _ l); [|reflexivity]. destruct (tl l) as [|c r]; [reflexivity|].
  destruct (_ && _); [|reflexivity]. destruct (block_digits _ r 0) as [[r' remd] blen]. destruct remd; [destruct (_ <=? _); reflexivity|destruct (iseos r'); reflexivity].
Qed.

Definition getb (l:bytes) (i:Z) : N := nth (Z.to_nat i) l 0%N.
Lemma getb_drop (l:bytes) off k : 0 <= off -> 0 <= k -> getb l (off + k) = getb (drop off l) k.
Proof.
  intros Ho Hk. unfold getb, drop. replace (Z.to_nat (off + k)) with (Z.to_nat off + Z.to_nat k)%nat by lia.
  generalize (Z.to_nat off) as a. intro a. revert l. induction a as [|a IH]; intro l; [reflexivity|].
  destruct l as [|x l]; cbn [Nat.add skipn nth]; [destruct (Z.to_nat k); reflexivity|apply IH].
Qed.

(* the token of a data item lies inside the item, and a number token starts with a sign, a digit or a point *)
Lemma ppd_tok l : let r := parse_program_data l in
  0 <= ptr (tok r) /\ 0 <= len (tok r) /\ ptr (tok r) + len (tok r) <= Z.of_nat (length l) /\
  (is_num (ty (tok r)) = true -> ptr (tok r) < Z.of_nat (length l) /\ numstart (getb l (ptr (tok r))) = true).
Proof.
  unfold parse_program_data.
  pose proof (ws_inside l) as (Hw0 & _). set (w0 := lex_ws l) in *. set (l0 := drop (disp w0) l).
  assert (Hl0 : Z.of_nat (length l0) = Z.of_nat (length l) - disp w0) by (apply drop_length; exact Hw0).
  (* a recogniser result inside l0, finished *)
  assert (Fin : forall r, inside l0 r ->
     (is_num (ty (tok r)) = true -> ptr (tok r) < Z.of_nat (length l0) /\ numstart (getb l0 (ptr (tok r))) = true) ->
     let w1 := lex_ws (drop (disp r) l0) in
     let t := {| ty := ty (tok r); ptr := ptr (tok r) + disp w0; len := len (tok r) |} in
     0 <= ptr t /\ 0 <= len t /\ ptr t + len t <= Z.of_nat (length l) /\
     (is_num (ty t) = true -> ptr t < Z.of_nat (length l) /\ numstart (getb l (ptr t)) = true)).
  { intros r (Hd & Hp & Hn & Hpl) Hnum. cbn [ptr len ty]. repeat split; try lia.
    - destruct (Hnum H) as [A _]. lia.
    - destruct (Hnum H) as [_ B]. rewrite Z.add_comm. rewrite getb_drop by lia. exact B. }
  destruct (negb (ret (lex_nondecimal l0) =? 0)) eqn:E1.
  { cbn [tok]. apply Fin; [apply nondecimal_inside|]. intros _.
    destruct (nondecimal_first l0) as (Hp & a & b & x & r & El & Hx); [intro E; rewrite E in E1; discriminate|].
    rewrite Hp. rewrite El. cbn [length]. split; [lia|exact Hx]. }
  destruct (negb (ret (lex_chardata l0) =? 0)).
  { cbn [tok]. apply Fin; [apply chardata_inside|]. rewrite chardata_notnum. discriminate. }
  destruct (negb (ret (lex_decimal l0) =? 0)) eqn:E3.
  { destruct (decimal_first l0) as (c & r & El & Hc); [intro E; rewrite E in E3; discriminate|].
    pose proof (decimal_inside l0) as (H3 & Hp3 & Hlen3 & Hpl3).
    set (r3 := lex_decimal l0) in *. set (lw := drop (disp r3) l0).
    assert (Hlw : Z.of_nat (length lw) = Z.of_nat (length l0) - disp r3) by (apply drop_length; exact H3).
    pose proof (ws_inside lw) as (Hw & _). set (w := lex_ws lw) in *.
    pose proof (suffix_inside (drop (disp w) lw)) as (Hs & _). rewrite drop_length in Hs by exact Hw.
    assert (Hd : len (tok r3) = disp r3) by (subst r3; unfold lex_decimal; destruct (skip_mantisa l0); reflexivity).
    assert (Hp0 : ptr (tok r3) = 0) by (subst r3; unfold lex_decimal; destruct (skip_mantisa l0); reflexivity).
    assert (Hsf : ret (lex_suffix (drop (disp w) lw)) = disp (lex_suffix (drop (disp w) lw))).
    { unfold lex_suffix. match goal with |- context [if ?c then _ else _] => destruct c end; reflexivity. }
    assert (Hfirst : 0 < Z.of_nat (length l0) /\ numstart (getb l0 0) = true) by (rewrite El; cbn [length]; split; [lia|exact Hc]).
    destruct (0 <? ret (lex_suffix (drop (disp w) lw))).
    - cbn [tok ty ptr len]. repeat split; try lia. rewrite Z.add_comm, getb_drop by lia. apply Hfirst.
    - cbn [tok ty ptr len]. rewrite Hp0. repeat split; try lia. rewrite Z.add_comm, getb_drop by lia. apply Hfirst. }
  destruct (negb (ret (lex_string l0) =? 0)).
  { cbn [tok]. apply Fin; [apply string_inside|]. rewrite string_notnum. discriminate. }
  destruct (negb (ret (lex_block l0) =? 0)).
  { cbn [tok]. apply Fin; [apply block_inside|]. rewrite block_notnum. discriminate. }
  pose proof (block_inside l0) as (H5 & _). set (r5 := lex_block l0) in *.
  pose proof (expr_inside (drop (disp r5) l0)) as (H6 & Hp6 & Hn6 & Hpl6). rewrite drop_length in H6, Hpl6 by exact H5.
  cbn [tok ty ptr len]. rewrite expr_notnum. repeat split; try lia; discriminate.
Qed.

(* ---------- the data region of a unit lies inside the unit ---------- *)
Lemma ppd_ret_le l : 0 <= ret (parse_program_data l) <= disp (parse_program_data l).
Proof.
  unfold parse_program_data.
  pose proof (ws_inside l) as (Hw0 & _). set (w0 := lex_ws l) in *. set (l0 := drop (disp w0) l).
  assert (Fin : forall r, 0 <= ret r <= disp r ->
     let w1 := lex_ws (drop (disp r) l0) in 0 <= ret r + (disp w0 + disp w1) <= disp w0 + disp r + disp w1).
  { intros r Hr w1. pose proof (ws_inside (drop (disp r) l0)) as (Hw1 & _). fold w1 in Hw1. lia. }
  assert (R1 : 0 <= ret (lex_nondecimal l0) <= disp (lex_nondecimal l0)).
  { unfold lex_nondecimal. destruct (starts _ l0); [|cbn; lia]. destruct (tl l0) as [|c r]; [cbn; lia|].
    assert (G : forall t p, 0 <= ret (let r' := skip_while p r in let n := used r r' in if 0 <? n then mk t 2 n (n + 2) (n + 2) else mk T_UNKNOWN 0 0 0 0)
                            <= disp (let r' := skip_while p r in let n := used r r' in if 0 <? n then mk t 2 n (n + 2) (n + 2) else mk T_UNKNOWN 0 0 0 0)).
    { intros t p. cbv zeta. destruct (Z.ltb_spec 0 (used r (skip_while p r))); cbn; lia. }
    destruct (isH c); [apply G|]. destruct (isQ c); [apply G|]. destruct (isB c); [apply G|cbn; lia]. }
  destruct (negb (ret (lex_nondecimal l0) =? 0)); [cbn [ret disp]; apply Fin; exact R1|].
  assert (R2 : 0 <= ret (lex_chardata l0) <= disp (lex_chardata l0)).
  { pose proof (chardata_inside l0) as (H & _). unfold lex_chardata in *. cbv zeta in *. cbn [mk ret disp] in *. lia. }
  destruct (negb (ret (lex_chardata l0) =? 0)); [cbn [ret disp]; apply Fin; exact R2|].
  pose proof (decimal_inside l0) as (H3 & _).
  assert (R3 : ret (lex_decimal l0) = disp (lex_decimal l0)) by (unfold lex_decimal; destruct (skip_mantisa l0); reflexivity).
  destruct (negb (ret (lex_decimal l0) =? 0)).
  { set (r3 := lex_decimal l0) in *. set (lw := drop (disp r3) l0).
    pose proof (ws_inside lw) as (Hw & _). set (w := lex_ws lw) in *.
    pose proof (suffix_inside (drop (disp w) lw)) as (Hs & _).
    assert (Hd : len (tok r3) = disp r3) by (subst r3; unfold lex_decimal; destruct (skip_mantisa l0); reflexivity).
    assert (Hsf : ret (lex_suffix (drop (disp w) lw)) = disp (lex_suffix (drop (disp w) lw))).
    { unfold lex_suffix. match goal with |- context [if ?c then _ else _] => destruct c end; reflexivity. }
    destruct (0 <? ret (lex_suffix (drop (disp w) lw))).
    - cbn [ret disp tok len]. set (n := len (tok r3) + disp w + ret (lex_suffix (drop (disp w) lw))).
      pose proof (ws_inside (drop n l0)) as (Hw1 & _). lia.
    - cbn [ret disp]. pose proof (ws_inside (drop (disp r3 + disp w) l0)) as (Hw1 & _). lia. }
  assert (R4 : 0 <= ret (lex_string l0) <= disp (lex_string l0)).
  { pose proof (string_inside l0) as (H & _). unfold lex_string in *.
    repeat match goal with |- context [if ?b then _ else _] => destruct b end; cbn [mk ret disp] in *; lia. }
  destruct (negb (ret (lex_string l0) =? 0)); [cbn [ret disp]; apply Fin; exact R4|].
  pose proof (block_inside l0) as (H5 & _).
  assert (R5 : 0 <= ret (lex_block l0) <= disp (lex_block l0)).
  { revert H5. unfold lex_block. destruct (starts _ l0); [|cbn; lia]. destruct (tl l0) as [|c r]; [cbn; lia|].
    destruct (_ && _); [|cbn; lia]. destruct (block_digits _ r 0) as [[r' remd] blen]. destruct remd.
    - destruct (_ <=? _); cbn [mk ret disp]; lia.
    - destruct (iseos r'); cbn [mk ret disp]; lia. }
  destruct (negb (ret (lex_block l0) =? 0)); [cbn [ret disp]; apply Fin; exact R5|].
  set (r5 := lex_block l0) in *.
  pose proof (expr_inside (drop (disp r5) l0)) as (H6 & _).
  assert (R6 : 0 <= ret (lex_expr (drop (disp r5) l0)) <= disp (lex_expr (drop (disp r5) l0))).
  { unfold lex_expr in *. repeat match goal with |- context [if ?b then _ else _] => destruct b end; cbn [mk ret disp] in *; lia. }
  cbn [ret disp]. set (r6 := lex_expr (drop (disp r5) l0)) in *.
  pose proof (ws_inside (drop (disp r5 + disp r6) l0)) as (Hw1 & _). lia.
Qed.

Lemma all_data_len fuel l : forall pos tlen count, 0 <= tlen <= pos -> 0 <= pos <= Z.of_nat (length l) ->
  0 <= ad_len (all_data_loop fuel l pos tlen count) <= ad_disp (all_data_loop fuel l pos tlen count).
Proof.
  induction fuel as [|f IH]; intros pos tlen count Ht Hp; cbn [all_data_loop]; [cbn; lia|].
  pose proof (ppd_disp (drop pos l)) as Hr. rewrite drop_length in Hr by exact Hp.
  pose proof (ppd_ret_le (drop pos l)) as Hrr.
  set (r := parse_program_data (drop pos l)) in *.
  destruct (ty (tok r)); try (cbn [ad_len ad_disp]; lia);
  (pose proof (chr_inside T_COMMA 44%N (drop (pos + disp r) l)) as (Hc & _); fold lex_comma in Hc;
   rewrite drop_length in Hc by lia;
   destruct (Z.eqb_spec (ret (lex_comma (drop (pos + disp r) l))) 0) as [E|E]; [cbn [ad_len ad_disp]; lia|];
   assert (Hd1 : disp (lex_comma (drop (pos + disp r) l)) = 1)
     by (revert E; unfold lex_comma, lex_chr; destruct (starts _ _); cbn; [reflexivity|congruence]);
   apply IH; lia).
Qed.

Lemma data_inside_unit l : let u := detect_unit l in
  0 <= ptr (u_data u) /\ 0 <= len (u_data u) /\ ptr (u_data u) + len (u_data u) <= Z.of_nat (length l).
Proof.
  unfold detect_unit.
  pose proof (ws_inside l) as (Hw0 & _). set (w0 := disp (lex_ws l)) in *.
  pose proof (header_inside (drop w0 l)) as (Hh & _). rewrite drop_length in Hh by exact Hw0. set (h := lex_header (drop w0 l)) in *.
  set (p1 := w0 + disp h).
  pose proof (ws_inside (drop p1 l)) as (Hw1 & _). rewrite drop_length in Hw1 by (subst p1; lia). set (w1 := disp (lex_ws (drop p1 l))) in *.
  set (p2 := p1 + w1).
  assert (Hp2 : 0 <= p2 <= Z.of_nat (length l)) by (subst p2 p1; lia).
  set (dnp := if 0 <? w1 then _ else _).
  assert (Hd : 0 <= ptr (fst (fst dnp)) /\ 0 <= len (fst (fst dnp)) /\ ptr (fst (fst dnp)) + len (fst (fst dnp)) <= Z.of_nat (length l)).
  { subst dnp. destruct (0 <? w1); cbn [fst ptr len]; [|lia].
    unfold parse_all_data.
    pose proof (all_data_disp (S (length (drop p2 l))) (drop p2 l) 0 0 0) as Ha. rewrite drop_length in Ha by exact Hp2. specialize (Ha ltac:(lia)).
    pose proof (all_data_len (S (length (drop p2 l))) (drop p2 l) 0 0 0 ltac:(lia)) as Hb. rewrite drop_length in Hb by exact Hp2. specialize (Hb ltac:(lia)).
    lia. }
  destruct dnp as [[data n] p3]. cbn [fst] in Hd.
  match goal with |- context [if ?b then _ else _] => destruct b end; cbn [u_data ptr len]; [lia|exact Hd].
Qed.
