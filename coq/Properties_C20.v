(* C20 -- property theorems only: every statement is closed by `exact` on a lemma proved elsewhere.
   Statements are pinned by coq/statements/C20.json; ./check compares. *)
From Coq Require Import Bool List NArith ZArith Lia.
From M Require HeapProof.
From M Require QStatic.
From M Require SystErr.
From M Require ErrSpec.
From M Require FifoProof.
From M Require FmtModel.
From M Require HeapProof.
From M Require QStatic.
Import ListNotations.

Module T_init_inv. Import HeapProof. Local Open Scope bool_scope. Local Open Scope Z_scope.
Local Open Scope bool_scope. Local Open Scope Z_scope.
Theorem C20_init_inv :
  forall size,
  0 < size -> HInv (heap_init size) 0 [].
Proof. exact (@HeapProof.init_inv). Qed.
End T_init_inv.
Definition C20_init_inv := @T_init_inv.C20_init_inv.

Module T_strndup_inv. Import HeapProof. Local Open Scope bool_scope. Local Open Scope Z_scope.
Local Open Scope bool_scope. Local Open Scope Z_scope.
Theorem C20_strndup_inv :
  forall h st ts s n,
  HInv h st ts -> len_ok s n ->
  match heap_strndup h s n with
  | (None, h') => h' = h
  | (Some p, h') => p = wrap (hsize h) (st + Z.of_nat (length (img ts))) /\ good_text (stored_text s n) /\
                    HInv h' st (ts ++ [stored_text s n]) /\ hsize h' = hsize h
  end.
Proof. exact (@HeapProof.strndup_inv). Qed.
End T_strndup_inv.
Definition C20_strndup_inv := @T_strndup_inv.C20_strndup_inv.

Module T_text_at. Import HeapProof. Local Open Scope bool_scope. Local Open Scope Z_scope.
Local Open Scope bool_scope. Local Open Scope Z_scope.
Theorem C20_text_at :
  forall h st ts1 t ts2,
  HInv h st (ts1 ++ t :: ts2) ->
  exists p1 p2, heap_text h (Some (wrap (hsize h) (st + Z.of_nat (length (img ts1))))) = Some (p1, p2) /\
                p1 ++ match p2 with Some x => x | None => [] end = t.
Proof. exact (@HeapProof.text_at). Qed.
End T_text_at.
Definition C20_text_at := @T_text_at.C20_text_at.

Module T_free_first. Import HeapProof. Local Open Scope bool_scope. Local Open Scope Z_scope.
Local Open Scope bool_scope. Local Open Scope Z_scope.
Theorem C20_free_first :
  forall h st t ts,
  HInv h st (t :: ts) ->
  let st' := match ts with [] => 0 | _ => wrap (hsize h) (st + (Z.of_nat (length t) + 1)) end in
  HInv (heap_free h (Some st) false) st' ts /\ hsize (heap_free h (Some st) false) = hsize h.
Proof. exact (@HeapProof.free_first). Qed.
End T_free_first.
Definition C20_free_first := @T_free_first.C20_free_first.

Module T_free_last. Import HeapProof. Local Open Scope bool_scope. Local Open Scope Z_scope.
Local Open Scope bool_scope. Local Open Scope Z_scope.
Theorem C20_free_last :
  forall h st ts t,
  HInv h st (ts ++ [t]) ->
  let st' := match ts with [] => 0 | _ => st end in
  let hf := heap_free h (Some (wrap (hsize h) (st + Z.of_nat (length (img ts))))) true in
  HInv hf st' ts /\ hsize hf = hsize h.
Proof. exact (@HeapProof.free_last). Qed.
End T_free_last.
Definition C20_free_last := @T_free_last.C20_free_last.

Module T_empty_reusable. Import HeapProof. Local Open Scope bool_scope. Local Open Scope Z_scope.
Local Open Scope bool_scope. Local Open Scope Z_scope.
Theorem C20_empty_reusable :
  forall h st s n,
  HInv h st [] -> good_text (stored_text s n) ->
  Z.of_nat (length (stored_text s n)) + 1 <= hsize h -> exists p h', heap_strndup h s n = (Some p, h').
Proof. exact (@HeapProof.empty_reusable). Qed.
End T_empty_reusable.
Definition C20_empty_reusable := @T_empty_reusable.C20_empty_reusable.

Module T_init_static. Import QStatic. Local Open Scope bool_scope. Local Open Scope Z_scope.
Import FifoProof HeapProof. Local Open Scope bool_scope. Local Open Scope Z_scope.
Theorem C20_init_static :
  forall N H,
  0 < N -> 0 < H -> QH {| q := fifo_init N; hp := heap_init H |} 0 [] /\ Sized N H {| q := fifo_init N; hp := heap_init H |}.
Proof. exact (@QStatic.init_static). Qed.
End T_init_static.
Definition C20_init_static := @T_init_static.C20_init_static.

Module T_add_static. Import QStatic. Local Open Scope bool_scope. Local Open Scope Z_scope.
Import FifoProof HeapProof. Local Open Scope bool_scope. Local Open Scope Z_scope.
Theorem C20_add_static :
  forall s st es code info,
  QH s st es ->
  match info with Some (t, n) => len_ok t n | None => True end ->
  let '(_, s') := error_add s code info in
  exists st' tx, QH s' st' (spec_push (fsize entry (q s)) es code tx) /\ text_or_nothing info tx /\
                 fsize entry (q s') = fsize entry (q s) /\ hsize (hp s') = hsize (hp s).
Proof. exact (@QStatic.add_static). Qed.
End T_add_static.
Definition C20_add_static := @T_add_static.C20_add_static.

Module T_pop_static. Import QStatic. Local Open Scope bool_scope. Local Open Scope Z_scope.
Import FifoProof HeapProof. Local Open Scope bool_scope. Local Open Scope Z_scope.
Theorem C20_pop_static :
  forall s st es,
  QH s st es ->
  let '(code, parts, s') := error_pop_release s in
  match es with
  | [] => code = 0 /\ parts = None /\ QH s' st [] /\ hsize (hp s') = hsize (hp s) /\ fsize entry (q s') = fsize entry (q s)
  | (c, tx) :: r => code = c /\ option_map join parts = tx /\ (exists st', QH s' st' r) /\ hsize (hp s') = hsize (hp s) /\ fsize entry (q s') = fsize entry (q s)
  end.
Proof. exact (@QStatic.pop_static). Qed.
End T_pop_static.
Definition C20_pop_static := @T_pop_static.C20_pop_static.

Module T_clear_static. Import QStatic. Local Open Scope bool_scope. Local Open Scope Z_scope.
Import FifoProof HeapProof. Local Open Scope bool_scope. Local Open Scope Z_scope.
Theorem C20_clear_static :
  forall s st es,
  QH s st es -> exists st', QH (error_clear s) st' [] /\
  fsize entry (q (error_clear s)) = fsize entry (q s) /\ hsize (hp (error_clear s)) = hsize (hp s).
Proof. exact (@QStatic.clear_static). Qed.
End T_clear_static.
Definition C20_clear_static := @T_clear_static.C20_clear_static.

Module T_step_static. Import QStatic. Local Open Scope bool_scope. Local Open Scope Z_scope.
Import FifoProof HeapProof. Local Open Scope bool_scope. Local Open Scope Z_scope.
Theorem C20_step_static :
  forall N H s st es o,
  QH s st es -> Sized N H s -> op_ok o ->
  exists st' es', QH (qstep s o) st' es' /\ Sized N H (qstep s o) /\ spec_step N es o es'.
Proof. exact (@QStatic.step_static). Qed.
End T_step_static.
Definition C20_step_static := @T_step_static.C20_step_static.

Module T_run_static. Import QStatic. Local Open Scope bool_scope. Local Open Scope Z_scope.
Import FifoProof HeapProof. Local Open Scope bool_scope. Local Open Scope Z_scope.
Theorem C20_run_static :
  forall N H ops,
  forall s st es, QH s st es -> Sized N H s -> Forall op_ok ops ->
  exists st' es', QH (fold_left qstep ops s) st' es' /\ Sized N H (fold_left qstep ops s) /\ spec_run N es ops es'.
Proof. exact (@QStatic.run_static). Qed.
End T_run_static.
Definition C20_run_static := @T_run_static.C20_run_static.

Module T_empty_queue_reusable. Import QStatic. Local Open Scope bool_scope. Local Open Scope Z_scope.
Import FifoProof HeapProof. Local Open Scope bool_scope. Local Open Scope Z_scope.
Theorem C20_empty_queue_reusable :
  forall s st t n,
  QH s st [] -> good_text (stored_text t n) ->
  Z.of_nat (length (stored_text t n)) + 1 <= hsize (hp s) -> exists p h', heap_strndup (hp s) t n = (Some p, h').
Proof. exact (@QStatic.empty_queue_reusable). Qed.
End T_empty_queue_reusable.
Definition C20_empty_queue_reusable := @T_empty_queue_reusable.C20_empty_queue_reusable.

Module T_systerr_static. Import SystErr. Local Open Scope bool_scope. Local Open Scope Z_scope.
Import FifoProof HeapProof QStatic FmtModel ErrSpec. Local Open Scope Z_scope.
Theorem C20_systerr_static :
  forall s st es,
  QH s st es ->
  let '(s', out) := Glue.hq_systerr s in
  match es with
  | [] => out = result_error 0 (Glue.descz 0) None Generated.gen_desc_max /\ QH s' st []
  | (c, tx) :: r => out = result_error c (Glue.descz c) tx Generated.gen_desc_max /\ exists st', QH s' st' r
  end.
Proof. exact (@SystErr.systerr_static). Qed.
End T_systerr_static.
Definition C20_systerr_static := @T_systerr_static.C20_systerr_static.

