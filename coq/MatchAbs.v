From Coq Require Import Bool List Lia.
Import ListNotations.
Local Open Scope bool_scope.

Section Abs.
Variable seg : Type.
Record item := { ok : seg -> bool; opt : bool }.

(* specification: choose any subset of the optional items, in order *)
Fixpoint accepts (its:list item) (ss:list seg) : bool :=
  match its with
  | [] => match ss with [] => true | _ => false end
  | it::its' =>
      (match ss with s::ss' => ok it s && accepts its' ss' | [] => false end)
      || (opt it && accepts its' ss)
  end.

(* greedy matcher = abstract view of matchCommand: commit on match, skip optional on mismatch *)
Fixpoint greedy (its:list item) (ss:list seg) : bool :=
  match its with
  | [] => match ss with [] => true | _ => false end
  | it::its' =>
      match ss with
      | [] => forallb opt its
      | s::ss' => if ok it s then greedy its' ss' else if opt it then greedy its' ss else false
      end
  end.

(* first-set: items that may consume the next segment: up to and including the first mandatory *)
Fixpoint first_ok (its:list item) (s:seg) : bool :=
  match its with
  | [] => false
  | it::its' => ok it s || (opt it && first_ok its' s)
  end.

Fixpoint unamb (its:list item) : Prop :=
  match its with
  | [] => True
  | it::its' => (opt it = true -> forall s, ok it s = true -> first_ok its' s = false) /\ unamb its'
  end.

Lemma accepts_first its s ss : accepts its (s::ss) = true -> first_ok its s = true.
Proof.
  induction its as [|it its IH]; cbn; [discriminate|].
  intros H. apply orb_true_iff in H as [H|H].
  - apply andb_true_iff in H as [H _]. now rewrite H.
  - apply andb_true_iff in H as [Ho H]. rewrite Ho, (IH H). now rewrite orb_true_r.
Qed.

Lemma accepts_nil its : accepts its [] = forallb opt its.
Proof. induction its as [|it its IH]; cbn; [reflexivity|]. now rewrite IH. Qed.

Theorem greedy_accepts its : unamb its -> forall ss, greedy its ss = accepts its ss.
Proof.
  induction its as [|it its IH]; intros U ss; [reflexivity|].
  destruct U as [U1 U2]. destruct ss as [|s ss].
  - cbn [greedy]. now rewrite accepts_nil.
  - cbn [greedy accepts]. destruct (ok it s) eqn:Hok.
    + rewrite IH by assumption. cbn [andb].
      destruct (opt it) eqn:Ho; cbn [andb]; [|now rewrite orb_false_r].
      destruct (accepts its (s::ss)) eqn:Ha; [|now rewrite orb_false_r].
      apply accepts_first in Ha. rewrite (U1 eq_refl s Hok) in Ha. discriminate.
    + cbn [andb orb]. destruct (opt it); cbn [andb]; [now apply IH|reflexivity].
Qed.
End Abs.
Print Assumptions greedy_accepts.
