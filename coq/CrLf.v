(* C08 with carriage returns.  A message may end with LF, CR or CR LF.  When a CR LF pair is cut between two input calls, the
   first call executes the message at the CR and the LF arrives as an empty message of its own; in one call the pair is one
   terminator.  The two deliveries then differ in scratch fields only (relation E of C09: command table, buffer, error queue,
   trace and first_output agree).  Part 1: SCPI_Parse of "message CR LF" is SCPI_Parse of "message CR". *)
From Coq Require Import Bool List NArith ZArith Lia.
From M Require LexModel MatchModel FmtModel LexBounds LexCut InputInv Dispatch UnitGeom ParseLocal Isolation EmptyMsg.
From M Require Import ParserModel Chunk Fuel Framing2 MultiMsg Isolation.
Import ListNotations.
Local Open Scope Z_scope.

(* one iteration of the unit loop as a function of what the unit scanner reported *)
Definition body_u (c:ctx) (off:Z) (prev:option (Z*Z)) (result:bool) (d:Z -> bytes) (h dd:LexModel.token) (r:Z) : ctx * option (Z*Z) * bool :=
  match LexModel.ty h with
  | LexModel.T_INVALID => (error_push c (-101) None, prev, false)
  | _ =>
    if 0 <? LexModel.len h then
      let '(m1, hp, hl) := compose (mem c) prev (off + LexModel.ptr h) (LexModel.len h) in
      let c' := upd_mem c m1 in
      match find_cmd c' (slice m1 hp hl) with
      | Some e =>
          let c'' := upd_unit c' e (off + LexModel.ptr dd) (LexModel.len dd) hp hl in
          let '(c3, res) := process_command c'' d in
          (c3, Some (hp, hl), result && res)
      | None =>
          let r2 := trim_crlf m1 off (Z.to_nat r) in
          (error_push c' (-113) (Some (dropm m1 off, r2)), Some (hp, hl), false)
      end
    else (c, prev, result)
  end.
Lemma loop_body_u c off len prev result d : loop_body c off len prev result d =
  (let u := LexModel.detect_unit (slice (mem c) off len) in
   let '(c1, p1, r1) := body_u c off prev result d (LexModel.u_hdr u) (LexModel.u_data u) (LexModel.u_consumed u) in
   (c1, p1, r1, LexModel.u_consumed u)).
Proof. unfold loop_body, body_u. cbv zeta. destruct (LexModel.ty _); reflexivity. Qed.

(* one more byte counted into the unit, when that byte is a line feed behind the header: only the -113 text could notice,
   and it trims line terminators *)
Lemma body_u_r c off prev result d h dd k : 0 <= off -> 0 <= k -> ParseLocal.PrevOK off prev ->
  0 <= LexModel.ptr h -> LexModel.ptr h + LexModel.len h <= k -> off + k < Z.of_nat (length (mem c)) ->
  getm (mem c) (off + k) = 10%N ->
  body_u c off prev result d h dd (k + 1) = body_u c off prev result d h dd k.
Proof.
  intros Hoff Hk Hprev Hp Hin Hfit Hlf. unfold body_u.
  assert (G : (if 0 <? LexModel.len h then
      let '(m1, hp, hl) := compose (mem c) prev (off + LexModel.ptr h) (LexModel.len h) in
      let c' := upd_mem c m1 in
      match find_cmd c' (slice m1 hp hl) with
      | Some e => let c'' := upd_unit c' e (off + LexModel.ptr dd) (LexModel.len dd) hp hl in
                  let '(c3, res) := process_command c'' d in (c3, Some (hp, hl), result && res)
      | None => let r2 := trim_crlf m1 off (Z.to_nat (k + 1)) in (error_push c' (-113) (Some (dropm m1 off, r2)), Some (hp, hl), false)
      end else (c, prev, result)) =
     (if 0 <? LexModel.len h then
      let '(m1, hp, hl) := compose (mem c) prev (off + LexModel.ptr h) (LexModel.len h) in
      let c' := upd_mem c m1 in
      match find_cmd c' (slice m1 hp hl) with
      | Some e => let c'' := upd_unit c' e (off + LexModel.ptr dd) (LexModel.len dd) hp hl in
                  let '(c3, res) := process_command c'' d in (c3, Some (hp, hl), result && res)
      | None => let r2 := trim_crlf m1 off (Z.to_nat k) in (error_push c' (-113) (Some (dropm m1 off, r2)), Some (hp, hl), false)
      end else (c, prev, result))).
  { destruct (Z.ltb_spec 0 (LexModel.len h)) as [Hl|Hl]; [|reflexivity].
    assert (Hm1 : getm (fst (fst (compose (mem c) prev (off + LexModel.ptr h) (LexModel.len h)))) (off + k) = 10%N).
    { destruct prev as [[pptr plen]|]; [|cbn [compose fst]; exact Hlf]. destruct Hprev as (P1 & P2 & P3).
      pose proof (ParseLocal.compose_bytes (mem c) pptr plen (off + LexModel.ptr h) (LexModel.len h) P1 ltac:(lia) ltac:(lia) Hl ltac:(lia)) as Hb.
      cbv zeta in Hb. destruct (Hb (off + k) ltac:(lia)) as [Hge _]. rewrite Hge by lia. exact Hlf. }
    destruct (compose (mem c) prev (off + LexModel.ptr h) (LexModel.len h)) as [[m1 hp] hl]. cbn [fst] in Hm1. cbv zeta.
    destruct (find_cmd _ _); [reflexivity|].
    replace (Z.to_nat (k + 1)) with (S (Z.to_nat k)) by lia. cbn [trim_crlf]. rewrite Z2Nat.id by lia. rewrite Hm1. reflexivity. }
  destruct (LexModel.ty h); try exact G. reflexivity.
Qed.

(* the remaining window: bytes without terminator, quote and '#', then CR LF *)
Definition InvW (c:ctx) (off len:Z) : Prop :=
  0 <= off /\ 1 <= len /\ exists s rest', seg s /\ dropm (mem c) off = s ++ 13%N :: 10%N :: rest' /\ Z.of_nat (length s) = len - 1.

Lemma InvW_facts c off len : InvW c off len ->
  exists s rest', seg s /\ Z.of_nat (length s) = len - 1 /\ off + len + 1 <= Z.of_nat (length (mem c)) /\
    slice (mem c) off len = s ++ [13%N] /\ slice (mem c) off (len + 1) = s ++ [13%N; 10%N] /\ getm (mem c) (off + len) = 10%N /\
    dropm (mem c) off = s ++ 13%N :: 10%N :: rest'.
Proof.
  intros (Hoff & Hlen & s & rest' & Hs & Hd & Hl). exists s, rest'. split; [exact Hs|]. split; [exact Hl|].
  assert (Hml : Z.of_nat (length (dropm (mem c) off)) = Z.of_nat (length s) + 2 + Z.of_nat (length rest')) by (rewrite Hd, app_length; cbn [length]; lia).
  unfold dropm in Hml. rewrite skipn_length in Hml.
  split; [lia|]. unfold slice. fold (dropm (mem c) off). rewrite Hd.
  split; [|split; [|split; [|reflexivity]]].
  - replace (Z.to_nat len) with (length s + 1)%nat by lia. rewrite firstn_app_2. reflexivity.
  - replace (Z.to_nat (len + 1)) with (length s + 2)%nat by lia. rewrite firstn_app_2. reflexivity.
  - unfold getm. destruct (Z.ltb_spec (off + len) 0); [lia|]. rewrite Dispatch.nth_hd_skipn.
    replace (Z.to_nat (off + len)) with (Z.to_nat off + Z.to_nat len)%nat by lia. rewrite <- Dispatch.skipn_skipn'.
    fold (dropm (mem c) off). rewrite Hd. replace (Z.to_nat len) with (length s + 1)%nat by lia.
    rewrite skipn_app. rewrite skipn_all2 by lia. replace (length s + 1 - length s)%nat with 1%nat by lia. reflexivity.
Qed.

Lemma seg_plain_or_semi s : seg s -> LexCut.plain s \/ exists a z, s = a ++ 59%N :: z /\ LexCut.plain a /\ seg z.
Proof. apply seg_split. Qed.

Lemma parse_loop_window d fuel : forall c off len prev result, InvW c off len -> ParseLocal.PrevOK off prev ->
  parse_loop fuel c off (len + 1) prev result d = parse_loop fuel c off len prev result d.
Proof.
  induction fuel as [|f IH]; intros c off len prev result HI Hprev; [reflexivity|].
  rewrite !parse_loop_S.
  destruct (InvW_facts c off len HI) as (s & rest' & Hs & Hls & Hfit & Hsl & Hsl1 & Hlf & Hd).
  destruct HI as (Hoff & Hlen & _).
  (* what the iteration on the shorter window does to the buffer and the previous header *)
  pose proof (body_tail c off len prev result d Hoff ltac:(lia) ltac:(lia) Hprev) as Hbt.
  rewrite !loop_body_u in *. cbv zeta in *. rewrite Hsl, Hsl1 in *.
  (* the next window *)
  assert (Hnext : forall c1 r, 1 <= r <= Z.of_nat (length s) -> length (mem c1) = length (mem c) ->
            skipn (Z.to_nat (off + r)) (mem c1) = skipn (Z.to_nat (off + r)) (mem c) -> InvW c1 (off + r) (len - r)).
  { intros c1 r Hr Hl1 Hsk. split; [lia|]. split; [lia|]. exists (skipn (Z.to_nat r) s), rest'. split; [apply seg_skipn, Hs|]. split.
    - unfold dropm. rewrite Hsk. replace (Z.to_nat (off + r)) with (Z.to_nat off + Z.to_nat r)%nat by lia. rewrite <- Dispatch.skipn_skipn'.
      fold (dropm (mem c) off). rewrite Hd. rewrite skipn_app. replace (Z.to_nat r - length s)%nat with O by lia. reflexivity.
    - rewrite skipn_length. lia. }
  destruct (seg_plain_or_semi s Hs) as [Hp|(a & z & Es & Hp & Hz)].
  - (* the unit runs up to the carriage return, or stops at a byte inside s *)
    assert (E1 : LexModel.detect_unit (s ++ [13%N; 10%N]) = LexCut.detect_t s 13%N true)
      by (apply (LexCut.detect_cut s 13%N [10%N] Hp); right; left; reflexivity).
    assert (E0 : LexModel.detect_unit (s ++ [13%N]) = LexCut.detect_t s 13%N false)
      by (apply (LexCut.detect_cut s 13%N [] Hp); right; left; reflexivity).
    rewrite E1, E0 in *.
    destruct (LexCut.detect_t_cr s Hp) as (Eh & Ed & [[C0 C1]|[Eq C0]]).
    + rewrite Eh, Ed, C0, C1 in *.
      unfold LexModel.bytes, LexModel.byte in *.
      replace (Z.of_nat (length s) + 2) with (len + 1) by lia. replace (Z.of_nat (length s) + 1) with len in * by lia.
      pose proof (UnitGeom.header_inside_unit (s ++ [13%N])) as Hg. cbv zeta in Hg. rewrite E0, C0 in Hg.
      assert (Hbu : body_u c off prev result d (LexModel.u_hdr (LexCut.detect_t s 13 false)) (LexModel.u_data (LexCut.detect_t s 13 false)) (len + 1) =
                    body_u c off prev result d (LexModel.u_hdr (LexCut.detect_t s 13 false)) (LexModel.u_data (LexCut.detect_t s 13 false)) len).
      { destruct (LexModel.ty (LexModel.u_hdr (LexCut.detect_t s 13 false))) eqn:Ety;
        try (unfold body_u; rewrite Ety; reflexivity);
        (specialize (Hg ltac:(discriminate)); destruct Hg as (G1 & G2 & G3); apply body_u_r; try assumption; unfold LexModel.bytes, LexModel.byte in *; lia). }
      rewrite Hbu. destruct (body_u c off prev result d _ _ len) as [[c1 p1] r1].
      destruct (Z.ltb_spec (len + 1) (len + 1)); [lia|]. destruct (Z.ltb_spec len len); [lia|]. reflexivity.
    + rewrite Eq in *. destruct (body_u c off prev result d _ _ _) as [[c1 p1] r1]. destruct Hbt as (_ & Hl1 & Hsk & Hp1).
      unfold LexModel.bytes, LexModel.byte in *.
      set (r := LexModel.u_consumed (LexCut.detect_t s 13 false)) in *.
      destruct (Z.ltb_spec r (len + 1)); [|lia]. destruct (Z.ltb_spec r len); [|lia].
      replace (len + 1 - r) with (len - r + 1) by lia. apply IH; [apply Hnext; assumption|exact Hp1].
  - (* the unit ends at a ';' inside s *)
    subst s. rewrite <- !app_assoc in *. cbn [app] in *.
    assert (E1 : LexModel.detect_unit (a ++ 59%N :: z ++ [13%N; 10%N]) = LexCut.detect_t a 59%N false).
    { rewrite <- (LexCut.detect_t_flag a 59%N (LexModel.starts (LexModel.ischr 10%N) (z ++ [13%N; 10%N])) false ltac:(discriminate)).
      apply (LexCut.detect_cut a 59%N (z ++ [13%N; 10%N]) Hp). right; right; reflexivity. }
    assert (E0 : LexModel.detect_unit (a ++ 59%N :: z ++ [13%N]) = LexCut.detect_t a 59%N false).
    { rewrite <- (LexCut.detect_t_flag a 59%N (LexModel.starts (LexModel.ischr 10%N) (z ++ [13%N])) false ltac:(discriminate)).
      apply (LexCut.detect_cut a 59%N (z ++ [13%N]) Hp). right; right; reflexivity. }
    rewrite E1, E0 in *.
    destruct (body_u c off prev result d _ _ _) as [[c1 p1] r1]. destruct Hbt as (_ & Hl1 & Hsk & Hp1).
    assert (Hr : 1 <= LexModel.u_consumed (LexCut.detect_t a 59 false) <= Z.of_nat (length a) + 1).
    { destruct (LexCut.detect_t_shape a 59%N false Hp) as [[_ C]|[_ [_ C]]]; cbn [N.eqb Pos.eqb andb] in C; ulia. }
    set (r := LexModel.u_consumed (LexCut.detect_t a 59 false)) in *.
    unfold LexModel.bytes, LexModel.byte in *. rewrite app_length in Hls. cbn [length] in Hls.
    destruct (Z.ltb_spec r (len + 1)); [|lia]. destruct (Z.ltb_spec r len); [|lia].
    replace (len + 1 - r) with (len - r + 1) by lia. apply IH; [|exact Hp1].
    apply (Hnext c1 r); try assumption. rewrite app_length. cbn [length]. lia.
Qed.

Theorem scpi_parse_crlf d c a0 rest : mem c = a0 ++ 13%N :: 10%N :: rest -> seg a0 ->
  scpi_parse c (Z.of_nat (length a0) + 2) d = scpi_parse c (Z.of_nat (length a0) + 1) d.
Proof.
  intros Hm Ha0. unfold scpi_parse. set (c0 := upd_out c true 0 (arb_rem c)). set (n := Z.of_nat (length a0) + 1).
  replace (Z.of_nat (length a0) + 2) with (n + 1) by (subst n; lia).
  assert (HI : InvW c0 0 n).
  { split; [lia|]. split; [subst n; lia|]. exists a0, rest. split; [exact Ha0|]. split; [subst c0; cbn [mem upd_out]; rewrite Hm; reflexivity|subst n; lia]. }
  rewrite (parse_loop_window d (S (Z.to_nat (n + 1))) c0 0 n None true HI I).
  assert (Hlen : Z.of_nat (length (mem c0)) = Z.of_nat (length a0) + 2 + Z.of_nat (length rest))
    by (subst c0; cbn [mem upd_out]; rewrite Hm, app_length; cbn [length]; lia).
  replace (S (Z.to_nat (n + 1))) with (S (Z.to_nat n) + 1)%nat by (subst n; lia).
  rewrite (parse_loop_fuel 1 (S (Z.to_nat n)) c0 0 n None true d) by (try exact I; subst n; lia). reflexivity.
Qed.
Print Assumptions scpi_parse_crlf.

(* ---------- Part 2: streams with LF, CR and CR LF terminators ---------- *)
Definition okc' (c:N) : bool := negb ((c =? 34) || (c =? 39) || (c =? 35))%N.
Definition okstream' (s:bytes) : Prop := Forall (fun c => okc' c = true) s.

Lemma ok_split' s : okstream' s ->
  seg s \/ exists a0 tm rest, s = a0 ++ tm :: rest /\ seg a0 /\ (tm = 10%N \/ tm = 13%N) /\ okstream' rest.
Proof.
  induction s as [|c s IH]; intro H; [left; constructor|]. inversion H as [|? ? Hc Hs]; subst.
  destruct (N.eqb_spec c 10) as [->|N10]; [right; exists [], 10%N, s; repeat split; [constructor|left; reflexivity|exact Hs]|].
  destruct (N.eqb_spec c 13) as [->|N13]; [right; exists [], 13%N, s; repeat split; [constructor|right; reflexivity|exact Hs]|].
  assert (Hseg : segc c = true).
  { unfold segc. unfold okc' in Hc. apply N.eqb_neq in N10, N13. rewrite N10, N13. exact Hc. }
  destruct (IH Hs) as [Hp|(a & tm & rest & -> & Hp & Htm & Hr)].
  - left. constructor; assumption.
  - right. exists (c :: a), tm, rest. repeat split; try assumption. constructor; assumption.
Qed.
Lemma okstream'_app a b : okstream' (a ++ b) -> okstream' a /\ okstream' b.
Proof. unfold okstream'. intro H. apply Forall_app in H. exact H. Qed.

Lemma E_sym c c' : E c c' -> E c' c.
Proof. unfold E. intros (A1 & A2 & A3 & A4 & A5 & A6 & A7 & A8). repeat split; congruence. Qed.
Lemma E_trans a b c : E a b -> E b c -> E a c.
Proof. unfold E. intros (A1 & A2 & A3 & A4 & A5 & A6 & A7 & A8) (B1 & B2 & B3 & B4 & B5 & B6 & B7 & B8). repeat split; congruence. Qed.

Lemma first_output_after_parse c n d : first_output (fst (scpi_parse c n d)) = true.
Proof. unfold scpi_parse. destruct (parse_loop _ _ 0 n None true d) as [c1 res]. destruct (negb (first_output c1)); reflexivity. Qed.

(* a line feed on its own *)
Lemma lone_lf c0 d : first_output c0 = true -> E (upd_mem c0 [10%N]) (fst (scpi_parse (upd_mem c0 [10%N]) 1 d)).
Proof.
  intro Hfo. destruct c0 as [cmds0 mem0 cap0 fo oc ic ce ar po pl pp cur0 ro rl q qc qm tr]. cbn [first_output] in Hfo. subst fo.
  vm_compute. repeat split.
Qed.
Lemma detect_lone_lf z : LexModel.u_term (LexModel.detect_unit (10%N :: z)) = LexModel.TERM_NL /\ LexModel.u_consumed (LexModel.detect_unit (10%N :: z)) = 1.
Proof.
  assert (E1 : LexModel.detect_unit (10%N :: z) = LexCut.detect_t [] 10%N (LexModel.starts (LexModel.ischr 10%N) z))
    by (apply (LexCut.detect_cut [] 10%N z); [constructor|left; reflexivity]).
  rewrite E1. split; reflexivity.
Qed.

Section CrLfStreams.
Variable d : Z -> bytes.

(* SCPI_Parse of a message with any of the three terminators does not depend on what follows the message *)
Lemma parse_msg_local tm c a0 rest y : tm = 10%N \/ tm = 13%N -> mem c = a0 ++ tm :: rest -> seg a0 ->
  scpi_parse (upd_mem c (mem c ++ y)) (mlen a0 tm rest) d =
  (let '(c1, r) := scpi_parse c (mlen a0 tm rest) d in (upd_mem c1 (mem c1 ++ y), r)).
Proof.
  intros Htm Hm Ha0. unfold mlen.
  destruct ((tm =? 13)%N && LexModel.starts (LexModel.ischr 10%N) rest) eqn:Ecr.
  - apply andb_true_iff in Ecr as [E13 Elf]. apply N.eqb_eq in E13. subst tm.
    destruct rest as [|x rest']; [discriminate Elf|]. cbn [LexModel.starts] in Elf. unfold LexModel.ischr in Elf. apply N.eqb_eq in Elf. subst x.
    rewrite (scpi_parse_crlf d (upd_mem c (mem c ++ y)) a0 (rest' ++ y)) by (try exact Ha0; cbn [mem upd_mem]; rewrite Hm, <- app_assoc; reflexivity).
    rewrite (scpi_parse_crlf d c a0 rest' Hm Ha0).
    apply (parse_is_local_t d 13%N c a0 (10%N :: rest') y (or_intror eq_refl) Hm (seg_no_nl _ Ha0)).
  - apply (parse_is_local_t d tm c a0 rest y Htm Hm (seg_no_nl _ Ha0)).
Qed.

Lemma mlen_cases a0 tm rest : (tm = 10%N \/ tm = 13%N) ->
  (mlen a0 tm rest = Z.of_nat (length a0) + 1 /\ dropm (a0 ++ tm :: rest) (mlen a0 tm rest) = rest) \/
  (exists rest', tm = 13%N /\ rest = 10%N :: rest' /\ mlen a0 tm rest = Z.of_nat (length a0) + 2 /\ dropm (a0 ++ tm :: rest) (mlen a0 tm rest) = rest').
Proof.
  intro Htm. unfold mlen. destruct ((tm =? 13)%N && LexModel.starts (LexModel.ischr 10%N) rest) eqn:Ecr.
  - right. apply andb_true_iff in Ecr as [E13 Elf]. apply N.eqb_eq in E13. subst tm.
    destruct rest as [|x rest']; [discriminate Elf|]. cbn [LexModel.starts] in Elf. unfold LexModel.ischr in Elf. apply N.eqb_eq in Elf. subst x.
    exists rest'. repeat split. unfold dropm. replace (Z.to_nat (Z.of_nat (length a0) + 2)) with (length a0 + 2)%nat by lia.
    rewrite skipn_app. rewrite skipn_all2 by lia. replace (length a0 + 2 - length a0)%nat with 2%nat by lia. reflexivity.
  - left. split; [reflexivity|]. unfold dropm. replace (Z.to_nat (Z.of_nat (length a0) + 1)) with (length a0 + 1)%nat by lia.
    rewrite skipn_app. rewrite skipn_all2 by lia. replace (length a0 + 1 - length a0)%nat with 1%nat by lia. reflexivity.
Qed.

(* what the loop does on b ++ y is, up to scratch fields, what it does on b followed by what it does on the rest with y behind it *)
Lemma loop_split_E N : forall b, (length b <= N)%nat -> okstream' b -> forall c y F F1 F2 r r1 r2, mem c = b ->
  (length b + length y < F)%nat -> (length b < F1)%nat -> (length b + length y < F2)%nat ->
  let c1 := fst (input_loop F1 c 0 r1 d) in
  (exists pre, b = pre ++ mem c1) /\
  E (fst (input_loop F (upd_mem c (b ++ y)) 0 r d)) (fst (input_loop F2 (upd_mem c1 (mem c1 ++ y)) 0 r2 d)).
Proof.
  induction N as [|N IH]; intros b Hlen Hok c y F F1 F2 r r1 r2 Hm HF HF1 HF2.
  - destruct b; [|cbn in Hlen; lia]. cbv zeta.
    destruct F1 as [|F1]; [lia|]. rewrite (quiet_loop (S F1) c 0 r1 d) by (rewrite Hm; reflexivity). cbn [fst]. rewrite Hm. cbn [app].
    split; [exists []; reflexivity|].
    rewrite (loop_flag F _ 0 r r2). rewrite (fuel_any F F2) by (cbn [mem upd_mem]; lia). apply E_refl.
  - cbv zeta. destruct (ok_split' b Hok) as [Hseg|(a0 & tm & rest & -> & Ha0 & Htm & Hrest)].
    + rewrite (quiet_loop F1 c 0 r1 d) by (rewrite Hm; apply no_nl_quiet, seg_no_nl, Hseg). cbn [fst]. rewrite Hm.
      split; [exists []; reflexivity|].
      rewrite (loop_flag F _ 0 r r2). rewrite (fuel_any F F2) by (cbn [mem upd_mem]; rewrite app_length; lia). apply E_refl.
    + assert (Hlb : length (a0 ++ tm :: rest) = (length a0 + 1 + length rest)%nat) by (rewrite app_length; cbn [length]; lia).
      (* the run on b *)
      destruct (scan_msg_gen d a0 tm rest Ha0 Htm F1 0 c r1 Hm ltac:(lia) ltac:(lia)) as (k1 & Hk1 & Hk1' & E1). rewrite E1. clear E1.
      assert (Hm2 : mem (upd_mem c ((a0 ++ tm :: rest) ++ y)) = a0 ++ tm :: (rest ++ y)) by (cbn [mem upd_mem]; rewrite <- app_assoc; reflexivity).
      destruct (scan_msg_gen d a0 tm (rest ++ y) Ha0 Htm F 0 (upd_mem c ((a0 ++ tm :: rest) ++ y)) r Hm2 ltac:(lia) ltac:(lia)) as (k & Hk & Hk' & E2). rewrite E2. clear E2.
      (* is the terminator the same in both runs?  not when b ends with CR and y starts with LF *)
      destruct (Z.eq_dec (mlen a0 tm (rest ++ y)) (mlen a0 tm rest)) as [Esame|Ediff].
      * rewrite Esame. rewrite <- Hm. rewrite (parse_msg_local tm c a0 rest y Htm Hm Ha0).
        pose proof (scpi_parse_tail c (mlen a0 tm rest) d) as Ht. pose proof (scpi_parse_length c (mlen a0 tm rest) d) as Hl.
        assert (Hml : 0 <= mlen a0 tm rest <= Z.of_nat (length (mem c))).
        { rewrite Hm, Hlb. destruct (mlen_cases a0 tm rest Htm) as [[-> _]|(rest' & _ & -> & -> & _)]; cbn [length]; lia. }
        specialize (Ht Hml). specialize (Hl Hml).
        destruct (scpi_parse c (mlen a0 tm rest) d) as [cA resA]. cbn [fst] in Ht, Hl.
        cbn [mem upd_mem]. rewrite dropm_app_le by lia. rewrite Ht, Hm.
        assert (Hrr : exists rest2, dropm (a0 ++ tm :: rest) (mlen a0 tm rest) = rest2 /\ okstream' rest2 /\ (length rest2 <= length rest)%nat /\
                      Z.of_nat (length a0) + 1 <= mlen a0 tm rest).
        { destruct (mlen_cases a0 tm rest Htm) as [[E1 E2]|(rest' & _ & Er & E1 & E2)].
          - exists rest. repeat split; try assumption; lia.
          - exists rest'. subst rest. inversion Hrest; subst. repeat split; try assumption; cbn [length]; lia. }
        destruct Hrr as (rest2 & Hd2 & Hok2 & Hl2 & Hge). rewrite Hd2.
        assert (Hlr : (length rest2 <= N)%nat) by lia.
        specialize (IH rest2 Hlr Hok2 (upd_mem cA rest2) y (F - k)%nat (F1 - k1)%nat F2 resA resA r2 eq_refl ltac:(lia) ltac:(lia) ltac:(lia)).
        cbv zeta in IH. destruct IH as [(pre & Hpre) IH2]. split; [|exact IH2].
        exists (firstn (Z.to_nat (mlen a0 tm rest)) (a0 ++ tm :: rest) ++ pre). rewrite <- app_assoc, <- Hpre.
        rewrite <- Hd2. unfold dropm. rewrite firstn_skipn. reflexivity.
      * (* b = a0 CR, y = LF y' *)
        assert (Hsp : tm = 13%N /\ rest = [] /\ exists y', y = 10%N :: y').
        { unfold mlen in Ediff. destruct Htm as [->| ->]; [cbn [N.eqb Pos.eqb andb] in Ediff; congruence|]. split; [reflexivity|].
          cbn [N.eqb Pos.eqb andb] in Ediff. destruct rest as [|x rest']; [|cbn [app LexModel.starts] in Ediff; congruence].
          split; [reflexivity|]. cbn [app] in Ediff. destruct y as [|x y']; [cbn in Ediff; congruence|]. cbn [LexModel.starts] in Ediff.
          unfold LexModel.ischr in Ediff. destruct (N.eqb_spec x 10) as [->|]; [exists y'; reflexivity|congruence]. }
        destruct Hsp as (-> & -> & y' & ->). cbn [app] in *.
        assert (En2 : mlen a0 13%N (10%N :: y') = Z.of_nat (length a0) + 2) by reflexivity.
        assert (En1 : mlen a0 13%N [] = Z.of_nat (length a0) + 1) by reflexivity.
        rewrite En2, En1.
        (* the single run: CR LF as one terminator *)
        assert (HmL : mem (upd_mem c ((a0 ++ [13%N]) ++ 10%N :: y')) = a0 ++ 13%N :: 10%N :: y') by (cbn [mem upd_mem]; rewrite <- app_assoc; reflexivity).
        rewrite (scpi_parse_crlf d _ a0 y' HmL Ha0).
        rewrite <- Hm. rewrite (parse_is_local_t d 13%N c a0 [] (10%N :: y') (or_intror eq_refl) Hm (seg_no_nl _ Ha0)).
        pose proof (scpi_parse_tail c (Z.of_nat (length a0) + 1) d ltac:(rewrite Hm, Hlb; cbn [length]; lia)) as Ht.
        pose proof (scpi_parse_length c (Z.of_nat (length a0) + 1) d ltac:(rewrite Hm, Hlb; cbn [length]; lia)) as Hl.
        pose proof (first_output_after_parse c (Z.of_nat (length a0) + 1) d) as Hfo.
        destruct (scpi_parse c (Z.of_nat (length a0) + 1) d) as [cA resA]. cbn [fst] in Ht, Hl, Hfo.
        rewrite Hm in Ht, Hl. rewrite Hlb in Hl. cbn [length] in Hl.
        assert (Ed0 : dropm (a0 ++ [13%N]) (Z.of_nat (length a0) + 1) = []).
        { unfold dropm. apply skipn_all2. rewrite app_length. cbn [length]. lia. }
        rewrite Ed0 in Ht. cbn [mem upd_mem]. rewrite Ht.
        assert (Ed2 : dropm (mem cA ++ 10%N :: y') (Z.of_nat (length a0) + 2) = y').
        { unfold dropm. rewrite skipn_app. rewrite skipn_all2 by lia. replace (Z.to_nat (Z.of_nat (length a0) + 2) - length (mem cA))%nat with 1%nat by lia. reflexivity. }
        rewrite Ed2.
        (* the run on b stops with an empty buffer *)
        rewrite (quiet_loop (F1 - k1) (upd_mem cA []) 0 resA d) by (apply no_nl_quiet; intros b0 []). cbn [fst mem upd_mem app].
        split; [rewrite ?Hm; exists (a0 ++ [13%N]); rewrite app_nil_r; reflexivity|].
        (* the second call: the line feed on its own, then y' *)
        destruct F2 as [|F2]; [lia|]. cbn [input_loop mem upd_mem].
        change (dropm (10%N :: y') 0) with (10%N :: y').
        destruct (detect_lone_lf y') as [Et Ec]. rewrite Et, Ec. cbn [Z.add].
        pose proof (parse_is_local_t d 10%N (upd_mem cA [10%N]) [] [] y' (or_introl eq_refl) eq_refl ltac:(intros b0 [])) as Hloc.
        cbn [length Z.of_nat Z.add mem upd_mem app] in Hloc.
        change (upd_mem (upd_mem cA []) (10%N :: y')) with (upd_mem (upd_mem cA [10%N]) (10%N :: y')). rewrite Hloc.
        pose proof (lone_lf cA d Hfo) as HE.
        destruct (scpi_parse (upd_mem cA [10%N]) 1 d) as [cC rC]. cbn [fst] in HE.
        pose proof HE as (_ & HmC & _). cbn [mem upd_mem] in HmC.
        cbn [mem upd_mem]. rewrite <- HmC. change (dropm ([10%N] ++ y') 1) with y'.
        change (upd_mem (upd_mem cC ([10%N] ++ y')) y') with (upd_mem cC y').
        change (upd_mem (upd_mem cA (mem cA ++ 10%N :: y')) y') with (upd_mem cA y').
        (* both continue on y' from contexts that agree up to scratch fields *)
        assert (HE' : E (upd_mem cA y') (upd_mem cC y')) by (apply (E_upd_mem (upd_mem cA [10%N]) cC y'), HE).
        rewrite (loop_flag (F - k) (upd_mem cA y') 0 resA rC).
        rewrite (fuel_any (F - k) F2 (upd_mem cA y') rC d) by (cbn [mem upd_mem length] in *; lia).
        pose proof (input_loop_isolated F2 (upd_mem cA y') (upd_mem cC y') 0 rC d HE') as Hiso.
        destruct (input_loop F2 (upd_mem cA y') 0 rC d) as [cf1 rf1]. destruct (input_loop F2 (upd_mem cC y') 0 rC d) as [cf2 rf2].
        cbn [fst]. apply Hiso.
Qed.
End CrLfStreams.

(* ---------- cutting the stream once, and then into any number of pieces ---------- *)
Definition ok_class' (c:ctx) (s:bytes) : Prop :=
  okstream' (mem c ++ s) /\ Z.of_nat (length (mem c)) + Z.of_nat (length s) <= cap c - 1.

Lemma ok_split_invisible_E d c x y : ok_class' c (x ++ y) -> x <> [] -> y <> [] ->
  E (fst (input_core (fst (input_core c x d)) y d)) (fst (input_core c (x ++ y) d)) /\ ok_class' (fst (input_core c x d)) y.
Proof.
  intros [Hok Hfit] Hx Hy. rewrite app_length, Nat2Z.inj_add in Hfit.
  rewrite (input_core_fits c x d Hx) by lia.
  set (b := mem c ++ x). set (c0 := upd_mem c b).
  assert (Hlb : length b = (length (mem c) + length x)%nat) by (subst b; apply app_length).
  assert (Hokb : okstream' b) by (rewrite app_assoc in Hok; apply okstream'_app in Hok; apply Hok).
  pose proof (loop_split_E d (length b) b (le_n _) Hokb c0 y (S (S (length (mem c ++ x ++ y)))) (S (S (length b)))
                (S (S (length b + length y))) true true true eq_refl) as L.
  assert (Hlen : length (mem c ++ x ++ y) = (length b + length y)%nat) by (rewrite Hlb, !app_length; lia).
  specialize (L ltac:(lia) ltac:(lia) ltac:(lia)). cbv zeta in L. destruct L as [(pre & Hpre) L].
  pose proof (InputInv.input_loop_inv (S (S (length b))) c0 0 true d ltac:(cbn [mem upd_mem]; lia)) as [HC Hle]. cbv zeta in HC.
  set (c1 := fst (input_loop (S (S (length b))) c0 0 true d)) in *.
  destruct HC as (Hcap & _). unfold c0 in Hcap, Hle. cbn [cap upd_mem mem] in Hcap, Hle.
  assert (Hfit1 : Z.of_nat (length (mem c1)) + Z.of_nat (length y) <= cap c1 - 1) by (rewrite Hcap; lia).
  split.
  - rewrite (input_core_fits c1 y d Hy Hfit1). rewrite (input_core_fits c (x ++ y) d) by (try rewrite app_length; try (destruct x; [congruence|discriminate]); lia).
    replace (upd_mem c (mem c ++ x ++ y)) with (upd_mem c0 (b ++ y)) by (subst c0 b; rewrite <- app_assoc; reflexivity).
    apply E_sym.
    rewrite (fuel_any (S (S (length (mem c1 ++ y)))) (S (S (length b + length y))) (upd_mem c1 (mem c1 ++ y)) true d) by (cbn [mem upd_mem]; rewrite app_length; lia).
    exact L.
  - split; [|exact Hfit1]. unfold okstream' in *. apply Forall_app. split.
    + rewrite Hpre in Hokb. apply Forall_app in Hokb. apply Hokb.
    + rewrite app_assoc in Hok. apply Forall_app in Hok. apply Hok.
Qed.

(* C08 with carriage returns: for every stream without quote and '#', with messages ending in LF, CR or CR LF, every partition
   into non-empty input calls -- between a CR and its LF included -- ends in a context that agrees with the one of the delivery
   in one call on the command table, the pending bytes, the error queue, everything written and every handler event;
   only scratch fields (the item counters re-armed by the empty message) may differ *)
Theorem crlf_stream_any_partition d : forall chunks c, chunks <> [] -> Forall (fun x => x <> []) chunks -> ok_class' c (concat chunks) ->
  E (feed c chunks d) (fst (input_core c (concat chunks) d)).
Proof.
  induction chunks as [|x r IH]; intros c Hne Hall HP; [congruence|]. inversion Hall as [|? ? Hx Hr]; subst.
  cbn [feed concat]. destruct r as [|y r'].
  - cbn [feed concat]. rewrite app_nil_r. apply E_refl.
  - assert (Hc : concat (y :: r') <> []) by (inversion Hr as [|? ? Hy _]; subst; cbn [concat]; destruct y; [congruence|discriminate]).
    destruct (ok_split_invisible_E d c x (concat (y :: r')) HP Hx Hc) as [E1 HP'].
    eapply E_trans; [apply (IH (fst (input_core c x d)) ltac:(discriminate) Hr HP')|exact E1].
Qed.
Print Assumptions crlf_stream_any_partition.

(* evaluation on the table of MultiMsg.demo_ctx: a CR LF stream delivered byte by byte, and cut between CR and LF *)
Example demo_crlf :
  let s := demo_msg1 ++ [13; 10]%N ++ [86;79;76;84;32;50;13;10]%N in
  let one := fst (input_core demo_ctx s (fun _ => [])) in
  okstream' s /\
  trace (feed demo_ctx (map (fun b => [b]) s) (fun _ => [])) = trace one /\
  trace (feed demo_ctx [firstn 15 s; skipn 15 s] (fun _ => [])) = trace one /\
  output_count (feed demo_ctx [firstn 15 s; skipn 15 s] (fun _ => [])) = output_count one /\ length (trace one) = 15%nat.
Proof. vm_compute. repeat split; repeat constructor. Qed.
