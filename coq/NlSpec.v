(* C13: the line terminator recogniser: CR? LF? with at least one of them *)
From Coq Require Import Bool List NArith ZArith Lia.
From M Require Import LexModel LexBounds DecSpec MoreSpecs.
Import ListNotations.
Local Open Scope Z_scope.

Lemma skip_opt_starts p (l:bytes) : skip_opt p l = if starts p l then tl l else l.
Proof. destruct l as [|c r]; [reflexivity|]. cbn [skip_opt starts tl]. reflexivity. Qed.
Lemma starts_len p (l:bytes) : starts p l = true -> Z.of_nat (length (tl l)) = Z.of_nat (length l) - 1.
Proof. destruct l as [|c r]; [discriminate|]. intros _. cbn [tl length]. lia. Qed.

(* the displacement is the number of the two optional bytes that are present, CR first *)
Theorem newline_disp l :
  let a := starts (ischr 13%N) l in let l1 := if a then tl l else l in let b := starts (ischr 10%N) l1 in
  disp (lex_newline l) = (if a then 1 else 0) + (if b then 1 else 0) /\ ret (lex_newline l) = disp (lex_newline l).
Proof.
  cbn zeta. unfold lex_newline. rewrite !skip_opt_starts.
  destruct (starts (ischr 13%N) l) eqn:Ea.
  - pose proof (starts_len _ _ Ea) as La. destruct (starts (ischr 10%N) (tl l)) eqn:Eb.
    + pose proof (starts_len _ _ Eb) as Lb. unfold used. unfold bytes, byte in *.
      replace (Z.of_nat (length l) - Z.of_nat (length (tl (tl l)))) with 2 by lia. split; reflexivity.
    + unfold used. unfold bytes, byte in *. replace (Z.of_nat (length l) - Z.of_nat (length (tl l))) with 1 by lia. split; reflexivity.
  - destruct (starts (ischr 10%N) l) eqn:Eb.
    + pose proof (starts_len _ _ Eb) as Lb. unfold used. unfold bytes, byte in *. replace (Z.of_nat (length l) - Z.of_nat (length (tl l))) with 1 by lia. split; reflexivity.
    + unfold used. rewrite Z.sub_diag. split; reflexivity.
Qed.

(* what was consumed is CR LF, CR or LF *)
Definition NL (t:bytes) : Prop := t = [13;10]%N \/ t = [13%N] \/ t = [10%N].
Theorem newline_sound l : 0 < disp (lex_newline l) -> NL (firstn (Z.to_nat (disp (lex_newline l))) l).
Proof.
  destruct (newline_disp l) as [Hd _]. cbn zeta in Hd. rewrite Hd. intro Hpos.
  destruct l as [|x r]; [cbn in Hpos; lia|]. cbn [starts tl] in *.
  destruct (ischr 13%N x) eqn:Ea.
  - apply ischr_eq in Ea. subst x. destruct r as [|y r']; cbn [starts] in *.
    + right; left. reflexivity.
    + destruct (ischr 10%N y) eqn:Eb; [apply ischr_eq in Eb; subst y; left; reflexivity|right; left; reflexivity].
  - cbn [starts] in *. destruct (ischr 10%N x) eqn:Eb; [|cbn in Hpos; lia]. apply ischr_eq in Eb. subst x. right; right. reflexivity.
Qed.
(* and it is the longest such prefix: after a consumed CR a following LF is always taken *)
Theorem newline_max l : forall m, disp (lex_newline l) < m <= Z.of_nat (length l) -> ~ NL (firstn (Z.to_nat m) l).
Proof.
  intros m Hm HN. destruct (newline_disp l) as [Hd _]. cbn zeta in Hd. rewrite Hd in Hm.
  destruct l as [|x r]; [cbn in Hm; lia|]. cbn [starts tl] in Hm.
  assert (Hlen : forall t, NL t -> (length t <= 2)%nat) by (intros t [->|[->| ->]]; cbn; lia).
  pose proof (Hlen _ HN) as Hl. rewrite firstn_length_le in Hl by lia.
  destruct (ischr 13%N x) eqn:Ea.
  - destruct r as [|y r']; cbn [starts length] in Hm; [lia|].
    destruct (ischr 10%N y) eqn:Eb; [lia|]. assert (m = 2) by lia. subst m. cbn [Z.to_nat Pos.to_nat Pos.iter_op Nat.add firstn] in HN.
    destruct HN as [H|[H|H]]; try discriminate. injection H as _ H. subst y. rewrite ischr_refl in Eb. discriminate.
  - cbn [starts] in Hm. destruct (ischr 10%N x) eqn:Eb.
    + assert (m = 2) by lia. subst m. destruct r as [|y r']; [cbn [length] in Hm; lia|]. cbn [Z.to_nat Pos.to_nat Pos.iter_op Nat.add firstn] in HN.
      destruct HN as [H|[H|H]]; try discriminate. injection H as H _. subst x. discriminate Ea.
    + assert (Hm1 : 1 <= m) by lia. replace (Z.to_nat m) with (S (Z.to_nat (m - 1))) in HN by lia. cbn [firstn] in HN.
      destruct HN as [H|[H|H]]; injection H as H _; subst x; discriminate.
Qed.
Print Assumptions newline_max.
