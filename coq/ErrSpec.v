(* C18: the quoted part of the error response = the longest prefix of desc;text whose escaped form fits 255 *)
From Coq Require Import Bool List ZArith Lia.
From M Require Import FmtModel.
Import ListNotations.
Local Open Scope Z_scope.

(* ---------- specification ---------- *)
Definition esc1 (c:Z) : list Z := if c =? 34 then [34;34] else [c].
Definition esc (l:list Z) : list Z := flat_map esc1 l.
Definition cost (c:Z) : Z := if c =? 34 then 2 else 1.
(* longest prefix whose escaped form has at most limit characters; also tells whether everything was taken *)
Fixpoint take_fit (limit:Z) (l:list Z) : list Z :=
  match l with [] => [] | c::r => if cost c <=? limit then c :: take_fit (limit - cost c) r else [] end.
Lemma esc_length l : Z.of_nat (length (esc l)) = fold_right (fun c a => cost c + a) 0 l.
Proof. induction l as [|c r IH]; [reflexivity|]. unfold esc in *. cbn [flat_map fold_right]. rewrite app_length, Nat2Z.inj_add, IH.
  unfold esc1, cost. destruct (c =? 34); reflexivity. Qed.
Lemma take_fit_fits limit l : 0 <= limit -> Z.of_nat (length (esc (take_fit limit l))) <= limit.
Proof. revert limit; induction l as [|c r IH]; intros limit H; cbn [take_fit]; [cbn; lia|].
  destruct (Z.leb_spec (cost c) limit); [|cbn; lia].
  unfold esc in *. cbn [flat_map]. rewrite app_length, Nat2Z.inj_add.
  assert (Hc : Z.of_nat (length (esc1 c)) = cost c) by (unfold esc1, cost; destruct (c =? 34); reflexivity).
  specialize (IH (limit - cost c) ltac:(lia)). lia. Qed.
Lemma take_fit_prefix limit l : exists rest, l = take_fit limit l ++ rest.
Proof. revert limit; induction l as [|c r IH]; intro limit; cbn [take_fit]; [exists []; reflexivity|].
  destruct (cost c <=? limit); [|exists (c::r); reflexivity]. destruct (IH (limit - cost c)) as (rest & H). exists rest. cbn. now rewrite <- H. Qed.
(* maximality: the next character does not fit *)
Lemma take_fit_maximal limit l c rest : l = take_fit limit l ++ c :: rest ->
  limit < Z.of_nat (length (esc (take_fit limit l))) + cost c.
Proof. revert limit; induction l as [|d r IH]; intros limit H; cbn [take_fit] in *; [destruct (take_fit limit []); discriminate|].
  destruct (Z.leb_spec (cost d) limit) as [Hle|Hgt].
  - cbn [app] in H. injection H as H. specialize (IH _ H).
    unfold esc in *. cbn [flat_map]. rewrite app_length, Nat2Z.inj_add.
    assert (Hc : Z.of_nat (length (esc1 d)) = cost d) by (unfold esc1, cost; destruct (d =? 34); reflexivity). lia.
  - cbn [app] in H. injection H as -> _. cbn. lia. Qed.

(* ---------- facts about the pieces ---------- *)
Definition noq (l:list Z) : Prop := forallb (fun c => negb (c =? 34)) l = true.
Definition nonul (l:list Z) : Prop := forallb (fun c => negb (c =? 0)) l = true.
Lemma esc_noq l : noq l -> esc l = l.
Proof. induction l as [|c r IH]; intro H; [reflexivity|]. cbn in H. apply andb_prop in H as [Hc Hr].
  unfold esc in *. cbn [flat_map]. unfold esc1. apply negb_true_iff in Hc. rewrite Hc. cbn. f_equal. now apply IH. Qed.
Lemma esc_app a b : esc (a ++ b) = esc a ++ esc b.
Proof. unfold esc. apply flat_map_app. Qed.
Lemma cost_pos c : 1 <= cost c. Proof. unfold cost. destruct (c =? 34); lia. Qed.
Lemma take_fit_noq limit l : noq l -> Z.of_nat (length l) <= limit -> take_fit limit l = l.
Proof. revert limit; induction l as [|c r IH]; intros limit H Hl; [reflexivity|]. cbn in H. apply andb_prop in H as [Hc Hr].
  cbn [take_fit]. unfold cost. apply negb_true_iff in Hc. rewrite Hc. cbn [length] in Hl.
  destruct (Z.leb_spec 1 limit); [|lia]. f_equal. apply IH; [exact Hr|lia]. Qed.
Lemma take_fit_app_noq limit a b : noq a -> Z.of_nat (length a) <= limit ->
  take_fit limit (a ++ b) = a ++ take_fit (limit - Z.of_nat (length a)) b.
Proof. revert limit; induction a as [|c r IH]; intros limit H Hl; [cbn; now rewrite Z.sub_0_r|]. cbn in H. apply andb_prop in H as [Hc Hr].
  cbn [app take_fit]. unfold cost. apply negb_true_iff in Hc. rewrite Hc. cbn [length] in Hl.
  destruct (Z.leb_spec 1 limit); [|lia]. f_equal. rewrite IH by (try exact Hr; lia). f_equal. f_equal. cbn [length]. lia. Qed.
Lemma take_fit_firstn_ge l : forall b n, 0 <= b <= Z.of_nat n -> take_fit b (firstn n l) = take_fit b l.
Proof. induction l as [|c r IH]; intros b n H; [now rewrite firstn_nil|].
  destruct n as [|n].
  - cbn. pose proof (cost_pos c). destruct (Z.leb_spec (cost c) b); [lia|reflexivity].
  - cbn [firstn take_fit]. destruct (Z.leb_spec (cost c) b); [|reflexivity]. f_equal.
    pose proof (cost_pos c). apply IH. lia. Qed.
Lemma take_fit_firstn limit l : 0 <= limit -> take_fit limit (firstn (Z.to_nat limit) l) = take_fit limit l.
Proof. intros H. apply take_fit_firstn_ge. lia. Qed.

(* find_quote on strings without NUL *)
Lemma find_quote_none n l : nonul l -> find_quote n l = None -> noq (firstn n l).
Proof. revert l; induction n as [|n IH]; intros l Hn H; [reflexivity|]. destruct l as [|c r]; [reflexivity|].
  cbn in Hn. apply andb_prop in Hn as [Hc Hr]. apply negb_true_iff in Hc. cbn [find_quote] in H. rewrite Hc in H.
  destruct (c =? 34) eqn:E; [discriminate|]. destruct (find_quote n r) eqn:F; [discriminate|].
  cbn [firstn]. unfold noq. cbn. rewrite E. cbn. now apply IH. Qed.
Lemma find_quote_some n l q : nonul l -> find_quote n l = Some q ->
  0 <= q < Z.of_nat n /\ q < Z.of_nat (length l) /\ noq (firstn (Z.to_nat q) l) /\ nth (Z.to_nat q) l 0 = 34.
Proof. revert l q; induction n as [|n IH]; intros l q Hn H; [discriminate|]. destruct l as [|c r]; [discriminate|].
  cbn in Hn. apply andb_prop in Hn as [Hc Hr]. apply negb_true_iff in Hc. cbn [find_quote] in H. rewrite Hc in H.
  destruct (c =? 34) eqn:E.
  - injection H as <-. cbn. apply Z.eqb_eq in E. repeat split; try lia; try exact E.
  - destruct (find_quote n r) as [q'|] eqn:F; [|discriminate]. injection H as <-.
    destruct (IH r q' Hr F) as (H1 & H2 & H3 & H4). cbn [length].
    replace (Z.to_nat (Z.succ q')) with (S (Z.to_nat q')) by lia. cbn [firstn nth]. repeat split; try lia; try exact H4.
    unfold noq. cbn. rewrite E. cbn. exact H3. Qed.

(* ---------- one part of the description ---------- *)
Definition took_all (limit:Z) (d:list Z) : bool := Z.of_nat (length (take_fit limit d)) =? Z.of_nat (length d).
Lemma nonul_skipn n l : nonul l -> nonul (skipn n l).
Proof. revert l; induction n as [|n IH]; intros l H; [exact H|]. destruct l as [|c r]; [exact H|]. cbn in H. apply andb_prop in H as [_ H]. now apply IH. Qed.
Lemma firstn_split_at (l:list Z) q : (q < length l)%nat -> firstn (S q) l = firstn q l ++ [nth q l 0].
Proof. revert l; induction q as [|q IH]; intros l H; destruct l as [|c r]; cbn in H; try lia; [reflexivity|]. cbn [firstn nth app]. f_equal. apply IH. lia. Qed.
Lemma take_fit_length_le limit l : (length (take_fit limit l) <= length l)%nat.
Proof. destruct (take_fit_prefix limit l) as (rest & H). rewrite H at 2. rewrite app_length. lia. Qed.

Lemma esc_len_ge l : Z.of_nat (length l) <= Z.of_nat (length (esc l)).
Proof. rewrite esc_length. induction l as [|c r IH]; cbn [length fold_right]; [lia|]. pose proof (cost_pos c). lia. Qed.
Lemma took_all_true_eq limit d : took_all limit d = true -> take_fit limit d = d.
Proof. unfold took_all. intros H. apply Z.eqb_eq in H. destruct (take_fit_prefix limit d) as (rest & Hr).
  assert (length rest = 0)%nat by (apply (f_equal (@length Z)) in Hr; rewrite app_length in Hr; lia).
  destruct rest; [now rewrite app_nil_r in Hr|discriminate]. Qed.
Lemma took_all_clamp limit d : 0 <= limit -> limit < Z.of_nat (length d) -> took_all limit d = false.
Proof. intros H0 H. unfold took_all. apply Z.eqb_neq. intro E.
  pose proof (take_fit_fits limit d H0). pose proof (esc_len_ge (take_fit limit d)). lia. Qed.
Lemma took_all_app pre b limit : noq pre -> Z.of_nat (length pre) + 2 <= limit ->
  took_all limit ((pre ++ [34]) ++ b) = took_all (limit - (Z.of_nat (length pre) + 2)) b /\
  take_fit limit ((pre ++ [34]) ++ b) = (pre ++ [34]) ++ take_fit (limit - (Z.of_nat (length pre) + 2)) b.
Proof. intros Hn Hl.
  assert (Htf : take_fit limit ((pre ++ [34]) ++ b) = (pre ++ [34]) ++ take_fit (limit - (Z.of_nat (length pre) + 2)) b).
  { rewrite <- !app_assoc. rewrite take_fit_app_noq by (try exact Hn; lia). f_equal. cbn [app take_fit]. unfold cost. cbn [Z.eqb Pos.eqb].
    destruct (Z.leb_spec 2 (limit - Z.of_nat (length pre))); [|lia]. f_equal. f_equal. lia. }
  split; [|exact Htf]. unfold took_all. rewrite Htf, !app_length.
  destruct (Z.eqb_spec (Z.of_nat (length (take_fit (limit - (Z.of_nat (length pre) + 2)) b))) (Z.of_nat (length b)));
  destruct (Z.eqb_spec (Z.of_nat (length pre + length [34] + length (take_fit (limit - (Z.of_nat (length pre) + 2)) b))) (Z.of_nat (length pre + length [34] + length b))); try reflexivity; lia. Qed.

Lemma part_spec : forall fuel data len limit out, nonul data -> 0 <= len <= Z.of_nat (length data) -> len <= limit -> (Z.to_nat len < fuel)%nat ->
  let '(out1, data1, len1, limit1) := quote_loop fuel data len limit out in
  let d := take len data in
  out1 ++ take len1 data1 = out ++ esc (take_fit limit d) /\
  limit1 - len1 = (if took_all limit d then limit - Z.of_nat (length (esc d)) else 0).
Proof.
  induction fuel as [|fuel IH]; intros data len limit out Hnn Hlen Hlim Hf; [lia|].
  cbn [quote_loop]. destruct (find_quote (Z.to_nat len) data) as [q|] eqn:F.
  - destruct (find_quote_some _ _ _ Hnn F) as (Hq & Hql & Hnoq & Hat). change (noq (take q data)) in Hnoq.
    set (step := q + 1).
    assert (Htk : take step data = take q data ++ [34]).
    { unfold take, step. replace (Z.to_nat (q+1)) with (S (Z.to_nat q)) by lia. rewrite firstn_split_at by lia. now rewrite Hat. }
    assert (Hd : take len data = take step data ++ take (len - step) (dropz step data)).
    { unfold take, dropz. rewrite <- (firstn_skipn (Z.to_nat step) (firstn (Z.to_nat len) data)).
      rewrite firstn_firstn. replace (Nat.min (Z.to_nat step) (Z.to_nat len)) with (Z.to_nat step) by (unfold step; lia).
      f_equal. rewrite skipn_firstn_comm. f_equal. unfold step. lia. }
    assert (Hlq : Z.of_nat (length (take q data)) = q).
    { unfold take. rewrite firstn_length. lia. }
    destruct (Z.leb_spec limit step) as [Hle|Hgt].
    + (* the quote is the last character that would fit: it is dropped *)
      assert (Hlen_eq : len = step /\ limit = step) by (unfold step in *; lia). destruct Hlen_eq as [-> Hl2]. cbn zeta.
      replace (step - 1) with q by (unfold step; lia).
      rewrite Htk.
      assert (Htf : take_fit limit (take q data ++ [34]) = take q data).
      { rewrite take_fit_app_noq by (try exact Hnoq; lia). rewrite Hlq. cbn [take_fit]. unfold cost. cbn [Z.eqb Pos.eqb].
        destruct (Z.leb_spec 2 (limit - q)); [unfold step in *; lia|]. now rewrite app_nil_r. }
      rewrite Htf. rewrite (esc_noq _ Hnoq). split; [reflexivity|].
      unfold took_all. rewrite Htf, app_length. cbn [length].
      destruct (Z.eqb_spec (Z.of_nat (length (take q data))) (Z.of_nat (length (take q data) + 1))); [lia|]. unfold step in *. lia.
    + (* the quote and its double fit *)
      set (data1 := dropz step data). set (len1 := len - step). set (limit1 := limit - (step + 1)).
      set (len2 := if limit1 <? len1 then limit1 else len1).
      assert (Hnn1 : nonul data1) by (apply nonul_skipn; exact Hnn).
      assert (Hl1 : Z.of_nat (length data1) = Z.of_nat (length data) - step).
      { unfold data1, dropz. rewrite skipn_length. unfold step in *. lia. }
      assert (Hlen2 : 0 <= len2 <= Z.of_nat (length data1) /\ len2 <= limit1).
      { unfold len2, len1, limit1, step in *. destruct (Z.ltb_spec (limit - (q+1+1)) (len - (q+1))); lia. }
      specialize (IH data1 len2 limit1 (out ++ take step data ++ [34]) Hnn1 (proj1 Hlen2) (proj2 Hlen2) ltac:(unfold len2, len1, limit1, step in *; destruct (Z.ltb_spec (limit - (q+1+1)) (len - (q+1))); lia)).
      destruct (quote_loop fuel data1 len2 limit1 (out ++ take step data ++ [34])) as [[[out1 dataR] lenR] limitR].
      cbn zeta in IH. destruct IH as [IH1 IH2].
      (* the fitting prefix of the whole part *)
      assert (Hsame : take_fit limit1 (take len2 data1) = take_fit limit1 (take len1 data1)).
      { unfold len2. destruct (Z.ltb_spec limit1 len1) as [Hc|Hc]; [|reflexivity].
        unfold take. rewrite <- (take_fit_firstn_ge (firstn (Z.to_nat len1) data1) limit1 (Z.to_nat limit1)) by (unfold limit1, step in *; lia).
        rewrite firstn_firstn. f_equal. f_equal. lia. }
      assert (Htf : take_fit limit (take len data) = take step data ++ take_fit limit1 (take len1 data1)).
      { rewrite Hd, Htk, <- app_assoc. rewrite take_fit_app_noq by (try exact Hnoq; unfold step in *; lia). rewrite Hlq, <- app_assoc. f_equal.
        cbn [app take_fit]. unfold cost. cbn [Z.eqb Pos.eqb]. destruct (Z.leb_spec 2 (limit - q)); [|unfold step in *; lia].
        f_equal. f_equal. unfold limit1, step; lia. }
      cbn zeta. split.
      * rewrite IH1, Hsame, Htf, esc_app, Htk, esc_app, (esc_noq _ Hnoq). cbn. now rewrite <- !app_assoc.
      * rewrite IH2. rewrite Hd, Htk.
        destruct (took_all_app (take q data) (take len1 data1) limit Hnoq ltac:(unfold step in *; lia)) as [Hta _].
        fold len1 data1. rewrite Hta, Hlq. replace (limit - (q + 2)) with limit1 by (unfold limit1, step; lia).
        assert (Hlt : Z.of_nat (length (take len2 data1)) = len2) by (unfold take; rewrite firstn_length; lia).
        assert (Hlt1 : Z.of_nat (length (take len1 data1)) = len1) by (unfold take, len1; rewrite firstn_length; unfold step in *; lia).
        destruct (Z.ltb_spec limit1 len1) as [Hc|Hc].
        -- (* the rest was clamped to the remaining budget *)
           assert (Hl2 : len2 = limit1) by (unfold len2; destruct (Z.ltb_spec limit1 len1); lia).
           rewrite (took_all_clamp limit1 (take len1 data1)) by (unfold limit1, step in *; lia).
           destruct (took_all limit1 (take len2 data1)) eqn:Et; [|reflexivity].
           apply took_all_true_eq in Et.
           pose proof (take_fit_fits limit1 (take len2 data1) ltac:(unfold limit1, step in *; lia)) as Hfit. rewrite Et in Hfit.
           pose proof (esc_len_ge (take len2 data1)). lia.
        -- assert (Hl2 : len2 = len1) by (unfold len2; destruct (Z.ltb_spec limit1 len1); lia). rewrite Hl2.
           destruct (took_all limit1 (take len1 data1)); [|reflexivity].
           rewrite !esc_app, !app_length, (esc_noq _ Hnoq). cbn [esc flat_map esc1 Z.eqb Pos.eqb app length].
           rewrite !Nat2Z.inj_add, Hlq. unfold limit1, step. cbn. lia.
  - (* no quote in the visible part *)
    pose proof (find_quote_none _ _ Hnn F) as Hnoq. fold (take len data) in Hnoq. cbn zeta.
    assert (Hl : Z.of_nat (length (take len data)) = len) by (unfold take; rewrite firstn_length; lia).
    rewrite take_fit_noq by (try exact Hnoq; lia). rewrite (esc_noq _ Hnoq). split; [reflexivity|].
    unfold took_all. rewrite take_fit_noq by (try exact Hnoq; lia). rewrite Z.eqb_refl. lia.
Qed.

(* ---------- the whole quoted part ---------- *)
Lemma esc_cons_len c r : Z.of_nat (length (esc (c :: r))) = cost c + Z.of_nat (length (esc r)).
Proof. rewrite !esc_length. reflexivity. Qed.
Lemma take_fit_app_all a : forall limit b, take_fit limit a = a ->
  take_fit limit (a ++ b) = a ++ take_fit (limit - Z.of_nat (length (esc a))) b.
Proof. induction a as [|c r IH]; intros limit b H; [cbn; now rewrite Z.sub_0_r|].
  cbn [app take_fit] in *. destruct (Z.leb_spec (cost c) limit) as [Hc|Hc]; [|discriminate].
  injection H as H. rewrite (IH _ _ H). f_equal. f_equal. f_equal. rewrite esc_cons_len. lia. Qed.
Lemma take_fit_stuck a : forall limit b, Z.of_nat (length (take_fit limit a)) <> Z.of_nat (length a) -> take_fit limit (a ++ b) = take_fit limit a.
Proof. induction a as [|c r IH]; intros limit b H; [cbn in H; lia|].
  cbn [app take_fit] in *. destruct (Z.leb_spec (cost c) limit); [|reflexivity]. f_equal. apply IH. cbn [length] in H. lia. Qed.
Lemma take_fit_zero l : take_fit 0 l = [].
Proof. destruct l as [|c r]; [reflexivity|]. cbn. pose proof (cost_pos c). destruct (Z.leb_spec (cost c) 0); [lia|reflexivity]. Qed.

Definition whole (desc:list Z) (info:option (list Z)) : list Z := desc ++ match info with Some t => 59 :: t | None => [] end.

(* one part through the caller's clamp, quote loop and final write *)
Lemma part_full data limit out : nonul data -> 0 <= limit ->
  let len := Z.of_nat (length data) in
  let len1 := if limit <? len then limit else len in
  let '(out2, data2, len2, limit2) := quote_loop (S (Z.to_nat len1)) data len1 limit out in
  out2 ++ take len2 data2 = out ++ esc (take_fit limit data) /\
  limit2 - len2 = (if took_all limit data then limit - Z.of_nat (length (esc data)) else 0).
Proof.
  intros Hn Hl len len1.
  assert (Hlen1 : 0 <= len1 <= Z.of_nat (length data) /\ len1 <= limit) by (subst len1 len; destruct (Z.ltb_spec limit (Z.of_nat (length data))); lia).
  pose proof (part_spec (S (Z.to_nat len1)) data len1 limit out Hn (proj1 Hlen1) (proj2 Hlen1) ltac:(lia)) as H.
  destruct (quote_loop (S (Z.to_nat len1)) data len1 limit out) as [[[out2 data2] len2] limit2]. cbn zeta in H. destruct H as [H1 H2].
  assert (Hsame : take_fit limit (take len1 data) = take_fit limit data).
  { subst len1 len. destruct (Z.ltb_spec limit (Z.of_nat (length data))).
    - unfold take. apply take_fit_firstn. lia.
    - unfold take. rewrite Nat2Z.id, firstn_all. reflexivity. }
  split; [now rewrite H1, Hsame|]. rewrite H2.
  subst len1 len. destruct (Z.ltb_spec limit (Z.of_nat (length data))) as [Hc|Hc].
  - (* clamped: not everything can be taken *)
    rewrite (took_all_clamp limit data) by lia.
    destruct (took_all limit (take limit data)) eqn:Et; [|reflexivity].
    apply took_all_true_eq in Et. pose proof (take_fit_fits limit (take limit data) Hl) as Hf. rewrite Et in Hf.
    pose proof (esc_len_ge (take limit data)). assert (Z.of_nat (length (take limit data)) = limit) by (unfold take; rewrite firstn_length; lia). lia.
  - unfold take. rewrite Nat2Z.id, firstn_all. reflexivity.
Qed.

Theorem quoted_part desc info : nonul desc -> (forall t, info = Some t -> nonul t) ->
  parts_loop 0 ((desc, Z.of_nat (length desc)) :: match info with Some t => [(t, Z.of_nat (length t))] | None => [] end) 255 [] =
  esc (take_fit 255 (whole desc info)).
Proof.
  intros Hd Hi. cbn [parts_loop]. cbn [Z.eqb Nat.eqb].
  pose proof (part_full desc 255 [] Hd ltac:(lia)) as H. cbn zeta in H.
  destruct (quote_loop _ desc _ 255 []) as [[[out2 data2] len2] limit2]. destruct H as [H1 H2]. cbn [app] in H1.
  destruct info as [t|]; unfold whole.
  - specialize (Hi t eq_refl). cbn [parts_loop]. rewrite H1, H2.
    destruct (took_all 255 desc) eqn:Et.
    + apply took_all_true_eq in Et.
      set (b := 255 - Z.of_nat (length (esc desc))).
      pose proof (take_fit_fits 255 desc ltac:(lia)) as Hf. rewrite Et in Hf.
      rewrite (take_fit_app_all desc 255 (59 :: t) Et). fold b.
      destruct (Z.eqb_spec b 0) as [Eb|Eb].
      * rewrite Eb, take_fit_zero, app_nil_r, Et. reflexivity.
      * cbn [Nat.eqb]. assert (Hb : 1 <= b) by (subst b; lia).
        pose proof (part_full t (b - 1) (esc desc ++ [59]) Hi ltac:(lia)) as P. cbn zeta in P. rewrite Et.
        destruct (quote_loop _ t _ (b - 1) (esc desc ++ [59])) as [[[o3 d3] l3] lm3]. destruct P as [P1 _].
        cbn [parts_loop]. rewrite P1. cbn [take_fit]. unfold cost at 1. cbn [Z.eqb Pos.eqb].
        destruct (Z.leb_spec 1 b); [|lia]. rewrite esc_app. cbn [esc flat_map esc1 Z.eqb Pos.eqb app]. now rewrite <- app_assoc.
    + cbn [Z.eqb]. unfold took_all in Et. apply Z.eqb_neq in Et. rewrite (take_fit_stuck desc 255 (59 :: t) Et). reflexivity.
  - cbn [parts_loop]. rewrite H1, app_nil_r. reflexivity.
Qed.
Print Assumptions quoted_part.

(* consequences stated as the property does *)
Corollary quoted_bounded desc info : Z.of_nat (length (esc (take_fit 255 (whole desc info)))) <= 255.
Proof. apply take_fit_fits. lia. Qed.
Corollary quoted_prefix desc info : exists rest, whole desc info = take_fit 255 (whole desc info) ++ rest.
Proof. apply take_fit_prefix. Qed.
Corollary quoted_maximal desc info c rest : whole desc info = take_fit 255 (whole desc info) ++ c :: rest ->
  255 < Z.of_nat (length (esc (take_fit 255 (whole desc info)))) + cost c.
Proof. apply take_fit_maximal. Qed.
