(* C02, the -113 half at message level: every well-formed unit (valid, non-empty header) either starts exactly one handler
   or queues exactly one -113 "Undefined header"; handlers themselves never add a -113 (scripts that push that very code
   excepted).  Together with Dispatch.dispatch_closed (which says exactly which handlers start) this gives the number and
   position of the -113 errors from the message text and the table alone. *)
From Coq Require Import Bool List NArith ZArith Lia.
From M Require LexModel MatchModel FmtModel UnitProgress UnitGeom.
From M Require OpsGen.
From M Require Import ParserModel Framing2 Dispatch Undefined.
Import ListNotations.
Local Open Scope Z_scope.

Definition is113 (e:event) : bool := match e with EvE c => c =? -113 | _ => false end.
Definition n113 (tr:list event) : nat := length (filter is113 tr).
(* N: no -113 event was added *)
Definition N (c c':ctx) : Prop := n113 (trace c') = n113 (trace c).
Ltac kr := (unfold N; reflexivity).
Lemma N_refl c : N c c. Proof. kr. Qed.
Lemma N_trans a b c : N a b -> N b c -> N a c. Proof. unfold N. congruence. Qed.
Lemma N_ev c e : is113 e = false -> N c (ev c e).
Proof. intro H. unfold N, n113. cbn [trace ev filter]. now rewrite H. Qed.
Lemma N_upd_in c a b : N c (upd_in c a b). Proof. kr. Qed.
Lemma N_upd_err c a b d : N c (upd_err c a b d). Proof. kr. Qed.
Lemma N_error_push c code info : code <> -113 -> N c (error_push c code info).
Proof.
  intros H1. unfold error_push, N, n113. destruct (_ =? qcap c); cbn [trace ev upd_err filter is113];
  destruct (Z.eqb_spec code (-113)); try contradiction; reflexivity.
Qed.
Lemma N_emit_empty c : N c (emit_empty c).
Proof. unfold emit_empty. destruct (_ && _); kr. Qed.
Lemma N_write c b : N c (write c b). Proof. destruct b; kr. Qed.
Lemma N_delimiter c : N c (delimiter c).
Proof. unfold delimiter. destruct (0 <? output_count c); [apply N_write|]. destruct (negb _); [apply N_write|apply N_refl]. Qed.
Lemma N_fold_write l : forall c, N c (fold_left write l c).
Proof. induction l as [|b l IH]; intro c; [apply N_refl|]. cbn. eapply N_trans; [apply N_write|apply IH]. Qed.
Lemma N_item c l : N c (item c l).
Proof. unfold item. eapply N_trans; [apply N_delimiter|]. eapply N_trans; [apply N_fold_write|]. kr. Qed.
Lemma N_result_int c w v b s : N c (result_int c w v b s).
Proof. unfold result_int. destruct (FmtModel.int2str _ _ _ _ _) as [[? ?] ?]. apply N_item. Qed.
Lemma N_result_hdr c n : N c (result_hdr c n).
Proof. unfold result_hdr. eapply N_trans; [apply N_delimiter|]. eapply N_trans; [apply N_write|]. kr. Qed.
Lemma N_result_data c d : N c (result_data c d).
Proof. unfold result_data. destruct (_ <? _); [apply N_error_push; try (intro HH; discriminate HH)|]. eapply N_trans; [|apply N_write]. kr. Qed.
Lemma N_result_error c code info desc : N c (result_error c code info desc).
Proof. unfold result_error. destruct (FmtModel.int2str _ _ _ _ _) as [[? ?] ?]. eapply N_trans; [apply N_item|apply N_write]. Qed.

(* readers *)
Lemma N_parameter c m : N c (fst (fst (parameter c m))).
Proof.
  unfold parameter. destruct (pd_len c <=? pd_pos c).
  - destruct m; cbn [fst]; [apply N_error_push; try (intro HH; discriminate HH)|apply N_refl].
  - destruct (negb (input_count c =? 0)).
    + destruct (LexModel.ret _ =? 0); cbn [fst]; [apply N_error_push; try (intro HH; discriminate HH)|].
      destruct (tok_valid _); cbn [fst]; [kr|]. eapply N_trans; [|apply N_error_push; try (intro HH; discriminate HH)]. kr.
    + destruct (tok_valid _); cbn [fst]; [kr|]. eapply N_trans; [|apply N_error_push; try (intro HH; discriminate HH)]. kr.
Qed.

Lemma N_param_int c w s m : N c (fst (fst (param_int c w s m))).
Proof. unfold param_int. pose proof (N_parameter c m) as H. destruct (parameter c m) as [[c1 ok] t]; cbn [fst] in *.
  destruct ok; [|exact H]. destruct (is_number _ false).
  - destruct (param_to_int c1 t w s). exact H.
  - destruct (is_number _ true); cbn [fst]; (eapply N_trans; [exact H|apply N_error_push; try (intro HH; discriminate HH)]). Qed.
Lemma N_param_to_choice c t o : N c (fst (fst (param_to_choice c t o))).
Proof. unfold param_to_choice. destruct (LexModel.ty t); cbn [fst]; try apply N_error_push; try (intro HH; discriminate HH).
  destruct (choice_lookup _ _); cbn [fst]; [apply N_refl|apply N_error_push; try (intro HH; discriminate HH)]. Qed.
Lemma N_param_bool c m : N c (fst (fst (param_bool c m))).
Proof. unfold param_bool. pose proof (N_parameter c m) as H. destruct (parameter c m) as [[c1 ok] t]; cbn [fst] in *.
  destruct ok; [|exact H].
  pose proof (N_param_to_choice c1 t bool_def) as H2.
  destruct (LexModel.ty t); try (destruct (param_to_int c1 t 32 true); exact H);
  destruct (param_to_choice c1 t bool_def) as [[c2 r] v]; cbn [fst] in *; (eapply N_trans; [exact H|exact H2]). Qed.
Lemma N_param_choice c m : N c (fst (fst (param_choice c m))).
Proof. unfold param_choice. pose proof (N_parameter c m) as H. destruct (parameter c m) as [[c1 ok] t]; cbn [fst] in *.
  destruct ok; [|exact H]. eapply N_trans; [exact H|apply N_param_to_choice]. Qed.
Lemma N_param_chars c m : N c (fst (fst (param_chars c m))).
Proof. unfold param_chars. pose proof (N_parameter c m) as H. destruct (parameter c m) as [[c1 ok] t]; cbn [fst] in *. destruct ok; exact H. Qed.
Lemma N_param_text c b m : N c (fst (fst (fst (param_text c b m)))).
Proof. unfold param_text. pose proof (N_parameter c m) as H. destruct (parameter c m) as [[c1 ok] t]; cbn [fst] in *.
  destruct ok; [|exact H]. destruct (is_quote _).
  - destruct (copy_loop _ _ _ _ _ _ _ _). exact H.
  - cbn [fst]. eapply N_trans; [exact H|apply N_error_push; try (intro HH; discriminate HH)]. Qed.
Lemma N_param_block c m : N c (fst (fst (param_block c m))).
Proof. unfold param_block. pose proof (N_parameter c m) as H. destruct (parameter c m) as [[c1 ok] t]; cbn [fst] in *.
  destruct ok; [|exact H]. destruct (LexModel.ty t); cbn [fst]; try exact H; (eapply N_trans; [exact H|apply N_error_push; try (intro HH; discriminate HH)]). Qed.
Lemma N_param_fp c d m : N c (fst (fst (param_fp c d m))).
Proof. unfold param_fp. pose proof (N_parameter c m) as H. destruct (parameter c m) as [[c1 ok] t]; cbn [fst] in *.
  destruct ok; [|exact H]. destruct (is_number _ false); [exact H|].
  destruct (is_number _ true); cbn [fst]; (eapply N_trans; [exact H|apply N_error_push; try (intro HH; discriminate HH)]). Qed.
Lemma N_param_number c m : N c (fst (fst (param_number c m))).
Proof. unfold param_number. pose proof (N_parameter c m) as H. destruct (parameter c m) as [[c1 ok] t]; cbn [fst] in *.
  destruct ok; cbn [negb]; [|exact H].
  pose proof (N_param_to_choice c1 t Generated.gen_specials) as H2.
  destruct (LexModel.ty t); cbn [fst]; try exact H; try (eapply N_trans; [exact H|apply N_error_push; try (intro HH; discriminate HH)]).
  - destruct (param_to_choice c1 t Generated.gen_specials) as [[c2 r] tag]; cbn [fst] in *. eapply N_trans; [exact H|exact H2].
  - destruct (skip_isspace _); cbn [fst]; [exact H|]. destruct (unit_lookup _) as [[un mult]|]; cbn [fst]; [exact H|].
    eapply N_trans; [exact H|apply N_error_push; try (intro HH; discriminate HH)]. Qed.


(* scripts that do not push that very code themselves *)
Definition op_no113 (o:op) : bool := match o with PUSH code => negb (code =? -113) | _ => true end.
Lemma N_step o c d : op_no113 o = true -> N c (fst (step o c d)).
Proof.
  intro Hop. destruct o; cbn [step].
  - pose proof (N_param_int c 32 true m) as H. destruct (param_int c 32 true m) as [[c1 ok] v]; cbn [fst] in *. eapply N_trans; [exact H|apply N_ev; reflexivity].
  - pose proof (N_param_int c 32 false m) as H. destruct (param_int c 32 false m) as [[c1 ok] v]; cbn [fst] in *. eapply N_trans; [exact H|apply N_ev; reflexivity].
  - pose proof (N_param_int c 64 true m) as H. destruct (param_int c 64 true m) as [[c1 ok] v]; cbn [fst] in *. eapply N_trans; [exact H|apply N_ev; reflexivity].
  - pose proof (N_param_int c 64 false m) as H. destruct (param_int c 64 false m) as [[c1 ok] v]; cbn [fst] in *. eapply N_trans; [exact H|apply N_ev; reflexivity].
  - pose proof (N_param_bool c m) as H. destruct (param_bool c m) as [[c1 ok] v]; cbn [fst] in *. eapply N_trans; [exact H|apply N_ev; reflexivity].
  - pose proof (N_param_choice c m) as H. destruct (param_choice c m) as [[c1 ok] v]; cbn [fst] in *. eapply N_trans; [exact H|apply N_ev; reflexivity].
  - pose proof (N_param_chars c m) as H. destruct (param_chars c m) as [[c1 ok] v]; cbn [fst] in *. eapply N_trans; [exact H|apply N_ev; reflexivity].
  - pose proof (N_param_text c buflen m) as H. destruct (param_text c buflen m) as [[[c1 ok] v] nul]; cbn [fst] in *. eapply N_trans; [exact H|apply N_ev; reflexivity].
  - pose proof (N_param_block c m) as H. destruct (param_block c m) as [[c1 ok] v]; cbn [fst] in *. eapply N_trans; [exact H|apply N_ev; reflexivity].
  - pose proof (N_param_fp c true m) as H. destruct (param_fp c true m) as [[c1 ok] v]; cbn [fst] in *. eapply N_trans; [exact H|apply N_ev; reflexivity].
  - pose proof (N_param_fp c false m) as H. destruct (param_fp c false m) as [[c1 ok] v]; cbn [fst] in *. eapply N_trans; [exact H|apply N_ev; reflexivity].
  - pose proof (N_param_number c m) as H. destruct (param_number c m) as [[c1 ok] v]; cbn [fst] in *. eapply N_trans; [exact H|apply N_ev; reflexivity].
  - apply N_result_int.
  - apply N_result_int.
  - apply N_result_int.
  - apply N_result_int.
  - apply N_result_int.
  - apply N_item.
  - apply N_item.
  - eapply N_trans; [apply N_result_hdr|apply N_result_data].
  - apply N_result_hdr.
  - apply N_result_data.
  - cbn [op_no113] in Hop. apply negb_true_iff in Hop. apply Z.eqb_neq in Hop. apply N_error_push; exact Hop.
  - destruct (cur c) as [[[pat tg] sc]|]; [|apply N_refl]. destruct (MatchModel.matchCommand _ _ _ _) as [r [a|]]; cbn [fst]; apply N_ev; reflexivity.
  - destruct (syst_err_parts c) as [[code info] q']. cbn [fst]. eapply N_trans; [|apply N_result_error]. eapply N_trans; [|apply N_emit_empty]. kr.
  - apply N_refl.
  - apply N_result_int.
  - apply N_result_int.
  - apply N_result_int.
  - apply N_result_int.
  - apply N_item.
  - apply N_item.
  - apply N_item.
  - destruct (cur c) as [[[pat tg] sc]|]; [|apply N_ev; reflexivity]. destruct (MatchModel.matchCommand _ _ _ _) as [r a]; cbn [fst]; apply N_ev; reflexivity.
  - apply (OpsGen.R_result_array N N_refl N_trans N_result_int N_result_hdr N_result_data).
  - pose proof (OpsGen.R_param_array N N_refl N_trans N_param_int N_param_fp ty (Z.to_nat cap) c m []) as H.
    destruct (param_array _ _ c m []) as [[c1 m1] vals]; cbn [fst] in *. eapply N_trans; [exact H|apply N_ev; reflexivity].
  - pose proof (N_parameter c m) as H. destruct (parameter c m) as [[c1 ok] t]; cbn [fst] in *. destruct ok; [|eapply N_trans; [exact H|apply N_ev; reflexivity]].
    pose proof (OpsGen.R_expr_numlist N N_refl (fun c => N_error_push c (-170) None ltac:(discriminate)) (fun c => N_error_push c (-104) None ltac:(discriminate)) c1 t idx) as H2.
    destruct (expr_numlist c1 t idx) as [c2 rep]; cbn [fst] in *. eapply N_trans; [exact H|]. eapply N_trans; [exact H2|apply N_ev; reflexivity].
  - pose proof (N_parameter c m) as H. destruct (parameter c m) as [[c1 ok] t]; cbn [fst] in *. destruct ok; [|eapply N_trans; [exact H|apply N_ev; reflexivity]].
    pose proof (OpsGen.R_expr_chanlist N N_refl (fun c => N_error_push c (-170) None ltac:(discriminate)) (fun c => N_error_push c (-104) None ltac:(discriminate)) c1 t idx cap) as H2.
    destruct (expr_chanlist c1 t idx cap) as [c2 rep]; cbn [fst] in *. eapply N_trans; [exact H|]. eapply N_trans; [exact H2|apply N_ev; reflexivity].
Qed.
Lemma N_run_script s : forallb op_no113 s = true -> forall c d, N c (fst (run_script s c d)).
Proof.
  induction s as [|o rest IH]; intros Hs c d; [apply N_refl|]. rewrite run_script_cons.
  cbn [forallb] in Hs. apply andb_prop in Hs as [Ho Hrest]. specialize (IH Hrest).
  pose proof (N_step o c d Ho) as H. destruct (step o c d) as [c1 go]; cbn [fst] in H. destruct go; [eapply N_trans; [exact H|apply IH]|exact H].
Qed.


(* ---------- one unit: exactly one handler start or exactly one -113 ---------- *)
Definition table_no113 (c:ctx) : Prop := forall pat tag script, In (pat, tag, script) (cmds c) -> forallb op_no113 script = true.
Definition count (c:ctx) : nat := (n113 (trace c) + length (hdrs (trace c)))%nat.
Lemma count_NK c c' : N c c' -> K c c' -> count c' = count c.
Proof. unfold count, N. intros H (_ & _ & H2). now rewrite H, H2. Qed.

Lemma N_process_command c d : (match cur c with Some (_, _, script) => forallb op_no113 script = true | None => True end) ->
  N c (fst (process_command c d)).
Proof.
  unfold process_command. destruct (cur c) as [[[pat tag] script]|]; [|intros _; apply N_refl]. intro Hs. cbv zeta.
  pose proof (N_run_script script Hs (ev (upd_flags c false 0 0 0) (EvH tag (slice (mem (upd_flags c false 0 0 0)) (raw_off (upd_flags c false 0 0 0)) (raw_len (upd_flags c false 0 0 0))))) d) as H.
  destruct (run_script script _ d) as [c3 okret]. cbn [fst] in H.
  assert (H0 : N c c3) by (eapply N_trans; [|exact H]; eapply N_trans; [|apply N_ev; reflexivity]; kr).
  assert (H4 : forall c4, N c3 c4 -> N c (fst (if (pd_pos (if 0 <? output_count c4 then upd_out c4 false (output_count c4) (arb_rem c4) else c4) <?
                                                   pd_len (if 0 <? output_count c4 then upd_out c4 false (output_count c4) (arb_rem c4) else c4)) &&
                                                  negb (cmd_error (if 0 <? output_count c4 then upd_out c4 false (output_count c4) (arb_rem c4) else c4))
                                               then (error_push (if 0 <? output_count c4 then upd_out c4 false (output_count c4) (arb_rem c4) else c4) (-108) None, false)
                                               else ((if 0 <? output_count c4 then upd_out c4 false (output_count c4) (arb_rem c4) else c4), true)))).
  { intros c4 Hc4. set (c5 := if 0 <? output_count c4 then upd_out c4 false (output_count c4) (arb_rem c4) else c4).
    assert (H5 : N c c5). { eapply N_trans; [exact H0|]. eapply N_trans; [exact Hc4|]. unfold c5. destruct (0 <? output_count c4); kr. }
    destruct ((pd_pos c5 <? pd_len c5) && negb (cmd_error c5)); cbn [fst]; [eapply N_trans; [exact H5|apply N_error_push; lia]|exact H5]. }
  destruct (negb okret).
  - destruct (negb (cmd_error c3)).
    + specialize (H4 (error_push c3 (-200) None) (N_error_push c3 (-200) None ltac:(lia))).
      destruct ((pd_pos _ <? pd_len _) && negb (cmd_error _)) in *; cbn [fst] in *; exact H4.
    + specialize (H4 c3 (N_refl _)). destruct ((pd_pos _ <? pd_len _) && negb (cmd_error _)) in *; cbn [fst] in *; exact H4.
  - destruct (cmd_error c3); specialize (H4 c3 (N_refl _)); destruct ((pd_pos _ <? pd_len _) && negb (cmd_error _)) in *; cbn [fst] in *; exact H4.
Qed.

Definition valid_unit (l:bytes) : bool :=
  let h := LexModel.u_hdr (LexModel.detect_unit l) in
  match LexModel.ty h with LexModel.T_INVALID => false | _ => 0 <? LexModel.len h end.

Lemma fst3_let {A B D} (X:A*B*D) (r:Z) : fst (fst (fst (let '(a, b, d) := X in (a, b, d, r)))) = fst (fst X).
Proof. destruct X as [[a b] d]. reflexivity. Qed.

Lemma body_one c off len prev result d : table_no113 c ->
  count (fst (fst (fst (loop_body c off len prev result d)))) = (count c + (if valid_unit (slice (mem c) off len) then 1 else 0))%nat.
Proof.
  intro Ht. unfold loop_body, valid_unit. cbv zeta. rewrite fst3_let.
  set (u := LexModel.detect_unit (slice (mem c) off len)).
  assert (Hgen : 0 <? LexModel.len (LexModel.u_hdr u) = true ->
     count (fst (fst (let '(m1, hp, hl) := compose (mem c) prev (off + LexModel.ptr (LexModel.u_hdr u)) (LexModel.len (LexModel.u_hdr u)) in
           match find_cmd (upd_mem c m1) (slice m1 hp hl) with
           | Some e =>
               let '(c3, res) := process_command (upd_unit (upd_mem c m1) e (off + LexModel.ptr (LexModel.u_data u)) (LexModel.len (LexModel.u_data u)) hp hl) d in
               (c3, Some (hp, hl), result && res)
           | None => (error_push (upd_mem c m1) (-113) (Some (dropm m1 off, trim_crlf m1 off (Z.to_nat (LexModel.u_consumed u)))), Some (hp, hl), false)
           end))) = (count c + 1)%nat).
  { intros _. destruct (compose (mem c) prev (off + LexModel.ptr (LexModel.u_hdr u)) (LexModel.len (LexModel.u_hdr u))) as [[m1 hp] hl].
    destruct (find_cmd (upd_mem c m1) (slice m1 hp hl)) as [[[pat tag] script]|] eqn:Ef.
    - set (c2 := upd_unit (upd_mem c m1) (pat, tag, script) (off + LexModel.ptr (LexModel.u_data u)) (LexModel.len (LexModel.u_data u)) hp hl).
      assert (Hs : forallb op_no113 script = true). { apply find_cmd_in in Ef. cbn [cmds upd_mem] in Ef. eapply Ht, Ef. }
      pose proof (N_process_command c2 d) as HN. cbn [cur c2 upd_unit] in HN. specialize (HN Hs).
      pose proof (unit_dispatch c2 d pat tag script eq_refl) as HK. cbn zeta in HK.
      destruct (process_command c2 d) as [c3 res]. cbn [fst] in *. destruct HK as (_ & _ & HH).
      unfold count. unfold N in HN. rewrite HN, HH. cbn [length]. change (trace c2) with (trace c). lia.
    - cbn [fst]. unfold count, error_push. destruct (_ =? qcap (upd_mem c m1)); cbn [trace ev upd_err upd_mem]; unfold n113, hdrs; cbn [filter is113 is_hdr Z.eqb Pos.eqb length]; lia. }
  destruct (LexModel.ty (LexModel.u_hdr u));
    try (destruct (0 <? LexModel.len (LexModel.u_hdr u)) eqn:El; [apply Hgen; reflexivity|cbn [fst]; lia]).
  cbn [fst]. rewrite (count_NK c (error_push c (-101) None)); [lia|apply N_error_push; lia|apply K_error_push].
Qed.

(* ---------- the whole message ---------- *)
(* number of well-formed units (valid, non-empty header) the scanner finds in a message text *)
Fixpoint nvalid (fuel:nat) (l:bytes) : nat :=
  match fuel with O => O | S f =>
    let r := LexModel.u_consumed (LexModel.detect_unit l) in
    ((if valid_unit l then 1 else 0) + (if (r <? Z.of_nat (length l))%Z then nvalid f (LexModel.drop r l) else 0))%nat
  end.

Lemma slice_step m m' off len r : 0 <= off -> 0 <= r <= len -> off + len <= Z.of_nat (length m) -> length m' = length m ->
  skipn (Z.to_nat (off + r)) m' = skipn (Z.to_nat (off + r)) m ->
  slice m' (off + r) (len - r) = LexModel.drop r (slice m off len).
Proof.
  intros Ho Hr Hfit Hl Hs. unfold slice, LexModel.drop. rewrite Hs.
  replace (Z.to_nat (off + r)) with (Z.to_nat off + Z.to_nat r)%nat by lia. rewrite <- skipn_skipn'.
  rewrite skipn_firstn_comm. f_equal. lia.
Qed.

Lemma loop_count fuel : forall c off len prev ps result d, table_no113 c ->
  0 <= off -> 0 <= len -> off + len <= Z.of_nat (length (mem c)) -> prev_ok (mem c) off prev ps ->
  count (fst (parse_loop fuel c off len prev result d)) = (count c + nvalid fuel (slice (mem c) off len))%nat.
Proof.
  induction fuel as [|f IH]; intros c off len prev ps result d Ht Hoff Hlen Hfit Hprev; [cbn; lia|].
  rewrite parse_loop_S. cbn [nvalid].
  pose proof (body_one c off len prev result d Ht) as Hb1.
  pose proof (body_dispatch consumed_bounds UnitGeom.header_inside_unit c off len prev ps result d Hoff Hlen Hfit Hprev) as Hb. cbn zeta in Hb.
  assert (Hsl : length (slice (mem c) off len) = Z.to_nat len) by (apply slice_length; lia).
  pose proof (consumed_bounds (slice (mem c) off len)) as Hr. rewrite Hsl in Hr.
  set (r := LexModel.u_consumed (LexModel.detect_unit (slice (mem c) off len))) in *.
  destruct (loop_body c off len prev result d) as [[[c1 prev1] result1] r1]. cbn [fst] in Hb1.
  destruct (spec_body (mem c) (cmds c) off len ps) as [evs ps'].
  destruct Hb as (-> & _ & B3 & B4 & B5 & B6).
  rewrite Hsl, Z2Nat.id by lia.
  destruct (Z.ltb_spec r len) as [Hlt|Hge].
  - assert (Ht1 : table_no113 c1) by (unfold table_no113; rewrite B3; exact Ht).
    rewrite (IH c1 (off + r) (len - r) prev1 ps' result1 d Ht1 ltac:(lia) ltac:(lia) ltac:(lia) B6).
    rewrite (slice_step (mem c) (mem c1) off len r Hoff ltac:(lia) Hfit B4 B5). lia.
  - cbn [fst]. lia.
Qed.

(* C02, second clause at message level: every well-formed unit of the message is accounted for by exactly one handler start
   or exactly one -113 -- so the number of -113 errors is the number of well-formed units minus the handlers that
   dispatch_closed says start, i.e. the number of units whose effective header no table entry accepts *)
Theorem units_accounted c len d : 0 <= len <= Z.of_nat (length (mem c)) -> table_no113 c ->
  let c' := fst (scpi_parse c len d) in
  (n113 (trace c') + length (hdrs (trace c')) = n113 (trace c) + length (hdrs (trace c)) + nvalid (S (Z.to_nat len)) (slice (mem c) 0 len))%nat.
Proof.
  intros Hl Ht. cbn zeta. unfold scpi_parse. set (c0 := upd_out c true 0 (arb_rem c)).
  pose proof (loop_count (S (Z.to_nat len)) c0 0 len None None true d Ht ltac:(lia) ltac:(lia) ltac:(cbn [mem c0 upd_out]; lia) I) as H.
  destruct (parse_loop (S (Z.to_nat len)) c0 0 len None true d) as [c1 res]. cbn [fst] in *.
  change (mem c0) with (mem c) in H. unfold count in H. change (trace c0) with (trace c) in H.
  destruct (negb (first_output c1)); cbn [trace upd_out ev write]; unfold n113, hdrs in *; cbn [filter is113 is_hdr]; exact H.
Qed.
Corollary undefined_count c len d : 0 <= len <= Z.of_nat (length (mem c)) -> table_no113 c ->
  let c' := fst (scpi_parse c len d) in
  (n113 (trace c') + length (spec_units (S (Z.to_nat len)) (mem c) (cmds c) 0 len None) = n113 (trace c) + nvalid (S (Z.to_nat len)) (slice (mem c) 0 len))%nat.
Proof.
  intros Hl Ht. pose proof (units_accounted c len d Hl Ht) as H. pose proof (dispatch_closed c len d Hl) as Hd. cbn zeta in *.
  rewrite Hd, app_length, rev_length, map_length in H. lia.
Qed.
Print Assumptions units_accounted.
Print Assumptions undefined_count.

(* non-vacuity: TEST:A?;FOO;B? over the two-entry table of Undefined.v -- three well-formed units, two handlers, one -113 *)
Example t_accounted :
  nvalid 16 t_msg = 3%nat /\ length (spec_units 16 t_msg t_cmds 0 15 None) = 2%nat /\
  n113 (trace (fst (scpi_parse t_ctx 15 desc_of))) = 1%nat.
Proof. vm_compute. auto. Qed.
