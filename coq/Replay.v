(* Evaluation of whole scenario lines inside Coq: ./check re-runs a sample of the correspondence cases with vm_compute on
   these definitions and requires what the extracted model driver printed (keeps extraction and ocaml/drv.ml honest). *)
From Coq Require Import Bool List NArith ZArith.
From M Require Import ParserModel.
From M Require Glue.
Import ListNotations.
Local Open Scope Z_scope.

(* the driver prints consecutive writes as one W token *)
Fixpoint merge_w (tr:list event) : list event :=
  match tr with
  | EvW a :: r => match merge_w r with EvW b :: r' => EvW (a ++ b) :: r' | r' => EvW a :: r' end
  | e :: r => e :: merge_w r
  | [] => []
  end.
Definition fresh (cap qcap:Z) (table:list (bytes * Z * list op)) : ctx :=
  {| cmds := table; mem := []; cap := cap; first_output := true; output_count := 0; input_count := 0; cmd_error := false; arb_rem := 0;
     pd_off := 0; pd_len := 0; pd_pos := 0; cur := None; raw_off := 0; raw_len := 0; queue := []; qcap := qcap; qma := false; trace := [] |}.
Definition run_inputs (c:ctx) (ins:list bytes) : ctx := fold_left (fun c x => scpi_input c x Glue.desc_of) ins c.
Definition observe (c:ctx) : list event * bytes * list (Z * option bytes) := (merge_w (rev (trace c)), mem c, queue c).
