(* C02, the other half: a unit whose effective header no entry accepts starts no handler and queues one -113 with the unit's text *)
From Coq Require Import Bool List NArith ZArith Lia.
From M Require LexModel MatchModel FmtModel.
From M Require Import ParserModel Framing2 Dispatch.
Import ListNotations.
Local Open Scope Z_scope.

(* what error_push does to the queue: append (code, text), or mark overflow in the last slot *)
Lemma error_push_queue c code info :
  queue (error_push c code info) =
  let text := match info with
              | Some (t, n) => let n' := if n =? 0 then Z.of_nat (length (cstr 255 t)) else n in Some (cstr (Z.to_nat n') t)
              | None => None end in
  if Z.of_nat (length (queue c)) =? qcap c then replace_last (queue c) (-350, None) else queue c ++ [(code, text)].
Proof. unfold error_push. destruct (Z.of_nat (length (queue c)) =? qcap c); reflexivity. Qed.

Theorem undefined_header c off len prev result d :
  let u := LexModel.detect_unit (slice (mem c) off len) in let h := LexModel.u_hdr u in
  LexModel.ty h <> LexModel.T_INVALID -> 0 < LexModel.len h ->
  let '(m1, hp, hl) := compose (mem c) prev (off + LexModel.ptr h) (LexModel.len h) in
  first_match (cmds c) (slice m1 hp hl) = None ->
  loop_body c off len prev result d =
    (error_push (upd_mem c m1) (-113) (Some (dropm m1 off, trim_crlf m1 off (Z.to_nat (LexModel.u_consumed u)))),
     Some (hp, hl), false, LexModel.u_consumed u).
Proof.
  cbn zeta. intros Hty Hlen. unfold loop_body. cbv zeta.
  set (u := LexModel.detect_unit (slice (mem c) off len)) in *.
  destruct (Z.ltb_spec 0 (LexModel.len (LexModel.u_hdr u))) as [_|Hbad]; [|lia].
  destruct (compose (mem c) prev (off + LexModel.ptr (LexModel.u_hdr u)) (LexModel.len (LexModel.u_hdr u))) as [[m1 hp] hl].
  intro Hnone. rewrite find_cmd_first. cbn [cmds upd_mem]. rewrite Hnone.
  destruct (LexModel.ty (LexModel.u_hdr u)); try reflexivity. congruence.
Qed.
(* no handler is started in that iteration, the buffer and table are untouched *)
Corollary undefined_header_quiet c m1 info : K (upd_mem c m1) (error_push (upd_mem c m1) (-113) info).
Proof. apply K_error_push. Qed.

(* when nothing was composed (first unit, leading colon, common command, or no colon in the previous header)
   the text is the unit as written, up to its first NUL, without the trailing CR/LF *)
Corollary undefined_text_as_written c off r :
  let info := Some (dropm (mem c) off, trim_crlf (mem c) off r) in
  Z.of_nat (length (queue c)) <> qcap c -> trim_crlf (mem c) off r <> 0 ->
  queue (error_push c (-113) info) = queue c ++ [(-113, Some (cstr (Z.to_nat (trim_crlf (mem c) off r)) (dropm (mem c) off)))].
Proof.
  cbn zeta. intros Hq Hr. rewrite error_push_queue. cbn zeta.
  destruct (Z.eqb_spec (Z.of_nat (length (queue c))) (qcap c)); [contradiction|].
  destruct (Z.eqb_spec (trim_crlf (mem c) off r) 0); [contradiction|reflexivity].
Qed.
Print Assumptions undefined_header.

(* the worked example of Dispatch0 on the fixed model: TEST:A?;FOO;B? *)
Definition t_cmds : list (bytes * Z * list op) :=
  [([84;69;83;84;58;65;63]%N, 1, [RI32 1]); ([84;69;83;84;58;66;63]%N, 2, [RI32 2])].
Definition t_msg : bytes := [84;69;83;84;58;65;63;59;70;79;79;59;66;63;10]%N.
Definition t_ctx : ctx :=
  {| cmds := t_cmds; mem := t_msg; cap := 256; first_output := true; output_count := 0; input_count := 0; cmd_error := false; arb_rem := 0;
     pd_off := 0; pd_len := 0; pd_pos := 0; cur := None; raw_off := 0; raw_len := 0; queue := []; qcap := 4; qma := false; trace := [] |}.
Example fixed_runs_both :
  let c' := fst (scpi_parse t_ctx 15 desc_of) in
  rev (hdrs (trace c')) = [EvH 1 [84;69;83;84;58;65;63]%N; EvH 2 [84;69;83;84;58;66;63]%N] /\
  map fst (queue c') = [-113] /\ W c' = [49;59;50;13;10]%N.
Proof. vm_compute. auto. Qed.
