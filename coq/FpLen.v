(* C16 / C06: the result writers never truncate a floating-point text.  SCPI_ResultDouble / SCPI_ResultFloat format into a
   32-byte stack buffer; the %g model's text has at most P + 7 characters for EVERY value (sign, digits, point, up to three
   leading zeros or an exponent field of at most four characters), i.e. 22 for doubles and 13 for floats, so what the model of
   the result writers emits (the whole text) is what SCPI_DoubleToStr leaves in that buffer. *)
From Coq Require Import Bool List ZArith Lia.
From M Require Import GFmt BufModel.
Import ListNotations.
Local Open Scope Z_scope.

Lemma digits_of_len k : forall v acc, length (digits_of k v acc) = (k + length acc)%nat.
Proof. induction k as [|k IH]; intros v acc; [reflexivity|]. cbn [digits_of]. rewrite IH. cbn [length]. lia. Qed.
Lemma strip_rev_len l : (length (strip_zeros_rev l) <= length l)%nat.
Proof.
  induction l as [|c r IH]; [cbn; lia|].
  assert (H : strip_zeros_rev (c :: r) = strip_zeros_rev r \/ strip_zeros_rev (c :: r) = c :: r).
  { destruct c as [|p|p]; try (right; reflexivity). do 6 (destruct p as [p|p|]; try (right; reflexivity)). left. reflexivity. }
  destruct H as [-> | ->]; cbn [length]; lia.
Qed.
Lemma strip_len l : (length (strip_trailing_zeros l) <= length l)%nat.
Proof. unfold strip_trailing_zeros. rewrite rev_length. pose proof (strip_rev_len (rev l)) as H. rewrite rev_length in H. exact H. Qed.
Lemma exp_field_len x : (length (exp_field x) <= 4)%nat.
Proof. unfold exp_field. destruct (Z.abs x <? 10); [cbn; lia|]. destruct (Z.abs x <? 100); cbn [length]; rewrite digits_of_len; cbn; lia. Qed.
Lemma dot_len (fp:list Z) : (length (match fp with [] => [] | _ => 46%Z :: fp end) <= 1 + length fp)%nat.
Proof. destruct fp; cbn [length]; lia. Qed.

Theorem fmt_g_length P neg n d : 1 <= P -> Z.of_nat (length (fmt_g P neg n d)) <= P + 7.
Proof.
  intro HP. unfold fmt_g. destruct (Z.eqb_spec P 0); [lia|].
  assert (Hs : (length (if neg then [45%Z] else []) <= 1)%nat) by (destruct neg; cbn; lia).
  destruct (n =? 0); [rewrite app_length; cbn [length]; lia|].
  destruct (sig_digits P n d) as [D X].
  set (ds := digits_of (Z.to_nat P) D []).
  assert (Hdl : length ds = Z.to_nat P) by (subst ds; rewrite digits_of_len; cbn; lia).
  destruct ((X <? P) && (-4 <=? X)) eqn:Est.
  - apply andb_true_iff in Est as [E1 E2]. apply Z.ltb_lt in E1. apply Z.leb_le in E2.
    destruct (Z.leb_spec 0 X).
    + rewrite !app_length. pose proof (dot_len (strip_trailing_zeros (skipn (Z.to_nat (X + 1)) ds))) as H1.
      pose proof (strip_len (skipn (Z.to_nat (X + 1)) ds)) as H2. rewrite skipn_length in H2. rewrite firstn_length. lia.
    + rewrite !app_length. pose proof (strip_len (repeat 48 (Z.to_nat (- X - 1)) ++ ds)) as H2. rewrite app_length, repeat_length in H2.
      cbn [length]. lia.
  - rewrite !app_length. pose proof (dot_len (strip_trailing_zeros (tl ds))) as H1. pose proof (strip_len (tl ds)) as H2.
    pose proof (exp_field_len X) as H3. assert (length (tl ds) = (Z.to_nat P - 1)%nat) by (destruct ds; cbn [length tl] in *; lia).
    cbn [length]. lia.
Qed.

Lemma nonfinite_len neg fr : (length (nonfinite neg fr) <= 4)%nat.
Proof. unfold nonfinite. destruct neg, (fr =? 0); cbn; lia. Qed.
Theorem fmt_double_length bits : Z.of_nat (length (fmt_double 15 bits)) <= 22.
Proof.
  unfold fmt_double. destruct (_ =? 2047); [pose proof (nonfinite_len (2 ^ 63 <=? bits) ((bits mod 2 ^ 63) mod 2 ^ 52)); lia|].
  destruct (dec64 bits) as [[neg n] d]. pose proof (fmt_g_length 15 neg n d ltac:(lia)). lia.
Qed.
Theorem fmt_float_length bits : Z.of_nat (length (fmt_float 6 bits)) <= 13.
Proof.
  unfold fmt_float. destruct (_ =? 255); [pose proof (nonfinite_len (2 ^ 31 <=? bits) ((bits mod 2 ^ 31) mod 2 ^ 23)); lia|].
  destruct (dec32 bits) as [[neg n] d]. pose proof (fmt_g_length 6 neg n d ltac:(lia)). lia.
Qed.

(* SCPI_ResultDouble / SCPI_ResultFloat: 32-byte buffer, whole text, NUL-terminated, for every bit pattern *)
Theorem result_double_whole bits : double_to_str bits 32 = (fmt_double 15 bits, true, Z.of_nat (length (fmt_double 15 bits)), false).
Proof.
  unfold double_to_str, fp_to_str. change (32 =? 0) with false. cbv iota.
  rewrite firstn_all2; [reflexivity|]. pose proof (fmt_double_length bits). change (Z.to_nat (32 - 1)) with 31%nat. lia.
Qed.
Theorem result_float_whole bits : float_to_str bits 32 = (fmt_float 6 bits, true, Z.of_nat (length (fmt_float 6 bits)), false).
Proof.
  unfold float_to_str, fp_to_str. change (32 =? 0) with false. cbv iota.
  rewrite firstn_all2; [reflexivity|]. pose proof (fmt_float_length bits). change (Z.to_nat (32 - 1)) with 31%nat. lia.
Qed.
Print Assumptions fmt_g_length.
Print Assumptions result_double_whole.
Print Assumptions result_float_whole.
