(* C07 -- property theorems only: every statement is closed by `exact` on a lemma proved elsewhere.
   Statements are pinned by coq/statements/C07.json; ./check compares. *)
From Coq Require Import Bool List NArith ZArith Lia.
From M Require IntRoundTrip.
From M Require RtInt.
From M Require RtText.
From M Require RtBlock.
From M Require Tie.
From M Require ArrayRoundTrip.
From M Require RtFloat.
From M Require ArrayRoundTrip64.
From M Require IntRtSigned.
From M Require DecSpec.
From M Require FmtModel.
From M Require GFmt.
From M Require GFmtSpec.
From M Require ILog.
From M Require IntFmtProofs.
From M Require IntRoundTrip.
From M Require LexBounds.
From M Require LexModel.
From M Require ListWs.
From M Require MoreSpecs.
From M Require NumDecode.
From M Require NumList.
From M Require NumSyntax.
From M Require ParamList.
From M Require ParserModel.
From M Require RtBlock.
From M Require SimpleSpecs.
From M Require StrTo.
Import ListNotations.

Module T_rt_unsigned. Import IntRoundTrip. Local Open Scope bool_scope. Local Open Scope Z_scope.
Import FmtModel IntFmtProofs. Local Open Scope Z_scope.
Theorem C07_rt_unsigned :
  forall b u rest,
  (b = 2 \/ b = 8 \/ b = 10 \/ b = 16) -> 0 < u < 2^64 -> stops b rest ->
  digs b (canon_digits b u ++ rest) 0 0 = (u, Z.of_nat (length (canon_digits b u))).
Proof. exact (@IntRoundTrip.rt_unsigned). Qed.
End T_rt_unsigned.
Definition C07_rt_unsigned := @T_rt_unsigned.C07_rt_unsigned.

Module T_rt_signed. Import RtInt. Local Open Scope bool_scope. Local Open Scope Z_scope.
Import FmtModel IntFmtProofs LexModel LexBounds DecSpec MoreSpecs ParserModel RtBlock StrTo. Local Open Scope Z_scope.
Theorem C07_rt_signed :
  forall w v rest,
  (w = 32 \/ w = 64) -> - 2 ^ (w - 1) <= v < 2 ^ (w - 1) -> stops 10 rest ->
  let '(s, _, _) := int2str w v (w + 1) 10 true in
  let '(used, m, ng) := strto (bz s ++ rest) 10 in (0 <? used) = true /\ wraps w (strtol_val m ng) = v.
Proof. exact (@RtInt.rt_signed). Qed.
End T_rt_signed.
Definition C07_rt_signed := @T_rt_signed.C07_rt_signed.

Module T_result_text_lexes. Import RtText. Local Open Scope bool_scope. Local Open Scope Z_scope.
Import LexModel LexBounds DecSpec MoreSpecs ParserModel. Local Open Scope Z_scope.
Theorem C07_result_text_lexes :
  forall t rest,
  text7 t -> starts (ischr 34%N) rest = false ->
  let w := 34%N :: quote_text t ++ [34%N] in
  disp (lex_string (w ++ rest)) = Z.of_nat (length w).
Proof. exact (@RtText.result_text_lexes). Qed.
End T_result_text_lexes.
Definition C07_result_text_lexes := @T_result_text_lexes.C07_result_text_lexes.

Module T_rt_text_copy. Import RtText. Local Open Scope bool_scope. Local Open Scope Z_scope.
Import LexModel LexBounds DecSpec MoreSpecs ParserModel. Local Open Scope Z_scope.
Theorem C07_rt_text_copy :
  forall t rest buflen,
  let tokn := 34%N :: quote_text t ++ [34%N] in
  Z.of_nat (length tokn) <= buflen ->
  copy_loop (S (length tokn)) (tokn ++ rest) 34%N 1 0 (Z.of_nat (length tokn)) buflen [] = (t, Z.of_nat (length t)).
Proof. exact (@RtText.rt_text_copy). Qed.
End T_rt_text_copy.
Definition C07_rt_text_copy := @T_rt_text_copy.C07_rt_text_copy.

Module T_block_header_block. Import RtBlock. Local Open Scope bool_scope. Local Open Scope Z_scope.
Import FmtModel IntFmtProofs LexModel LexBounds DecSpec MoreSpecs ParserModel. Local Open Scope Z_scope.
Theorem C07_block_header_block :
  forall n d,
  Z.of_nat (length d) = n -> 0 <= n < 10^9 ->
  Block (block_header n ++ d) (2 + Z.of_nat (length (hdr_digits n))) n.
Proof. exact (@RtBlock.block_header_block). Qed.
End T_block_header_block.
Definition C07_block_header_block := @T_block_header_block.C07_block_header_block.

Module T_result_block_lexes. Import RtBlock. Local Open Scope bool_scope. Local Open Scope Z_scope.
Import FmtModel IntFmtProofs LexModel LexBounds DecSpec MoreSpecs ParserModel. Local Open Scope Z_scope.
Theorem C07_result_block_lexes :
  forall d rest,
  Z.of_nat (length d) < 10^9 ->
  let n := Z.of_nat (length d) in let w := block_header n ++ d in
  let r := lex_block (w ++ rest) in
  ty (tok r) = T_BLOCK /\ disp r = Z.of_nat (length w) /\ len (tok r) = n /\
  firstn (Z.to_nat (len (tok r))) (skipn (Z.to_nat (ptr (tok r))) (w ++ rest)) = d.
Proof. exact (@RtBlock.result_block_lexes). Qed.
End T_result_block_lexes.
Definition C07_result_block_lexes := @T_result_block_lexes.C07_result_block_lexes.

Module T_tie_base_prefix. Import Tie. Local Open Scope bool_scope. Local Open Scope Z_scope.
Local Open Scope Z_scope.
Theorem C07_tie_base_prefix :
  map (fun '(b, _) => ParserModel.base_prefix b) Generated.gen_base_prefix = map snd Generated.gen_base_prefix.
Proof. exact (@Tie.tie_base_prefix). Qed.
End T_tie_base_prefix.
Definition C07_tie_base_prefix := @T_tie_base_prefix.C07_tie_base_prefix.

Module T_rt_uint_array. Import ArrayRoundTrip. Local Open Scope bool_scope. Local Open Scope Z_scope.
Import LexModel LexBounds DecSpec MoreSpecs NumList SimpleSpecs ListWs ParserModel ParamList. Local Open Scope Z_scope.
Local Open Scope Z_scope.
Theorem C07_rt_uint_array :
  forall vals n c m,
  vals <> [] -> Forall (fun u => 0 < u < 2 ^ 32) vals ->
  at_item c (map canon_item vals) 0 -> tail_ok c -> n <> O ->
  exists c', param_array n (array_reader 14) c m [] = (c', false, firstn n vals).
Proof. exact (@ArrayRoundTrip.rt_uint_array). Qed.
End T_rt_uint_array.
Definition C07_rt_uint_array := @T_rt_uint_array.C07_rt_uint_array.

Module T_fmt_g_reads_back. Import RtFloat. Local Open Scope bool_scope. Local Open Scope Z_scope.
Import GFmt NumDecode NumSyntax GFmtSpec ILog. Local Open Scope Z_scope.
Theorem C07_fmt_g_reads_back :
  forall P neg n d rest,
  1 <= P <= 17 -> 0 < n ->
  (let '(D, X) := sig_digits P n d in 10 ^ (P - 1) <= D < 10 ^ P /\ -370 <= X <= 370) -> delim rest ->
  let '(D, X) := sig_digits P n d in
  exists N' D', strtod_exact (bzl (fmt_g P neg n d) ++ rest) = Some (neg, N', D') /\ 0 < D' /\
                N' * valden (X - P + 1) = valnum D (X - P + 1) * D'.
Proof. exact (@RtFloat.fmt_g_reads_back). Qed.
End T_fmt_g_reads_back.
Definition C07_fmt_g_reads_back := @T_fmt_g_reads_back.C07_fmt_g_reads_back.

Module T_sig_digits_near. Import RtFloat. Local Open Scope bool_scope. Local Open Scope Z_scope.
Import GFmt NumDecode NumSyntax GFmtSpec ILog. Local Open Scope Z_scope.
Theorem C07_sig_digits_near :
  forall P n d,
  0 < P -> 0 < d -> 0 < n -> -1200 <= Z.log2 n - Z.log2 d <= 1200 ->
  let '(D, X) := sig_digits P n d in let s := X - P + 1 in
  2 * Z.abs (n * valden s - valnum D s * d) <= d * valnum 1 s.
Proof. exact (@RtFloat.sig_digits_near). Qed.
End T_sig_digits_near.
Definition C07_sig_digits_near := @T_sig_digits_near.C07_sig_digits_near.

Module T_rt_double. Import RtFloat. Local Open Scope bool_scope. Local Open Scope Z_scope.
Import GFmt NumDecode NumSyntax GFmtSpec ILog. Local Open Scope Z_scope.
Theorem C07_rt_double :
  forall bits rest,
  0 <= bits < 2 ^ 64 -> (bits mod 2 ^ 63) / 2 ^ 52 < 2047 -> delim rest ->
  let '(neg, n, d) := dec64 bits in 0 < n ->
  let '(D, X) := sig_digits 15 n d in
  10 ^ 14 <= D < 10 ^ 15 /\
  2 * Z.abs (n * valden (X - 14) - valnum D (X - 14) * d) <= d * valnum 1 (X - 14) /\
  exists N' D', strtod_exact (bzl (fmt_double 15 bits) ++ rest) = Some (neg, N', D') /\ 0 < D' /\ N' * valden (X - 14) = valnum D (X - 14) * D'.
Proof. exact (@RtFloat.rt_double). Qed.
End T_rt_double.
Definition C07_rt_double := @T_rt_double.C07_rt_double.

Module T_rt_float. Import RtFloat. Local Open Scope bool_scope. Local Open Scope Z_scope.
Import GFmt NumDecode NumSyntax GFmtSpec ILog. Local Open Scope Z_scope.
Theorem C07_rt_float :
  forall bits rest,
  0 <= bits < 2 ^ 32 -> (bits mod 2 ^ 31) / 2 ^ 23 < 255 -> delim rest ->
  let '(neg, n, d) := dec32 bits in 0 < n ->
  let '(D, X) := sig_digits 6 n d in
  10 ^ 5 <= D < 10 ^ 6 /\
  2 * Z.abs (n * valden (X - 5) - valnum D (X - 5) * d) <= d * valnum 1 (X - 5) /\
  exists N' D', strtod_exact (bzl (fmt_float 6 bits) ++ rest) = Some (neg, N', D') /\ 0 < D' /\ N' * valden (X - 5) = valnum D (X - 5) * D'.
Proof. exact (@RtFloat.rt_float). Qed.
End T_rt_float.
Definition C07_rt_float := @T_rt_float.C07_rt_float.

Module T_rt_double_bits. Import RtFloat. Local Open Scope bool_scope. Local Open Scope Z_scope.
Import GFmt NumDecode NumSyntax GFmtSpec ILog. Local Open Scope Z_scope.
Theorem C07_rt_double_bits :
  forall bits rest,
  0 <= bits < 2 ^ 64 -> (bits mod 2 ^ 63) / 2 ^ 52 < 2047 -> delim rest ->
  let '(neg, n, d) := dec64 bits in 0 < n ->
  let '(D, X) := sig_digits 15 n d in
  exists N' D', 0 < D' /\ N' * valden (X - 14) = valnum D (X - 14) * D' /\
    strtod_bits (bzl (fmt_double 15 bits) ++ rest) = bits64 neg (nearest64 N' D').
Proof. exact (@RtFloat.rt_double_bits). Qed.
End T_rt_double_bits.
Definition C07_rt_double_bits := @T_rt_double_bits.C07_rt_double_bits.

Module T_rt_float_bits. Import RtFloat. Local Open Scope bool_scope. Local Open Scope Z_scope.
Import GFmt NumDecode NumSyntax GFmtSpec ILog. Local Open Scope Z_scope.
Theorem C07_rt_float_bits :
  forall bits rest,
  0 <= bits < 2 ^ 32 -> (bits mod 2 ^ 31) / 2 ^ 23 < 255 -> delim rest ->
  let '(neg, n, d) := dec32 bits in 0 < n ->
  let '(D, X) := sig_digits 6 n d in
  exists N' D', 0 < D' /\ N' * valden (X - 5) = valnum D (X - 5) * D' /\
    strtof_bits (bzl (fmt_float 6 bits) ++ rest) = bits32 neg (nearest32 N' D').
Proof. exact (@RtFloat.rt_float_bits). Qed.
End T_rt_float_bits.
Definition C07_rt_float_bits := @T_rt_float_bits.C07_rt_float_bits.

Module T_rt_uint_array64. Import ArrayRoundTrip64. Local Open Scope bool_scope. Local Open Scope Z_scope.
Import LexModel LexBounds DecSpec MoreSpecs NumList SimpleSpecs ListWs ParserModel ParamList. Local Open Scope Z_scope.
Local Open Scope Z_scope.
Theorem C07_rt_uint_array64 :
  forall vals n c m,
  vals <> [] -> Forall (fun u => 0 < u < 2 ^ 64) vals ->
  at_item c (map canon_item64 vals) 0 -> tail_ok64 c -> n <> O ->
  exists c', param_array n (array_reader 16) c m [] = (c', false, firstn n vals).
Proof. exact (@ArrayRoundTrip64.rt_uint_array64). Qed.
End T_rt_uint_array64.
Definition C07_rt_uint_array64 := @T_rt_uint_array64.C07_rt_uint_array64.

Module T_rt_canonical. Import IntRtSigned. Local Open Scope bool_scope. Local Open Scope Z_scope.
Import FmtModel IntFmtProofs IntRoundTrip. Local Open Scope Z_scope.
Theorem C07_rt_canonical :
  forall w val base sign rest,
  (w = 32 \/ w = 64) -> stops (eff_base base) rest ->
  read_int (eff_base base) (canonical w val base sign ++ rest) = value_of w val base sign.
Proof. exact (@IntRtSigned.rt_canonical). Qed.
End T_rt_canonical.
Definition C07_rt_canonical := @T_rt_canonical.C07_rt_canonical.

