(* C15: SCPI_DoubleToStr / SCPI_FloatToStr stay inside a non-empty buffer; with an empty one they read what they did not write *)
From Coq Require Import Bool List ZArith Lia.
From M Require Import BufModel.
Import ListNotations.
Local Open Scope Z_scope.

Theorem fp_to_str_bounded text len : 0 < len ->
  let '(s, nul, r, reads_unwritten) := fp_to_str text len in
  Z.of_nat (length s) + 1 <= len /\ nul = true /\ r = Z.of_nat (length s) /\ reads_unwritten = false /\
  s = firstn (Z.to_nat (len - 1)) text.
Proof.
  intro H. unfold fp_to_str. destruct (Z.eqb_spec len 0); [lia|]. repeat split. rewrite firstn_length. lia.
Qed.
(* observation 13 *)
Theorem fp_to_str_len0_refuted text : let '(_, _, _, reads_unwritten) := fp_to_str text 0 in reads_unwritten = true.
Proof. reflexivity. Qed.
Corollary double_to_str_bounded bits len : 0 < len ->
  let '(s, nul, r, bad) := double_to_str bits len in Z.of_nat (length s) + 1 <= len /\ nul = true /\ r = Z.of_nat (length s) /\ bad = false.
Proof. intro H. unfold double_to_str. pose proof (fp_to_str_bounded (GFmt.fmt_double 15 bits) len H) as P. destruct (fp_to_str _ len) as [[[s nul] r] bad]. tauto. Qed.
Corollary float_to_str_bounded bits len : 0 < len ->
  let '(s, nul, r, bad) := float_to_str bits len in Z.of_nat (length s) + 1 <= len /\ nul = true /\ r = Z.of_nat (length s) /\ bad = false.
Proof. intro H. unfold float_to_str. pose proof (fp_to_str_bounded (GFmt.fmt_float 6 bits) len H) as P. destruct (fp_to_str _ len) as [[[s nul] r] bad]. tauto. Qed.
Print Assumptions double_to_str_bounded.
