(* C15: SCPI_DoubleToStr / SCPI_FloatToStr stay inside the caller's buffer for every length *)
From Coq Require Import Bool List ZArith Lia.
From M Require Import BufModel.
Import ListNotations.
Local Open Scope Z_scope.

Theorem fp_to_str_bounded text len : 0 < len ->
  let '(s, nul, r, reads_unwritten) := fp_to_str text len in
  Z.of_nat (length s) + 1 <= len /\ nul = true /\ r = Z.of_nat (length s) /\ reads_unwritten = false /\
  s = firstn (Z.to_nat (len - 1)) text.
Proof.
  intro H. unfold fp_to_str. destruct (Z.eqb_spec len 0); [lia|]. repeat split. rewrite firstn_length. lia.
Qed.
(* observation 13, fixed: an empty buffer is neither written nor read and the result is 0 *)
Theorem fp_to_str_len0 text : fp_to_str text 0 = ([], false, 0, false).
Proof. reflexivity. Qed.
(* every length: never more than len bytes, NUL-terminated whenever a byte is available, no read of unwritten memory *)
Theorem fp_to_str_all text len : 0 <= len ->
  let '(s, nul, r, reads_unwritten) := fp_to_str text len in
  Z.of_nat (length s) + (if nul then 1 else 0) <= len /\ (nul = true <-> 0 < len) /\ r = Z.of_nat (length s) /\ reads_unwritten = false.
Proof.
  intro H. unfold fp_to_str. destruct (Z.eqb_spec len 0) as [->|Hn].
  - cbn. repeat split; try lia; discriminate.
  - repeat split; try lia. rewrite firstn_length. lia.
Qed.
Corollary double_to_str_bounded bits len : 0 < len ->
  let '(s, nul, r, bad) := double_to_str bits len in Z.of_nat (length s) + 1 <= len /\ nul = true /\ r = Z.of_nat (length s) /\ bad = false.
Proof. intro H. unfold double_to_str. pose proof (fp_to_str_bounded (GFmt.fmt_double 15 bits) len H) as P. destruct (fp_to_str _ len) as [[[s nul] r] bad]. tauto. Qed.
Corollary float_to_str_bounded bits len : 0 < len ->
  let '(s, nul, r, bad) := float_to_str bits len in Z.of_nat (length s) + 1 <= len /\ nul = true /\ r = Z.of_nat (length s) /\ bad = false.
Proof. intro H. unfold float_to_str. pose proof (fp_to_str_bounded (GFmt.fmt_float 6 bits) len H) as P. destruct (fp_to_str _ len) as [[[s nul] r] bad]. tauto. Qed.
Print Assumptions double_to_str_bounded.
