(* C06, general form: the framing theorem for every table whose scripts are "framed" by some items function -- the
   conclusion of the script-level theorems (Framing2.script_framing for simple scripts, Framing3.script_framing_streamed
   for scripts with well-formed streamed blocks) is all the unit, loop and message levels need. *)
From Coq Require Import Bool List NArith ZArith Lia.
From M Require LexModel MatchModel FmtModel.
From M Require Import ParserModel Framing2 Framing3.
Import ListNotations.
Local Open Scope Z_scope.

Section Gen.
Variable itf : list op -> ctx -> (Z -> bytes) -> list bytes.       (* the items a script emits when run from a context *)
Definition Framed (script:list op) : Prop := forall c d,
  let c' := fst (run_script script c d) in let its := itf script c d in
  first_output c' = first_output c /\ output_count c' = output_count c + Z.of_nat (length its) /\
  W c' = W c ++ render (first_output c) (output_count c) its /\ Fl c' = Fl c.

Definition unit_items_g (c:ctx) (d:Z -> bytes) : list bytes :=
  match cur c with Some (_, tag, script) => itf script (unit_ctx c tag) d | None => [] end.
Definition cur_framed (c:ctx) : Prop := match cur c with Some (_, _, script) => Framed script | None => True end.

Theorem unit_framing_g c d : cur_framed c ->
  let c' := fst (process_command c d) in let its := unit_items_g c d in
  W c' = W c ++ render (first_output c) 0 its /\ Fl c' = Fl c /\
  first_output c' = first_output c && is_nil its /\ cmds c' = cmds c.
Proof.
  unfold cur_framed, unit_items_g, process_command. destruct (cur c) as [[[pat tag] script]|].
  2:{ intros _. cbn. rewrite app_nil_r, andb_true_r. auto. }
  intro Hs. cbn zeta. fold (unit_ctx c tag).
  pose proof (Hs (unit_ctx c tag) d) as H. cbn zeta in H. pose proof (C_run_script script (unit_ctx c tag) d) as HC.
  set (its := itf script (unit_ctx c tag) d) in *.
  destruct (run_script script (unit_ctx c tag) d) as [c3 okret]. cbn [fst] in *. destruct H as (A1 & A2 & A3 & A4).
  change (first_output (unit_ctx c tag)) with (first_output c) in *. change (output_count (unit_ctx c tag)) with 0 in *.
  change (W (unit_ctx c tag)) with (W c) in *. change (Fl (unit_ctx c tag)) with (Fl c) in *.
  unfold C in HC. change (cmds (unit_ctx c tag)) with (cmds c) in HC.
  (* the -200 step is quiet *)
  set (p4 := if negb okret then _ else _).
  assert (H4 : Q c3 (fst p4)).
  { subst p4. destruct okret; cbn [negb]; [destruct (cmd_error c3); apply Q_refl|]. destruct (cmd_error c3); cbn [negb fst]; [apply Q_refl|apply Q_error_push]. }
  destruct p4 as [c4 result]. cbn [fst] in H4. destruct (Q_W _ _ H4) as [W4 F4]. destruct H4 as (B1 & B2 & B3 & B4 & B5).
  set (c5 := if 0 <? output_count c4 then upd_out c4 false (output_count c4) (arb_rem c4) else c4).
  assert (H5 : W c5 = W c4 /\ Fl c5 = Fl c4 /\ first_output c5 = first_output c && is_nil its /\ cmds c5 = cmds c4).
  { subst c5. rewrite B2, A2. destruct its as [|b r]; cbn [length is_nil].
    - cbn. rewrite andb_true_r. repeat split; congruence.
    - destruct (Z.ltb_spec 0 (0 + Z.of_nat (S (length r)))); [|lia]. rewrite andb_false_r. repeat split. }
  destruct H5 as (W5 & F5 & O5 & C5).
  assert (H6 : forall c6, Q c5 c6 -> W c6 = W c ++ render (first_output c) 0 its /\ Fl c6 = Fl c /\ first_output c6 = first_output c && is_nil its /\ cmds c6 = cmds c).
  { intros c6 H. destruct (Q_W _ _ H) as [W6 F6]. destruct H as (D1 & _ & _ & _ & D5). repeat split; congruence. }
  destruct ((pd_pos c5 <? pd_len c5) && negb (cmd_error c5)); cbn [fst]; apply H6; [apply Q_error_push|apply Q_refl].
Qed.

(* ---------- the whole message ---------- *)
Definition table_framed (c:ctx) : Prop := forall pat tag script, In (pat, tag, script) (cmds c) -> Framed script.

(* the items of the unit handled by one iteration *)
Definition loop_items_g (c:ctx) (off len:Z) (prev:option (Z*Z)) (descs:Z -> bytes) : list bytes :=
  let u := LexModel.detect_unit (slice (mem c) off len) in
  let h := LexModel.u_hdr u in
  match LexModel.ty h with
  | LexModel.T_INVALID => []
  | _ =>
    if 0 <? LexModel.len h then
      let '(m1, hp, hl) := compose (mem c) prev (off + LexModel.ptr h) (LexModel.len h) in
      let c' := upd_mem c m1 in
      match find_cmd c' (slice m1 hp hl) with
      | Some e => let d := LexModel.u_data u in unit_items_g (upd_unit c' e (off + LexModel.ptr d) (LexModel.len d) hp hl) descs
      | None => []
      end
    else []
  end.
Lemma body_framing_g c off len prev result d : table_framed c ->
  let '(c1, _, _, _) := loop_body c off len prev result d in let its := loop_items_g c off len prev d in
  W c1 = W c ++ render (first_output c) 0 its /\ Fl c1 = Fl c /\ first_output c1 = first_output c && is_nil its /\ cmds c1 = cmds c.
Proof.
  intro Ht. unfold loop_body, loop_items_g. cbv zeta.
  set (u := LexModel.detect_unit (slice (mem c) off len)).
  assert (Hq : forall c1, Q c c1 -> W c1 = W c ++ render (first_output c) 0 [] /\ Fl c1 = Fl c /\ first_output c1 = first_output c && is_nil (@nil bytes) /\ cmds c1 = cmds c).
  { intros c1 H. destruct (Q_W _ _ H) as [H1 H2]. destruct H as (A1 & _ & _ & _ & A5). cbn. rewrite app_nil_r, andb_true_r. auto. }
  assert (Hmain : LexModel.ty (LexModel.u_hdr u) <> LexModel.T_INVALID ->
    let '(c1, _, _, _) :=
      (let '(c1, prev1, result1) :=
        if 0 <? LexModel.len (LexModel.u_hdr u) then
          let '(m1, hp, hl) := compose (mem c) prev (off + LexModel.ptr (LexModel.u_hdr u)) (LexModel.len (LexModel.u_hdr u)) in
          match find_cmd (upd_mem c m1) (slice m1 hp hl) with
          | Some e => let '(c3, res) := process_command (upd_unit (upd_mem c m1) e (off + LexModel.ptr (LexModel.u_data u)) (LexModel.len (LexModel.u_data u)) hp hl) d in
                      (c3, Some (hp, hl), result && res)
          | None => (error_push (upd_mem c m1) (-113) (Some (dropm m1 off, trim_crlf m1 off (Z.to_nat (LexModel.u_consumed u)))), Some (hp, hl), false)
          end
        else (c, prev, result) in (c1, prev1, result1, LexModel.u_consumed u)) in
    let its := if 0 <? LexModel.len (LexModel.u_hdr u) then
        let '(m1, hp, hl) := compose (mem c) prev (off + LexModel.ptr (LexModel.u_hdr u)) (LexModel.len (LexModel.u_hdr u)) in
        match find_cmd (upd_mem c m1) (slice m1 hp hl) with
        | Some e => unit_items_g (upd_unit (upd_mem c m1) e (off + LexModel.ptr (LexModel.u_data u)) (LexModel.len (LexModel.u_data u)) hp hl) d
        | None => []
        end else [] in
    W c1 = W c ++ render (first_output c) 0 its /\ Fl c1 = Fl c /\ first_output c1 = first_output c && is_nil its /\ cmds c1 = cmds c).
  { intros _. destruct (0 <? LexModel.len (LexModel.u_hdr u)); [|apply Hq, Q_refl].
    destruct (compose (mem c) prev _ _) as [[m1 hp] hl].
    destruct (find_cmd (upd_mem c m1) (slice m1 hp hl)) as [e|] eqn:Ef.
    - set (c2 := upd_unit (upd_mem c m1) e _ _ hp hl).
      assert (Hcs : cur_framed c2).
      { unfold cur_framed. cbn [cur c2 upd_unit]. destruct e as [[pat tag] script]. apply find_cmd_in in Ef. cbn [cmds upd_mem] in Ef. eapply Ht, Ef. }
      pose proof (unit_framing_g c2 d Hcs) as H. cbn zeta in H. destruct (process_command c2 d) as [c3 res]. cbn [fst] in H. exact H.
    - eapply Hq. eapply Q_trans; [|apply Q_error_push]. qr. }
  destruct (LexModel.ty (LexModel.u_hdr u)) eqn:Ety; try (apply Hmain; discriminate).
  apply Hq, Q_error_push.
Qed.

Fixpoint msg_items_g (fuel:nat) (c:ctx) (off len:Z) (prev:option (Z*Z)) (result:bool) (d:Z -> bytes) : list (list bytes) :=
  match fuel with O => [] | S f =>
    loop_items_g c off len prev d ::
    (let '(c1, prev1, result1, r) := loop_body c off len prev result d in
     if r <? len then msg_items_g f c1 (off + r) (len - r) prev1 result1 d else [])
  end.
Lemma loop_framing_g fuel : forall c off len prev result d, table_framed c ->
  let c' := fst (parse_loop fuel c off len prev result d) in let units := msg_items_g fuel c off len prev result d in
  W c' = W c ++ frame_units (first_output c) units /\ Fl c' = Fl c /\
  first_output c' = first_output c && forallb is_nil units /\ cmds c' = cmds c.
Proof.
  induction fuel as [|f IH]; intros c off len prev result d Ht.
  - cbn. rewrite app_nil_r, andb_true_r. auto.
  - cbn zeta. rewrite parse_loop_S. cbn [msg_items_g].
    pose proof (body_framing_g c off len prev result d Ht) as Hb.
    destruct (loop_body c off len prev result d) as [[[c1 prev1] result1] r]. cbn zeta in Hb. destruct Hb as (A1 & A2 & A3 & A4).
    cbn [frame_units forallb]. destruct (r <? len).
    + assert (Ht1 : table_framed c1) by (unfold table_framed; rewrite A4; exact Ht).
      specialize (IH c1 (off + r) (len - r) prev1 result1 d Ht1). cbn zeta in IH. destruct IH as (B1 & B2 & B3 & B4).
      rewrite B1, B2, B3, B4, A1, A2, A3, A4, <- app_assoc, andb_assoc. auto.
    + cbn [fst frame_units forallb]. rewrite app_nil_r, andb_true_r. auto.
Qed.

Theorem message_framing_g c len d : table_framed c ->
  let c' := fst (scpi_parse c len d) in
  let units := msg_items_g (S (Z.to_nat len)) (upd_out c true 0 (arb_rem c)) 0 len None true d in
  W c' = W c ++ frame_units true units ++ (if responded units then [13;10]%N else []) /\
  Fl c' = Fl c + (if responded units then 1 else 0) /\
  first_output c' = true.
Proof.
  intro Ht. unfold scpi_parse. set (c0 := upd_out c true 0 (arb_rem c)).
  pose proof (loop_framing_g (S (Z.to_nat len)) c0 0 len None true d Ht) as H. cbn zeta in H.
  destruct (parse_loop (S (Z.to_nat len)) c0 0 len None true d) as [c1 res]. cbn [fst] in *.
  destruct H as (A1 & A2 & A3 & _). change (first_output c0) with true in *. change (W c0) with (W c) in A1. change (Fl c0) with (Fl c) in A2.
  cbn [andb] in A3. unfold responded. rewrite <- A3.
  set (units := msg_items_g _ _ _ _ _ _ _) in *.
  destruct (first_output c1); cbn [negb].
  - destruct (W_upd_out c1 true (output_count c1) (arb_rem c1)) as [E1 E2]. rewrite E1, E2, A1, A2, app_nil_r, Z.add_0_r. auto.
  - destruct (W_write c1 [13;10]%N) as (_ & _ & _ & B4 & B5). destruct (W_flush (write c1 [13;10]%N)) as [D1 D2].
    destruct (W_upd_out (ev (write c1 [13;10]%N) EvF) true (output_count (ev (write c1 [13;10]%N) EvF)) (arb_rem (ev (write c1 [13;10]%N) EvF))) as [E1 E2].
    rewrite E1, E2, D1, D2, B4, B5, A1, A2, app_assoc. auto.
Qed.

(* C06 as stated: for every message, command table of simple scripts and previous history,
   the bytes written are the responding units joined by ';', each its items joined by ',',
   then one terminator and one flush iff something responded; nothing otherwise *)
Theorem framing_g c len d : table_framed c ->
  let c' := fst (scpi_parse c len d) in
  let units := filter nonempty (msg_items_g (S (Z.to_nat len)) (upd_out c true 0 (arb_rem c)) 0 len None true d) in
  W c' = W c ++ join [59%N] (map (join [44%N]) units) ++ (if is_nil units then [] else [13;10]%N) /\
  Fl c' = Fl c + (if is_nil units then 0 else 1).
Proof.
  intro Ht. pose proof (message_framing_g c len d Ht) as H. cbn zeta in *. destruct H as (A1 & A2 & _).
  set (all := msg_items_g _ _ _ _ _ _ _) in *. rewrite frame_closed in A1.
  assert (Hr : responded all = negb (is_nil (filter nonempty all))).
  { unfold responded. clear. induction all as [|its r IH]; [reflexivity|]. cbn [forallb filter]. destruct its; cbn [is_nil nonempty negb andb]; [exact IH|reflexivity]. }
  rewrite Hr in A1, A2. destruct (is_nil (filter nonempty all)); cbn [negb] in *; auto.
Qed.

End Gen.

(* ---------- instances ---------- *)
(* simple scripts: Framing2's theorem is the instance itf = items_run *)
Lemma Framed_simple script : forallb simple_op script = true -> Framed items_run script.
Proof. intros Hs c d. exact (script_framing script Hs c d). Qed.

(* scripts that mix simple operations with well-formed streamed blocks: [la] decomposes every script of the table *)
Section Streamed.
Variable la : list op -> list atom.
Definition itf_streamed (script:list op) (c:ctx) (d:Z -> bytes) : list bytes := aitems (la script) c d.
Definition table_streamed (c:ctx) : Prop :=
  forall pat tag script, In (pat, tag, script) (cmds c) -> Forall atom_ok (la script) /\ script = flat_map flat (la script).
Lemma table_streamed_framed c : table_streamed c -> table_framed itf_streamed c.
Proof.
  intros Ht pat tag script Hin c0 d. destruct (Ht pat tag script Hin) as [Hok Heq].
  unfold itf_streamed. pose proof (script_framing_streamed (la script) Hok c0 d) as H. rewrite <- Heq in H. exact H.
Qed.
(* C06 for handlers that stream blocks: every started block is completed by non-empty data calls whose total is the announced length *)
Theorem framing_streamed c len d : table_streamed c ->
  let c' := fst (scpi_parse c len d) in
  let units := filter nonempty (msg_items_g itf_streamed (S (Z.to_nat len)) (upd_out c true 0 (arb_rem c)) 0 len None true d) in
  W c' = W c ++ join [59%N] (map (join [44%N]) units) ++ (if is_nil units then [] else [13;10]%N) /\
  Fl c' = Fl c + (if is_nil units then 0 else 1).
Proof. intro Ht. exact (framing_g itf_streamed c len d (table_streamed_framed c Ht)). Qed.
End Streamed.
Print Assumptions framing_streamed.

(* ---------- non-vacuity: "BLK?;N?;A?" where BLK? streams "#15hello" in two data calls and then emits 7 ---------- *)
Definition sx_cmds : list (bytes * Z * list op) :=
  [([66;76;75;63]%N, 1, [RHDR 5; RDATA [104;101]%N; RDATA [108;108;111]%N; RI32 7]); ([78;63]%N, 2, []); ([65;63]%N, 3, [RI32 1])].
Definition sx_la (script:list op) : list atom :=
  match script with
  | [RHDR 5; RDATA [104;101]%N; RDATA [108;108;111]%N; RI32 7] => [Stream [[104;101]%N; [108;108;111]%N]; Op (RI32 7)]
  | _ => map Op script
  end.
Definition sx_ctx (m:bytes) : ctx :=
  {| cmds := sx_cmds; mem := m; cap := 256; first_output := true; output_count := 0; input_count := 0; cmd_error := false; arb_rem := 0;
     pd_off := 0; pd_len := 0; pd_pos := 0; cur := None; raw_off := 0; raw_len := 0; queue := []; qcap := 4; qma := false; trace := [] |}.
Example sx_table m : table_streamed sx_la (sx_ctx m).
Proof.
  unfold table_streamed. cbn [cmds sx_ctx sx_cmds]. intros pat tag script [H|[H|[H|[]]]]; injection H as <- <- <-; cbn [sx_la map flat_map flat stream_ops app].
  - split; [|reflexivity]. repeat constructor; try discriminate.
  - split; [constructor|reflexivity].
  - split; [repeat constructor|reflexivity].
Qed.
Definition sx_msg : bytes := [66;76;75;63;59;78;63;59;65;63;10]%N.
Example sx_framing :
  W (fst (scpi_parse (sx_ctx sx_msg) 11 desc_of)) = [35;49;53;104;101;108;108;111;44;55;59;49;13;10]%N.
Proof. vm_compute. reflexivity. Qed.
