(* C09: nothing but the error queue (and the status registers, modelled separately) carries over:
   the scratch state of the context never influences a message *)
From Coq Require Import Bool List NArith ZArith Lia.
From M Require LexModel MatchModel FmtModel.
From M Require Import ParserModel Framing2.
Import ListNotations.
Local Open Scope Z_scope.

(* everything except the scratch fields: command table, input buffer, error queue, and the ghost trace.
   Scratch = output_count, input_count, cmd_error, arb_rem, the parameter cursor pd_*, the matched entry cur,
   the effective-header region raw_*; first_output is re-armed by every message. *)
Definition E (c c':ctx) : Prop :=
  cmds c = cmds c' /\ mem c = mem c' /\ cap c = cap c' /\ queue c = queue c' /\ qcap c = qcap c' /\ qma c = qma c' /\
  trace c = trace c' /\ first_output c = first_output c'.
Lemma E_refl c : E c c. Proof. unfold E. repeat split. Qed.
Lemma E_error_push c c' code info : E c c' -> E (error_push c code info) (error_push c' code info).
Proof.
  intros (A1 & A2 & A3 & A4 & A5 & A6 & A7 & A8). unfold error_push. rewrite A4, A5.
  destruct (Z.of_nat (length (queue c')) =? qcap c'); unfold E; cbn; rewrite ?A1, ?A2, ?A3, ?A4, ?A5, ?A6, ?A7, ?A8; repeat split.
Qed.
Lemma E_upd_mem c c' m : E c c' -> E (upd_mem c m) (upd_mem c' m).
Proof. intros (A1 & A2 & A3 & A4 & A5 & A6 & A7 & A8). unfold E. cbn. repeat split; assumption. Qed.

(* once a unit has matched, the two contexts coincide completely *)
Lemma unit_start_eq c c' e po pl ro rl : E c c' ->
  upd_flags (upd_unit c e po pl ro rl) false 0 0 0 = upd_flags (upd_unit c' e po pl ro rl) false 0 0 0.
Proof. intros (A1 & A2 & A3 & A4 & A5 & A6 & A7 & A8). unfold upd_flags, upd_unit. cbn. rewrite A1, A2, A3, A4, A5, A6, A7, A8. reflexivity. Qed.
Lemma process_command_flags c c' d : cur c = cur c' -> cur c <> None ->
  upd_flags c false 0 0 0 = upd_flags c' false 0 0 0 -> process_command c d = process_command c' d.
Proof.
  intros Hc Hn H. unfold process_command. rewrite <- Hc. destruct (cur c) as [[[pat tag] script]|]; [|congruence]. cbv zeta. rewrite H. reflexivity.
Qed.

Lemma body_isolated c c' off len prev result d : E c c' ->
  let '(c1, prev1, result1, r) := loop_body c off len prev result d in
  let '(c1', prev1', result1', r') := loop_body c' off len prev result d in
  E c1 c1' /\ prev1 = prev1' /\ result1 = result1' /\ r = r'.
Proof.
  intro HE. pose proof HE as (A1 & A2 & A3 & A4 & A5 & A6 & A7 & A8). unfold loop_body. cbv zeta. rewrite <- A2.
  set (u := LexModel.detect_unit (slice (mem c) off len)).
  assert (Hmain : LexModel.ty (LexModel.u_hdr u) <> LexModel.T_INVALID ->
    let '(c1, prev1, result1, r) :=
      (let '(c1, prev1, result1) :=
        if 0 <? LexModel.len (LexModel.u_hdr u) then
          let '(m1, hp, hl) := compose (mem c) prev (off + LexModel.ptr (LexModel.u_hdr u)) (LexModel.len (LexModel.u_hdr u)) in
          match find_cmd (upd_mem c m1) (slice m1 hp hl) with
          | Some e => let '(c3, res) := process_command (upd_unit (upd_mem c m1) e (off + LexModel.ptr (LexModel.u_data u)) (LexModel.len (LexModel.u_data u)) hp hl) d in
                      (c3, Some (hp, hl), result && res)
          | None => (error_push (upd_mem c m1) (-113) (Some (dropm m1 off, trim_crlf m1 off (Z.to_nat (LexModel.u_consumed u)))), Some (hp, hl), false)
          end
        else (c, prev, result) in (c1, prev1, result1, LexModel.u_consumed u)) in
    let '(c1', prev1', result1', r') :=
      (let '(c1, prev1, result1) :=
        if 0 <? LexModel.len (LexModel.u_hdr u) then
          let '(m1, hp, hl) := compose (mem c) prev (off + LexModel.ptr (LexModel.u_hdr u)) (LexModel.len (LexModel.u_hdr u)) in
          match find_cmd (upd_mem c' m1) (slice m1 hp hl) with
          | Some e => let '(c3, res) := process_command (upd_unit (upd_mem c' m1) e (off + LexModel.ptr (LexModel.u_data u)) (LexModel.len (LexModel.u_data u)) hp hl) d in
                      (c3, Some (hp, hl), result && res)
          | None => (error_push (upd_mem c' m1) (-113) (Some (dropm m1 off, trim_crlf m1 off (Z.to_nat (LexModel.u_consumed u)))), Some (hp, hl), false)
          end
        else (c', prev, result) in (c1, prev1, result1, LexModel.u_consumed u)) in
    E c1 c1' /\ prev1 = prev1' /\ result1 = result1' /\ r = r').
  { intros _. destruct (0 <? LexModel.len (LexModel.u_hdr u)); [|split; [exact HE|repeat split]].
    destruct (compose (mem c) prev _ _) as [[m1 hp] hl].
    assert (Hf : find_cmd (upd_mem c m1) (slice m1 hp hl) = find_cmd (upd_mem c' m1) (slice m1 hp hl)) by (unfold find_cmd; cbn [cmds upd_mem]; now rewrite A1).
    rewrite <- Hf. destruct (find_cmd (upd_mem c m1) (slice m1 hp hl)) as [e|].
    - set (po := off + LexModel.ptr (LexModel.u_data u)). set (pl := LexModel.len (LexModel.u_data u)).
      rewrite (process_command_flags (upd_unit (upd_mem c m1) e po pl hp hl) (upd_unit (upd_mem c' m1) e po pl hp hl) d); [| reflexivity | discriminate | apply unit_start_eq, E_upd_mem, HE].
      destruct (process_command _ d) as [c3 res]. split; [apply E_refl|repeat split].
    - split; [apply E_error_push, E_upd_mem, HE|repeat split]. }
  destruct (LexModel.ty (LexModel.u_hdr u)) eqn:Ety; try (apply Hmain; discriminate).
  split; [apply E_error_push, HE|repeat split].
Qed.

Lemma loop_isolated fuel : forall c c' off len prev result d, E c c' ->
  let '(c1, res) := parse_loop fuel c off len prev result d in
  let '(c1', res') := parse_loop fuel c' off len prev result d in
  E c1 c1' /\ res = res'.
Proof.
  induction fuel as [|f IH]; intros c c' off len prev result d HE; [cbn; auto|].
  rewrite !parse_loop_S. pose proof (body_isolated c c' off len prev result d HE) as Hb.
  destruct (loop_body c off len prev result d) as [[[c1 prev1] result1] r].
  destruct (loop_body c' off len prev result d) as [[[c1' prev1'] result1'] r'].
  destruct Hb as (H1 & <- & <- & <-). destruct (r <? len); [apply IH, H1|auto].
Qed.

(* C09: a message behaves the same whatever scratch state the previous message (or handler) left behind:
   same return value, same events (handler starts, parameters read, bytes written, flushes, errors), same queue and buffer *)
Theorem message_isolated c c' len d :
  cmds c = cmds c' -> mem c = mem c' -> cap c = cap c' -> queue c = queue c' -> qcap c = qcap c' -> qma c = qma c' -> trace c = trace c' ->
  let '(c1, res) := scpi_parse c len d in let '(c1', res') := scpi_parse c' len d in E c1 c1' /\ res = res'.
Proof.
  intros A1 A2 A3 A4 A5 A6 A7. unfold scpi_parse.
  assert (HE : E (upd_out c true 0 (arb_rem c)) (upd_out c' true 0 (arb_rem c'))) by (unfold E; cbn; repeat split; assumption).
  pose proof (loop_isolated (S (Z.to_nat len)) _ _ 0 len None true d HE) as H.
  destruct (parse_loop (S (Z.to_nat len)) (upd_out c true 0 (arb_rem c)) 0 len None true d) as [c1 res].
  destruct (parse_loop (S (Z.to_nat len)) (upd_out c' true 0 (arb_rem c')) 0 len None true d) as [c1' res'].
  destruct H as ((B1 & B2 & B3 & B4 & B5 & B6 & B7 & B8) & <-). split; [|reflexivity]. rewrite B8.
  destruct (negb (first_output c1')); unfold E; cbn; rewrite ?B1, ?B2, ?B3, ?B4, ?B5, ?B6, ?B7; repeat split.
Qed.
Print Assumptions message_isolated.

(* ---------- the same for whole SCPI_Input calls (any chunking) ---------- *)
Lemma E_ev c c' e : E c c' -> E (ev c e) (ev c' e).
Proof. intros (A1 & A2 & A3 & A4 & A5 & A6 & A7 & A8). unfold E. cbn. rewrite A7. repeat split; assumption. Qed.
Lemma parse_E c c' len d : E c c' ->
  let '(c1, res) := scpi_parse c len d in let '(c1', res') := scpi_parse c' len d in E c1 c1' /\ res = res'.
Proof. intros (A1 & A2 & A3 & A4 & A5 & A6 & A7 & _). now apply message_isolated. Qed.

Lemma input_loop_isolated fuel : forall c c' tot result d, E c c' ->
  let '(c1, res) := input_loop fuel c tot result d in let '(c1', res') := input_loop fuel c' tot result d in E c1 c1' /\ res = res'.
Proof.
  induction fuel as [|f IH]; intros c c' tot result d HE; [cbn; auto|]. cbn [input_loop].
  pose proof HE as (_ & A2 & _). rewrite <- A2.
  set (u := LexModel.detect_unit (dropm (mem c) tot)).
  destruct (LexModel.u_term u).
  - destruct (_ && _); [auto|]. destruct (_ <=? _); [auto|]. apply IH, HE.
  - pose proof (parse_E c c' (tot + LexModel.u_consumed u) d HE) as Hp.
    destruct (scpi_parse c (tot + LexModel.u_consumed u) d) as [c1 res]. destruct (scpi_parse c' (tot + LexModel.u_consumed u) d) as [c1' res'].
    destruct Hp as (H1 & <-). pose proof H1 as (_ & B2 & _). rewrite <- B2. apply IH, E_upd_mem, H1.
  - destruct (_ && _); [auto|]. destruct (_ <=? _); [auto|]. apply IH, HE.
Qed.

Theorem input_isolated c c' data d : E c c' -> E (scpi_input c data d) (scpi_input c' data d).
Proof.
  intro HE. pose proof HE as (_ & A2 & A3 & _). unfold scpi_input. rewrite <- A2, <- A3.
  destruct (Z.of_nat (length data) =? 0).
  - pose proof (parse_E c c' (Z.of_nat (length (mem c))) d HE) as Hp.
    destruct (scpi_parse c (Z.of_nat (length (mem c))) d) as [c1 res]. destruct (scpi_parse c' (Z.of_nat (length (mem c))) d) as [c1' res'].
    destruct Hp as (H1 & <-). apply E_ev, E_upd_mem, H1.
  - destruct (_ <? _).
    + apply E_ev, E_error_push, E_upd_mem, HE.
    + pose proof (input_loop_isolated (S (S (length (mem (upd_mem c (mem c ++ data)))))) (upd_mem c (mem c ++ data)) (upd_mem c' (mem c ++ data)) 0 true d (E_upd_mem c c' _ HE)) as Hl.
      cbn [mem upd_mem] in *.
      destruct (input_loop _ (upd_mem c (mem c ++ data)) 0 true d) as [c2 res]. destruct (input_loop _ (upd_mem c' (mem c ++ data)) 0 true d) as [c2' res'].
      destruct Hl as (H1 & <-). apply E_ev, H1.
Qed.
(* any sequence of input calls *)
Corollary inputs_isolated d chunks : forall c c', E c c' ->
  E (fold_left (fun x data => scpi_input x data d) chunks c) (fold_left (fun x data => scpi_input x data d) chunks c').
Proof. induction chunks as [|x r IH]; intros c c' HE; [exact HE|]. cbn [fold_left]. apply IH, input_isolated, HE. Qed.
Print Assumptions inputs_isolated.

(* non-vacuity: a context left in a mess by a previous handler (separator flag cleared, item counter and block length non-zero,
   parameter cursor and matched entry set) answers "A?;N?;B?" exactly like the pristine one *)
Definition messy (c:ctx) : ctx :=
  {| cmds := cmds c; mem := mem c; cap := cap c; first_output := false; output_count := 3; input_count := 2; cmd_error := true; arb_rem := 17;
     pd_off := 5; pd_len := 9; pd_pos := 4; cur := Some ([66;63]%N, 3, [RI32 2]); raw_off := 1; raw_len := 2;
     queue := queue c; qcap := qcap c; qma := qma c; trace := trace c |}.
Example ex_isolated :
  trace (fst (scpi_parse (messy (ex_ctx ex_msg)) 9 desc_of)) = trace (fst (scpi_parse (ex_ctx ex_msg) 9 desc_of)).
Proof. vm_compute. reflexivity. Qed.
