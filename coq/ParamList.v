(* C05, list clause at reader level: on a well-formed list of decimal items -- any white space IEEE 488.2 allows around the
   commas -- the k-th call of SCPI_Parameter delivers the k-th item whole (its literal, without the blanks), queues nothing,
   and leaves the cursor where the next call needs it. *)
From Coq Require Import Bool List NArith ZArith Lia.
From M Require Import LexModel LexBounds DecSpec MoreSpecs NumList SimpleSpecs ListWs ParserModel.
Import ListNotations.
Local Open Scope Z_scope.

Fixpoint item_off (items:list litem) (k:nat) : Z :=
  match k, items with
  | O, _ => 0
  | S k', i :: r => Z.of_nat (length (item_text i)) + 1 + item_off r k'
  | S _, [] => 0
  end.
Lemma item_off_0 items : item_off items 0 = 0. Proof. destruct items; reflexivity. Qed.
Lemma item_off_nonneg items : forall k, 0 <= item_off items k.
Proof. induction items as [|i r IH]; intros [|k]; cbn [item_off]; try lia. specialize (IH k). lia. Qed.

(* the list text around item k *)
Lemma list_split : forall items k i, nth_error items k = Some i ->
  exists pre post, list_text items = pre ++ item_text i ++ post /\ Z.of_nat (length pre) = item_off items k /\
    (post = [] \/ exists p', post = 44%N :: p') /\
    (k <> O -> exists pre', pre = pre' ++ [44%N]) /\
    Z.of_nat (length (list_text items)) = item_off items k + Z.of_nat (length (item_text i)) + Z.of_nat (length post).
Proof.
  induction items as [|i0 r IH]; intros k i H; [destruct k; discriminate|]. destruct k as [|k].
  - cbn [nth_error] in H. injection H as ->. exists []. destruct r as [|i2 r'].
    + exists []. cbn [list_text item_off app length]. rewrite app_nil_r.
      refine (conj eq_refl (conj eq_refl (conj (or_introl eq_refl) (conj _ _)))); [congruence|lia].
    + exists (44%N :: list_text (i2 :: r')). rewrite list_text_cons. cbn [item_off app length].
      refine (conj eq_refl (conj eq_refl (conj (or_intror (ex_intro _ _ eq_refl)) (conj _ _)))); [congruence|].
      rewrite app_length. cbn [length]. lia.
  - cbn [nth_error] in H. destruct r as [|i2 r']; [destruct k; discriminate|].
    destruct (IH k i H) as (pre & post & E & L & P & Q & T). exists (item_text i0 ++ 44%N :: pre), post.
    rewrite list_text_cons, E. change (item_off (i0 :: i2 :: r') (S k)) with (Z.of_nat (length (item_text i0)) + 1 + item_off (i2 :: r') k).
    refine (conj _ (conj _ (conj P (conj _ _)))).
    + rewrite <- !app_assoc. reflexivity.
    + rewrite app_length. cbn [length]. lia.
    + intros _. destruct k as [|k'].
      * exists (item_text i0). destruct pre; [reflexivity|]. cbn [item_off length] in L. lia.
      * destruct (Q ltac:(discriminate)) as (pre' & ->). exists (item_text i0 ++ 44%N :: pre'). rewrite <- app_assoc. reflexivity.
    + rewrite <- E. rewrite app_length. cbn [length]. lia.
Qed.
Lemma item_off_S : forall items k i, nth_error items k = Some i -> item_off items (S k) = item_off items k + Z.of_nat (length (item_text i)) + 1.
Proof.
  induction items as [|i0 r IH]; intros k i H; [destruct k; discriminate|]. destruct k as [|k].
  - cbn [nth_error] in H. injection H as ->. cbn [item_off]. destruct r; cbn [item_off]; lia.
  - cbn [nth_error] in H. change (item_off (i0 :: r) (S (S k))) with (Z.of_nat (length (item_text i0)) + 1 + item_off r (S k)).
    rewrite (IH k i H). cbn [item_off]. lia.
Qed.

(* the reader's state before the k-th call *)
Definition at_item (c:ctx) (items:list litem) (k:nat) : Prop :=
  slice (mem c) (pd_off c) (pd_len c) = list_text items /\ pd_len c = Z.of_nat (length (list_text items)) /\
  input_count c = Z.of_nat k /\ pd_pos c = match k with O => 0 | S _ => item_off items k - 1 end.

Lemma post_stop post : (post = [] \/ exists p', post = 44%N :: p') -> item_stop post.
Proof. intros [->|(p' & ->)]; repeat split; reflexivity. Qed.
Lemma dropm_app (a x:bytes) : dropm (a ++ x) (Z.of_nat (length a)) = x.
Proof. unfold dropm. rewrite Nat2Z.id. rewrite skipn_app, Nat.sub_diag, skipn_all. reflexivity. Qed.

Theorem parameter_item items k w0 a w1 c m : Forall item_ok items -> nth_error items k = Some (w0, a, w1) -> at_item c items k ->
  exists c', parameter c m = (c', true, {| ty := T_DECIMAL; ptr := pd_off c + item_off items k + Z.of_nat (length w0); len := Z.of_nat (length a) |}) /\
             at_item c' items (S k) /\ c' = upd_in c (Z.of_nat (S k)) (item_off items (S k) - 1).
Proof.
  intros Hok Hn (Hreg & Hlen & Hic & Hpos).
  assert (Hi : item_ok (w0, a, w1)) by (rewrite Forall_forall in Hok; apply Hok; eapply nth_error_In; exact Hn).
  destruct (list_split items k _ Hn) as (pre & post & E & L & P & Q & T).
  pose proof (item_off_nonneg items k) as Hoff. pose proof (item_off_S items k _ Hn) as HS.
  destruct Hi as (Hw0 & Ha & Hw1). pose proof (dec_len_pos a Ha) as Hal.
  assert (Hil : 0 < Z.of_nat (length (item_text (w0, a, w1)))) by (cbn [item_text]; rewrite !app_length; lia).
  unfold parameter.
  assert (Hnot : (pd_len c <=? pd_pos c) = false).
  { apply Z.leb_gt. rewrite Hlen, Hpos, T. destruct k; lia. }
  rewrite Hnot. rewrite Hreg.
  (* the token at the start of the item *)
  assert (Hgo : let r := LexModel.parse_program_data (dropm (list_text items) (item_off items k)) in
            LexModel.ty (LexModel.tok r) = T_DECIMAL /\ LexModel.ptr (LexModel.tok r) = Z.of_nat (length w0) /\
            LexModel.len (LexModel.tok r) = Z.of_nat (length a) /\ LexModel.disp r = Z.of_nat (length (item_text (w0, a, w1)))).
  { rewrite E, <- L, dropm_app. cbn [item_text]. rewrite <- !app_assoc.
    destruct (ppd_decimal w0 a w1 post Hw0 Ha Hw1 (post_stop post P)) as (T1 & T2 & T3 & _ & T5). cbn zeta in *.
    rewrite T1, T2, T3, T5, !app_length. repeat split; lia. }
  cbn zeta in Hgo. destruct Hgo as (G1 & G2 & G3 & G4).
  destruct k as [|k].
  - (* first call: no comma is looked for *)
    rewrite Hic. cbn [Z.of_nat Z.eqb negb]. rewrite Hpos. rewrite item_off_0 in *.
    rewrite G1. cbn [tok_valid]. rewrite G2, G3, G4.
    eexists. split; [f_equal; f_equal; lia|]. split; [|f_equal; rewrite ?Hic; lia].
    unfold at_item. cbn [mem pd_off pd_len input_count pd_pos upd_in]. repeat split; try assumption; rewrite ?Hic; lia.
  - rewrite Hic. assert (Hne : (Z.of_nat (S k) =? 0) = false) by (apply Z.eqb_neq; lia). rewrite Hne. cbn [negb].
    destruct (Q ltac:(discriminate)) as (pre' & Epre).
    assert (Hcomma : LexModel.ret (LexModel.lex_comma (dropm (list_text items) (pd_pos c))) = 1).
    { rewrite Hpos, E, Epre. rewrite <- L, Epre, app_length. cbn [length].
      replace (Z.of_nat (length pre' + 1) - 1) with (Z.of_nat (length pre')) by lia.
      rewrite <- !app_assoc. rewrite dropm_app. cbn [app]. unfold LexModel.lex_comma. apply lex_chr_hit. }
    rewrite Hcomma. cbn [Z.eqb]. rewrite Hpos. replace (item_off items (S k) - 1 + 1) with (item_off items (S k)) by lia.
    rewrite G1. cbn [tok_valid]. rewrite G2, G3, G4.
    eexists. split; [f_equal; f_equal; lia|]. split; [|f_equal; rewrite ?Hic; lia].
    unfold at_item. cbn [mem pd_off pd_len input_count pd_pos upd_in]. repeat split; try assumption; rewrite ?Hic; lia.
Qed.
Print Assumptions parameter_item.
