(* Draft: correctly rounded decimal -> binary conversion (the strtod/strtof model) and helpers *)
From Coq Require Import Bool List NArith ZArith Lia.
Import ListNotations.
Local Open Scope bool_scope.
Local Open Scope Z_scope.

(* round n/d (n >= 0, d > 0) to the binary format with p significand bits, minimum LSB exponent qmin,
   overflow threshold emax (values >= 2^emax become infinity). Result: Some (m, q) meaning m*2^q, or None = infinity *)
Definition round_nearest_even (p qmin emax:Z) (n d:Z) : option (Z * Z) :=
  if n =? 0 then Some (0, qmin) else
  let e0 := Z.log2 n - Z.log2 d in
  (* e = floor(log2 (n/d)) *)
  let ge (e:Z) := if 0 <=? e then d * 2^e <=? n else d <=? n * 2^(-e) in
  let e := if ge (e0+1) then e0+1 else if ge e0 then e0 else e0-1 in
  let q := Z.max (e - (p-1)) qmin in
  let num := if 0 <=? q then n else n * 2^(-q) in
  let den := if 0 <=? q then d * 2^q else d in
  let m0 := num / den in let r := num mod den in
  let m := if den <? 2*r then m0+1 else if (2*r =? den) && Z.odd m0 then m0+1 else m0 in
  let '(m1,q1) := if m =? 2^p then (2^(p-1), q+1) else (m,q) in
  if emax <? q1 + p then None else Some (m1,q1).
Definition bits64 (neg:bool) (r:option (Z*Z)) : Z :=
  let s := if neg then 2^63 else 0 in
  match r with
  | None => s + 2047 * 2^52
  | Some (m,q) => if m <? 2^52 then s + m else s + (q + 1075) * 2^52 + (m - 2^52)
  end.
Definition bits32 (neg:bool) (r:option (Z*Z)) : Z :=
  let s := if neg then 2^31 else 0 in
  match r with
  | None => s + 255 * 2^23
  | Some (m,q) => if m <? 2^23 then s + m else s + (q + 150) * 2^23 + (m - 2^23)
  end.
Definition nearest64 (n d:Z) := round_nearest_even 53 (-1074) 1024 n d.
Definition nearest32 (n d:Z) := round_nearest_even 24 (-149) 128 n d.

(* strtod syntax at a pointer (decimal part of C99): ws* sign? digits* [. digits*] (e sign? digits+)?  -- at least one digit in the mantissa *)
Definition isdig (c:N) := ((48 <=? c) && (c <=? 57))%N.
Definition isspace (c:N) := ((c =? 32) || ((9 <=? c) && (c <=? 13)))%N.
Fixpoint digs (l:list N) (acc n:Z) : list N * Z * Z :=
  match l with c::r => if isdig c then digs r (acc*10 + (Z.of_N c - 48)) (n+1) else (l,acc,n) | [] => (l,acc,n) end.
Fixpoint skipsp (l:list N) : list N := match l with c::r => if isspace c then skipsp r else l | [] => [] end.
(* result: (negative, numerator, denominator) of the exact value, or None if no conversion *)
Definition strtod_exact (l:list N) : option (bool * Z * Z) :=
  let l1 := skipsp l in
  let neg := (hd 0%N l1 =? 45)%N in
  let l2 := if neg || (hd 0%N l1 =? 43)%N then tl l1 else l1 in
  let '(l3, ip, ni) := digs l2 0 0 in
  let '(l4, fp, nf) := if (hd 0%N l3 =? 46)%N then digs (tl l3) ip 0 else (l3, ip, 0) in
  if ni + nf =? 0 then None else
  let mant := fp in                      (* all digits as one integer, nf of them after the point *)
  let hasE := ((hd 0%N l4 =? 101) || (hd 0%N l4 =? 69))%N in
  let l5 := tl l4 in
  let eneg := (hd 0%N l5 =? 45)%N in
  let l6 := if eneg || (hd 0%N l5 =? 43)%N then tl l5 else l5 in
  let '(_, ev, ne) := digs l6 0 0 in
  let ex := if hasE && (0 <? ne) then (if eneg then - ev else ev) else 0 in
  let e10 := ex - nf in
  (* clamp silly exponents so that powers stay computable; anything beyond is 0 or infinity anyway: the mantissa is below
     10^(ni+nf), so below -400-(ni+nf) the value stays under 10^-400 (rounds to 0), above 400 a non-zero value stays infinite *)
  let e10' := Z.max (-400 - (ni + nf)) (Z.min 400 e10) in
  Some (neg, if 0 <=? e10' then mant * 10^e10' else mant, if 0 <=? e10' then 1 else 10^(-e10')).
Definition strtod_bits (l:list N) : Z :=
  match strtod_exact l with None => 0 | Some (neg,n,d) => bits64 neg (nearest64 n d) end.
Definition strtof_bits (l:list N) : Z :=
  match strtod_exact l with None => 0 | Some (neg,n,d) => bits32 neg (nearest32 n d) end.
(* (double)uint64 and (float)uint32 *)
Definition u64_to_double_bits (v:Z) := bits64 false (nearest64 v 1).
Definition u32_to_float_bits (v:Z) := bits32 false (nearest32 v 1).
(* double * double: exact product of the two decoded values, rounded *)
Definition decode64 (b:Z) : bool * Z * Z :=      (* neg, m, q  (finite inputs only) *)
  let neg := 2^63 <=? b in let r := b mod 2^63 in let ef := r / 2^52 in let fr := r mod 2^52 in
  if ef =? 0 then (neg, fr, -1074) else (neg, fr + 2^52, ef - 1075).
Definition mul64_bits (a b:Z) : Z :=
  let '(na,ma,qa) := decode64 a in let '(nb,mb,qb) := decode64 b in
  let q := qa + qb in let m := ma * mb in
  bits64 (xorb na nb) (if 0 <=? q then nearest64 (m * 2^q) 1 else nearest64 m (2^(-q))).

