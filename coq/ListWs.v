(* C05: a decimal literal followed by blanks and then a comma, or the end, is recognised exactly; the parameter scan
   then returns it together with the blanks around it (the fix for observation 5) *)
From Coq Require Import Bool List NArith ZArith Lia.
From M Require Import LexModel LexBounds DecSpec MoreSpecs NumList.
Import ListNotations.
Local Open Scope Z_scope.

(* a decimal literal never ends in white space *)
Lemma last_app_ne {A} (a b:list A) d : b <> [] -> last (a ++ b) d = last b d.
Proof. intro H. induction a as [|x a IH]; [reflexivity|]. cbn [app]. destruct (a ++ b) as [|y l] eqn:E; [apply app_eq_nil in E as [_ E]; congruence|].
  change (last (x :: y :: l) d) with (last (y :: l) d). exact IH. Qed.
Lemma all_last p (l:bytes) d : all p l -> l <> [] -> p (last l d) = true.
Proof. intros Ha Hn. unfold all in Ha. rewrite forallb_forall in Ha. apply Ha. destruct l; [congruence|]. apply (@exists_last _ (b :: l)) in Hn as (l' & a & E). rewrite E. rewrite last_last. apply in_or_app. right. now left. Qed.
Definition dec_end (c:N) : bool := isdigit c || ischr 46%N c.
Lemma dec_last t : Dec t -> dec_end (last t 0%N) = true.
Proof.
  assert (HM : forall m, Mant m -> dec_end (last m 0%N) = true).
  { intros m [sg d1 _ Hd Hne|sg d1 d2 _ Hd1 Hd2 _].
    - rewrite last_app_ne by exact Hne. unfold dec_end. now rewrite (all_last isdigit d1 0%N Hd Hne).
    - rewrite last_app_ne by (destruct d1; discriminate). rewrite last_app_ne by discriminate.
      destruct d2 as [|x r]; [reflexivity|]. change ([46%N] ++ x :: r) with (([46%N]) ++ (x :: r)). rewrite last_app_ne by discriminate.
      unfold dec_end. now rewrite (all_last isdigit (x :: r) 0%N Hd2 ltac:(discriminate)). }
  intros [m Hm|m e Hm [w1 x w2 sg dd _ _ _ _ Hd Hne]]; [now apply HM|].
  rewrite last_app_ne by (destruct w1; discriminate).
  rewrite last_app_ne by discriminate. rewrite last_app_ne by (destruct w2, sg, dd; try discriminate; congruence).
  rewrite last_app_ne by (destruct sg, dd; try discriminate; congruence). rewrite last_app_ne by exact Hne.
  unfold dec_end. now rewrite (all_last isdigit dd 0%N Hd Hne).
Qed.
Lemma ws_not_end c : isws c = true -> dec_end c = false.
Proof. unfold isws, dec_end, isdigit, inr, ischr. intro H. apply orb_prop in H as [H|H]; apply N.eqb_eq in H; subst c; reflexivity. Qed.

Lemma in_firstn {A} (x:A) : forall k l, In x (firstn k l) -> In x l.
Proof. induction k as [|k IH]; intros l H; [destruct H|]. destruct l as [|y l]; [destruct H|]. cbn [firstn] in H. destruct H as [->|H]; [now left|right; now apply IH]. Qed.
(* exact recognition when blanks follow *)
Lemma dec_stop_ws a w rest : Dec a -> all isws w -> starts decalpha rest = false ->
  disp (lex_decimal (a ++ w ++ rest)) = Z.of_nat (length a).
Proof.
  intros Ha Hw Hr. pose proof (lex_decimal_longest (a ++ w ++ rest)) as ((Hn0 & Hn1) & Hs & _).
  pose proof (decimal_complete a (w ++ rest) Ha) as Hc. set (n := disp (lex_decimal (a ++ w ++ rest))) in *.
  destruct (Z.eq_dec n (Z.of_nat (length a))) as [E|E]; [exact E|exfalso].
  assert (Hgt : Z.of_nat (length a) < n) by lia. specialize (Hs ltac:(lia)).
  set (k := (Z.to_nat n - length a)%nat). assert (Hk : (1 <= k)%nat) by (subst k; lia).
  replace (Z.to_nat n) with (length a + k)%nat in Hs by (subst k; lia). rewrite firstn_app_2 in Hs.
  destruct (Nat.le_gt_cases k (length w)) as [Hle|Hgtw].
  - (* the longer prefix would end inside the blanks *)
    rewrite firstn_app in Hs. replace (k - length w)%nat with O in Hs by lia. cbn [firstn] in Hs. rewrite app_nil_r in Hs.
    pose proof (dec_last _ Hs) as Hl. assert (Hfn : firstn k w <> []) by (destruct w; [cbn in Hle; lia|destruct k; [lia|discriminate]]).
    rewrite last_app_ne in Hl by exact Hfn.
    assert (Hws : isws (last (firstn k w) 0%N) = true).
    { apply all_last; [|exact Hfn]. unfold all in *. rewrite forallb_forall in *. intros x Hx. apply Hw. eapply in_firstn; eauto. }
    rewrite (ws_not_end _ Hws) in Hl. discriminate.
  - (* or it would include the first byte after the blanks *)
    apply dec_alpha in Hs. rewrite firstn_app in Hs. rewrite (firstn_all2 (n := k) w) in Hs by lia.
    destruct rest as [|c r]; [rewrite !app_length in Hn1; cbn [length] in Hn1; subst k; lia|].
    replace (k - length w)%nat with (S (k - length w - 1)) in Hs by lia. cbn [firstn] in Hs.
    unfold all in Hs. rewrite !forallb_app in Hs. apply andb_prop in Hs as [_ Hs]. apply andb_prop in Hs as [_ Hs]. cbn [forallb] in Hs.
    cbn [starts] in Hr. rewrite Hr in Hs. discriminate.
Qed.
Print Assumptions dec_stop_ws.

(* ---------- one list item through scpiParser_parseProgramData (lexer with the fix for observation 5) ---------- *)
From M Require Import SimpleSpecs.
Lemma ws_disp w rest : all isws w -> starts isws rest = false -> disp (lex_ws (w ++ rest)) = Z.of_nat (length w).
Proof. intros Hw Hr. unfold lex_ws. cbn [disp mk]. now apply used_skip_while_all. Qed.
Lemma dec_first a : Dec a -> exists c r, a = c :: r /\ (isdigit c = true \/ isplusmn c = true \/ c = 46%N).
Proof.
  assert (HS : forall sg, optsign sg -> sg = [] \/ exists c, sg = [c] /\ isplusmn c = true) by (intros sg H; exact H).
  assert (HD : forall d, all isdigit d -> d <> [] -> exists c r, d = c :: r /\ isdigit c = true).
  { intros d Ha Hn. destruct d as [|c r]; [congruence|]. unfold all in Ha. cbn [forallb] in Ha. apply andb_prop in Ha as [Hc _]. eauto. }
  assert (HM : forall m, Mant m -> exists c r, m = c :: r /\ (isdigit c = true \/ isplusmn c = true \/ c = 46%N)).
  { intros m [sg d1 Hs Hd Hne|sg d1 d2 Hs Hd1 Hd2 _]; destruct (HS sg Hs) as [->|(c & -> & Hc)]; cbn [app].
    - destruct (HD d1 Hd Hne) as (c & r & -> & Hc). exists c, r. split; [reflexivity|now left].
    - exists c, d1. split; [reflexivity|right; now left].
    - destruct d1 as [|c r]; cbn [app]; [exists 46%N, d2; split; [reflexivity|right; now right]|].
      unfold all in Hd1. cbn [forallb] in Hd1. apply andb_prop in Hd1 as [Hc _]. exists c, (r ++ 46%N :: d2). split; [reflexivity|now left].
    - exists c, (d1 ++ [46%N] ++ d2). split; [reflexivity|right; now left]. }
  intros [m Hm|m e Hm _]; destruct (HM m Hm) as (c & r & -> & Hc); cbn [app]; [exists c, r|exists c, (r ++ e)]; (split; [reflexivity|exact Hc]).
Qed.
Definition item_stop (rest:bytes) : Prop :=
  starts isws rest = false /\ starts decalpha rest = false /\ starts (fun c => ischr 47%N c || isalpha c) rest = false.
Lemma suffix_none rest : starts (fun c => ischr 47%N c || isalpha c) rest = false -> ret (lex_suffix rest) = 0.
Proof.
  intro H. unfold lex_suffix. destruct rest as [|c r]; [reflexivity|]. cbn [starts] in H. apply orb_false_elim in H as [H1 H2].
  cbn [skip_opt]. rewrite H1. cbn [skip_while]. rewrite H2. unfold used. rewrite Z.sub_diag. change (0 <? 0) with false. cbv iota. rewrite Z.sub_diag. reflexivity.
Qed.

Theorem ppd_decimal w0 a w1 rest : all isws w0 -> Dec a -> all isws w1 -> item_stop rest ->
  let r := parse_program_data (w0 ++ a ++ w1 ++ rest) in
  ty (tok r) = T_DECIMAL /\ ptr (tok r) = Z.of_nat (length w0) /\ len (tok r) = Z.of_nat (length a) /\
  ret r = Z.of_nat (length w0) + Z.of_nat (length a) + Z.of_nat (length w1) /\
  disp r = Z.of_nat (length w0) + Z.of_nat (length a) + Z.of_nat (length w1).
Proof.
  intros Hw0 Ha Hw1 (Hs1 & Hs2 & Hs3). cbn zeta. unfold parse_program_data.
  destruct (dec_first a Ha) as (c & ar & Ea & Hc).
  assert (Hcws : isws c = false).
  { destruct Hc as [Hc|[Hc| ->]]; [apply digit_not_ws; exact Hc|apply sign_not_ws; exact Hc|reflexivity]. }
  rewrite (ws_disp w0 (a ++ w1 ++ rest) Hw0) by (rewrite Ea; cbn [app starts]; exact Hcws).
  rewrite drop_app_len. set (l0 := a ++ w1 ++ rest).
  (* not a nondecimal number, not character data *)
  assert (H1 : ret (lex_nondecimal l0) = 0).
  { unfold lex_nondecimal, l0. rewrite Ea. cbn [app starts]. unfold ischr. destruct (N.eqb_spec c 35) as [->|_]; [|reflexivity].
    destruct Hc as [Hc|[Hc|Hc]]; discriminate. }
  assert (H2 : ret (lex_chardata l0) = 0).
  { unfold lex_chardata, l0. rewrite Ea. cbn [app starts]. assert (isalpha c = false) as ->.
    { destruct Hc as [Hc|[Hc| ->]]; [|unfold isplusmn in Hc; apply orb_prop in Hc as [Hc|Hc]; apply N.eqb_eq in Hc; subst c; reflexivity|reflexivity].
      unfold isdigit, inr in Hc. apply andb_prop in Hc as [A B]. apply N.leb_le in A. apply N.leb_le in B. unfold isalpha, isupper, islower, inr.
      destruct (N.leb_spec 65 c), (N.leb_spec c 90), (N.leb_spec 97 c), (N.leb_spec c 122); cbn; try reflexivity; lia. }
    unfold used. rewrite Z.sub_diag. reflexivity. }
  rewrite H1, H2. cbn [Z.eqb negb].
  (* the decimal alternative *)
  pose proof (dec_stop_ws a w1 rest Ha Hw1 Hs2) as Hd. fold l0 in Hd.
  pose proof (lex_decimal_token l0) as (T1 & T2 & T3 & T4). cbn zeta in T1, T2, T3, T4. rewrite Hd in T2, T3, T4.
  pose proof (dec_len_pos a Ha) as Hpos.
  destruct (Z.eqb_spec (ret (lex_decimal l0)) 0) as [E|_]; [lia|]. cbn [negb]. rewrite Hd.
  assert (Hdrop : drop (Z.of_nat (length a)) l0 = w1 ++ rest) by (unfold l0; apply drop_app_len). rewrite Hdrop.
  rewrite (ws_disp w1 rest Hw1 Hs1). rewrite drop_app_len.
  rewrite (suffix_none rest Hs3). cbn [Z.ltb Z.compare].
  replace (drop (Z.of_nat (length a) + Z.of_nat (length w1)) l0) with rest.
  2:{ unfold l0. rewrite drop_drop by lia. rewrite drop_app_len. now rewrite drop_app_len. }
  assert (Hw : disp (lex_ws rest) = 0).
  { unfold lex_ws. cbn [disp mk]. rewrite skip_while_stop by exact Hs1. unfold used. lia. }
  rewrite Hw. cbn [tok ty ptr len ret disp]. rewrite T1, T2, T3.
  destruct (Z.ltb_spec 0 (Z.of_nat (length a))); [|lia]. rewrite T4. destruct (Z.ltb_spec 0 (Z.of_nat (length a))); [|lia].
  repeat split; lia.
Qed.
Print Assumptions ppd_decimal.

(* ---------- the whole parameter list through scpiParser_parseAllProgramData ---------- *)
Definition litem := (bytes * bytes * bytes)%type.
Definition item_text (i:litem) : bytes := let '(w0, a, w1) := i in w0 ++ a ++ w1.
Definition item_ok (i:litem) : Prop := let '(w0, a, w1) := i in all isws w0 /\ Dec a /\ all isws w1.
Fixpoint list_text (items:list litem) : bytes :=
  match items with [] => [] | [i] => item_text i | i :: r => item_text i ++ 44%N :: list_text r end.
Lemma list_text_cons i i2 r : list_text (i :: i2 :: r) = item_text i ++ 44%N :: list_text (i2 :: r).
Proof. reflexivity. Qed.

Lemma item_at i rest : item_ok i -> item_stop rest ->
  let r := parse_program_data (item_text i ++ rest) in
  ty (tok r) = T_DECIMAL /\ ret r = Z.of_nat (length (item_text i)) /\ disp r = Z.of_nat (length (item_text i)).
Proof.
  destruct i as [[w0 a] w1]. intros (H0 & Ha & H1) Hs. cbn [item_text]. rewrite <- !app_assoc.
  destruct (ppd_decimal w0 a w1 rest H0 Ha H1 Hs) as (T & _ & _ & R & D). cbn zeta. rewrite T, R, D, !app_length. repeat split; lia.
Qed.

Theorem all_data_list : forall items fuel l pos tlen count rest, Forall item_ok items -> items <> [] ->
  item_stop rest -> starts (ischr 44%N) rest = false -> 0 <= pos ->
  drop pos l = list_text items ++ rest -> (length items < fuel)%nat ->
  all_data_loop fuel l pos tlen count =
  {| ad_ty := T_ALL_DATA; ad_len := tlen + Z.of_nat (length (list_text items));
     ad_n := count + Z.of_nat (length items); ad_disp := pos + Z.of_nat (length (list_text items)) |}.
Proof.
  induction items as [|i r IH]; intros fuel l pos tlen count rest Hok Hne Hs Hc Hpos Hl Hf; [congruence|].
  destruct fuel as [|f]; [cbn in Hf; lia|]. cbn [all_data_loop]. inversion Hok as [|? ? Hi Hr]; subst.
  destruct r as [|i2 r'].
  - (* last item *)
    cbn [list_text] in *. rewrite Hl.
    destruct (item_at i rest Hi Hs) as (T & R & D). cbn zeta in T, R, D. rewrite T, R, D.
    replace (drop (pos + Z.of_nat (length (item_text i))) l) with rest by (rewrite drop_drop by lia; rewrite Hl; symmetry; apply drop_app_len).
    unfold lex_comma. rewrite (lex_chr_miss _ _ _ Hc). cbn [Z.eqb length]. f_equal; lia.
  - set (X := 44%N :: list_text (i2 :: r') ++ rest).
    assert (Hl' : drop pos l = item_text i ++ X) by (rewrite Hl, list_text_cons, <- app_assoc; reflexivity).
    rewrite Hl'.
    assert (Hst : item_stop X) by (repeat split; reflexivity).
    destruct (item_at i X Hi Hst) as (T & R & D). cbn zeta in T, R, D. rewrite T, R, D.
    assert (Hd : drop (pos + Z.of_nat (length (item_text i))) l = X).
    { rewrite drop_drop by lia. rewrite Hl'. apply drop_app_len. }
    rewrite Hd. assert (Hcm : ret (lex_comma X) = 1) by (unfold X, lex_comma; apply lex_chr_hit). rewrite Hcm. cbn [Z.eqb].
    rewrite (IH f l (pos + Z.of_nat (length (item_text i)) + 1) (tlen + Z.of_nat (length (item_text i)) + 1) (count + 1) rest Hr ltac:(discriminate) Hs Hc ltac:(lia)).
    + rewrite list_text_cons. f_equal; rewrite ?app_length; cbn [length]; lia.
    + rewrite drop_drop by lia. rewrite Hd. reflexivity.
    + cbn [length] in *. lia.
Qed.
Print Assumptions all_data_list.
