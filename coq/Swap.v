(* C17: SCPI_Swap16/32/64 (masks and shifts as written) reverse the bytes of a value *)
From Coq Require Import Bool List ZArith Lia.
Import ListNotations.
Local Open Scope Z_scope.

Definition swap16 (v:Z) : Z := Z.lor (Z.shiftl (Z.land v 255) 8) (Z.shiftr (Z.land v 65280) 8).
Definition swap32 (v:Z) : Z :=
  Z.lor (Z.lor (Z.shiftl (Z.land v 255) 24) (Z.shiftl (Z.land v 65280) 8))
        (Z.lor (Z.shiftr (Z.land v 16711680) 8) (Z.shiftr (Z.land v 4278190080) 24)).
Definition swap64 (v:Z) : Z :=
  fold_left Z.lor
    [Z.shiftl (Z.land v 255) 56; Z.shiftl (Z.land v 65280) 40; Z.shiftl (Z.land v 16711680) 24; Z.shiftl (Z.land v 4278190080) 8;
     Z.shiftr (Z.land v 1095216660480) 8; Z.shiftr (Z.land v 280375465082880) 24; Z.shiftr (Z.land v 71776119061217280) 40;
     Z.shiftr (Z.land v 18374686479671623680) 56] 0.

(* byte k of v *)
Definition byte_of (v:Z) (k:Z) : Z := Z.land (Z.shiftr v (8*k)) 255.

(* masks are bytes shifted into place *)
Lemma mask_bit k i : 0 <= k -> Z.testbit (Z.shiftl 255 (8*k)) i = (8*k <=? i) && (i <? 8*k + 8).
Proof. intros Hk. destruct (Z.ltb_spec i 0) as [Hn|Hi].
  - rewrite Z.testbit_neg_r by lia. destruct (Z.leb_spec (8*k) i); [lia|reflexivity].
  - rewrite Z.shiftl_spec by lia. change 255 with (Z.ones 8).
    destruct (Z.leb_spec (8*k) i); cbn [andb].
    + destruct (Z.ltb_spec i (8*k+8)); [apply Z.ones_spec_low; lia|apply Z.ones_spec_high; lia].
    + apply Z.testbit_neg_r. lia. Qed.

(* bit i of the byte-reversed value: byte j of the result is byte (n-1-j) of v *)
Definition rev_bit (n:Z) (v:Z) (i:Z) : bool :=
  if (0 <=? i) && (i <? 8*n) then Z.testbit v (8 * (n - 1 - i / 8) + i mod 8) else false.

Lemma swap32_bits v i : 0 <= v < 2^32 -> Z.testbit (swap32 v) i = rev_bit 4 v i.
Proof.
  intros Hv. unfold swap32, rev_bit.
  destruct (Z.ltb_spec i 0) as [Hneg|Hi]. { rewrite Z.testbit_neg_r by lia. destruct (Z.leb_spec 0 i); [lia|reflexivity]. }
  destruct (Z.leb_spec 0 i); [|lia]. cbn [andb].
  change 65280 with (Z.shiftl 255 (8*1)). change 16711680 with (Z.shiftl 255 (8*2)). change 4278190080 with (Z.shiftl 255 (8*3)).
  change 255 with (Z.shiftl 255 (8*0)) at 1.
  rewrite !Z.lor_spec.
  rewrite (Z.shiftl_spec _ 24 i), (Z.shiftl_spec _ 8 i), (Z.shiftr_spec _ 8 i), (Z.shiftr_spec _ 24 i) by lia.
  rewrite !Z.land_spec.
  assert (Hhigh : forall j, 32 <= j -> Z.testbit v j = false).
  { intros j Hj. destruct (Z.eq_dec v 0) as [->|Hnz]; [apply Z.bits_0|]. apply Z.bits_above_log2; [lia|]. apply Z.log2_lt_pow2; [lia|]. apply Z.lt_le_trans with (2^32); [lia|apply Z.pow_le_mono_r; lia]. }
  destruct (Z.ltb_spec i (8*4)) as [Hlt|Hge].
  - (* which byte of the result *)
    assert (Hq : i / 8 = 0 \/ i / 8 = 1 \/ i / 8 = 2 \/ i / 8 = 3) by (assert (0 <= i / 8 < 4) by (split; [apply Z.div_pos; lia|apply Z.div_lt_upper_bound; lia]); lia).
    assert (Hm : 0 <= i mod 8 < 8) by (apply Z.mod_pos_bound; lia).
    assert (Hi8 : i = 8 * (i / 8) + i mod 8) by (apply Z.div_mod; lia).
    destruct Hq as [Q|[Q|[Q|Q]]]; rewrite Q in *;
    rewrite ?mask_bit by lia;
    repeat match goal with |- context [Z.testbit v ?x] => first [ rewrite (Z.testbit_neg_r v x) by lia | fail 1 ] end;
    repeat match goal with |- context [(?a <=? ?b)] => first [ replace (a <=? b) with true by (symmetry; apply Z.leb_le; lia) | replace (a <=? b) with false by (symmetry; apply Z.leb_gt; lia) ] end;
    repeat match goal with |- context [(?a <? ?b)] => first [ replace (a <? b) with true by (symmetry; apply Z.ltb_lt; lia) | replace (a <? b) with false by (symmetry; apply Z.ltb_ge; lia) ] end;
    cbn [andb orb]; rewrite ?andb_false_r, ?andb_true_r, ?orb_false_r, ?orb_false_l;
    try (f_equal; lia).
  - (* above the 32 bits everything is zero *)
    rewrite ?mask_bit by lia.
    repeat match goal with |- context [Z.testbit v ?x] => first [ rewrite (Z.testbit_neg_r v x) by lia | rewrite (Hhigh x) by lia | fail 1 ] end.
    repeat match goal with |- context [(?a <=? ?b)] => first [ replace (a <=? b) with true by (symmetry; apply Z.leb_le; lia) | replace (a <=? b) with false by (symmetry; apply Z.leb_gt; lia) ] end;
    repeat match goal with |- context [(?a <? ?b)] => first [ replace (a <? b) with true by (symmetry; apply Z.ltb_lt; lia) | replace (a <? b) with false by (symmetry; apply Z.ltb_ge; lia) ] end.
    cbn [andb orb]. rewrite ?andb_false_r, ?andb_false_l. reflexivity.
Qed.

(* from bits to bytes: byte j of swap32 v is byte 3-j of v *)
Lemma byte_of_bits v k i : 0 <= k -> Z.testbit (byte_of v k) i = (0 <=? i) && (i <? 8) && Z.testbit v (8*k + i).
Proof. intros Hk. unfold byte_of. destruct (Z.ltb_spec i 0).
  - rewrite Z.testbit_neg_r by lia. destruct (Z.leb_spec 0 i); [lia|reflexivity].
  - rewrite Z.land_spec, Z.shiftr_spec by lia. change 255 with (Z.ones 8).
    destruct (Z.leb_spec 0 i); [|lia]. destruct (Z.ltb_spec i 8); cbn [andb].
    + rewrite Z.ones_spec_low by lia. rewrite andb_true_r. f_equal. lia.
    + rewrite Z.ones_spec_high by lia. now rewrite andb_false_r. Qed.
Theorem swap32_bytes v j : 0 <= v < 2^32 -> 0 <= j < 4 -> byte_of (swap32 v) j = byte_of v (3 - j).
Proof.
  intros Hv Hj. apply Z.bits_inj'. intros i Hi. rewrite !byte_of_bits by lia. rewrite swap32_bits by exact Hv. unfold rev_bit.
  destruct (Z.leb_spec 0 i); [|lia]. destruct (Z.ltb_spec i 8); cbn [andb]; [|reflexivity].
  destruct (Z.leb_spec 0 (8*j+i)); [|lia]. destruct (Z.ltb_spec (8*j+i) (8*4)); [|lia]. cbn [andb].
  f_equal. replace ((8*j+i)/8) with j by (apply Z.div_unique with i; [left; lia|lia]).
  replace ((8*j+i) mod 8) with i by (apply Z.mod_unique with j; [left; lia|lia]). lia.
Qed.
Lemma swap64_bits v i : 0 <= v < 2^64 -> Z.testbit (swap64 v) i = rev_bit 8 v i.
Proof.
  intros Hv. unfold swap64, rev_bit. cbn [fold_left]. rewrite Z.lor_0_l.
  destruct (Z.ltb_spec i 0) as [Hneg|Hi]. { rewrite Z.testbit_neg_r by lia. destruct (Z.leb_spec 0 i); [lia|reflexivity]. }
  destruct (Z.leb_spec 0 i); [|lia]. cbn [andb].
  change 65280 with (Z.shiftl 255 (8*1)). change 16711680 with (Z.shiftl 255 (8*2)). change 4278190080 with (Z.shiftl 255 (8*3)).
  change 1095216660480 with (Z.shiftl 255 (8*4)). change 280375465082880 with (Z.shiftl 255 (8*5)).
  change 71776119061217280 with (Z.shiftl 255 (8*6)). change 18374686479671623680 with (Z.shiftl 255 (8*7)).
  change 255 with (Z.shiftl 255 (8*0)) at 1.
  rewrite !Z.lor_spec.
  rewrite (Z.shiftl_spec _ 56 i), (Z.shiftl_spec _ 40 i), (Z.shiftl_spec _ 24 i), (Z.shiftl_spec _ 8 i),
          (Z.shiftr_spec _ 8 i), (Z.shiftr_spec _ 24 i), (Z.shiftr_spec _ 40 i), (Z.shiftr_spec _ 56 i) by lia.
  rewrite !Z.land_spec.
  assert (Hhigh : forall j, 64 <= j -> Z.testbit v j = false).
  { intros j Hj. destruct (Z.eq_dec v 0) as [->|Hnz]; [apply Z.bits_0|]. apply Z.bits_above_log2; [lia|]. apply Z.log2_lt_pow2; [lia|]. apply Z.lt_le_trans with (2^64); [lia|apply Z.pow_le_mono_r; lia]. }
  destruct (Z.ltb_spec i (8*8)) as [Hlt|Hge].
  - assert (Hq : 0 <= i / 8 < 8) by (split; [apply Z.div_pos; lia|apply Z.div_lt_upper_bound; lia]).
    assert (Hm : 0 <= i mod 8 < 8) by (apply Z.mod_pos_bound; lia).
    assert (Hi8 : i = 8 * (i / 8) + i mod 8) by (apply Z.div_mod; lia).
    assert (Hq' : i / 8 = 0 \/ i / 8 = 1 \/ i / 8 = 2 \/ i / 8 = 3 \/ i / 8 = 4 \/ i / 8 = 5 \/ i / 8 = 6 \/ i / 8 = 7) by lia.
    destruct Hq' as [Q|[Q|[Q|[Q|[Q|[Q|[Q|Q]]]]]]]; rewrite Q in *;
    rewrite ?mask_bit by lia;
    repeat match goal with |- context [Z.testbit v ?x] => first [ rewrite (Z.testbit_neg_r v x) by lia | fail 1 ] end;
    repeat match goal with |- context [(?a <=? ?b)] => first [ replace (a <=? b) with true by (symmetry; apply Z.leb_le; lia) | replace (a <=? b) with false by (symmetry; apply Z.leb_gt; lia) ] end;
    repeat match goal with |- context [(?a <? ?b)] => first [ replace (a <? b) with true by (symmetry; apply Z.ltb_lt; lia) | replace (a <? b) with false by (symmetry; apply Z.ltb_ge; lia) ] end;
    cbn [andb orb]; rewrite ?andb_false_r, ?andb_true_r, ?orb_false_r, ?orb_false_l;
    try (f_equal; lia).
  - rewrite ?mask_bit by lia.
    repeat match goal with |- context [Z.testbit v ?x] => first [ rewrite (Z.testbit_neg_r v x) by lia | rewrite (Hhigh x) by lia | fail 1 ] end.
    repeat match goal with |- context [(?a <=? ?b)] => first [ replace (a <=? b) with true by (symmetry; apply Z.leb_le; lia) | replace (a <=? b) with false by (symmetry; apply Z.leb_gt; lia) ] end;
    repeat match goal with |- context [(?a <? ?b)] => first [ replace (a <? b) with true by (symmetry; apply Z.ltb_lt; lia) | replace (a <? b) with false by (symmetry; apply Z.ltb_ge; lia) ] end.
    cbn [andb orb]. rewrite ?andb_false_r, ?andb_false_l. reflexivity.
Qed.
Theorem swap64_bytes v j : 0 <= v < 2^64 -> 0 <= j < 8 -> byte_of (swap64 v) j = byte_of v (7 - j).
Proof.
  intros Hv Hj. apply Z.bits_inj'. intros i Hi. rewrite !byte_of_bits by lia. rewrite swap64_bits by exact Hv. unfold rev_bit.
  destruct (Z.leb_spec 0 i); [|lia]. destruct (Z.ltb_spec i 8); cbn [andb]; [|reflexivity].
  destruct (Z.leb_spec 0 (8*j+i)); [|lia]. destruct (Z.ltb_spec (8*j+i) (8*8)); [|lia]. cbn [andb].
  f_equal. replace ((8*j+i)/8) with j by (apply Z.div_unique with i; [left; lia|lia]).
  replace ((8*j+i) mod 8) with i by (apply Z.mod_unique with j; [left; lia|lia]). lia.
Qed.
Print Assumptions swap64_bytes.
(* 16 bits: finite sweep *)
Fixpoint zrange (n:nat) (z:Z) : list Z := match n with O => [] | S n' => z :: zrange n' (z+1) end.
Lemma in_zrange n : forall z c, z <= c < z + Z.of_nat n -> In c (zrange n z).
Proof. induction n as [|n IH]; intros z c H; [lia|]. cbn [zrange]. destruct (Z.eq_dec z c); [now left|right; apply IH; lia]. Qed.
Lemma swap16_all : forallb (fun v => (byte_of (swap16 v) 0 =? byte_of v 1) && (byte_of (swap16 v) 1 =? byte_of v 0)) (zrange (Z.to_nat 65536) 0) = true.
Proof. vm_compute. reflexivity. Qed.
Theorem swap16_bytes v : 0 <= v < 2^16 -> byte_of (swap16 v) 0 = byte_of v 1 /\ byte_of (swap16 v) 1 = byte_of v 0.
Proof. intros H. change (2^16) with 65536 in H. pose proof swap16_all as A. rewrite forallb_forall in A. assert (Hin : In v (zrange (Z.to_nat 65536) 0)) by (apply in_zrange; rewrite Z2Nat.id; lia). specialize (A v Hin).
  apply andb_prop in A as [A1 A2]. apply Z.eqb_eq in A1, A2. auto. Qed.
Print Assumptions swap32_bytes.
