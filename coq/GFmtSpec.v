(* C16: the rounding at the heart of the exact %g model is round-to-nearest-even, and the significant digits it
   yields are within half a unit of the last place, given a correct decimal exponent *)
From Coq Require Import Bool List ZArith Lia Zify.
From M Require Import GFmt.
Import ListNotations.
Local Open Scope Z_scope.
Ltac Zify.zify_post_hook ::= Z.div_mod_to_equations.

(* rne n d is a nearest integer to n/d, and the even one on ties *)
Theorem rne_nearest n d : 0 < d -> 0 <= n -> 2 * Z.abs (n - rne n d * d) <= d.
Proof.
  intros Hd Hn. unfold rne.
  pose proof (Z.div_mod n d ltac:(lia)) as E. pose proof (Z.mod_pos_bound n d Hd) as B.
  set (q := n / d) in *. set (r := n mod d) in *. clearbody q r.
  destruct (Z.ltb_spec d (2 * r)); [nia|]. destruct ((2 * r =? d) && Z.odd q) eqn:T; nia.
Qed.
Theorem rne_tie_even n d : 0 < d -> 0 <= n -> 2 * (n mod d) = d -> Z.even (rne n d) = true.
Proof.
  intros Hd Hn Ht. unfold rne. destruct (Z.ltb_spec d (2 * (n mod d))); [lia|].
  rewrite (proj2 (Z.eqb_eq _ _) Ht). cbn [andb]. destruct (Z.odd (n / d)) eqn:O.
  - rewrite Z.even_add. rewrite <- Z.negb_odd, O. reflexivity.
  - rewrite <- Z.negb_odd, O. reflexivity.
Qed.
Theorem rne_mono_floor n d : 0 < d -> 0 <= n -> n / d <= rne n d <= n / d + 1.
Proof. intros. unfold rne. destruct (d <? 2 * (n mod d)); [lia|]. destruct (_ && _); lia. Qed.

(* the decimal exponent is right when 10^x <= n/d < 10^(x+1); ge10 decides each half exactly *)
Definition ilog_ok (n d x:Z) : bool := ge10 n d x && negb (ge10 n d (x + 1)).

(* P significant digits: D has exactly P digits and D * 10^(X-P+1) is within half a unit of that place of n/d.
   Stated without division: for the scale s = X-P+1 >= 0:  2 * |n - D * d * 10^s| <= d * 10^s,
   for s < 0:  2 * |n * 10^(-s) - D * d| <= d.  (X = x0, or x0+1 when rounding carried into a new digit.) *)
Theorem sig_digits_nearest P n d : 0 < P -> 0 < d -> 0 < n -> ilog_ok n d (ilog10 n d) = true ->
  let x0 := ilog10 n d in let s := x0 - P + 1 in
  let D0 := if 0 <=? s then rne n (d * 10 ^ s) else rne (n * 10 ^ (- s)) d in
  (if 0 <=? s then 2 * Z.abs (n - D0 * (d * 10 ^ s)) <= d * 10 ^ s else 2 * Z.abs (n * 10 ^ (- s) - D0 * d) <= d) /\
  10 ^ (P - 1) <= D0 <= 10 ^ P /\
  sig_digits P n d = (if D0 =? 10 ^ P then (10 ^ (P - 1), x0 + 1) else (D0, x0)).
Proof.
  intros HP Hd Hn Hok x0 s D0. split; [|split; [|reflexivity]].
  - subst D0. destruct (Z.leb_spec 0 s).
    + apply rne_nearest; [apply Z.mul_pos_pos; [lia|apply Z.pow_pos_nonneg; lia]|lia].
    + apply rne_nearest; [lia|]. apply Z.mul_nonneg_nonneg; [lia|apply Z.pow_nonneg; lia].
  - (* 10^(P-1) <= n/(d*10^s) < 10^P from the exponent being right *)
    unfold ilog_ok in Hok. apply andb_prop in Hok as [Hlo Hhi]. apply negb_true_iff in Hhi. fold x0 in Hlo, Hhi.
    assert (Hpw : forall a b, 0 <= a -> 0 <= b -> 10 ^ (a + b) = 10 ^ a * 10 ^ b) by (intros; apply Z.pow_add_r; lia).
    assert (Hpos : forall a, 0 <= a -> 0 < 10 ^ a) by (intros; apply Z.pow_pos_nonneg; lia).
    subst D0. destruct (Z.leb_spec 0 s) as [Hs|Hs].
    + (* s >= 0, so x0 >= P-1 >= 0 *)
      assert (Hx0 : 0 <= x0) by lia. unfold ge10 in Hlo, Hhi.
      destruct (Z.leb_spec 0 x0); [|lia]. destruct (Z.leb_spec 0 (x0 + 1)); [|lia].
      apply Z.leb_le in Hlo. apply Z.leb_gt in Hhi.
      replace x0 with (s + (P - 1)) in Hlo by lia. replace (x0 + 1) with (s + P) in Hhi by lia.
      rewrite Hpw in Hlo, Hhi by lia.
      pose proof (Hpos s Hs) as Hps. pose proof (Hpos (P - 1) ltac:(lia)) as Hpp. pose proof (Hpos P ltac:(lia)) as HpP.
      set (e := d * 10 ^ s) in *. assert (He : 0 < e) by (apply Z.mul_pos_pos; lia).
      pose proof (rne_mono_floor n e He ltac:(lia)) as [R1 R2].
      assert (Q1 : 10 ^ (P - 1) <= n / e) by (apply Z.div_le_lower_bound; [lia|]; subst e; nia).
      assert (Q2 : n / e < 10 ^ P) by (apply Z.div_lt_upper_bound; [lia|]; subst e; nia).
      lia.
    + (* s < 0: scale the numerator *)
      set (t := - s) in *. assert (Ht : 0 < t) by lia. pose proof (Hpos t ltac:(lia)) as Hpt.
      set (m := n * 10 ^ t) in *. assert (Hm : 0 <= m) by (subst m; nia).
      pose proof (rne_mono_floor m d Hd Hm) as [R1 R2].
      pose proof (Hpos (P - 1) ltac:(lia)) as Hpp. pose proof (Hpos P ltac:(lia)) as HpP.
      (* d * 10^(P-1) <= m < d * 10^P *)
      assert (B1 : d * 10 ^ (P - 1) <= m).
      { unfold ge10 in Hlo. destruct (Z.leb_spec 0 x0) as [Hx|Hx]; apply Z.leb_le in Hlo.
        - subst m. replace (P - 1) with (x0 + t) by lia. rewrite Hpw by lia. nia.
        - subst m. replace t with (- x0 + (P - 1)) by lia. rewrite Hpw by lia. nia. }
      assert (B2 : m < d * 10 ^ P).
      { unfold ge10 in Hhi. destruct (Z.leb_spec 0 (x0 + 1)) as [Hx|Hx]; apply Z.leb_gt in Hhi.
        - subst m. replace P with (x0 + 1 + t) by lia. rewrite Hpw by lia. nia.
        - subst m. replace t with (- (x0 + 1) + P) by lia. rewrite Hpw by lia. nia. }
      assert (Q1 : 10 ^ (P - 1) <= m / d) by (apply Z.div_le_lower_bound; lia).
      assert (Q2 : m / d < 10 ^ P) by (apply Z.div_lt_upper_bound; lia).
      lia.
Qed.
Print Assumptions sig_digits_nearest.
Print Assumptions rne_nearest.

(* the exponent check on a few concrete values (a test, not a proof of ilog10) *)
Example ilog_examples : forallb (fun nd => ilog_ok (fst nd) (snd nd) (ilog10 (fst nd) (snd nd))) [(1,1); (999,1000); (1,3); (123456789,1); (1, 2^1074); (2^1023 * (2^53 - 1), 2^52)] = true.
Proof. vm_compute. reflexivity. Qed.
