(* C03: matchCommand on a rendered pattern decides the short/long-form header language (numbers = NULL) *)
From Coq Require Import Bool List NArith ZArith Lia.
From M Require Import MatchModel MatchConc MatchAbs.
Import ListNotations.

Definition abs_item (it:MatchConc.item) : MatchAbs.item bytes := {| MatchAbs.ok := seg_ok it; MatchAbs.opt := MatchConc.opt it |}.
Lemma greedy_abs its ss : MatchConc.greedy its ss = MatchAbs.greedy bytes (map abs_item its) ss.
Proof. revert ss; induction its as [|it its IH]; intros ss; [reflexivity|]. cbn [MatchConc.greedy map MatchAbs.greedy].
  destruct ss as [|s ss'].
  - cbn. f_equal. clear. induction its as [|i l IHl]; [reflexivity|]. cbn. now rewrite IHl.
  - cbn [abs_item MatchAbs.ok MatchAbs.opt]. rewrite !IH. reflexivity. Qed.

(* the language: every mandatory keyword and any subset of the optional ones, in order, each segment in a form seg_ok accepts *)
Definition in_language (it:MatchConc.item) (its:list MatchConc.item) (segs:list bytes) : bool :=
  MatchAbs.accepts bytes (map abs_item (it :: its)) segs.
Definition unambiguous (it:MatchConc.item) (its:list MatchConc.item) : Prop := MatchAbs.unamb bytes (map abs_item (it :: its)).

Theorem match_language it its q lead seg ss hq dflt :
  okname (nm it) -> wf its -> okseg seg -> Forall okseg ss -> seg <> [] -> get seg 0 <> 42%N ->
  (q = false -> hq = false) -> unambiguous it its ->
  matchCommand (render it its q) (hdr lead seg ss hq) None dflt =
  Res ((negb q || hq) && in_language it its (seg :: ss)) None.
Proof.
  intros. rewrite match_top by assumption. unfold in_language. rewrite greedy_abs.
  now rewrite (MatchAbs.greedy_accepts bytes _ H6).
Qed.
Print Assumptions match_language.
