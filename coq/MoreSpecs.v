(* C13: newline, nondecimal numbers, quoted strings *)
From Coq Require Import Bool List NArith ZArith Lia.
From M Require Import LexModel LexBounds DecSpec.
Import ListNotations.
Local Open Scope Z_scope.

(* ---------- maximal munch, as two reusable facts ---------- *)
Lemma munch_all p r : all p (firstn (Z.to_nat (used r (skip_while p r))) r).
Proof.
  destruct (skip_while_split p r) as (pre & Hs & Hp). rewrite Hs at 1 3. rewrite firstn_used. exact Hp.
Qed.
Lemma munch_max p r m : (m <= length r)%nat -> all p (firstn m r) -> Z.of_nat m <= used r (skip_while p r).
Proof.
  intros Hm Hall.
  assert (Hsk : skip_while p r = skip_while p (skipn m r)).
  { rewrite <- (firstn_skipn m r) at 1. now apply skip_while_app. }
  pose proof (sfx_skip_while p (skipn m r)) as Hsf. rewrite <- Hsk in Hsf.
  apply sfx_len in Hsf. rewrite skipn_length in Hsf. unfold used. lia.
Qed.
Lemma munch_bounds p r : 0 <= used r (skip_while p r) <= Z.of_nat (length r).
Proof. pose proof (sfx_skip_while p r) as H. apply sfx_len in H. unfold used. lia. Qed.

(* ---------- nondecimal numbers: # (H|h) hex+ | # (Q|q) oct+ | # (B|b) bin+ ---------- *)
Definition NonDec (t:bytes) : Prop := exists c ds, t = 35%N :: c :: ds /\ ds <> [] /\
  ((isH c = true /\ all isxdigit ds) \/ (isQ c = true /\ all isqdigit ds) \/ (isB c = true /\ all isbdigit ds)).
Lemma letters_exclusive c : (isH c = true -> isQ c = false /\ isB c = false) /\ (isQ c = true -> isH c = false /\ isB c = false) /\ (isB c = true -> isH c = false /\ isQ c = false).
Proof.
  unfold isH, isQ, isB.
  destruct (N.eqb_spec c 104), (N.eqb_spec c 72), (N.eqb_spec c 113), (N.eqb_spec c 81), (N.eqb_spec c 98), (N.eqb_spec c 66); subst; cbn; repeat split; intros; try discriminate; try reflexivity; try congruence.
Qed.
(* one radix: after "#c", the digits of class p are taken greedily *)
Lemma nondec_branch (t:ttype) p c r :
  let n := used r (skip_while p r) in
  let res := if 0 <? n then mk t 2 n (n + 2) (n + 2) else mk T_UNKNOWN 0 0 0 0 in
  (0 <= disp res <= Z.of_nat (length (35%N :: c :: r))) /\
  (0 < disp res -> exists ds, firstn (Z.to_nat (disp res)) (35%N :: c :: r) = 35%N :: c :: ds /\ ds <> [] /\ all p ds) /\
  (forall m, disp res < m <= Z.of_nat (length (35%N :: c :: r)) ->
     forall ds, firstn (Z.to_nat m) (35%N :: c :: r) = 35%N :: c :: ds -> ds <> [] -> ~ all p ds).
Proof.
  intros n res. pose proof (munch_bounds p r) as Hb. fold n in Hb. subst res. unfold bytes, byte in *.
  destruct (Z.ltb_spec 0 n) as [Hpos|Hz]; cbn [disp mk].
  - split; [cbn [length]; lia|]. split.
    + intros _. exists (firstn (Z.to_nat n) r). replace (Z.to_nat (n + 2)) with (S (S (Z.to_nat n))) by lia. cbn [firstn].
      split; [reflexivity|]. split; [|apply munch_all].
      intro Hnil. apply (f_equal (@length N)) in Hnil. rewrite firstn_length_le in Hnil by lia. cbn in Hnil. lia.
    + intros m Hm ds Hf Hne Hall. replace (Z.to_nat m) with (S (S (Z.to_nat (m - 2)))) in Hf by lia. cbn [firstn] in Hf. injection Hf as Hf.
      subst ds. cbn [length] in Hm. pose proof (munch_max p r (Z.to_nat (m - 2))) as H. unfold bytes, byte in *. specialize (H ltac:(lia) Hall). fold n in H. lia.
  - split; [cbn [length]; lia|]. split; [lia|].
    intros m Hm ds Hf Hne Hall. cbn [length] in Hm.
    destruct (Z.le_gt_cases m 2) as [Hle|Hgt].
    + apply (f_equal (@length N)) in Hf. rewrite firstn_length_le in Hf by (cbn [length]; lia). cbn [length] in Hf.
      destruct ds; [congruence|cbn [length] in Hf; lia].
    + replace (Z.to_nat m) with (S (S (Z.to_nat (m - 2)))) in Hf by lia. cbn [firstn] in Hf. injection Hf as Hf. subst ds.
      pose proof (munch_max p r (Z.to_nat (m - 2))) as H. unfold bytes, byte in *. specialize (H ltac:(lia) Hall). fold n in H. lia.
Qed.

Lemma nondec_len t : NonDec t -> (3 <= length t)%nat.
Proof. intros (c & ds & -> & Hne & _). destruct ds; [congruence|cbn [length]; lia]. Qed.
Lemma nondec_prefix_short (s:bytes) m : (length s < 3)%nat -> ~ NonDec (firstn m s).
Proof. intros H Hn. apply nondec_len in Hn. rewrite firstn_length in Hn. lia. Qed.
Theorem nondecimal_longest s : longest NonDec s (disp (lex_nondecimal s)).
Proof.
  unfold lex_nondecimal, longest.
  assert (Hfail : forall s', (forall m, 0 < m <= Z.of_nat (length s') -> ~ NonDec (firstn (Z.to_nat m) s')) ->
     (0 <= 0 /\ 0 <= Z.of_nat (length s')) /\ (0 < 0 -> NonDec (firstn (Z.to_nat 0) s')) /\
     (forall m, 0 < m /\ m <= Z.of_nat (length s') -> ~ NonDec (firstn (Z.to_nat m) s'))).
  { intros s' H. split; [lia|]. split; [lia|]. intros m Hm. apply H. lia. }
  destruct s as [|a [|c r]].
  - cbn [starts]. cbn [disp mk]. apply Hfail. intros m Hm. cbn in Hm. lia.
  - destruct (starts (ischr 35%N) [a]); cbn [tl disp mk]; apply Hfail; intros m Hm; apply nondec_prefix_short; cbn [length]; lia.
  - cbn [starts]. unfold ischr. destruct (N.eqb_spec a 35) as [->|Ha]; cbn [tl].
    2:{ cbn [disp mk]. apply Hfail. intros m Hm (c' & ds & Hf & _). replace (Z.to_nat m) with (S (Z.to_nat (m - 1))) in Hf by lia. cbn [firstn] in Hf. injection Hf as Hf _. congruence. }
    destruct (letters_exclusive c) as (EH & EQ & EB).
    (* a generic step: once the radix letter is known, the branch lemma gives the three parts *)
    assert (Hbranch : forall t p (Hp : (isH c = true /\ p = isxdigit) \/ (isQ c = true /\ p = isqdigit) \/ (isB c = true /\ p = isbdigit)),
      let n := used r (skip_while p r) in let res := if 0 <? n then mk t 2 n (n + 2) (n + 2) else mk T_UNKNOWN 0 0 0 0 in
      (0 <= disp res /\ disp res <= Z.of_nat (length (35%N :: c :: r))) /\
      (0 < disp res -> NonDec (firstn (Z.to_nat (disp res)) (35%N :: c :: r))) /\
      (forall m, disp res < m /\ m <= Z.of_nat (length (35%N :: c :: r)) -> ~ NonDec (firstn (Z.to_nat m) (35%N :: c :: r)))).
    { intros t p Hp n res. destruct (nondec_branch t p c r) as (B1 & B2 & B3). fold n res in B1, B2, B3.
      split; [lia|]. split.
      - intro Hpos. destruct (B2 Hpos) as (ds & Hf & Hne & Hall). exists c, ds. split; [exact Hf|]. split; [exact Hne|].
        destruct Hp as [[Hc ->]|[[Hc ->]|[Hc ->]]]; auto.
      - intros m Hm (c' & ds & Hf & Hne & Hcls).
        assert (c' = c) as ->. { replace (Z.to_nat m) with (S (S (Z.to_nat (m - 2)))) in Hf by (cbn [length] in Hm; destruct ds; [congruence|]; apply (f_equal (@length N)) in Hf; rewrite firstn_length_le in Hf by (cbn [length] in *; lia); cbn [length] in Hf; lia). cbn [firstn] in Hf. now injection Hf. }
        apply (B3 m ltac:(lia) ds Hf Hne).
        destruct Hp as [[Hc ->]|[[Hc ->]|[Hc ->]]]; destruct Hcls as [[Hc' Ha']|[[Hc' Ha']|[Hc' Ha']]]; try exact Ha';
        try (destruct (EH Hc); congruence); try (destruct (EQ Hc); congruence); try (destruct (EB Hc); congruence). }
    destruct (isH c) eqn:EcH; [apply (Hbranch T_HEXNUM isxdigit); auto|].
    destruct (isQ c) eqn:EcQ; [apply (Hbranch T_OCTNUM isqdigit); auto|].
    destruct (isB c) eqn:EcB; [apply (Hbranch T_BINNUM isbdigit); auto|].
    cbn [disp mk]. apply Hfail. intros m Hm (c' & ds & Hf & Hne & Hcls).
    assert (c' = c) as ->. { replace (Z.to_nat m) with (S (S (Z.to_nat (m - 2)))) in Hf by (cbn [length] in Hm; destruct ds; [congruence|]; apply (f_equal (@length N)) in Hf; rewrite firstn_length_le in Hf by (cbn [length] in *; lia); cbn [length] in Hf; lia). cbn [firstn] in Hf. now injection Hf. }
    destruct Hcls as [[Hc' _]|[[Hc' _]|[Hc' _]]]; congruence.
Qed.
Print Assumptions nondecimal_longest.

(* ---------- quoted strings: q (7-bit char other than q | q q)* q, delimited by a following non-q ---------- *)
Inductive Body (q:N) : bytes -> Prop :=
| B_nil : Body q []
| B_chr c r : isascii7 c = true -> c <> q -> Body q r -> Body q (c :: r)
| B_qq r : Body q r -> Body q (q :: q :: r).
Definition Str (q:N) (t:bytes) : Prop := exists b, Body q b /\ t = q :: b ++ [q].

Lemma ischr_refl q : ischr q q = true. Proof. unfold ischr. apply N.eqb_refl. Qed.
Lemma ischr_ne q c : c <> q -> ischr q c = false. Proof. unfold ischr. intro H. now apply N.eqb_neq. Qed.
Lemma ischr_eq q c : ischr q c = true -> c = q. Proof. unfold ischr. apply N.eqb_eq. Qed.

(* completeness: a body followed by a closing quote that is not doubled is skipped exactly *)
Lemma skip_quoted_complete q b rest : Body q b -> starts (ischr q) rest = false -> skip_quoted q (b ++ q :: rest) = q :: rest.
Proof.
  intros Hb Hr. induction Hb as [|c r Ha Hne Hb IH|r Hb IH]; cbn [app].
  - cbn [skip_quoted]. rewrite ischr_refl. cbn [negb andb]. rewrite andb_false_r.
    destruct rest as [|c2 r2]; [reflexivity|]. cbn [starts] in Hr. now rewrite Hr.
  - cbn [skip_quoted]. rewrite Ha, (ischr_ne q c Hne). cbn [negb andb]. exact IH.
  - cbn [skip_quoted]. rewrite ischr_refl. cbn [negb andb]. rewrite andb_false_r. exact IH.
Qed.
(* soundness: what was skipped is a body, and the scan stops at an undoubled quote, a foreign byte or the end *)
Lemma skip_quoted_sound q : forall n l, (length l <= n)%nat ->
  exists b, Body q b /\ l = b ++ skip_quoted q l /\
            (forall l2, skip_quoted q l = q :: l2 -> starts (ischr q) l2 = false).
Proof.
  induction n as [|n IH]; intros l Hl.
  - destruct l; [|cbn in Hl; lia]. exists []. split; [constructor|]. split; [reflexivity|]. cbn. discriminate.
  - destruct l as [|c r]; [exists []; split; [constructor|]; split; [reflexivity|]; cbn; discriminate|].
    cbn [skip_quoted]. destruct (isascii7 c && negb (ischr q c)) eqn:E1.
    + apply andb_prop in E1 as [Ha Hn]. apply negb_true_iff in Hn.
      destruct (IH r ltac:(cbn in Hl; lia)) as (b & Hb & Hs & Hstop). exists (c :: b). split; [|split; [cbn [app]; now f_equal|exact Hstop]].
      constructor; [exact Ha| |exact Hb]. intro; subst c. rewrite ischr_refl in Hn. discriminate.
    + destruct (ischr q c) eqn:E2.
      * apply ischr_eq in E2. subst c. destruct r as [|c2 r2].
        -- exists []. split; [constructor|]. split; [reflexivity|]. intros l2 H. injection H as <-. reflexivity.
        -- destruct (ischr q c2) eqn:E3.
           ++ apply ischr_eq in E3. subst c2. destruct (IH r2 ltac:(cbn in Hl; lia)) as (b & Hb & Hs & Hstop).
              exists (q :: q :: b). split; [now constructor|]. split; [cbn [app]; now do 2 f_equal|exact Hstop].
           ++ exists []. split; [constructor|]. split; [reflexivity|]. intros l2 H. injection H as <-. cbn [starts]. exact E3.
      * exists []. split; [constructor|]. split; [reflexivity|]. intros l2 H. injection H as H _. subst c. rewrite ischr_refl in E2. discriminate.
Qed.

Definition quote_of (s:bytes) : option N :=
  match s with c :: _ => if (c =? 34)%N then Some 34%N else if (c =? 39)%N then Some 39%N else None | [] => None end.

Theorem string_sound s : 0 < disp (lex_string s) ->
  exists q, quote_of s = Some q /\ Str q (firstn (Z.to_nat (disp (lex_string s))) s) /\
            starts (ischr q) (skipn (Z.to_nat (disp (lex_string s))) s) = false.
Proof.
  unfold lex_string, quote_of. destruct s as [|c l0]; [cbn; lia|]. cbn [starts tl]. change (ischr 34 c) with (c =? 34)%N. change (ischr 39 c) with (c =? 39)%N.
  assert (Hgo : forall t q, c = q ->
     let r := (if starts (ischr q) (skip_quoted q l0) then mk t 0 (used (c :: l0) (tl (skip_quoted q l0))) (used (c :: l0) (tl (skip_quoted q l0))) (used (c :: l0) (tl (skip_quoted q l0))) else mk T_UNKNOWN 0 0 0 0) in
     0 < disp r -> Str q (firstn (Z.to_nat (disp r)) (c :: l0)) /\ starts (ischr q) (skipn (Z.to_nat (disp r)) (c :: l0)) = false).
  { intros t q -> r Hpos. subst r. destruct (skip_quoted_sound q (length l0) l0 (le_n _)) as (b & Hb & Hs & Hstop).
    destruct (skip_quoted q l0) as [|x l2] eqn:El1; [cbn in Hpos; lia|]. cbn [starts] in Hpos |- *.
    destruct (ischr q x) eqn:Ex; [|cbn in Hpos; lia]. apply ischr_eq in Ex. subst x. cbn [tl disp mk] in *.
    specialize (Hstop l2 eq_refl).
    assert (Hu : used (q :: l0) l2 = Z.of_nat (length (q :: b ++ [q]))).
    { unfold used. rewrite Hs at 1. cbn [length]. rewrite !app_length. cbn [length]. lia. }
    rewrite Hu, Nat2Z.id.
    assert (Hl : q :: l0 = (q :: b ++ [q]) ++ l2) by (rewrite Hs at 1; cbn [app]; rewrite <- app_assoc; reflexivity).
    rewrite Hl. rewrite firstn_app, Nat.sub_diag, firstn_all. cbn [firstn]. rewrite app_nil_r.
    rewrite skipn_app, skipn_all, Nat.sub_diag. cbn [skipn app].
    split; [exists b; auto|exact Hstop]. }
  destruct (N.eqb_spec c 34) as [E|E].
  - cbv beta iota. intro Hpos. exists 34%N. split; [reflexivity|]. apply (Hgo T_DQUOTE 34%N E Hpos).
  - destruct (N.eqb_spec c 39) as [E2|E2]; [|cbn; lia].
    cbv beta iota. intro Hpos. exists 39%N. split; [reflexivity|]. apply (Hgo T_SQUOTE 39%N E2 Hpos).
Qed.

Theorem string_complete s m q : (q = 34%N \/ q = 39%N) -> 0 < m <= Z.of_nat (length s) ->
  Str q (firstn (Z.to_nat m) s) -> starts (ischr q) (skipn (Z.to_nat m) s) = false -> disp (lex_string s) = m.
Proof.
  intros Hq Hm (b & Hb & Hf) Hstop.
  assert (Hs : s = (q :: b ++ [q]) ++ skipn (Z.to_nat m) s) by (rewrite <- Hf; symmetry; apply firstn_skipn).
  set (rest := skipn (Z.to_nat m) s) in *.
  assert (Hlen : m = Z.of_nat (length (q :: b ++ [q]))).
  { apply (f_equal (@length N)) in Hf. rewrite firstn_length_le in Hf by lia. lia. }
  rewrite Hs. unfold lex_string. cbn [app starts tl]. change (ischr 34 q) with (q =? 34)%N. change (ischr 39 q) with (q =? 39)%N.
  assert (Hsk : skip_quoted q ((b ++ [q]) ++ rest) = q :: rest) by (rewrite <- app_assoc; cbn [app]; now apply skip_quoted_complete).
  assert (Hres : forall t, disp (if starts (ischr q) (skip_quoted q ((b ++ [q]) ++ rest))
                              then mk t 0 (used (q :: (b ++ [q]) ++ rest) (tl (skip_quoted q ((b ++ [q]) ++ rest)))) (used (q :: (b ++ [q]) ++ rest) (tl (skip_quoted q ((b ++ [q]) ++ rest)))) (used (q :: (b ++ [q]) ++ rest) (tl (skip_quoted q ((b ++ [q]) ++ rest))))
                              else mk T_UNKNOWN 0 0 0 0) = m).
  { intro t. rewrite Hsk. cbn [starts tl]. rewrite ischr_refl. cbn [disp mk]. unfold used. rewrite Hlen. cbn [length]. rewrite !app_length. cbn [length]. lia. }
  destruct Hq as [->| ->].
  - cbn [N.eqb Pos.eqb]. apply Hres.
  - cbn [N.eqb Pos.eqb]. apply Hres.
Qed.
Print Assumptions string_sound.
Print Assumptions string_complete.

(* ---------- definite-length arbitrary block: # d (d digits giving n) (n bytes), d in 1..9 ---------- *)
Definition dval (acc:Z) (ds:bytes) : Z := fold_left (fun a c => a * 10 + (Z.of_N c - 48)) ds acc.
Definition Block (t:bytes) (hdr blen:Z) : Prop :=
  exists d ds payload, t = 35%N :: d :: ds ++ payload /\ isdigit d = true /\ d <> 48%N /\
    length ds = N.to_nat (d - 48) /\ all isdigit ds /\ blen = dval 0 ds /\ Z.of_nat (length payload) = blen /\ hdr = 2 + Z.of_nat (length ds).

Lemma block_digits_app : forall ds i rest acc, length ds = i -> all isdigit ds -> block_digits i (ds ++ rest) acc = (rest, O, dval acc ds).
Proof.
  induction ds as [|c ds IH]; intros i rest acc Hl Ha; subst i; [reflexivity|].
  unfold all in Ha. cbn [forallb] in Ha. apply andb_prop in Ha as [Hc Ha]. cbn [length block_digits app]. rewrite Hc. now apply IH.
Qed.
Lemma block_digits_sound : forall i l acc r' v, block_digits i l acc = (r', O, v) ->
  exists ds, l = ds ++ r' /\ length ds = i /\ all isdigit ds /\ v = dval acc ds.
Proof.
  induction i as [|i IH]; intros l acc r' v H.
  - cbn in H. injection H as <- <-. exists []. repeat split.
  - cbn [block_digits] in H. destruct l as [|c r]; [discriminate|]. destruct (isdigit c) eqn:Hc; [|discriminate].
    destruct (IH _ _ _ _ H) as (ds & -> & Hl & Ha & Hv). exists (c :: ds). cbn [app length]. split; [reflexivity|]. split; [congruence|]. split.
    + unfold all. cbn [forallb]. now rewrite Hc.
    + exact Hv.
Qed.

Theorem block_complete t hdr blen rest : Block t hdr blen ->
  lex_block (t ++ rest) = mk T_BLOCK hdr blen (Z.of_nat (length t)) (Z.of_nat (length t)).
Proof.
  intros (d & ds & payload & -> & Hd & Hd0 & Hl & Ha & -> & Hp & ->).
  unfold lex_block. cbn [app starts tl]. rewrite ischr_refl. rewrite Hd, (ischr_ne 48%N d Hd0). cbn [negb andb].
  rewrite <- !app_assoc. pose proof (block_digits_app ds (N.to_nat (d - 48)) (payload ++ rest) 0 Hl Ha) as Hbd. unfold bytes, byte in *. rewrite Hbd.
  assert (Hu : used (35%N :: d :: ds ++ payload ++ rest) (payload ++ rest) = 2 + Z.of_nat (length ds)).
  { unfold used. cbn [length]. rewrite !app_length. lia. }
  rewrite Hu. destruct (Z.leb_spec (dval 0 ds) (Z.of_nat (length (payload ++ rest)))) as [_|Hgt]; [|rewrite app_length in Hgt; lia].
  f_equal; cbn [length]; rewrite !app_length; lia.
Qed.
Theorem block_sound l : ty (tok (lex_block l)) = T_BLOCK ->
  let r := lex_block l in Block (firstn (Z.to_nat (disp r)) l) (ptr (tok r)) (len (tok r)) /\ ret r = disp r /\ disp r = ptr (tok r) + len (tok r).
Proof.
  unfold lex_block. destruct l as [|a [|d r]]; cbn [starts tl].
  - cbn. discriminate.
  - destruct (ischr 35%N a); cbn; discriminate.
  - destruct (ischr 35%N a) eqn:Ea; [|cbn; discriminate]. apply ischr_eq in Ea. subst a.
    destruct (isdigit d && negb (ischr 48%N d)) eqn:Ed; [|cbn; discriminate]. apply andb_prop in Ed as [Hd Hd0]. apply negb_true_iff in Hd0.
    destruct (block_digits (N.to_nat (d - 48)) r 0) as [[r' remd] blen] eqn:Eb.
    destruct remd as [|k]; [|destruct (iseos r'); cbn; discriminate].
    destruct (block_digits_sound _ _ _ _ _ Eb) as (ds & -> & Hl & Ha & ->).
    assert (Hu : used (35%N :: d :: ds ++ r') r' = 2 + Z.of_nat (length ds)) by (unfold used; cbn [length]; rewrite app_length; lia).
    unfold bytes, byte in *. rewrite Hu. destruct (Z.leb_spec (dval 0 ds) (Z.of_nat (length r'))) as [Hle|Hgt]; [|cbn; discriminate].
    intros _. cbn [tok ptr len ret disp mk]. split; [|split; reflexivity].
    assert (Hnn : 0 <= dval 0 ds).
    { clear - Ha. assert (G : forall xs acc, all isdigit xs -> 0 <= acc -> 0 <= dval acc xs).
      { induction xs as [|c xs IH]; intros acc H Hacc; [exact Hacc|]. unfold all in H. cbn [forallb] in H. apply andb_prop in H as [Hc H]. cbn [dval fold_left].
        apply IH; [exact H|]. unfold isdigit, inr in Hc. apply andb_prop in Hc as [H1 H2]. apply N.leb_le in H1. lia. }
      apply G; [exact Ha|lia]. }
    exists d, ds, (firstn (Z.to_nat (dval 0 ds)) r'). split.
    + replace (Z.to_nat (2 + Z.of_nat (length ds) + dval 0 ds)) with (S (S (length ds + Z.to_nat (dval 0 ds)))) by lia. cbn [firstn]. do 2 f_equal.
      rewrite firstn_app. rewrite firstn_all2 by lia. f_equal. f_equal. lia.
    + split; [exact Hd|]. split; [intro; subst d; rewrite ischr_refl in Hd0; discriminate|]. split; [exact Hl|]. split; [exact Ha|]. split; [reflexivity|].
      split; [rewrite firstn_length_le; lia|reflexivity].
Qed.
Print Assumptions block_complete.
Print Assumptions block_sound.
