(* Draft models: UInt32/64ToStrBaseSign (utils.c:80-218) and SCPI_ResultError (parser.c:551-608) *)
From Coq Require Import Bool List NArith ZArith Lia.
Import ListNotations.
Local Open Scope bool_scope.
Local Open Scope Z_scope.

Definition bytes := list Z.     (* bytes as Z in this file: arithmetic on digits *)

(* ---------- integer to string ---------- *)
Definition digit_char (d:Z) : Z := if d <? 10 then 48 + d else 55 + d.
(* initial divisor per base, as written in the switch; w = 32 or 64 *)
Definition init_div (w:Z) (base:Z) : Z * Z :=      (* (x, effective base) *)
  if w =? 32 then
    (if base =? 2 then (2^31, 2) else if base =? 8 then (2^30, 8) else if base =? 16 then (2^28, 16) else (10^9, 10))
  else
    (if base =? 2 then (2^63, 2) else if base =? 8 then (2^63, 8) else if base =? 16 then (2^60, 16) else (10^19, 10)).
Fixpoint strip (fuel:nat) (base uval x:Z) : Z :=
  match fuel with O => x | S f => if uval / x =? 0 then strip f base uval (x / base) else x end.
(* do { digit; ADD_CHAR; uval -= digit*x; x /= base } while (x && pos < len)
   ADD_CHAR is itself guarded by pos < len; out = chars stored so far (reversed) *)
Fixpoint emit (fuel:nat) (base uval x:Z) (len:Z) (out:list Z) : list Z :=
  match fuel with O => out | S f =>
    let d := uval / x in
    let out1 := if Z.of_nat (length out) <? len then digit_char d :: out else out in
    let x' := x / base in
    if negb (x' =? 0) && (Z.of_nat (length out1) <? len) then emit f base (uval - d*x) x' len out1 else out1
  end.
(* returns (characters stored, NUL stored?, return value) *)
Definition int2str (w:Z) (val:Z) (len:Z) (base:Z) (sign:bool) : list Z * bool * Z :=
  let uval0 := val mod 2^w in
  let stored :=
    if uval0 =? 0 then (if 0 <? len then [48] else [])
    else
      let '(x, b) := init_div w base in
      let neg := sign && (2^(w-1) <=? uval0) && (b =? 10) in
      let uval := if neg then (2^w - uval0) mod 2^w else uval0 in
      let out0 := if neg && (0 <? len) then [45] else [] in
      let x1 := strip 70 b uval x in
      rev (emit 70 b uval x1 len out0) in
  let pos := Z.of_nat (length stored) in
  (stored, pos <? len, pos).

(* ---------- SCPI_ResultError ---------- *)
(* strnpbrk(data, len, dquote) *)
Fixpoint find_quote (n:nat) (l:list Z) : option Z :=
  match n with O => None | S n' =>
    match l with c::r => if c =? 0 then None else if c =? 34 then Some 0 else option_map Z.succ (find_quote n' r) | [] => None end end.
Definition take (n:Z) (l:list Z) := firstn (Z.to_nat n) l.
Definition dropz (n:Z) (l:list Z) := skipn (Z.to_nat n) l.
(* inner while loop over one part; returns (output, remaining data, remaining len, limit, broke?) *)
Fixpoint quote_loop (fuel:nat) (data:list Z) (len:Z) (limit:Z) (out:list Z) : list Z * list Z * Z * Z :=
  match fuel with O => (out, data, len, limit) | S f =>
    match find_quote (Z.to_nat len) data with
    | None => (out, data, len, limit)
    | Some q =>
      let step := q + 1 in
      if limit <=? step then (out, data, len - 1, limit - 1)      (* break *)
      else
        let out1 := out ++ take step data ++ [34] in
        let len1 := len - step in let limit1 := limit - (step + 1) in
        let data1 := dropz step data in
        let len2 := if limit1 <? len1 then limit1 else len1 in
        quote_loop f data1 len2 limit1 out1
    end end.
(* parts: list of (data, len); part index i; the comma/semicolon logic of the caller is included *)
Fixpoint parts_loop (i:nat) (parts:list (list Z * Z)) (limit:Z) (out:list Z) : list Z :=
  match parts with
  | [] => out
  | (data,len) :: rest =>
    if limit =? 0 then out else
    let '(out1, limit1) := if Nat.eqb i 1 then (out ++ [59], limit - 1) else (out, limit) in
    let len1 := if limit1 <? len then limit1 else len in
    let '(out2, data2, len2, limit2) := quote_loop (S (Z.to_nat len1)) data len1 limit1 out1 in
    let out3 := out2 ++ take len2 data2 in
    parts_loop (S i) rest (limit2 - len2) out3
  end.
(* desc: description; info: None (NULL) or Some text; maxlen = 255 *)
Definition result_error (code:Z) (desc:list Z) (info:option (list Z)) (maxlen:Z) : list Z :=
  let '(digits,_,_) := int2str 32 code 33 10 true in
  let parts := (desc, Z.of_nat (length desc)) :: match info with Some t => [(t, Z.of_nat (length t))] | None => [] end in
  digits ++ [44; 34] ++ parts_loop 0 parts maxlen [] ++ [34].

