(* C14 -- property theorems only: every statement is closed by `exact` on a lemma proved elsewhere.
   Statements are pinned by coq/statements/C14.json; ./check compares. *)
From Coq Require Import Bool List NArith ZArith Lia.
From M Require IntFmtProofs.
From M Require IntFmt.
From M Require FmtModel.
Import ListNotations.

Module T_int2str_exact. Import IntFmtProofs. Local Open Scope bool_scope. Local Open Scope Z_scope.
Import FmtModel. Local Open Scope Z_scope.
Theorem C14_int2str_exact :
  forall w val len base sign,
  (w = 32 \/ w = 64) -> 0 <= len ->
  let c := firstn (Z.to_nat len) (canonical w val base sign) in
  int2str w val len base sign = (c, Z.of_nat (length c) <? len, Z.of_nat (length c)).
Proof. exact (@IntFmtProofs.int2str_exact). Qed.
End T_int2str_exact.
Definition C14_int2str_exact := @T_int2str_exact.C14_int2str_exact.

Module T_emit_digits_fix. Import IntFmt. Local Open Scope bool_scope. Local Open Scope Z_scope.
Local Open Scope Z_scope.
Theorem C14_emit_digits_fix :
  forall k base u, 2 <= base -> 0 <= u < base ^ Z.of_nat (S k) ->
  emit (S k) base u (base ^ Z.of_nat k) = digits_fix (S k) base u.
Proof. exact (@IntFmt.emit_digits_fix). Qed.
End T_emit_digits_fix.
Definition C14_emit_digits_fix := @T_emit_digits_fix.C14_emit_digits_fix.

