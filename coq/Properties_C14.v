(* C14 -- property theorems only: every statement is closed by `exact` on a lemma proved elsewhere.
   Statements are pinned by coq/statements/C14.json; ./check compares. *)
From Coq Require Import Bool List NArith ZArith Lia.
From M Require IntFmtProofs.
From M Require IntRoundTrip.
From M Require IntRtSigned.
From M Require FmtModel.
From M Require IntFmtProofs.
From M Require IntRoundTrip.
Import ListNotations.

Module T_int2str_exact. Import IntFmtProofs. Local Open Scope bool_scope. Local Open Scope Z_scope.
Import FmtModel. Local Open Scope Z_scope.
Theorem C14_int2str_exact :
  forall w val len base sign,
  (w = 32 \/ w = 64) -> 0 <= len ->
  let c := firstn (Z.to_nat len) (canonical w val base sign) in
  int2str w val len base sign = (c, Z.of_nat (length c) <? len, Z.of_nat (length c)).
Proof. exact (@IntFmtProofs.int2str_exact). Qed.
End T_int2str_exact.
Definition C14_int2str_exact := @T_int2str_exact.C14_int2str_exact.

Module T_top_spec. Import IntFmtProofs. Local Open Scope bool_scope. Local Open Scope Z_scope.
Import FmtModel. Local Open Scope Z_scope.
Theorem C14_top_spec :
  forall fuel b u, 2 <= b -> 0 < u -> u < b ^ Z.of_nat fuel ->
  b ^ Z.of_nat (top fuel b u) <= u < b ^ Z.of_nat (S (top fuel b u)).
Proof. exact (@IntFmtProofs.top_spec). Qed.
End T_top_spec.
Definition C14_top_spec := @T_top_spec.C14_top_spec.

Module T_rt_unsigned. Import IntRoundTrip. Local Open Scope bool_scope. Local Open Scope Z_scope.
Import FmtModel IntFmtProofs. Local Open Scope Z_scope.
Theorem C14_rt_unsigned :
  forall b u rest,
  (b = 2 \/ b = 8 \/ b = 10 \/ b = 16) -> 0 < u < 2^64 -> stops b rest ->
  digs b (canon_digits b u ++ rest) 0 0 = (u, Z.of_nat (length (canon_digits b u))).
Proof. exact (@IntRoundTrip.rt_unsigned). Qed.
End T_rt_unsigned.
Definition C14_rt_unsigned := @T_rt_unsigned.C14_rt_unsigned.

Module T_rt_canonical. Import IntRtSigned. Local Open Scope bool_scope. Local Open Scope Z_scope.
Import FmtModel IntFmtProofs IntRoundTrip. Local Open Scope Z_scope.
Theorem C14_rt_canonical :
  forall w val base sign rest,
  (w = 32 \/ w = 64) -> stops (eff_base base) rest ->
  read_int (eff_base base) (canonical w val base sign ++ rest) = value_of w val base sign.
Proof. exact (@IntRtSigned.rt_canonical). Qed.
End T_rt_canonical.
Definition C14_rt_canonical := @T_rt_canonical.C14_rt_canonical.

Module T_rt_min32. Import IntRtSigned. Local Open Scope bool_scope. Local Open Scope Z_scope.
Import FmtModel IntFmtProofs IntRoundTrip. Local Open Scope Z_scope.
Theorem C14_rt_min32 :
  canonical 32 (-2147483648) 10 true = [45;50;49;52;55;52;56;51;54;52;56] /\ value_of 32 (-2147483648) 10 true = -2147483648 /\
  value_of 32 (-2147483648) 16 true = 2147483648 /\ read_int 16 (canonical 32 (-2147483648) 16 true ++ [44]) = 2147483648.
Proof. exact (@IntRtSigned.rt_min32). Qed.
End T_rt_min32.
Definition C14_rt_min32 := @T_rt_min32.C14_rt_min32.

