(* Draft model of matchPattern / matchCommand (libscpi/src/utils.c:347-668) *)
From Coq Require Import Bool List NArith ZArith Lia.
Import ListNotations.
Local Open Scope bool_scope.
Local Open Scope Z_scope.

Definition byte := N.
Definition bytes := list byte.
Definition inr (lo hi c:N) := ((lo <=? c) && (c <=? hi))%N.
Definition isdigit c := inr 48 57 c.
Definition isupper c := inr 65 90 c.
Definition islower c := inr 97 122 c.
Definition isspace c := ((c =? 32) || inr 9 13 c)%N.
Definition tolower (c:N) : N := if isupper c then (c + 32)%N else c.

(* C string read: bytes beyond the list read as NUL (the terminator) *)
Definition get (l:bytes) (i:Z) : N := if i <? 0 then 0%N else nth (Z.to_nat i) l 0%N.
Definition dropz (n:Z) (l:bytes) : bytes := skipn (Z.to_nat n) l.

(* strncasecmp(a,b,n)==0 *)
Fixpoint caseeq (n:nat) (a b:bytes) : bool :=
  match n with O => true | S n' =>
    let x := hd 0%N a in let y := hd 0%N b in
    if negb (tolower x =? tolower y)%N then false
    else if (x =? 0)%N then true else caseeq n' (tl a) (tl b)
  end.

(* strnpbrk(str,n,set): index of first byte in set among the first n bytes, stopping at NUL *)
Fixpoint find_sep (set:N->bool) (n:nat) (l:bytes) : option Z :=
  match n with O => None | S n' =>
    match l with
    | c::r => if (c =? 0)%N then None else if set c then Some 0 else option_map Z.succ (find_sep set n' r)
    | [] => None
    end end.
Definition sep_or_len (set:N->bool) (n:Z) (l:bytes) : Z :=
  match find_sep set (Z.to_nat n) l with Some i => i | None => n end.
Definition pat_seps (c:N) := ((c =? 63) || (c =? 58) || (c =? 91) || (c =? 93))%N.   (* ? : [ ] *)
Definition cmd_seps (c:N) := ((c =? 58) || (c =? 63))%N.                               (* : ? *)

(* patternSeparatorShortPos: first lower-case letter within len (stops at NUL) *)
Fixpoint short_pos (n:nat) (l:bytes) : Z :=
  match n with O => 0 | S n' =>
    match l with
    | c::r => if (c =? 0)%N then 0 else if islower c then 0 else 1 + short_pos n' r
    | [] => 0
    end end.

Definition compareStr (s1:bytes) (l1:Z) (s2:bytes) (l2:Z) : bool :=
  (l1 =? l2) && caseeq (Z.to_nat l2) s1 s2.

(* strtol(str,&end,10): (consumed, value as int32 after the (int32_t) assignment of a 64-bit long) *)
Fixpoint digits_val (l:bytes) (acc:Z) (n:Z) : Z * Z :=
  match l with
  | c::r => if isdigit c then digits_val r (acc*10 + (Z.of_N c - 48)) (n+1) else (acc,n)
  | [] => (acc,n)
  end.
Fixpoint skip_space (l:bytes) (n:Z) : bytes * Z :=
  match l with c::r => if isspace c then skip_space r (n+1) else (l,n) | [] => (l,n) end.
Definition wrap32 (v:Z) : Z := let m := v mod 2^32 in if m <? 2^31 then m else m - 2^32.
Definition strtol10 (l:bytes) : Z * Z :=
  let '(l1,nws) := skip_space l 0 in
  let neg := (hd 0%N l1 =? 45)%N in
  let sgn := ((hd 0%N l1 =? 45) || (hd 0%N l1 =? 43))%N in
  let l2 := if sgn then tl l1 else l1 in
  let '(v,nd) := digits_val l2 0 0 in
  if nd =? 0 then (0, 0)
  else
    let v' := if neg then Z.max (- v) (- 2^63) else Z.min v (2^63 - 1) in
    (nws + (if sgn then 1 else 0) + nd, wrap32 v').

(* compareStrAndNum; num = Some default-slot means a pointer was passed; returns (result, value to store if any) *)
Fixpoint alldigits (n:nat) (l:bytes) : bool :=
  match n with O => true | S n' => match l with c::r => isdigit c && alldigits n' r | [] => false end end.
Definition compareStrAndNum (s1:bytes) (l1:Z) (s2:bytes) (l2:Z) (withnum:bool) : bool * option Z :=
  if l2 <? l1 then (false,None)
  else if caseeq (Z.to_nat l1) s1 s2 then
    if withnum then
      if l1 =? l2 then (true,None)
      else let '(used,v) := strtol10 (dropz l1 s2) in
           if negb (l1 + used =? l2) then (false,None) else (true, Some v)
    else (alldigits (Z.to_nat (l2 - l1)) (dropz l1 s2), None)
  else (false,None).

Definition matchPattern (pat:bytes) (plen:Z) (str:bytes) (slen:Z) (withnum:bool) : bool * option Z :=
  if (0 <? plen) && (get pat (plen-1) =? 35)%N then
    let nl := plen - 1 in
    let sp := short_pos (Z.to_nat nl) pat in
    let '(r1,v1) := compareStrAndNum pat nl str slen withnum in
    if r1 then (true,v1) else compareStrAndNum pat sp str slen withnum
  else
    let sp := short_pos (Z.to_nat plen) pat in
    (compareStr pat plen str slen || compareStr pat sp str slen, None).

(* numbers array: capacity numbers_len, NULL = None *)
Definition setnum (nums:option (list Z)) (idx:Z) (v:Z) : option (list Z) :=
  match nums with
  | Some a => if (0 <=? idx) && (idx <? Z.of_nat (length a))
              then Some (firstn (Z.to_nat idx) a ++ v :: skipn (S (Z.to_nat idx)) a) else Some a
  | None => None
  end.
Definition hasslot (nums:option (list Z)) (idx:Z) : bool :=
  match nums with Some a => idx <? Z.of_nat (length a) | None => false end.

(* tail loop: "command complete, but pattern not": verify all subsequent pattern parts are optional *)
Fixpoint tail_loop (fuel:nat) (p:bytes) (plen:Z) (br:Z) (nums:option (list Z)) (nidx:Z) (dflt:Z) : Z * option (list Z) :=
  match fuel with O => (plen,nums) | S f =>
    if plen =? 0 then (plen,nums) else
    let sp := sep_or_len pat_seps plen p in
    (* fix 3: a skipped optional keyword with numeric suffix reports the default *)
    let isnum := (0 <? sp) && (get p (sp-1) =? 35)%N in
    let nums1 := if isnum && hasslot nums nidx then setnum nums nidx dflt else nums in
    let nidx1 := if isnum then nidx + 1 else nidx in
    let c := get p sp in
    let br' := if (c =? 91)%N then br + 1 else if (c =? 93)%N then br - 1 else br in
    let p' := dropz (sp+1) p in let plen' := plen - (sp+1) in
    if br' =? 0 then
      if (0 <? plen') && (get p' 0 =? 91)%N then tail_loop f p' plen' br' nums1 nidx1 dflt else (plen',nums1)
    else tail_loop f p' plen' br' nums1 nidx1 dflt
  end.

Inductive outcome := Res (b:bool) (nums:option (list Z)).

Fixpoint match_loop (fuel:nat) (p:bytes) (plen:Z) (c:bytes) (clen:Z) (br:Z) (result:bool)
                    (nums:option (list Z)) (nidx:Z) (dflt:Z) : outcome :=
  match fuel with O => Res false nums | S f =>
    let psp := sep_or_len pat_seps plen p in
    let csp := sep_or_len cmd_seps clen c in
    let isnum := (0 <? psp) && (get p (psp-1) =? 35)%N in
    let slot := isnum && hasslot nums nidx in
    let nums1 := if slot then setnum nums nidx dflt else nums in
    let nidx1 := if isnum then nidx + 1 else nidx in
    let '(m, v) := matchPattern p psp c csp slot in
    if m then
      let nums2 := match v with Some x => if slot then setnum nums1 nidx x else nums1 | None => nums1 end in
      let p1 := dropz psp p in let plen1 := plen - psp in
      let c1 := dropz csp c in let clen1 := clen - csp in
      if (plen1 =? 0) && (clen1 =? 0) then Res true nums2
      else if (plen1 =? 0) then Res false nums2
      else if (clen1 =? 0) then let '(pl,nm) := tail_loop (S (Z.to_nat plen1)) p1 plen1 br nums2 nidx1 dflt in Res (pl =? 0) nm
      else
        let p0 := get p1 0 in let p1c := get p1 1 in let p2c := get p1 2 in let c0 := get c1 0 in
        if (0 <? plen1) && (p0 =? c0)%N && (p0 =? 58)%N then
          match_loop f (dropz 1 p1) (plen1-1) (dropz 1 c1) (clen1-1) br true nums2 nidx1 dflt
        else if (1 <? plen1) && (p1c =? c0)%N && (p0 =? 91)%N && (p1c =? 58)%N then
          match_loop f (dropz 2 p1) (plen1-2) (dropz 1 c1) (clen1-1) (br+1) true nums2 nidx1 dflt
        else if (1 <? plen1) && (p1c =? c0)%N && (p0 =? 93)%N && (p1c =? 58)%N then
          match_loop f (dropz 2 p1) (plen1-2) (dropz 1 c1) (clen1-1) (br-1) true nums2 nidx1 dflt
        else if (2 <? plen1) && (p2c =? c0)%N && (p0 =? 93)%N && (p1c =? 91)%N && (p2c =? 58)%N then
          match_loop f (dropz 3 p1) (plen1-3) (dropz 1 c1) (clen1-1) br true nums2 nidx1 dflt
        else Res false nums2
    else
      let p1 := dropz psp p in let plen1 := plen - psp in
      if (get p1 0 =? 93)%N && (get p1 1 =? 58)%N then
        match_loop f (dropz 2 p1) (plen1-2) c clen (br-1) result nums1 nidx1 dflt
      else if (2 <? plen1) && (get p1 0 =? 93)%N && (get p1 1 =? 91)%N && (get p1 2 =? 58)%N then
        match_loop f (dropz 3 p1) (plen1-3) c clen br result nums1 nidx1 dflt
      else Res false nums1
  end.

(* precondition of the C function: pattern and cmd non-empty (it reads [len-1]) *)
Definition matchCommand (pattern cmd:bytes) (nums:option (list Z)) (dflt:Z) : outcome :=
  let plen0 := Z.of_nat (length pattern) in
  let clen0 := Z.of_nat (length cmd) in
  let pq := (get pattern (plen0-1) =? 63)%N in
  let cq := (get cmd (clen0-1) =? 63)%N in
  if pq && negb cq then Res false nums else
  let plen := if pq then plen0 - 1 else plen0 in
  let clen := if pq then clen0 - 1 else clen0 in
  let '(p1,plen1,br) := if (get pattern 0 =? 91)%N then (dropz 1 pattern, plen-1, 1) else (pattern, plen, 0) in
  let '(p2,plen2) := if (get p1 0 =? 58)%N then (dropz 1 p1, plen1-1) else (p1,plen1) in
  if (get cmd 0 =? 58)%N && (2 <=? clen) && (get cmd 1 =? 42)%N then Res false nums else
  let '(c2,clen2) := if (get cmd 0 =? 58)%N && (2 <=? clen) then (dropz 1 cmd, clen-1) else (cmd,clen) in
  match_loop (S (length pattern + length cmd)) p2 plen2 c2 clen2 br false nums 0 dflt.

