(* C01.1 / C13: every recogniser stays inside its input and reports a token inside what it consumed *)
From Coq Require Import Bool List NArith ZArith Lia.
From M Require Import LexModel.
Import ListNotations.
Local Open Scope Z_scope.

(* l' is what remains of l after consuming a prefix *)
Definition sfx (l' l:bytes) : Prop := exists pre, l = pre ++ l'.
Lemma sfx_refl l : sfx l l. Proof. exists []; reflexivity. Qed.
Lemma sfx_trans a b c : sfx a b -> sfx b c -> sfx a c.
Proof. intros [p ->] [q ->]. exists (q ++ p). now rewrite app_assoc. Qed.
Lemma sfx_tl l : sfx (tl l) l. Proof. destruct l as [|c r]; [exists []|exists [c]]; reflexivity. Qed.
Lemma sfx_len l' l : sfx l' l -> (length l' <= length l)%nat.
Proof. intros [p ->]. rewrite app_length. lia. Qed.
Lemma used_bounds l' l : sfx l' l -> 0 <= used l l' <= Z.of_nat (length l).
Proof. intros H. apply sfx_len in H. unfold used. lia. Qed.
Lemma used_trans a b c : sfx b a -> sfx c b -> used a c = used a b + used b c.
Proof. unfold used. lia. Qed.
Lemma sfx_skip_while p l : sfx (skip_while p l) l.
Proof. induction l as [|c r IH]; cbn; [apply sfx_refl|]. destruct (p c); [|apply sfx_refl].
  eapply sfx_trans; [apply IH|]. exists [c]; reflexivity. Qed.
Lemma sfx_skip_opt p l : sfx (skip_opt p l) l.
Proof. destruct l as [|c r]; cbn; [apply sfx_refl|]. destruct (p c); [exists [c]; reflexivity|apply sfx_refl]. Qed.
#[local] Hint Resolve sfx_refl sfx_tl sfx_skip_while sfx_skip_opt : sfx.
Ltac sfx_chain := repeat (first [ apply sfx_refl | apply sfx_skip_while | apply sfx_skip_opt | apply sfx_tl
                                 | (eapply sfx_trans; [ | apply sfx_tl ]) | (eapply sfx_trans; [ | apply sfx_skip_while ]) | (eapply sfx_trans; [ | apply sfx_skip_opt ]) ]).

(* the statement for one recogniser *)
Definition inside (l:bytes) (r:lexres) : Prop :=
  0 <= disp r <= Z.of_nat (length l) /\ 0 <= ptr (tok r) /\ 0 <= len (tok r) /\ ptr (tok r) + len (tok r) <= Z.of_nat (length l).

Lemma inside_fail l : inside l (mk T_UNKNOWN 0 0 0 0).
Proof. unfold inside, mk; cbn. lia. Qed.
Lemma inside_mk_used l l' t : sfx l' l -> inside l (mk t 0 (used l l') (used l l') (used l l')).
Proof. intros H. apply used_bounds in H. unfold inside, mk; cbn. lia. Qed.

Lemma ws_inside l : inside l (lex_ws l).
Proof. unfold lex_ws. apply inside_mk_used. apply sfx_skip_while. Qed.

Lemma chr_inside t k l : inside l (lex_chr t k l).
Proof. unfold lex_chr. destruct l as [|c r]; cbn [starts]; [apply inside_fail|]. destruct (ischr k c); [|apply inside_fail].
  unfold inside, mk; cbn [disp tok ptr len length]. lia. Qed.

Lemma newline_inside l : inside l (lex_newline l).
Proof. unfold lex_newline. set (l2 := skip_opt _ (skip_opt _ l)).
  assert (H : sfx l2 l) by (subst l2; eapply sfx_trans; apply sfx_skip_opt).
  destruct (0 <? used l l2); [apply inside_mk_used; exact H|apply inside_fail]. Qed.

Lemma chardata_inside l : inside l (lex_chardata l).
Proof. unfold lex_chardata. apply inside_mk_used. destruct (starts isalpha l); [|apply sfx_refl].
  eapply sfx_trans; [apply sfx_skip_while|apply sfx_tl]. Qed.

Lemma sfx_skip_mnemonic l : sfx (fst (skip_mnemonic l)) l.
Proof. unfold skip_mnemonic; cbn [fst]. destruct (starts isalpha l); [|apply sfx_refl].
  eapply sfx_trans; [apply sfx_skip_while|apply sfx_tl]. Qed.

Lemma sfx_common l : sfx (fst (skip_common_header l)) l.
Proof. unfold skip_common_header. destruct (starts (ischr 42%N) l); [|apply sfx_refl].
  pose proof (sfx_skip_mnemonic (tl l)) as H. destruct (skip_mnemonic (tl l)) as [l' res]; cbn [fst] in *.
  assert (sfx l' l) by (eapply sfx_trans; [exact H|apply sfx_tl]).
  destruct ((res =? 0) && iseos l'); [assumption|]. destruct (res <=? -1); [assumption|]. destruct (1 <=? res); assumption. Qed.

Lemma sfx_compound_loop fuel l : sfx (fst (compound_loop fuel l)) l.
Proof. revert l; induction fuel as [|f IH]; intro l; cbn [compound_loop]; [apply sfx_refl|].
  destruct (starts (ischr 58%N) l); [|apply sfx_refl].
  pose proof (sfx_skip_mnemonic (tl l)) as H. destruct (skip_mnemonic (tl l)) as [l' res]; cbn [fst] in *.
  assert (sfx l' l) by (eapply sfx_trans; [exact H|apply sfx_tl]).
  destruct (res <=? -1); [assumption|]. destruct (res =? 0); [assumption|].
  eapply sfx_trans; [apply IH|assumption]. Qed.

Lemma sfx_compound l : sfx (fst (skip_compound_header l)) l.
Proof. unfold skip_compound_header.
  pose proof (sfx_skip_mnemonic (skip_opt (ischr 58%N) l)) as H. destruct (skip_mnemonic _) as [l1 res]; cbn [fst] in *.
  assert (H1 : sfx l1 l) by (eapply sfx_trans; [exact H|apply sfx_skip_opt]).
  destruct (1 <=? res). { eapply sfx_trans; [apply sfx_compound_loop|exact H1]. }
  destruct (res <=? -1); [assumption|]. destruct (starts _ l); assumption. Qed.

Lemma header_inside l : inside l (lex_header l).
Proof. unfold lex_header.
  pose proof (sfx_common l) as Hc. destruct (skip_common_header l) as [l1 r1]; cbn [fst] in Hc.
  pose proof (sfx_compound l) as Hp. destruct (skip_compound_header l) as [l2 r2]; cbn [fst] in Hp.
  destruct r1.
  - destruct r2; [apply inside_fail| |apply inside_mk_used; assumption].
    destruct (starts _ l2); apply inside_mk_used; [eapply sfx_trans; [apply sfx_tl|]|]; assumption.
  - destruct (starts _ l1); apply inside_mk_used; [eapply sfx_trans; [apply sfx_tl|]|]; assumption.
  - apply inside_mk_used; assumption. Qed.

Lemma sfx_mantisa l : sfx (fst (skip_mantisa l)) l.
Proof. unfold skip_mantisa. set (l2 := skip_while isdigit (skip_opt isplusmn l)).
  assert (H2 : sfx l2 l) by (subst l2; eapply sfx_trans; [apply sfx_skip_while|apply sfx_skip_opt]).
  destruct (starts _ l2); cbn [fst]; [|assumption].
  eapply sfx_trans; [apply sfx_skip_while|]. eapply sfx_trans; [apply sfx_tl|assumption]. Qed.
Lemma sfx_exponent l : sfx (fst (skip_exponent l)) l.
Proof. unfold skip_exponent. destruct (starts isE l); cbn [fst]; [|apply sfx_refl].
  eapply sfx_trans; [apply sfx_skip_while|]. eapply sfx_trans; [apply sfx_skip_opt|].
  eapply sfx_trans; [apply sfx_skip_while|apply sfx_tl]. Qed.
Lemma decimal_inside l : inside l (lex_decimal l).
Proof. unfold lex_decimal.
  pose proof (sfx_mantisa l) as Hm. destruct (skip_mantisa l) as [l1 n]; cbn [fst] in Hm.
  set (l' := if n =? 0 then l else _).
  assert (H : sfx l' l).
  { subst l'. destruct (n =? 0); [apply sfx_refl|].
    pose proof (sfx_exponent (skip_while isws l1)) as He. destruct (skip_exponent _) as [l3 m]; cbn [fst] in He.
    destruct (m =? 0); [assumption|]. eapply sfx_trans; [exact He|]. eapply sfx_trans; [apply sfx_skip_while|assumption]. }
  apply inside_mk_used; exact H. Qed.

Lemma sfx_suffix_loop fuel l : sfx (suffix_loop fuel l) l.
Proof. revert l; induction fuel as [|f IH]; intro l; cbn [suffix_loop]; [apply sfx_refl|].
  destruct (starts _ l); [|apply sfx_refl].
  eapply sfx_trans; [apply IH|]. eapply sfx_trans; [apply sfx_skip_opt|]. eapply sfx_trans; [apply sfx_skip_opt|].
  eapply sfx_trans; [apply sfx_skip_while|apply sfx_tl]. Qed.
Lemma suffix_inside l : inside l (lex_suffix l).
Proof. unfold lex_suffix. set (l0 := skip_opt _ l). set (l1 := skip_while isalpha l0).
  assert (H1 : sfx l1 l) by (subst l1 l0; eapply sfx_trans; [apply sfx_skip_while|apply sfx_skip_opt]).
  set (l' := if 0 <? used l0 l1 then _ else l1).
  assert (H : sfx l' l).
  { subst l'. destruct (0 <? used l0 l1); [|assumption].
    eapply sfx_trans; [apply sfx_suffix_loop|]. eapply sfx_trans; [apply sfx_skip_opt|]. eapply sfx_trans; [apply sfx_skip_opt|assumption]. }
  destruct (0 <? used l l'); [apply inside_mk_used; exact H|apply inside_fail]. Qed.

Lemma nondecimal_inside l : inside l (lex_nondecimal l).
Proof. unfold lex_nondecimal. destruct (starts _ l) eqn:Hs; [|apply inside_fail].
  destruct l as [|c0 l0]; [discriminate|]. cbn [tl]. destruct l0 as [|c r]; [apply inside_fail|].
  assert (G : forall t p, inside (c0 :: c :: r)
             (let r' := skip_while p r in let n := used r r' in if 0 <? n then mk t 2 n (n + 2) (n + 2) else mk T_UNKNOWN 0 0 0 0)).
  { intros t p. cbn zeta. pose proof (used_bounds _ _ (sfx_skip_while p r)) as Hb.
    destruct (0 <? used r (skip_while p r)); [|apply inside_fail]. unfold inside, mk; cbn [disp tok ptr len length].
    rewrite !Nat2Z.inj_succ. lia. }
  destruct (isH c); [apply G|]. destruct (isQ c); [apply G|]. destruct (isB c); [apply G|apply inside_fail]. Qed.

Lemma sfx_quoted_n q n : forall l, (length l <= n)%nat -> sfx (skip_quoted q l) l.
Proof. induction n as [|n IH]; intros l Hl.
  - destruct l; [apply sfx_refl|cbn in Hl; lia].
  - destruct l as [|c r]; cbn [skip_quoted]; [apply sfx_refl|]. cbn in Hl.
    destruct (isascii7 c && negb (ischr q c)).
    + eapply sfx_trans; [apply IH; lia|exists [c]; reflexivity].
    + destruct (ischr q c); [|apply sfx_refl]. destruct r as [|c2 r2]; [apply sfx_refl|].
      destruct (ischr q c2); [|apply sfx_refl]. cbn in Hl. eapply sfx_trans; [apply IH; lia|exists [c;c2]; reflexivity]. Qed.
Lemma sfx_quoted q l : sfx (skip_quoted q l) l.
Proof. apply (sfx_quoted_n q (length l)). lia. Qed.
Lemma string_inside l : inside l (lex_string l).
Proof. unfold lex_string.
  assert (G : forall t q, inside l (let l1 := skip_quoted q (tl l) in if starts (ischr q) l1 then let n := used l (tl l1) in mk t 0 n n n else mk T_UNKNOWN 0 0 0 0)).
  { intros t q. cbn zeta. destruct (starts _ _); [|apply inside_fail]. apply inside_mk_used.
    eapply sfx_trans; [apply sfx_tl|]. eapply sfx_trans; [apply sfx_quoted|apply sfx_tl]. }
  destruct (starts (ischr 34%N) l); [apply G|]. destruct (starts (ischr 39%N) l); [apply G|apply inside_fail]. Qed.

Lemma expr_inside l : inside l (lex_expr l).
Proof. unfold lex_expr. destruct (starts _ l); [|apply inside_fail]. destruct (starts _ _); [|apply inside_fail].
  apply inside_mk_used. eapply sfx_trans; [apply sfx_tl|]. eapply sfx_trans; [apply sfx_skip_while|apply sfx_tl]. Qed.

Lemma sfx_block_digits i l acc : sfx (fst (fst (block_digits i l acc))) l.
Proof. revert l acc; induction i as [|i IH]; intros l acc; cbn [block_digits fst]; [apply sfx_refl|].
  destruct l as [|c r]; [apply sfx_refl|]. destruct (isdigit c); [|apply sfx_refl].
  eapply sfx_trans; [apply IH|exists [c]; reflexivity]. Qed.
Lemma block_digits_nonneg i l acc : 0 <= acc -> 0 <= snd (block_digits i l acc).
Proof. revert l acc; induction i as [|i IH]; intros l acc Ha; cbn [block_digits snd]; [assumption|].
  destruct l as [|c r]; [assumption|]. destruct (isdigit c) eqn:E; [|assumption]. apply IH.
  unfold isdigit, inr in E. apply andb_prop in E as [E1 _]. apply N.leb_le in E1. lia. Qed.
Lemma block_inside l : inside l (lex_block l).
Proof. unfold lex_block.
  assert (Hinc : inside l (mk T_UNKNOWN 0 0 0 (Z.of_nat (length l)))) by (unfold inside, mk; cbn; lia).
  destruct (starts _ l) eqn:Hs; [|apply inside_fail].
  destruct l as [|c0 l0]; [discriminate|]. cbn [tl]. destruct l0 as [|c r]; [exact Hinc|].
  destruct (isdigit c && negb (ischr 48%N c)); [|apply inside_fail].
  pose proof (sfx_block_digits (N.to_nat (c - 48)) r 0) as Hd.
  pose proof (block_digits_nonneg (N.to_nat (c - 48)) r 0 ltac:(lia)) as Hn.
  destruct (block_digits _ r 0) as [[r' remd] blen]; cbn [fst snd] in *.
  destruct remd.
  - destruct (Z.leb_spec blen (Z.of_nat (length r'))) as [Hle|]; [|exact Hinc].
    assert (Hs' : sfx r' (c0 :: c :: r)) by (eapply sfx_trans; [exact Hd|exists [c0;c]; reflexivity]).
    pose proof (used_bounds _ _ Hs') as Hb. unfold inside, mk; cbn [disp tok ptr len].
    unfold used in *. lia.
  - destruct (iseos r'); [exact Hinc|apply inside_fail]. Qed.
Print Assumptions block_inside.
Print Assumptions string_inside.
