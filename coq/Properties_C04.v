(* C04 -- property theorems only: every statement is closed by `exact` on a lemma proved elsewhere.
   Statements are pinned by coq/statements/C04.json; ./check compares. *)
From Coq Require Import Bool List NArith ZArith Lia.
From M Require StrTo.
From M Require StrToBase.
From M Require NearSpec.
From M Require UnitTable.
From M Require NumSyntax.
From M Require ArrayRoundTrip.
From M Require Tie.
From M Require ParseLocal.
From M Require ArrayRoundTrip64.
From M Require DecSpec.
From M Require Framing2.
From M Require GFmt.
From M Require GFmtSpec.
From M Require Generated.
From M Require ILog.
From M Require LexBounds.
From M Require LexModel.
From M Require ListWs.
From M Require MatchModel.
From M Require MoreSpecs.
From M Require NumDecode.
From M Require NumList.
From M Require ParamList.
From M Require ParserModel.
From M Require SimpleSpecs.
From M Require StrTo.
Import ListNotations.

Module T_strto_dec. Import StrTo. Local Open Scope bool_scope. Local Open Scope Z_scope.
Import ParserModel. Local Open Scope Z_scope.
Theorem C04_strto_dec :
  forall ws sg ds rest neg,
  forallb isspace ws = true -> sign_of sg = Some neg -> ds <> [] -> forallb (isdig 10) ds = true -> stops 10 rest ->
  strto (ws ++ sg ++ ds ++ rest) 10 = (Z.of_nat (length ws) + Z.of_nat (length sg) + Z.of_nat (length ds), pval 10 ds, neg).
Proof. exact (@StrTo.strto_dec). Qed.
End T_strto_dec.
Definition C04_strto_dec := @T_strto_dec.C04_strto_dec.

Module T_decint_exact_signed. Import StrTo. Local Open Scope bool_scope. Local Open Scope Z_scope.
Import ParserModel. Local Open Scope Z_scope.
Theorem C04_decint_exact_signed :
  forall w sg ds rest neg,
  (w = 32 \/ w = 64) ->
  sign_of sg = Some neg -> ds <> [] -> forallb (isdig 10) ds = true -> stops 10 rest ->
  let x := if neg then - pval 10 ds else pval 10 ds in - 2 ^ (w - 1) <= x < 2 ^ (w - 1) ->
  let '(used, v, ng) := strto (sg ++ ds ++ rest) 10 in (0 <? used) = true /\ wraps w (strtol_val v ng) = x.
Proof. exact (@StrTo.decint_exact_signed). Qed.
End T_decint_exact_signed.
Definition C04_decint_exact_signed := @T_decint_exact_signed.C04_decint_exact_signed.

Module T_strto_nondec. Import StrToBase. Local Open Scope bool_scope. Local Open Scope Z_scope.
Import ParserModel StrTo. Local Open Scope Z_scope.
Theorem C04_strto_nondec :
  forall base ds rest,
  (base = 2 \/ base = 8 \/ base = 16) ->
  ds <> [] -> forallb (isdig base) ds = true -> stops base rest -> no_0x ds rest ->
  strto (ds ++ rest) base = (Z.of_nat (length ds), pval base ds, false).
Proof. exact (@StrToBase.strto_nondec). Qed.
End T_strto_nondec.
Definition C04_strto_nondec := @T_strto_nondec.C04_strto_nondec.

Module T_nondec_exact. Import StrToBase. Local Open Scope bool_scope. Local Open Scope Z_scope.
Import ParserModel StrTo. Local Open Scope Z_scope.
Theorem C04_nondec_exact :
  forall base ds rest w,
  (base = 2 \/ base = 8 \/ base = 16) -> (w = 32 \/ w = 64) ->
  ds <> [] -> forallb (isdig base) ds = true -> stops base rest -> no_0x ds rest -> 0 <= pval base ds < 2 ^ w ->
  let '(used, v, ng) := strto (ds ++ rest) base in (0 <? used) = true /\ wrapu w (strtoul_val v ng) = pval base ds.
Proof. exact (@StrToBase.nondec_exact). Qed.
End T_nondec_exact.
Definition C04_nondec_exact := @T_nondec_exact.C04_nondec_exact.

Module T_bin_exp_correct. Import NearSpec. Local Open Scope bool_scope. Local Open Scope Z_scope.
Import NumDecode GFmt GFmtSpec ILog. Local Open Scope Z_scope.
Theorem C04_bin_exp_correct :
  forall n d,
  0 < n -> 0 < d -> ge2 n d (bin_exp n d) = true /\ ge2 n d (bin_exp n d + 1) = false.
Proof. exact (@NearSpec.bin_exp_correct). Qed.
End T_bin_exp_correct.
Definition C04_bin_exp_correct := @T_bin_exp_correct.C04_bin_exp_correct.

Module T_round_nearest_even_char. Import NearSpec. Local Open Scope bool_scope. Local Open Scope Z_scope.
Import NumDecode GFmt GFmtSpec ILog. Local Open Scope Z_scope.
Theorem C04_round_nearest_even_char :
  forall p qmin emax n d,
  n <> 0 ->
  round_nearest_even p qmin emax n d =
  let '(m, q, _, _) := rounded p qmin n d in
  let '(m1, q1) := if m =? 2 ^ p then (2 ^ (p - 1), q + 1) else (m, q) in
  if emax <? q1 + p then None else Some (m1, q1).
Proof. exact (@NearSpec.round_nearest_even_char). Qed.
End T_round_nearest_even_char.
Definition C04_round_nearest_even_char := @T_round_nearest_even_char.C04_round_nearest_even_char.

Module T_rounded_nearest. Import NearSpec. Local Open Scope bool_scope. Local Open Scope Z_scope.
Import NumDecode GFmt GFmtSpec ILog. Local Open Scope Z_scope.
Theorem C04_rounded_nearest :
  forall p qmin n d,
  0 < n -> 0 < d ->
  let '(m, q, num, den) := rounded p qmin n d in
  0 < den /\ 0 <= num /\ 2 * Z.abs (num - m * den) <= den /\
  (if 0 <=? q then num = n /\ den = d * 2 ^ q else num = n * 2 ^ (- q) /\ den = d).
Proof. exact (@NearSpec.rounded_nearest). Qed.
End T_rounded_nearest.
Definition C04_rounded_nearest := @T_rounded_nearest.C04_rounded_nearest.

Module T_rounded_normal_range. Import NearSpec. Local Open Scope bool_scope. Local Open Scope Z_scope.
Import NumDecode GFmt GFmtSpec ILog. Local Open Scope Z_scope.
Theorem C04_rounded_normal_range :
  forall p qmin n d,
  0 < p -> 0 < n -> 0 < d -> qmin <= bin_exp n d - (p - 1) ->
  let '(m, _, _, _) := rounded p qmin n d in 2 ^ (p - 1) <= m <= 2 ^ p.
Proof. exact (@NearSpec.rounded_normal_range). Qed.
End T_rounded_normal_range.
Definition C04_rounded_normal_range := @T_rounded_normal_range.C04_rounded_normal_range.

Module T_unit_rows. Import UnitTable. Local Open Scope bool_scope. Local Open Scope Z_scope.
Import MatchModel Generated. Local Open Scope Z_scope.
Theorem C04_unit_rows :
  forallb row_ok gen_units = true.
Proof. exact (@UnitTable.unit_rows). Qed.
End T_unit_rows.
Definition C04_unit_rows := @T_unit_rows.C04_unit_rows.

Module T_specials. Import UnitTable. Local Open Scope bool_scope. Local Open Scope Z_scope.
Import MatchModel Generated. Local Open Scope Z_scope.
Theorem C04_specials :
  forallb special_ok gen_specials = true.
Proof. exact (@UnitTable.specials). Qed.
End T_specials.
Definition C04_specials := @T_specials.C04_specials.

Module T_bool_names. Import UnitTable. Local Open Scope bool_scope. Local Open Scope Z_scope.
Import MatchModel Generated. Local Open Scope Z_scope.
Theorem C04_bool_names :
  forallb (fun row => let '(nm,tg) := row in
    forallb (fun s => existsb (fun r2 => fst (matchPattern (fst r2) (Z.of_nat (length (fst r2))) s (Z.of_nat (length s)) false) && (snd r2 =? tg)) gen_bool_def) (casings nm)) gen_bool_def = true.
Proof. exact (@UnitTable.bool_names). Qed.
End T_bool_names.
Definition C04_bool_names := @T_bool_names.C04_bool_names.

Module T_strtod_exact_literal. Import NumSyntax. Local Open Scope bool_scope. Local Open Scope Z_scope.
Import NumDecode. Local Open Scope Z_scope.
Local Open Scope Z_scope.
Theorem C04_strtod_exact_literal :
  forall sg neg d1 d2 ex eneg rest,
  sign_ok sg neg -> alld d1 -> alld (frac_digits d2) -> d1 ++ frac_digits d2 <> [] ->
  match ex with Some (e, esg, ed) => ((e =? 101) || (e =? 69))%N = true /\ sign_ok esg eneg /\ alld ed /\ ed <> [] | None => True end ->
  nodigit rest ->
  (d2 = None -> (hd 0%N rest =? 46)%N = false) ->
  (ex = None -> ((hd 0%N rest =? 101) || (hd 0%N rest =? 69))%N = false) ->
  (d1 = [] -> d2 <> None) ->
  let mant := dec (d1 ++ frac_digits d2) in
  let e10 := (match ex with Some (_, _, ed) => if eneg then - dec ed else dec ed | None => 0 end) - frac_len d2 in
  let e10' := Z.max (-400 - Z.of_nat (length (d1 ++ frac_digits d2))) (Z.min 400 e10) in
  strtod_exact (literal sg d1 d2 ex ++ rest) =
  Some (neg, if 0 <=? e10' then mant * 10 ^ e10' else mant, if 0 <=? e10' then 1 else 10 ^ (- e10')).
Proof. exact (@NumSyntax.strtod_exact_literal). Qed.
End T_strtod_exact_literal.
Definition C04_strtod_exact_literal := @T_strtod_exact_literal.C04_strtod_exact_literal.

Module T_strtod_bits_literal. Import NumSyntax. Local Open Scope bool_scope. Local Open Scope Z_scope.
Import NumDecode. Local Open Scope Z_scope.
Local Open Scope Z_scope.
Theorem C04_strtod_bits_literal :
  forall sg neg d1 d2 ex eneg rest,
  sign_ok sg neg -> alld d1 -> alld (frac_digits d2) -> d1 ++ frac_digits d2 <> [] ->
  match ex with Some (e, esg, ed) => ((e =? 101) || (e =? 69))%N = true /\ sign_ok esg eneg /\ alld ed /\ ed <> [] | None => True end ->
  nodigit rest -> (d2 = None -> (hd 0%N rest =? 46)%N = false) ->
  (ex = None -> ((hd 0%N rest =? 101) || (hd 0%N rest =? 69))%N = false) -> (d1 = [] -> d2 <> None) ->
  let mant := dec (d1 ++ frac_digits d2) in
  let e10 := (match ex with Some (_, _, ed) => if eneg then - dec ed else dec ed | None => 0 end) - frac_len d2 in
  let e10' := Z.max (-400 - Z.of_nat (length (d1 ++ frac_digits d2))) (Z.min 400 e10) in
  strtod_bits (literal sg d1 d2 ex ++ rest) = bits64 neg (nearest64 (if 0 <=? e10' then mant * 10 ^ e10' else mant) (if 0 <=? e10' then 1 else 10 ^ (- e10'))) /\
  strtof_bits (literal sg d1 d2 ex ++ rest) = bits32 neg (nearest32 (if 0 <=? e10' then mant * 10 ^ e10' else mant) (if 0 <=? e10' then 1 else 10 ^ (- e10'))).
Proof. exact (@NumSyntax.strtod_bits_literal). Qed.
End T_strtod_bits_literal.
Definition C04_strtod_bits_literal := @T_strtod_bits_literal.C04_strtod_bits_literal.

Module T_read_uint_item. Import ArrayRoundTrip. Local Open Scope bool_scope. Local Open Scope Z_scope.
Import LexModel LexBounds DecSpec MoreSpecs NumList SimpleSpecs ListWs ParserModel ParamList. Local Open Scope Z_scope.
Local Open Scope Z_scope.
Theorem C04_read_uint_item :
  forall items k c m i,
  Forall uint_item items -> nth_error items k = Some i -> at_item c items k -> tail_ok c ->
  exists c', param_int c 32 false m = (c', true, value_of i) /\ at_item c' items (S k) /\ tail_ok c' /\ c' = upd_in c (Z.of_nat (S k)) (item_off items (S k) - 1).
Proof. exact (@ArrayRoundTrip.read_uint_item). Qed.
End T_read_uint_item.
Definition C04_read_uint_item := @T_read_uint_item.C04_read_uint_item.

Module T_tie_ctype. Import Tie. Local Open Scope bool_scope. Local Open Scope Z_scope.
Local Open Scope Z_scope.
Theorem C04_tie_ctype :
  same_class MatchModel.islower Generated.gen_cc_islower = true /\ same_class MatchModel.isupper Generated.gen_cc_isupper = true /\
  same_class MatchModel.isdigit Generated.gen_cc_isdigit = true /\ same_class MatchModel.isspace Generated.gen_cc_isspace = true /\
  same_class ParserModel.isspace Generated.gen_cc_isspace = true /\
  map MatchModel.tolower bytes256 = Generated.gen_tolower.
Proof. exact (@Tie.tie_ctype). Qed.
End T_tie_ctype.
Definition C04_tie_ctype := @T_tie_ctype.C04_tie_ctype.

Module T_strto_app_t. Import ParseLocal. Local Open Scope bool_scope. Local Open Scope Z_scope.
Import ParserModel Framing2. Local Open Scope Z_scope.
Theorem C04_strto_app_t :
  forall (y:bytes) (tl c:N) (l':bytes) base,
  tl = 10%N \/ tl = 13%N -> base <= 99 -> isspace c = false -> In tl (c :: l') ->
  strto ((c :: l') ++ y) base = strto (c :: l') base.
Proof. exact (@ParseLocal.strto_app_t). Qed.
End T_strto_app_t.
Definition C04_strto_app_t := @T_strto_app_t.C04_strto_app_t.

Module T_strtod_exact_app_t. Import ParseLocal. Local Open Scope bool_scope. Local Open Scope Z_scope.
Import ParserModel Framing2. Local Open Scope Z_scope.
Theorem C04_strtod_exact_app_t :
  forall (y:list N) (tl c:N) (l':list N),
  tl = 10%N \/ tl = 13%N -> NumDecode.isspace c = false -> In tl (c :: l') ->
  NumDecode.strtod_exact ((c :: l') ++ y) = NumDecode.strtod_exact (c :: l').
Proof. exact (@ParseLocal.strtod_exact_app_t). Qed.
End T_strtod_exact_app_t.
Definition C04_strtod_exact_app_t := @T_strtod_exact_app_t.C04_strtod_exact_app_t.

Module T_read_uint_item64. Import ArrayRoundTrip64. Local Open Scope bool_scope. Local Open Scope Z_scope.
Import LexModel LexBounds DecSpec MoreSpecs NumList SimpleSpecs ListWs ParserModel ParamList. Local Open Scope Z_scope.
Local Open Scope Z_scope.
Theorem C04_read_uint_item64 :
  forall items k c m i,
  Forall uint_item64 items -> nth_error items k = Some i -> at_item c items k -> tail_ok64 c ->
  exists c', param_int c 64 false m = (c', true, value_of64 i) /\ at_item c' items (S k) /\ tail_ok64 c' /\ c' = upd_in c (Z.of_nat (S k)) (item_off items (S k) - 1).
Proof. exact (@ArrayRoundTrip64.read_uint_item64). Qed.
End T_read_uint_item64.
Definition C04_read_uint_item64 := @T_read_uint_item64.C04_read_uint_item64.

