(* C17 at handler level: a binary array result written by a handler is one response item, the definite-length block whose
   payload is every element in the byte order the caller asked for -- on either host byte order and on either code path. *)
From Coq Require Import Bool List NArith ZArith Lia.
From M Require LexModel MatchModel FmtModel Generated.
From M Require Import BufModel ArrayBytes ParserModel Framing2 Framing3.
Import ListNotations.
Local Open Scope Z_scope.

Lemma bz_flat_map (f:Z -> list Z) l : bz (flat_map f l) = flat_map (fun v => bz (f v)) l.
Proof. unfold bz. induction l as [|v r IH]; [reflexivity|]. cbn [flat_map]. now rewrite map_app, IH. Qed.

Lemma arr_swapped_nat size v : size_ok size ->
  arr_swapped size v = match Z.to_nat size with 1%nat => v | 2%nat => swap16 v | 4%nat => swap32 v | _ => swap64 v end.
Proof. intros [->|[->|[->| ->]]]; reflexivity. Qed.

Theorem payload_requested size fmt vals : size_ok size -> (fmt = 1 \/ fmt = 2) ->
  (Generated.gen_native_format = 1 \/ Generated.gen_native_format = 2) ->
  Forall (in_width (Z.to_nat size)) vals ->
  payload size fmt vals = bz (flat_map (requested fmt (Z.to_nat size)) vals).
Proof.
  intros Hs Hf Hn Hv.
  assert (Hsn : (Z.to_nat size = 1 \/ Z.to_nat size = 2 \/ Z.to_nat size = 4 \/ Z.to_nat size = 8)%nat) by (destruct Hs as [->|[->|[->| ->]]]; cbn; auto).
  unfold payload, host, swapped, arr_host, native_le. rewrite bz_flat_map.
  destruct Hn as [En|En]; rewrite En; destruct Hf as [-> | ->]; cbn [Z.eqb Pos.eqb]; unfold requested; cbn [Z.eqb Pos.eqb].
  - reflexivity.
  - induction Hv as [|v r Hv1 Hr IH]; [reflexivity|]. cbn [flat_map]. rewrite IH. f_equal. f_equal.
    rewrite (arr_swapped_nat size v Hs). apply swapped_be; assumption.
  - induction Hv as [|v r Hv1 Hr IH]; [reflexivity|]. cbn [flat_map]. rewrite IH. f_equal. f_equal.
    rewrite (arr_swapped_nat size v Hs). apply swapped_le; assumption.
  - reflexivity.
Qed.

(* the response bytes of one binary array result inside any handler, at any point of a response *)
Theorem array_result_bytes c size fmt vals : size_ok size -> (fmt = 1 \/ fmt = 2) ->
  Forall (in_width (Z.to_nat size)) vals ->
  let c' := result_array c size fmt vals in
  W c' = W c ++ delim_bytes (first_output c) (output_count c) ++
         ParserModel.block_header (Z.of_nat (length vals) * size) ++ bz (flat_map (requested fmt (Z.to_nat size)) vals)
  /\ output_count c' = output_count c + 1 /\ first_output c' = first_output c /\ Fl c' = Fl c.
Proof.
  intros Hs Hf Hv. cbn zeta.
  assert (Hn : Generated.gen_native_format = 1 \/ Generated.gen_native_format = 2) by (vm_compute; auto).
  destruct (array_steps c size fmt vals Hs) as (A1 & A2 & A3 & A4).
  assert (Ei : arr_items size fmt vals = [ParserModel.block_header (Z.of_nat (length vals) * size) ++ payload size fmt vals]).
  { unfold arr_items. destruct Hf as [-> | ->]; reflexivity. }
  rewrite Ei in A2, A3. cbn [length render] in A2, A3. rewrite app_nil_r in A3.
  rewrite (payload_requested size fmt vals Hs Hf Hn Hv) in A3. rewrite A3. repeat split; try assumption; rewrite <- ?app_assoc; reflexivity.
Qed.
Print Assumptions array_result_bytes.
