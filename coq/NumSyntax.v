(* C04, decimal literals, syntax -> value: on  sign? digits [. digits] [E sign? digits]  followed by something that cannot
   continue it, the strtod model extracts exactly the written mantissa digits and exponent; the exact value it hands to the
   rounding step (NearSpec.v) is  mantissa * 10^(exponent - fraction digits). *)
From Coq Require Import Bool List NArith ZArith Lia.
From M Require Import NumDecode.
Import ListNotations.
Local Open Scope Z_scope.

Definition dec (ds:list N) : Z := fold_left (fun a c => a * 10 + (Z.of_N c - 48)) ds 0.
Definition alld (ds:list N) : Prop := forallb isdig ds = true.
Definition nodigit (rest:list N) : Prop := isdig (hd 0%N rest) = false.

Lemma fold_dec ds : forall acc, fold_left (fun a c => a * 10 + (Z.of_N c - 48)) ds acc = acc * 10 ^ Z.of_nat (length ds) + dec ds.
Proof.
  unfold dec. induction ds as [|c r IH]; intro acc; cbn [fold_left length]; [change (Z.of_nat 0) with 0; rewrite Z.pow_0_r; lia|].
  rewrite IH, (IH (0 * 10 + (Z.of_N c - 48))). rewrite Nat2Z.inj_succ, Z.pow_succ_r by lia. ring.
Qed.
Lemma digs_run ds : forall rest acc n, alld ds -> nodigit rest ->
  digs (ds ++ rest) acc n = (rest, fold_left (fun a c => a * 10 + (Z.of_N c - 48)) ds acc, n + Z.of_nat (length ds)).
Proof.
  induction ds as [|c r IH]; intros rest acc n Ha Hr.
  - cbn [app fold_left length]. destruct rest as [|x xs]; cbn [digs]; [f_equal; lia|]. unfold nodigit in Hr. cbn [hd] in Hr. rewrite Hr. f_equal. lia.
  - unfold alld in Ha. cbn [forallb] in Ha. apply andb_prop in Ha as [Hc Hr']. cbn [app digs]. rewrite Hc.
    rewrite IH by assumption. cbn [fold_left length]. rewrite Nat2Z.inj_succ. f_equal. lia.
Qed.
Lemma dec_app a b : dec (a ++ b) = dec a * 10 ^ Z.of_nat (length b) + dec b.
Proof. unfold dec at 1. rewrite fold_left_app. fold (dec a). apply fold_dec. Qed.

Definition sign_ok (sg:list N) (neg:bool) : Prop := (sg = [] /\ neg = false) \/ (sg = [43%N] /\ neg = false) \/ (sg = [45%N] /\ neg = true).
Lemma digit_facts c : isdig c = true -> (c =? 45)%N = false /\ (c =? 43)%N = false /\ (c =? 46)%N = false /\ (c =? 101)%N = false /\ (c =? 69)%N = false /\ isspace c = false.
Proof.
  unfold isdig, isspace. intro H. apply andb_prop in H as [A B]. apply N.leb_le in A. apply N.leb_le in B.
  repeat split; try (apply N.eqb_neq; lia).
  destruct (N.eqb_spec c 32); [lia|]. destruct (N.leb_spec 9 c), (N.leb_spec c 13); cbn; try reflexivity; lia.
Qed.

(* the literal and what strtod makes of it *)
Definition literal (sg d1:list N) (d2:option (list N)) (ex:option (N * list N * list N)) : list N :=
  sg ++ d1 ++ (match d2 with Some f => 46%N :: f | None => [] end) ++ (match ex with Some (e, esg, ed) => e :: esg ++ ed | None => [] end).
Definition frac_len (d2:option (list N)) : Z := match d2 with Some f => Z.of_nat (length f) | None => 0 end.
Definition frac_digits (d2:option (list N)) : list N := match d2 with Some f => f | None => [] end.

Theorem strtod_exact_literal sg neg d1 d2 ex eneg rest :
  sign_ok sg neg -> alld d1 -> alld (frac_digits d2) -> d1 ++ frac_digits d2 <> [] ->
  match ex with Some (e, esg, ed) => ((e =? 101) || (e =? 69))%N = true /\ sign_ok esg eneg /\ alld ed /\ ed <> [] | None => True end ->
  nodigit rest ->
  (d2 = None -> (hd 0%N rest =? 46)%N = false) ->
  (ex = None -> ((hd 0%N rest =? 101) || (hd 0%N rest =? 69))%N = false) ->
  (d1 = [] -> d2 <> None) ->
  let mant := dec (d1 ++ frac_digits d2) in
  let e10 := (match ex with Some (_, _, ed) => if eneg then - dec ed else dec ed | None => 0 end) - frac_len d2 in
  let e10' := Z.max (-400 - Z.of_nat (length (d1 ++ frac_digits d2))) (Z.min 400 e10) in
  strtod_exact (literal sg d1 d2 ex ++ rest) =
  Some (neg, if 0 <=? e10' then mant * 10 ^ e10' else mant, if 0 <=? e10' then 1 else 10 ^ (- e10')).
Proof.
  intros Hsg Hd1 Hd2 Hne Hex Hrest Hnodot Hnoe Hd1e mant e10 e10'.
  set (dotp := match d2 with Some f => 46%N :: f | None => [] end).
  set (expp := match ex with Some (e, esg, ed) => e :: esg ++ ed | None => [] end).
  set (Y := d1 ++ dotp ++ expp ++ rest).
  assert (EL : literal sg d1 d2 ex ++ rest = sg ++ Y) by (unfold literal, Y; fold dotp expp; now rewrite <- !app_assoc).
  (* the first character of the unsigned part is a digit or the point *)
  assert (HY : isdig (hd 0%N Y) = true \/ hd 0%N Y = 46%N).
  { unfold Y. destruct d1 as [|c r].
    - right. destruct d2 as [f|]; [reflexivity|]. now specialize (Hd1e eq_refl).
    - left. unfold alld in Hd1. cbn [forallb] in Hd1. now apply andb_prop in Hd1 as [H _]. }
  assert (HY' : (hd 0%N Y =? 45)%N = false /\ (hd 0%N Y =? 43)%N = false /\ isspace (hd 0%N Y) = false).
  { destruct HY as [H| ->]; [destruct (digit_facts _ H) as (A & B & _ & _ & _ & C); auto|repeat split; reflexivity]. }
  destruct HY' as (Y45 & Y43 & Ysp).
  assert (HYne : Y <> []).
  { unfold Y. intro E. apply app_eq_nil in E as [E1 E2]. apply app_eq_nil in E2 as [E2 _]. unfold dotp in E2. destruct d2; [discriminate|]. apply Hne. cbn [frac_digits]. now rewrite E1. }
  unfold strtod_exact. rewrite EL.
  (* white space and sign *)
  assert (Hsk : skipsp (sg ++ Y) = sg ++ Y).
  { destruct Hsg as [[-> _]|[[-> _]|[-> _]]]; cbn [app]; try reflexivity. destruct Y as [|y ys]; [congruence|]. cbn [skipsp hd] in *. now rewrite Ysp. }
  rewrite Hsk.
  assert (Hneg : (hd 0%N (sg ++ Y) =? 45)%N = neg /\
                 (if (hd 0%N (sg ++ Y) =? 45)%N || (hd 0%N (sg ++ Y) =? 43)%N then tl (sg ++ Y) else sg ++ Y) = Y).
  { destruct Hsg as [[-> ->]|[[-> ->]|[-> ->]]]; cbn [app hd tl]; [rewrite Y45, Y43|..]; split; reflexivity. }
  destruct Hneg as [Hn1 Hn2]. rewrite Hn2, Hn1.
  (* integer digits *)
  assert (Hnd1 : nodigit (dotp ++ expp ++ rest)).
  { unfold nodigit, dotp, expp. destruct d2 as [f|]; [reflexivity|]. destruct ex as [[[e esg] ed]|]; [|exact Hrest].
    cbn [app hd]. destruct Hex as (He & _). unfold isdig. apply orb_prop in He as [He|He]; apply N.eqb_eq in He; subst; reflexivity. }
  unfold Y. rewrite (digs_run d1 _ 0 0 Hd1 Hnd1). fold (dec d1). rewrite Z.add_0_l.
  (* fraction digits *)
  assert (Hnd2 : nodigit (expp ++ rest)).
  { unfold nodigit, expp. destruct ex as [[[e esg] ed]|]; [|exact Hrest].
    cbn [app hd]. destruct Hex as (He & _). unfold isdig. apply orb_prop in He as [He|He]; apply N.eqb_eq in He; subst; reflexivity. }
  assert (Hfrac : (if (hd 0%N (dotp ++ expp ++ rest) =? 46)%N then digs (tl (dotp ++ expp ++ rest)) (dec d1) 0 else (dotp ++ expp ++ rest, dec d1, 0)) =
                  (expp ++ rest, dec (d1 ++ frac_digits d2), frac_len d2)).
  { unfold dotp. destruct d2 as [f|]; cbn [app hd tl frac_digits frac_len].
    - change (46 =? 46)%N with true. cbv iota. rewrite (digs_run f _ (dec d1) 0 Hd2 Hnd2). rewrite fold_dec, dec_app, Z.add_0_l. reflexivity.
    - rewrite app_nil_r. assert (H46 : (hd 0%N (expp ++ rest) =? 46)%N = false).
      { unfold expp. destruct ex as [[[e esg] ed]|]; [|exact (Hnodot eq_refl)]. cbn [app hd]. destruct Hex as (He & _).
        apply orb_prop in He as [He|He]; apply N.eqb_eq in He; subst; reflexivity. }
      rewrite H46. reflexivity. }
  rewrite Hfrac.
  assert (Hcnt : Z.of_nat (length d1) + frac_len d2 = Z.of_nat (length (d1 ++ frac_digits d2))).
  { rewrite app_length, Nat2Z.inj_add. destruct d2; reflexivity. }
  assert (Hnz : (Z.of_nat (length d1) + frac_len d2 =? 0) = false).
  { apply Z.eqb_neq. rewrite Hcnt. destruct (d1 ++ frac_digits d2); [congruence|cbn [length]; lia]. }
  rewrite Hnz.
  (* exponent *)
  assert (Hexp : (let hasE := ((hd 0%N (expp ++ rest) =? 101) || (hd 0%N (expp ++ rest) =? 69))%N in
                  let l5 := tl (expp ++ rest) in
                  let en := (hd 0%N l5 =? 45)%N in
                  let l6 := if en || (hd 0%N l5 =? 43)%N then tl l5 else l5 in
                  let '(_, ev, ne) := digs l6 0 0 in
                  if hasE && (0 <? ne) then (if en then - ev else ev) else 0) =
                 match ex with Some (_, _, ed) => if eneg then - dec ed else dec ed | None => 0 end).
  { unfold expp. destruct ex as [[[e esg] ed]|].
    - destruct Hex as (He & Hes & Hed & Hedne). cbn [app hd tl]. cbv zeta. rewrite He. rewrite <- !app_assoc.
      assert (Hed0 : isdig (hd 0%N (ed ++ rest)) = true).
      { destruct ed as [|x xs]; [congruence|]. cbn [app hd]. unfold alld in Hed. cbn [forallb] in Hed. now apply andb_prop in Hed as [H _]. }
      destruct (digit_facts _ Hed0) as (E45 & E43 & _).
      assert (Hs : (hd 0%N (esg ++ ed ++ rest) =? 45)%N = eneg /\
                   (if (hd 0%N (esg ++ ed ++ rest) =? 45)%N || (hd 0%N (esg ++ ed ++ rest) =? 43)%N then tl (esg ++ ed ++ rest) else esg ++ ed ++ rest) = ed ++ rest).
      { destruct Hes as [[-> ->]|[[-> ->]|[-> ->]]]; cbn [app hd tl]; [rewrite E45, E43|..]; split; reflexivity. }
      destruct Hs as [Hs1 Hs2]. rewrite Hs2, Hs1. rewrite (digs_run ed rest 0 0 Hed Hrest). fold (dec ed). rewrite Z.add_0_l.
      assert (Hpos : (0 <? Z.of_nat (length ed)) = true) by (apply Z.ltb_lt; destruct ed; [congruence|cbn [length]; lia]).
      rewrite Hpos. reflexivity.
    - cbn [app]. cbv zeta. rewrite (Hnoe eq_refl). destruct (digs _ 0 0) as [[? ?] ?]. reflexivity. }
  cbv zeta in Hexp. cbv zeta.
  destruct (digs (if (hd 0%N (tl (expp ++ rest)) =? 45)%N || (hd 0%N (tl (expp ++ rest)) =? 43)%N then tl (tl (expp ++ rest)) else tl (expp ++ rest)) 0 0) as [[l7 ev] ne].
  rewrite Hexp. rewrite Hcnt. reflexivity.
Qed.
Print Assumptions strtod_exact_literal.

(* the bits strtod delivers are the rounding (NearSpec: rounded_nearest, round_nearest_even_char) of that exact value *)
Corollary strtod_bits_literal sg neg d1 d2 ex eneg rest :
  sign_ok sg neg -> alld d1 -> alld (frac_digits d2) -> d1 ++ frac_digits d2 <> [] ->
  match ex with Some (e, esg, ed) => ((e =? 101) || (e =? 69))%N = true /\ sign_ok esg eneg /\ alld ed /\ ed <> [] | None => True end ->
  nodigit rest -> (d2 = None -> (hd 0%N rest =? 46)%N = false) ->
  (ex = None -> ((hd 0%N rest =? 101) || (hd 0%N rest =? 69))%N = false) -> (d1 = [] -> d2 <> None) ->
  let mant := dec (d1 ++ frac_digits d2) in
  let e10 := (match ex with Some (_, _, ed) => if eneg then - dec ed else dec ed | None => 0 end) - frac_len d2 in
  let e10' := Z.max (-400 - Z.of_nat (length (d1 ++ frac_digits d2))) (Z.min 400 e10) in
  strtod_bits (literal sg d1 d2 ex ++ rest) = bits64 neg (nearest64 (if 0 <=? e10' then mant * 10 ^ e10' else mant) (if 0 <=? e10' then 1 else 10 ^ (- e10'))) /\
  strtof_bits (literal sg d1 d2 ex ++ rest) = bits32 neg (nearest32 (if 0 <=? e10' then mant * 10 ^ e10' else mant) (if 0 <=? e10' then 1 else 10 ^ (- e10'))).
Proof.
  intros. unfold strtod_bits, strtof_bits. rewrite (strtod_exact_literal sg neg d1 d2 ex eneg rest) by assumption. split; reflexivity.
Qed.

(* non-vacuity: "-12.5e+3" followed by a blank is -12500 exactly; 1e-450 with a 451-digit mantissa is 1 *)
Example lit_example : strtod_exact (literal [45%N] [49;50]%N (Some [53%N]) (Some (101%N, [43%N], [51%N])) ++ [32%N]) = Some (true, 12500, 1).
Proof. reflexivity. Qed.
Example long_mantissa : strtod_bits ([49%N] ++ repeat 48%N 450 ++ [101;45;52;53;48]%N) = 4607182418800017408.
Proof. vm_compute. reflexivity. Qed.
