(* C19, numeric lists: entry i of a well-formed list is delivered exactly as written; NO_MORE beyond the end *)
From Coq Require Import Bool List NArith ZArith Lia.
From M Require Import LexModel LexBounds DecSpec ExprModel.
Import ListNotations.
Local Open Scope Z_scope.

(* the alphabet of decimal literals *)
Definition decalpha (c:N) : bool := isdigit c || isplusmn c || ischr 46%N c || isws c || isE c.
Lemma all_app p a b : all p a -> all p b -> all p (a ++ b).
Proof. unfold all. intros. rewrite forallb_app. now rewrite H, H0. Qed.
Lemma all_weaken (p q:N -> bool) l : (forall c, p c = true -> q c = true) -> all p l -> all q l.
Proof. unfold all. intros H Ha. rewrite forallb_forall in *. intros x Hx. apply H, Ha, Hx. Qed.
Lemma optsign_alpha sg : optsign sg -> all decalpha sg.
Proof. intros [->|(c & -> & Hc)]; [reflexivity|]. unfold all, decalpha. cbn [forallb]. rewrite Hc. now rewrite orb_true_r. Qed.
Lemma digits_alpha d : all isdigit d -> all decalpha d.
Proof. apply all_weaken. intros c H. unfold decalpha. now rewrite H. Qed.
Lemma ws_alpha d : all isws d -> all decalpha d.
Proof. apply all_weaken. intros c H. unfold decalpha. rewrite H. now rewrite !orb_true_r. Qed.
Lemma dec_alpha t : Dec t -> all decalpha t.
Proof.
  assert (HM : forall m, Mant m -> all decalpha m).
  { intros m [sg d1 Hs Hd _|sg d1 d2 Hs Hd1 Hd2 _].
    - apply all_app; [now apply optsign_alpha|now apply digits_alpha].
    - apply all_app; [now apply optsign_alpha|]. apply all_app; [now apply digits_alpha|]. apply all_app; [reflexivity|now apply digits_alpha]. }
  assert (HE : forall e, Expo e -> all decalpha e).
  { intros e [w1 x w2 sg d Hw1 Hx Hw2 Hs Hd _]. apply all_app; [now apply ws_alpha|]. apply all_app.
    - unfold all, decalpha. cbn [forallb]. rewrite Hx. now rewrite !orb_true_r.
    - apply all_app; [now apply ws_alpha|]. apply all_app; [now apply optsign_alpha|now apply digits_alpha]. }
  intros [m Hm|m e Hm He]; [now apply HM|apply all_app; [now apply HM|now apply HE]].
Qed.

(* a literal followed by something outside its alphabet (or by nothing) is recognised exactly *)
Lemma dec_stop a rest : Dec a -> starts decalpha rest = false -> disp (lex_decimal (a ++ rest)) = Z.of_nat (length a).
Proof.
  intros Ha Hr. pose proof (lex_decimal_longest (a ++ rest)) as ((Hn0 & Hn1) & Hs & _).
  pose proof (decimal_complete a rest Ha) as Hc. set (n := disp (lex_decimal (a ++ rest))) in *.
  destruct (Z.eq_dec n (Z.of_nat (length a))) as [E|E]; [exact E|exfalso].
  assert (Hgt : Z.of_nat (length a) < n) by lia.
  specialize (Hs ltac:(lia)). apply dec_alpha in Hs.
  replace (Z.to_nat n) with (length a + S (Z.to_nat (n - Z.of_nat (length a) - 1)))%nat in Hs by lia.
  rewrite firstn_app_2 in Hs. destruct rest as [|c r]; [rewrite app_length in Hn1; cbn [length] in Hn1; lia|].
  cbn [firstn] in Hs. unfold all in Hs. rewrite forallb_app in Hs. apply andb_prop in Hs as [_ Hs]. cbn [forallb] in Hs.
  cbn [starts] in Hr. rewrite Hr in Hs. discriminate.
Qed.

(* ---------- well-formed numeric lists ---------- *)
Definition entry := (bytes * option bytes)%type.
Definition entry_ok (e:entry) : Prop := Dec (fst e) /\ match snd e with Some b => Dec b | None => True end.
Definition render_entry (e:entry) : bytes := match e with (a, None) => a | (a, Some b) => a ++ 58%N :: b end.
Fixpoint render (es:list entry) : bytes :=
  match es with [] => [] | [e] => render_entry e | e :: r => render_entry e ++ 44%N :: render r end.

Lemma drop_app_len (a x:bytes) : drop (Z.of_nat (length a)) (a ++ x) = x.
Proof. unfold drop. rewrite Nat2Z.id. rewrite skipn_app, skipn_all, Nat.sub_diag. reflexivity. Qed.
Lemma drop_drop a b (l:bytes) : 0 <= a -> 0 <= b -> drop (a + b) l = drop b (drop a l).
Proof. intros. unfold drop. replace (Z.to_nat (a + b)) with (Z.to_nat a + Z.to_nat b)%nat by lia.
  revert l. induction (Z.to_nat a) as [|n IH]; intro l; [reflexivity|]. destruct l; [now rewrite !skipn_nil|]. cbn [Nat.add skipn]. apply IH. Qed.
Lemma dec_len_pos a : Dec a -> 0 < Z.of_nat (length a).
Proof. intro H. apply dec_nonempty in H. destruct a; [congruence|cbn [length]; lia]. Qed.
Lemma lex_decimal_at a rest : Dec a -> starts decalpha rest = false ->
  ret (lex_decimal (a ++ rest)) = Z.of_nat (length a) /\ disp (lex_decimal (a ++ rest)) = Z.of_nat (length a) /\ len (tok (lex_decimal (a ++ rest))) = Z.of_nat (length a).
Proof. intros Ha Hr. pose proof (dec_stop a rest Ha Hr) as Hd. pose proof (lex_decimal_token (a ++ rest)) as (_ & H2 & H3 & _). cbn zeta in *. lia. Qed.
Lemma lex_chr_hit t k r : ret (lex_chr t k (k :: r)) = 1.
Proof. unfold lex_chr. cbn [starts]. unfold ischr. now rewrite N.eqb_refl. Qed.
Lemma lex_chr_miss t k l : starts (ischr k) l = false -> ret (lex_chr t k l) = 0.
Proof. unfold lex_chr. intros ->. reflexivity. Qed.

(* numericRange at the start of an entry *)
Lemma range_at e rest : entry_ok e -> starts decalpha rest = false -> starts (ischr 58%N) rest = false ->
  numeric_range (render_entry e ++ rest) =
  match e with
  | (a, None) => (EOK, false, (0, Z.of_nat (length a)), (0, 0), Z.of_nat (length a))
  | (a, Some b) => (EOK, true, (0, Z.of_nat (length a)), (Z.of_nat (length a) + 1, Z.of_nat (length b)), Z.of_nat (length a) + 1 + Z.of_nat (length b))
  end.
Proof.
  intros [Ha Hb] Hr Hc. destruct e as [a [b|]]; cbn [fst snd render_entry] in *; unfold numeric_range.
  - rewrite <- app_assoc. cbn [app].
    destruct (lex_decimal_at a (58%N :: b ++ rest) Ha eq_refl) as (R1 & D1 & L1). unfold bytes, byte in *. rewrite R1, D1, L1.
    pose proof (dec_len_pos a Ha). unfold bytes, byte in *. destruct (Z.ltb_spec 0 (Z.of_nat (length a))); [|lia].
    rewrite drop_app_len. unfold lex_colon. rewrite lex_chr_hit. cbn [Z.ltb Z.compare].
    rewrite drop_drop by lia. rewrite drop_app_len. change (drop 1 (58%N :: b ++ rest)) with (b ++ rest).
    destruct (lex_decimal_at b rest Hb Hr) as (R2 & D2 & L2). unfold bytes, byte in *. rewrite R2, D2, L2.
    pose proof (dec_len_pos b Hb). unfold bytes, byte in *. destruct (Z.ltb_spec 0 (Z.of_nat (length b))); [reflexivity|lia].
  - destruct (lex_decimal_at a rest Ha Hr) as (R1 & D1 & L1). unfold bytes, byte in *. rewrite R1, D1, L1.
    pose proof (dec_len_pos a Ha). unfold bytes, byte in *. destruct (Z.ltb_spec 0 (Z.of_nat (length a))); [|lia].
    rewrite drop_app_len. unfold lex_colon. rewrite (lex_chr_miss _ _ _ Hc). reflexivity.
Qed.

(* what the walk must deliver for entry k of es laid out from position pos *)
Fixpoint entry_off (es:list entry) (k:nat) : Z :=
  match k, es with
  | O, _ => 0
  | S k', e :: r => Z.of_nat (length (render_entry e)) + 1 + entry_off r k'
  | S _, [] => 0
  end.
Definition expected (pos:Z) (e:entry) : eres * bool * (Z*Z) * (Z*Z) :=
  match e with
  | (a, None) => (EOK, false, (pos, Z.of_nat (length a)), (pos, 0))
  | (a, Some b) => (EOK, true, (pos, Z.of_nat (length a)), (pos + (Z.of_nat (length a) + 1), Z.of_nat (length b)))
  end.
Definition code_of (x:eres * bool * (Z*Z) * (Z*Z)) : eres := let '(r,_,_,_) := x in r.

Lemma render_cons e e2 r : render (e :: e2 :: r) = render_entry e ++ 44%N :: render (e2 :: r).
Proof. reflexivity. Qed.

Theorem numlist_walk_spec : forall es fuel body pos i index, Forall entry_ok es -> es <> [] -> 0 <= pos -> i <= index ->
  drop pos body = render es -> (length es < fuel)%nat ->
  let k := Z.to_nat (index - i) in
  match nth_error es k with
  | Some e => numlist_walk fuel body pos i index = expected (pos + entry_off es k) e
  | None => code_of (numlist_walk fuel body pos i index) = ENOMORE
  end.
Proof.
  induction es as [|e r IH]; intros fuel body pos i index Hok Hne Hpos Hi Hbody Hfuel; [congruence|].
  destruct fuel as [|f]; [cbn in Hfuel; lia|]. cbn [numlist_walk]. inversion Hok as [|? ? He Hr]; subst.
  destruct r as [|e2 r'].
  - (* last entry *)
    cbn [render] in Hbody. rewrite Hbody. rewrite <- (app_nil_r (render_entry e)). rewrite (range_at e [] He eq_refl eq_refl).
    destruct (Z.eqb_spec i index) as [->|Hne'].
    + replace (Z.to_nat (index - index)) with O by lia. cbn [nth_error entry_off]. destruct e as [a [b|]]; cbn [expected]; repeat f_equal; lia.
    + replace (Z.to_nat (index - i)) with (S (Z.to_nat (index - i - 1))) by lia. cbn [nth_error].
      assert (Hnone : nth_error (@nil entry) (Z.to_nat (index - i - 1)) = None) by (destruct (Z.to_nat (index - i - 1)); reflexivity). rewrite Hnone.
      assert (Hdrop : forall u, u = Z.of_nat (length (render_entry e)) -> drop (pos + u) body = []).
      { intros u ->. rewrite drop_drop by lia. rewrite Hbody. rewrite <- (app_nil_r (render_entry e)) at 2. apply drop_app_len. }
      destruct e as [a [b|]]; cbn [render_entry] in Hdrop.
      * rewrite (Hdrop (Z.of_nat (length a) + 1 + Z.of_nat (length b))) by (rewrite app_length; cbn [length]; lia). reflexivity.
      * rewrite (Hdrop (Z.of_nat (length a))) by reflexivity. reflexivity.
  - (* an entry followed by a comma *)
    rewrite render_cons in Hbody. rewrite Hbody. rewrite (range_at e (44%N :: render (e2 :: r')) He eq_refl eq_refl).
    assert (Hdrop : forall u, u = Z.of_nat (length (render_entry e)) -> drop (pos + u) body = 44%N :: render (e2 :: r')).
    { intros u ->. rewrite drop_drop by lia. rewrite Hbody. apply drop_app_len. }
    destruct (Z.eqb_spec i index) as [->|Hne'].
    + replace (Z.to_nat (index - index)) with O by lia. cbn [nth_error entry_off]. destruct e as [a [b|]]; cbn [expected]; repeat f_equal; lia.
    + replace (Z.to_nat (index - i)) with (S (Z.to_nat (index - (i + 1)))) by lia. cbn [nth_error entry_off].
      assert (Hnext : forall u, u = Z.of_nat (length (render_entry e)) ->
         match nth_error (e2 :: r') (Z.to_nat (index - (i + 1))) with
         | Some e' => numlist_walk f body (pos + u + 1) (i + 1) index = expected (pos + u + 1 + entry_off (e2 :: r') (Z.to_nat (index - (i + 1)))) e'
         | None => code_of (numlist_walk f body (pos + u + 1) (i + 1) index) = ENOMORE
         end).
      { intros u Hu. apply IH; try assumption; try discriminate; try lia.
        - rewrite drop_drop by lia. rewrite (Hdrop u Hu). reflexivity.
        - cbn [length] in *. lia. }
      destruct e as [a [b|]]; cbn [render_entry] in *.
      * rewrite (Hdrop (Z.of_nat (length a) + 1 + Z.of_nat (length b))) by (rewrite app_length; cbn [length]; lia).
        unfold lex_comma. rewrite lex_chr_hit. cbn [Z.eqb].
        specialize (Hnext (Z.of_nat (length a) + 1 + Z.of_nat (length b)) ltac:(rewrite app_length; cbn [length]; lia)).
        destruct (nth_error (e2 :: r') (Z.to_nat (index - (i + 1)))) as [e'|]; [|exact Hnext].
        rewrite Hnext. f_equal. unfold bytes, byte in *. rewrite app_length. cbn [length].
        transitivity (pos + (Z.of_nat (length a + S (length b)) + 1 + entry_off (e2 :: r') (Z.to_nat (index - (i + 1))))); [lia|reflexivity].
      * rewrite (Hdrop (Z.of_nat (length a))) by reflexivity.
        unfold lex_comma. rewrite lex_chr_hit. cbn [Z.eqb].
        specialize (Hnext (Z.of_nat (length a)) eq_refl).
        destruct (nth_error (e2 :: r') (Z.to_nat (index - (i + 1)))) as [e'|]; [|exact Hnext].
        rewrite Hnext. f_equal. unfold bytes, byte in *.
        transitivity (pos + (Z.of_nat (length a) + 1 + entry_off (e2 :: r') (Z.to_nat (index - (i + 1))))); [lia|reflexivity].
Qed.
Print Assumptions numlist_walk_spec.

Lemma entry_len_pos e : entry_ok e -> (1 <= length (render_entry e))%nat.
Proof. intros [Ha _]. destruct e as [a [b|]]; cbn [fst render_entry] in *; apply dec_len_pos in Ha; rewrite ?app_length; lia. Qed.
Lemma render_len es : Forall entry_ok es -> (length es <= length (render es))%nat.
Proof.
  induction es as [|e r IH]; intro H; [cbn; lia|]. inversion H as [|? ? He Hr]; subst. specialize (IH Hr). pose proof (entry_len_pos e He).
  destruct r as [|e2 r']; [cbn [render length] in *; lia|]. rewrite render_cons, app_length. cbn [length] in *. lia.
Qed.

(* SCPI_ExprNumericListEntry on the body of a well-formed list: entry [index] as written, or NO_MORE *)
Theorem numlist_spec es index : Forall entry_ok es -> es <> [] -> 0 <= index ->
  match nth_error es (Z.to_nat index) with
  | Some e => numlist_walk (S (length (render es))) (render es) 0 0 index = expected (entry_off es (Z.to_nat index)) e
  | None => code_of (numlist_walk (S (length (render es))) (render es) 0 0 index) = ENOMORE
  end.
Proof.
  intros Hok Hne Hi. pose proof (render_len es Hok) as Hl.
  pose proof (numlist_walk_spec es (S (length (render es))) (render es) 0 0 index Hok Hne ltac:(lia) Hi eq_refl ltac:(lia)) as H.
  cbn zeta in H. rewrite Z.sub_0_r in H. exact H.
Qed.
Lemma firstn_exact (a x:bytes) : firstn (length a) (a ++ x) = a.
Proof. rewrite firstn_app, Nat.sub_diag, firstn_all. cbn [firstn]. now rewrite app_nil_r. Qed.
(* the delivered token is the literal itself *)
Lemma entry_text : forall es k a b, nth_error es k = Some (a, b) ->
  firstn (length a) (drop (entry_off es k) (render es)) = a.
Proof.
  induction es as [|e r IH]; intros k a b H; [destruct k; discriminate|]. destruct k as [|k].
  - cbn [nth_error] in H. injection H as ->. cbn [entry_off]. unfold drop. cbn [Z.to_nat skipn].
    destruct r as [|e2 r']; [cbn [render]|rewrite render_cons]; destruct b as [b|]; cbn [render_entry]; rewrite <- ?app_assoc;
    try apply firstn_exact. apply firstn_all.
  - cbn [nth_error] in H. destruct r as [|e2 r']; [destruct k; discriminate|].
    change (entry_off (e :: e2 :: r') (S k)) with (Z.of_nat (length (render_entry e)) + 1 + entry_off (e2 :: r') k). rewrite render_cons.
    pose proof (IH k a b H) as IH'.
    assert (Hnn : forall es' k', 0 <= entry_off es' k').
    { induction es' as [|x xs IHx]; intros [|k']; cbn [entry_off]; try lia. specialize (IHx k'). lia. }
    replace (Z.of_nat (length (render_entry e)) + 1 + entry_off (e2 :: r') k) with (Z.of_nat (length (render_entry e)) + (1 + entry_off (e2 :: r') k)) by lia.
    rewrite drop_drop by (specialize (Hnn (e2 :: r') k); lia). rewrite drop_app_len.
    rewrite drop_drop by (specialize (Hnn (e2 :: r') k); lia). change (drop 1 (44%N :: render (e2 :: r'))) with (render (e2 :: r')). exact IH'.
Qed.

(* non-vacuity: "1,3:5,-2.5E3" *)
Definition ex_list : list entry := [([49%N], None); ([51%N], Some [53%N]); ([45;50;46;53;69;51]%N, None)].
Lemma dec_int d : all isdigit d -> d <> [] -> Dec d.
Proof. intros Ha Hn. apply Dec_m. apply (Mant_int [] d); [now left|exact Ha|exact Hn]. Qed.
Example ex_list_ok : Forall entry_ok ex_list.
Proof.
  unfold ex_list. constructor; [|constructor; [|constructor; [|constructor]]]; split; cbn [fst snd]; try exact I.
  - apply dec_int; [reflexivity|discriminate].
  - apply dec_int; [reflexivity|discriminate].
  - apply dec_int; [reflexivity|discriminate].
  - apply (Dec_me [45;50;46;53]%N [69;51]%N).
    + apply (Mant_frac [45%N] [50%N] [53%N]); [right; exists 45%N; split; reflexivity|reflexivity|reflexivity|left; discriminate].
    + apply (Expo_mk [] 69%N [] [] [51%N]); try reflexivity; [now left|discriminate].
Qed.
Example ex_list_run :
  map (fun i => numlist_walk 20 (render ex_list) 0 0 i) [0;1;2] =
    [(EOK, false, (0,1), (0,0)); (EOK, true, (2,1), (4,1)); (EOK, false, (6,6), (6,0))] /\
  code_of (numlist_walk 20 (render ex_list) 0 0 3) = ENOMORE.
Proof. split; vm_compute; reflexivity. Qed.
Print Assumptions numlist_spec.
