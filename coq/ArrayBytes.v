(* C17: the payload of a binary array result is the elements in the requested byte order *)
From Coq Require Import Bool List ZArith Lia.
From M Require Import BufModel.
From M Require Swap.
Import ListNotations.
Local Open Scope Z_scope.

(* little-endian bytes are the byte_of projections *)
Lemma byte_of_div v k : 0 <= k -> Swap.byte_of v k = (v / 256 ^ k) mod 256.
Proof.
  intro Hk. unfold Swap.byte_of. change 255 with (Z.ones 8). rewrite Z.land_ones by lia. rewrite Z.shiftr_div_pow2 by lia.
  replace (2 ^ (8 * k)) with (256 ^ k) by (change 256 with (2 ^ 8); rewrite <- Z.pow_mul_r by lia; reflexivity). reflexivity.
Qed.
Lemma le_bytes_byte_of : forall n v, le_bytes n v = map (fun k => Swap.byte_of v (Z.of_nat k)) (seq 0 n).
Proof.
  induction n as [|n IH]; intro v; [reflexivity|]. cbn [le_bytes seq map]. f_equal.
  - rewrite byte_of_div by lia. cbn. now rewrite Z.div_1_r.
  - rewrite IH. rewrite <- seq_shift, map_map. apply map_ext. intro k. rewrite !byte_of_div by lia.
    rewrite Nat2Z.inj_succ, Z.pow_succ_r by lia. rewrite Z.div_div by lia. reflexivity.
Qed.

Lemma swap16_eq v : swap16 v = Swap.swap16 v. Proof. reflexivity. Qed.
Lemma swap32_eq v : swap32 v = Swap.swap32 v. Proof. reflexivity. Qed.
Lemma swap64_eq v : swap64 v = Swap.swap64 v. Proof. reflexivity. Qed.

(* swapping and then storing in one order = storing the original in the other order *)
Lemma le_swap16 v : 0 <= v < 2^16 -> le_bytes 2 (swap16 v) = be_bytes 2 v.
Proof. intro H. unfold be_bytes. rewrite !le_bytes_byte_of, swap16_eq. destruct (Swap.swap16_bytes v H) as [A B]. cbn [seq map rev app]. change (Z.of_nat 0) with 0. change (Z.of_nat 1) with 1. now rewrite A, B. Qed.
Lemma le_swap32 v : 0 <= v < 2^32 -> le_bytes 4 (swap32 v) = be_bytes 4 v.
Proof.
  intro H. unfold be_bytes. rewrite !le_bytes_byte_of, swap32_eq. cbn [seq map rev app].
  change (Z.of_nat 0) with 0. change (Z.of_nat 1) with 1. change (Z.of_nat 2) with 2. change (Z.of_nat 3) with 3.
  rewrite (Swap.swap32_bytes v 0 H), (Swap.swap32_bytes v 1 H), (Swap.swap32_bytes v 2 H), (Swap.swap32_bytes v 3 H) by lia. reflexivity.
Qed.
Lemma le_swap64 v : 0 <= v < 2^64 -> le_bytes 8 (swap64 v) = be_bytes 8 v.
Proof.
  intro H. unfold be_bytes. rewrite !le_bytes_byte_of, swap64_eq. cbn [seq map rev app].
  change (Z.of_nat 0) with 0. change (Z.of_nat 1) with 1. change (Z.of_nat 2) with 2. change (Z.of_nat 3) with 3.
  change (Z.of_nat 4) with 4. change (Z.of_nat 5) with 5. change (Z.of_nat 6) with 6. change (Z.of_nat 7) with 7.
  rewrite (Swap.swap64_bytes v 0 H), (Swap.swap64_bytes v 1 H), (Swap.swap64_bytes v 2 H), (Swap.swap64_bytes v 3 H),
          (Swap.swap64_bytes v 4 H), (Swap.swap64_bytes v 5 H), (Swap.swap64_bytes v 6 H), (Swap.swap64_bytes v 7 H) by lia. reflexivity.
Qed.

Lemma be_swap n (sw:Z -> Z) v : le_bytes n (sw v) = be_bytes n v -> be_bytes n (sw v) = le_bytes n v.
Proof. intro H. unfold be_bytes in *. rewrite H. apply rev_involutive. Qed.
Lemma size1_same v : be_bytes 1 v = le_bytes 1 v. Proof. reflexivity. Qed.

Definition requested (fmt:Z) (size:nat) (v:Z) : list Z := if fmt =? 1 then be_bytes size v else le_bytes size v.
Definition in_width (size:nat) (v:Z) : Prop := 0 <= v < 2 ^ (8 * Z.of_nat size).

(* SCPI_ResultArray* in binary form: header for count*size bytes, then every element in the requested order,
   whatever the host order and whichever of the two code paths (one block / per-element swap) is taken *)
Lemma flat_map_ext_in (f g:Z -> list Z) (P:Z -> Prop) vals : Forall P vals -> (forall v, P v -> f v = g v) -> flat_map f vals = flat_map g vals.
Proof. intros HF H. induction HF as [|v r Hv Hr IH]; [reflexivity|]. cbn [flat_map]. now rewrite (H v Hv), IH. Qed.

(* the per-element path (requested order differs from the host order) *)
Lemma swapped_le size v : (size = 1 \/ size = 2 \/ size = 4 \/ size = 8)%nat -> in_width size v ->
  le_bytes size (match size with 1%nat => v | 2%nat => swap16 v | 4%nat => swap32 v | _ => swap64 v end) = be_bytes size v.
Proof.
  intros Hs Hv. unfold in_width in Hv. destruct Hs as [-> | [-> | [-> | ->]]].
  - reflexivity.
  - apply le_swap16. exact Hv.
  - apply le_swap32. exact Hv.
  - apply le_swap64. exact Hv.
Qed.
Lemma swapped_be size v : (size = 1 \/ size = 2 \/ size = 4 \/ size = 8)%nat -> in_width size v ->
  be_bytes size (match size with 1%nat => v | 2%nat => swap16 v | 4%nat => swap32 v | _ => swap64 v end) = le_bytes size v.
Proof.
  intros Hs Hv. unfold be_bytes at 1. rewrite (swapped_le size v Hs Hv). unfold be_bytes. apply rev_involutive.
Qed.

(* SCPI_ResultArray* in binary form: header for count*size bytes, then every element in the requested order,
   whatever the host order and whichever of the two code paths (one block / per-element swap) is taken *)
Theorem array_bytes native_le fmt size vals : (fmt = 1 \/ fmt = 2) -> (size = 1 \/ size = 2 \/ size = 4 \/ size = 8)%nat ->
  Forall (in_width size) vals ->
  fst (array_binary native_le fmt size vals) =
  block_header (Z.of_nat (length vals) * Z.of_nat size) ++ flat_map (requested fmt size) vals.
Proof.
  intros Hfmt Hsize Hvals. unfold array_binary, requested.
  destruct native_le; destruct Hfmt as [-> | ->].
  - change (1 =? 2) with false. change (1 =? 1) with true. cbv beta iota. cbn [fst]. f_equal.
    apply (flat_map_ext_in _ _ (in_width size) vals Hvals). intros v Hv. apply swapped_le; assumption.
  - change (2 =? 2) with true. change (2 =? 1) with false. cbv beta iota. cbn [fst]. reflexivity.
  - change (1 =? 1) with true. cbv beta iota. cbn [fst]. reflexivity.
  - change (2 =? 1) with false. cbv beta iota. cbn [fst]. f_equal.
    apply (flat_map_ext_in _ _ (in_width size) vals Hvals). intros v Hv. apply swapped_be; assumption.
Qed.
Print Assumptions array_bytes.

(* the block counts as exactly one result item, also for an empty array in the non-native order (observation 15, fixed) *)
Theorem array_counts_once native_le fmt size vals : snd (array_binary native_le fmt size vals) = 1.
Proof. unfold array_binary. destruct (fmt =? (if native_le then 2 else 1)); reflexivity. Qed.
Print Assumptions array_counts_once.
