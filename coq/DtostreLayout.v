(* C16, custom formatter: the layout stage of SCPI_dtostre, for every digit string and exponent.
   dtostre_layout: for 1..15 digits (not all zero) and every decimal exponent -400..400 the layout model -- the 32-byte work buffer
   with its memmove / memset / trimming loop / exponent field -- yields exactly the %g-style text of those digits (the function
   g_text that the printf model GFmt.fmt_g applies to the digits it chose: fmt_g_is_g_text), and touches no byte outside the buffer.
   g_text_reads_back / dtostre_reads_back: that text is a decimal literal from which the strtod model, whatever delimiter follows,
   extracts exactly digits * 10^(decpt - P): the layout drops no significant digit other than trailing zeros, puts the point and
   the exponent where the value says.  (The digits themselves come from scpi_ecvt, whose accuracy is the recorded finding.) *)
From Coq Require Import Bool List NArith ZArith Lia.
From M Require Import GFmt NumDecode NumSyntax GFmtSpec ILog RtFloat Dtostre DtostreSpec DtostreCases1 DtostreCases2 DtostreCases3.
Import ListNotations.
Local Open Scope Z_scope.

Theorem dtostre_layout P ds k neg : 1 <= P <= 15 -> length ds = Z.to_nat P -> Forall isdig ds -> (exists c, In c ds /\ c <> 48) ->
  -400 <= k <= 400 -> layout ds k P neg = (g_text neg P ds (k - 1), false).
Proof.
  intros HP Hl Hd Hnz Hk.
  assert (HPc : P = 1 \/ P = 2 \/ P = 3 \/ P = 4 \/ P = 5 \/ P = 6 \/ P = 7 \/ P = 8 \/ P = 9 \/ P = 10 \/ P = 11 \/ P = 12 \/ P = 13 \/ P = 14 \/ P = 15) by lia.
  destruct HPc as [-> | [-> | [-> | [-> | [-> | [-> | [-> | [-> | [-> | [-> | [-> | [-> | [-> | [-> | ->]]]]]]]]]]]]]].
  - apply layout_1; assumption.
  - apply layout_2; assumption.
  - apply layout_3; assumption.
  - apply layout_4; assumption.
  - apply layout_5; assumption.
  - apply layout_6; assumption.
  - apply layout_7; assumption.
  - apply layout_8; assumption.
  - apply layout_9; assumption.
  - apply layout_10; assumption.
  - apply layout_11; assumption.
  - apply layout_12; assumption.
  - apply layout_13; assumption.
  - apply layout_14; assumption.
  - apply layout_15; assumption.
Qed.
Print Assumptions dtostre_layout.

Theorem g_text_reads_back P neg ds X rest : 1 <= P <= 17 -> length ds = Z.to_nat P -> Forall isdigZ ds -> 0 < decZ ds ->
  -370 <= X <= 370 -> delim rest ->
  exists N' D', strtod_exact (bzl (g_text neg P ds X) ++ rest) = Some (neg, N', D') /\ 0 < D' /\
                N' * valden (X - P + 1) = valnum (decZ ds) (X - P + 1) * D'.
Proof.
  intros HP Hdl Hdd HDpos HX Hrest. remember (decZ ds) as D eqn:Hdv. symmetry in Hdv. unfold g_text.
  destruct ((X <? P) && (-4 <=? X)) eqn:Estyle.
  - apply andb_true_iff in Estyle as [E1 E2]. apply Z.ltb_lt in E1. apply Z.leb_le in E2.
    destruct (Z.leb_spec 0 X) as [HX0|HX0].
    + (* digits, point, digits *)
      set (ip := firstn (Z.to_nat (X + 1)) ds). set (sk := skipn (Z.to_nat (X + 1)) ds).
      destruct (strip_spec sk) as (j & Ej). set (fp := strip_trailing_zeros sk) in *.
      assert (Eds : ds = (ip ++ fp) ++ repeat 48 j) by (rewrite <- app_assoc, <- Ej; subst ip sk; symmetry; apply firstn_skipn).
      assert (Hipl : length ip = Z.to_nat (X + 1)) by (subst ip; rewrite firstn_length; lia).
      assert (Hskl : (length fp + j = Z.to_nat P - Z.to_nat (X + 1))%nat).
      { assert (length sk = (Z.to_nat P - Z.to_nat (X + 1))%nat) by (subst sk; rewrite skipn_length; lia). rewrite Ej, app_length, repeat_length in H. exact H. }
      assert (Hf : Forall isdigZ ip /\ Forall isdigZ fp).
      { rewrite Eds in Hdd. apply Forall_app in Hdd as [Hdd _]. apply Forall_app in Hdd. exact Hdd. }
      pose proof (read_back neg ip fp None rest D (X - P + 1) (proj1 Hf) (proj2 Hf)) as R. cbv zeta in R.
      rewrite app_nil_r in R. apply R; try exact I; try exact Hrest.
      * intro E. rewrite E in Hipl. cbn in Hipl. lia.
      * lia.
      * lia.
      * exists j. split; [rewrite <- Hdv, Eds; apply decZ_app_zeros|lia].
    + (* 0.000digits *)
      set (zs := repeat 48 (Z.to_nat (- X - 1))). destruct (strip_spec (zs ++ ds)) as (j & Ej). set (fp := strip_trailing_zeros (zs ++ ds)) in *.
      assert (Hlen : (length fp + j = Z.to_nat (- X - 1) + Z.to_nat P)%nat).
      { assert (H : length (zs ++ ds) = (Z.to_nat (- X - 1) + Z.to_nat P)%nat) by (subst zs; rewrite app_length, repeat_length; lia).
        rewrite Ej, app_length, repeat_length in H. exact H. }
      assert (Hfd : Forall isdigZ fp).
      { assert (H : Forall isdigZ (zs ++ ds)) by (apply Forall_app; split; [subst zs; apply Forall_forall; intros x Hx; apply repeat_spec in Hx; subst x; unfold isdigZ; lia|exact Hdd]).
        rewrite Ej in H. apply Forall_app in H. apply H. }
      assert (Hval : D = decZ fp * 10 ^ Z.of_nat j).
      { rewrite <- Hdv. rewrite <- (decZ_zeros_app (Z.to_nat (- X - 1)) ds). fold zs. rewrite Ej. apply decZ_app_zeros. }
      assert (Hfne : fp <> []) by (intro E; rewrite E in Hval; cbn in Hval; lia).
      pose proof (read_back neg [48] fp None rest D (X - P + 1) ltac:(repeat constructor; unfold isdigZ; lia) Hfd ltac:(discriminate) I Hrest) as R.
      cbv zeta in R. rewrite app_nil_r in R.
      assert (Etext : (if neg then [45] else []) ++ [48] ++ match fp with [] => [] | _ :: _ => 46 :: fp end = (if neg then [45] else []) ++ [48; 46] ++ fp)
        by (rewrite (dot_nonempty fp Hfne); reflexivity).
      rewrite Etext in R. apply R.
      * cbn [length]. lia.
      * cbn [length]. lia.
      * exists j. split; [|lia]. change ([48] ++ fp) with (repeat 48 1 ++ fp). rewrite decZ_zeros_app. exact Hval.
  - (* digit, point, digits, exponent *)
    destruct ds as [|h t] eqn:Eh; [cbn in Hdl; lia|]. cbn [hd tl].
    destruct (strip_spec t) as (j & Ej). set (fp := strip_trailing_zeros t) in *.
    assert (Hlen : (length fp + j = Z.to_nat P - 1)%nat).
    { cbn [length] in Hdl. assert (H : length t = (Z.to_nat P - 1)%nat) by lia. rewrite Ej, app_length, repeat_length in H. exact H. }
    pose proof (Forall_inv Hdd) as Hh. pose proof (Forall_inv_tail Hdd) as Ht.
    assert (Hfd : Forall isdigZ fp) by (rewrite Ej in Ht; apply Forall_app in Ht; apply Ht).
    destruct (exp_digits (Z.abs X) ltac:(lia)) as (Hed & Hedn & Hedv). cbv zeta in Hed, Hedn, Hedv.
    set (ed := if Z.abs X <? 10 then [48; 48 + Z.abs X] else if Z.abs X <? 100 then digits_of 2 (Z.abs X) [] else digits_of 3 (Z.abs X) []) in *.
    pose proof (read_back neg [h] fp (Some (X <? 0, ed)) rest D (X - P + 1) ltac:(constructor; [exact Hh|constructor]) Hfd ltac:(discriminate) (conj Hed Hedn) Hrest) as R.
    cbv beta iota zeta in R.
    assert (He : (if X <? 0 then - decZ ed else decZ ed) = X) by (rewrite Hedv; destruct (Z.ltb_spec X 0); lia).
    rewrite He in R.
    assert (Etext : (if neg then [45] else []) ++ [h] ++ match fp with [] => [] | _ :: _ => 46 :: fp end ++ [101] ++ exp_field X =
                    (if neg then [45] else []) ++ [h] ++ match fp with [] => [] | _ :: _ => 46 :: fp end ++ 101 :: (if X <? 0 then 45 else 43) :: ed)
      by reflexivity.
    rewrite Etext. apply R.
    + cbn [length]. lia.
    + cbn [length]. lia.
    + exists j. split; [|cbn [length]; lia]. rewrite <- Hdv. change (h :: t) with ([h] ++ t). rewrite Ej, app_assoc. apply decZ_app_zeros.
Qed.
Print Assumptions g_text_reads_back.

Lemma some_nonzero l : Forall isdigZ l -> 0 < decZ l -> exists c, In c l /\ c <> 48.
Proof.
  intros Hd Hpos.
  assert (H : Forall (fun c => c = 48) l \/ exists c, In c l /\ c <> 48).
  { clear. induction l as [|x l [IH|(c & Hin & Hc)]].
    - left. constructor.
    - destruct (Z.eq_dec x 48) as [->|Hx]; [left; constructor; auto|right; exists x; split; [left; reflexivity|exact Hx]].
    - right. exists c. split; [right; exact Hin|exact Hc]. }
  destruct H as [H|H]; [|exact H]. exfalso.
  assert (E : l = repeat 48 (length l) ++ []).
  { rewrite app_nil_r. clear -H. induction H as [|x l -> _ IH]; [reflexivity|]. cbn [length repeat]. f_equal. exact IH. }
  rewrite E, decZ_zeros_app in Hpos. cbn in Hpos. lia.
Qed.

Theorem dtostre_reads_back P ds k neg rest : 1 <= P <= 15 -> length ds = Z.to_nat P -> Forall isdigZ ds -> 0 < decZ ds ->
  -369 <= k <= 371 -> delim rest ->
  snd (layout ds k P neg) = false /\
  exists N' D', strtod_exact (bzl (fst (layout ds k P neg)) ++ rest) = Some (neg, N', D') /\ 0 < D' /\
                N' * valden (k - P) = valnum (decZ ds) (k - P) * D'.
Proof.
  intros HP Hl Hd Hpos Hk Hrest.
  rewrite (dtostre_layout P ds k neg HP Hl Hd (some_nonzero ds Hd Hpos)) by lia. cbn [fst snd]. split; [reflexivity|].
  replace (k - P) with (k - 1 - P + 1) by lia. apply g_text_reads_back; try assumption; lia.
Qed.
Print Assumptions dtostre_reads_back.

(* the premises are satisfiable and the statement says something: 1.5e+20, -0.00012, 123.4 *)
Example dtostre_demo :
  layout [49;53;48;48] 21 4 false = ([49;46;53;101;43;50;48], false) /\
  layout [49;50;48] (-3) 3 true = ([45;48;46;48;48;48;49;50], false) /\
  layout [49;50;51;52] 3 4 false = ([49;50;51;46;52], false).
Proof. vm_compute. repeat split. Qed.

(* the value zero: scpi_ecvt hands P zeros and exponent 0, the layout answers "0" (with the sign of a negative zero) *)
Theorem dtostre_zero P neg : 1 <= P <= 15 -> layout (repeat 48 (Z.to_nat P)) 0 P neg = ((if neg then [45] else []) ++ [48], false).
Proof.
  intro HP.
  assert (HPc : P = 1 \/ P = 2 \/ P = 3 \/ P = 4 \/ P = 5 \/ P = 6 \/ P = 7 \/ P = 8 \/ P = 9 \/ P = 10 \/ P = 11 \/ P = 12 \/ P = 13 \/ P = 14 \/ P = 15) by lia.
  destruct neg; repeat (destruct HPc as [->|HPc]; [vm_compute; reflexivity|]); subst; vm_compute; reflexivity.
Qed.
Print Assumptions dtostre_zero.
