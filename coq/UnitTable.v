(* C04, table facts re-checked against the generated tables on every run:
   every unit row is found under each casing of its own name, every special mnemonic under each casing of its short and long form *)
From Coq Require Import Bool List NArith ZArith Lia.
From M Require Import MatchModel Generated.
Import ListNotations.
Local Open Scope Z_scope.

(* translateUnit: first row whose name equals the text ignoring case *)
Definition unit_lookup (s:list N) : option (Z * Z) :=
  let fix go (u:list (list N * Z * Z)) := match u with
    | [] => None
    | (nm,un,mult)::r => if compareStr s (Z.of_nat (length s)) nm (Z.of_nat (length nm)) then Some (un,mult) else go r end in go gen_units.
(* all 2^n casings of a name *)
Definition flipcase (c:N) : N := if isupper c then (c + 32)%N else if islower c then (c - 32)%N else c.
Fixpoint casings (l:list N) : list (list N) :=
  match l with [] => [[]] | c::r => let cs := casings r in map (cons c) cs ++ map (cons (flipcase c)) cs end.
Definition row_ok (row:list N * Z * Z) : bool :=
  let '(nm,un,mult) := row in
  forallb (fun s => match unit_lookup s with Some (u,m) => (u =? un) && (m =? mult) | None => false end) (casings nm).
Theorem unit_rows : forallb row_ok gen_units = true.
Proof. vm_compute. reflexivity. Qed.

(* special numbers through matchPattern: short form = upper-case prefix, long form = whole name *)
Definition special_lookup (s:list N) : option Z :=
  let fix go (o:list (list N * Z)) := match o with
    | [] => None
    | (nm,tg)::r => if fst (matchPattern nm (Z.of_nat (length nm)) s (Z.of_nat (length s)) false) then Some tg else go r end in go gen_specials.
Definition short_form (nm:list N) : list N := firstn (Z.to_nat (short_pos (length nm) nm)) nm.
Definition special_ok (row:list N * Z) : bool :=
  let '(nm,tg) := row in
  forallb (fun s => match special_lookup s with Some t => t =? tg | None => false end) (casings nm ++ casings (short_form nm)).
Theorem specials : forallb special_ok gen_specials = true.
Proof. vm_compute. reflexivity. Qed.
Theorem bool_names : forallb (fun row => let '(nm,tg) := row in
    forallb (fun s => existsb (fun r2 => fst (matchPattern (fst r2) (Z.of_nat (length (fst r2))) s (Z.of_nat (length s)) false) && (snd r2 =? tg)) gen_bool_def) (casings nm)) gen_bool_def = true.
Proof. vm_compute. reflexivity. Qed.
Print Assumptions unit_rows.
