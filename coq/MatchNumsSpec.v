(* C03: what a keyword accepts (short or long form, digits only after KEY#), what suffix value it reports, and what the
   numbers array holds on acceptance: for every reading of the header in the pattern's language, the suffixes of that
   reading in keyword order, the caller's default where a suffix was left out or the keyword skipped. *)
From Coq Require Import Bool List NArith ZArith Lia.
From M Require Import MatchModel MatchConc MatchNums.
From M Require MatchAbs MatchLang.
Import ListNotations.
Local Open Scope bool_scope.
Local Open Scope Z_scope.

(* ---------- one keyword ---------- *)
Definition zlen (l:bytes) : Z := Z.of_nat (length l).
Definition shortlen (it:item) : Z := short_pos (length (nm it)) (nm it).
(* s spells the first k letters of the keyword (any case) followed by digits only; digits need KEY# *)
Definition form_ok (it:item) (k:Z) (s:bytes) : bool :=
  (k <=? zlen s) && caseeq (Z.to_nat k) (nm it) s && alldigits (Z.to_nat (zlen s - k)) (dropz k s) && (num it || (k =? zlen s)).
Definition dec (l:bytes) : Z := fold_left (fun a c => a * 10 + (Z.of_N c - 48)) l 0.
Definition suffix_at (k:Z) (s:bytes) : option Z :=
  if k =? zlen s then None else Some (wrap32 (Z.min (dec (dropz k s)) (2^63 - 1))).

Lemma caseeq_nil_r n a b : (n <= length a)%nat -> (n <= length b)%nat -> forall X, caseeq n (a ++ X) b = caseeq n a b.
Proof. intros Ha Hb X. replace (caseeq n (a ++ X) b) with (caseeq n (a ++ X) (b ++ [])) by (now rewrite (app_nil_r b)). now apply caseeq_app. Qed.

Lemma shortlen_le it : 0 <= shortlen it <= zlen (nm it).
Proof. unfold shortlen, zlen. apply short_pos_le. Qed.

Theorem seg_ok_spec it s : okname (nm it) ->
  seg_ok it s = form_ok it (zlen (nm it)) s || form_ok it (shortlen it) s.
Proof.
  intros Hn. pose proof (shortlen_le it) as Hsl. unfold seg_ok, matchPattern, form_ok, zlen in *.
  rewrite <- (app_nil_r (body it)) at 2. rewrite body_last by exact Hn.
  unfold body. destruct (num it) eqn:Hnum; cbn [orb].
  - rewrite app_length. cbn [length]. replace (Z.of_nat (length (nm it) + 1) - 1) with (Z.of_nat (length (nm it))) by lia.
    rewrite Nat2Z.id. rewrite short_pos_app by lia. fold (shortlen it).
    unfold compareStrAndNum. rewrite !andb_true_r.
    assert (E : forall k, 0 <= k <= Z.of_nat (length (nm it)) ->
      fst (if Z.of_nat (length s) <? k then (false, @None Z)
           else if caseeq (Z.to_nat k) (nm it ++ [35%N]) s then (alldigits (Z.to_nat (Z.of_nat (length s) - k)) (dropz k s), None) else (false, None))
      = (k <=? Z.of_nat (length s)) && caseeq (Z.to_nat k) (nm it) s && alldigits (Z.to_nat (Z.of_nat (length s) - k)) (dropz k s)).
    { intros k Hk. destruct (Z.ltb_spec (Z.of_nat (length s)) k), (Z.leb_spec k (Z.of_nat (length s))); try lia; [reflexivity|].
      cbn [andb]. rewrite caseeq_nil_r by lia. destruct (caseeq (Z.to_nat k) (nm it) s); reflexivity. }
    pose proof (E (Z.of_nat (length (nm it))) ltac:(lia)) as E1. pose proof (E (shortlen it) Hsl) as E2.
    destruct (if Z.of_nat (length s) <? Z.of_nat (length (nm it)) then (false, @None Z)
              else if caseeq (Z.to_nat (Z.of_nat (length (nm it)))) (nm it ++ [35%N]) s
                   then (alldigits (Z.to_nat (Z.of_nat (length s) - Z.of_nat (length (nm it)))) (dropz (Z.of_nat (length (nm it))) s), None) else (false, None)) as [r1 v1].
    cbn [fst] in E1. rewrite Nat2Z.id in E1. rewrite <- E1, <- E2. destruct r1; reflexivity.
  - rewrite app_nil_r, Nat2Z.id. fold (shortlen it). cbn [fst]. unfold compareStr.
    assert (E : forall k, (k =? Z.of_nat (length s)) && caseeq (Z.to_nat (Z.of_nat (length s))) (nm it) s =
      (k <=? Z.of_nat (length s)) && caseeq (Z.to_nat k) (nm it) s && alldigits (Z.to_nat (Z.of_nat (length s) - k)) (dropz k s) && (k =? Z.of_nat (length s))).
    { intros k. destruct (Z.eqb_spec k (Z.of_nat (length s))) as [->|]; [|now rewrite !andb_false_r].
      rewrite Z.leb_refl, Z.sub_diag. cbn [andb Z.to_nat alldigits]. now rewrite !andb_true_r. }
    rewrite !E, ?Nat2Z.id. reflexivity.
Qed.

(* value of strtol on a run of digits *)
Lemma digits_val_all r : forall acc n, alldigits (length r) r = true ->
  digits_val r acc n = (fold_left (fun a c => a * 10 + (Z.of_N c - 48)) r acc, n + zlen r).
Proof.
  unfold zlen. induction r as [|c r IH]; intros acc n H; cbn [digits_val fold_left length alldigits] in *.
  - f_equal. lia.
  - apply andb_prop in H as [Hc Hr]. rewrite Hc. rewrite IH by exact Hr. f_equal. lia.
Qed.

Lemma cmpnum_spec p k s : okseg2 s -> 0 <= k ->
  compareStrAndNum p k s (zlen s) true =
  if (k <=? zlen s) && caseeq (Z.to_nat k) p s && alldigits (Z.to_nat (zlen s - k)) (dropz k s)
  then (true, suffix_at k s) else (false, None).
Proof.
  intros Hs H0. pose proof (compareStrAndNum_fst p k s H0 Hs) as Hf. unfold zlen in *.
  unfold compareStrAndNum in *. unfold suffix_at, zlen.
  destruct (Z.ltb_spec (Z.of_nat (length s)) k), (Z.leb_spec k (Z.of_nat (length s))); try lia; [reflexivity|]. cbn [andb].
  destruct (caseeq (Z.to_nat k) p s); [|reflexivity]. cbn [andb].
  destruct (Z.eqb_spec k (Z.of_nat (length s))) as [E|NE].
  - rewrite E, Z.sub_diag. reflexivity.
  - set (r := dropz k s) in *.
    assert (Hlen : Z.of_nat (length r) = Z.of_nat (length s) - k) by (unfold r, dropz; rewrite skipn_length; lia).
    replace (Z.to_nat (Z.of_nat (length s) - k)) with (length r) in * by lia.
    destruct (alldigits (length r) r) eqn:Hall.
    + assert (Hr : okseg2 r) by (apply okseg2_skipn; exact Hs).
      destruct r as [|c r'] eqn:Er; [cbn [length] in Hlen; lia|].
      assert (Ha : alnum c = true) by (unfold okseg2 in Hr; cbn in Hr; now apply andb_prop in Hr as [Hr _]).
      destruct (alnum_facts c Ha) as (Hsp & H45 & H43 & _).
      unfold strtol10. cbn [skip_space]. rewrite Hsp. cbn [hd]. rewrite H45, H43. cbn [orb].
      rewrite digits_val_all by exact Hall. unfold zlen.
      destruct (Z.eqb_spec (0 + Z.of_nat (length (c :: r'))) 0); [lia|].
      destruct (Z.eqb_spec (k + (0 + 0 + (0 + Z.of_nat (length (c :: r'))))) (Z.of_nat (length s))); [|lia].
      cbn [negb]. reflexivity.
    + destruct (strtol10 r) as [used v]. cbn [fst] in Hf.
      destruct (negb (k + used =? Z.of_nat (length s))); [reflexivity|]. cbn [fst] in Hf. discriminate.
Qed.

Definition sval (it:item) (s:bytes) : option Z := snd (seg_res it s true).
Definition fo (it:item) (k:Z) (s:bytes) : bool :=
  (k <=? zlen s) && caseeq (Z.to_nat k) (nm it) s && alldigits (Z.to_nat (zlen s - k)) (dropz k s).
Theorem sval_spec it s : okname (nm it) -> num it = true -> okseg2 s ->
  sval it s = if fo it (zlen (nm it)) s then suffix_at (zlen (nm it)) s
              else if fo it (shortlen it) s then suffix_at (shortlen it) s else None.
Proof.
  intros Hn Hnum Hs. pose proof (shortlen_le it) as Hsl. unfold sval, seg_res, matchPattern, fo.
  rewrite <- (app_nil_r (body it)) at 2. rewrite body_last by exact Hn. rewrite Hnum.
  unfold body. rewrite Hnum. rewrite app_length. cbn [length].
  replace (Z.of_nat (length (nm it) + 1) - 1) with (zlen (nm it)) by (unfold zlen; lia).
  unfold zlen at 2. rewrite Nat2Z.id. rewrite short_pos_app by lia. fold (shortlen it). fold (zlen s).
  rewrite !cmpnum_spec by (try assumption; unfold zlen in *; lia).
  assert (C : forall k, 0 <= k <= zlen (nm it) ->
    (k <=? zlen s) && caseeq (Z.to_nat k) (nm it ++ [35%N]) s = (k <=? zlen s) && caseeq (Z.to_nat k) (nm it) s).
  { intros k Hk. destruct (Z.leb_spec k (zlen s)); [|reflexivity]. cbn [andb]. apply caseeq_nil_r; unfold zlen in *; lia. }
  rewrite !C by (unfold zlen in *; lia).
  destruct ((zlen (nm it) <=? zlen s) && caseeq (Z.to_nat (zlen (nm it))) (nm it) s && alldigits (Z.to_nat (zlen s - zlen (nm it))) (dropz (zlen (nm it)) s)); [reflexivity|].
  destruct ((shortlen it <=? zlen s) && caseeq (Z.to_nat (shortlen it)) (nm it) s && alldigits (Z.to_nat (zlen s - shortlen it)) (dropz (shortlen it) s)); reflexivity.
Qed.

(* ---------- readings of a header and what they say about suffixes ---------- *)
(* a reading says, keyword by keyword, whether the keyword takes the next segment (true) or is left out (false) *)
Fixpoint reads (its:list item) (ss:list bytes) (ch:list bool) : bool :=
  match its, ch with
  | [], [] => match ss with [] => true | _ => false end
  | it :: its', true :: ch' => match ss with s :: ss' => seg_ok it s && reads its' ss' ch' | [] => false end
  | it :: its', false :: ch' => opt it && reads its' ss ch'
  | _, _ => false
  end.
(* the suffix of every KEY# in keyword order: Some v as written, None where the digits or the keyword were left out *)
Fixpoint suffixes (its:list item) (ss:list bytes) (ch:list bool) : list (option Z) :=
  match its, ch with
  | it :: its', true :: ch' =>
      match ss with s :: ss' => (if num it then [sval it s] else []) ++ suffixes its' ss' ch' | [] => [] end
  | it :: its', false :: ch' => (if num it then [None] else []) ++ suffixes its' ss ch'
  | _, _ => []
  end.
(* storing the reports into the caller's array from index nidx on; reports beyond its capacity are dropped *)
Fixpoint store (evs:list (option Z)) (nums:option (list Z)) (nidx dflt:Z) : option (list Z) :=
  match evs with
  | [] => nums
  | e :: r => store r (if hasslot nums nidx then setnum nums nidx (match e with Some v => v | None => dflt end) else nums) (nidx + 1) dflt
  end.

Lemma setnum_twice nums i a b : setnum (setnum nums i a) i b = setnum nums i b.
Proof.
  destruct nums as [l|]; [|reflexivity]. cbn [setnum].
  destruct ((0 <=? i) && (i <? Z.of_nat (length l))) eqn:E; cbn [setnum]; [|now rewrite E].
  apply andb_prop in E as [E1 E2]. apply Z.leb_le in E1. apply Z.ltb_lt in E2.
  assert (Hlen : length (firstn (Z.to_nat i) l ++ a :: skipn (S (Z.to_nat i)) l) = length l).
  { rewrite app_length, firstn_length. cbn [length]. rewrite skipn_length. lia. }
  rewrite Hlen. destruct (Z.leb_spec 0 i), (Z.ltb_spec i (Z.of_nat (length l))); try lia. cbn [andb]. f_equal.
  assert (Hf : length (firstn (Z.to_nat i) l) = Z.to_nat i) by (rewrite firstn_length; lia).
  assert (K : forall (p X:list Z) x, skipn (S (length p)) (p ++ x :: X) = X) by (induction p as [|y p IHp]; intros X x; [reflexivity|apply IHp]).
  rewrite firstn_app, Hf, Nat.sub_diag. cbn [firstn]. rewrite app_nil_r, firstn_firstn, Nat.min_id. f_equal. f_equal.
  set (p := firstn (Z.to_nat i) l) in *. set (X := skipn (S (Z.to_nat i)) l). rewrite <- Hf. apply K.
Qed.

Lemma abs_first its s : MatchAbs.first_ok bytes (map MatchLang.abs_item its) s =
  match its with [] => false | it :: r => seg_ok it s || (opt it && MatchAbs.first_ok bytes (map MatchLang.abs_item r) s) end.
Proof. destruct its; reflexivity. Qed.

Lemma reads_first its : forall s ss ch, reads its (s :: ss) ch = true -> MatchAbs.first_ok bytes (map MatchLang.abs_item its) s = true.
Proof.
  induction its as [|it its IH]; intros s ss ch H; destruct ch as [|[|] ch]; cbn [reads] in H; try discriminate.
  - rewrite abs_first. apply andb_prop in H as [H _]. now rewrite H.
  - rewrite abs_first. apply andb_prop in H as [Ho H]. rewrite Ho, (IH _ _ _ H). now rewrite orb_true_r.
Qed.

Lemma reads_nil its : forall ch nums nidx dflt, reads its [] ch = true ->
  store (suffixes its [] ch) nums nidx dflt = defaults its nums nidx dflt.
Proof.
  induction its as [|it its IH]; intros ch nums nidx dflt H; destruct ch as [|[|] ch]; cbn [reads] in H; try discriminate; [reflexivity|].
  apply andb_prop in H as [_ H]. cbn [suffixes defaults]. unfold dflt1, nidx1, slot_of.
  destruct (num it); cbn [app store andb]; now apply IH.
Qed.

(* the array of the greedy walk is the array of the reading, whichever reading the header has *)
Theorem greedyN_reads its : forall ss ch nums nidx dflt,
  MatchAbs.unamb bytes (map MatchLang.abs_item its) -> reads its ss ch = true ->
  greedyN its ss nums nidx dflt = store (suffixes its ss ch) nums nidx dflt.
Proof.
  induction its as [|it its IH]; intros ss ch nums nidx dflt U H.
  - destruct ch; cbn [reads] in H; [|discriminate]. reflexivity.
  - cbn [map MatchAbs.unamb] in U. destruct U as [U1 U2]. cbn [MatchLang.abs_item MatchAbs.ok MatchAbs.opt] in U1.
    destruct ch as [|[|] ch]; cbn [reads] in H; try discriminate.
    + (* the keyword takes the segment *)
      destruct ss as [|s ss']; [discriminate|]. apply andb_prop in H as [Hok H].
      cbn [greedyN suffixes]. rewrite Hok. rewrite (IH ss' ch _ _ _ U2 H).
      unfold upd, dflt1, nidx1, slot_of, sval. destruct (num it) eqn:Hnum; cbn [app store andb]; [|destruct (snd (seg_res it s false)); reflexivity].
      destruct (hasslot nums nidx) eqn:Hs; [|destruct (snd (seg_res it s false)); reflexivity].
      destruct (snd (seg_res it s true)); [now rewrite setnum_twice|reflexivity].
    + (* the keyword is left out *)
      apply andb_prop in H as [Ho H]. destruct ss as [|s ss'].
      * cbn [greedyN]. symmetry. apply (reads_nil (it :: its) (false :: ch)). cbn [reads]. now rewrite Ho, H.
      * cbn [greedyN suffixes]. destruct (seg_ok it s) eqn:Hok.
        -- pose proof (reads_first its s ss' ch H) as Hf. rewrite (U1 Ho s Hok) in Hf. discriminate.
        -- rewrite (IH (s :: ss') ch _ _ _ U2 H). unfold dflt1, nidx1, slot_of.
           destruct (num it); cbn [app store andb]; reflexivity.
Qed.

(* a header is in the language exactly when it has a reading *)
Lemma accepts_reads its : forall ss, MatchAbs.accepts bytes (map MatchLang.abs_item its) ss = true <-> exists ch, reads its ss ch = true.
Proof.
  induction its as [|it its IH]; intros ss; cbn [map MatchAbs.accepts].
  - split.
    + intros H. exists []. destruct ss; [reflexivity|discriminate].
    + intros [ch H]. destruct ch; cbn [reads] in H; [destruct ss; [reflexivity|discriminate]|discriminate].
  - cbn [MatchLang.abs_item MatchAbs.ok MatchAbs.opt]. split.
    + intros H. apply orb_true_iff in H as [H|H].
      * destruct ss as [|s ss']; [discriminate|]. apply andb_prop in H as [Hok H]. apply IH in H as [ch H].
        exists (true :: ch). cbn [reads]. now rewrite Hok, H.
      * apply andb_prop in H as [Ho H]. apply IH in H as [ch H]. exists (false :: ch). cbn [reads]. now rewrite Ho, H.
    + intros [ch H]. destruct ch as [|[|] ch]; cbn [reads] in H; try discriminate.
      * destruct ss as [|s ss']; [discriminate|]. apply andb_prop in H as [Hok H]. rewrite Hok. cbn [andb].
        rewrite (proj2 (IH ss') (ex_intro _ ch H)). reflexivity.
      * apply andb_prop in H as [Ho H]. rewrite Ho. cbn [andb]. rewrite (proj2 (IH ss) (ex_intro _ ch H)). now rewrite orb_true_r.
Qed.

(* C03, numbers clause: on acceptance the array holds the suffixes of the header's reading, in keyword order *)
Theorem match_numbers it its q lead seg ss hq dflt a ch :
  okname (nm it) -> wf its -> okseg2 seg -> Forall okseg2 ss -> seg <> [] ->
  (q = false -> hq = false) -> MatchLang.unambiguous it its ->
  (negb q || hq) = true -> reads (it :: its) (seg :: ss) ch = true ->
  matchCommand (render it its q) (hdr lead seg ss hq) (Some a) dflt =
  Res true (store (suffixes (it :: its) (seg :: ss) ch) (Some a) 0 dflt).
Proof.
  intros Hn Hw Hs Hss Hne Hqq U Hq Hr.
  destruct (match_top_nums it its q lead seg ss hq dflt (Some a) Hn Hw Hs Hss Hne Hqq) as [Hb Hnn].
  assert (Hg : greedy (it :: its) (seg :: ss) = true).
  { rewrite MatchLang.greedy_abs. rewrite (MatchAbs.greedy_accepts bytes _ U). apply accepts_reads. now exists ch. }
  rewrite Hq, Hg in Hb, Hnn. cbn [andb] in Hb, Hnn. specialize (Hnn eq_refl).
  destruct (matchCommand (render it its q) (hdr lead seg ss hq) (Some a) dflt) as [b n]. cbn [resb resn] in Hb, Hnn. subst b n.
  f_equal. now apply greedyN_reads.
Qed.
Print Assumptions match_numbers.

(* non-vacuity: TRIGger#[:SEQuence#][:LEVel#]  against  TRIG2:LEV7  with an array of three and default -1 *)
Definition b (s:list Z) : bytes := map Z.to_N s.
Example ex_items : list item :=
  [ {| nm := b [83;69;81;117;101;110;99;101]; opt := true; num := true |};
    {| nm := b [76;69;86;101;108]; opt := true; num := true |} ].
Example ex_first : item := {| nm := b [84;82;73;71;103;101;114]; opt := false; num := true |}.
Example ex_numbers :
  matchCommand (render ex_first ex_items false) (hdr false (b [84;82;73;71;50]) [b [76;69;86;55]] false) (Some [-99;-99;-99]) (-1)
  = Res true (Some [2; -1; 7])
  /\ reads (ex_first :: ex_items) [b [84;82;73;71;50]; b [76;69;86;55]] [true; false; true] = true
  /\ store (suffixes (ex_first :: ex_items) [b [84;82;73;71;50]; b [76;69;86;55]] [true; false; true]) (Some [-99;-99;-99]) 0 (-1) = Some [2; -1; 7].
Proof. vm_compute. repeat split. Qed.
