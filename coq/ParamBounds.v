(* C01 / C05: SCPI_Parameter stays inside the parameter window of the unit.  If the window [pd_off, pd_off + pd_len) lies inside the
   input buffer and the cursor inside the window, then after the call the cursor is still inside the window, and the token
   handed to the reader (when there is one) lies inside the window -- hence inside the buffer. *)
From Coq Require Import Bool List NArith ZArith Lia.
From M Require LexModel MatchModel FmtModel LexBounds UnitProgress Dispatch LexTok ParseLocal.
From M Require Import ParserModel.
Import ListNotations.
Local Open Scope Z_scope.

Definition window_ok (c:ctx) : Prop :=
  0 <= pd_off c /\ 0 <= pd_len c /\ pd_off c + pd_len c <= Z.of_nat (length (mem c)) /\ 0 <= pd_pos c <= pd_len c.

Lemma error_push_window c code info : window_ok c -> window_ok (error_push c code info).
Proof. unfold window_ok, error_push. destruct (_ =? qcap c); cbn [mem pd_off pd_len pd_pos ev upd_err]; auto. Qed.

Theorem parameter_window c m : window_ok c ->
  window_ok (fst (fst (parameter c m))) /\
  (snd (fst (parameter c m)) = true ->
   let t := snd (parameter c m) in
   pd_off c <= LexModel.ptr t /\ 0 <= LexModel.len t /\ LexModel.ptr t + LexModel.len t <= pd_off c + pd_len c).
Proof.
  intros (W1 & W2 & W3 & W4). unfold parameter.
  destruct (Z.leb_spec (pd_len c) (pd_pos c)) as [Hle|Hlt].
  - destruct m; cbn [fst snd]; (split; [|discriminate]); [apply error_push_window|]; unfold window_ok; auto.
  - set (region := slice (mem c) (pd_off c) (pd_len c)).
    assert (Hreg : length region = Z.to_nat (pd_len c)) by (apply Dispatch.slice_length; lia).
    assert (G : forall pos, 0 <= pos <= pd_len c ->
      let X := (let r := LexModel.parse_program_data (dropm region pos) in
       let c1 := upd_in c (input_count c + 1) (pos + LexModel.disp r) in
       let t := LexModel.tok r in
        if tok_valid (LexModel.ty t)
        then (c1, true, {| LexModel.ty := LexModel.ty t; LexModel.ptr := pd_off c + pos + LexModel.ptr t; LexModel.len := LexModel.len t |})
        else (error_push c1 (-151) None, false, {| LexModel.ty := LexModel.T_UNKNOWN; LexModel.ptr := 0; LexModel.len := 0 |})) in
      window_ok (fst (fst X)) /\
      (snd (fst X) = true -> pd_off c <= LexModel.ptr (snd X) /\ 0 <= LexModel.len (snd X) /\ LexModel.ptr (snd X) + LexModel.len (snd X) <= pd_off c + pd_len c)).
    { intros pos Hpos. cbv zeta.
      pose proof (LexTok.ppd_tok (dropm region pos)) as Ht. cbv zeta in Ht.
      pose proof (UnitProgress.ppd_disp (dropm region pos)) as Hd.
      assert (Hdl : Z.of_nat (length (dropm region pos)) = pd_len c - pos) by (unfold dropm; rewrite skipn_length, Hreg; lia).
      unfold LexModel.bytes, LexModel.byte in Ht, Hd. rewrite Hdl in Ht, Hd. destruct Ht as (T1 & T2 & T3 & _).
      assert (Hw : window_ok (upd_in c (input_count c + 1) (pos + LexModel.disp (LexModel.parse_program_data (dropm region pos)))))
        by (unfold window_ok; cbn [mem pd_off pd_len pd_pos upd_in]; repeat split; lia).
      destruct (tok_valid _); cbn [fst snd].
      - split; [exact Hw|]. intros _. cbn [LexModel.ptr LexModel.len]. lia.
      - split; [apply error_push_window, Hw|discriminate]. }
    cbv zeta in G. cbv zeta. destruct (negb (input_count c =? 0)).
    + destruct (LexModel.ret _ =? 0).
      * cbn [fst snd]. split; [apply error_push_window; unfold window_ok; auto|discriminate].
      * apply G. lia.
    + apply G. lia.
Qed.
Print Assumptions parameter_window.

(* the window a unit hands to its handler lies inside the unit, hence inside the buffer *)
Theorem unit_window c e off len hp hl : 0 <= off -> 0 <= len -> off + len <= Z.of_nat (length (mem c)) ->
  let d := LexModel.u_data (LexModel.detect_unit (slice (mem c) off len)) in
  window_ok (upd_unit c e (off + LexModel.ptr d) (LexModel.len d) hp hl) /\
  off <= off + LexModel.ptr d /\ off + LexModel.ptr d + LexModel.len d <= off + len.
Proof.
  intros Hoff Hlen Hfit. cbv zeta.
  pose proof (LexTok.data_inside_unit (slice (mem c) off len)) as Hd. cbv zeta in Hd.
  assert (Hsl : length (slice (mem c) off len) = Z.to_nat len) by (apply Dispatch.slice_length; lia).
  unfold LexModel.bytes, LexModel.byte in Hd. rewrite Hsl in Hd.
  set (d := LexModel.u_data (LexModel.detect_unit (slice (mem c) off len))) in *.
  unfold window_ok. cbn [mem pd_off pd_len pd_pos upd_unit]. repeat split; lia.
Qed.
Print Assumptions unit_window.
