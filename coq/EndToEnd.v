(* A vertical slice through the whole model: a message  HEADER <blanks> v1 , v2 , ... <newline>  whose header selects a
   command whose handler reads an array of unsigned 32-bit integers.  SCPI_Parse recognises the unit, runs that handler once
   with the header as written, the handler receives exactly the values written (any white space around the commas), nothing
   is queued, nothing is written, and the call reports success. *)
From Coq Require Import Bool List NArith ZArith Lia.
From M Require Import LexModel LexBounds DecSpec MoreSpecs NumList SimpleSpecs ListWs HdrSpec UnitSpec UnitFull.
From M Require Import ParserModel ParamList ArrayRoundTrip.
From M Require StrTo.
Import ListNotations.
Local Open Scope Z_scope.

Lemma upd_in_fields c ic pos : cmd_error (upd_in c ic pos) = cmd_error c /\ output_count (upd_in c ic pos) = output_count c /\
  trace (upd_in c ic pos) = trace c /\ queue (upd_in c ic pos) = queue c /\ mem (upd_in c ic pos) = mem c /\
  first_output (upd_in c ic pos) = first_output c /\ cmds (upd_in c ic pos) = cmds c /\ arb_rem (upd_in c ic pos) = arb_rem c.
Proof. repeat split. Qed.

(* the handler: processCommand on a unit whose data region is the list *)
Lemma process_reads c d pat tag cap m items : cur c = Some (pat, tag, [PARR 14 cap m]) ->
  Forall uint_item items -> items <> [] ->
  slice (mem c) (pd_off c) (pd_len c) = list_text items -> pd_len c = Z.of_nat (length (list_text items)) -> pd_pos c = 0 ->
  tail_ok c -> (length items <= Z.to_nat cap)%nat ->
  exists c', process_command c d = (c', true) /\
    trace c' = EvP 14 true (map value_of items) :: EvH tag (slice (mem c) (raw_off c) (raw_len c)) :: trace c /\
    queue c' = queue c /\ mem c' = mem c /\ first_output c' = first_output c /\ cmds c' = cmds c.
Proof.
  intros Hcur Hall Hne Hreg Hlen Hpos Htl Hcap.
  unfold process_command. rewrite Hcur.
  set (c1 := upd_flags c false 0 0 0).
  set (c2 := ev c1 (EvH tag (slice (mem c1) (raw_off c1) (raw_len c1)))).
  assert (Hat : at_item c2 items 0) by (unfold at_item; cbn [mem pd_off pd_len input_count pd_pos ev upd_flags c2 c1]; repeat split; assumption).
  assert (Htl2 : tail_ok c2) by exact Htl.
  assert (Hn : Z.to_nat cap <> O) by (destruct items; [congruence|cbn [length] in Hcap; lia]).
  destruct (read_uint_array items (Z.to_nat cap) c2 m Hall Hne Hat Htl2 Hn) as (c3 & Hp & (ic & pos & Ec3) & Hfin).
  cbn [run_script]. rewrite Hp. cbn [negb].
  rewrite firstn_all2 by lia.
  rewrite Nat.min_r in Hfin by lia.
  destruct Hfin as (_ & Hlen3 & _ & Hpos3).
  assert (Hpos3' : pd_pos c3 = pd_len c3).
  { rewrite Hpos3, Hlen3. destruct (length items) eqn:El; [destruct items; [congruence|discriminate]|]. rewrite <- El. rewrite item_off_len by exact Hne. lia. }
  set (c4 := ev c3 (EvP 14 true (map value_of items))).
  assert (Hce : cmd_error c4 = false) by (unfold c4; rewrite Ec3; reflexivity).
  assert (Hoc : output_count c4 = 0) by (unfold c4; rewrite Ec3; reflexivity).
  unfold after_read. cbn [orb]. cbn [run_script negb]. rewrite Hce. rewrite Hoc. cbn [Z.ltb Z.compare].
  assert (Hpp : (pd_pos c4 <? pd_len c4) = false) by (apply Z.ltb_ge; unfold c4; cbn [pd_pos pd_len ev]; lia).
  rewrite Hpp. cbn [andb].
  exists c4. split; [reflexivity|]. unfold c4. rewrite Ec3. cbn [trace queue mem first_output cmds ev upd_in c2 c1 upd_flags]. repeat split.
Qed.

Lemma slice_all (m:bytes) : slice m 0 (Z.of_nat (length m)) = m.
Proof. unfold slice. rewrite Nat2Z.id. cbn [Z.to_nat skipn]. apply firstn_all. Qed.
Lemma slice_pre (a x:bytes) : slice (a ++ x) 0 (Z.of_nat (length a)) = a.
Proof. unfold slice. rewrite Nat2Z.id. cbn [Z.to_nat skipn]. rewrite firstn_app, Nat.sub_diag, firstn_all. cbn [firstn]. apply app_nil_r. Qed.
Lemma slice_mid (a b x:bytes) : slice (a ++ b ++ x) (Z.of_nat (length a)) (Z.of_nat (length b)) = b.
Proof. unfold slice. rewrite !Nat2Z.id. rewrite skipn_app, Nat.sub_diag, skipn_all. cbn [skipn app]. rewrite firstn_app, Nat.sub_diag, firstn_all. cbn [firstn]. apply app_nil_r. Qed.
Lemma upd_mem_same c : upd_mem c (mem c) = c. Proof. destruct c; reflexivity. Qed.
Lemma find_cmd_cmds c c' h : cmds c' = cmds c -> find_cmd c' h = find_cmd c h.
Proof. intro H. unfold find_cmd. now rewrite H. Qed.

Theorem message_reads_array c d lead m1 ms (q:bool) ws1 items hdr l pat tag cap m :
  Mnem m1 -> Forall Mnem ms -> ws1 <> [] -> all isws ws1 -> Forall uint_item items -> items <> [] -> first_tight items ->
  hdr = header_text lead m1 ms ++ (if q then [63%N] else []) ->
  l = hdr ++ ws1 ++ list_text items ++ [10%N] ->
  mem c = l -> find_cmd c hdr = Some (pat, tag, [PARR 14 cap m]) -> (length items <= Z.to_nat cap)%nat ->
  exists c', scpi_parse c (Z.of_nat (length l)) d = (c', true) /\
    trace c' = EvP 14 true (map value_of items) :: EvH tag hdr :: trace c /\ queue c' = queue c /\ mem c' = mem c.
Proof.
  intros Hm1 Hms Hwne Hws Hall Hne Hft Ehdr El Hmem Hfind Hcap.
  assert (Hok : Forall item_ok items) by (eapply Forall_impl; [|exact Hall]; apply uint_item_ok).
  pose proof (unit_complete_full lead m1 ms q ws1 items [10%N] hdr l Hm1 Hms Hwne Hws Hok Hne Hft
                ltac:(right; exists []; right; reflexivity) Ehdr El) as HU. cbn zeta in HU.
  destruct HU as (U1 & U2 & U3 & U4 & U5 & U6 & U7 & U8).
  assert (Hhl : 0 < Z.of_nat (length hdr)).
  { rewrite Ehdr. unfold header_text. destruct Hm1 as (c0 & r0 & -> & _). rewrite !app_length. cbn [length]. lia. }
  assert (Hlen : Z.of_nat (length l) = Z.of_nat (length hdr) + Z.of_nat (length ws1) + Z.of_nat (length (list_text items)) + 1).
  { rewrite El, !app_length. cbn [length]. lia. }
  unfold scpi_parse.
  set (c0 := upd_out c true 0 (arb_rem c)).
  assert (Hm0 : mem c0 = l) by exact Hmem.
  replace (S (Z.to_nat (Z.of_nat (length l)))) with (S (length l)) by lia.
  cbn [parse_loop]. rewrite Hm0, slice_all.
  set (u := detect_unit l) in *.
  (* the header is not INVALID and not empty *)
  assert (Hbranch : forall (A:Type) (x y:A), match ty (u_hdr u) with T_INVALID => x | _ => y end = y) by (intros; rewrite U1; destruct q; reflexivity).
  rewrite Hbranch. rewrite U3. destruct (Z.ltb_spec 0 (Z.of_nat (length hdr))); [|lia].
  rewrite U2. cbn [compose]. assert (Hu : upd_mem c0 l = c0) by (rewrite <- Hm0; apply upd_mem_same). rewrite Hu.
  rewrite Z.add_0_l.
  assert (Hsl : slice l 0 (Z.of_nat (length hdr)) = hdr) by (rewrite El; apply slice_pre).
  rewrite Hsl. rewrite (find_cmd_cmds c c0 hdr eq_refl), Hfind.
  set (c2 := upd_unit c0 (pat, tag, [PARR 14 cap m]) (0 + ptr (u_data u)) (len (u_data u)) 0 (Z.of_nat (length hdr))).
  destruct (process_reads c2 d pat tag cap m items eq_refl Hall Hne) as (c3 & Hp & Htr & Hq & Hmm & Hfo & Hcm).
  - cbn [mem pd_off pd_len upd_unit c2]. rewrite Hm0, U4, U5, Z.add_0_l, El.
    replace (Z.of_nat (length hdr) + Z.of_nat (length ws1)) with (Z.of_nat (length (hdr ++ ws1))) by (rewrite app_length; lia).
    rewrite app_assoc. apply slice_mid.
  - cbn [pd_len upd_unit c2]. exact U5.
  - reflexivity.
  - unfold tail_ok. cbn [mem pd_off pd_len upd_unit c2]. rewrite U4, U5, Z.add_0_l, Hm0. split; [lia|].
    assert (Hd : dropm l (Z.of_nat (length hdr) + Z.of_nat (length ws1) + Z.of_nat (length (list_text items))) = [10%N]).
    { rewrite El. replace (Z.of_nat (length hdr) + Z.of_nat (length ws1) + Z.of_nat (length (list_text items))) with (Z.of_nat (length (hdr ++ ws1 ++ list_text items))) by (rewrite !app_length; lia).
      rewrite !app_assoc. rewrite <- !app_assoc. rewrite (app_assoc hdr), (app_assoc (hdr ++ ws1)). rewrite <- !app_assoc. 
      replace (hdr ++ ws1 ++ list_text items ++ [10%N]) with ((hdr ++ ws1 ++ list_text items) ++ [10%N]) by (now rewrite <- !app_assoc).
      apply dropm_app. }
    rewrite Hd. reflexivity.
  - exact Hcap.
  - rewrite Hp. rewrite U7. cbn [andb].
    destruct (Z.ltb_spec (Z.of_nat (length hdr) + Z.of_nat (length ws1) + Z.of_nat (length (list_text items)) + 1) (Z.of_nat (length l))); [lia|].
    assert (Hfo3 : first_output c3 = true) by (rewrite Hfo; reflexivity).
    rewrite Hfo3. cbn [negb].
    eexists. split; [reflexivity|]. cbn [trace queue mem upd_out]. rewrite Htr, Hq, Hmm. cbn [mem raw_off raw_len upd_unit c2 trace queue c0 upd_out].
    rewrite Hmem, Hsl. repeat split.
Qed.
Print Assumptions message_reads_array.

(* non-vacuity: "MEAS:ARR 12 ,7\n" against the table [MEASure:ARRay -> read up to 4 values] *)
Definition s2b (l:list Z) : bytes := map Z.to_N l.
Example e2e_ctx : ctx :=
  {| cmds := [(s2b [77;69;65;83;117;114;101;58;65;82;82;97;121], 3, [PARR 14 4 true])];
     mem := s2b [77;69;65;83;58;65;82;82;32;49;50;32;44;55;10]; cap := 64; first_output := true; output_count := 0; input_count := 0; cmd_error := false; arb_rem := 0;
     pd_off := 0; pd_len := 0; pd_pos := 0; cur := None; raw_off := 0; raw_len := 0; queue := []; qcap := 2; qma := false; trace := [] |}.
Example e2e_run : let '(c', r) := scpi_parse e2e_ctx 15 (fun _ => []) in
  r = true /\ trace c' = [EvP 14 true [12; 7]; EvH 3 (s2b [77;69;65;83;58;65;82;82])] /\ queue c' = [] /\
  find_cmd e2e_ctx (s2b [77;69;65;83;58;65;82;82]) = Some (s2b [77;69;65;83;117;114;101;58;65;82;82;97;121], 3, [PARR 14 4 true]).
Proof. vm_compute. repeat split. Qed.
