(* Draft model of ieee488.c SCPI_RegSet and friends, error.c classification, and the status commands. *)
From Coq Require Import Bool List NArith ZArith Lia.
From M Require Generated.
Import ListNotations.
Local Open Scope N_scope.
Local Open Scope bool_scope.

Inductive reg := STB | SRE | ESR | ESE | OPER | OPERE | OPERC | QUES | QUESE | QUESC.
Inductive rclass := C_STB | C_SRE | C_EVEN | C_ENAB | C_COND.
Record ginfo := { g_event:reg; g_enable:option reg; g_cond:option reg; g_parent:option reg; g_bit:N }.
(* these two tables are what the translator regenerates from scpi_reg_details / scpi_reg_group_details *)
Definition details (r:reg) : rclass * ginfo :=
  let gS := {| g_event:=STB; g_enable:=Some SRE; g_cond:=None; g_parent:=None; g_bit:=0 |} in
  let gE := {| g_event:=ESR; g_enable:=Some ESE; g_cond:=None; g_parent:=Some STB; g_bit:=32 |} in
  let gO := {| g_event:=OPER; g_enable:=Some OPERE; g_cond:=Some OPERC; g_parent:=Some STB; g_bit:=128 |} in
  let gQ := {| g_event:=QUES; g_enable:=Some QUESE; g_cond:=Some QUESC; g_parent:=Some STB; g_bit:=8 |} in
  match r with STB => (C_STB,gS) | SRE => (C_SRE,gS) | ESR => (C_EVEN,gE) | ESE => (C_ENAB,gE)
  | OPER => (C_EVEN,gO) | OPERE => (C_ENAB,gO) | OPERC => (C_COND,gO)
  | QUES => (C_EVEN,gQ) | QUESE => (C_ENAB,gQ) | QUESC => (C_COND,gQ) end.
Definition regs := reg -> N.
Definition reg_eqb (a b:reg) : bool := match a,b with STB,STB|SRE,SRE|ESR,ESR|ESE,ESE|OPER,OPER|OPERE,OPERE|OPERC,OPERC|QUES,QUES|QUESE,QUESE|QUESC,QUESC => true | _,_ => false end.
Definition set (s:regs) (r:reg) (v:N) : regs := fun r' => if reg_eqb r r' then v else s r'.
Definition SRQ := 64.
Definition QMA := 4.
Definition u16 (v:N) := v mod 65536.

(* SCPI_RegSet; cb = SRQ callbacks issued (value of STB), most recent last *)
Fixpoint regset (fuel:nat) (s:regs) (name:reg) (val:N) (cb:list N) : regs * list N :=
  match fuel with O => (s,cb) | S f =>
  let '(cls,gi) := details name in
  let old := s name in
  if old =? val then (s,cb) else
  let s1 := set s name val in
  match cls with
  | C_STB | C_SRE =>
      let stb := N.ldiff (s1 STB) SRQ in let sre := N.ldiff (s1 SRE) SRQ in
      if negb (N.land stb sre =? 0) then
        let ptrans := N.land (N.lxor old val) val in
        let s2 := set s1 STB (N.lor (s1 STB) SRQ) in
        (s2, if negb (N.land ptrans val =? 0) then cb ++ [s2 STB] else cb)
      else (set s1 STB (N.ldiff (s1 STB) SRQ), cb)
  | C_EVEN =>
      let en := match g_enable gi with Some e => s1 e | None => 65535 end in
      let summary := negb (N.land val en =? 0) in
      match g_parent gi with None => (s1,cb) | Some p =>
        regset f s1 p (if summary then N.lor (s1 p) (g_bit gi) else N.ldiff (s1 p) (g_bit gi)) cb end
  | C_COND =>
      regset f s1 (g_event gi) (N.lor (N.land (N.lxor old val) val) (s1 (g_event gi))) cb
  | C_ENAB =>
      (* fix: recompute the summary bit of the parent from event & new enable *)
      let summary := negb (N.land (s1 (g_event gi)) val =? 0) in
      match g_parent gi with None => (s1,cb) | Some p =>
        regset f s1 p (if summary then N.lor (s1 p) (g_bit gi) else N.ldiff (s1 p) (g_bit gi)) cb end
  end end.
Definition RegSet s r v cb := regset 4 s r (u16 v) cb.
Definition RegSetBits s r b cb := RegSet s r (N.lor (s r) b) cb.
Definition RegClearBits s r b cb := RegSet s r (N.ldiff (s r) b) cb.

(* error classification table: (from, to, bit) as in error.c (from >= to for a non-empty range) *)
Local Open Scope Z_scope.
(* the table itself is what the translator printed from error.c on this run: a reordered or extended table is re-classified
   by evaluation (C12Proofs.classify), a wrong one makes that evaluation fail *)
Definition errs : list (Z*Z*N) := Generated.gen_err_classes.
Definition class_bits (err:Z) : list N :=
  flat_map (fun '(from,to,b) => if (err <=? from) && (to <=? err) then [b] else []) errs.

(* state: registers + queue length (the queue itself is modelled elsewhere) ; events: E code, Q stb *)
Inductive ev := EvE (c:Z) | EvQ (stb:N).
Record st := { rg : regs; qlen : Z; qcap : Z }.
Definition cbs (l:list N) : list ev := map EvQ l.
Definition push (s:st) (code:Z) : st * list ev :=
  let full := qlen s =? qcap s in
  let ql := if full then qlen s else qlen s + 1 in
  let '(r1,cb1) := fold_left (fun '(r,cb) b => RegSetBits r ESR b cb) (class_bits code) (rg s, []) in
  let '(r2,cb2) := RegSetBits r1 STB QMA%N [] in
  let '(r3,cb3) := if full then RegSetBits r2 STB QMA%N [] else (r2,[]) in
  ({| rg := r3; qlen := ql; qcap := qcap s |}, cbs cb1 ++ cbs cb2 ++ [EvE code] ++ (if full then cbs cb3 ++ [EvE (-350)] else [])).
Definition emit_empty (s:st) : st * list ev :=
  if (qlen s =? 0) && negb (N.land (rg s STB) QMA =? 0)%N then
    let '(r1,cb) := RegClearBits (rg s) STB QMA%N [] in ({| rg := r1; qlen := qlen s; qcap := qcap s |}, cbs cb ++ [EvE 0])
  else (s, []).
Definition pop (s:st) : st * list ev :=
  emit_empty {| rg := rg s; qlen := if qlen s =? 0 then 0 else qlen s - 1; qcap := qcap s |}.
Definition clear (s:st) : st * list ev := emit_empty {| rg := rg s; qlen := 0; qcap := qcap s |}.
Definition wr (s:st) (r:reg) (v:N) : st * list ev :=
  let '(r1,cb) := RegSet (rg s) r v [] in ({| rg := r1; qlen := qlen s; qcap := qcap s |}, cbs cb).
Definition cls (s:st) : st * list ev :=
  let '(s1,e1) := clear s in
  let '(s2,e2) := wr s1 ESR 0%N in let '(s3,e3) := wr s2 OPER 0%N in let '(s4,e4) := wr s3 QUES 0%N in
  (s4, e1 ++ e2 ++ e3 ++ e4).

