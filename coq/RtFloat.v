(* C07, floating point results read back: the text the %g model emits for a finite value with P significant digits is a decimal
   literal whose exact value is the P-digit decimal D * 10^(X-P+1) chosen by the formatter -- which is within half a unit of the
   P-th digit of the value (GFmtSpec.sig_digits_nearest) -- and the strtod model extracts exactly that value from it, whatever
   follows the text as long as it cannot continue a number. *)
From Coq Require Import Bool List NArith ZArith Lia.
From M Require Import GFmt NumDecode NumSyntax GFmtSpec ILog.
Import ListNotations.
Local Open Scope Z_scope.

Definition bzl (l:list Z) : list N := map Z.to_N l.
Definition isdigZ (c:Z) : Prop := 48 <= c <= 57.
Definition decZ (l:list Z) : Z := fold_left (fun a c => a * 10 + (c - 48)) l 0.

Lemma fold_decZ l : forall a, fold_left (fun a c => a * 10 + (c - 48)) l a = a * 10 ^ Z.of_nat (length l) + decZ l.
Proof.
  unfold decZ. induction l as [|c l IH]; intro a; [cbn; lia|]. cbn [fold_left length]. rewrite IH. rewrite (IH (0 * 10 + (c - 48))).
  rewrite Nat2Z.inj_succ, Z.pow_succ_r by lia. ring.
Qed.
Lemma decZ_app a b : decZ (a ++ b) = decZ a * 10 ^ Z.of_nat (length b) + decZ b.
Proof. unfold decZ at 1. rewrite fold_left_app. fold (decZ a). apply fold_decZ. Qed.
Lemma decZ_zeros j : decZ (repeat 48 j) = 0.
Proof. induction j as [|j IH]; [reflexivity|]. change (repeat 48 (S j)) with ([48] ++ repeat 48 j). rewrite decZ_app, IH. cbn. lia. Qed.
Lemma decZ_app_zeros a j : decZ (a ++ repeat 48 j) = decZ a * 10 ^ Z.of_nat j.
Proof. rewrite decZ_app, decZ_zeros, repeat_length. lia. Qed.
Lemma decZ_zeros_app j a : decZ (repeat 48 j ++ a) = decZ a.
Proof. rewrite decZ_app, decZ_zeros. lia. Qed.

(* digits_of *)
Lemma digits_of_length k : forall v acc, length (digits_of k v acc) = (k + length acc)%nat.
Proof. induction k as [|k IH]; intros v acc; [reflexivity|]. cbn [digits_of]. rewrite IH. cbn [length]. lia. Qed.
Lemma digits_of_digits k : forall v acc, 0 <= v -> Forall isdigZ acc -> Forall isdigZ (digits_of k v acc).
Proof.
  induction k as [|k IH]; intros v acc Hv Ha; [exact Ha|]. cbn [digits_of]. apply IH; [apply Z.div_pos; lia|].
  constructor; [|exact Ha]. unfold isdigZ. pose proof (Z.mod_pos_bound v 10 ltac:(lia)). lia.
Qed.
Lemma digits_of_fold k : forall v acc a0, 0 <= v ->
  fold_left (fun a c => a * 10 + (c - 48)) (digits_of k v acc) a0 = fold_left (fun a c => a * 10 + (c - 48)) acc (a0 * 10 ^ Z.of_nat k + v mod 10 ^ Z.of_nat k).
Proof.
  induction k as [|k IH]; intros v acc a0 Hv.
  - cbn [digits_of Z.of_nat]. rewrite Z.pow_0_r, Z.mod_1_r. f_equal. lia.
  - cbn [digits_of]. rewrite IH by (apply Z.div_pos; lia). cbn [fold_left]. f_equal.
    rewrite Nat2Z.inj_succ, Z.pow_succ_r by lia.
    rewrite (Z.rem_mul_r v 10 (10 ^ Z.of_nat k)) by (try lia; apply Z.pow_nonzero; lia). ring.
Qed.
Lemma digits_of_dec k v : 0 <= v < 10 ^ Z.of_nat k -> decZ (digits_of k v []) = v.
Proof. intro H. unfold decZ. rewrite digits_of_fold by lia. cbn [fold_left]. rewrite Z.mod_small by lia. lia. Qed.

(* stripping trailing zeros *)
Lemma strip_rev_spec l : exists j, l = repeat 48 j ++ strip_zeros_rev l /\ (match strip_zeros_rev l with 48 :: _ => False | _ => True end).
Proof.
  induction l as [|c l IH]; [exists O; split; [reflexivity|exact I]|].
  destruct (Z.eq_dec c 48) as [->|Hc].
  - destruct IH as (j & E & Hh). exists (S j). cbn [strip_zeros_rev repeat app]. split; [f_equal; exact E|exact Hh].
  - exists O. assert (E : strip_zeros_rev (c :: l) = c :: l).
    { cbn [strip_zeros_rev]. destruct c as [|p|p]; try reflexivity. repeat (destruct p as [p|p|]; try reflexivity). congruence. }
    rewrite E. split; [reflexivity|]. destruct c as [|p|p]; try exact I. repeat (destruct p as [p|p|]; try exact I). congruence.
Qed.
Lemma strip_spec l : exists j, l = strip_trailing_zeros l ++ repeat 48 j.
Proof.
  unfold strip_trailing_zeros. destruct (strip_rev_spec (rev l)) as (j & E & _). exists j.
  rewrite <- (rev_involutive l) at 1. rewrite E at 1. rewrite rev_app_distr. f_equal.
  clear. induction j as [|j IH]; [reflexivity|]. cbn [repeat rev]. rewrite IH. clear. induction j as [|j IH]; [reflexivity|]. cbn [repeat app]. f_equal. exact IH.
Qed.
Lemma strip_digits l : Forall isdigZ l -> Forall isdigZ (strip_trailing_zeros l).
Proof. intro H. destruct (strip_spec l) as (j & E). rewrite E in H. apply Forall_app in H. apply H. Qed.

(* bridge to the byte-level definitions of NumSyntax *)
Lemma isdig_bz c : isdigZ c -> isdig (Z.to_N c) = true.
Proof. unfold isdigZ, isdig. intro H. apply andb_true_iff. split; apply N.leb_le; lia. Qed.
Lemma alld_bzl l : Forall isdigZ l -> alld (bzl l).
Proof. unfold alld, bzl. induction 1 as [|c l Hc Hl IH]; [reflexivity|]. cbn [map forallb]. rewrite (isdig_bz c Hc). exact IH. Qed.
Lemma dec_bzl_from l : Forall isdigZ l -> forall a, fold_left (fun a c => a * 10 + (Z.of_N c - 48)) (bzl l) a = fold_left (fun a c => a * 10 + (c - 48)) l a.
Proof.
  induction 1 as [|c l Hc Hl IH]; intro a; [reflexivity|]. cbn [bzl map fold_left]. fold (bzl l). rewrite IH. f_equal.
  rewrite Z2N.id by (unfold isdigZ in Hc; lia). reflexivity.
Qed.
Lemma dec_bzl l : Forall isdigZ l -> dec (bzl l) = decZ l.
Proof. intro H. unfold dec, decZ. apply dec_bzl_from, H. Qed.
Lemma bzl_app a b : bzl (a ++ b) = bzl a ++ bzl b. Proof. apply map_app. Qed.
Lemma bzl_length l : length (bzl l) = length l. Proof. apply map_length. Qed.

(* what may follow the text: anything that cannot continue a number *)
Definition delim (rest:list N) : Prop :=
  isdig (hd 0%N rest) = false /\ (hd 0%N rest =? 46)%N = false /\ ((hd 0%N rest =? 101) || (hd 0%N rest =? 69))%N = false.

(* the value D * 10^s as a fraction *)
Definition valnum (D s:Z) : Z := if 0 <=? s then D * 10 ^ s else D.
Definition valden (s:Z) : Z := if 0 <=? s then 1 else 10 ^ (- s).

Lemma pow10_add a b : 0 <= a -> 0 <= b -> 10 ^ (a + b) = 10 ^ a * 10 ^ b. Proof. intros. apply Z.pow_add_r; lia. Qed.
Lemma pow10_pos a : 0 <= a -> 0 < 10 ^ a. Proof. intro. apply Z.pow_pos_nonneg; lia. Qed.

(* one literal: sign, integer digits, optional fraction digits, optional exponent; its value against mant * 10^(e - |frac|) *)
Lemma read_back (neg:bool) (ip fp:list Z) (ex:option (bool * list Z)) rest D s :
  Forall isdigZ ip -> Forall isdigZ fp -> ip <> [] ->
  (match ex with Some (_, ed) => Forall isdigZ ed /\ ed <> [] | None => True end) ->
  delim rest ->
  let e := match ex with Some (eneg, ed) => if eneg then - decZ ed else decZ ed | None => 0 end in
  -390 <= e - Z.of_nat (length fp) <= 390 -> (length ip + length fp <= 60)%nat ->
  (* the literal denotes D * 10^s *)
  (exists j:nat, D = decZ (ip ++ fp) * 10 ^ Z.of_nat j /\ s + Z.of_nat j = e - Z.of_nat (length fp)) ->
  let text := (if neg then [45] else []) ++ ip ++ (match fp with [] => [] | _ => 46 :: fp end) ++
              (match ex with Some (eneg, ed) => 101 :: (if eneg then 45 else 43) :: ed | None => [] end) in
  exists N' D', strtod_exact (bzl text ++ rest) = Some (neg, N', D') /\ 0 < D' /\ N' * valden s = valnum D s * D'.
Proof.
  intros Hip Hfp Hne Hex (R1 & R2 & R3) e He Hlen (j & HD & Hs) text.
  set (d2 := match fp with [] => None | _ => Some (bzl fp) end).
  set (exo := match ex with Some (eneg, ed) => Some (101%N, (if eneg then [45%N] else [43%N]), bzl ed) | None => None end).
  assert (Etext : bzl text = literal (if neg then [45%N] else []) (bzl ip) d2 exo).
  { subst text d2 exo. unfold literal. rewrite !bzl_app. f_equal; [destruct neg; reflexivity|]. f_equal. f_equal.
    - destruct fp; reflexivity.
    - destruct ex as [[eneg ed]|]; [|reflexivity]. destruct eneg; reflexivity. }
  rewrite Etext.
  assert (Hfd : frac_digits d2 = bzl fp) by (subst d2; destruct fp; reflexivity).
  assert (Hfl : frac_len d2 = Z.of_nat (length fp)) by (subst d2; destruct fp; [reflexivity|unfold frac_len; rewrite bzl_length; reflexivity]).
  pose proof (strtod_exact_literal (if neg then [45%N] else []) neg (bzl ip) d2 exo
                (match ex with Some (eneg, _) => eneg | None => false end) rest) as H.
  cbv zeta in H. rewrite Hfd, Hfl in H.
  assert (Hmant : dec (bzl ip ++ bzl fp) = decZ (ip ++ fp)) by (rewrite <- bzl_app; apply dec_bzl, Forall_app; auto).
  rewrite Hmant in H.
  assert (He10 : (match exo with Some (_, _, ed) => if (match ex with Some (eneg, _) => eneg | None => false end) then - dec ed else dec ed | None => 0 end) = e).
  { subst exo e. destruct ex as [[eneg ed]|]; [|reflexivity]. destruct Hex as [Hed _]. rewrite (dec_bzl ed Hed). reflexivity. }
  rewrite He10 in H.
  assert (Hlen' : Z.of_nat (length (bzl ip ++ bzl fp)) = Z.of_nat (length ip) + Z.of_nat (length fp)) by (rewrite app_length, !bzl_length; lia).
  rewrite Hlen' in H.
  set (e10 := e - Z.of_nat (length fp)) in *.
  replace (Z.max (-400 - (Z.of_nat (length ip) + Z.of_nat (length fp))) (Z.min 400 e10)) with e10 in H by lia.
  eexists; eexists. split.
  - apply H.
    + destruct neg; [right; right|left]; auto.
    + apply alld_bzl, Hip.
    + apply alld_bzl, Hfp.
    + destruct ip; [congruence|discriminate].
    + subst exo. destruct ex as [[eneg ed]|]; [|exact I]. destruct Hex as [Hed Hedn]. split; [reflexivity|]. split; [destruct eneg; [right; right|right; left]; auto|].
      split; [apply alld_bzl, Hed|destruct ed; [congruence|discriminate]].
    + exact R1.
    + intros _. exact R2.
    + intros _. exact R3.
    + intro E. destruct ip; [congruence|discriminate E].
  - set (m := decZ (ip ++ fp)) in *. pose proof (pow10_pos (Z.of_nat j) ltac:(lia)) as Hpj.
    unfold valnum, valden.
    destruct (Z.leb_spec 0 e10) as [H0|H0]; destruct (Z.leb_spec 0 s) as [H1|H1].
    + split; [lia|]. subst D. replace e10 with (s + Z.of_nat j) by lia. rewrite pow10_add by lia. ring.
    + split; [lia|]. subst D. replace (Z.of_nat j) with (e10 + - s) by lia. rewrite (pow10_add e10 (- s)) by lia. ring.
    + split; [apply pow10_pos; lia|]. lia.
    + split; [apply pow10_pos; lia|]. subst D.
      assert (Hs' : - s = Z.of_nat j + (- e10)) by lia. rewrite Hs'. rewrite pow10_add by lia. ring.
Qed.

Lemma exp_digits a : 0 <= a < 1000 ->
  let ed := if a <? 10 then [48; 48 + a] else if a <? 100 then digits_of 2 a [] else digits_of 3 a [] in
  Forall isdigZ ed /\ ed <> [] /\ decZ ed = a.
Proof.
  intros Ha. cbv zeta. destruct (Z.ltb_spec a 10).
  - split; [repeat constructor; unfold isdigZ; lia|]. split; [discriminate|]. unfold decZ. cbn [fold_left]. lia.
  - destruct (Z.ltb_spec a 100).
    + split; [apply digits_of_digits; [lia|constructor]|]. split; [cbn; discriminate|]. apply digits_of_dec. change (10 ^ Z.of_nat 2) with 100. lia.
    + split; [apply digits_of_digits; [lia|constructor]|]. split; [cbn; discriminate|]. apply digits_of_dec. change (10 ^ Z.of_nat 3) with 1000. lia.
Qed.

Lemma dot_nonempty (l:list Z) : l <> [] -> match l with [] => [] | _ :: _ => 46 :: l end = 46 :: l.
Proof. destruct l; [congruence|reflexivity]. Qed.

Theorem fmt_g_reads_back P neg n d rest : 1 <= P <= 17 -> 0 < n ->
  (let '(D, X) := sig_digits P n d in 10 ^ (P - 1) <= D < 10 ^ P /\ -370 <= X <= 370) -> delim rest ->
  let '(D, X) := sig_digits P n d in
  exists N' D', strtod_exact (bzl (fmt_g P neg n d) ++ rest) = Some (neg, N', D') /\ 0 < D' /\
                N' * valden (X - P + 1) = valnum D (X - P + 1) * D'.
Proof.
  intros HP Hn Hsd Hrest. unfold fmt_g.
  destruct (Z.eqb_spec P 0); [lia|]. destruct (Z.eqb_spec n 0); [lia|].
  destruct (sig_digits P n d) as [D X]. destruct Hsd as [HD HX].
  set (ds := digits_of (Z.to_nat P) D []).
  assert (Hdl : length ds = Z.to_nat P) by (subst ds; rewrite digits_of_length; cbn; lia).
  assert (Hdd : Forall isdigZ ds) by (subst ds; apply digits_of_digits; [pose proof (pow10_pos (P - 1)); lia|constructor]).
  assert (Hdv : decZ ds = D) by (subst ds; apply digits_of_dec; rewrite Z2Nat.id by lia; pose proof (pow10_pos (P - 1)); lia).
  assert (HDpos : 0 < D) by (pose proof (pow10_pos (P - 1)); lia).
  destruct ((X <? P) && (-4 <=? X)) eqn:Estyle.
  - apply andb_true_iff in Estyle as [E1 E2]. apply Z.ltb_lt in E1. apply Z.leb_le in E2.
    destruct (Z.leb_spec 0 X) as [HX0|HX0].
    + (* digits, point, digits *)
      set (ip := firstn (Z.to_nat (X + 1)) ds). set (sk := skipn (Z.to_nat (X + 1)) ds).
      destruct (strip_spec sk) as (j & Ej). set (fp := strip_trailing_zeros sk) in *.
      assert (Eds : ds = (ip ++ fp) ++ repeat 48 j) by (rewrite <- app_assoc, <- Ej; subst ip sk; symmetry; apply firstn_skipn).
      assert (Hipl : length ip = Z.to_nat (X + 1)) by (subst ip; rewrite firstn_length; lia).
      assert (Hskl : (length fp + j = Z.to_nat P - Z.to_nat (X + 1))%nat).
      { assert (length sk = (Z.to_nat P - Z.to_nat (X + 1))%nat) by (subst sk; rewrite skipn_length; lia). rewrite Ej, app_length, repeat_length in H. exact H. }
      assert (Hf : Forall isdigZ ip /\ Forall isdigZ fp).
      { rewrite Eds in Hdd. apply Forall_app in Hdd as [Hdd _]. apply Forall_app in Hdd. exact Hdd. }
      pose proof (read_back neg ip fp None rest D (X - P + 1) (proj1 Hf) (proj2 Hf)) as R. cbv zeta in R.
      rewrite app_nil_r in R. apply R; try exact I; try exact Hrest.
      * intro E. rewrite E in Hipl. cbn in Hipl. lia.
      * lia.
      * lia.
      * exists j. split; [rewrite <- Hdv, Eds; apply decZ_app_zeros|lia].
    + (* 0.000digits *)
      set (zs := repeat 48 (Z.to_nat (- X - 1))). destruct (strip_spec (zs ++ ds)) as (j & Ej). set (fp := strip_trailing_zeros (zs ++ ds)) in *.
      assert (Hlen : (length fp + j = Z.to_nat (- X - 1) + Z.to_nat P)%nat).
      { assert (H : length (zs ++ ds) = (Z.to_nat (- X - 1) + Z.to_nat P)%nat) by (subst zs; rewrite app_length, repeat_length; lia).
        rewrite Ej, app_length, repeat_length in H. exact H. }
      assert (Hfd : Forall isdigZ fp).
      { assert (H : Forall isdigZ (zs ++ ds)) by (apply Forall_app; split; [subst zs; apply Forall_forall; intros x Hx; apply repeat_spec in Hx; subst x; unfold isdigZ; lia|exact Hdd]).
        rewrite Ej in H. apply Forall_app in H. apply H. }
      assert (Hval : D = decZ fp * 10 ^ Z.of_nat j).
      { rewrite <- Hdv. rewrite <- (decZ_zeros_app (Z.to_nat (- X - 1)) ds). fold zs. rewrite Ej. apply decZ_app_zeros. }
      assert (Hfne : fp <> []) by (intro E; rewrite E in Hval; cbn in Hval; lia).
      pose proof (read_back neg [48] fp None rest D (X - P + 1) ltac:(repeat constructor; unfold isdigZ; lia) Hfd ltac:(discriminate) I Hrest) as R.
      cbv zeta in R. rewrite app_nil_r in R.
      assert (Etext : (if neg then [45] else []) ++ [48] ++ match fp with [] => [] | _ :: _ => 46 :: fp end = (if neg then [45] else []) ++ [48; 46] ++ fp)
        by (rewrite (dot_nonempty fp Hfne); reflexivity).
      rewrite Etext in R. apply R.
      * cbn [length]. lia.
      * cbn [length]. lia.
      * exists j. split; [|lia]. change ([48] ++ fp) with (repeat 48 1 ++ fp). rewrite decZ_zeros_app. exact Hval.
  - (* digit, point, digits, exponent *)
    destruct ds as [|h t] eqn:Eh; [cbn in Hdl; lia|]. cbn [hd tl].
    destruct (strip_spec t) as (j & Ej). set (fp := strip_trailing_zeros t) in *.
    assert (Hlen : (length fp + j = Z.to_nat P - 1)%nat).
    { cbn [length] in Hdl. assert (H : length t = (Z.to_nat P - 1)%nat) by lia. rewrite Ej, app_length, repeat_length in H. exact H. }
    pose proof (Forall_inv Hdd) as Hh. pose proof (Forall_inv_tail Hdd) as Ht.
    assert (Hfd : Forall isdigZ fp) by (rewrite Ej in Ht; apply Forall_app in Ht; apply Ht).
    destruct (exp_digits (Z.abs X) ltac:(lia)) as (Hed & Hedn & Hedv). cbv zeta in Hed, Hedn, Hedv.
    set (ed := if Z.abs X <? 10 then [48; 48 + Z.abs X] else if Z.abs X <? 100 then digits_of 2 (Z.abs X) [] else digits_of 3 (Z.abs X) []) in *.
    pose proof (read_back neg [h] fp (Some (X <? 0, ed)) rest D (X - P + 1) ltac:(constructor; [exact Hh|constructor]) Hfd ltac:(discriminate) (conj Hed Hedn) Hrest) as R.
    cbv beta iota zeta in R.
    assert (He : (if X <? 0 then - decZ ed else decZ ed) = X) by (rewrite Hedv; destruct (Z.ltb_spec X 0); lia).
    rewrite He in R.
    assert (Etext : (if neg then [45] else []) ++ [h] ++ match fp with [] => [] | _ :: _ => 46 :: fp end ++ [101] ++ exp_field X =
                    (if neg then [45] else []) ++ [h] ++ match fp with [] => [] | _ :: _ => 46 :: fp end ++ 101 :: (if X <? 0 then 45 else 43) :: ed)
      by reflexivity.
    rewrite Etext. apply R.
    + cbn [length]. lia.
    + cbn [length]. lia.
    + exists j. split; [|cbn [length]; lia]. rewrite <- Hdv. change (h :: t) with ([h] ++ t). rewrite Ej, app_assoc. apply decZ_app_zeros.
Qed.
Print Assumptions fmt_g_reads_back.

(* ---------- every finite, non-zero binary64 / binary32 value ---------- *)
Lemma ge10_mono n d a b : 0 < n -> 0 < d -> a <= b -> ge10 n d b = true -> ge10 n d a = true.
Proof.
  intros Hn Hd Hab. replace b with (a + Z.of_nat (Z.to_nat (b - a))) by lia. generalize (Z.to_nat (b - a)) as k. intro k.
  induction k as [|k IH]; [rewrite Z.add_0_r; auto|]. intro H. apply IH. apply ge10_down; try assumption.
  replace (a + Z.of_nat k + 1) with (a + Z.of_nat (S k)) by lia. exact H.
Qed.
Lemma k0_range L : -1200 <= L <= 1200 -> -362 <= k0_of L <= 361.
Proof. intro H. unfold k0_of. split; [apply Z.div_le_lower_bound; lia|]. assert (L * 30103 / 100000 < 362) by (apply Z.div_lt_upper_bound; lia). lia. Qed.
Lemma ilog_range n d : 0 < n -> 0 < d -> -1200 <= Z.log2 n - Z.log2 d <= 1200 -> -366 <= ilog10 n d <= 366.
Proof.
  intros Hn Hd HL. pose proof (ilog10_correct n d Hn Hd HL) as Hok. unfold ilog_ok in Hok. apply andb_prop in Hok as [Hlo Hhi]. apply negb_true_iff in Hhi.
  destruct (bracket n d Hn Hd HL) as [Blo Bhi]. cbv zeta in Blo, Bhi. pose proof (k0_range _ HL) as Hk.
  set (k0 := k0_of (Z.log2 n - Z.log2 d)) in *. set (x0 := ilog10 n d) in *.
  assert (x0 < k0 + 5).
  { destruct (Z.lt_ge_cases x0 (k0 + 5)) as [|Hge]; [assumption|]. pose proof (ge10_mono n d (k0 + 5) x0 Hn Hd Hge Hlo). congruence. }
  assert (k0 - 3 < x0 + 1).
  { destruct (Z.lt_ge_cases (k0 - 3) (x0 + 1)) as [|Hge]; [assumption|]. pose proof (ge10_mono n d (x0 + 1) (k0 - 3) Hn Hd Hge Blo). congruence. }
  lia.
Qed.

(* the decimal the formatter chose: P digits D and the exponent X of the first one, always in range *)
Lemma sig_digits_range P n d : 0 < P -> 0 < d -> 0 < n -> -1200 <= Z.log2 n - Z.log2 d <= 1200 ->
  let '(D, X) := sig_digits P n d in 10 ^ (P - 1) <= D < 10 ^ P /\ -370 <= X <= 370.
Proof.
  intros HP Hd Hn HL. destruct (sig_digits_nearest_closed P n d HP Hd Hn HL) as (_ & HD0 & Esd). cbv zeta in HD0, Esd.
  pose proof (ilog_range n d Hn Hd HL) as Hx. rewrite Esd.
  assert (Hpw : 10 ^ (P - 1) < 10 ^ P) by (apply Z.pow_lt_mono_r; lia).
  match goal with |- context [if ?D0 =? _ then _ else _] => destruct (Z.eqb_spec D0 (10 ^ P)) end; lia.
Qed.



(* the decimal chosen is within half a unit of its last digit of the value n/d *)
Lemma sig_digits_near P n d : 0 < P -> 0 < d -> 0 < n -> -1200 <= Z.log2 n - Z.log2 d <= 1200 ->
  let '(D, X) := sig_digits P n d in let s := X - P + 1 in
  2 * Z.abs (n * valden s - valnum D s * d) <= d * valnum 1 s.
Proof.
  intros HP Hd Hn HL. destruct (sig_digits_nearest_closed P n d HP Hd Hn HL) as (Hnear & HD0 & Esd). cbv zeta in Hnear, HD0, Esd.
  rewrite Esd. set (x0 := ilog10 n d) in *. set (s0 := x0 - P + 1) in *.
  set (D0 := if 0 <=? s0 then rne n (d * 10 ^ s0) else rne (n * 10 ^ (- s0)) d) in *.
  destruct (Z.eqb_spec D0 (10 ^ P)) as [Ec|Ec]; cbv zeta.
  - (* the rounding carried into a new digit *)
    replace (x0 + 1 - P + 1) with (s0 + 1) by lia. rewrite Ec in Hnear. unfold valden, valnum.
    assert (HP1 : 10 ^ P = 10 ^ (P - 1) * 10) by (replace P with (P - 1 + 1) at 1 by lia; rewrite pow10_add by lia; reflexivity).
    destruct (Z.leb_spec 0 s0) as [H0|H0].
    + destruct (Z.leb_spec 0 (s0 + 1)); [|lia]. rewrite pow10_add by lia. change (10 ^ 1) with 10.
      pose proof (pow10_pos s0 H0) as Hps. replace (n * 1 - 10 ^ (P - 1) * (10 ^ s0 * 10) * d) with (n - 10 ^ P * (d * 10 ^ s0)) by (rewrite HP1; ring).
      replace (d * (1 * (10 ^ s0 * 10))) with (10 * (d * 10 ^ s0)) by ring. assert (0 < d * 10 ^ s0) by (apply Z.mul_pos_pos; lia). lia.
    + destruct (Z.eq_dec s0 (-1)) as [E1|E1].
      * subst s0. rewrite E1 in *. change (- -1) with 1 in Hnear. change (10 ^ 1) with 10 in Hnear.
        change (-1 + 1) with 0. change (0 <=? 0) with true. cbv iota. rewrite Z.pow_0_r.
        replace (n * 10 - 10 ^ P * d) with (10 * (n * 1 - 10 ^ (P - 1) * 1 * d)) in Hnear by (rewrite HP1; ring). rewrite Z.abs_mul in Hnear. change (Z.abs 10) with 10 in Hnear. lia.
      * destruct (Z.leb_spec 0 (s0 + 1)); [lia|].
        replace (- s0) with (- (s0 + 1) + 1) in Hnear by lia. rewrite pow10_add in Hnear by lia. change (10 ^ 1) with 10 in Hnear.
        replace (n * (10 ^ (- (s0 + 1)) * 10) - 10 ^ P * d) with (10 * (n * 10 ^ (- (s0 + 1)) - 10 ^ (P - 1) * d)) in Hnear by (rewrite HP1; ring).
        rewrite Z.abs_mul in Hnear. change (Z.abs 10) with 10 in Hnear. lia.
  - unfold valden, valnum. fold s0. destruct (Z.leb_spec 0 s0).
    + replace (n * 1 - D0 * 10 ^ s0 * d) with (n - D0 * (d * 10 ^ s0)) by ring. lia.
    + lia.
Qed.

Lemma dec32_in_range bits : 0 <= bits < 2 ^ 32 -> (bits mod 2 ^ 31) / 2 ^ 23 < 255 ->
  let '(_, n, d) := dec32 bits in 0 < d /\ (0 < n -> -1200 <= Z.log2 n - Z.log2 d <= 1200).
Proof.
  intros Hb He. unfold dec32.
  set (r := bits mod 2 ^ 31) in *. set (ef := r / 2 ^ 23) in *. set (fr := r mod 2 ^ 23).
  assert (Hr : 0 <= r < 2 ^ 31) by (apply Z.mod_pos_bound; lia).
  assert (Hef : 0 <= ef) by (apply Z.div_pos; lia).
  assert (Hfr : 0 <= fr < 2 ^ 23) by (apply Z.mod_pos_bound; lia).
  destruct (Z.eqb_spec ef 0) as [E0|E0].
  - change (0 <=? -149) with false. cbv iota. change (- -149) with 149. split; [apply Z.pow_pos_nonneg; lia|].
    intro Hn. rewrite Z.log2_pow2 by lia. pose proof (Z.log2_nonneg fr).
    assert (Z.log2 fr < 23) by (apply Z.log2_lt_pow2; lia). lia.
  - set (m := fr + 2 ^ 23). set (q := ef - 150).
    assert (Hm : 2 ^ 23 <= m < 2 ^ 24) by (subst m; lia).
    destruct (Z.leb_spec 0 q) as [Hq|Hq].
    + split; [lia|]. intro Hn. change (Z.log2 1) with 0.
      assert (Hub : m * 2 ^ q < 2 ^ (24 + q)) by (rewrite Z.pow_add_r by lia; assert (0 < 2 ^ q) by (apply Z.pow_pos_nonneg; lia); nia).
      assert (Z.log2 (m * 2 ^ q) < 24 + q) by (apply Z.log2_lt_pow2; [exact Hn|exact Hub]).
      pose proof (Z.log2_nonneg (m * 2 ^ q)). subst q. lia.
    + split; [apply Z.pow_pos_nonneg; lia|]. intro Hn. rewrite Z.log2_pow2 by lia.
      assert (Z.log2 m < 24) by (apply Z.log2_lt_pow2; lia). pose proof (Z.log2_nonneg m). subst q. lia.
Qed.

(* C07, doubles: the response text of every finite non-zero double reads back, whatever delimiter follows it, as exactly the
   15-digit decimal D * 10^(X-14) -- and that decimal is within half a unit of its 15th digit of the value n/d *)
Theorem rt_double bits rest : 0 <= bits < 2 ^ 64 -> (bits mod 2 ^ 63) / 2 ^ 52 < 2047 -> delim rest ->
  let '(neg, n, d) := dec64 bits in 0 < n ->
  let '(D, X) := sig_digits 15 n d in
  10 ^ 14 <= D < 10 ^ 15 /\
  2 * Z.abs (n * valden (X - 14) - valnum D (X - 14) * d) <= d * valnum 1 (X - 14) /\
  exists N' D', strtod_exact (bzl (fmt_double 15 bits) ++ rest) = Some (neg, N', D') /\ 0 < D' /\ N' * valden (X - 14) = valnum D (X - 14) * D'.
Proof.
  intros Hb He Hrest. pose proof (dec64_in_range bits Hb He) as Hr. unfold fmt_double.
  destruct (Z.eqb_spec ((bits mod 2 ^ 63) / 2 ^ 52) 2047) as [E47|NE47]; [lia|].
  destruct (dec64 bits) as [[neg n] d]. destruct Hr as [Hd HL]. intro Hn. specialize (HL Hn).
  pose proof (sig_digits_range 15 n d ltac:(lia) Hd Hn HL) as Hsr.
  pose proof (sig_digits_near 15 n d ltac:(lia) Hd Hn HL) as Hnear.
  pose proof (fmt_g_reads_back 15 neg n d rest ltac:(lia) Hn Hsr Hrest) as R.
  destruct (sig_digits 15 n d) as [D X]. cbv zeta in Hnear. change (15 - 1) with 14 in Hsr.
  replace (X - 15 + 1) with (X - 14) in R, Hnear by lia. split; [apply Hsr|]. split; [exact Hnear|exact R].
Qed.
Print Assumptions rt_double.

Theorem rt_float bits rest : 0 <= bits < 2 ^ 32 -> (bits mod 2 ^ 31) / 2 ^ 23 < 255 -> delim rest ->
  let '(neg, n, d) := dec32 bits in 0 < n ->
  let '(D, X) := sig_digits 6 n d in
  10 ^ 5 <= D < 10 ^ 6 /\
  2 * Z.abs (n * valden (X - 5) - valnum D (X - 5) * d) <= d * valnum 1 (X - 5) /\
  exists N' D', strtod_exact (bzl (fmt_float 6 bits) ++ rest) = Some (neg, N', D') /\ 0 < D' /\ N' * valden (X - 5) = valnum D (X - 5) * D'.
Proof.
  intros Hb He Hrest. pose proof (dec32_in_range bits Hb He) as Hr. unfold fmt_float.
  destruct (Z.eqb_spec ((bits mod 2 ^ 31) / 2 ^ 23) 255) as [E47|NE47]; [lia|].
  destruct (dec32 bits) as [[neg n] d]. destruct Hr as [Hd HL]. intro Hn. specialize (HL Hn).
  pose proof (sig_digits_range 6 n d ltac:(lia) Hd Hn HL) as Hsr.
  pose proof (sig_digits_near 6 n d ltac:(lia) Hd Hn HL) as Hnear.
  pose proof (fmt_g_reads_back 6 neg n d rest ltac:(lia) Hn Hsr Hrest) as R.
  destruct (sig_digits 6 n d) as [D X]. cbv zeta in Hnear. change (6 - 1) with 5 in Hsr.
  replace (X - 6 + 1) with (X - 5) in R, Hnear by lia. split; [apply Hsr|]. split; [exact Hnear|exact R].
Qed.
Print Assumptions rt_float.

(* non-vacuity: 0.1 (binary64 0x3FB999999999999A) is emitted as 0.1 and reads back as 1/10; 1.5e300 goes through the exponent form *)
Example rt_double_point_one :
  bzl (fmt_double 15 4591870180066957722) = [48; 46; 49]%N /\
  strtod_exact (bzl (fmt_double 15 4591870180066957722) ++ [44%N]) = Some (false, 1, 10).
Proof. vm_compute. split; reflexivity. Qed.

(* what the double reader finally delivers: that decimal, rounded to the nearest binary64 value (ties to even; NearSpec.v) *)
Corollary rt_double_bits bits rest : 0 <= bits < 2 ^ 64 -> (bits mod 2 ^ 63) / 2 ^ 52 < 2047 -> delim rest ->
  let '(neg, n, d) := dec64 bits in 0 < n ->
  let '(D, X) := sig_digits 15 n d in
  exists N' D', 0 < D' /\ N' * valden (X - 14) = valnum D (X - 14) * D' /\
    strtod_bits (bzl (fmt_double 15 bits) ++ rest) = bits64 neg (nearest64 N' D').
Proof.
  intros Hb He Hrest. pose proof (rt_double bits rest Hb He Hrest) as H.
  destruct (dec64 bits) as [[neg n] d]. intro Hn. specialize (H Hn). destruct (sig_digits 15 n d) as [D X].
  destruct H as (_ & _ & N' & D' & E & HD & HV). exists N', D'. split; [exact HD|]. split; [exact HV|].
  unfold strtod_bits. rewrite E. reflexivity.
Qed.
Corollary rt_float_bits bits rest : 0 <= bits < 2 ^ 32 -> (bits mod 2 ^ 31) / 2 ^ 23 < 255 -> delim rest ->
  let '(neg, n, d) := dec32 bits in 0 < n ->
  let '(D, X) := sig_digits 6 n d in
  exists N' D', 0 < D' /\ N' * valden (X - 5) = valnum D (X - 5) * D' /\
    strtof_bits (bzl (fmt_float 6 bits) ++ rest) = bits32 neg (nearest32 N' D').
Proof.
  intros Hb He Hrest. pose proof (rt_float bits rest Hb He Hrest) as H.
  destruct (dec32 bits) as [[neg n] d]. intro Hn. specialize (H Hn). destruct (sig_digits 6 n d) as [D X].
  destruct H as (_ & _ & N' & D' & E & HD & HV). exists N', D'. split; [exact HD|]. split; [exact HV|].
  unfold strtof_bits. rewrite E. reflexivity.
Qed.
