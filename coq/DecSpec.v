(* C13 for the decimal recogniser: it consumes exactly the longest prefix in the IEEE 488.2 7.7.2 language *)
From Coq Require Import Bool List NArith ZArith Lia.
From M Require Import LexModel LexBounds.
Import ListNotations.
Local Open Scope Z_scope.

(* ---------- the grammar, written from the standard ---------- *)
Definition all (p:byte->bool) (l:bytes) : Prop := forallb p l = true.
Definition optsign (sg:bytes) : Prop := sg = [] \/ exists c, sg = [c] /\ isplusmn c = true.
Inductive Mant : bytes -> Prop :=
| Mant_int  sg d1 : optsign sg -> all isdigit d1 -> d1 <> [] -> Mant (sg ++ d1)
| Mant_frac sg d1 d2 : optsign sg -> all isdigit d1 -> all isdigit d2 -> (d1 <> [] \/ d2 <> []) -> Mant (sg ++ d1 ++ [46%N] ++ d2).
Inductive Expo : bytes -> Prop :=
| Expo_mk w1 e w2 sg d : all isws w1 -> isE e = true -> all isws w2 -> optsign sg -> all isdigit d -> d <> [] ->
    Expo (w1 ++ [e] ++ w2 ++ sg ++ d).
Inductive Dec : bytes -> Prop :=
| Dec_m m : Mant m -> Dec m
| Dec_me m e : Mant m -> Expo e -> Dec (m ++ e).

(* ---------- maximal munch facts ---------- *)
Lemma skip_while_app p pre rest : all p pre -> skip_while p (pre ++ rest) = skip_while p rest.
Proof. induction pre as [|c r IH]; intro H; [reflexivity|]. cbn in *. apply andb_prop in H as [Hc Hr]. rewrite Hc. apply IH; exact Hr. Qed.
Lemma skip_while_stop p l : starts p l = false -> skip_while p l = l.
Proof. destruct l as [|c r]; cbn; [reflexivity|]. intros ->. reflexivity. Qed.
Lemma starts_app_ne p a b : a <> [] -> starts p (a ++ b) = starts p a.
Proof. destruct a; [congruence|reflexivity]. Qed.
Lemma all_starts p d : all p d -> d <> [] -> starts p d = true.
Proof. destruct d as [|c r]; [congruence|]. cbn. intros H _. apply andb_prop in H as [H _]. exact H. Qed.
Lemma sfx_app_r a b : sfx b (a ++ b). Proof. exists a; reflexivity. Qed.
Lemma sfx_skip_while_of p rest l : sfx l rest -> sfx (skip_while p l) rest.
Proof. intros H. eapply sfx_trans; [apply sfx_skip_while|exact H]. Qed.

(* character class disjointness used below *)
Lemma digit_not_sign c : isdigit c = true -> isplusmn c = false.
Proof. unfold isdigit, inr, isplusmn. intros H. apply andb_prop in H as [H1 H2]. apply N.leb_le in H1, H2.
  destruct (N.eqb_spec c 43), (N.eqb_spec c 45); cbn; try reflexivity; lia. Qed.
Lemma dot_not_sign : isplusmn 46%N = false. Proof. reflexivity. Qed.
Lemma dot_not_digit : isdigit 46%N = false. Proof. reflexivity. Qed.
Lemma ws_not_digit c : isws c = true -> isdigit c = false.
Proof. unfold isws, isdigit, inr. intros H. apply orb_prop in H as [H|H]; apply N.eqb_eq in H; subst; reflexivity. Qed.
Lemma ws_not_dot c : isws c = true -> ischr 46%N c = false.
Proof. unfold isws, ischr. intros H. apply orb_prop in H as [H|H]; apply N.eqb_eq in H; subst; reflexivity. Qed.
Lemma E_not_digit c : isE c = true -> isdigit c = false.
Proof. unfold isE, isdigit, inr. intros H. apply orb_prop in H as [H|H]; apply N.eqb_eq in H; subst; reflexivity. Qed.
Lemma E_not_dot c : isE c = true -> ischr 46%N c = false.
Proof. unfold isE, ischr. intros H. apply orb_prop in H as [H|H]; apply N.eqb_eq in H; subst; reflexivity. Qed.
Lemma E_not_ws c : isE c = true -> isws c = false.
Proof. unfold isE, isws. intros H. apply orb_prop in H as [H|H]; apply N.eqb_eq in H; subst; reflexivity. Qed.
Lemma sign_not_ws c : isplusmn c = true -> isws c = false.
Proof. unfold isplusmn, isws. intros H. apply orb_prop in H as [H|H]; apply N.eqb_eq in H; subst; reflexivity. Qed.
Lemma digit_not_ws c : isdigit c = true -> isws c = false.
Proof. intros H. destruct (isws c) eqn:E; [|reflexivity]. apply ws_not_digit in E. congruence. Qed.

(* ---------- completeness: a valid token at the front is consumed at least entirely ---------- *)
(* what remains after the mantissa scan of (m ++ tail): a suffix of tail, reached with a positive digit count;
   and when the token continues with a non-digit, non-dot byte, exactly tail remains *)
Lemma mantisa_complete m tail : Mant m ->
  let '(r, n) := skip_mantisa (m ++ tail) in 0 < n /\ sfx r tail /\
  ((starts isdigit tail = false /\ starts (ischr 46%N) tail = false) -> r = tail).
Proof.
  intros Hm. unfold skip_mantisa. destruct Hm as [sg d1 Hsg Hd1 Hne | sg d1 d2 Hsg Hd1 Hd2 Hne].
  - (* sg ++ d1 *)
    assert (Hopt : skip_opt isplusmn ((sg ++ d1) ++ tail) = d1 ++ tail).
    { destruct Hsg as [->|(c & -> & Hc)]; cbn [app skip_opt]; [|now rewrite Hc].
      destruct d1 as [|c r]; [congruence|]. cbn. apply andb_prop in Hd1 as [Hc _]. now rewrite (digit_not_sign _ Hc). }
    rewrite Hopt. rewrite skip_while_app by exact Hd1.
    set (l2 := skip_while isdigit tail).
    assert (Hn1 : used (d1 ++ tail) l2 = Z.of_nat (length d1) + used tail l2).
    { unfold used. rewrite app_length. lia. }
    assert (Hd1pos : 0 < Z.of_nat (length d1)) by (destruct d1; [congruence|cbn; lia]).
    pose proof (used_bounds _ _ (sfx_skip_while isdigit tail)) as Hb. fold l2 in Hb.
    destruct (starts (ischr 46%N) l2) eqn:Edot.
    + set (l3 := skip_while isdigit (tl l2)).
      pose proof (used_bounds _ _ (sfx_skip_while isdigit (tl l2))) as Hb3. fold l3 in Hb3.
      split; [lia|]. split.
      * eapply sfx_trans; [apply sfx_skip_while|]. eapply sfx_trans; [apply sfx_tl|apply sfx_skip_while].
      * intros [Hnd Hndot]. exfalso. subst l2. rewrite skip_while_stop in Edot by exact Hnd. congruence.
    + split; [lia|]. split; [apply sfx_skip_while|]. intros [Hnd _]. subst l2. now apply skip_while_stop.
  - (* sg ++ d1 ++ . ++ d2 *)
    assert (Hopt : skip_opt isplusmn ((sg ++ d1 ++ [46%N] ++ d2) ++ tail) = d1 ++ [46%N] ++ d2 ++ tail).
    { rewrite <- !app_assoc. destruct Hsg as [->|(c & -> & Hc)]; cbn [app skip_opt]; [|now rewrite Hc].
      destruct d1 as [|c r]; cbn; [reflexivity|]. apply andb_prop in Hd1 as [Hc _]. now rewrite (digit_not_sign _ Hc). }
    rewrite Hopt. rewrite skip_while_app by exact Hd1. cbn [app]. cbn [skip_while]. rewrite dot_not_digit.
    change (starts (ischr 46%N) (46%N :: d2 ++ tail)) with true. cbn iota. cbn [tl]. rewrite skip_while_app by exact Hd2.
    set (l3 := skip_while isdigit tail).
    pose proof (used_bounds _ _ (sfx_skip_while isdigit tail)) as Hb. fold l3 in Hb.
    assert (Hu1 : used (d1 ++ 46%N :: d2 ++ tail) (46%N :: d2 ++ tail) = Z.of_nat (length d1)).
    { unfold used. rewrite app_length. lia. }
    assert (Hu2 : used (d2 ++ tail) l3 = Z.of_nat (length d2) + used tail l3).
    { unfold used. rewrite app_length. lia. }
    rewrite Hu1, Hu2.
    assert (Hpos : 0 < Z.of_nat (length d1) + Z.of_nat (length d2)).
    { destruct Hne as [H|H]; [destruct d1|destruct d2]; try congruence; cbn [length]; lia. }
    split; [lia|]. split; [apply sfx_skip_while|]. intros [Hnd _]. subst l3. now apply skip_while_stop.
Qed.

Lemma used_sfx_ge t tail l' : sfx l' tail -> Z.of_nat (length t) <= used (t ++ tail) l'.
Proof. intros H. apply sfx_len in H. unfold used. rewrite app_length. lia. Qed.

Theorem decimal_complete t tail : Dec t -> Z.of_nat (length t) <= disp (lex_decimal (t ++ tail)).
Proof.
  intros Hd. unfold lex_decimal. destruct Hd as [m Hm | m e Hm He].
  - pose proof (mantisa_complete m tail Hm) as H. destruct (skip_mantisa (m ++ tail)) as [r n]. destruct H as (Hn & Hs & _).
    destruct (Z.eqb_spec n 0) as [E|_]; [lia|].
    pose proof (sfx_exponent (skip_while isws r)) as Hx. destruct (skip_exponent (skip_while isws r)) as [l3 mm]; cbn [fst] in Hx.
    cbn [disp mk]. destruct (mm =? 0); apply used_sfx_ge; [exact Hs|].
    eapply sfx_trans; [exact Hx|]. eapply sfx_trans; [apply sfx_skip_while|exact Hs].
  - rewrite <- app_assoc.
    destruct He as [w1 e w2 sg d Hw1 He Hw2 Hsg Hd Hdne].
    pose proof (mantisa_complete m ((w1 ++ [e] ++ w2 ++ sg ++ d) ++ tail) Hm) as H.
    destruct (skip_mantisa (m ++ (w1 ++ [e] ++ w2 ++ sg ++ d) ++ tail)) as [r n]. destruct H as (Hn & _ & Hr).
    assert (Hfirst : starts isdigit ((w1 ++ [e] ++ w2 ++ sg ++ d) ++ tail) = false /\ starts (ischr 46%N) ((w1 ++ [e] ++ w2 ++ sg ++ d) ++ tail) = false).
    { destruct w1 as [|c w1']; cbn [app starts].
      - split; [apply E_not_digit|apply E_not_dot]; exact He.
      - cbn in Hw1. apply andb_prop in Hw1 as [Hc _]. split; [apply ws_not_digit|apply ws_not_dot]; exact Hc. }
    specialize (Hr Hfirst). subst r.
    destruct (Z.eqb_spec n 0) as [E|_]; [lia|].
    (* white space, E, white space, sign, digits *)
    rewrite <- !app_assoc. rewrite skip_while_app by exact Hw1. cbn [app]. cbn [skip_while]. rewrite (E_not_ws _ He).
    unfold skip_exponent. cbn [starts]. rewrite He. cbn [tl].
    rewrite skip_while_app by exact Hw2.
    assert (Hnws : starts isws (sg ++ d ++ tail) = false).
    { destruct Hsg as [->|(c & -> & Hc)]; cbn [app starts]; [|apply sign_not_ws; exact Hc].
      destruct d as [|c dr]; [congruence|]. cbn in Hd. apply andb_prop in Hd as [Hc _]. cbn. apply digit_not_ws; exact Hc. }
    rewrite (skip_while_stop isws _ Hnws).
    assert (Hopt : skip_opt isplusmn (sg ++ d ++ tail) = d ++ tail).
    { destruct Hsg as [->|(c & -> & Hc)]; cbn [app skip_opt]; [|now rewrite Hc].
      destruct d as [|c dr]; [congruence|]. cbn in Hd. apply andb_prop in Hd as [Hc _]. cbn. now rewrite (digit_not_sign _ Hc). }
    rewrite Hopt. rewrite skip_while_app by exact Hd.
    set (l3 := skip_while isdigit tail).
    assert (Hu : used (d ++ tail) l3 = Z.of_nat (length d) + used tail l3) by (unfold used; rewrite app_length; lia).
    pose proof (used_bounds _ _ (sfx_skip_while isdigit tail)) as Hb. fold l3 in Hb.
    assert (Hdpos : 0 < Z.of_nat (length d)) by (destruct d; [congruence|cbn [length]; lia]).
    destruct (Z.eqb_spec (used (d ++ tail) l3) 0) as [E|_]; [lia|].
    cbn [disp mk].
    assert (Hs3 : sfx l3 tail) by apply sfx_skip_while.
    apply sfx_len in Hs3. unfold used. rewrite !app_length. cbn [length]. rewrite !app_length. lia.
Qed.
Print Assumptions decimal_complete.

(* ---------- soundness: what is consumed is in the language ---------- *)
Lemma skip_while_split p l : exists pre, l = pre ++ skip_while p l /\ all p pre.
Proof. induction l as [|c r IH]; cbn; [exists []; split; reflexivity|]. destruct (p c) eqn:E.
  - destruct IH as (pre & Hl & Ha). exists (c :: pre). split; [cbn; now rewrite <- Hl|]. unfold all; cbn. now rewrite E. 
  - exists []. split; reflexivity. Qed.
Lemma skip_opt_split l : exists sg, l = sg ++ skip_opt isplusmn l /\ optsign sg.
Proof. destruct l as [|c r]; cbn; [exists []; split; [reflexivity|now left]|]. destruct (isplusmn c) eqn:E.
  - exists [c]. split; [reflexivity|right; eauto].
  - exists []. split; [reflexivity|now left]. Qed.
Lemma used_app pre l' : used (pre ++ l') l' = Z.of_nat (length pre).
Proof. unfold used. rewrite app_length. lia. Qed.
Lemma used_zero_nil pre l' : used (pre ++ l') l' = 0 -> pre = [].
Proof. rewrite used_app. destruct pre; [reflexivity|cbn [length]; lia]. Qed.

Lemma mantisa_sound l : let '(r,n) := skip_mantisa l in 0 < n -> exists m, l = m ++ r /\ Mant m.
Proof.
  unfold skip_mantisa.
  destruct (skip_opt_split l) as (sg & Hl & Hsg). set (l1 := skip_opt isplusmn l) in *.
  destruct (skip_while_split isdigit l1) as (d1 & Hl1 & Hd1). set (l2 := skip_while isdigit l1) in *.
  assert (Hn1 : used l1 l2 = Z.of_nat (length d1)) by (rewrite Hl1 at 1; apply used_app).
  destruct (starts (ischr 46%N) l2) eqn:Edot.
  - destruct l2 as [|c l2'] eqn:El2; [discriminate|]. cbn in Edot. apply N.eqb_eq in Edot. subst c. cbn [tl].
    destruct (skip_while_split isdigit l2') as (d2 & Hl2 & Hd2). set (l3 := skip_while isdigit l2') in *.
    assert (Hn2 : used l2' l3 = Z.of_nat (length d2)) by (rewrite Hl2 at 1; apply used_app).
    intros Hpos. exists (sg ++ d1 ++ [46%N] ++ d2). split.
    + rewrite Hl, Hl1, Hl2. now rewrite <- !app_assoc.
    + apply Mant_frac; try assumption. rewrite Hn1, Hn2 in Hpos.
      destruct d1; [right; destruct d2; [cbn in Hpos; lia|congruence]|left; congruence].
  - intros Hpos. exists (sg ++ d1). split; [rewrite Hl, Hl1; now rewrite <- app_assoc|].
    apply Mant_int; try assumption. rewrite Hn1 in Hpos. destruct d1; [cbn in Hpos; lia|congruence].
Qed.

Lemma exponent_sound l : let '(r,k) := skip_exponent l in 0 < k ->
  exists e w2 sg d, l = [e] ++ w2 ++ sg ++ d ++ r /\ isE e = true /\ all isws w2 /\ optsign sg /\ all isdigit d /\ d <> [].
Proof.
  unfold skip_exponent. destruct l as [|e l0]; cbn [starts]; [intros; lia|]. destruct (isE e) eqn:He; [|intros; lia]. cbn [tl].
  destruct (skip_while_split isws l0) as (w2 & Hw & Hw2). set (l1 := skip_while isws l0) in *.
  destruct (skip_opt_split l1) as (sg & Hs & Hsg). set (l2 := skip_opt isplusmn l1) in *.
  destruct (skip_while_split isdigit l2) as (d & Hd & Hdd). set (l3 := skip_while isdigit l2) in *.
  intros Hpos. exists e, w2, sg, d. repeat split; try assumption.
  - cbn [app]. f_equal. rewrite Hw, Hs, Hd at 1. reflexivity.
  - rewrite Hd in Hpos at 1. rewrite used_app in Hpos. destruct d; [cbn in Hpos; lia|congruence].
Qed.

Lemma firstn_used pre l' : firstn (Z.to_nat (used (pre ++ l') l')) (pre ++ l') = pre.
Proof. rewrite used_app, Nat2Z.id. rewrite firstn_app, Nat.sub_diag, firstn_all. cbn. now rewrite app_nil_r. Qed.

Lemma mantisa_nonneg l : 0 <= snd (skip_mantisa l).
Proof. unfold skip_mantisa. set (l1 := skip_opt isplusmn l). set (l2 := skip_while isdigit l1).
  pose proof (used_bounds _ _ (sfx_skip_while isdigit l1)) as H1. fold l2 in H1.
  destruct (starts _ l2); cbn [snd]; [|lia].
  pose proof (used_bounds _ _ (sfx_skip_while isdigit (tl l2))) as H2. lia. Qed.
Lemma exponent_nonneg l : 0 <= snd (skip_exponent l).
Proof. unfold skip_exponent. destruct (starts isE l); cbn [snd]; [|lia].
  apply used_bounds. apply sfx_skip_while. Qed.

Theorem decimal_sound l : 0 < disp (lex_decimal l) -> Dec (firstn (Z.to_nat (disp (lex_decimal l))) l).
Proof.
  unfold lex_decimal. pose proof (mantisa_sound l) as Hm. pose proof (mantisa_nonneg l) as Hn0.
  destruct (skip_mantisa l) as [l1 n]. cbn [snd] in Hn0.
  destruct (Z.eqb_spec n 0) as [E|Hn].
  - cbn [disp mk]. unfold used. lia.
  - destruct (Hm ltac:(lia)) as (m & Hl & HM).
    destruct (skip_while_split isws l1) as (w1 & Hw & Hw1). set (lw := skip_while isws l1) in *.
    pose proof (exponent_sound lw) as He. pose proof (exponent_nonneg lw) as Hk0.
    destruct (skip_exponent lw) as [l3 k]. cbn [snd] in Hk0.
    destruct (Z.eqb_spec k 0) as [Ek|Hk]; cbn [disp mk]; intros _.
    + rewrite Hl. rewrite firstn_used. now apply Dec_m.
    + destruct (He ltac:(lia)) as (e & w2 & sg & d & Hlw & HE & Hw2 & Hsg & Hd & Hdne).
      assert (Hfull : l = (m ++ (w1 ++ [e] ++ w2 ++ sg ++ d)) ++ l3).
      { rewrite Hl, Hw, Hlw. now rewrite <- !app_assoc. }
      rewrite Hfull. rewrite firstn_used. apply Dec_me; [exact HM|]. now apply Expo_mk.
Qed.

(* ---------- the C13 statement for this recogniser ---------- *)
Definition longest (L:bytes -> Prop) (s:bytes) (n:Z) : Prop :=
  (0 <= n /\ n <= Z.of_nat (length s)) /\
  ((0 < n) -> L (firstn (Z.to_nat n) s)) /\
  (forall m, (n < m /\ m <= Z.of_nat (length s)) -> ~ L (firstn (Z.to_nat m) s)).
Lemma dec_nonempty t : Dec t -> t <> [].
Proof. assert (HM : forall m, Mant m -> m <> []).
  { intros m [sg d1 _ _ Hne|sg d1 d2 _ _ _ _]; intro E; apply app_eq_nil in E as [_ E]; [congruence|].
    apply app_eq_nil in E as [_ E]. discriminate. }
  intros [m Hm|m e Hm _] E; [now apply (HM m)|]. apply app_eq_nil in E as [E _]. now apply (HM m). Qed.
Theorem lex_decimal_longest s : longest Dec s (disp (lex_decimal s)).
Proof.
  pose proof (decimal_inside s) as (Hb & _). split; [exact Hb|]. split; [apply decimal_sound|].
  intros m Hm HL.
  pose proof (decimal_complete _ (skipn (Z.to_nat m) s) HL) as Hc. rewrite firstn_skipn in Hc.
  rewrite firstn_length in Hc. lia.
Qed.
(* the reported token agrees with what was consumed *)
Lemma lex_decimal_token s : let r := lex_decimal s in
   (ptr (tok r) = 0) /\ (len (tok r) = disp r) /\ (ret r = disp r) /\
   (ty (tok r) = (if (0 <? disp r) then T_DECIMAL else T_UNKNOWN)).
Proof. unfold lex_decimal. destruct (skip_mantisa s). cbn. repeat split. Qed.
Print Assumptions lex_decimal_longest.
