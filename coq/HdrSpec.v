(* C13: compound program headers  :?mnemonic(:mnemonic)*\??  are recognised exactly (completeness direction) *)
From Coq Require Import Bool List NArith ZArith Lia.
From M Require Import LexModel LexBounds DecSpec MoreSpecs.
Import ListNotations.
Local Open Scope Z_scope.

Definition Mnem (m:bytes) : Prop := exists c r, m = c :: r /\ isalpha c = true /\ all ismnem r.
(* rest does not continue a mnemonic *)
Definition mstop (rest:bytes) : Prop := starts ismnem rest = false.

Lemma skip_mnemonic_at m rest : Mnem m -> mstop rest ->
  skip_mnemonic (m ++ rest) = (rest, if iseos rest then - Z.of_nat (length m) else Z.of_nat (length m)).
Proof.
  intros (c & r & -> & Hc & Hr) Hs. unfold skip_mnemonic. cbn [app starts tl]. rewrite Hc.
  rewrite skip_while_app by exact Hr. rewrite skip_while_stop by exact Hs.
  assert (Hu : used (c :: r ++ rest) rest = Z.of_nat (length (c :: r))).
  { unfold used. cbn [length]. rewrite app_length. unfold bytes, byte in *. lia. }
  rewrite Hu. reflexivity.
Qed.

(* the tail of a compound header: (: mnemonic)* *)
Fixpoint tail_text (ms:list bytes) : bytes := match ms with [] => [] | m :: r => 58%N :: m ++ tail_text r end.
Definition hstop (rest:bytes) : Prop := mstop rest /\ starts (ischr 58%N) rest = false.

Lemma mnem_len_pos m : Mnem m -> (1 <= length m)%nat.
Proof. intros (c & r & -> & _). cbn [length]. lia. Qed.

Lemma compound_loop_tail : forall ms fuel rest, Forall Mnem ms -> hstop rest -> (length ms < fuel)%nat ->
  compound_loop fuel (tail_text ms ++ rest) = (rest, SK_OK).
Proof.
  induction ms as [|m r IH]; intros fuel rest Hm [Hms Hc] Hf.
  - cbn [tail_text app]. destruct fuel as [|f]; [reflexivity|]. cbn [compound_loop]. now rewrite Hc.
  - destruct fuel as [|f]; [cbn in Hf; lia|]. inversion Hm as [|? ? Hm1 Hmr]; subst.
    cbn [tail_text app compound_loop starts]. rewrite ischr_refl. cbn [tl]. rewrite <- app_assoc.
    assert (Hstop : mstop (tail_text r ++ rest)).
    { unfold mstop. destruct r as [|m2 r2]; [cbn [tail_text app]; exact Hms|]. cbn [tail_text app starts]. reflexivity. }
    rewrite (skip_mnemonic_at m (tail_text r ++ rest) Hm1 Hstop).
    pose proof (mnem_len_pos m Hm1) as Hl.
    destruct (iseos (tail_text r ++ rest)) eqn:Ee.
    + (* reached the end of the input: nothing follows *)
      assert (Hnil : tail_text r ++ rest = []) by (destruct (tail_text r ++ rest); [reflexivity|discriminate]).
      apply app_eq_nil in Hnil as [Hr ->]. destruct r; [|discriminate]. cbn [tail_text app].
      destruct (Z.leb_spec (- Z.of_nat (length m)) (-1)); [reflexivity|lia].
    + destruct (Z.leb_spec (Z.of_nat (length m)) (-1)); [lia|]. destruct (Z.eqb_spec (Z.of_nat (length m)) 0); [lia|].
      apply IH; [exact Hmr|split; assumption|]; cbn [length] in Hf; lia.
Qed.

Lemma tail_len ms : Forall Mnem ms -> (2 * length ms <= length (tail_text ms))%nat.
Proof. induction 1 as [|m r Hm Hr IH]; [cbn; lia|]. cbn [tail_text length]. rewrite app_length. apply mnem_len_pos in Hm. lia. Qed.

Definition header_text (lead:bool) (m1:bytes) (ms:list bytes) : bytes := (if lead then [58%N] else []) ++ m1 ++ tail_text ms.

(* a compound header, optionally a query, followed by something that cannot continue it *)
Theorem compound_complete lead m1 ms (q:bool) rest : Mnem m1 -> Forall Mnem ms ->
  (if q then True else hstop rest /\ starts (ischr 63%N) rest = false) ->
  let t := header_text lead m1 ms in let n := Z.of_nat (length t) + (if q then 1 else 0) in
  lex_header (t ++ (if q then 63%N :: rest else rest)) = mk (if q then T_COMPOUND_QUERY_HDR else T_COMPOUND_HDR) 0 n n n.
Proof.
  intros Hm1 Hms Hrest t n. set (rest' := if q then 63%N :: rest else rest).
  assert (Hst : hstop rest') by (subst rest'; destruct q; [split; reflexivity|exact (proj1 Hrest)]).
  destruct Hm1 as (c & r & Em1 & Hc & Hr). pose proof (conj Hc Hr) as Hm1'. 
  assert (Hm1 : Mnem m1) by (exists c, r; auto).
  (* not a common header *)
  assert (Hnc : skip_common_header (t ++ rest') = (t ++ rest', SK_NONE)).
  { unfold skip_common_header, t, header_text. destruct lead; cbn [app starts]; [reflexivity|]. rewrite Em1. cbn [app starts].
    unfold ischr. destruct (N.eqb_spec c 42) as [->|_]; [discriminate Hc|reflexivity]. }
  (* the compound scan *)
  assert (Hcomp : skip_compound_header (t ++ rest') = (rest', SK_OK)).
  { unfold skip_compound_header.
    assert (Hl0 : skip_opt (ischr 58%N) (t ++ rest') = m1 ++ tail_text ms ++ rest').
    { unfold t, header_text. destruct lead; cbn [app skip_opt]; [rewrite ischr_refl; now rewrite <- app_assoc|].
      rewrite Em1. cbn [app skip_opt]. unfold ischr. destruct (N.eqb_spec c 58) as [->|_]; [discriminate Hc|]. now rewrite <- app_assoc. }
    rewrite Hl0.
    assert (Hstop : mstop (tail_text ms ++ rest')).
    { unfold mstop. destruct ms as [|m2 r2]; [cbn [tail_text app]; exact (proj1 Hst)|reflexivity]. }
    rewrite (skip_mnemonic_at m1 _ Hm1 Hstop). pose proof (mnem_len_pos m1 Hm1) as Hl.
    destruct (tail_text ms ++ rest') as [|x xs] eqn:Etl; cbn [iseos].
    - apply app_eq_nil in Etl as [_ Hr']. rewrite Hr'.
      destruct (Z.leb_spec 1 (- Z.of_nat (length m1))); [lia|]. destruct (Z.leb_spec (- Z.of_nat (length m1)) (-1)); [reflexivity|lia].
    - destruct (Z.leb_spec 1 (Z.of_nat (length m1))); [|lia]. rewrite <- Etl.
      apply compound_loop_tail; [exact Hms|exact Hst|]. pose proof (tail_len ms Hms). rewrite app_length.
      destruct ms as [|m2 r2]; [|cbn [length] in *; lia].
      cbn [tail_text app length] in *. rewrite Etl. cbn [length]. lia. }
  unfold lex_header. change (if q then 63%N :: rest else rest) with rest'.
  destruct (skip_common_header _) as [l1 r1] eqn:E1. injection Hnc as -> ->.
  destruct (skip_compound_header _) as [l2 r2] eqn:E2. injection Hcomp as -> ->.
  assert (Hu : forall l', used (t ++ rest') l' = Z.of_nat (length t) + Z.of_nat (length rest') - Z.of_nat (length l')).
  { intro l'. unfold used. rewrite app_length. unfold bytes, byte in *. lia. }
  subst rest' n. destruct q.
  - cbn [starts]. rewrite ischr_refl. cbn [tl]. rewrite Hu. cbn [length]. f_equal; unfold bytes, byte in *; lia.
  - destruct Hrest as [_ Hq]. rewrite Hq. rewrite Hu. f_equal; unfold bytes, byte in *; lia.
Qed.
Print Assumptions compound_complete.

(* common headers: * mnemonic \?? *)
Theorem common_complete m (q:bool) rest : Mnem m ->
  (if q then True else mstop rest /\ starts (ischr 63%N) rest = false) ->
  let t := 42%N :: m in let n := Z.of_nat (length t) + (if q then 1 else 0) in
  lex_header (t ++ (if q then 63%N :: rest else rest)) = mk (if q then T_COMMON_QUERY_HDR else T_COMMON_HDR) 0 n n n.
Proof.
  intros Hm Hrest t n. set (rest' := if q then 63%N :: rest else rest).
  assert (Hst : mstop rest') by (subst rest'; destruct q; [reflexivity|exact (proj1 Hrest)]).
  pose proof (mnem_len_pos m Hm) as Hl.
  assert (Hc : skip_common_header (t ++ rest') = (rest', SK_OK)).
  { unfold skip_common_header, t. cbn [app starts]. rewrite ischr_refl. cbn [tl]. pose proof (skip_mnemonic_at m rest' Hm Hst) as Hsm.
    destruct (skip_mnemonic _) as [l' res] eqn:Es. injection Hsm as -> ->.
    destruct rest' as [|x xs]; cbn [iseos].
    - destruct (Z.eqb_spec (- Z.of_nat (length m)) 0); [lia|]. cbn [andb]. destruct (Z.leb_spec (- Z.of_nat (length m)) (-1)); [reflexivity|lia].
    - rewrite andb_false_r. destruct (Z.leb_spec (Z.of_nat (length m)) (-1)); [lia|]. destruct (Z.leb_spec 1 (Z.of_nat (length m))); [reflexivity|lia]. }
  unfold lex_header. change (if q then 63%N :: rest else rest) with rest'.
  destruct (skip_common_header _) as [l1 r1] eqn:E1. injection Hc as -> ->.
  assert (Hu : forall l', used (t ++ rest') l' = Z.of_nat (length t) + Z.of_nat (length rest') - Z.of_nat (length l')).
  { intro l'. unfold used. rewrite app_length. unfold bytes, byte in *. lia. }
  subst rest' n. destruct q.
  - cbn [starts]. rewrite ischr_refl. cbn [tl]. rewrite Hu. cbn [length]. f_equal; unfold bytes, byte in *; lia.
  - destruct Hrest as [_ Hq]. rewrite Hq. rewrite Hu. f_equal; unfold bytes, byte in *; lia.
Qed.
Print Assumptions common_complete.
