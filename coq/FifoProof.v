From Coq Require Import Bool List ZArith Lia.
Import ListNotations.
Local Open Scope Z_scope.
Ltac Zify.zify_post_hook ::= Z.div_mod_to_equations.

Section Fifo.
Variable A : Type.
Variable a0 : A.
Record fifo := { fdata : list A; fwr : Z; frd : Z; fcount : Z; fsize : Z }.
Fixpoint sete (d:list A) (i:nat) (v:A) : list A :=
  match d, i with [], _ => [] | _::r, O => v::r | c::r, S i' => c :: sete r i' v end.
Definition fifo_add (f:fifo) (v:A) : bool * fifo :=
  if fcount f =? fsize f then (false, f) else
  (true, {| fdata := sete (fdata f) (Z.to_nat (fwr f)) v; fwr := (fwr f + 1) mod fsize f; frd := frd f; fcount := fcount f + 1; fsize := fsize f |}).
Definition fifo_remove (f:fifo) : option A * fifo :=
  if fcount f =? 0 then (None, f) else
  (Some (nth (Z.to_nat (frd f)) (fdata f) a0), {| fdata := fdata f; fwr := fwr f; frd := (frd f + 1) mod fsize f; fcount := fcount f - 1; fsize := fsize f |}).
Definition fifo_remove_last (f:fifo) : option A * fifo :=
  if fcount f =? 0 then (None, f) else
  let wr' := (fwr f + fsize f - 1) mod fsize f in
  (Some (nth (Z.to_nat wr') (fdata f) a0), {| fdata := fdata f; fwr := wr'; frd := frd f; fcount := fcount f - 1; fsize := fsize f |}).

Definition Inv (f:fifo) : Prop :=
  0 < fsize f /\ Z.of_nat (length (fdata f)) = fsize f /\ 0 <= frd f < fsize f /\ 0 <= fcount f <= fsize f /\
  fwr f = (frd f + fcount f) mod fsize f.
Definition at_ (f:fifo) (i:nat) : A := nth (Z.to_nat ((frd f + Z.of_nat i) mod fsize f)) (fdata f) a0.
Definition abs (f:fifo) : list A := map (at_ f) (seq 0 (Z.to_nat (fcount f))).

Lemma sete_length d i v : length (sete d i v) = length d.
Proof. revert i; induction d as [|c r IH]; intros [|i]; cbn; auto. Qed.
Lemma nth_sete_same d i v : (i < length d)%nat -> nth i (sete d i v) a0 = v.
Proof. revert i; induction d as [|c r IH]; intros [|i] H; cbn in *; try lia; auto. apply IH; lia. Qed.
Lemma nth_sete_other d i j v : i <> j -> nth j (sete d i v) a0 = nth j d a0.
Proof. revert i j; induction d as [|c r IH]; intros [|i] [|j] H; cbn; auto; try congruence. Qed.

Lemma add_spec f v : Inv f -> fcount f < fsize f ->
  let f' := snd (fifo_add f v) in fst (fifo_add f v) = true /\ Inv f' /\ abs f' = abs f ++ [v].
Proof.
  intros (Hs & Hl & Hr & Hc & Hw) Hlt. unfold fifo_add.
  destruct (Z.eqb_spec (fcount f) (fsize f)) as [E|_]; [lia|]. cbn [fst snd].
  split; [reflexivity|]. split.
  - unfold Inv; cbn [fdata fwr frd fcount fsize]. rewrite sete_length. repeat split; try lia.
    rewrite Hw. rewrite Zplus_mod_idemp_l. f_equal. lia.
  - unfold abs; cbn [fcount]. replace (Z.to_nat (fcount f + 1)) with (S (Z.to_nat (fcount f))) by lia.
    rewrite seq_S, map_app. cbn [map]. f_equal.
    + apply map_ext_in. intros i Hi. apply in_seq in Hi. unfold at_; cbn [fdata frd fsize].
      apply nth_sete_other. rewrite Hw. intro E.
      assert (E' : (frd f + fcount f) mod fsize f = (frd f + Z.of_nat i) mod fsize f) by lia.
      assert (Hi' : 0 <= Z.of_nat i < fcount f) by lia.
      (* residues of two numbers less than size apart coincide only if equal *)
      assert ((fcount f - Z.of_nat i) mod fsize f = 0).
      { replace (fcount f - Z.of_nat i) with ((frd f + fcount f) - (frd f + Z.of_nat i)) by lia.
        rewrite Zminus_mod, E', Z.sub_diag. apply Z.mod_0_l. lia. }
      rewrite Z.mod_small in H by lia. lia.
    + f_equal. unfold at_; cbn [fdata frd fsize]. cbn [Nat.add]. rewrite Z2Nat.id by lia.
      rewrite <- Hw. apply nth_sete_same.
      assert (0 <= fwr f < fsize f) by (rewrite Hw; apply Z.mod_pos_bound; lia). lia.
Qed.

Lemma remove_spec f : Inv f -> 0 < fcount f ->
  exists e, fst (fifo_remove f) = Some e /\ Inv (snd (fifo_remove f)) /\ abs f = e :: abs (snd (fifo_remove f)).
Proof.
  intros (Hs & Hl & Hr & Hc & Hw) Hgt. unfold fifo_remove.
  destruct (Z.eqb_spec (fcount f) 0) as [E|_]; [lia|]. cbn [fst snd]. eexists; split; [reflexivity|]. split.
  - unfold Inv; cbn [fdata fwr frd fcount fsize]. repeat split; try lia; try (apply Z.mod_pos_bound; lia).
    rewrite Hw, Zplus_mod_idemp_l. f_equal. lia.
  - unfold abs; cbn [fcount]. replace (Z.to_nat (fcount f)) with (S (Z.to_nat (fcount f - 1))) by lia.
    cbn [seq map]. f_equal.
    + unfold at_. cbn [Z.of_nat]. rewrite Z.add_0_r, Z.mod_small by lia. reflexivity.
    + rewrite <- seq_shift, map_map. apply map_ext. intro i. unfold at_; cbn [fdata frd fsize].
      f_equal. f_equal. rewrite Zplus_mod_idemp_l. f_equal. lia.
Qed.

Lemma remove_last_spec f : Inv f -> 0 < fcount f ->
  exists e, fst (fifo_remove_last f) = Some e /\ Inv (snd (fifo_remove_last f)) /\ abs f = abs (snd (fifo_remove_last f)) ++ [e].
Proof.
  intros (Hs & Hl & Hr & Hc & Hw) Hgt. unfold fifo_remove_last.
  destruct (Z.eqb_spec (fcount f) 0) as [E|_]; [lia|]. cbn [fst snd]. eexists; split; [reflexivity|].
  assert (Hwr : (fwr f + fsize f - 1) mod fsize f = (frd f + (fcount f - 1)) mod fsize f).
  { rewrite Hw. replace ((frd f + fcount f) mod fsize f + fsize f - 1) with (((frd f + fcount f) mod fsize f + (fsize f - 1))) by lia.
    rewrite Zplus_mod_idemp_l. replace (frd f + fcount f + (fsize f - 1)) with ((frd f + (fcount f - 1)) + 1 * fsize f) by lia.
    apply Z_mod_plus_full. }
  split.
  - unfold Inv; cbn [fdata fwr frd fcount fsize]. repeat split; try lia; try exact Hwr.
  - unfold abs; cbn [fcount]. replace (Z.to_nat (fcount f)) with (S (Z.to_nat (fcount f - 1))) by lia.
    rewrite seq_S, map_app. cbn [map Nat.add]. f_equal. f_equal. unfold at_.
    rewrite Z2Nat.id by lia. rewrite Hwr. reflexivity.
Qed.
End Fifo.
Print Assumptions add_spec.
Print Assumptions remove_last_spec.
