(* C07, signed decimal integers: what SCPI_ResultInt32/64 write reads back, through the strtol model, to the same value *)
From Coq Require Import Bool List NArith ZArith Lia Zify.
From M Require Import FmtModel IntFmtProofs.
From M Require Import LexModel LexBounds DecSpec MoreSpecs.
From M Require Import ParserModel RtBlock StrTo.
Import ListNotations.
Local Open Scope Z_scope.

(* decimal digit characters: the two digit-value functions agree, and the digits int2str writes are strtol digits *)
Lemma digval_dec c : isdigit c = true -> digval c = Z.of_N c - 48 /\ isdig 10 c = true.
Proof.
  intro H. unfold isdigit, inr in H. apply andb_prop in H as [A B]. apply N.leb_le in A. apply N.leb_le in B.
  unfold isdig, digval. destruct ((48 <=? c) && (c <=? 57))%N eqn:E.
  - split; [reflexivity|]. apply Z.ltb_lt. lia.
  - apply andb_false_iff in E as [E|E]; apply N.leb_gt in E; lia.
Qed.
Lemma pval_dval ds : all isdigit ds -> forall acc, fold_left (fun a c => a * 10 + digval c) ds acc = dval acc ds.
Proof.
  induction ds as [|c r IH]; intros Ha acc; [reflexivity|]. unfold all in Ha. cbn [forallb] in Ha. apply andb_prop in Ha as [Hc Hr].
  unfold dval. cbn [fold_left]. destruct (digval_dec c Hc) as [E _]. rewrite E. apply IH. exact Hr.
Qed.
Lemma all_isdig ds : all isdigit ds -> forallb (isdig 10) ds = true.
Proof. unfold all. intro H. rewrite forallb_forall in *. intros c Hc. apply (digval_dec c (H c Hc)). Qed.

(* the canonical decimal digits of u > 0 *)
Lemma canon_digits_value u : 0 < u < 2 ^ 64 ->
  let ds := bz (canon_digits 10 u) in ds <> [] /\ all isdigit ds /\ pval 10 ds = u.
Proof.
  intros Hu ds. subst ds. unfold canon_digits.
  pose proof (top_spec 64 10 u ltac:(lia) ltac:(lia) ltac:(change (Z.of_nat 64) with 64; lia)) as [T1 T2].
  split; [|split].
  - cbn [digits_fix bz map]. discriminate.
  - apply digits_fix_isdigit.
  - unfold pval. rewrite pval_dval by apply digits_fix_isdigit. rewrite dval_digits_fix by lia. rewrite Z.mod_small by lia. lia.
Qed.

(* SCPI_ResultInt32/Int64 then SCPI_ParamInt32/Int64, on the conversion level: for every value of the width, and any continuation
   that is not a digit (a comma, a blank, a line end, nothing) *)
Theorem rt_signed w v rest : (w = 32 \/ w = 64) -> - 2 ^ (w - 1) <= v < 2 ^ (w - 1) -> stops 10 rest ->
  let '(s, _, _) := int2str w v (w + 1) 10 true in
  let '(used, m, ng) := strto (bz s ++ rest) 10 in (0 <? used) = true /\ wraps w (strtol_val m ng) = v.
Proof.
  intros Hw Hv Hs. rewrite (int2str_exact w v (w + 1) 10 true Hw ltac:(destruct Hw; subst; lia)). cbv zeta.
  assert (H2w : 2 ^ w = 2 * 2 ^ (w - 1)) by (destruct Hw; subst; reflexivity).
  assert (Hp : 0 < 2 ^ (w - 1)) by (destruct Hw; subst; reflexivity).
  assert (Hw64 : 2 ^ w <= 2 ^ 64) by (destruct Hw; subst; [vm_compute; discriminate|lia]).
  unfold canonical, eff_base. cbn [Z.eqb Pos.eqb].
  destruct (Z.eqb_spec (v mod 2 ^ w) 0) as [E0|E0].
  - (* zero *)
    assert (v = 0).
    { pose proof (Z.div_mod v (2 ^ w) ltac:(lia)) as Hdm. rewrite E0, Z.add_0_r in Hdm. set (qq := v / 2 ^ w) in *.
      destruct (Z.lt_trichotomy qq 0) as [Hq|[Hq|Hq]].
      - assert (2 ^ w * qq <= - 2 ^ w) by nia. lia.
      - rewrite Hq in Hdm. lia.
      - assert (2 ^ w <= 2 ^ w * qq) by nia. lia. }
    subst v. rewrite firstn_all2 by (cbn [length]; destruct Hw; subst; lia). cbn [bz map app]. change (Z.to_N 48) with 48%N.
    pose proof (strto_dec [] [] [48%N] rest false eq_refl eq_refl ltac:(discriminate) eq_refl Hs) as H. cbn [app length] in H. rewrite H.
    split; [reflexivity|]. apply (signed_exact w 0 false Hw); cbn; lia.
  - destruct (Z.lt_ge_cases v 0) as [Hneg|Hpos].
    + (* negative: "-" then the digits of -v *)
      assert (Hm : v mod 2 ^ w = v + 2 ^ w) by (rewrite <- (Z.mod_add v 1) by lia; rewrite Z.mul_1_l; apply Z.mod_small; lia).
      rewrite Hm. assert (Hge : (2 ^ (w - 1) <=? v + 2 ^ w) = true) by (apply Z.leb_le; lia). rewrite Hge. cbn [andb].
      assert (Hu : (2 ^ w - (v + 2 ^ w)) mod 2 ^ w = - v) by (replace (2 ^ w - (v + 2 ^ w)) with (- v) by lia; apply Z.mod_small; lia). rewrite Hu.
      destruct (canon_digits_value (- v) ltac:(lia)) as (Dn & Dd & Dv). cbv zeta in Dn, Dd, Dv.
      assert (Hlen : (length ([45%Z] ++ canon_digits 10 (- v)) <= Z.to_nat (w + 1))%nat).
      { cbn [app length]. unfold canon_digits. rewrite digits_fix_length.
        pose proof (top_spec 64 10 (- v) ltac:(lia) ltac:(lia) ltac:(change (Z.of_nat 64) with 64; lia)) as [T1 _].
        assert (Ht : (top 64 10 (- v) <= 19)%nat).
        { destruct (Nat.le_gt_cases (top 64 10 (- v)) 19); [assumption|exfalso]. assert (10 ^ 20 <= 10 ^ Z.of_nat (top 64 10 (- v))) by (apply Z.pow_le_mono_r; lia). lia. }
        destruct Hw; subst; [|lia]. destruct (Nat.le_gt_cases (top 64 10 (- v)) 9); [lia|exfalso].
        assert (10 ^ 10 <= 10 ^ Z.of_nat (top 64 10 (- v))) by (apply Z.pow_le_mono_r; lia). lia. }
      rewrite firstn_all2 by exact Hlen. unfold bz. rewrite map_app. cbn [map]. fold (bz (canon_digits 10 (- v))).
      change (Z.to_N 45) with 45%N. rewrite <- app_assoc.
      pose proof (strto_dec [] [45%N] (bz (canon_digits 10 (- v))) rest true eq_refl eq_refl Dn (all_isdig _ Dd) Hs) as H. cbn [app length] in H.
      cbn [app]. rewrite H. rewrite Dv. split; [apply Z.ltb_lt; destruct (bz (canon_digits 10 (- v))); [congruence|cbn [length]; lia]|].
      pose proof (signed_exact w (- v) true Hw ltac:(lia)) as Hx. cbn zeta in Hx. rewrite Hx by lia. lia.
    + (* positive *)
      assert (Hm : v mod 2 ^ w = v) by (apply Z.mod_small; lia). rewrite Hm.
      assert (Hlt : (2 ^ (w - 1) <=? v) = false) by (apply Z.leb_gt; lia). rewrite Hlt. cbn [andb app].
      destruct (canon_digits_value v ltac:(lia)) as (Dn & Dd & Dv). cbv zeta in Dn, Dd, Dv.
      assert (Hlen : (length (canon_digits 10 v) <= Z.to_nat (w + 1))%nat).
      { unfold canon_digits. rewrite digits_fix_length.
        pose proof (top_spec 64 10 v ltac:(lia) ltac:(lia) ltac:(change (Z.of_nat 64) with 64; lia)) as [T1 _].
        assert (Ht : (top 64 10 v <= 19)%nat).
        { destruct (Nat.le_gt_cases (top 64 10 v) 19); [assumption|exfalso]. assert (10 ^ 20 <= 10 ^ Z.of_nat (top 64 10 v)) by (apply Z.pow_le_mono_r; lia). lia. }
        destruct Hw; subst; lia. }
      rewrite firstn_all2 by exact Hlen.
      pose proof (strto_dec [] [] (bz (canon_digits 10 v)) rest false eq_refl eq_refl Dn (all_isdig _ Dd) Hs) as H. cbn [app length] in H.
      rewrite H. rewrite Dv. split; [apply Z.ltb_lt; destruct (bz (canon_digits 10 v)); [congruence|cbn [length]; lia]|].
      pose proof (signed_exact w v false Hw Hpos) as Hx. cbn zeta in Hx. apply Hx. lia.
Qed.
Print Assumptions rt_signed.
