(* C12, stickiness at the command layer: along every history of API operations, status commands and user writes to the
   status byte, bits 0..15 of an event register only grow unless the history contains one of ITS clearing operations:
   its own event query ( *ESR?, STAT:OPER[:EVEN]?, STAT:QUES[:EVEN]?), STAT:PRES for the questionable register, *CLS,
   or an API write to that register.  In particular *OPC [which sets a bit of ESR], the enable commands, the condition and
   enable queries, *STB?, SYST:ERR? and SYST:ERR:COUN? never take an event bit away. *)
From Coq Require Import Bool List NArith ZArith Lia.
From M Require Import RegModel RegProofs C12Latch CmdModel CmdLayer StbUser.
Import ListNotations.
Local Open Scope N_scope.

Definition cmd_clears (e:reg) (c:cmd) : Prop :=
  c = KCls \/ (e = ESR /\ c = KEsrQ) \/ (e = OPER /\ c = KOperEvQ) \/ (e = QUES /\ (c = KQuesEvQ \/ c = KPreset)).
Definition xclears (e:reg) (x:xact) : Prop :=
  match x with XA (AOp o) => clears e o | XA (ACmd c) => cmd_clears e c | XStb _ _ => False end.

Lemma wr_setbits_keeps s r b e : is_event e -> keeps16 (rg s e) (rg (fst (wr s r (N.lor (rg s r) b))) e).
Proof.
  intros He. unfold wr. pose proof (regsetbits_keeps (rg s) r b [] e He) as H. unfold RegSetBits in H.
  destruct (RegSet (rg s) r (N.lor (rg s r) b) []) as [r1 cb]. cbn [fst rg] in *. exact H.
Qed.

Lemma cmd_keeps e s c : is_event e -> ~ cmd_clears e c -> keeps16 (rg s e) (rg (fst (cmd_do s c)) e).
Proof.
  intros He Hn. unfold cmd_clears in Hn.
  destruct c; cbn [cmd_do fst]; try apply keeps16_refl;
    try (apply wr_keeps; [exact He|]; intros <-; first [ destruct He as [E|[E|E]]; discriminate E | apply Hn; tauto ]).
  - exfalso. apply Hn. now left.
  - apply wr_setbits_keeps. exact He.
  - now apply pop_keeps.
Qed.

Lemma xstep_keeps e s x : is_event e -> ~ xclears e x -> keeps16 (rg s e) (rg (xstep s x) e).
Proof.
  intros He Hn. destruct x as [[o|c]|setb b]; cbn [xstep act_step xclears] in *.
  - apply (event_bits_sticky e He [o] s). constructor; [exact Hn|constructor].
  - unfold run_cmd. cbn [fst]. now apply cmd_keeps.
  - unfold stb_user, reg_bits. apply wr_keeps; [exact He|]. intros <-. destruct He as [E|[E|E]]; discriminate E.
Qed.

Theorem event_bits_sticky_cmds e : is_event e -> forall xs s, Forall (fun x => ~ xclears e x) xs ->
  keeps16 (rg s e) (rg (fold_left xstep xs s) e).
Proof.
  intros He xs. induction xs as [|x l IH]; intros s Hf; [apply keeps16_refl|].
  inversion Hf as [|x' l' Hx Hl]; subst. cbn [fold_left]. eapply keeps16_trans; [|apply IH; exact Hl]. now apply xstep_keeps.
Qed.

(* non-vacuity: an execution error, then commands that are not clearing operations of ESR; bit 4 (execution error) is still there,
   and *OPC has added bit 0 *)
Example sticky_under_commands :
  let s := fold_left xstep [XA (AOp (OPush (-222)%Z)); XA (ACmd KOpc); XA (ACmd (KEse 255)); XA (ACmd KStbQ); XA (ACmd KOperEvQ); XA (ACmd KPreset);
                            XA (ACmd KErrNextQ); XStb true 16; XA (ACmd KEseQ)] (init 4) in
  rg s ESR = 17 /\ Forall (fun x => ~ xclears ESR x) [XA (ACmd KOpc); XA (ACmd KOperEvQ); XA (ACmd KPreset); XStb true 16].
Proof.
  split; [vm_compute; reflexivity|]. repeat constructor; cbn; unfold cmd_clears; intros H;
  repeat match goal with H : _ \/ _ |- _ => destruct H | H : _ /\ _ |- _ => destruct H end; try discriminate; try assumption.
Qed.

Print Assumptions event_bits_sticky_cmds.
