(* C15 for SCPI_NumberToStr: with the corrected strncat bound no byte is stored outside the buffer; with the current bound one is *)
From Coq Require Import Bool List ZArith Lia.
From M Require Import FmtModel GFmt BufModel.
Import ListNotations.
Local Open Scope bool_scope.
Local Open Scope Z_scope.

(* the function with the bound of the second strncat as a parameter: k = 1 is the code as it is, k = 2 the fix *)
Definition number_to_str_k (k:Z) (text:list Z) (unit:option (list Z)) (len:Z) : buf * bool :=
  let b0 : buf := repeat None (Z.to_nat len) in
  if len =? 0 then (b0, false) else
  let '(s, _, r, _) := fp_to_str text len in
  let '(b1,o1) := puts b0 0 (s ++ [0]) in
  if r + 1 <? len then
    match unit with
    | Some u =>
      let '(b2,o2) := strncat_ b1 (Z.to_nat r) [32] (len - r) in
      let '(b3,o3) := if r + 2 <? len then strncat_ b2 (Z.to_nat r + 1) u (len - r - k) else (b2,false) in
      (b3, o1||o2||o3)
    | None => (b1, o1)
    end
  else (b1, o1).

Lemma put_len b i v : length (fst (put b i v)) = length b.
Proof. revert i; induction b as [|c r IH]; intros [|i]; cbn; auto. specialize (IH i). destruct (put r i v); cbn in *. now rewrite IH. Qed.
Lemma put_ok b i v : (i < length b)%nat -> snd (put b i v) = false.
Proof. revert i; induction b as [|c r IH]; intros [|i] H; cbn in *; try lia; auto. specialize (IH i ltac:(lia)). destruct (put r i v); cbn in *. exact IH. Qed.
Lemma puts_ok : forall s b at_, (at_ + length s <= length b)%nat -> snd (puts b at_ s) = false /\ length (fst (puts b at_ s)) = length b.
Proof. induction s as [|c r IH]; intros b at_ H; [split; reflexivity|]. cbn [puts]. cbn [length] in H.
  pose proof (put_ok b at_ c ltac:(lia)) as Ho. pose proof (put_len b at_ c) as Hl. destruct (put b at_ c) as [b1 o1]; cbn [fst snd] in *.
  specialize (IH b1 (S at_) ltac:(lia)). destruct (puts b1 (S at_) r) as [b2 o2]; cbn [fst snd] in *. destruct IH as [I1 I2].
  split; [now rewrite Ho, I1|lia]. Qed.

Theorem number_to_str_fixed_bounded text unit len : 0 <= len -> snd (number_to_str_k 2 text unit len) = false.
Proof.
  intros Hl. unfold number_to_str_k. destruct (Z.eqb_spec len 0) as [|Hne]; [reflexivity|].
  unfold fp_to_str. destruct (Z.eqb_spec len 0); [contradiction|].
  set (s := firstn (Z.to_nat (len - 1)) text).
  assert (Hs : Z.of_nat (length s) <= len - 1) by (unfold s; rewrite firstn_length; lia).
  set (b0 := repeat None (Z.to_nat len) : buf).
  assert (Hb0 : length b0 = Z.to_nat len) by (unfold b0; apply repeat_length).
  destruct (puts_ok (s ++ [0]) b0 0 ltac:(rewrite app_length; cbn [length]; lia)) as [O1 L1].
  destruct (puts b0 0 (s ++ [0])) as [b1 o1]; cbn [fst snd] in *. subst o1.
  destruct (Z.ltb_spec (Z.of_nat (length s) + 1) len) as [H1|H1]; [|reflexivity].
  destruct unit as [u|]; [|reflexivity]. unfold strncat_.
  assert (Hsp : firstn (Z.to_nat (len - Z.of_nat (length s))) [32] = [32]) by (replace (Z.to_nat (len - Z.of_nat (length s))) with (S (Z.to_nat (len - Z.of_nat (length s) - 1))) by lia; cbn [firstn]; now rewrite firstn_nil).
  rewrite Hsp. rewrite Nat2Z.id.
  destruct (puts_ok ([32] ++ [0]) b1 (length s) ltac:(cbn [length app]; lia)) as [O2 L2].
  destruct (puts b1 (length s) ([32] ++ [0])) as [b2 o2]; cbn [fst snd] in *. subst o2.
  destruct (Z.ltb_spec (Z.of_nat (length s) + 2) len) as [H2|H2]; [|reflexivity].
  assert (Hu : (length (firstn (Z.to_nat (len - Z.of_nat (length s) - 2)) u) <= Z.to_nat (len - Z.of_nat (length s) - 2))%nat) by (rewrite firstn_length; lia).
  destruct (puts_ok (firstn (Z.to_nat (len - Z.of_nat (length s) - 2)) u ++ [0]) b2 (length s + 1) ltac:(rewrite app_length; cbn [length]; lia)) as [O3 _].
  destruct (puts b2 (length s + 1) _) as [b3 o3]; cbn [fst snd] in *. subst o3. reflexivity.
Qed.
(* the code as it is: "10.5" with unit "OHM" into 7 bytes *)
Example number_to_str_current_overflows : snd (number_to_str_k 1 [49;48;46;53] (Some [79;72;77]) 7) = true.
Proof. vm_compute. reflexivity. Qed.
(* the model function itself (BufModel.number_to_str, which the correspondence check runs against SCPI_NumberToStr) *)
Lemma number_to_str_flag bits unit len :
  snd (number_to_str bits unit len) = snd (number_to_str_k 2 (GFmt.fmt_double 15 bits) unit len).
Proof.
  unfold number_to_str, number_to_str_k, double_to_str. destruct (len =? 0); [reflexivity|].
  destruct (fp_to_str (GFmt.fmt_double 15 bits) len) as [[[s n] r] u].
  destruct (puts (repeat None (Z.to_nat len)) 0 (s ++ [0])) as [b1 o1].
  destruct (r + 1 <? len); [|reflexivity]. destruct unit as [un|]; [|reflexivity].
  destruct (strncat_ b1 (Z.to_nat r) [32] (len - r)) as [b2 o2].
  destruct (r + 2 <? len); [|reflexivity].
  destruct (strncat_ b2 (Z.to_nat r + 1) un (len - r - 2)) as [b3 o3]. reflexivity.
Qed.
Theorem number_to_str_bounded bits unit len : 0 <= len -> snd (number_to_str bits unit len) = false.
Proof. intro H. rewrite number_to_str_flag. now apply number_to_str_fixed_bounded. Qed.
Print Assumptions number_to_str_bounded.
